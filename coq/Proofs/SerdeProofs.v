(* C12 proofs: deserialization is safe on arbitrary payloads (it replays through the C11 step
   function, which preserves the invariant), serialization is canonical. *)
From CC Require Import Base.Prelude Model.Api Model.Serde Proofs.ApiProofs.
Local Open Scope N_scope.

(* ------------------------------------------------------------------ safety of deser *)
Definition safeP (Q : state -> Prop) (r : result state) : Prop :=
  match r with Ok s => Q s | Err => True | Panic => False | OutOfFuel => False end.

Lemma safeP_bind (Q Q' : state -> Prop) (r : result state) (f : state -> result state) :
  safeP Q r -> (forall s, Q s -> safeP Q' (f s)) -> safeP Q' (bind r f).
Proof. destruct r; cbn; auto. Qed.
Lemma safeP_weaken (Q Q' : state -> Prop) r : (forall s, Q s -> Q' s) -> safeP Q r -> safeP Q' r.
Proof. destruct r; cbn; auto. Qed.
Lemma foldM_safeP {A} (Q : state -> Prop) (f : state -> A -> result state) l :
  (forall s x, In x l -> Q s -> safeP Q (f s x)) -> forall s, Q s -> safeP Q (foldM f l s).
Proof.
  induction l as [|x r IH]; intros H s Hs; cbn; [exact Hs|].
  eapply safeP_bind; [apply H; [left; reflexivity|exact Hs]|].
  intros s' Hs'. apply IH; [|exact Hs']. intros s0 y Hy. apply H. right; exact Hy.
Qed.

Lemma rstep_ok s c s' : rstep s c = Ok s' -> s' = fst (step s c).
Proof. unfold rstep. destruct (step s c) as [s1 [v|e]]; [intros [= <-]; reflexivity|discriminate]. Qed.
Lemma rstep_safe s c : Inv s -> safeP Inv (rstep s c).
Proof.
  intros H. destruct (rstep s c) eqn:E; cbn; auto.
  - apply rstep_ok in E. subst. apply (inv_step s c H).
  - unfold rstep in E. destruct (step s c) as [s1 [v|e]]; discriminate.
  - unfold rstep in E. destruct (step s c) as [s1 [v|e]]; discriminate.
Qed.

(* the table-filling calls do not touch the graphs *)
Definition table_call (c : call) : bool :=
  match c with
  | SetGraphName _ _ | SetNodeName _ _ | AddNodeAnnot _ _ | AddGraphAnnot _ _ => true
  | _ => false
  end.
Lemma table_call_graphs s c : table_call c = true -> graphs (fst (step s c)) = graphs s.
Proof.
  destruct c; try discriminate; intros _; cbn [step].
  - unfold set_graph_name. destruct (gh_ok s g); cbn [negb]; [|reflexivity].
    destruct (gh_own g); cbn [negb]; [|reflexivity]. destruct (ctx_fin s); [reflexivity|].
    destruct (lookup N.eqb (gh_id g) (gnames s)); [reflexivity|].
    destruct (lookup String.eqb name (gnames_inv s)); reflexivity.
  - unfold set_node_name. destruct (nh_ok s n); cbn [negb]; [|reflexivity].
    destruct (nh_own n); cbn [negb]; [|reflexivity]. destruct (ctx_fin s); [reflexivity|].
    destruct (lookup keq2 (nh_gid n, nh_nid n) (nnames s)); [reflexivity|].
    destruct (lookup keqs (nh_gid n, name) (nnames_inv s)); reflexivity.
  - unfold add_node_annot. destruct (nh_ok s n); cbn [negb]; [|reflexivity].
    destruct (nh_own n); cbn [negb]; [|reflexivity]. destruct (ctx_fin s); reflexivity.
  - unfold add_graph_annot. destruct (gh_ok s g); cbn [negb]; [|reflexivity].
    destruct (gh_own g); cbn [negb]; [|reflexivity]. destruct (ctx_fin s); reflexivity.
Qed.

Definition QG (G : list graph) (s : state) : Prop := Inv s /\ graphs s = G.
Lemma rstep_table_safe G s c : table_call c = true -> QG G s -> safeP (QG G) (rstep s c).
Proof.
  intros Hc [Hi Hg]. pose proof (rstep_safe s c Hi) as H.
  destruct (rstep s c) eqn:E; cbn in *; auto.
  split; [exact H|]. rewrite (rstep_ok _ _ _ E). rewrite table_call_graphs by exact Hc. exact Hg.
Qed.

Section DeserSafe.
  Variable tc : state -> N -> N -> list N -> list N -> tcans.

  Lemma recover_node_safe g s n : Inv s -> safeP Inv (recover_node tc g s n).
  Proof.
    intros H. unfold recover_node.
    destruct (forallb _ (sn_deps n)); cbn [negb]; [|exact I].
    destruct (forallb _ (sn_gdeps n)); cbn [negb]; [|exact I].
    now apply rstep_safe.
  Qed.

  Lemma recover_graph_safe s sg : Inv s -> safeP Inv (recover_graph tc s sg).
  Proof.
    intros H. unfold recover_graph.
    eapply safeP_bind; [apply rstep_safe, H|]. intros s0 H0.
    eapply safeP_bind; [apply foldM_safeP; [|exact H0]; intros; now apply recover_node_safe|].
    intros s1 H1.
    eapply safeP_bind with (Q := Inv).
    - destruct (sg_out sg) as [id|]; [|exact H1].
      destruct (id <? ncount s1 (lenN (graphs s))); [now apply rstep_safe|exact I].
    - intros s2 H2. destruct (sg_fin sg); [now apply rstep_safe|exact H2].
  Qed.

  Lemma forallb_In {A} (p : A -> bool) l x : forallb p l = true -> In x l -> p x = true.
  Proof. intros H Hx. rewrite forallb_forall in H. auto. Qed.

  Theorem deser_safe x : safeP Inv (deser tc x).
  Proof.
    unfold deser.
    eapply safeP_bind; [apply foldM_safeP; [|exact inv_init]; intros; now apply recover_graph_safe|].
    intros s1 H1.
    eapply safeP_bind with (Q := Inv).
    { destruct (sc_main x) as [id|]; [|exact H1].
      destruct (id <? lenN (graphs s1)); [now apply rstep_safe|exact I]. }
    intros s2 H2.
    destruct (in_range1 s2 (sc_gnames x)) eqn:R1; cbn [negb]; [|exact I].
    destruct (in_range2 s2 (sc_nnames x)) eqn:R2; cbn [negb]; [|exact I].
    destruct (in_range1 s2 (sc_gannots x)) eqn:R3; cbn [negb]; [|exact I].
    destruct (in_range2 s2 (sc_nannots x)) eqn:R4; cbn [negb]; [|exact I].
    assert (Q2 : QG (graphs s2) s2) by (split; [exact H2|reflexivity]).
    assert (IG : forall s g, QG (graphs s2) s -> g <? lenN (graphs s2) = true -> index_graph s g = Ok tt).
    { intros s g [_ E] Hg. unfold index_graph. rewrite E. now rewrite Hg. }
    assert (IN : forall s k, QG (graphs s2) s ->
              (if fst k <? lenN (graphs s2) then snd k <? ncount s2 (fst k) else false) = true ->
              index_node s k = Ok tt).
    { intros s k [_ E] Hk. destruct (fst k <? lenN (graphs s2)) eqn:K1; [|discriminate]. unfold index_node.
      rewrite (ncount_graphs_eq s2 s (fst k) E). rewrite E. now rewrite K1, Hk. }
    eapply safeP_bind with (Q := QG (graphs s2)).
    { apply foldM_safeP; [|exact Q2]. intros s p Hp Qs.
      rewrite (IG s (fst p) Qs (forallb_In _ _ _ R1 Hp)). cbn [bind].
      now apply rstep_table_safe. }
    intros s3 Q3.
    eapply safeP_bind with (Q := QG (graphs s2)).
    { apply foldM_safeP; [|exact Q3]. intros s p Hp Qs.
      rewrite (IN s (fst p) Qs (forallb_In _ _ _ R2 Hp)). cbn [bind].
      now apply rstep_table_safe. }
    intros s4 Q4.
    eapply safeP_bind with (Q := QG (graphs s2)).
    { apply foldM_safeP; [|exact Q4]. intros s p Hp Qs.
      rewrite (IG s (fst p) Qs (forallb_In _ _ _ R3 Hp)). cbn [bind].
      apply foldM_safeP; [|exact Qs]. intros s' a _ Qs'. now apply rstep_table_safe. }
    intros s5 Q5.
    eapply safeP_bind with (Q := QG (graphs s2)).
    { apply foldM_safeP; [|exact Q5]. intros s p Hp Qs.
      rewrite (IN s (fst p) Qs (forallb_In _ _ _ R4 Hp)). cbn [bind].
      apply foldM_safeP; [|exact Qs]. intros s' a _ Qs'. now apply rstep_table_safe. }
    intros s6 [H6 _].
    destruct (sc_fin x); [now apply rstep_safe|exact H6].
  Qed.

  Theorem deser_env_safe e : safeP Inv (deser_env tc e).
  Proof. unfold deser_env. destruct (fst e =? DATA_VERSION); cbn [negb]; [apply deser_safe|exact I]. Qed.
End DeserSafe.

(* ------------------------------------------------------------------ canonical serialization *)
Lemma ncount_via_ser s g :
  ncount s g = match nthN (map ser_graph (graphs s)) g with
               | Some sg => lenN (sg_nodes sg) | None => 0 end.
Proof.
  unfold ncount, nthN. rewrite nth_error_map. destruct (nth_error (graphs s) (N.to_nat g)); cbn; [|reflexivity].
  unfold lenN. now rewrite map_length.
Qed.
Lemma flat_map_ext' {A B} (f g : A -> list B) l : (forall a, f a = g a) -> flat_map f l = flat_map g l.
Proof. intros H. induction l as [|x r IH]; cbn; [reflexivity|]. now rewrite H, IH. Qed.

Lemma deep_equal_refl s : deep_equal s s.
Proof. repeat split. Qed.

(* contexts that are deeply equal (whatever the internal order of their tables) serialize to the
   same payload; in particular serializing one context twice gives the same payload *)
Lemma ser_deterministic s1 s2 : deep_equal s1 s2 -> ser_env s1 = ser_env s2.
Proof.
  intros (E1 & T1 & T2 & T3 & T4 & EG & EM).
  assert (Hids : graph_ids s1 = graph_ids s2).
  { unfold graph_ids. f_equal. rewrite <- (map_length ser_graph (graphs s1)), EG. apply map_length. }
  assert (Hn : forall g, ncount s1 g = ncount s2 g).
  { intros g. rewrite !ncount_via_ser. now rewrite EG. }
  assert (Hnids : node_ids s1 = node_ids s2).
  { unfold node_ids. rewrite Hids. apply flat_map_ext'. intros g. now rewrite Hn. }
  unfold ser_env, ser. f_equal. unfold ser_table1, ser_table2. rewrite E1, EG, EM, Hids, Hnids.
  f_equal; apply flat_map_ext'; intros k.
  - now rewrite T1.
  - now rewrite T2.
  - now rewrite T3.
  - now rewrite T4.
Qed.

(* ------------------------------------------------------------------ round trip *)
(* the type checker accepts a node (and the size limits are met) *)
Definition accepting (s : state) (a : tcans) : Prop :=
  (exists t, a_ty a = Some t) /\
  (exists sz, a_sz a = Some sz /\ sz <= MAX_INDIVIDUAL_NODE_SIZE) /\
  (a_in a = None \/ exists n, a_in a = Some (Some n) /\ total s + n <= MAX_TOTAL_SIZE_NODES).

Definition rest_eq (t t' : state) : Prop :=
  main t' = main t /\ ctx_fin t' = ctx_fin t /\ gnames t' = gnames t /\ gnames_inv t' = gnames_inv t /\
  nnames t' = nnames t /\ nnames_inv t' = nnames_inv t /\ nannots t' = nannots t /\ gannots t' = gannots t.
Lemma rest_eq_refl t : rest_eq t t.
Proof. repeat split. Qed.
Lemma rest_eq_trans a b c : rest_eq a b -> rest_eq b c -> rest_eq a c.
Proof.
  intros (A1 & A2 & A3 & A4 & A5 & A6 & A7 & A8) (B1 & B2 & B3 & B4 & B5 & B6 & B7 & B8).
  repeat split; congruence.
Qed.

Lemma register_result_fields s k t :
  graphs (register_result s k t) = graphs s /\ total (register_result s k t) = total s /\
  rest_eq s (register_result s k t).
Proof. unfold register_result. destruct (lookup keq2 k (types s)); repeat split. Qed.

Lemma add_node_accept t g gr op deps gdeps ans :
  nthN (graphs t) g = Some gr -> g_fin gr = false ->
  forallb (node_dep_ok g (lenN (g_nodes gr))) deps = true ->
  forallb (graph_dep_ok t g) gdeps = true ->
  accepting t ans ->
  exists t', rstep t (AddNode g op deps gdeps None ans) = Ok t' /\
    graphs t' = updN (graphs t) g (fun gr0 => mkGraph (g_id gr0) (g_fin gr0)
                  (g_nodes gr0 ++ [mkNode (lenN (g_nodes gr)) op deps gdeps]) (g_out gr0)) /\
    rest_eq t t'.
Proof.
  intros Hg Hf Hd Hgd ((ty & Hty) & (sz & Hsz & Hle) & Hin).
  unfold rstep; cbn [step]. unfold add_node. cbv zeta. rewrite Hg, Hf, Hd, Hgd. cbn [negb].
  rewrite Hty, Hsz.
  assert (L1 : MAX_INDIVIDUAL_NODE_SIZE <? sz = false) by (apply N.ltb_ge; exact Hle). rewrite L1.
  set (s1 := push_node t g (mkNode (lenN (g_nodes gr)) op deps gdeps)).
  destruct (register_result_fields s1 (g, lenN (g_nodes gr)) ty) as (R1 & R2 & R3).
  assert (R0 : rest_eq t s1) by (repeat split).
  destruct Hin as [Hin | (n & Hin & Hn)]; rewrite Hin.
  - eexists. split; [reflexivity|]. split; [exact R1|]. eapply rest_eq_trans; eauto.
  - rewrite R2. change (total s1) with (total t).
    assert (L2 : MAX_TOTAL_SIZE_NODES <? total t + n = false) by (apply N.ltb_ge; exact Hn). rewrite L2.
    eexists. split; [reflexivity|]. split; [exact R1|].
    eapply rest_eq_trans; [exact R0|]. eapply rest_eq_trans; [exact R3|]. repeat split.
Qed.

Lemma create_graph_accept t :
  ctx_fin t = false ->
  exists t', rstep t CreateGraph = Ok t' /\
    graphs t' = graphs t ++ [mkGraph (lenN (graphs t)) false [] None] /\ rest_eq t t'.
Proof.
  intros Hc. unfold rstep; cbn [step]. unfold create_graph. rewrite Hc.
  eexists. split; [reflexivity|]. split; [reflexivity|repeat split].
Qed.

Lemma set_output_accept t g gr o :
  nthN (graphs t) g = Some gr -> g_out gr = None -> o < lenN (g_nodes gr) ->
  exists t', rstep t (SetOutput g (NH self g o)) = Ok t' /\
    graphs t' = updN (graphs t) g (fun gr0 => mkGraph (g_id gr0) (g_fin gr0) (g_nodes gr0) (Some o)) /\
    rest_eq t t'.
Proof.
  intros Hg Ho Hlt. unfold rstep; cbn [step]. unfold set_output. rewrite Hg.
  assert (Hok : nh_ok t (NH self g o) = true).
  { cbn [nh_ok]. unfold node_exists, ncount. rewrite Hg. apply orb_true_iff. right. now apply N.ltb_lt. }
  rewrite Hok, Ho. cbn [negb nh_own nh_gid nh_nid]. rewrite !N.eqb_refl. cbn [andb negb].
  eexists. split; [reflexivity|]. split; [reflexivity|repeat split].
Qed.

Lemma finalize_graph_accept t g gr o :
  nthN (graphs t) g = Some gr -> g_out gr = Some o ->
  exists t', rstep t (FinalizeGraph g) = Ok t' /\
    graphs t' = updN (graphs t) g (fun gr0 => mkGraph (g_id gr0) true (g_nodes gr0) (g_out gr0)) /\
    rest_eq t t'.
Proof.
  intros Hg Ho. unfold rstep; cbn [step]. unfold finalize_graph. rewrite Hg, Ho.
  eexists. split; [reflexivity|]. split; [reflexivity|repeat split].
Qed.

Lemma deps_roundtrip g id deps :
  forallb (node_dep_ok g id) deps = true ->
  map (NH self g) (map nh_nid deps) = deps /\ forallb (fun d => d <? id) (map nh_nid deps) = true.
Proof.
  induction deps as [|[c dg dn] r IH]; cbn [forallb map]; [auto|].
  rewrite andb_true_iff. intros [H1 H2]. destruct (IH H2) as [A B].
  cbn in H1. apply andb_true_iff in H1 as [H1 H3]. apply andb_true_iff in H1 as [H0 H1].
  apply N.eqb_eq in H0, H1. subst. cbn [nh_nid]. rewrite A, B, H3. auto.
Qed.
Lemma gdeps_roundtrip s g gdeps :
  forallb (graph_dep_ok s g) gdeps = true ->
  map (GH self) (map gh_id gdeps) = gdeps /\
  forallb (fun h => (h <? g) && graph_finalized s h) (map gh_id gdeps) = true.
Proof.
  induction gdeps as [|[c dg] r IH]; cbn [forallb map]; [auto|].
  rewrite andb_true_iff. intros [H1 H2]. destruct (IH H2) as [A B].
  cbn in H1. apply andb_true_iff in H1 as [H1 H3]. apply andb_true_iff in H1 as [H0 H1].
  apply N.eqb_eq in H3. subst. cbn [gh_id]. rewrite A, B, H0, H1. auto.
Qed.

Lemma nthN_app_l {A} (l r : list A) i : i < lenN l -> nthN (l ++ r) i = nthN l i.
Proof. unfold nthN, lenN. intros H. apply nth_error_app1. lia. Qed.
Lemma nthN_app_mid {A} (l r : list A) x : nthN (l ++ x :: r) (lenN l) = Some x.
Proof. unfold nthN, lenN. rewrite Nat2N.id, nth_error_app2 by lia. now rewrite Nat.sub_diag. Qed.
Lemma updN_app_last {A} (l : list A) x f : updN (l ++ [x]) (lenN l) f = l ++ [f x].
Proof.
  unfold updN, lenN. rewrite Nat2N.id. induction l as [|y r IH]; cbn; [reflexivity|]. now rewrite IH.
Qed.
Lemma updN_app_last' {A} (l : list A) x f k : lenN l = k -> updN (l ++ [x]) k f = l ++ [f x].
Proof. intros <-. apply updN_app_last. Qed.
Lemma nthN_app_new' {A} (l : list A) x k : lenN l = k -> nthN (l ++ [x]) k = Some x.
Proof. intros <-. apply nthN_app_new. Qed.
Lemma lenN_app {A} (l r : list A) : lenN (l ++ r) = lenN l + lenN r.
Proof. unfold lenN. rewrite app_length. lia. Qed.

Section RoundTrip.
  Variable tc : state -> N -> N -> list N -> list N -> tcans.
  Variable s : state.
  (* the type checker accepts the nodes of [s] again, in whatever context they are replayed *)
  Hypothesis tc_accepts : forall t g gr j nd,
    nthN (graphs s) g = Some gr -> nth_error (g_nodes gr) j = Some nd ->
    accepting t (tc t g (n_op nd) (map nh_nid (n_deps nd)) (map gh_id (n_gdeps nd))).
  Hypothesis HI : Inv s.

  Lemma node_eta nd : mkNode (n_id nd) (n_op nd) (n_deps nd) (n_gdeps nd) = nd.
  Proof. destruct nd; reflexivity. Qed.

  (* replaying the remaining nodes of graph k, whose rebuilt prefix is [done] *)
  Lemma replay_nodes k gr pre :
    nthN (graphs s) k = Some gr -> lenN pre = k ->
    (forall h, h < k -> nthN pre h = nthN (graphs s) h) ->
    forall rest done t,
      g_nodes gr = done ++ rest ->
      graphs t = pre ++ [mkGraph k false done None] ->
      exists t', foldM (recover_node tc k) (map ser_node rest) t = Ok t' /\
                 graphs t' = pre ++ [mkGraph k false (g_nodes gr) None] /\ rest_eq t t'.
  Proof.
    intros Hgr Hlen Hpre. destruct HI as [(Hg & _) _].
    pose proof (Hg _ _ Hgr) as (Gid & Gn & _). rewrite N2Nat.id in Gid.
    induction rest as [|nd rest IH]; intros done t Hsplit Hgt.
    - exists t. rewrite app_nil_r in Hsplit. subst done. split; [reflexivity|]. split; [exact Hgt|apply rest_eq_refl].
    - assert (Hnd : nth_error (g_nodes gr) (length done) = Some nd).
      { rewrite Hsplit, nth_error_app2, Nat.sub_diag by lia. reflexivity. }
      destruct (Gn _ _ Hnd) as (N1 & N2 & N3). rewrite Gid in N2, N3.
      destruct (deps_roundtrip _ _ _ N2) as [D1 D2]. destruct (gdeps_roundtrip _ _ _ N3) as [E1 E2].
      set (partial := mkGraph k false done None) in *.
      assert (Hk : nthN (graphs t) k = Some partial) by (rewrite Hgt; apply nthN_app_new'; exact Hlen).
      assert (Hcnt : ncount t k = n_id nd).
      { unfold ncount. rewrite Hk. unfold partial, lenN; cbn [g_nodes]. rewrite N1. reflexivity. }
      cbn [map foldM]. unfold recover_node at 1. cbn [ser_node sn_deps sn_gdeps sn_op].
      rewrite Hcnt, D2. cbn [negb].
      assert (R2 : forallb (fun d => d <? lenN (graphs t)) (map gh_id (n_gdeps nd)) = true).
      { revert E2. apply forallb_impl. intros h Hh. apply andb_true_iff in Hh as [Hh _].
        apply N.ltb_lt in Hh. apply N.ltb_lt. rewrite Hgt, lenN_app1. lia. }
      rewrite R2. cbn [negb]. rewrite D1, E1.
      assert (Hgd : forallb (graph_dep_ok t k) (n_gdeps nd) = true).
      { rewrite <- E1. rewrite forallb_forall in E2. apply forallb_forall. intros d Hd.
        apply in_map_iff in Hd as (h & <- & Hh). specialize (E2 h Hh).
        apply andb_true_iff in E2 as [L F]. cbn [graph_dep_ok]. rewrite L, N.eqb_refl.
        apply N.ltb_lt in L. unfold graph_finalized in *. rewrite Hgt, nthN_app_l by lia.
        rewrite (Hpre h L). rewrite F. reflexivity. }
      destruct (add_node_accept t k partial (n_op nd) (n_deps nd) (n_gdeps nd)
                  (tc t k (n_op nd) (map nh_nid (n_deps nd)) (map gh_id (n_gdeps nd)))
                  Hk eq_refl) as (t1 & S1 & G1 & Q1).
      { unfold partial, lenN; cbn [g_nodes]. rewrite <- N1. exact N2. }
      { exact Hgd. }
      { eapply tc_accepts; eauto. }
      rewrite S1. cbn [bind].
      assert (G1' : graphs t1 = pre ++ [mkGraph k false (done ++ [nd]) None]).
      { rewrite G1, Hgt, (updN_app_last' _ _ _ _ Hlen). unfold partial, lenN; cbn [g_id g_fin g_nodes g_out].
        rewrite <- N1, node_eta. reflexivity. }
      destruct (IH (done ++ [nd]) t1) as (t' & F' & G' & Q').
      { rewrite <- app_assoc. exact Hsplit. }
      { exact G1'. }
      exists t'. split; [exact F'|]. split; [exact G'|]. eapply rest_eq_trans; eauto.
  Qed.

  Lemma graph_eta gr : mkGraph (g_id gr) (g_fin gr) (g_nodes gr) (g_out gr) = gr.
  Proof. destruct gr; reflexivity. Qed.

  (* replaying one whole graph *)
  Lemma replay_graph k gr pre t :
    nthN (graphs s) k = Some gr -> lenN pre = k ->
    (forall h, h < k -> nthN pre h = nthN (graphs s) h) ->
    graphs t = pre -> ctx_fin t = false ->
    exists t', recover_graph tc t (ser_graph gr) = Ok t' /\ graphs t' = pre ++ [gr] /\ rest_eq t t'.
  Proof.
    intros Hgr Hlen Hpre Hgt Hc. destruct HI as [(Hg & _) _].
    pose proof (Hg _ _ Hgr) as (Gid & _ & Gout & Gfin). rewrite N2Nat.id in Gid.
    unfold recover_graph. rewrite Hgt, Hlen.
    destruct (create_graph_accept t Hc) as (t0 & S0 & G0 & Q0). rewrite S0. cbn [bind].
    rewrite Hgt, Hlen in G0.
    destruct (replay_nodes k gr pre Hgr Hlen Hpre (g_nodes gr) [] t0 eq_refl G0) as (t1 & S1 & G1 & Q1).
    cbn [ser_graph sg_nodes sg_out sg_fin]. rewrite S1. cbn [bind].
    set (full := mkGraph k false (g_nodes gr) None) in *.
    assert (K1 : nthN (graphs t1) k = Some full) by (rewrite G1; apply nthN_app_new'; exact Hlen).
    assert (C1 : ncount t1 k = lenN (g_nodes gr)) by (unfold ncount; rewrite K1; reflexivity).
    destruct (g_out gr) as [o|] eqn:Ho.
    - pose proof (Gout o eq_refl) as Hlt. rewrite C1. apply N.ltb_lt in Hlt. rewrite Hlt.
      apply N.ltb_lt in Hlt.
      destruct (set_output_accept t1 k full o K1 eq_refl Hlt) as (t2 & S2 & G2 & Q2).
      rewrite S2. cbn [bind].
      rewrite G1, (updN_app_last' _ _ _ _ Hlen) in G2. unfold full in G2. cbn [g_id g_fin g_nodes g_out] in G2.
      destruct (g_fin gr) eqn:Hf.
      + assert (K2 : nthN (graphs t2) k = Some (mkGraph k false (g_nodes gr) (Some o)))
          by (rewrite G2; apply nthN_app_new'; exact Hlen).
        destruct (finalize_graph_accept t2 k _ o K2 eq_refl) as (t3 & S3 & G3 & Q3).
        rewrite S3. exists t3. split; [reflexivity|]. split.
        * rewrite G3, G2, (updN_app_last' _ _ _ _ Hlen). cbn [g_id g_fin g_nodes g_out].
          rewrite <- Gid, <- Hf, <- Ho. now rewrite graph_eta.
        * eapply rest_eq_trans; [exact Q0|]. eapply rest_eq_trans; [exact Q1|].
          eapply rest_eq_trans; [exact Q2|exact Q3].
      + exists t2. split; [reflexivity|]. split.
        * rewrite G2. rewrite <- Gid, <- Hf, <- Ho. now rewrite graph_eta.
        * eapply rest_eq_trans; [exact Q0|]. eapply rest_eq_trans; [exact Q1|exact Q2].
    - cbn [bind]. destruct (g_fin gr) eqn:Hf; [exfalso; apply (Gfin eq_refl); reflexivity|].
      exists t1. split; [reflexivity|]. split.
      + rewrite G1. unfold full. rewrite <- Gid, <- Hf, <- Ho. now rewrite graph_eta.
      + eapply rest_eq_trans; [exact Q0|exact Q1].
  Qed.

  Lemma replay_graphs :
    forall rest done t,
      graphs s = done ++ rest -> graphs t = done -> ctx_fin t = false ->
      exists t', foldM (recover_graph tc) (map ser_graph rest) t = Ok t' /\
                 graphs t' = graphs s /\ rest_eq t t'.
  Proof.
    induction rest as [|gr rest IH]; intros done t Hsplit Hgt Hc.
    - exists t. rewrite app_nil_r in Hsplit. split; [reflexivity|]. split; [congruence|apply rest_eq_refl].
    - assert (Hgr : nthN (graphs s) (lenN done) = Some gr) by (rewrite Hsplit; apply nthN_app_mid).
      destruct (replay_graph (lenN done) gr done t Hgr eq_refl) as (t1 & S1 & G1 & Q1); auto.
      { intros h Hh. rewrite Hsplit. symmetry. now apply nthN_app_l. }
      cbn [map foldM]. rewrite S1. cbn [bind].
      destruct (IH (done ++ [gr]) t1) as (t' & F' & G' & Q').
      { rewrite <- app_assoc. exact Hsplit. }
      { exact G1. }
      { destruct Q1 as (_ & Q1 & _). congruence. }
      exists t'. split; [exact F'|]. split; [exact G'|]. eapply rest_eq_trans; eauto.
  Qed.

  Lemma ser_table1_nil {V} l : flat_map (fun g => opt_entry g (lookup N.eqb g ([] : list (N * V)))) l = [].
  Proof. induction l; cbn; auto. Qed.
  Lemma ser_table2_nil {V} l : flat_map (fun k => opt_entry k (lookup keq2 k ([] : list ((N * N) * V)))) l = [].
  Proof. induction l; cbn; auto. Qed.

  (* round trip for contexts without names and annotations *)
  Hypothesis no_tables : gnames s = [] /\ nnames s = [] /\ nannots s = [] /\ gannots s = [].

  Theorem ser_deser_partial : exists s', deser_env tc (ser_env s) = Ok s' /\ deep_equal s s'.
  Proof.
    destruct no_tables as (T1 & T2 & T3 & T4).
    pose proof HI as [(Hg & [M1 M2] & _) _].
    unfold deser_env, ser_env. cbn [fst snd]. rewrite N.eqb_refl. cbn [negb].
    unfold deser, ser. cbn [sc_graphs sc_main sc_gnames sc_nnames sc_gannots sc_nannots sc_fin].
    unfold ser_table1, ser_table2. rewrite T1, T2, T3, T4.
    rewrite !ser_table1_nil, !ser_table2_nil.
    destruct (replay_graphs (graphs s) [] init eq_refl eq_refl eq_refl) as (t1 & S1 & G1 & Q1).
    rewrite S1. cbn [bind].
    destruct Q1 as (Q1 & Q2 & Q3 & Q4 & Q5 & Q6 & Q7 & Q8). cbn [init main ctx_fin gnames gnames_inv nnames nnames_inv nannots gannots] in *.
    assert (Hmain : exists t2, match main s with
                      | Some id => if id <? lenN (graphs t1) then rstep t1 (SetMain (GH self id)) else Err
                      | None => Ok t1 end = Ok t2 /\ graphs t2 = graphs s /\ main t2 = main s /\
                      ctx_fin t2 = false /\ gnames t2 = [] /\ nnames t2 = [] /\ nannots t2 = [] /\ gannots t2 = []).
    { destruct (main s) as [m|] eqn:Em.
      - pose proof (M1 m eq_refl) as Hf. pose proof (gfin_lt _ _ Hf) as Hlt.
        rewrite G1. apply N.ltb_lt in Hlt. rewrite Hlt.
        unfold rstep; cbn [step]. unfold set_main. cbn [gh_ok gh_own gh_id].
        unfold graph_exists. rewrite N.eqb_refl. cbn [negb orb].
        assert (Hf1 : graph_finalized t1 m = true) by (unfold graph_finalized in *; now rewrite G1).
        assert (He : exists x, nthN (graphs t1) m = Some x).
        { rewrite G1. apply nthN_some. now apply N.ltb_lt. }
        destruct He as [x He]. rewrite He, Q1, Hf1. cbn [negb].
        eexists. split; [reflexivity|]. cbn. repeat split; assumption.
      - exists t1. repeat split; assumption. }
    destruct Hmain as (t2 & S2 & G2 & M & C2 & N1 & N2 & N3 & N4).
    rewrite S2. cbn [bind in_range1 in_range2 forallb negb foldM].
    destruct (ctx_fin s) eqn:Ec.
    - destruct (M2 eq_refl) as [Hall Hm].
      unfold rstep; cbn [step]. unfold finalize_ctx. rewrite G2, Hall. cbn [negb]. rewrite M.
      destruct (main s) as [m|] eqn:Em; [|congruence].
      eexists. split; [reflexivity|].
      unfold deep_equal, table_eq. cbn [ctx_fin gnames nnames nannots gannots graphs main].
      rewrite ?T1, ?T2, ?T3, ?T4, ?N1, ?N2, ?N3, ?N4, ?G2, ?M. repeat split; auto.
    - exists t2. split; [reflexivity|].
      unfold deep_equal, table_eq.
      rewrite ?T1, ?T2, ?T3, ?T4, ?N1, ?N2, ?N3, ?N4, ?G2, ?M, ?C2, ?Ec. repeat split; auto.
  Qed.
End RoundTrip.

(* ------------------------------------------------------------------ serialized tables *)
Section TableLemmas.
  Context {K V : Type} (keq : K -> K -> bool).
  Hypothesis keq_spec : forall a b, keq a b = true <-> a = b.

  Lemma lookup_notin k (l : list (K * V)) : ~ In k (map fst l) -> lookup keq k l = None.
  Proof.
    induction l as [|[k' v] r IH]; cbn; [reflexivity|]. intros H.
    destruct (keq k k') eqn:E; [apply keq_spec in E; subst; tauto|]. apply IH. tauto.
  Qed.
  Lemma lookup_In k v (l : list (K * V)) : lookup keq k l = Some v -> In (k, v) l.
  Proof.
    induction l as [|[k' v'] r IH]; cbn; [discriminate|].
    destruct (keq k k') eqn:E; [apply keq_spec in E; subst; intros [= ->]; auto|auto].
  Qed.

  (* entries of the existing ids [ids], in that order *)
  Definition entries (ids : list K) (t : list (K * V)) : list (K * V) :=
    flat_map (fun k => opt_entry k (lookup keq k t)) ids.
  Lemma entries_In ids t k v : In (k, v) (entries ids t) -> In k ids /\ lookup keq k t = Some v.
  Proof.
    unfold entries. rewrite in_flat_map. intros (k0 & Hk & H).
    destruct (lookup keq k0 t) eqn:E; cbn in H; [|tauto]. destruct H as [[= <- <-]|[]]. auto.
  Qed.
  Lemma entries_keys_In ids t k : In k (map fst (entries ids t)) -> In k ids.
  Proof. rewrite in_map_iff. intros ([k0 v] & <- & H). now apply entries_In in H. Qed.
  Lemma entries_NoDup ids t : NoDup ids -> NoDup (map fst (entries ids t)).
  Proof.
    induction ids as [|k r IH]; intros H; cbn; [constructor|].
    apply NoDup_cons_iff in H as [H1 H2]. unfold entries in *. cbn [flat_map].
    destruct (lookup keq k t); cbn [opt_entry app map fst]; [|now apply IH].
    constructor; [|now apply IH]. intros Hin. apply H1. now apply (entries_keys_In r t).
  Qed.
  Lemma lookup_entries ids t k :
    lookup keq k (entries ids t) = if existsb (keq k) ids then lookup keq k t else None.
  Proof.
    induction ids as [|k0 r IH]; cbn [existsb]; [reflexivity|].
    unfold entries in *. cbn [flat_map].
    destruct (lookup keq k0 t) eqn:E; cbn [opt_entry app].
    - cbn [lookup]. destruct (keq k k0) eqn:E1; cbn [orb].
      + apply keq_spec in E1. subst. now rewrite E.
      + exact IH.
    - rewrite IH. destruct (keq k k0) eqn:E1; cbn [orb]; [|reflexivity].
      apply keq_spec in E1. subst. rewrite E. now destruct (existsb (keq k0) r).
  Qed.
End TableLemmas.

Lemma NoDup_values {K V} (l : list (K * V)) :
  NoDup (map fst l) -> (forall k1 k2 v, In (k1, v) l -> In (k2, v) l -> k1 = k2) -> NoDup (map snd l).
Proof.
  induction l as [|[k v] r IH]; intros Hk Hinj; cbn; [constructor|].
  cbn in Hk. apply NoDup_cons_iff in Hk as [Hk1 Hk2]. constructor.
  - intros Hin. apply in_map_iff in Hin as ([k' v'] & Hv & Hin). cbn in Hv. subst v'.
    assert (k = k') by (eapply Hinj; [left; reflexivity|right; exact Hin]). subst k'.
    apply Hk1. apply in_map_iff. exists (k, v). auto.
  - apply IH; [exact Hk2|]. intros k1 k2 v0 H1 H2. eapply Hinj; right; eauto.
Qed.

Lemma seqN_In a n k : In k (seqN a n) <-> a <= k < a + N.of_nat n.
Proof.
  revert a. induction n as [|n IH]; intros a; cbn [seqN In]; [lia|].
  rewrite IH. lia.
Qed.
Lemma seqN_NoDup a n : NoDup (seqN a n).
Proof.
  revert a. induction n as [|n IH]; intros a; cbn; constructor; [|apply IH].
  rewrite seqN_In. lia.
Qed.
Lemma existsb_seqN k n : existsb (N.eqb k) (seqN 0 n) = (k <? N.of_nat n).
Proof.
  destruct (existsb (N.eqb k) (seqN 0 n)) eqn:E.
  - apply existsb_exists in E as (x & Hx & Hk). apply N.eqb_eq in Hk. subst x.
    apply seqN_In in Hx. symmetry. apply N.ltb_lt. lia.
  - symmetry. apply N.ltb_ge. destruct (N.lt_ge_cases k (N.of_nat n)) as [Hl|Hl]; [|exact Hl].
    exfalso. assert (H : existsb (N.eqb k) (seqN 0 n) = true).
    { apply existsb_exists. exists k. split; [apply seqN_In; lia|apply N.eqb_refl]. }
    congruence.
Qed.

Lemma lookup_entries_full {K V} (keq : K -> K -> bool) (spec : forall a b, keq a b = true <-> a = b)
      ids (t : list (K * V)) k :
  (forall v, lookup keq k t = Some v -> In k ids) -> lookup keq k (entries keq ids t) = lookup keq k t.
Proof.
  intros H. rewrite (lookup_entries keq spec). destruct (existsb (keq k) ids) eqn:E; [reflexivity|].
  destruct (lookup keq k t) eqn:L; [|reflexivity]. exfalso.
  assert (E' : existsb (keq k) ids = true).
  { apply existsb_exists. exists k. split; [eapply H; eauto|now apply spec]. }
  congruence.
Qed.

Lemma NoDup_app_intro {A} (a b : list A) :
  NoDup a -> NoDup b -> (forall x, In x a -> ~ In x b) -> NoDup (a ++ b).
Proof.
  induction a as [|x r IH]; intros Ha Hb Hd; cbn; [exact Hb|].
  apply NoDup_cons_iff in Ha as [H1 H2]. constructor.
  - rewrite in_app_iff. intros [H|H]; [tauto|]. apply (Hd x); [left; reflexivity|exact H].
  - apply IH; auto. intros y Hy. apply Hd. right; exact Hy.
Qed.
Lemma NoDup_flat_map {A B} (f : A -> list B) l :
  NoDup l -> (forall x, NoDup (f x)) -> (forall x y z, In z (f x) -> In z (f y) -> x = y) ->
  NoDup (flat_map f l).
Proof.
  induction l as [|x r IH]; intros Hl Hf Hd; cbn; [constructor|].
  apply NoDup_cons_iff in Hl as [H1 H2]. apply NoDup_app_intro; auto.
  intros z Hz Hz'. apply in_flat_map in Hz' as (y & Hy & Hzy).
  assert (x = y) by (eapply Hd; eauto). subst. tauto.
Qed.

Lemma NoDup_map_inj {A B} (f : A -> B) l : (forall a b, f a = f b -> a = b) -> NoDup l -> NoDup (map f l).
Proof.
  intros Hf. induction l as [|x r IH]; intros H; cbn; [constructor|].
  apply NoDup_cons_iff in H as [H1 H2]. constructor; [|now apply IH].
  intros Hin. apply in_map_iff in Hin as (y & Hy & Hin). apply Hf in Hy. subst. tauto.
Qed.
Lemma graph_ids_In s g : In g (graph_ids s) <-> g < lenN (graphs s).
Proof. unfold graph_ids, lenN. rewrite seqN_In. lia. Qed.
Lemma node_ids_In s g n : In (g, n) (node_ids s) <-> g < lenN (graphs s) /\ n < ncount s g.
Proof.
  unfold node_ids. rewrite in_flat_map. split.
  - intros (g0 & Hg & H). apply in_map_iff in H as (n0 & [= <- <-] & Hn).
    apply graph_ids_In in Hg. apply seqN_In in Hn. lia.
  - intros [Hg Hn]. exists g. split; [now apply graph_ids_In|].
    apply in_map_iff. exists n. split; [reflexivity|]. apply seqN_In. lia.
Qed.
Lemma node_ids_NoDup s : NoDup (node_ids s).
Proof.
  unfold node_ids. apply NoDup_flat_map.
  - apply seqN_NoDup.
  - intros g. apply NoDup_map_inj; [intros a b [= ->]; reflexivity|apply seqN_NoDup].
  - intros x y z Hx Hy. apply in_map_iff in Hx as (a & <- & _). apply in_map_iff in Hy as (b & [= <- _] & _).
    reflexivity.
Qed.

(* ------------------------------------------------------------------ the name loops *)
Section NameLoops.
  Variable s : state.

  Lemma gnames_loop : forall L t,
    graphs t = graphs s -> ctx_fin t = false ->
    NoDup (map fst L) -> NoDup (map snd L) ->
    (forall g nm, In (g, nm) L -> g < lenN (graphs s) /\ lookup N.eqb g (gnames t) = None /\
                                  lookup String.eqb nm (gnames_inv t) = None) ->
    exists t',
      foldM (fun s p => let* _ := index_graph s (fst p) in
                        rstep s (SetGraphName (GH self (fst p)) (snd p))) L t = Ok t' /\
      graphs t' = graphs t /\ main t' = main t /\ ctx_fin t' = ctx_fin t /\ nnames t' = nnames t /\
      nnames_inv t' = nnames_inv t /\ nannots t' = nannots t /\ gannots t' = gannots t /\
      (forall k, lookup N.eqb k (gnames t') =
                 match lookup N.eqb k L with Some v => Some v | None => lookup N.eqb k (gnames t) end).
  Proof.
    induction L as [|[g nm] rest IH]; intros t Hg Hc Hk Hv Hin.
    - exists t. cbn. repeat split; reflexivity.
    - cbn [map fst snd] in Hk, Hv. apply NoDup_cons_iff in Hk as [Hk1 Hk2]. apply NoDup_cons_iff in Hv as [Hv1 Hv2].
      destruct (Hin g nm (or_introl eq_refl)) as (Hlt & L1 & L2).
      cbn [foldM fst snd]. unfold index_graph. rewrite Hg. apply N.ltb_lt in Hlt. rewrite Hlt. cbn [bind].
      apply N.ltb_lt in Hlt. destruct (nthN_some (graphs s) g Hlt) as [x Hx].
      unfold rstep; cbn [step]. unfold set_graph_name. cbn [gh_ok gh_own gh_id]. unfold graph_exists.
      rewrite Hg, Hx, N.eqb_refl. cbn [negb orb]. rewrite Hc, L1, L2.
      match goal with |- exists t', (let* s' := Ok ?T in _) = _ /\ _ => set (t1 := T) end.
      cbn [bind].
      destruct (IH t1) as (t' & F & A1 & A2 & A3 & A4 & A5 & A6 & A7 & A8); auto.
      { intros g' nm' Hin'. destruct (Hin g' nm' (or_intror Hin')) as (B1 & B2 & B3).
        split; [exact B1|]. unfold t1; cbn [gnames gnames_inv]. rewrite !lookup_cons.
        assert (g' <> g) by (intros ->; apply Hk1; apply in_map_iff; exists (g, nm'); auto).
        assert (nm' <> nm) by (intros ->; apply Hv1; apply in_map_iff; exists (g', nm); auto).
        rewrite (proj2 (N.eqb_neq g' g)) by assumption.
        rewrite (proj2 (String.eqb_neq nm' nm)) by assumption. auto. }
      exists t'. split; [exact F|].
      split; [rewrite A1; unfold t1; cbn [graphs main ctx_fin gnames gnames_inv nnames nnames_inv nannots gannots]; congruence|]. split; [rewrite A2; unfold t1; cbn [graphs main ctx_fin gnames gnames_inv nnames nnames_inv nannots gannots]; congruence|]. split; [rewrite A3; unfold t1; cbn [graphs main ctx_fin gnames gnames_inv nnames nnames_inv nannots gannots]; congruence|].
      split; [rewrite A4; unfold t1; cbn [graphs main ctx_fin gnames gnames_inv nnames nnames_inv nannots gannots]; congruence|]. split; [rewrite A5; unfold t1; cbn [graphs main ctx_fin gnames gnames_inv nnames nnames_inv nannots gannots]; congruence|]. split; [rewrite A6; unfold t1; cbn [graphs main ctx_fin gnames gnames_inv nnames nnames_inv nannots gannots]; congruence|].
      split; [rewrite A7; unfold t1; cbn [graphs main ctx_fin gnames gnames_inv nnames nnames_inv nannots gannots]; congruence|].
      intros k. rewrite A8. cbn [lookup]. unfold t1; cbn [gnames]. rewrite lookup_cons.
      destruct (N.eqb k g) eqn:E; [|reflexivity].
      apply N.eqb_eq in E. subst k. rewrite (lookup_notin N.eqb Neqb_spec g rest Hk1). reflexivity.
  Qed.

  Lemma nnames_loop : forall L t,
    graphs t = graphs s -> ctx_fin t = false ->
    NoDup (map fst L) -> NoDup (map (fun p => (fst (fst p), snd p)) L) ->
    (forall g n nm, In ((g, n), nm) L -> g < lenN (graphs s) /\ n < ncount s g /\
        lookup keq2 (g, n) (nnames t) = None /\ lookup keqs (g, nm) (nnames_inv t) = None) ->
    exists t',
      foldM (fun s p => let* _ := index_node s (fst p) in
                        rstep s (SetNodeName (NH self (fst (fst p)) (snd (fst p))) (snd p))) L t = Ok t' /\
      graphs t' = graphs t /\ main t' = main t /\ ctx_fin t' = ctx_fin t /\ gnames t' = gnames t /\
      nannots t' = nannots t /\ gannots t' = gannots t /\
      (forall k, lookup keq2 k (nnames t') =
                 match lookup keq2 k L with Some v => Some v | None => lookup keq2 k (nnames t) end).
  Proof.
    induction L as [|[[g n] nm] rest IH]; intros t Hg Hc Hk Hv Hin.
    - exists t. cbn. repeat split; reflexivity.
    - cbn [map fst snd] in Hk, Hv. apply NoDup_cons_iff in Hk as [Hk1 Hk2]. apply NoDup_cons_iff in Hv as [Hv1 Hv2].
      destruct (Hin g n nm (or_introl eq_refl)) as (Hlt & Hn & L1 & L2).
      assert (Hcnt : ncount t g = ncount s g) by (apply ncount_graphs_eq; exact Hg).
      cbn [foldM fst snd]. unfold index_node. cbn [fst snd]. rewrite Hg, Hcnt.
      apply N.ltb_lt in Hlt, Hn. rewrite Hlt, Hn. cbn [bind].
      unfold rstep; cbn [step]. unfold set_node_name. cbn [nh_ok nh_own nh_gid nh_nid]. unfold node_exists.
      rewrite Hcnt, Hn, N.eqb_refl. cbn [negb orb]. rewrite Hc, L1, L2.
      match goal with |- exists t', (let* s' := Ok ?T in _) = _ /\ _ => set (t1 := T) end.
      cbn [bind].
      destruct (IH t1) as (t' & F & A1 & A2 & A3 & A4 & A5 & A6 & A7); auto.
      { intros g' n' nm' Hin'. destruct (Hin g' n' nm' (or_intror Hin')) as (B1 & B2 & B3 & B4).
        split; [exact B1|]. split; [exact B2|]. unfold t1; cbn [nnames nnames_inv]. rewrite !lookup_cons.
        assert (N1 : (g', n') <> (g, n)).
        { intros [= -> ->]. apply Hk1. apply in_map_iff. exists ((g, n), nm'). auto. }
        assert (N2 : (g', nm') <> (g, nm)).
        { intros [= -> ->]. apply Hv1. apply in_map_iff. exists ((g, n'), nm). auto. }
        rewrite (keq_neq keq2 keq2_spec _ _ N1), (keq_neq keqs keqs_spec _ _ N2). auto. }
      exists t'. split; [exact F|].
      split; [rewrite A1; unfold t1; cbn [graphs main ctx_fin gnames gnames_inv nnames nnames_inv nannots gannots]; congruence|]. split; [rewrite A2; unfold t1; cbn [graphs main ctx_fin gnames gnames_inv nnames nnames_inv nannots gannots]; congruence|]. split; [rewrite A3; unfold t1; cbn [graphs main ctx_fin gnames gnames_inv nnames nnames_inv nannots gannots]; congruence|].
      split; [rewrite A4; unfold t1; cbn [graphs main ctx_fin gnames gnames_inv nnames nnames_inv nannots gannots]; congruence|]. split; [rewrite A5; unfold t1; cbn [graphs main ctx_fin gnames gnames_inv nnames nnames_inv nannots gannots]; congruence|]. split; [rewrite A6; unfold t1; cbn [graphs main ctx_fin gnames gnames_inv nnames nnames_inv nannots gannots]; congruence|].
      intros k. rewrite A7. cbn [lookup]. unfold t1; cbn [nnames]. rewrite lookup_cons.
      destruct (keq2 k (g, n)) eqn:E; [|reflexivity].
      apply keq2_spec in E. subst k. rewrite (lookup_notin keq2 keq2_spec (g, n) rest Hk1). reflexivity.
  Qed.
End NameLoops.

(* ------------------------------------------------------------------ the annotation loops *)
Section PushAnnot.
  Context {K : Type} (keq : K -> K -> bool).
  Hypothesis keq_spec : forall a b, keq a b = true <-> a = b.

  Lemma lookup_push_same k a l :
    lookup keq k (push_annot keq k a l) =
    Some (match lookup keq k l with Some v => v ++ [a] | None => [a] end).
  Proof.
    unfold push_annot. destruct (lookup keq k l) eqn:E.
    - now apply (lookup_replace_eq keq) with (v0 := l0).
    - apply (lookup_cons_eq keq keq_spec).
  Qed.
  Lemma lookup_push_other k k' a l : k' <> k -> lookup keq k' (push_annot keq k a l) = lookup keq k' l.
  Proof.
    intros Hn. unfold push_annot. destruct (lookup keq k l) eqn:E.
    - now apply (lookup_replace_neq keq keq_spec).
    - now apply (lookup_cons_neq keq keq_spec).
  Qed.
  Lemma lookup_fold_push_same k anns : forall l,
    anns <> [] ->
    lookup keq k (fold_left (fun l a => push_annot keq k a l) anns l) =
    Some (match lookup keq k l with Some v => v ++ anns | None => anns end).
  Proof.
    induction anns as [|a r IH]; intros l Hne; [congruence|]. cbn [fold_left].
    destruct r as [|b r'].
    - cbn [fold_left]. apply lookup_push_same.
    - rewrite IH by discriminate. rewrite lookup_push_same.
      destruct (lookup keq k l); [now rewrite <- app_assoc|reflexivity].
  Qed.
  Lemma lookup_fold_push_other k k' anns : forall l,
    k' <> k -> lookup keq k' (fold_left (fun l a => push_annot keq k a l) anns l) = lookup keq k' l.
  Proof.
    induction anns as [|a r IH]; intros l Hn; cbn [fold_left]; [reflexivity|].
    rewrite IH by exact Hn. now apply lookup_push_other.
  Qed.
End PushAnnot.

Section AnnotLoops.
  Variable s : state.

  Lemma gannots_inner g : forall anns t,
    graphs t = graphs s -> ctx_fin t = false -> g < lenN (graphs s) ->
    exists t', foldM (fun s a => rstep s (AddGraphAnnot (GH self g) a)) anns t = Ok t' /\
      graphs t' = graphs t /\ main t' = main t /\ ctx_fin t' = ctx_fin t /\ gnames t' = gnames t /\
      nnames t' = nnames t /\ nannots t' = nannots t /\
      gannots t' = fold_left (fun l a => push_annot N.eqb g a l) anns (gannots t).
  Proof.
    induction anns as [|a r IH]; intros t Hg Hc Hlt.
    - exists t. cbn. repeat split; reflexivity.
    - destruct (nthN_some (graphs s) g Hlt) as [x Hx].
      cbn [foldM]. unfold rstep; cbn [step]. unfold add_graph_annot. cbn [gh_ok gh_own gh_id].
      unfold graph_exists. rewrite Hg, Hx, N.eqb_refl. cbn [negb orb]. rewrite Hc.
      match goal with |- exists t', (let* s' := Ok ?T in _) = _ /\ _ => set (t1 := T) end.
      cbn [bind]. destruct (IH t1) as (t' & F & A1 & A2 & A3 & A4 & A5 & A6 & A7); auto.
      exists t'. split; [exact F|].
      split; [rewrite A1; reflexivity|]. split; [rewrite A2; reflexivity|].
      split; [rewrite A3; unfold t1; cbn [ctx_fin]; congruence|].
      split; [rewrite A4; reflexivity|]. split; [rewrite A5; reflexivity|]. split; [rewrite A6; reflexivity|].
      rewrite A7. reflexivity.
  Qed.

  Lemma nannots_inner g n : forall anns t,
    graphs t = graphs s -> ctx_fin t = false -> n < ncount s g ->
    exists t', foldM (fun s a => rstep s (AddNodeAnnot (NH self g n) a)) anns t = Ok t' /\
      graphs t' = graphs t /\ main t' = main t /\ ctx_fin t' = ctx_fin t /\ gnames t' = gnames t /\
      nnames t' = nnames t /\ gannots t' = gannots t /\
      nannots t' = fold_left (fun l a => push_annot keq2 (g, n) a l) anns (nannots t).
  Proof.
    induction anns as [|a r IH]; intros t Hg Hc Hlt.
    - exists t. cbn. repeat split; reflexivity.
    - assert (Hcnt : ncount t g = ncount s g) by (apply ncount_graphs_eq; exact Hg).
      cbn [foldM]. unfold rstep; cbn [step]. unfold add_node_annot. cbn [nh_ok nh_own nh_gid nh_nid].
      unfold node_exists. rewrite Hcnt. apply N.ltb_lt in Hlt. rewrite Hlt, N.eqb_refl. cbn [negb orb]. rewrite Hc.
      apply N.ltb_lt in Hlt.
      match goal with |- exists t', (let* s' := Ok ?T in _) = _ /\ _ => set (t1 := T) end.
      cbn [bind]. destruct (IH t1) as (t' & F & A1 & A2 & A3 & A4 & A5 & A6 & A7); auto.
      exists t'. split; [exact F|].
      split; [rewrite A1; reflexivity|]. split; [rewrite A2; reflexivity|].
      split; [rewrite A3; unfold t1; cbn [ctx_fin]; congruence|].
      split; [rewrite A4; reflexivity|]. split; [rewrite A5; reflexivity|]. split; [rewrite A6; reflexivity|].
      rewrite A7. reflexivity.
  Qed.

  Lemma gannots_loop : forall L t,
    graphs t = graphs s -> ctx_fin t = false -> NoDup (map fst L) ->
    (forall g l, In (g, l) L -> g < lenN (graphs s) /\ l <> [] /\ lookup N.eqb g (gannots t) = None) ->
    exists t',
      foldM (fun s p => let* _ := index_graph s (fst p) in
                        foldM (fun s a => rstep s (AddGraphAnnot (GH self (fst p)) a)) (snd p) s) L t = Ok t' /\
      graphs t' = graphs t /\ main t' = main t /\ ctx_fin t' = ctx_fin t /\ gnames t' = gnames t /\
      nnames t' = nnames t /\ nannots t' = nannots t /\
      (forall k, lookup N.eqb k (gannots t') =
                 match lookup N.eqb k L with Some v => Some v | None => lookup N.eqb k (gannots t) end).
  Proof.
    induction L as [|[g l] rest IH]; intros t Hg Hc Hk Hin.
    - exists t. cbn. repeat split; reflexivity.
    - cbn [map fst] in Hk. apply NoDup_cons_iff in Hk as [Hk1 Hk2].
      destruct (Hin g l (or_introl eq_refl)) as (Hlt & Hne & L1).
      cbn [foldM fst snd]. unfold index_graph. rewrite Hg. apply N.ltb_lt in Hlt. rewrite Hlt. cbn [bind].
      apply N.ltb_lt in Hlt.
      destruct (gannots_inner g l t Hg Hc Hlt) as (t1 & F1 & B1 & B2 & B3 & B4 & B5 & B6 & B7).
      rewrite F1. cbn [bind].
      destruct (IH t1) as (t' & F & A1 & A2 & A3 & A4 & A5 & A6 & A7); try congruence; auto.
      { intros g' l' Hin'. destruct (Hin g' l' (or_intror Hin')) as (C1 & C2 & C3).
        split; [exact C1|]. split; [exact C2|]. rewrite B7.
        rewrite (lookup_fold_push_other N.eqb Neqb_spec); [exact C3|].
        intros ->. apply Hk1. apply in_map_iff. exists (g, l'). auto. }
      exists t'. split; [exact F|].
      split; [congruence|]. split; [congruence|]. split; [congruence|]. split; [congruence|].
      split; [congruence|]. split; [congruence|].
      intros k. rewrite A7, B7. cbn [lookup]. destruct (N.eqb k g) eqn:E.
      + apply N.eqb_eq in E. subst k. rewrite (lookup_notin N.eqb Neqb_spec g rest Hk1).
        rewrite (lookup_fold_push_same N.eqb Neqb_spec) by exact Hne. now rewrite L1.
      + apply N.eqb_neq in E. now rewrite (lookup_fold_push_other N.eqb Neqb_spec).
  Qed.

  Lemma nannots_loop : forall L t,
    graphs t = graphs s -> ctx_fin t = false -> NoDup (map fst L) ->
    (forall g n l, In ((g, n), l) L -> g < lenN (graphs s) /\ n < ncount s g /\ l <> [] /\
                                      lookup keq2 (g, n) (nannots t) = None) ->
    exists t',
      foldM (fun s p => let* _ := index_node s (fst p) in
                        foldM (fun s a => rstep s (AddNodeAnnot (NH self (fst (fst p)) (snd (fst p))) a))
                              (snd p) s) L t = Ok t' /\
      graphs t' = graphs t /\ main t' = main t /\ ctx_fin t' = ctx_fin t /\ gnames t' = gnames t /\
      nnames t' = nnames t /\ gannots t' = gannots t /\
      (forall k, lookup keq2 k (nannots t') =
                 match lookup keq2 k L with Some v => Some v | None => lookup keq2 k (nannots t) end).
  Proof.
    induction L as [|[[g n] l] rest IH]; intros t Hg Hc Hk Hin.
    - exists t. cbn. repeat split; reflexivity.
    - cbn [map fst] in Hk. apply NoDup_cons_iff in Hk as [Hk1 Hk2].
      destruct (Hin g n l (or_introl eq_refl)) as (Hlt & Hn & Hne & L1).
      assert (Hcnt : ncount t g = ncount s g) by (apply ncount_graphs_eq; exact Hg).
      cbn [foldM fst snd]. unfold index_node. cbn [fst snd]. rewrite Hg, Hcnt.
      apply N.ltb_lt in Hlt. rewrite Hlt. apply N.ltb_lt in Hn. rewrite Hn. cbn [bind].
      apply N.ltb_lt in Hn.
      destruct (nannots_inner g n l t Hg Hc Hn) as (t1 & F1 & B1 & B2 & B3 & B4 & B5 & B6 & B7).
      rewrite F1. cbn [bind].
      destruct (IH t1) as (t' & F & A1 & A2 & A3 & A4 & A5 & A6 & A7); try congruence; auto.
      { intros g' n' l' Hin'. destruct (Hin g' n' l' (or_intror Hin')) as (C1 & C2 & C3 & C4).
        split; [exact C1|]. split; [exact C2|]. split; [exact C3|]. rewrite B7.
        rewrite (lookup_fold_push_other keq2 keq2_spec); [exact C4|].
        intros [= -> ->]. apply Hk1. apply in_map_iff. exists ((g, n), l'). auto. }
      exists t'. split; [exact F|].
      split; [congruence|]. split; [congruence|]. split; [congruence|]. split; [congruence|].
      split; [congruence|]. split; [congruence|].
      intros k. rewrite A7, B7. cbn [lookup]. destruct (keq2 k (g, n)) eqn:E.
      + apply keq2_spec in E. subst k. rewrite (lookup_notin keq2 keq2_spec (g, n) rest Hk1).
        rewrite (lookup_fold_push_same keq2 keq2_spec) by exact Hne. now rewrite L1.
      + assert (k <> (g, n)) by (intros ->; rewrite (keq_refl keq2 keq2_spec) in E; discriminate).
        now rewrite (lookup_fold_push_other keq2 keq2_spec).
  Qed.
End AnnotLoops.

(* ------------------------------------------------------------------ the full round trip *)
Definition ann_nonempty (s : state) : Prop :=
  (forall g l, lookup N.eqb g (gannots s) = Some l -> l <> []) /\
  (forall k l, lookup keq2 k (nannots s) = Some l -> l <> []).

Lemma NoDup_map_on {A B} (f : A -> B) l :
  NoDup l -> (forall a b, In a l -> In b l -> f a = f b -> a = b) -> NoDup (map f l).
Proof.
  induction l as [|x r IH]; intros H Hf; cbn; [constructor|].
  apply NoDup_cons_iff in H as [H1 H2]. constructor.
  - intros Hin. apply in_map_iff in Hin as (y & Hy & Hin).
    assert (y = x) by (apply Hf; [right; exact Hin|left; reflexivity|exact Hy]). subst. tauto.
  - apply IH; [exact H2|]. intros a b Ha Hb. apply Hf; right; assumption.
Qed.

Section RoundTripFull.
  Variable tc : state -> N -> N -> list N -> list N -> tcans.
  Variable s : state.
  (* the type checker accepts the nodes of [s] again, in whatever context they are replayed *)
  Hypothesis tc_accepts : forall t g gr j nd,
    nthN (graphs s) g = Some gr -> nth_error (g_nodes gr) j = Some nd ->
    accepting t (tc t g (n_op nd) (map nh_nid (n_deps nd)) (map gh_id (n_gdeps nd))).
  Hypothesis HI : Inv s.
  Hypothesis HA : ann_nonempty s.

  Lemma stage_main t1 :
    graphs t1 = graphs s -> main t1 = None ->
    exists t2, match main s with
               | Some id => if id <? lenN (graphs t1) then rstep t1 (SetMain (GH self id)) else Err
               | None => Ok t1 end = Ok t2 /\
      graphs t2 = graphs s /\ main t2 = main s /\ ctx_fin t2 = ctx_fin t1 /\
      gnames t2 = gnames t1 /\ gnames_inv t2 = gnames_inv t1 /\ nnames t2 = nnames t1 /\
      nnames_inv t2 = nnames_inv t1 /\ nannots t2 = nannots t1 /\ gannots t2 = gannots t1.
  Proof.
    intros G1 Q1. destruct HI as [(_ & [M1 _] & _) _].
    destruct (main s) as [m|] eqn:Em.
    - pose proof (M1 m eq_refl) as Hf. pose proof (gfin_lt _ _ Hf) as Hlt.
      rewrite G1. apply N.ltb_lt in Hlt. rewrite Hlt.
      unfold rstep; cbn [step]. unfold set_main. cbn [gh_ok gh_own gh_id].
      unfold graph_exists. rewrite N.eqb_refl. cbn [negb orb].
      assert (Hf1 : graph_finalized t1 m = true) by (unfold graph_finalized in *; now rewrite G1).
      assert (He : exists x, nthN (graphs t1) m = Some x).
      { rewrite G1. apply nthN_some. now apply N.ltb_lt. }
      destruct He as [x He]. rewrite He, Q1, Hf1. cbn [negb].
      eexists. split; [reflexivity|]. cbn. repeat split; assumption.
    - exists t1. repeat split; assumption.
  Qed.

  Theorem ser_deser : exists s', deser_env tc (ser_env s) = Ok s' /\ deep_equal s s'.
  Proof.
    pose proof HI as [(Hg & [M1 M2] & (W1 & W2 & W3 & W4 & W5 & W6 & W7)) _].
    destruct HA as [HA1 HA2].
    unfold deser_env, ser_env. cbn [fst snd]. rewrite N.eqb_refl. cbn [negb].
    unfold deser, ser. cbn [sc_graphs sc_main sc_gnames sc_nnames sc_gannots sc_nannots sc_fin].
    (* graphs *)
    destruct (replay_graphs tc s tc_accepts HI (graphs s) [] init eq_refl eq_refl eq_refl) as (t1 & S1 & G1 & Q1).
    rewrite S1. cbn [bind].
    destruct Q1 as (Q1 & Q2 & Q3 & Q4 & Q5 & Q6 & Q7 & Q8).
    cbn [init main ctx_fin gnames gnames_inv nnames nnames_inv nannots gannots] in *.
    (* main *)
    destruct (stage_main t1 G1 Q1) as (t2 & S2 & G2 & M & C2 & N1 & N2 & N3 & N4 & N5 & N6).
    rewrite S2. cbn [bind].
    rewrite Q2 in C2. rewrite Q3 in N1. rewrite Q4 in N2. rewrite Q5 in N3. rewrite Q6 in N4.
    rewrite Q7 in N5. rewrite Q8 in N6.
    (* membership facts of the four serialized tables *)
    assert (E1 : forall g nm, In (g, nm) (ser_table1 s (gnames s)) ->
                 g < lenN (graphs s) /\ lookup N.eqb g (gnames s) = Some nm).
    { intros g nm H. apply (entries_In N.eqb) in H as [H1 H2]. split; [now apply graph_ids_In|exact H2]. }
    assert (E2 : forall g n nm, In ((g, n), nm) (ser_table2 s (nnames s)) ->
                 g < lenN (graphs s) /\ n < ncount s g /\ lookup keq2 (g, n) (nnames s) = Some nm).
    { intros g n nm H. apply (entries_In keq2) in H as [H1 H2]. apply node_ids_In in H1. tauto. }
    assert (E3 : forall g l, In (g, l) (ser_table1 s (gannots s)) ->
                 g < lenN (graphs s) /\ lookup N.eqb g (gannots s) = Some l).
    { intros g l H. apply (entries_In N.eqb) in H as [H1 H2]. split; [now apply graph_ids_In|exact H2]. }
    assert (E4 : forall g n l, In ((g, n), l) (ser_table2 s (nannots s)) ->
                 g < lenN (graphs s) /\ n < ncount s g /\ lookup keq2 (g, n) (nannots s) = Some l).
    { intros g n l H. apply (entries_In keq2) in H as [H1 H2]. apply node_ids_In in H1. tauto. }
    assert (Hcnt2 : forall g, ncount t2 g = ncount s g) by (intros g; apply ncount_graphs_eq; exact G2).
    (* range checks *)
    assert (R1 : in_range1 t2 (ser_table1 s (gnames s)) = true).
    { apply forallb_forall. intros [g nm] H. apply E1 in H as [H _]. cbn [fst]. rewrite G2. now apply N.ltb_lt. }
    assert (R2 : in_range2 t2 (ser_table2 s (nnames s)) = true).
    { apply forallb_forall. intros [[g n] nm] H. apply E2 in H as (H1 & H2 & _). cbn [fst snd].
      rewrite G2, Hcnt2. apply N.ltb_lt in H1. rewrite H1. now apply N.ltb_lt. }
    assert (R3 : in_range1 t2 (ser_table1 s (gannots s)) = true).
    { apply forallb_forall. intros [g l] H. apply E3 in H as [H _]. cbn [fst]. rewrite G2. now apply N.ltb_lt. }
    assert (R4 : in_range2 t2 (ser_table2 s (nannots s)) = true).
    { apply forallb_forall. intros [[g n] l] H. apply E4 in H as (H1 & H2 & _). cbn [fst snd].
      rewrite G2, Hcnt2. apply N.ltb_lt in H1. rewrite H1. now apply N.ltb_lt. }
    rewrite R1, R2, R3, R4. cbn [negb].
    (* graph names *)
    destruct (gnames_loop s (ser_table1 s (gnames s)) t2 G2 C2) as (t3 & S3 & A1 & A2 & A3 & A4 & A5 & A6 & A7 & A8).
    { apply (entries_NoDup N.eqb). apply seqN_NoDup. }
    { apply NoDup_values; [apply (entries_NoDup N.eqb), seqN_NoDup|].
      intros k1 k2 v H1 H2. apply E1 in H1 as [_ H1]. apply E1 in H2 as [_ H2].
      apply W1 in H1 as [H1 _]. apply W1 in H2 as [H2 _]. congruence. }
    { intros g nm H. apply E1 in H as [H _]. rewrite N1, N2. auto. }
    rewrite S3. cbn [bind].
    (* node names *)
    destruct (nnames_loop s (ser_table2 s (nnames s)) t3) as (t4 & S4 & B1 & B2 & B3 & B4 & B5 & B6 & B7); try congruence.
    { apply (entries_NoDup keq2). apply node_ids_NoDup. }
    { apply NoDup_map_on.
      - eapply NoDup_map_inv. apply (entries_NoDup keq2). apply node_ids_NoDup.
      - intros [[g1 n1] nm1] [[g2 n2] nm2] H1 H2 [= -> ->]. apply E2 in H1 as (_ & _ & H1). apply E2 in H2 as (_ & _ & H2).
        apply W3 in H1 as [H1 _]. apply W3 in H2 as [H2 _]. congruence. }
    { intros g n nm H. apply E2 in H as (H1 & H2 & _). rewrite A4, A5, N3, N4. auto. }
    rewrite S4. cbn [bind].
    (* graph annotations *)
    destruct (gannots_loop s (ser_table1 s (gannots s)) t4) as (t5 & S5 & C1 & C3 & C4 & C5 & C6 & C7 & C8); try congruence.
    { apply (entries_NoDup N.eqb). apply seqN_NoDup. }
    { intros g l H. apply E3 in H as [H1 H2]. split; [exact H1|]. split; [eapply HA1; eauto|].
      rewrite B6, A7, N6. reflexivity. }
    rewrite S5. cbn [bind].
    (* node annotations *)
    destruct (nannots_loop s (ser_table2 s (nannots s)) t5) as (t6 & S6 & D1 & D2 & D3 & D4 & D5 & D6 & D7); try congruence.
    { apply (entries_NoDup keq2). apply node_ids_NoDup. }
    { intros g n l H. apply E4 in H as (H1 & H2 & H3). split; [exact H1|]. split; [exact H2|].
      split; [eapply HA2; eauto|]. rewrite C7, B5, A6, N5. reflexivity. }
    rewrite S6. cbn [bind].
    (* the four tables of the result *)
    assert (T1 : table_eq N.eqb (gnames s) (gnames t6)).
    { intros k. rewrite D4, C5, B4, A8, N1. cbn [lookup].
      change (ser_table1 s (gnames s)) with (entries N.eqb (graph_ids s) (gnames s)).
      rewrite (lookup_entries_full N.eqb Neqb_spec).
      - now destruct (lookup N.eqb k (gnames s)).
      - intros v Hv. apply W1 in Hv as [_ Hv]. now apply graph_ids_In. }
    assert (T2 : table_eq keq2 (nnames s) (nnames t6)).
    { intros [g n]. rewrite D5, C6, B7, A4, N3. cbn [lookup].
      change (ser_table2 s (nnames s)) with (entries keq2 (node_ids s) (nnames s)).
      rewrite (lookup_entries_full keq2 keq2_spec).
      - now destruct (lookup keq2 (g, n) (nnames s)).
      - intros v Hv. apply W3 in Hv as [_ Hv]. apply node_ids_In. split; [|exact Hv].
        destruct (N.lt_ge_cases g (lenN (graphs s))) as [Hl|Hl]; [exact Hl|]. rewrite ncount_out in Hv by exact Hl. lia. }
    assert (T3 : table_eq keq2 (nannots s) (nannots t6)).
    { intros [g n]. rewrite D7, C7, B5, A6, N5. cbn [lookup].
      change (ser_table2 s (nannots s)) with (entries keq2 (node_ids s) (nannots s)).
      rewrite (lookup_entries_full keq2 keq2_spec).
      - now destruct (lookup keq2 (g, n) (nannots s)).
      - intros v Hv. apply W5 in Hv. apply node_ids_In. split; [|exact Hv].
        destruct (N.lt_ge_cases g (lenN (graphs s))) as [Hl|Hl]; [exact Hl|]. rewrite ncount_out in Hv by exact Hl. lia. }
    assert (T4 : table_eq N.eqb (gannots s) (gannots t6)).
    { intros k. rewrite D6, C8, B6, A7, N6. cbn [lookup].
      change (ser_table1 s (gannots s)) with (entries N.eqb (graph_ids s) (gannots s)).
      rewrite (lookup_entries_full N.eqb Neqb_spec).
      - now destruct (lookup N.eqb k (gannots s)).
      - intros v Hv. apply W6 in Hv. now apply graph_ids_In. }
    assert (G6 : graphs t6 = graphs s) by congruence.
    assert (M6 : main t6 = main s) by congruence.
    assert (C6' : ctx_fin t6 = false) by congruence.
    (* finalization *)
    destruct (ctx_fin s) eqn:Ec.
    - destruct (M2 eq_refl) as [Hall Hm].
      unfold rstep; cbn [step]. unfold finalize_ctx. rewrite G6, Hall. cbn [negb]. rewrite M6.
      destruct (main s) as [m|] eqn:Em; [|congruence].
      eexists. split; [reflexivity|].
      unfold deep_equal. cbn [ctx_fin gnames nnames nannots gannots graphs main]. rewrite ?Ec, ?G6, ?M6.
      repeat split; try assumption; try reflexivity; congruence.
    - exists t6. split; [reflexivity|].
      unfold deep_equal. rewrite ?Ec, ?C6', ?G6, ?M6. repeat split; try assumption; reflexivity.
  Qed.
End RoundTripFull.

(* ------------------------------------------------------------------ annotation lists are never empty *)
Definition same_annots (s s' : state) : Prop := nannots s' = nannots s /\ gannots s' = gannots s.
Lemma ann_same s s' : same_annots s s' -> ann_nonempty s -> ann_nonempty s'.
Proof. intros [E1 E2] [H1 H2]. unfold ann_nonempty. rewrite E1, E2. auto. Qed.

Ltac crush_same := repeat match goal with
  | |- context [if ?b then _ else _] => destruct b
  | |- context [match ?x with _ => _ end] => destruct x
  end; split; reflexivity.

Lemma push_nonempty {K} (keq : K -> K -> bool) (spec : forall a b, keq a b = true <-> a = b) k a t :
  (forall k' l, lookup keq k' t = Some l -> l <> []) ->
  forall k' l, lookup keq k' (push_annot keq k a t) = Some l -> l <> [].
Proof.
  intros H k' l Hl. destruct (keq k' k) eqn:E.
  - apply spec in E. subst k'. rewrite (lookup_push_same keq spec) in Hl. injection Hl as <-.
    destruct (lookup keq k t) as [v|]; [destruct v; discriminate|discriminate].
  - rewrite (lookup_push_other keq spec) in Hl; [eauto|].
    intros ->. rewrite (keq_refl keq spec) in E. discriminate.
Qed.

Lemma ann_step s c : Inv s -> ann_nonempty s -> ann_nonempty (step' s c).
Proof.
  intros [(Hg & Hm & Ht) _] HA. unfold step'. destruct c; cbn [step fst]; try exact HA.
  - apply (ann_same s); [|exact HA]. unfold create_graph. crush_same.
  - destruct (add_node_spec s g op deps gdeps supplied ans Hm Ht) as [[E _]|(gr & t & tot & _ & _ & _ & _ & _ & E)];
      rewrite E; [exact HA|]. apply (ann_same s); [split; reflexivity|exact HA].
  - apply (ann_same s); [|exact HA]. unfold set_output. crush_same.
  - apply (ann_same s); [|exact HA]. unfold finalize_graph. crush_same.
  - apply (ann_same s); [|exact HA]. unfold set_main. crush_same.
  - apply (ann_same s); [|exact HA]. unfold finalize_ctx. crush_same.
  - apply (ann_same s); [|exact HA]. unfold set_graph_name. crush_same.
  - apply (ann_same s); [|exact HA]. unfold set_node_name. crush_same.
  - unfold add_node_annot. destruct (nh_ok s n); cbn [negb]; [|exact HA].
    destruct (nh_own n); cbn [negb]; [|exact HA]. destruct (ctx_fin s); [exact HA|].
    destruct HA as [H1 H2]. split; cbn [fst gannots nannots]; [exact H1|].
    apply (push_nonempty keq2 keq2_spec). exact H2.
  - unfold add_graph_annot. destruct (gh_ok s g); cbn [negb]; [|exact HA].
    destruct (gh_own g); cbn [negb]; [|exact HA]. destruct (ctx_fin s); [exact HA|].
    destruct HA as [H1 H2]. split; cbn [fst gannots nannots]; [|exact H2].
    apply (push_nonempty N.eqb Neqb_spec). exact H1.
Qed.

Lemma ann_fold cs : forall s, Inv s -> ann_nonempty s -> ann_nonempty (fold_left step' cs s).
Proof.
  induction cs as [|c r IH]; intros s Hi Ha; cbn; [exact Ha|].
  apply IH; [now apply inv_step|now apply ann_step].
Qed.
Lemma ann_reachable cs : ann_nonempty (run cs).
Proof. apply ann_fold; [apply inv_init|]. split; intros; discriminate. Qed.

Theorem ser_deser_reachable tc cs :
  (forall t g op deps gdeps, accepting t (tc t g op deps gdeps)) ->
  exists s', deser_env tc (ser_env (fold_left step' cs init)) = Ok s' /\
             deep_equal (fold_left step' cs init) s'.
Proof.
  intros H. apply ser_deser; [intros; apply H|apply inv_reachable|apply ann_reachable].
Qed.

(* C12 proofs: deserialization is safe on arbitrary payloads (it replays through the C11 step
   function, which preserves the invariant), serialization is canonical. *)
From CC Require Import Base.Prelude Model.Api Model.Serde Proofs.ApiProofs.
Local Open Scope N_scope.

(* ------------------------------------------------------------------ safety of deser *)
Definition safeP (Q : state -> Prop) (r : result state) : Prop :=
  match r with Ok s => Q s | Err => True | Panic => False | OutOfFuel => False end.

Lemma safeP_bind (Q Q' : state -> Prop) (r : result state) (f : state -> result state) :
  safeP Q r -> (forall s, Q s -> safeP Q' (f s)) -> safeP Q' (bind r f).
Proof. destruct r; cbn; auto. Qed.
Lemma safeP_weaken (Q Q' : state -> Prop) r : (forall s, Q s -> Q' s) -> safeP Q r -> safeP Q' r.
Proof. destruct r; cbn; auto. Qed.
Lemma foldM_safeP {A} (Q : state -> Prop) (f : state -> A -> result state) l :
  (forall s x, In x l -> Q s -> safeP Q (f s x)) -> forall s, Q s -> safeP Q (foldM f l s).
Proof.
  induction l as [|x r IH]; intros H s Hs; cbn; [exact Hs|].
  eapply safeP_bind; [apply H; [left; reflexivity|exact Hs]|].
  intros s' Hs'. apply IH; [|exact Hs']. intros s0 y Hy. apply H. right; exact Hy.
Qed.

Lemma rstep_ok s c s' : rstep s c = Ok s' -> s' = fst (step s c).
Proof. unfold rstep. destruct (step s c) as [s1 [v|e]]; [intros [= <-]; reflexivity|discriminate]. Qed.
Lemma rstep_safe s c : Inv s -> safeP Inv (rstep s c).
Proof.
  intros H. destruct (rstep s c) eqn:E; cbn; auto.
  - apply rstep_ok in E. subst. apply (inv_step s c H).
  - unfold rstep in E. destruct (step s c) as [s1 [v|e]]; discriminate.
  - unfold rstep in E. destruct (step s c) as [s1 [v|e]]; discriminate.
Qed.

(* the table-filling calls do not touch the graphs *)
Definition table_call (c : call) : bool :=
  match c with
  | SetGraphName _ _ | SetNodeName _ _ | AddNodeAnnot _ _ | AddGraphAnnot _ _ => true
  | _ => false
  end.
Lemma table_call_graphs s c : table_call c = true -> graphs (fst (step s c)) = graphs s.
Proof.
  destruct c; try discriminate; intros _; cbn [step].
  - unfold set_graph_name. destruct (gh_ok s g); cbn [negb]; [|reflexivity].
    destruct (gh_own g); cbn [negb]; [|reflexivity]. destruct (ctx_fin s); [reflexivity|].
    destruct (lookup N.eqb (gh_id g) (gnames s)); [reflexivity|].
    destruct (lookup String.eqb name (gnames_inv s)); reflexivity.
  - unfold set_node_name. destruct (nh_ok s n); cbn [negb]; [|reflexivity].
    destruct (nh_own n); cbn [negb]; [|reflexivity]. destruct (ctx_fin s); [reflexivity|].
    destruct (lookup keq2 (nh_gid n, nh_nid n) (nnames s)); [reflexivity|].
    destruct (lookup keqs (nh_gid n, name) (nnames_inv s)); reflexivity.
  - unfold add_node_annot. destruct (nh_ok s n); cbn [negb]; [|reflexivity].
    destruct (nh_own n); cbn [negb]; [|reflexivity]. destruct (ctx_fin s); reflexivity.
  - unfold add_graph_annot. destruct (gh_ok s g); cbn [negb]; [|reflexivity].
    destruct (gh_own g); cbn [negb]; [|reflexivity]. destruct (ctx_fin s); reflexivity.
Qed.

Definition QG (G : list graph) (s : state) : Prop := Inv s /\ graphs s = G.
Lemma rstep_table_safe G s c : table_call c = true -> QG G s -> safeP (QG G) (rstep s c).
Proof.
  intros Hc [Hi Hg]. pose proof (rstep_safe s c Hi) as H.
  destruct (rstep s c) eqn:E; cbn in *; auto.
  split; [exact H|]. rewrite (rstep_ok _ _ _ E). rewrite table_call_graphs by exact Hc. exact Hg.
Qed.

Section DeserSafe.
  Variable tc : state -> N -> N -> list N -> list N -> tcans.

  Lemma recover_node_safe g s n : Inv s -> safeP Inv (recover_node tc g s n).
  Proof.
    intros H. unfold recover_node.
    destruct (forallb _ (sn_deps n)); cbn [negb]; [|exact I].
    destruct (forallb _ (sn_gdeps n)); cbn [negb]; [|exact I].
    now apply rstep_safe.
  Qed.

  Lemma recover_graph_safe s sg : Inv s -> safeP Inv (recover_graph tc s sg).
  Proof.
    intros H. unfold recover_graph.
    eapply safeP_bind; [apply rstep_safe, H|]. intros s0 H0.
    eapply safeP_bind; [apply foldM_safeP; [|exact H0]; intros; now apply recover_node_safe|].
    intros s1 H1.
    eapply safeP_bind with (Q := Inv).
    - destruct (sg_out sg) as [id|]; [|exact H1].
      destruct (id <? ncount s1 (lenN (graphs s))); [now apply rstep_safe|exact I].
    - intros s2 H2. destruct (sg_fin sg); [now apply rstep_safe|exact H2].
  Qed.

  Lemma forallb_In {A} (p : A -> bool) l x : forallb p l = true -> In x l -> p x = true.
  Proof. intros H Hx. rewrite forallb_forall in H. auto. Qed.

  Theorem deser_safe x : safeP Inv (deser tc x).
  Proof.
    unfold deser.
    eapply safeP_bind; [apply foldM_safeP; [|exact inv_init]; intros; now apply recover_graph_safe|].
    intros s1 H1.
    eapply safeP_bind with (Q := Inv).
    { destruct (sc_main x) as [id|]; [|exact H1].
      destruct (id <? lenN (graphs s1)); [now apply rstep_safe|exact I]. }
    intros s2 H2.
    destruct (in_range1 s2 (sc_gnames x)) eqn:R1; cbn [negb]; [|exact I].
    destruct (in_range2 s2 (sc_nnames x)) eqn:R2; cbn [negb]; [|exact I].
    destruct (in_range1 s2 (sc_gannots x)) eqn:R3; cbn [negb]; [|exact I].
    destruct (in_range2 s2 (sc_nannots x)) eqn:R4; cbn [negb]; [|exact I].
    assert (Q2 : QG (graphs s2) s2) by (split; [exact H2|reflexivity]).
    assert (IG : forall s g, QG (graphs s2) s -> g <? lenN (graphs s2) = true -> index_graph s g = Ok tt).
    { intros s g [_ E] Hg. unfold index_graph. rewrite E. now rewrite Hg. }
    assert (IN : forall s k, QG (graphs s2) s ->
              (fst k <? lenN (graphs s2)) && (snd k <? ncount s2 (fst k)) = true -> index_node s k = Ok tt).
    { intros s k [_ E] Hk. apply andb_true_iff in Hk as [K1 K2]. unfold index_node.
      rewrite (ncount_graphs_eq s2 s (fst k) E). rewrite E. now rewrite K1, K2. }
    eapply safeP_bind with (Q := QG (graphs s2)).
    { apply foldM_safeP; [|exact Q2]. intros s p Hp Qs.
      rewrite (IG s (fst p) Qs (forallb_In _ _ _ R1 Hp)). cbn [bind].
      now apply rstep_table_safe. }
    intros s3 Q3.
    eapply safeP_bind with (Q := QG (graphs s2)).
    { apply foldM_safeP; [|exact Q3]. intros s p Hp Qs.
      rewrite (IN s (fst p) Qs (forallb_In _ _ _ R2 Hp)). cbn [bind].
      now apply rstep_table_safe. }
    intros s4 Q4.
    eapply safeP_bind with (Q := QG (graphs s2)).
    { apply foldM_safeP; [|exact Q4]. intros s p Hp Qs.
      rewrite (IG s (fst p) Qs (forallb_In _ _ _ R3 Hp)). cbn [bind].
      apply foldM_safeP; [|exact Qs]. intros s' a _ Qs'. now apply rstep_table_safe. }
    intros s5 Q5.
    eapply safeP_bind with (Q := QG (graphs s2)).
    { apply foldM_safeP; [|exact Q5]. intros s p Hp Qs.
      rewrite (IN s (fst p) Qs (forallb_In _ _ _ R4 Hp)). cbn [bind].
      apply foldM_safeP; [|exact Qs]. intros s' a _ Qs'. now apply rstep_table_safe. }
    intros s6 [H6 _].
    destruct (sc_fin x); [now apply rstep_safe|exact H6].
  Qed.

  Theorem deser_env_safe e : safeP Inv (deser_env tc e).
  Proof. unfold deser_env. destruct (fst e =? DATA_VERSION); cbn [negb]; [apply deser_safe|exact I]. Qed.
End DeserSafe.

(* ------------------------------------------------------------------ canonical serialization *)
Lemma ncount_via_ser s g :
  ncount s g = match nthN (map ser_graph (graphs s)) g with
               | Some sg => lenN (sg_nodes sg) | None => 0 end.
Proof.
  unfold ncount, nthN. rewrite nth_error_map. destruct (nth_error (graphs s) (N.to_nat g)); cbn; [|reflexivity].
  unfold lenN. now rewrite map_length.
Qed.
Lemma flat_map_ext' {A B} (f g : A -> list B) l : (forall a, f a = g a) -> flat_map f l = flat_map g l.
Proof. intros H. induction l as [|x r IH]; cbn; [reflexivity|]. now rewrite H, IH. Qed.

Lemma deep_equal_refl s : deep_equal s s.
Proof. repeat split. Qed.

(* contexts that are deeply equal (whatever the internal order of their tables) serialize to the
   same payload; in particular serializing one context twice gives the same payload *)
Lemma ser_deterministic s1 s2 : deep_equal s1 s2 -> ser_env s1 = ser_env s2.
Proof.
  intros (E1 & T1 & T2 & T3 & T4 & EG & EM).
  assert (Hids : graph_ids s1 = graph_ids s2).
  { unfold graph_ids. f_equal. rewrite <- (map_length ser_graph (graphs s1)), EG. apply map_length. }
  assert (Hn : forall g, ncount s1 g = ncount s2 g).
  { intros g. rewrite !ncount_via_ser. now rewrite EG. }
  assert (Hnids : node_ids s1 = node_ids s2).
  { unfold node_ids. rewrite Hids. apply flat_map_ext'. intros g. now rewrite Hn. }
  unfold ser_env, ser. f_equal. unfold ser_table1, ser_table2. rewrite E1, EG, EM, Hids, Hnids.
  f_equal; apply flat_map_ext'; intros k.
  - now rewrite T1.
  - now rewrite T2.
  - now rewrite T3.
  - now rewrite T4.
Qed.

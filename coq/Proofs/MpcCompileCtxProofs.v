(* C01 deep model, context level, proofs, part 2: the input-sharing loop, the Call node, reveal, and
   the correctness of the main graph emitted by compile_to_mpc_context, composed from the
   correctness of the computation graph (Proofs/MpcCompileProofs.v). *)
From Coq Require Import Ring.
From CC Require Import Base.Prelude Base.Scalar Base.Ty Base.Shape Graph.Value Graph.IR Graph.Eval Graph.Typing
  Model.RingEval Model.MpcCompile Model.MpcCompilePlan Model.MpcCompileSem Model.MpcCompileCtx Model.MpcCompileCtxSem
  Proofs.MpcCompileBase Proofs.MpcCompileStatic Proofs.MpcCompileTyping Proofs.MpcCompileReshare Proofs.MpcCompileProofs
  Proofs.MpcCompileCtxBase Proofs.MpcCompileCtxStatic.

(* ---------- lists ---------- *)
Lemma znth_In {A} (l : list A) k x : znth l k = Ok x -> In x l.
Proof.
  unfold znth. destruct (k <? 0); [discriminate|]. generalize (Z.to_nat k). clear k.
  induction l as [|a l IH]; intros [|n] H; cbn in H; try discriminate.
  - inversion H; now left.
  - right. eauto.
Qed.

Lemma annot_eqb_refl a : annot_eqb a a = true.
Proof. destruct a; cbn; auto. now rewrite !Z.eqb_refl. Qed.
Lemma annot_eqb_eq a b : annot_eqb a b = true -> a = b.
Proof.
  destruct a, b; cbn; try discriminate; auto.
  intros H. apply andb_true_iff in H as [H1 H2]. apply Z.eqb_eq in H1, H2. now subst.
Qed.

Lemma contains_of_znth l k nd a : znth l k = Ok nd -> In a (n_annots nd) -> contains_node_annotation l a = true.
Proof.
  intros H Ha. unfold contains_node_annotation. apply existsb_exists. exists nd. split; [eapply znth_In; eauto|].
  apply existsb_exists. exists a. split; [exact Ha | apply annot_eqb_refl].
Qed.

Fixpoint count_inputs (nodes : list node) : nat :=
  match nodes with
  | [] => O
  | nd :: r => ((if is_input (n_op nd) then 1 else 0) + count_inputs r)%nat
  end.

Lemma input_types_length nodes : length (input_types nodes) = count_inputs nodes.
Proof.
  unfold input_types. induction nodes as [|nd r IH]; [reflexivity|]. cbn [flat_map count_inputs].
  rewrite app_length, IH. destruct (n_op nd); reflexivity.
Qed.

Section CtxProofs.
  Variable R : Type.
  Variables (r0 r1 : R) (radd rmul rsub : R -> R -> R) (ropp : R -> R).
  Hypothesis Rth : ring_theory r0 r1 radd rmul rsub ropp eq.
  Add Ring Rcp : Rth.
  Variable atom : Z -> R.
  Variable matom : Z -> R.
  Variable catom : value -> R.
  Variable one : R.
  Variable lin : op -> R -> R.
  Variable bil : op -> R -> R -> R.
  Variable nlin : op -> list R -> R.

  Notation rv := (rval R).
  Notation L := (RLeaf R).
  Notation T3 := (T3 R).
  Notation dfrom := (deval_from R r0 radd rmul rsub atom catom one lin bil nlin).
  Notation dstp := (dstep R r0 radd rmul rsub atom catom one lin bil nlin).
  Notation dev := (deval R r0 radd rmul rsub atom catom one lin bil nlin).
  Notation evals := (evals R r0 radd rmul rsub atom catom one lin bil nlin).
  Notation mono := (mono R).
  Notation inrel := (inrel R radd).
  Notation ctx_inrel := (ctx_inrel R radd).
  Notation keys_input := (keys_input R).
  Notation cevals := (cevals R r0 radd rmul rsub atom matom catom one lin bil nlin).
  Notation cnode := (ceval_node R r0 radd rmul rsub atom matom catom one lin bil nlin).

  (* ---------- how a graph consumes its inputs ---------- *)
  Lemma dstep_ins e0 i0 nd e1 i1 :
    dstp (Some (e0, i0)) nd = Some (e1, i1) ->
    (is_input (n_op nd) = true /\ exists v, i0 = v :: i1 /\ forall i', dstp (Some (e0, v :: i')) nd = Some (e1, i')) \/
    (is_input (n_op nd) = false /\ i1 = i0 /\ forall i', dstp (Some (e0, i')) nd = Some (e1, i')).
  Proof.
    intros H. destruct (is_input (n_op nd)) eqn:Hi.
    - left. split; [reflexivity|]. unfold dstep in *. destruct (n_op nd); try discriminate.
      destruct i0 as [|v i0]; [discriminate|]. inversion H; subst. exists v. auto.
    - right. split; [reflexivity|]. destruct (dstep_noninput R r0 radd rmul rsub atom catom one lin bil nlin _ _ _ _ Hi H) as (vs & v & Hm & Hv & Hst).
      inversion Hst; subst. split; [reflexivity|]. intros i'. unfold dstep.
      destruct (n_op nd); try discriminate; rewrite Hm, Hv; reflexivity.
  Qed.

  Lemma dfrom_ins nodes : forall e0 i0 e i,
    dfrom nodes (Some (e0, i0)) = Some (e, i) ->
    exists used, i0 = used ++ i /\ length used = count_inputs nodes /\
                 forall i', dfrom nodes (Some (e0, used ++ i')) = Some (e, i').
  Proof.
    induction nodes as [|nd nodes IH]; intros e0 i0 e i H.
    - inversion H; subst. exists []. auto.
    - rewrite dfrom_cons in H.
      destruct (dstp (Some (e0, i0)) nd) as [[e1 i1]|] eqn:Hst; [|rewrite dfrom_none in H; discriminate].
      destruct (IH _ _ _ _ H) as (used & -> & Hl & Hall).
      destruct (dstep_ins _ _ _ _ _ Hst) as [(Hi & v & -> & Hv) | (Hi & Heq & Hv)].
      + exists (v :: used). cbn [count_inputs length]. rewrite Hi. split; [reflexivity|]. split; [lia|].
        intros i'. rewrite dfrom_cons. cbn [app]. rewrite Hv. apply Hall.
      + exists used. cbn [count_inputs]. rewrite Hi. split; [now subst|]. split; [exact Hl|].
        intros i'. rewrite dfrom_cons, Hv. apply Hall.
  Qed.

  (* ---------- the input relation ---------- *)
  Definition status_flag (s : iostatus) : bool := negb (iostatus_eqb s IOPublic).

  Lemma ctx_inrel_split sts u : forall r m,
    ctx_inrel sts (u ++ r) m -> exists mu mr sts', m = mu ++ mr /\ ctx_inrel sts u mu /\ ctx_inrel sts' r mr /\ length mu = length u.
  Proof.
    revert sts. induction u as [|x u IH]; intros sts r m H.
    - exists [], m, sts. repeat split; auto. constructor.
    - cbn [app] in H. inversion H as [sts0 | sts0 i x0 s0 m0 Hr | sts0 v s0 m0 Hr | sts0 x0 a b c s0 m0 Hs Hr]; subst.
      + destruct (IH _ _ _ Hr) as (mu & mr & sts' & -> & H1 & H2 & Hl). exists (L x0 :: mu), mr, sts'.
        repeat split; auto. * now constructor. * cbn. now rewrite Hl.
      + destruct (IH _ _ _ Hr) as (mu & mr & sts' & -> & H1 & H2 & Hl). exists (x :: mu), mr, sts'.
        repeat split; auto. * now constructor. * cbn. now rewrite Hl.
      + destruct (IH _ _ _ Hr) as (mu & mr & sts' & -> & H1 & H2 & Hl). exists (T3 a b c :: mu), mr, sts'.
        repeat split; auto. * now constructor. * cbn. now rewrite Hl.
  Qed.

  (* some presentation of the inputs of the computation graph always exists *)
  Lemma ctx_inrel_witness sts s m : ctx_inrel sts s m -> exists c, inrel (map status_flag sts) s c /\ length c = length s.
  Proof.
    induction 1 as [sts | sts i x s m _ (c & Hc & Hl) | sts v s m _ (c & Hc & Hl) | sts x a b c0 s m Hs _ (c & Hc & Hl)].
    - exists []. split; [constructor | reflexivity].
    - exists (T3 x r0 r0 :: c). split; [|cbn; now rewrite Hl]. cbn [map status_flag iostatus_eqb negb]. constructor; [ring | exact Hc].
    - exists (v :: c). split; [|cbn; now rewrite Hl]. cbn [map status_flag iostatus_eqb negb]. constructor; exact Hc.
    - exists (T3 a b c0 :: c). split; [|cbn; now rewrite Hl]. cbn [map status_flag iostatus_eqb negb]. constructor; assumption.
  Qed.

  Lemma inrel_length fl s c : inrel fl s c -> length c = length s.
  Proof. induction 1; cbn; auto. Qed.

  (* ---------- share_all_inputs: the loop over the Input nodes of the source graph ---------- *)
  Lemma share_inputs_loop_length nodes : forall sts k out out' args,
    share_inputs_loop nodes sts k out = Ok (out', args) -> length args = count_inputs nodes.
  Proof.
    induction nodes as [|nd nodes IH]; intros sts k out out' args H; cbn [share_inputs_loop] in H.
    - inversion H; reflexivity.
    - cbn [count_inputs]. destruct (n_op nd) eqn:Ho; try (cbn [is_input]; eapply IH; eauto; fail).
      destruct sts as [|st sts]; [discriminate|].
      apply bind_ok in H as ([o1 si] & _ & H). apply bind_ok in H as ([o2 rest] & Hr & H). inversion H; subst.
      cbn [is_input length]. change (1 + count_inputs nodes)%nat with (S (count_inputs nodes)). f_equal. eapply IH; eauto.
  Qed.

  Section Loop.
    Variables (cg : list node) (coo : Z).

    Lemma share_inputs_loop_sem tl nodes : forall sts k out out' args ins0 env ins_m e0 ins_s e1 kv0 kv1 kv2,
      share_inputs_loop nodes sts k out = Ok (out', args) ->
      thm_frag nodes = true ->
      cevals cg coo ins0 out env (ins_m ++ tl) ->
      znth env k = Ok (RTup R [kv0; kv1; kv2]) ->
      dfrom nodes (Some (e0, ins_s)) = Some (e1, []) ->
      ctx_inrel sts ins_s ins_m ->
      exists env' args_v,
        cevals cg coo ins0 out' env' tl /\ mono env env' /\ ext out out' /\
        Forall2 (fun a v => znth env' a = Ok v) args args_v /\
        inrel (map status_flag sts) ins_s args_v.
    Proof.
      induction nodes as [|nd nodes IH]; intros sts k out out' args ins0 env ins_m e0 ins_s e1 kv0 kv1 kv2 H Hf E Hk Hs Hin;
        cbn [share_inputs_loop] in H.
      - inversion H; subst. inversion Hs; subst. inversion Hin; subst.
        exists env, []. split; [exact E|]. split; [apply mono_refl|]. split; [apply ext_refl|]. split; constructor.
      - cbn [thm_frag forallb] in Hf. apply andb_true_iff in Hf as [Hf0 Hf].
        rewrite dfrom_cons in Hs.
        destruct (dstp (Some (e0, ins_s)) nd) as [[e0' ins_s']|] eqn:Hst; [|rewrite dfrom_none in Hs; discriminate].
        destruct (dstep_ins _ _ _ _ _ Hst) as [(Hi & v & -> & _) | (Hi & -> & _)].
        + destruct (n_op nd) eqn:Ho; try discriminate. cbn [thm_op] in Hf0.
          destruct sts as [|st sts]; [discriminate|].
          apply bind_ok in H as ([o1 si] & H1 & H). apply bind_ok in H as ([o2 rest] & Hr & H). inversion H; subst out' args; clear H.
          inversion Hin as [sts0 | sts0 i x s0 m0 Hrest | sts0 v0 s0 m0 Hrest | sts0 x a b c s0 m0 Hsum Hrest]; subst; cbn [app] in E.
          * (* owned by party i: a plain input, then share_node *)
            unfold share_input in H1. apply bind_ok in H1 as ([oi pin] & Hi1 & H1).
            destruct (emit_input_cevals R r0 radd rmul rsub atom matom catom one lin bil nlin cg coo _ _ _ _ _ _ _ _ _ Hi1 E) as [Ev1 F1].
            destruct (emit_ty _ _ _ _ _ _ Hi1) as (ts & t' & Hm & Hit & Hty & X1).
            cbn [mapM] in Hm. inversion Hm; subst ts. apply infer_input in Hit. subst t'.
            destruct (share_node_sem R r0 r1 radd rmul rsub ropp Rth atom matom catom one lin bil nlin cg coo
                        _ _ _ _ _ _ _ _ _ _ kv0 kv1 kv2 _ H1 Ev1 Hty Hf0 F1 (znth_app_l _ _ _ _ Hk))
              as (e2 & a & b & c & Ev2 & M2 & F2 & Hsum & X2 & _).
            destruct (IH _ _ _ _ _ _ _ _ _ _ _ kv0 kv1 kv2 Hr Hf Ev2 (M2 _ _ (znth_app_l _ _ _ _ Hk)) Hs Hrest)
              as (e3 & av & Ev3 & M3 & X3 & FA & IR).
            exists e3, (T3 a b c :: av). split; [exact Ev3|].
            split; [intros d y Hd; apply M3, M2, znth_app_l, Hd|]. split; [eauto using ext_trans|].
            split; [constructor; [apply M3, F2 | exact FA]|].
            cbn [map status_flag iostatus_eqb negb]. constructor; [exact Hsum | exact IR].
          * (* public *)
            destruct (emit_input_cevals R r0 radd rmul rsub atom matom catom one lin bil nlin cg coo _ _ _ _ _ _ _ _ _ H1 E) as [Ev1 F1].
            destruct (emit_ty _ _ _ _ _ _ H1) as (_ & _ & _ & _ & _ & X1).
            destruct (IH _ _ _ _ _ _ _ _ _ _ _ kv0 kv1 kv2 Hr Hf Ev1 (znth_app_l _ _ _ _ Hk) Hs Hrest)
              as (e3 & av & Ev3 & M3 & X3 & FA & IR).
            exists e3, (v :: av). split; [exact Ev3|].
            split; [intros d y Hd; apply M3, znth_app_l, Hd|]. split; [eauto using ext_trans|].
            split; [constructor; [apply M3, F1 | exact FA]|].
            cbn [map status_flag iostatus_eqb negb]. constructor; exact IR.
          * (* arrives shared *)
            destruct (emit_input_cevals R r0 radd rmul rsub atom matom catom one lin bil nlin cg coo _ _ _ _ _ _ _ _ _ H1 E) as [Ev1 F1].
            destruct (emit_ty _ _ _ _ _ _ H1) as (_ & _ & _ & _ & _ & X1).
            destruct (IH _ _ _ _ _ _ _ _ _ _ _ kv0 kv1 kv2 Hr Hf Ev1 (znth_app_l _ _ _ _ Hk) Hs Hrest)
              as (e3 & av & Ev3 & M3 & X3 & FA & IR).
            exists e3, (T3 a b c :: av). split; [exact Ev3|].
            split; [intros d y Hd; apply M3, znth_app_l, Hd|]. split; [eauto using ext_trans|].
            split; [constructor; [apply M3, F1 | exact FA]|].
            cbn [map status_flag iostatus_eqb negb]. constructor; [first [reflexivity | assumption] | exact IR].
        + assert (H' : share_inputs_loop nodes sts k out = Ok (out', args)) by (destruct (n_op nd); try discriminate; exact H).
          eapply IH; eauto.
    Qed.
  End Loop.

  (* ---------- reveal_output ---------- *)
  Section Reveal.
    Variables (cg : list node) (coo : Z).
    Variable ins0 : list rv.
    Variables (base p0 : Z) (v : R).

    (* the nodes from position [base] on: none is a Call, and whatever party p0 sends is the value v *)
    Definition sendinv (out : list node) (env : list rv) : Prop :=
      forall k nd, znth out k = Ok nd -> base <= k ->
        n_op nd <> OCall /\ forall q, In (ASend p0 q) (n_annots nd) -> znth env k = Ok (L v).

    Lemma sendinv_init out env : zlen out <= base -> sendinv out env.
    Proof. intros Hb k nd Hk Hbk. apply znth_range in Hk. lia. Qed.

    Definition RI (out0 : list node) (env0 : list rv) (ins : list rv) (out : list node) (env : list rv) : Prop :=
      cevals cg coo ins0 out env ins /\ sendinv out env /\ ext out0 out /\ mono env0 env.

    Lemma RI_emit out0 env0 o deps an out out' id env ins vs w :
      RI out0 env0 ins out env ->
      emit o deps an out = Ok (out', id) -> is_input o = false ->
      mapM (fun d => znth env d) deps = Ok vs -> cnode cg coo (zlen env) o vs = Some w ->
      o <> OCall -> (forall q, In (ASend p0 q) an -> w = L v) ->
      RI out0 env0 ins out' (env ++ [w]) /\ znth (env ++ [w]) id = Ok w /\
      (exists nd, znth out' id = Ok nd /\ n_annots nd = an) /\ id = zlen out /\ zlen out' = zlen out + 1 /\
      (exists ts t, mapM (out_ty out) deps = Ok ts /\ infer o ts = Ok t /\ out_ty out' id = Ok t) /\ ext out out'.
    Proof.
      intros (E & SI & X & M) H Hi Hm Hv Hno Han.
      destruct (emit_cevals R r0 radd rmul rsub atom matom catom one lin bil nlin cg coo _ _ _ _ _ _ _ _ _ _ _ H E Hi Hm Hv) as [Ev F].
      destruct (emit_ty _ _ _ _ _ _ H) as (ts & t & Hts & Hit & Hty & X').
      destruct (emit_spec _ _ _ _ _ _ H) as (ts' & t' & _ & _ & -> & ->).
      pose proof (cevals_length R r0 radd rmul rsub atom matom catom one lin bil nlin cg coo _ _ _ _ E) as Le.
      split; [|split; [exact F|split; [|split; [reflexivity|split; [now rewrite zlen_app, zlen_one|split; [eauto 6|exact X']]]]]].
      - split; [exact Ev|]. split; [|split; [eauto using ext_trans | intros d y Hd; apply znth_app_l; auto]].
        intros k nd Hk Hb. pose proof (znth_range _ _ _ Hk) as Hr. rewrite zlen_app, zlen_one in Hr.
        destruct (Z.eq_dec k (zlen out)) as [->|Hne].
        + rewrite znth_last in Hk. inversion Hk; subst nd. cbn [n_op n_annots]. split; [exact Hno|].
          intros q Hq. rewrite <- Le. rewrite znth_last. f_equal. eauto.
        + apply znth_inj_app in Hk; [|lia]. destruct (SI _ _ Hk Hb) as [A B]. split; [exact A|].
          intros q Hq. apply znth_app_l. eauto.
      - eexists. split; [apply znth_last | reflexivity].
    Qed.

    Lemma sum3_leaf t x y z out :
      is_leaf t = true ->
      sum_shares t [x; y; z] out = (let* (o1, r1) := emit OAdd [x; y] [] out in emit OAdd [r1; z] [] o1).
    Proof. destruct t; try discriminate; reflexivity. Qed.

    Lemma listed_In q l : existsb (iostatus_eqb (IOParty q)) (map IOParty l) = true <-> In q l.
    Proof.
      rewrite existsb_exists. split.
      - intros (s & Hs & He). apply in_map_iff in Hs as (p & <- & Hp). cbn in He. apply Z.eqb_eq in He. now subst.
      - intros Hq. exists (IOParty q). split; [now apply in_map | cbn; apply Z.eqb_refl].
    Qed.

    (* one step of the forwarding loop *)
    Lemma forward_step out0 env0 ins outs q out env sn out' sn' :
      RI out0 env0 ins out env -> znth env sn = Ok (L v) ->
      (if existsb (iostatus_eqb (IOParty q)) (map IOParty outs)
       then emit ONOP [sn] [ASend p0 q] out else Ok (out, sn)) = Ok (out', sn') ->
      exists env', RI out0 env0 ins out' env' /\ znth env' sn' = Ok (L v) /\ ext out out' /\
        (In q outs -> exists k nd, znth out' k = Ok nd /\ zlen out <= k /\ In (ASend p0 q) (n_annots nd)).
    Proof.
      intros HR Hsn H. destruct (existsb _ _) eqn:Hc.
      - destruct (RI_emit _ _ _ _ _ _ _ _ _ _ [L v] (L v) HR H eq_refl) as (HR' & F & (nd & Hnd & Han) & Hid & _ & _ & X).
        + cbn [mapM]. rewrite Hsn. reflexivity.
        + reflexivity.
        + discriminate.
        + reflexivity.
        + exists (env ++ [L v]). split; [exact HR'|]. split; [exact F|]. split; [exact X|].
          intros _. exists sn', nd. split; [exact Hnd|]. split; [lia|]. rewrite Han. now left.
      - inversion H; subst. exists env. split; [exact HR|]. split; [exact Hsn|]. split; [apply ext_refl|].
        intros Hq. apply listed_In in Hq. congruence.
    Qed.

    Lemma ext_annot a b k nd x : ext a b -> znth a k = Ok nd -> In x (n_annots nd) ->
      exists nd', znth b k = Ok nd' /\ In x (n_annots nd').
    Proof. intros [_ X] Hk Hx. destruct (X _ _ Hk) as (nd' & Hk' & (_ & _ & _ & Hincl)). eauto. Qed.

    Lemma reveal_sem call rest out out' id env ins a b c T :
      reveal_output call (map IOParty (p0 :: rest)) out = Ok (out', id) -> cevals cg coo ins0 out env ins ->
      znth env call = Ok (T3 a b c) -> out_ty out call = Ok T -> share_ty T ->
      base = zlen out -> v = radd (radd a b) c -> 0 <= p0 < 3 ->
      exists env', cevals cg coo ins0 out' env' ins /\ mono env env' /\ ext out out' /\
        znth env' id = Ok (L v) /\ sendinv out' env' /\
        (forall q, In q rest -> q <> p0 -> 0 <= q < 3 ->
           exists k nd, znth out' k = Ok nd /\ base <= k /\ In (ASend p0 q) (n_annots nd)).
    Proof.
      intros H E Hc HT (t1 & t2 & t3 & -> & Lt1) Hbase Hv Hp0.
      assert (HR0 : RI out env ins out env).
      { split; [exact E|]. split; [apply sendinv_init; lia|]. split; [apply ext_refl | apply mono_refl]. }
      cbn [map reveal_output] in H.
      apply bind_ok in H as ([out1 shares] & HS & H). unfold parties in HS. cbn [mapS] in HS.
      apply bind_ok in HS as ([o1 i0] & E0 & HS). apply bind_ok in HS as ([o2' l1] & HS & Hr). inversion Hr; subst; clear Hr.
      apply bind_ok in HS as ([o2 i1] & E1 & HS). apply bind_ok in HS as ([o3' l2] & HS & Hr). inversion Hr; subst; clear Hr.
      apply bind_ok in HS as ([o3 i2] & E2 & HS). inversion HS; subst; clear HS.
      destruct (RI_emit _ _ _ _ _ _ _ _ _ _ [T3 a b c] (L a) HR0 E0 eq_refl) as (HR1 & F0 & _ & _ & _ & (ts0 & ty0 & Hm0 & Hi0 & Hty0) & X0);
        [cbn [mapM]; rewrite Hc; reflexivity | reflexivity | discriminate | intros q []|].
      pose proof HR1 as (_ & _ & _ & M1).
      destruct (RI_emit _ _ _ _ _ _ _ _ _ _ [T3 a b c] (L b) HR1 E1 eq_refl) as (HR2 & F1 & _ & _ & _ & (ts1 & ty1 & Hm1 & Hi1 & Hty1) & X1);
        [cbn [mapM]; rewrite (M1 _ _ Hc); reflexivity | reflexivity | discriminate | intros q []|].
      pose proof HR2 as (_ & _ & _ & M2).
      destruct (RI_emit _ _ _ _ _ _ _ _ _ _ [T3 a b c] (L c) HR2 E2 eq_refl) as (HR3 & F2 & _ & _ & _ & (ts2 & ty2 & Hm2 & Hi2 & Hty2) & X2);
        [cbn [mapM]; rewrite (M2 _ _ Hc); reflexivity | reflexivity | discriminate | intros q []|].
      set (e3 := ((env ++ [L a]) ++ [L b]) ++ [L c]) in *.
      (* the types of the three shares *)
      cbn [mapM] in Hm0, Hm1, Hm2. rewrite HT in Hm0. cbn [bind] in Hm0. inversion Hm0; subst ts0.
      rewrite (ext_out_ty _ _ _ _ X0 HT) in Hm1. cbn [bind] in Hm1. inversion Hm1; subst ts1.
      rewrite (ext_out_ty _ _ _ _ (ext_trans _ _ _ X0 X1) HT) in Hm2. cbn [bind] in Hm2. inversion Hm2; subst ts2.
      apply infer_tget3 in Hi0, Hi1, Hi2. cbn in Hi0, Hi1, Hi2. inversion Hi0; subst ty0. inversion Hi1; subst ty1. inversion Hi2; subst ty2.
      assert (G0 : znth e3 i0 = Ok (L a)) by (unfold e3; auto using znth_app_l).
      assert (G1 : znth e3 i1 = Ok (L b)) by (unfold e3; auto using znth_app_l).
      assert (G2 : znth e3 i2 = Ok (L c)) by exact F2.
      assert (Ty0 : out_ty out1 i0 = Ok t1) by exact (ext_out_ty _ _ _ _ (ext_trans _ _ _ X1 X2) Hty0).
      (* the missing share *)
      cbv zeta in H.
      assert (Hprev : (p0 + 3 - 1) mod 3 = 0 \/ (p0 + 3 - 1) mod 3 = 1 \/ (p0 + 3 - 1) mod 3 = 2) by lia.
      assert (Hne : (p0 + 3 - 1) mod 3 <> p0) by lia.
      remember ((p0 + 3 - 1) mod 3) as prev eqn:Eprev.
      apply bind_ok in H as (sp & Hsp & H). apply bind_ok in H as ([out2 ms] & HN & H).
      apply bind_ok in H as (str & Hstr & H). apply bind_ok in H as (s0 & Hs0 & H). apply bind_ok in H as (t & Ht & H).
      apply bind_ok in H as ([out3 rn] & HSum & H).
      assert (Shares : exists w, znth e3 sp = Ok (L w) /\
                 exists u0 u1 u2, str = [u0; u1; u2] /\
                   forall e, mono e3 e -> znth e ms = Ok (L w) ->
                             znth e u0 = Ok (L a) /\ znth e u1 = Ok (L b) /\ znth e u2 = Ok (L c)).
      { destruct Hprev as [Hq | [Hq | Hq]]; rewrite Hq in *.
        - change (znth [i0; i1; i2] 0) with (Ok (A:=Z) i0) in Hsp. inversion Hsp; subst sp. exists a. split; [exact G0|].
          change (replace_nth_res [i0; i1; i2] 0 ms) with (Ok (A:=list Z) [ms; i1; i2]) in Hstr. inversion Hstr; subst str.
          exists ms, i1, i2. split; [reflexivity|]. intros e Me Hms. auto.
        - change (znth [i0; i1; i2] 1) with (Ok (A:=Z) i1) in Hsp. inversion Hsp; subst sp. exists b. split; [exact G1|].
          change (replace_nth_res [i0; i1; i2] 1 ms) with (Ok (A:=list Z) [i0; ms; i2]) in Hstr. inversion Hstr; subst str.
          exists i0, ms, i2. split; [reflexivity|]. intros e Me Hms. auto.
        - change (znth [i0; i1; i2] 2) with (Ok (A:=Z) i2) in Hsp. inversion Hsp; subst sp. exists c. split; [exact G2|].
          change (replace_nth_res [i0; i1; i2] 2 ms) with (Ok (A:=list Z) [i0; i1; ms]) in Hstr. inversion Hstr; subst str.
          exists i0, i1, ms. split; [reflexivity|]. intros e Me Hms. auto. }
      destruct Shares as (w & Gsp & u0 & u1 & u2 & -> & Hu).
      destruct (RI_emit _ _ _ _ _ _ _ _ _ _ [L w] (L w) HR3 HN eq_refl) as (HR4 & F3 & _ & _ & _ & (ts3 & ty3 & Hm3 & Hi3 & Hty3) & X3);
        [cbn [mapM]; rewrite Gsp; reflexivity | reflexivity | discriminate | |].
      { intros q [Hq|[]]. inversion Hq. congruence. }
      destruct (Hu (e3 ++ [L w]) (mono_snoc R _ _) F3) as (U0 & U1 & U2).
      (* the type of the first share to reveal *)
      change (znth [u0; u1; u2] 0) with (Ok (A:=Z) u0) in Hs0. inversion Hs0; subst s0.
      assert (Lt : is_leaf t = true).
      { assert (Hsp_ty : exists tsp, out_ty out1 sp = Ok tsp /\ (sp = i0 -> tsp = t1)).
        { cbn [mapM] in Hm3. destruct (out_ty out1 sp) as [tsp| | |] eqn:Htsp; try discriminate. exists tsp. split; [reflexivity|].
          intros ->. congruence. }
        destruct Hsp_ty as (tsp & Htsp & Hsp0). cbn [mapM] in Hm3. rewrite Htsp in Hm3. cbn [bind] in Hm3. inversion Hm3; subst ts3.
        apply infer_nop in Hi3. subst ty3.
        destruct Hprev as [Hq | [Hq | Hq]]; rewrite Hq in *.
        + change (znth [i0; i1; i2] 0) with (Ok (A:=Z) i0) in Hsp. inversion Hsp; subst sp.
          change (replace_nth_res [i0; i1; i2] 0 ms) with (Ok (A:=list Z) [ms; i1; i2]) in Hstr. inversion Hstr; subst u0 u1 u2.
          rewrite Hty3 in Ht. inversion Ht; subst t. rewrite (Hsp0 eq_refl). exact Lt1.
        + change (replace_nth_res [i0; i1; i2] 1 ms) with (Ok (A:=list Z) [i0; ms; i2]) in Hstr. inversion Hstr; subst u0 u1 u2.
          rewrite (ext_out_ty _ _ _ _ X3 Ty0) in Ht. inversion Ht; subst t. exact Lt1.
        + change (replace_nth_res [i0; i1; i2] 2 ms) with (Ok (A:=list Z) [i0; i1; ms]) in Hstr. inversion Hstr; subst u0 u1 u2.
          rewrite (ext_out_ty _ _ _ _ X3 Ty0) in Ht. inversion Ht; subst t. exact Lt1. }
      rewrite (sum3_leaf _ _ _ _ _ Lt) in HSum. apply bind_ok in HSum as ([o4 r1'] & A0 & A1).
      destruct (RI_emit _ _ _ _ _ _ _ _ _ _ [L a; L b] (L (radd a b)) HR4 A0 eq_refl) as (HR5 & F4 & _ & _ & _ & _ & X4);
        [cbn [mapM]; rewrite U0, U1; reflexivity | reflexivity | discriminate | intros q []|].
      destruct (RI_emit _ _ _ _ _ _ _ _ _ _ [L (radd a b); L c] (L (radd (radd a b) c)) HR5 A1 eq_refl) as (HR6 & F5 & _ & _ & _ & _ & X5);
        [cbn [mapM]; rewrite F4, (znth_app_l _ _ _ _ U2); reflexivity | reflexivity | discriminate | intros q []|].
      rewrite <- Hv in HR6, F5.
      set (e6 := ((e3 ++ [L w]) ++ [L (radd a b)]) ++ [L v]) in *.
      assert (LB : base <= zlen out3).
      { rewrite Hbase. destruct (ext_trans _ _ _ X0 (ext_trans _ _ _ X1 (ext_trans _ _ _ X2 (ext_trans _ _ _ X3 (ext_trans _ _ _ X4 X5))))) as [Lx _]. exact Lx. }
      destruct (1 <? zlen (IOParty p0 :: map IOParty rest)) eqn:Hlen.
      - (* forwarding *)
        unfold forward_revealed in H. cbn [fold_left] in H.
        apply bind_ok in H as ([out5 sn2] & HF & HL).
        cbn [bind] in HF.
        destruct (if existsb (iostatus_eqb (IOParty ((p0 + 1) mod 3))) (IOParty p0 :: map IOParty rest)
                  then emit ONOP [rn] [ASend p0 ((p0 + 1) mod 3)] out3 else Ok (out3, rn)) as [[out4 sn1]| | |] eqn:HF1; try discriminate.
        cbn [bind] in HF.
        change (IOParty p0 :: map IOParty rest) with (map IOParty (p0 :: rest)) in HF1, HF.
        destruct (forward_step _ _ _ _ _ _ _ _ _ _ HR6 F5 HF1) as (e7 & HR7 & F7 & X7 & Ex1).
        destruct (forward_step _ _ _ _ _ _ _ _ _ _ HR7 F7 HF) as (e8 & HR8 & F8 & X8 & Ex2).
        destruct (RI_emit _ _ _ _ _ _ _ _ _ _ [L v] (L v) HR8 HL eq_refl) as (HR9 & F9 & _ & _ & _ & _ & X9);
          [cbn [mapM]; rewrite F8; reflexivity | reflexivity | discriminate | intros q []|].
        destruct HR9 as (Ev9 & SI9 & X09 & M9).
        exists (e8 ++ [L v]). split; [exact Ev9|]. split; [exact M9|]. split; [exact X09|]. split; [exact F9|]. split; [exact SI9|].
        intros q Hq Hqp Hqr.
        assert (Hq12 : q = (p0 + 1) mod 3 \/ q = (p0 + 2) mod 3) by lia.
        destruct Hq12 as [-> | ->].
        + destruct (Ex1 (or_intror Hq)) as (k & nd & Hk & Hkb & Ha).
          destruct (ext_annot _ _ _ _ _ (ext_trans _ _ _ X8 X9) Hk Ha) as (nd' & Hk' & Ha'). exists k, nd'. split; [exact Hk'|]. split; [lia | exact Ha'].
        + destruct (Ex2 (or_intror Hq)) as (k & nd & Hk & Hkb & Ha).
          destruct (ext_annot _ _ _ _ _ X9 Hk Ha) as (nd' & Hk' & Ha'). exists k, nd'. split; [exact Hk'|]. split; [|exact Ha'].
          destruct X7 as [L7 _]. lia.
      - (* a single output party *)
        inversion H; subst out' id; clear H.
        destruct HR6 as (Ev6 & SI6 & X06 & M6).
        exists e6. split; [exact Ev6|]. split; [exact M6|]. split; [exact X06|]. split; [exact F5|]. split; [exact SI6|].
        intros q Hq. exfalso. destruct rest; [destruct Hq|]. unfold zlen in Hlen. cbn [length map] in Hlen. lia.
    Qed.
  End Reveal.

  (* ---------- the Call node ---------- *)
  Lemma emit_call_spec gid callee co args out out' id :
    emit_call gid callee co args out = Ok (out', id) ->
    exists t, out_ty callee co = Ok t /\ zlen args = zlen (input_types callee) /\
              out' = out ++ [mkNode OCall args [gid] [] t] /\ id = zlen out.
  Proof.
    unfold emit_call. intros H. apply bind_ok in H as (ts & _ & H).
    destruct (zlen args =? zlen (input_types callee)) eqn:Hl; cbn [negb] in H; [|discriminate].
    destruct (list_eqb ty_eqb (input_types callee) ts); cbn [negb] in H; [|discriminate].
    apply bind_ok in H as (t0 & Ht0 & H). apply bind_ok in H as (t & Hr & H). apply register_inv in Hr. subst t.
    inversion H; subst. exists t0. repeat split; auto. now apply Z.eqb_eq.
  Qed.

  Lemma Forall2_mapM {A B} (f : A -> result B) l vs : Forall2 (fun a v => f a = Ok v) l vs -> mapM f l = Ok vs.
  Proof. induction 1 as [|a v l vs Ha _ IH]; cbn [mapM]; [reflexivity|]. now rewrite Ha, IH. Qed.
  Lemma Forall2_len {A B} (P : A -> B -> Prop) l l' : Forall2 P l l' -> length l = length l'.
  Proof. induction 1; cbn; auto. Qed.

  Lemma reveal3_inv vc v : reveal3 R radd vc = Some v -> exists a b c, vc = T3 a b c /\ radd (radd a b) c = v.
  Proof.
    unfold reveal3. intros H.
    destruct vc as [x|l|]; try discriminate.
    destruct l as [|[a|?|] l]; try discriminate.
    destruct l as [|[b|?|] l]; try discriminate.
    destruct l as [|[c|?|] l]; try discriminate.
    destruct l; try discriminate. inversion H. exists a, b, c. split; reflexivity.
  Qed.

  (* the PRF keys of the main graph: three Random nodes, each sent to the previous party, and their tuple *)
  Definition prf_prefix : list node :=
    Eval vm_compute in
      match (let* (m1, kv) := generate_prf_key_triple [] in emit OCreateTuple kv [] m1) with
      | Ok (m, _) => m
      | _ => []
      end.
  Lemma prf_prefix_spec :
    (let* (m1, kv) := generate_prf_key_triple [] in emit OCreateTuple kv [] m1) = Ok (prf_prefix, 6).
  Proof. vm_compute. reflexivity. Qed.

  Definition prf_env : list rv :=
    [RKey R; RKey R; RKey R; RKey R; RKey R; RKey R; RTup R [RKey R; RKey R; RKey R]].
  Lemma prf_prefix_cevals cg coo ins0 : cevals cg coo ins0 prf_prefix prf_env ins0.
  Proof. reflexivity. Qed.

  Lemma share_all_inputs_length nodes sts k mul b2a tr out out' args :
    share_all_inputs nodes sts k mul b2a tr out = Ok (out', args) ->
    length args = ((if mul then 1 else 0) + (if b2a then 1 else 0) + (if tr then 1 else 0) + count_inputs nodes)%nat.
  Proof.
    unfold share_all_inputs. intros H.
    apply bind_ok in H as ([o1 s1] & H1 & H). apply bind_ok in H as ([o2 s2] & H2 & H).
    apply bind_ok in H as ([o3 ins] & H3 & H). inversion H; subst; clear H.
    apply share_inputs_loop_length in H3. rewrite app_length, H3.
    assert (L1 : length s1 = ((if mul then 1 else 0) + (if b2a then 1 else 0))%nat).
    { destruct b2a.
      - apply bind_ok in H1 as ([o k'] & _ & H1). inversion H1; subst. rewrite app_length. destruct mul; reflexivity.
      - inversion H1; subst. destruct mul; reflexivity. }
    assert (L2 : length s2 = (length s1 + (if tr then 1 else 0))%nat).
    { destruct tr.
      - apply bind_ok in H2 as ([o k'] & _ & H2). inversion H2; subst. rewrite app_length. reflexivity.
      - inversion H2; subst. lia. }
    lia.
  Qed.

  Lemma outputs_checked outs :
    existsb (fun s => match s with IOParty id => 3 <=? id | _ => true end) (map IOParty outs) = false ->
    Forall (fun p => p < 3) outs.
  Proof.
    induction outs as [|p outs IH]; cbn [map existsb]; intros H; constructor.
    - apply orb_false_iff in H as [H _]. lia.
    - apply orb_false_iff in H as [_ H]. auto.
  Qed.

  Lemma leaf_no_tget t i r : is_leaf t = true -> infer (OTupleGet i) [t] = Ok r -> False.
  Proof.
    intros Lt H. unfold infer in H; cbn [arity] in H. change (zlen [t] =? 1) with true in H. cbv iota in H.
    unfold infer_op in H; cbn [nth] in H. destruct t; try discriminate.
  Qed.

  (* the operations of the theorem fragment are additive *)
  Hypothesis lin_add : forall o a b, lin o (radd a b) = radd (lin o a) (lin o b).
  Hypothesis bil_add_l : forall o a a' b, bil o (radd a a') b = radd (bil o a b) (bil o a' b).
  Hypothesis bil_add_r : forall o a b b', bil o a (radd b b') = radd (bil o a b) (bil o a b').
  Hypothesis nlin_add : forall o l l', length l = length l' -> nlin o (vadd R radd l l') = radd (nlin o l) (nlin o l').

  (* ---------- the computation graph: value and type of its output node ---------- *)
  Lemma compile_graph_output_typed nodes output flags out oo priv um :
    compile_graph nodes output flags = Ok (out, oo) ->
    propagate_private_annotations nodes flags = Ok (priv, um) ->
    thm_frag nodes = true ->
    forall ins_s ins_c env_s v kv0 kv1 kv2,
    dev nodes ins_s = Some env_s -> znth env_s output = Ok (L v) -> inrel flags ins_s ins_c ->
    exists env_c vc,
      dev out (keys_input um kv0 kv1 kv2 ++ ins_c) = Some env_c /\ znth env_c oo = Ok vc /\
      (if mem output priv then reveal3 R radd vc = Some v /\ shty out oo else vc = L v /\ pubty out oo).
  Proof.
    intros H Hppa Hf ins_s ins_c env_s v kv0 kv1 kv2 Hs Hv Hin.
    unfold compile_graph in H. destruct (compile_graph_map nodes output flags) as [[[o1 oo1] omap]| | |] eqn:Hm; try discriminate.
    cbn in H. inversion H; subst o1 oo1; clear H.
    destruct (compile_graph_structure _ _ _ _ _ _ Hm) as (p' & u' & Hp' & _ & _ & _ & _ & _ & Hoo).
    destruct (compile_graph_map_plan _ _ _ _ Hm) as (resh & H).
    unfold compile_graph_plan in H. rewrite Hppa in H. cbn [bind] in H.
    apply bind_ok in H as ([out0 keys] & H0 & H).
    apply bind_ok in H as ([out1 omap1] & HL & H). apply bind_ok in H as (oo' & _ & H). inversion H; subst; clear H.
    unfold deval in Hs. destruct (dfrom nodes (Some ([], ins_s))) as [[es is']|] eqn:Hds; [|discriminate].
    inversion Hs; subst es; clear Hs.
    pose proof Hppa as Hppa'.
    unfold propagate_private_annotations in Hppa. apply bind_ok in Hppa as ([[p m] f'] & Hl & Hppa). inversion Hppa; subst; clear Hppa.
    destruct (ppa_loop_spec _ _ _ _ _ _ _ _ Hl) as [_ Hps].
    { intros d Hd. discriminate. }
    { exact (dfrom_bdeps R r0 radd rmul rsub atom catom one lin bil nlin _ _ _ _ Hds). }
    assert (Init : exists env0, evals (keys_input um kv0 kv1 kv2 ++ ins_c) out0 env0 ins_c /\ keys_ok R keys env0).
    { destruct um; cbv iota in H0.
      - apply bind_ok in H0 as ([o k] & He & H0). inversion H0; subst; clear H0.
        destruct (emit_spec _ _ _ _ _ _ He) as (ts & t & _ & _ & -> & ->).
        exists ([] ++ [RTup R [kv0; kv1; kv2]]). split.
        + eapply evals_snoc_input; [apply evals_nil | reflexivity].
        + intros k Hk. inversion Hk; subst. exists kv0, kv1, kv2. reflexivity.
      - inversion H0; subst. exists []. split; [apply evals_nil | intros k Hk; discriminate]. }
    destruct Init as (env0 & Ev0 & K0).
    destruct (compile_loop_sem R r0 r1 radd rmul rsub ropp Rth atom catom one lin bil nlin lin_add bil_add_l bil_add_r nlin_add
                _ _ _ _ _ _ _ _ _ _ _ _ _ _ _ _ _ HL Hf Hps Hds eq_refl Ev0 Hin K0) as (env_c & ins_c' & Ev & _ & [_ HI]).
    { split; [reflexivity|]. intros j vs Hj. destruct (znth_nil_false _ _ Hj). }
    destruct (HI _ _ Hv) as (k & vc & Hk & Hvc & Hrel & Hsh & Hpb).
    rewrite Hoo in Hk. inversion Hk; subst k.
    exists env_c, vc. split.
    { unfold deval. unfold MpcCompileBase.evals in Ev. rewrite Ev. reflexivity. }
    split; [exact Hvc|].
    match goal with |- context [mem output ?pp] => remember (mem output pp) as bb eqn:Hbb end. destruct bb.
    - destruct Hrel as (x & a & b & c & Hx & -> & Hsum). inversion Hx; subst. split; [reflexivity | auto].
    - split; [exact Hrel | auto].
  Qed.

  (* the PRF-multiplication key input is annotated *)
  Lemma compile_graph_mul_annot nodes output flags out oo priv :
    compile_graph nodes output flags = Ok (out, oo) ->
    propagate_private_annotations nodes flags = Ok (priv, true) ->
    contains_node_annotation out APRFMultiplication = true.
  Proof.
    intros H Hppa. unfold compile_graph in H.
    destruct (compile_graph_map nodes output flags) as [[[o1 oo1] omap]| | |] eqn:Hm; try discriminate.
    cbn in H. inversion H; subst o1 oo1; clear H.
    unfold compile_graph_map in Hm. rewrite Hppa in Hm. cbn [bind] in Hm.
    apply bind_ok in Hm as ([out0 keys] & H0 & Hm). apply bind_ok in Hm as (resh & _ & Hm).
    apply bind_ok in Hm as ([out1 omap1] & HL & Hm). apply bind_ok in Hm as (oo' & _ & Hm). inversion Hm; subst; clear Hm.
    apply bind_ok in H0 as ([o k] & He & H0). inversion H0; subst; clear H0.
    destruct (emit_spec _ _ _ _ _ _ He) as (ts & t & _ & _ & -> & ->).
    destruct (compile_loop_static _ _ _ _ _ _ _ _ _ HL) as ([[_ X] _] & _).
    - reflexivity.
    - intros j k Hk. destruct (znth_nil_false _ _ Hk).
    - intros j j' a b Ha. destruct (znth_nil_false _ _ Ha).
    - intros j k Hk. destruct (znth_nil_false _ _ Hk).
    - destruct (X 0 _ (znth_last [] _)) as (nd' & Hn & (_ & _ & _ & Hincl)).
      eapply contains_of_znth; [exact Hn|]. apply Hincl. now left.
  Qed.

  (* ---------- compile_to_mpc_context ---------- *)
  Definition ctx_statement (cg : list node) (coo : Z) (mg : list node) (moo : Z) (outs : list Z)
             (env_m : list rv) (v : R) : Prop :=
    match outs with
    | [] => exists vc, znth env_m moo = Ok vc /\ reveal3 R radd vc = Some v
    | p0 :: rest =>
        znth env_m moo = Ok (L v) /\
        exists c cn, znth mg c = Ok cn /\ n_op cn = OCall /\ In AMpcCall (n_annots cn) /\
          (forall k nd, znth mg k = Ok nd -> c < k ->
             n_op nd <> OCall /\ forall q, In (ASend p0 q) (n_annots nd) -> znth env_m k = Ok (L v)) /\
          (output_annotated_private cg coo = true ->
           forall q, In q rest -> q <> p0 ->
             exists k nd, znth mg k = Ok nd /\ c < k /\ In (ASend p0 q) (n_annots nd))
    end.

  Theorem compile_context_correct nodes output sts outs cg coo mg moo :
    compile_to_mpc nodes output sts (map IOParty outs) = Ok ((cg, coo), (mg, moo)) ->
    thm_frag nodes = true ->
    Forall (fun p => 0 <= p) outs ->
    forall ins_s ins_m env_s v,
    dev nodes ins_s = Some env_s -> znth env_s output = Ok (L v) ->
    ctx_inrel sts ins_s ins_m ->
    exists env_m,
      ceval R r0 radd rmul rsub atom matom catom one lin bil nlin cg coo mg ins_m = Some env_m /\
      ctx_statement cg coo mg moo outs env_m v.
  Proof.
    intros H Hf Hpos ins_s ins_m env_s v Hs Hv Hin.
    unfold compile_to_mpc in H.
    destruct (existsb _ sts); [discriminate|].
    destruct (existsb _ (map IOParty outs)) eqn:Hchk; [discriminate|]. apply outputs_checked in Hchk.
    unfold compile_to_mpc_context in H.
    change (map (fun s => negb (iostatus_eqb s IOPublic)) sts) with (map status_flag sts) in H.
    apply bind_ok in H as ([cg' coo'] & HC & H).
    assert (HP := prf_prefix_spec). apply bind_ok in HP as ([m1 kv] & HP1 & HP2). rewrite HP1 in H. cbn [bind] in H.
    rewrite HP2 in H. cbn [bind] in H.
    apply bind_ok in H as ([m3 shared_input] & H3 & H).
    apply bind_ok in H as ([m4 call] & H4 & H).
    apply bind_ok in H as (m5 & H5 & H).
    apply bind_ok in H as (out_node & Hon & H).
    apply bind_ok in H as ([m6 result] & H6 & H). inversion H; subst cg' coo' m6 result; clear H.
    (* the privacy analysis, and the Private annotation of the output node *)
    assert (exists priv um, propagate_private_annotations nodes (map status_flag sts) = Ok (priv, um)) as (priv & um & Hppa).
    { pose proof HC as HC'. unfold compile_graph in HC'.
      destruct (compile_graph_map nodes output (map status_flag sts)) as [[[o1 oo1] omap]| | |] eqn:Hm; try discriminate.
      destruct (compile_graph_structure _ _ _ _ _ _ Hm) as (p & u & Hp & _). eauto. }
    pose proof (output_annotation_is_privacy _ _ _ _ _ _ _ HC Hppa) as Hann.
    (* the source consumes exactly its inputs *)
    unfold deval in Hs. destruct (dfrom nodes (Some ([], ins_s))) as [[es rest_s]|] eqn:Hds; [|discriminate].
    inversion Hs; subst es; clear Hs.
    destruct (dfrom_ins _ _ _ _ _ Hds) as (used & -> & Hul & Hall).
    specialize (Hall []). rewrite app_nil_r in Hall.
    destruct (ctx_inrel_split _ _ _ _ Hin) as (mu & mr & sts' & -> & Hin_u & _ & Hmulen).
    assert (Hdev : dev nodes used = Some env_s) by (unfold deval; rewrite Hall; reflexivity).
    (* the flags of share_all_inputs *)
    destruct (emit_call_spec _ _ _ _ _ _ _ H4) as (tcall & Htcall & Hargs & -> & ->).
    pose proof (share_all_inputs_length _ _ _ _ _ _ _ _ _ H3) as Hlen.
    assert (Hcnt : (count_inputs cg <= (if um then 1 else 0) + count_inputs nodes)%nat).
    { destruct (ctx_inrel_witness _ _ _ Hin_u) as (c0 & Hc0 & Hc0l).
      destruct (compile_graph_output_typed _ _ _ _ _ _ _ HC Hppa Hf _ _ _ _ (RKey R) (RKey R) (RKey R) Hdev Hv Hc0)
        as (env_c & vc & Hev & _ & _).
      unfold deval in Hev. destruct (dfrom cg (Some ([], keys_input um (RKey R) (RKey R) (RKey R) ++ c0))) as [[ec rc]|] eqn:Hdc; [|discriminate].
      destruct (dfrom_ins _ _ _ _ _ Hdc) as (u' & Hu' & Hu'l & _).
      apply (f_equal (@length _)) in Hu'. rewrite !app_length in Hu'. rewrite <- Hu'l, <- Hul, <- Hc0l.
      destruct um; cbn [keys_input length] in Hu'; lia. }
    assert (Hflags : contains_node_annotation cg APRFMultiplication = um /\
                     contains_node_annotation cg APRFB2A = false /\ contains_node_annotation cg APRFTruncate = false).
    { unfold zlen in Hargs. rewrite input_types_length in Hargs. apply Nat2Z.inj in Hargs. rewrite Hlen in Hargs.
      assert (Hum : um = true -> contains_node_annotation cg APRFMultiplication = true).
      { intros ->. eapply compile_graph_mul_annot; eauto. }
      destruct um; [rewrite (Hum eq_refl) in *|];
        destruct (contains_node_annotation cg APRFMultiplication); destruct (contains_node_annotation cg APRFB2A);
        destruct (contains_node_annotation cg APRFTruncate); try lia; auto. }
    destruct Hflags as (Hmul & Hb2a & Htr). rewrite Hmul, Hb2a, Htr in H3.
    (* input sharing *)
    unfold share_all_inputs in H3. cbn [bind] in H3.
    apply bind_ok in H3 as ([m3' ins] & HL & H3). inversion H3; subst m3' shared_input; clear H3.
    destruct (share_inputs_loop_sem cg coo mr _ _ _ _ _ _ (mu ++ mr) prf_env _ _ _ _ (RKey R) (RKey R) (RKey R) HL Hf
                (prf_prefix_cevals cg coo (mu ++ mr)) eq_refl Hall Hin_u)
      as (e3 & args_v & Ev3 & M3 & X3 & FA & IR).
    (* the computation graph on the shared inputs *)
    destruct (compile_graph_output_typed _ _ _ _ _ _ _ HC Hppa Hf _ _ _ _ (RKey R) (RKey R) (RKey R) Hdev Hv IR)
      as (env_c & vc & Hev & Hvc & Hout).
    assert (Hargs_v : mapM (fun d => znth e3 d) ((if um then [6] else []) ++ ins) = Ok (keys_input um (RKey R) (RKey R) (RKey R) ++ args_v)).
    { rewrite mapM_app, (Forall2_mapM (fun d => znth e3 d) _ _ FA). destruct um; cbn [mapM keys_input bind app]; [|reflexivity].
      rewrite (M3 6 (RTup R [RKey R; RKey R; RKey R]) eq_refl). reflexivity. }
    pose proof (cevals_length R r0 radd rmul rsub atom matom catom one lin bil nlin cg coo _ _ _ _ Ev3) as Le3.
    assert (Ev4 : cevals cg coo (mu ++ mr) (m3 ++ [mkNode OCall ((if um then [6] else []) ++ ins) [0] [] tcall]) (e3 ++ [vc]) mr).
    { eapply cevals_snoc; [exact Ev3 | reflexivity | exact Hargs_v |].
      cbn [n_op ceval_node]. rewrite Hev, Hvc. reflexivity. }
    assert (F4 : znth (e3 ++ [vc]) (zlen m3) = Ok vc) by (rewrite <- Le3; apply znth_last).
    pose proof (add_annotation_cevals R r0 radd rmul rsub atom matom catom one lin bil nlin cg coo _ _ _ _ _ _ _ H5 Ev4) as Ev5.
    destruct (add_annotation_ext _ _ _ _ H5) as [X5 L5].
    destruct (add_annotation_has _ _ _ _ H5) as (cn & Hcn & Hcna).
    assert (Hcnop : n_op cn = OCall).
    { destruct X5 as [_ X5]. destruct (X5 _ _ (znth_last m3 _)) as (nd' & Hnd' & (Hop & _)). rewrite Hcn in Hnd'. inversion Hnd'; subst nd'. now rewrite <- Hop. }
    assert (Tcall : out_ty m5 (zlen m3) = Ok tcall) by (eapply ext_out_ty; [exact X5 | apply out_ty_last]).
    assert (L5' : zlen m5 = zlen m3 + 1) by (rewrite L5, zlen_app, zlen_one; reflexivity).
    (* is_output_private *)
    unfold output_annotated_private in Hann. rewrite Hon in Hann. rewrite Hann in H6.
    unfold ceval.
    destruct (mem output priv) eqn:Hpriv.
    - (* private result *)
      destruct Hout as [Hrv Hsh]. destruct (reveal3_inv _ _ Hrv) as (a & b & c & -> & Hsum).
      destruct Hsh as (T & HT & HsT). rewrite Htcall in HT. inversion HT; subst T.
      destruct outs as [|p0 rest].
      + cbn [map reveal_output] in H6. inversion H6; subst mg moo.
        exists (e3 ++ [T3 a b c]). unfold cevals, MpcCompileCtxBase.cevals in Ev5. rewrite Ev5. split; [reflexivity|].
        cbn [ctx_statement]. exists (T3 a b c). split; [exact F4 | exact Hrv].
      + inversion Hpos as [|? ? Hp0 Hposr]; subst. inversion Hchk as [|? ? Hp3 Hchkr]; subst.
        destruct (reveal_sem cg coo (mu ++ mr) (zlen m5) p0 _ _ _ _ _ _ _ _ a b c _ H6 Ev5 F4 Tcall HsT eq_refl eq_refl (conj Hp0 Hp3))
          as (e6 & Ev6 & M6 & X6 & F6 & SI6 & Ex6).
        exists e6. unfold cevals, MpcCompileCtxBase.cevals in Ev6. rewrite Ev6. split; [reflexivity|].
        cbn [ctx_statement]. split; [exact F6|].
        destruct X6 as [L6 X6]. destruct (X6 _ _ Hcn) as (cn' & Hcn' & (Hop' & _ & _ & Hincl')).
        exists (zlen m3), cn'. split; [exact Hcn'|]. split; [now rewrite <- Hop'|]. split; [auto|].
        split.
        * intros k nd Hk Hlt. apply (SI6 k nd Hk). lia.
        * intros _ q Hq Hqp.
          assert (Hq0 : 0 <= q) by (rewrite Forall_forall in Hposr; auto).
          assert (Hq3 : q < 3) by (rewrite Forall_forall in Hchkr; auto).
          destruct (Ex6 q Hq Hqp (conj Hq0 Hq3)) as (k & nd & Hk & Hkb & Ha). exists k, nd. split; [exact Hk|]. split; [lia | exact Ha].
    - (* public result *)
      destruct Hout as [-> (T & HT & LT)]. rewrite Htcall in HT. inversion HT; subst T.
      destruct outs as [|p0 rest].
      + cbn [map] in H6. apply bind_ok in H6 as ([m nd] & HS & H6). apply bind_ok in H6 as (m' & HA & H6). inversion H6; subst m' nd; clear H6.
        destruct (share_node_sem R r0 r1 radd rmul rsub ropp Rth atom matom catom one lin bil nlin cg coo
                    _ _ _ _ _ _ _ _ _ _ (RKey R) (RKey R) (RKey R) _ HS Ev5 Tcall LT F4 (znth_app_l _ _ _ _ (M3 6 _ eq_refl)))
          as (e6 & a & b & c & Ev6 & M6 & F6 & Hsum & _).
        pose proof (add_annotation_cevals R r0 radd rmul rsub atom matom catom one lin bil nlin cg coo _ _ _ _ _ _ _ HA Ev6) as Ev7.
        exists e6. unfold cevals, MpcCompileCtxBase.cevals in Ev7. rewrite Ev7. split; [reflexivity|].
        cbn [ctx_statement]. exists (T3 a b c). split; [exact F6|]. cbn [reveal3 MpcCompileSem.T3]. now rewrite Hsum.
      + cbn [map] in H6. inversion H6; subst mg moo; clear H6.
        exists (e3 ++ [L v]). unfold cevals, MpcCompileCtxBase.cevals in Ev5. rewrite Ev5. split; [reflexivity|].
        cbn [ctx_statement]. split; [exact F4|].
        exists (zlen m3), cn. split; [exact Hcn|]. split; [exact Hcnop|]. split; [exact Hcna|]. split.
        * intros k nd Hk Hlt. apply znth_range in Hk. lia.
        * unfold output_annotated_private. rewrite Hon, Hann. discriminate.
  Qed.
End CtxProofs.

(* C01 bridge, corollary: the tape side condition [wf_ring_tape] follows from the usual typing of
   tape values ([has_type], Graph/Value.v: the recorded number of NORMALISED elements), so the
   bridge holds in particular for every well-typed tape.  [wf_ring_tape] itself is weaker: it
   does not ask for normalised elements, and asks nothing of keys. *)
From CC Require Import Base.Prelude Base.Scalar Base.Ty Base.Shape Graph.Value Graph.IR Graph.Eval
  Model.RingEval Model.RingEvalInst Model.RingEvalWf Proofs.OptBase Proofs.RingEvalBridge.

(* every Input / Random / PRF node has a tape entry of its recorded type *)
Fixpoint tape_typed_from (i : nat) (nodes : list node) (tape : Z -> option value) : bool :=
  match nodes with
  | [] => true
  | nd :: r =>
      (if from_tape (n_op nd) then
         match tape (Z.of_nat i) with Some v => has_type v (n_ty nd) | None => false end
       else true)
      && tape_typed_from (S i) r tape
  end.
Definition tape_typed (nodes : list node) (tape : Z -> option value) : bool := tape_typed_from 0 nodes tape.

Lemma has_type_shape_ok T : is_leaf T = true ->
  forall v t, has_type v t = true -> ring_shape_ok T t v = true.
Proof.
  intros HT. induction v as [es|vs IH] using value_ind'; intros t H; cbn [ring_shape_ok].
  - destruct (ty_eqb t T) eqn:E.
    + apply ty_eqb_eq in E. subst t. unfold ring_n.
      destruct T as [s|sh s| | |]; try discriminate HT; cbn [has_type dims] in *;
        apply andb_true_iff in H as (H & _).
      * change (prod_list [1]) with 1. lia.
      * lia.
    + destruct t; try reflexivity. discriminate H.
  - destruct (ty_eqb t T) eqn:E.
    + apply ty_eqb_eq in E. subst t. destruct T; try discriminate HT; discriminate H.
    + destruct t as [s|sh s|m t1|ts|fs]; try reflexivity. clear E. cbn [has_type] in H.
      revert ts H. induction IH as [|x xs Hx _ IHl]; intros [|t1 ts] H; try discriminate; auto.
      apply andb_true_iff in H as (H1 & H2). rewrite (Hx _ H1). cbn [andb]. now apply IHl.
Qed.

Lemma tape_typed_wf T tape : is_leaf T = true -> forall nodes i,
  tape_typed_from i nodes tape = true -> wf_ring_tape_from T i nodes tape = true.
Proof.
  intros HT. induction nodes as [|nd r IH]; intros i H; cbn [tape_typed_from wf_ring_tape_from] in *; auto.
  apply andb_true_iff in H as (H1 & H2). rewrite (IH _ H2), andb_true_r.
  destruct (from_tape (n_op nd)); auto.
  destruct (tape (Z.of_nat i)) as [v|]; [|discriminate]. now apply has_type_shape_ok.
Qed.

Theorem ring_reading_agrees_typed T tape nodes vals :
  wf_ring_graph T nodes = true -> tape_typed nodes tape = true ->
  eval_graph_nodes nodes tape = Ok vals ->
  reading_mismatch (ring_w T) (ring_n T) tape nodes (tape_inputs nodes tape) vals = -1.
Proof.
  intros Hg Ht. apply ring_reading_agrees; auto.
  apply tape_typed_wf; auto.
  unfold wf_ring_graph in Hg. apply andb_true_iff in Hg as (HT & _). now apply wf_ring_type_leaf.
Qed.

(* Per-operation specification proofs (C10), part 6: Gather (numpy.take along an axis). *)
From CC Require Import Base.Prelude Base.Scalar Base.Ty Base.Shape Graph.Value Graph.IR Graph.Eval
  Proofs.EvalProofs Graph.Spec Proofs.EvalSpecBase Proofs.EvalSpecProofs Proofs.EvalSpecIndex
  Proofs.EvalSpecMatmul Proofs.EvalSpecGemm.

Lemma firstn_app_len {A} (a b : list A) : firstn (length a) (a ++ b) = a.
Proof. rewrite firstn_app, Nat.sub_diag, firstn_all. cbn [firstn]. apply app_nil_r. Qed.

Lemma skipn_S_app_len {A} (a : list A) x b : skipn (S (length a)) (a ++ x :: b) = b.
Proof.
  replace (a ++ x :: b) with ((a ++ [x]) ++ b) by (now rewrite <- app_assoc).
  rewrite skipn_app. rewrite skipn_all2 by (rewrite app_length; cbn [length]; lia).
  rewrite app_length. cbn [length app]. replace (S (length a) - (length a + 1))%nat with O by lia.
  reflexivity.
Qed.

(* indices of an unsigned type of at most 64 bits are read as they are *)
Lemma as_u64_index st x : width st <> 128 -> signed st = false -> 0 <= x < modulus st -> as_u64 st x = x.
Proof.
  intros W S Hx. unfold as_u64, sval, norm. rewrite S. cbn [andb]. rewrite (Z.mod_small x) by lia.
  apply Z.mod_small. split; [lia|]. unfold modulus in Hx.
  assert (2 ^ width st <= 2 ^ 64) by (apply Z.pow_le_mono_r; [lia|destruct st; cbn in *; lia]). lia.
Qed.

(* the evaluator's gather on a flat list of (already decoded) indices *)
Lemma eval_gather_spec pre d post es inds :
  valid_shape pre -> 0 < d -> valid_shape post ->
  length es = Z.to_nat (prod_list (pre ++ d :: post)) ->
  Forall (fun e => 0 <= e < d) inds ->
  let P := prod_list post in let n := Z.of_nat (length inds) in
  exists r, eval_gather (pre ++ d :: post) es inds (Z.of_nat (length pre)) = Ok r /\
    length r = Z.to_nat (prod_list pre * (n * P)) /\
    forall ip c ipost, in_shape ip pre -> 0 <= c < n -> in_shape ipost post ->
      nth (Z.to_nat (flat_pos ip pre * (n * P) + (c * P + flat_pos ipost post))) r 0
      = get es (pre ++ d :: post) (ip ++ nth (Z.to_nat c) inds 0 :: ipost).
Proof.
  intros Hvpre Hd Hvpost Hl Hin P n.
  pose proof (prod_list_pos _ Hvpre) as Ppre. pose proof (prod_list_pos _ Hvpost) as Ppost. fold P in Ppost.
  assert (Les : Z.of_nat (length es) = prod_list pre * (d * P)).
  { rewrite Hl, prod_list_app, prod_list_cons. fold P. nia. }
  set (piece := fun a ie => firstn (Z.to_nat P) (skipn (Z.to_nat ((a * d + ie) * P)) es)).
  set (Rowf := fun a => concat (map (piece a) inds)).
  assert (Lpiece : forall a, 0 <= a < prod_list pre ->
            forall l, In l (map (piece a) inds) -> length l = Z.to_nat P).
  { intros a Ha l Hl'. apply in_map_iff in Hl' as (ie & <- & Hie). rewrite Forall_forall in Hin.
    specialize (Hin ie Hie). unfold piece. rewrite firstn_length, skipn_length.
    assert ((a * d + ie + 1) * P <= prod_list pre * d * P) by (apply Z.mul_le_mono_nonneg_r; nia). nia. }
  assert (LRow : forall l, In l (map Rowf (zrange (prod_list pre))) -> length l = Z.to_nat (n * P)).
  { intros l Hl'. apply in_map_iff in Hl' as (a & <- & Ha). apply In_zrange in Ha. unfold Rowf.
    rewrite (concat_length_const_nat _ _ (Lpiece a Ha)). rewrite map_length. unfold n. nia. }
  exists (concat (map Rowf (zrange (prod_list pre)))). split; [|split].
  - unfold eval_gather. rewrite Nat2Z.id.
    replace (Z.to_nat (Z.of_nat (length pre) + 1)) with (S (length pre)) by lia.
    rewrite firstn_app_len, skipn_S_app_len. fold P.
    rewrite (znth_ok _ _ 0) by (rewrite app_length; cbn [length]; lia).
    rewrite Nat2Z.id, nth_middle. cbn [bind].
    rewrite (mapM_zrange_ok _ Rowf); [reflexivity|].
    intros a Ha. unfold Rowf. rewrite (mapM_map _ (piece a)); [reflexivity|].
    intros ie Hie. rewrite Forall_forall in Hin. specialize (Hin ie Hie).
    replace (d <=? ie) with false by lia. unfold piece. apply slice_z_ok; try nia.
    assert ((a * d + ie + 1) * P <= prod_list pre * d * P) by (apply Z.mul_le_mono_nonneg_r; nia). nia.
  - rewrite (concat_length_const_nat _ _ LRow). rewrite map_length, zrange_length.
    rewrite <- Z2Nat.inj_mul by (unfold n; nia). reflexivity.
  - intros ip c ipost Hip Hc Hipost.
    pose proof (flat_pos_range _ _ Hip) as Ra. pose proof (flat_pos_range _ _ Hipost) as Rf. fold P in Rf.
    set (a := flat_pos ip pre) in *. set (fp := flat_pos ipost post) in *.
    rewrite (nth_concat_const_z _ (n * P)) by (auto; nia).
    rewrite nth_map_zrange by lia. unfold Rowf.
    rewrite (nth_concat_const_z _ P) by (try apply (Lpiece a Ra); lia).
    rewrite (nth_map_default _ _ _ 0) by (unfold n in Hc; lia).
    set (ie := nth (Z.to_nat c) inds 0).
    assert (Hie : 0 <= ie < d).
    { rewrite Forall_forall in Hin. apply Hin. apply nth_In. unfold n in Hc. lia. }
    unfold piece. rewrite nth_firstn_skipn by lia. unfold get.
    rewrite flat_pos_app by (now apply in_shape_length). cbn [flat_pos]. rewrite prod_list_cons.
    fold P a fp. f_equal. nia.
Qed.

Theorem gather_spec pre d post ish st ist t es idx :
  valid_shape pre -> 0 < d -> valid_shape post -> valid_shape ish ->
  length es = Z.to_nat (prod_list (pre ++ d :: post)) ->
  length idx = Z.to_nat (prod_list ish) ->
  Forall (fun x => as_u64 ist x < d) idx ->
  let sh := pre ++ d :: post in let rs := pre ++ ish ++ post in
  exists r, eval_node (OGather (Z.of_nat (length pre))) [TArray sh st; TArray ish ist] t [VArr es; VArr idx]
            = Ok (VArr r) /\
    length r = Z.to_nat (prod_list rs) /\
    forall ip ii ipost, in_shape ip pre -> in_shape ii ish -> in_shape ipost post ->
      get r rs (ip ++ ii ++ ipost) = get es sh (ip ++ as_u64 ist (get idx ish ii) :: ipost).
Proof.
  intros Hvpre Hd Hvpost Hvish Hl Hli Hidx sh rs.
  pose proof (prod_list_pos _ Hvish) as Pish.
  assert (Hin : Forall (fun e => 0 <= e < d) (map (as_u64 ist) idx)).
  { apply Forall_forall. intros e He. apply in_map_iff in He as (x & <- & Hx).
    rewrite Forall_forall in Hidx. specialize (Hidx x Hx). split; [|exact Hidx].
    unfold as_u64. apply Z.mod_pos_bound. lia. }
  destruct (eval_gather_spec pre d post es (map (as_u64 ist) idx) Hvpre Hd Hvpost Hl Hin) as (r & E & L & S).
  cbv zeta in L, S. rewrite map_length in L, S.
  assert (Hn : Z.of_nat (length idx) = prod_list ish) by lia. rewrite Hn in L, S.
  exists r. split; [|split].
  - cbn [eval_node nth nth_res bind arr_of is_arr negb shape_of st_of]. fold sh. unfold sh. rewrite E. reflexivity.
  - rewrite L. unfold rs. now rewrite !prod_list_app.
  - intros ip ii ipost Hip Hii Hipost. pose proof (flat_pos_range _ _ Hii) as Rc.
    unfold get at 1. unfold rs.
    rewrite flat_pos_app by (now apply in_shape_length).
    rewrite flat_pos_app by (now apply in_shape_length). rewrite prod_list_app.
    rewrite (S ip (flat_pos ii ish) ipost Hip Rc Hipost).
    rewrite (nth_map_default _ _ _ 0) by lia. reflexivity.
Qed.

From Coq Require Import Znumtheory.
From CC Require Import Base.Prelude Base.Scalar Base.Ty Base.Shape Graph.Value Graph.IR Graph.Eval Proofs.EvalProofs.

Section Chunks.
  Variable w : nat.
  Fixpoint chunks (fuel : nat) (l : list Z) : list (list Z) :=
    match fuel with
    | O => []
    | S f => if (length l <? w)%nat then [] else firstn w l :: chunks f (skipn w l)
    end.
End Chunks.

Definition is_bit (b : Z) : Prop := b = 0 \/ b = 1.

Lemma bits_from_bits bs : Forall is_bit bs -> bits_lsb (length bs) (from_bits_lsb bs) = bs.
Proof.
  induction 1 as [|b r Hb _ IH]; cbn [length bits_lsb from_bits_lsb]; auto.
  f_equal.
  - destruct Hb as [-> | ->]; lia.
  - replace ((b + 2 * from_bits_lsb r) / 2) with (from_bits_lsb r) by (destruct Hb as [-> | ->]; lia). exact IH.
Qed.

Lemma a2b_b2a_chunks w : (0 < w)%nat -> forall k fuel es,
  length es = (k * w)%nat -> (k <= fuel)%nat -> Forall is_bit es ->
  flat_map (bits_lsb w) (map from_bits_lsb (chunks w fuel es)) = es.
Proof.
  intros W. induction k as [|k IH]; intros fuel es L F B.
  - destruct es; [|discriminate]. destruct fuel; cbn [chunks length]; auto.
    destruct w; [lia|]. reflexivity.
  - destruct fuel as [|fuel]; [lia|]. cbn [chunks].
    replace (length es <? w)%nat with false by (cbn in L; lia).
    cbn [map flat_map]. rewrite <- (firstn_skipn w es) at 3. f_equal.
    + assert (Lf : length (firstn w es) = w) by (rewrite firstn_length; cbn in L; lia).
      rewrite <- Lf at 1. apply bits_from_bits. rewrite <- (firstn_skipn w es) in B.
      apply Forall_app in B. tauto.
    + apply IH; [rewrite skipn_length; cbn in L; lia|lia|].
      rewrite <- (firstn_skipn w es) in B. apply Forall_app in B. tauto.
Qed.

Lemma b2a_a2b_chunks w : (0 < w)%nat -> forall es fuel,
  (length es <= fuel)%nat -> Forall (fun e => 0 <= e < 2 ^ Z.of_nat w) es ->
  map from_bits_lsb (chunks w fuel (flat_map (bits_lsb w) es)) = es.
Proof.
  intros W. induction es as [|e es IH]; intros fuel F R.
  - cbn [flat_map]. destruct fuel; cbn [chunks length]; auto. destruct w; [lia|]. reflexivity.
  - destruct fuel as [|fuel]; [cbn in F; lia|]. cbn [flat_map chunks].
    rewrite app_length, bits_lsb_length. replace (w + length (flat_map (bits_lsb w) es) <? w)%nat with false by lia.
    rewrite firstn_app, bits_lsb_length, Nat.sub_diag, firstn_O, app_nil_r.
    rewrite firstn_all2 by (rewrite bits_lsb_length; lia).
    rewrite skipn_app, bits_lsb_length, Nat.sub_diag, skipn_O.
    rewrite skipn_all2 by (rewrite bits_lsb_length; lia). cbn [app map].
    inversion R as [|? ? Re Rr]; subst. f_equal.
    + rewrite from_bits_lsb_bits_lsb by lia. apply Z.mod_small. lia.
    + apply IH; auto. cbn in F. lia.
Qed.

Lemma prod_list_snoc sh w : prod_list (sh ++ [w]) = prod_list sh * w.
Proof.
  unfold prod_list. induction sh as [|d sh IH]; cbn [app fold_right]; [lia|]. rewrite IH. ring.
Qed.

Lemma has_type_bits es sh : has_type (VArr es) (TArray sh Bit) = true ->
  Z.of_nat (length es) = prod_list sh /\ Forall is_bit es.
Proof.
  cbn [has_type]. intros H. apply andb_true_iff in H as (H1 & H2). split; [lia|].
  rewrite forallb_forall in H2. apply Forall_forall. intros e I. specialize (H2 e I).
  change (modulus Bit) with 2 in H2. unfold is_bit. lia.
Qed.

Lemma has_type_leaf_range es t : is_leaf t = true -> has_type (VArr es) t = true ->
  Forall (fun e => 0 <= e < modulus (st_of t)) es.
Proof.
  destruct t; cbn [is_leaf has_type st_of]; try discriminate; intros _ H;
    apply andb_true_iff in H as (_ & H2); rewrite forallb_forall in H2; apply Forall_forall;
    intros e I; specialize (H2 e I); lia.
Qed.

(* C06 / duplicate-node merging (Model.Opt.opt_dup): semantics, inputs, annotations, freshness. *)
From CC Require Import Base.Prelude Base.Scalar Base.Ty Base.Shape Graph.Value Graph.IR Graph.Eval
  Model.Opt Model.Uniquify Proofs.OptBase Proofs.OptSem Proofs.OptSim Proofs.OptFresh Proofs.OptDangling.

(* well-typedness as far as de-duplication needs it: dependencies precede the node and the node
   type is a function [infer] of the operation and the dependency types *)
Definition typed_nodes (infer : op -> list ty -> ty) (nodes : list node) : Prop :=
  forall i nd, nth_error nodes i = Some nd ->
               exists dts, mapM (dep_get (map n_ty nodes) i) (n_deps nd) = Ok dts /\ n_ty nd = infer (n_op nd) dts.

Lemma mapM_map_get_app m m' l r : mapM (map_get m) l = Ok r -> mapM (map_get (m ++ m')) l = Ok r.
Proof.
  intros H. apply mapM_Forall2 in H. apply mapM_Forall2.
  induction H as [|d j l r E _ IH]; constructor; auto. apply map_get_ok in E as (D & E).
  apply map_get_ok. split; auto. now apply nth_error_app1'.
Qed.

Lemma deps_tys_keeps nodes pre out m i deps deps' dts :
  keeps pre out m -> bounded m (length out) ->
  (forall k nd, nth_error pre k = Some nd -> nth_error nodes k = Some nd) ->
  mapM (map_get m) deps = Ok deps' ->
  mapM (dep_get (map n_ty nodes) i) deps = Ok dts ->
  mapM (dep_get (map n_ty out) (length out)) deps' = Ok dts.
Proof.
  intros K B P M V. apply mapM_Forall2 in M, V. apply mapM_Forall2.
  eapply Forall2_compose; eauto. cbn. intros d d' t _ Hd Ht.
  apply map_get_ok in Hd as (D0 & Hd). apply dep_get_ok in Ht as (_ & Ht).
  pose proof (B _ _ Hd) as Bd.
  apply K in Hd as (nd & nd' & N1 & N2 & _ & _ & N3). apply P in N1. apply dep_get_ok.
  rewrite (map_nth_error n_ty _ _ N1) in Ht. injection Ht as <-.
  split; [lia|]. rewrite (map_nth_error n_ty _ _ N2). congruence.
Qed.

Lemma node_key_some nd deps k : node_key nd deps = Ok (Some k) ->
  k = (deps, n_annots nd, n_op nd) /\ is_input (n_op nd) = false /\ is_fresh_op (n_op nd) = false.
Proof.
  unfold node_key. destruct (n_op nd); cbn; intros H; try discriminate; injection H as <-; auto.
Qed.

Lemma node_key_fresh nd deps : is_fresh_op (n_op nd) = true -> node_key nd deps = Ok None.
Proof. unfold node_key. destruct (n_op nd); cbn; intros H; try discriminate; auto. Qed.
Lemma node_key_input nd deps : is_input (n_op nd) = true -> node_key nd deps = Ok None.
Proof. unfold node_key. destruct (n_op nd); cbn; intros H; try discriminate; auto. Qed.

Lemma key_eqb_eq a b : key_eqb a b = true -> a = b.
Proof.
  destruct a as [[d1 a1] o1], b as [[d2 a2] o2]. unfold key_eqb. cbn [fst snd]. intros H.
  apply andb_true_iff in H as (H & H3). apply andb_true_iff in H as (H1 & H2).
  apply list_eqb_Z_eq in H1. apply list_eqb_annot_eq in H2. apply op_eqb_eq in H3. congruence.
Qed.

Lemma sig_find_some sigs k j : sig_find sigs k = Some j -> In (k, j) sigs.
Proof.
  unfold sig_find. destruct (find _ (rev sigs)) as [[k0 j0]|] eqn:F; [|discriminate].
  intros H; injection H as <-. apply find_some in F as (I & E). cbn in E. apply key_eqb_eq in E. subst k0.
  now apply in_rev.
Qed.

(* ------------------------------------------------------------------ step inversion *)
Lemma opt_dup_step_strict o r a s' : opt_dup_step o r a = Ok s' -> exists s, r = Ok s.
Proof. destruct r; cbn; intros; try discriminate; eauto. Qed.

Lemma opt_dup_step_inv o s i nd s' i' :
  opt_dup_step o (Ok (s, i)) nd = Ok (s', i') ->
  i' = i + 1 /\
  exists deps key j,
    mapM (map_get (ds_map s)) (n_deps nd) = Ok deps /\ node_key nd deps = Ok key /\
    ds_map s' = ds_map s ++ [Some j] /\
    ds_sigs s' = (match key with Some k => ds_sigs s ++ [(k, j)] | None => ds_sigs s end) /\
    ds_output s' = (if eqb o (Some i) then Some j else ds_output s) /\
    ((exists k, key = Some k /\ sig_find (ds_sigs s) k = Some j /\ ds_out s' = ds_out s)
     \/ (j = Z.of_nat (length (ds_out s)) /\
         ds_out s' = ds_out s ++ [mkNode (n_op nd) deps [] (n_annots nd) (n_ty nd)])).
Proof.
  unfold opt_dup_step. cbn [bind].
  destruct (negb match n_gdeps nd with [] => true | _ :: _ => false end); [discriminate|].
  intros H. apply bind_ok in H as (deps & E1 & H). apply bind_ok in H as (key & E2 & H).
  destruct (match key with Some k => sig_find (ds_sigs s) k | None => None end) as [j|] eqn:F.
  - cbn in H. injection H as <- <-. split; auto. exists deps, key, j. cbn. repeat split; auto.
    left. destruct key as [k|]; [|discriminate]. eauto.
  - cbn in H. injection H as <- <-. split; auto. exists deps, key, (Z.of_nat (length (ds_out s))). cbn.
    repeat split; auto.
Qed.

Section Dup.
  Variable sem : op -> list ty -> ty -> list value -> result value.
  Variable ft : op -> bool.
  Variable infer : op -> list ty -> ty.
  Variables (nodes : list node) (o : option Z).
  Hypothesis Htyped : typed_nodes infer nodes.

  (* every signature entry records an earlier node with exactly this key, mapped to this image *)
  Definition sigs_ok (pre : list node) (m : list (option Z)) (sigs : list ((list Z * list annot * op) * Z)) : Prop :=
    forall k j, In (k, j) sigs ->
                exists i0 nd0 deps0, nth_error pre i0 = Some nd0 /\ nth_error m i0 = Some (Some j) /\
                                     mapM (map_get m) (n_deps nd0) = Ok deps0 /\ node_key nd0 deps0 = Ok (Some k).

  Lemma sigs_ok_ext pre a m x sigs : sigs_ok pre m sigs -> sigs_ok (pre ++ [a]) (m ++ [x]) sigs.
  Proof.
    intros H k j I. destruct (H k j I) as (i0 & nd0 & deps0 & E1 & E2 & E3 & E4).
    exists i0, nd0, deps0. repeat split; auto using nth_error_app1', mapM_map_get_app.
  Qed.

  Definition out_spec (pre : list node) (m : list (option Z)) : option Z :=
    match o with
    | Some x => if (0 <=? x) && (x <? Z.of_nat (length pre))
                then match nth_error m (Z.to_nat x) with Some y => y | None => None end
                else None
    | None => None end.

  Definition dup_struct (pre : list node) (st : dup_state * Z) : Prop :=
    let '(s, i) := st in
    i = Z.of_nat (length pre) /\ length (ds_map s) = length pre /\
    bounded (ds_map s) (length (ds_out s)) /\ keeps pre (ds_out s) (ds_map s) /\
    sigs_ok pre (ds_map s) (ds_sigs s) /\
    input_sigs (ds_out s) = input_sigs pre /\
    fresh_spec pre (ds_out s) (ds_map s) /\
    ds_output s = out_spec pre (ds_map s) /\
    (* nodes without a key are the first node mapped to their image *)
    (forall i0 nd0 j, nth_error pre i0 = Some nd0 -> (forall deps, node_key nd0 deps = Ok None) ->
                      nth_error (ds_map s) i0 = Some (Some j) ->
                      forall i', (i' < i0)%nat -> nth_error (ds_map s) i' <> Some (Some j)).

  Lemma dup_struct_init : dup_struct [] (mkDS [] [] [] None, 0).
  Proof.
    cbn. splits; auto using bounded_nil, keeps_nil, fresh_spec_nil.
    - intros k j [].
    - unfold out_spec. destruct o as [x|]; auto. cbn. destruct ((0 <=? x) && (x <? 0)) eqn:E; auto; lia.
    - intros [|i0] nd0 j E; discriminate.
  Qed.

  Lemma out_spec_step pre a m i jj out0 :
    i = Z.of_nat (length pre) -> length m = length pre -> out0 = out_spec pre m ->
    (if eqb o (Some i) then Some jj else out0) = out_spec (pre ++ [a]) (m ++ [Some jj]).
  Proof.
    intros -> L ->. unfold out_spec. rewrite app_length; cbn [length]. destruct o as [x|]; [|reflexivity].
    change (eqb (Some x) (Some (Z.of_nat (length pre)))) with (x =? Z.of_nat (length pre)).
    destruct (0 <=? x) eqn:O0; cbn [andb].
    - destruct (x <? Z.of_nat (length pre)) eqn:O1.
      + replace (x =? Z.of_nat (length pre)) with false by lia.
        replace (x <? Z.of_nat (length pre + 1)) with true by lia.
        rewrite nth_error_app1 by lia. reflexivity.
      + destruct (x =? Z.of_nat (length pre)) eqn:O2.
        * replace (x <? Z.of_nat (length pre + 1)) with true by lia.
          assert (Z.to_nat x = length m) as -> by lia. now rewrite nth_error_snoc.
        * replace (x <? Z.of_nat (length pre + 1)) with false by lia. reflexivity.
    - replace (x =? Z.of_nat (length pre)) with false by lia. reflexivity.
  Qed.

  Lemma dup_struct_step pre a post st st' :
    nodes = pre ++ a :: post -> dup_struct pre st -> opt_dup_step o (Ok st) a = Ok st' ->
    dup_struct (pre ++ [a]) st'.
  Proof.
    destruct st as [s i], st' as [s' i'].
    intros El (I1 & I2 & I3 & I4 & I5 & I6 & I7 & I9 & I10) St.
    apply opt_dup_step_inv in St as (-> & deps & key & j & Ed & Ek & Em & Es & Eo & Hcase).
    assert (Pn : forall k nd, nth_error pre k = Some nd -> nth_error nodes k = Some nd).
    { intros k nd E. rewrite El. now apply nth_error_app1'. }
    assert (Ea : nth_error nodes (length pre) = Some a).
    { rewrite El, nth_error_app2, Nat.sub_diag by lia. reflexivity. }
    cbn [dup_struct]. rewrite Em, Es, Eo. rewrite !app_length; cbn [length].
    rewrite (out_spec_step pre a (ds_map s) i j _ I1 I2 I9).
    assert (Sg : sigs_ok (pre ++ [a]) (ds_map s ++ [Some j])
                   (match key with Some k => ds_sigs s ++ [(k, j)] | None => ds_sigs s end)).
    { destruct key as [k|]; [|now apply sigs_ok_ext].
      intros k0 j0 I. apply in_app_iff in I as [I|[I|[]]]; [now apply (sigs_ok_ext _ _ _ _ _ I5)|].
      injection I as <- <-. exists (length pre), a, deps. rewrite nth_error_snoc, <- I2, nth_error_snoc.
      repeat split; auto using mapM_map_get_app. }
    destruct Hcase as [(k & -> & Ef & Eout)|(-> & Eout)]; rewrite Eout.
    - (* merged with an earlier node *)
      apply sig_find_some in Ef. destruct (I5 _ _ Ef) as (i0 & nd0 & deps0 & F1 & F2 & F3 & F4).
      pose proof Ek as Ek0.
      apply node_key_some in Ek as (-> & Ki & Kf). apply node_key_some in F4 as (F4 & _).
      injection F4 as -> Ea1 Ea2.
      destruct (I4 _ _ F2) as (nd0x & nd0' & G1 & G2 & G3 & G4 & G5).
      assert (nd0x = nd0) by congruence. subst nd0x.
      assert (Ty : n_ty a = n_ty nd0).
      { destruct (Htyped _ _ Ea) as (dts & T1 & T2). destruct (Htyped _ _ (Pn _ _ F1)) as (dts0 & T3 & T4).
        pose proof (deps_tys_keeps _ _ _ _ _ _ _ _ I4 I3 Pn Ed T1) as X1.
        pose proof (deps_tys_keeps _ _ _ _ _ _ _ _ I4 I3 Pn F3 T3) as X2.
        rewrite X1 in X2. injection X2 as <-. congruence. }
      splits; auto; try lia.
      + apply bounded_snoc; auto. intros j0 E; injection E as <-. eapply I3; eauto.
      + apply keeps_snoc; auto; [rewrite <- (app_nil_r (ds_out s)); now apply keeps_app|].
        intros j0 E; injection E as <-. exists nd0'. repeat split; auto; congruence.
      + rewrite input_sigs_app, I6. unfold input_sigs at 3. cbn [filter]. rewrite Ki. cbn. now rewrite app_nil_r.
      + rewrite <- (app_nil_r (ds_out s)). apply fresh_spec_step_other; auto.
      + intros i1 nd1 j1 E1 Hk Ej i'' Li.
        apply nth_error_snoc_inv in E1 as [(L1 & E1)|(-> & ->)].
        * rewrite nth_error_app1 in Ej by lia. rewrite nth_error_app1 by lia. eapply I10; eauto.
        * exfalso. rewrite (Hk deps0) in Ek0. discriminate.
    - (* copied *)
      rewrite ?app_length; cbn [length]. splits; auto; try lia.
      + apply bounded_snoc; [eapply bounded_mono; eauto; lia|]. intros j0 E; injection E as <-. lia.
      + apply keeps_snoc; auto; [now apply keeps_app|]. intros j0 E; injection E as <-.
        rewrite Nat2Z.id, nth_error_snoc. eexists; split; eauto.
      + rewrite !input_sigs_app, I6. f_equal. unfold input_sigs. cbn [filter n_op].
        destruct (is_input (n_op a)); reflexivity.
      + apply fresh_spec_step_copy; auto.
      + intros i1 nd1 j1 E1 Hk Ej i'' Li.
        apply nth_error_snoc_inv in E1 as [(L1 & E1)|(-> & ->)].
        * rewrite nth_error_app1 in Ej by lia. rewrite nth_error_app1 by lia. eapply I10; eauto.
        * rewrite <- I2, nth_error_snoc in Ej. injection Ej as <-.
          rewrite nth_error_app1 by lia. intros X. apply I3 in X. lia.
  Qed.

  Lemma dup_struct_inv sN :
    fold_left (opt_dup_step o) nodes (Ok (mkDS [] [] [] None, 0)) = Ok sN -> dup_struct nodes sN.
  Proof.
    apply (fold_res_inv (opt_dup_step o) dup_struct).
    - apply opt_dup_step_strict.
    - apply dup_struct_init.
    - intros pre a post s s' El I St. eapply dup_struct_step; eauto.
  Qed.

  Variables (tape : Z -> option value) (vals : list value).
  Hypothesis Hval : valuation sem ft nodes tape vals.

  Definition dup_sem (pre : list node) (st : dup_state * Z) : Prop :=
    let '(s, i) := st in
    forall tape', tape_compat ft nodes (ds_map s) tape tape' ->
                  exists vals', valuation sem ft (ds_out s) tape' vals' /\ sim nodes (ds_out s) vals vals' (ds_map s).

  Lemma dup_sem_step pre a post st st' :
    nodes = pre ++ a :: post -> dup_struct pre st -> dup_sem pre st -> opt_dup_step o (Ok st) a = Ok st' ->
    dup_sem (pre ++ [a]) st'.
  Proof.
    intros El Is I St. pose proof (dup_struct_step _ _ _ _ _ El Is St) as Is'.
    destruct st as [s i], st' as [s' i'].
    destruct Is as (I1 & I2 & I3 & I4 & I5 & _).
    destruct Is' as (_ & _ & _ & I4' & _).
    apply opt_dup_step_inv in St as (-> & deps & key & j & Ed & Ek & Em & Es & Eo & Hcase).
    assert (Pn : forall k nd, nth_error pre k = Some nd -> nth_error nodes k = Some nd).
    { intros k nd E. rewrite El. now apply nth_error_app1'. }
    assert (Ea : nth_error nodes (length pre) = Some a).
    { rewrite El, nth_error_app2, Nat.sub_diag by lia. reflexivity. }
    cbn [dup_sem]. rewrite Em in *. intros tape' Tc.
    destruct (I tape' (tape_compat_prefix _ _ _ _ _ _ Tc)) as (vals' & V & S).
    destruct Hval as (Lv & Hv).
    destruct (nth_error vals (length pre)) as [v|] eqn:Ev.
    2:{ apply nth_error_None in Ev. apply nth_error_Some_lt in Ea. lia. }
    pose proof (Hv _ _ _ Ea Ev) as Na.
    assert (Ej : nth_error (ds_map s ++ [Some j]) (length pre) = Some (Some j)).
    { rewrite <- I2. apply nth_error_snoc. }
    destruct Hcase as [(k & -> & Ef & Eout)|(-> & Eout)]; rewrite Eout in *.
    - exists vals'. split; auto. apply sim_snoc; auto. intros j0 E; injection E as <-. rewrite I2.
      apply sig_find_some in Ef. destruct (I5 _ _ Ef) as (i0 & nd0 & deps0 & F1 & F2 & F3 & F4).
      apply node_key_some in Ek as (-> & Ki & Kf). apply node_key_some in F4 as (F4 & _).
      injection F4 as -> Ea1 Ea2.
      destruct (S _ _ F2) as (J & (v0 & V1 & V2) & (ndx & nd' & N1 & N2 & N3)).
      assert (ndx = nd0) by (apply Pn in F1; congruence). subst ndx.
      assert (Ty : n_ty a = n_ty nd0).
      { destruct (I4' _ _ Ej) as (x1 & x2 & X1 & X2 & _ & _ & X3).
        rewrite nth_error_snoc in X1. injection X1 as <-. congruence. }
      pose proof (Hv _ _ _ N1 V1) as N0.
      assert (v0 = v).
      { unfold node_sem in Na, N0. rewrite <- Ea2 in N0. destruct (ft (n_op a)) eqn:Ft.
        - assert (T1 : tape' j = tape (Z.of_nat (length pre))) by (eapply Tc; eauto).
          assert (T2 : tape' j = tape (Z.of_nat i0)).
          { eapply Tc; eauto; [congruence|]. now apply nth_error_app1'. }
          congruence.
        - destruct Na as (vs & dts & A1 & A2 & A3). destruct N0 as (vs0 & dts0 & B1 & B2 & B3).
          pose proof (deps_vals _ _ _ _ _ _ _ _ _ S Ed A1) as X1.
          pose proof (deps_vals _ _ _ _ _ _ _ _ _ S F3 B1) as X2.
          pose proof (deps_tys _ _ _ _ _ _ _ _ _ S Ed A2) as Y1.
          pose proof (deps_tys _ _ _ _ _ _ _ _ _ S F3 B2) as Y2.
          rewrite X1 in X2. rewrite Y1 in Y2. injection X2 as <-. injection Y2 as <-.
          rewrite <- Ty in B3. congruence. }
      subst v0. split; auto. split.
      + exists v; auto.
      + exists a, nd'. repeat split; auto. congruence.
    - exists (vals' ++ [v]). destruct V as (Lv' & Hv'). split.
      + apply valuation_snoc; [split; auto|].
        eapply copy_node_sem; eauto; intros F; eapply Tc; eauto.
      + apply sim_snoc; [now apply sim_app|]. intros j0 E; injection E as <-.
        rewrite I2. split; [lia|]. split.
        * exists v. split; auto. rewrite Nat2Z.id, <- Lv'. apply nth_error_snoc.
        * exists a. eexists. split; auto. rewrite Nat2Z.id. split; [apply nth_error_snoc|reflexivity].
  Qed.

  Lemma dup_sem_inv sN :
    fold_left (opt_dup_step o) nodes (Ok (mkDS [] [] [] None, 0)) = Ok sN -> dup_sem nodes sN.
  Proof.
    intros Hfold.
    apply (fold_res_inv (opt_dup_step o) (fun pre st => dup_struct pre st /\ dup_sem pre st) nodes _ _
                        (opt_dup_step_strict o)) in Hfold; [tauto| |].
    - split; [apply dup_struct_init|]. cbn. intros tape' _. exists []. split; [apply valuation_nil|apply sim_nil].
    - intros pre a post s s' El (Is & I) St. split.
      + eapply dup_struct_step; eauto.
      + eapply dup_sem_step; eauto.
  Qed.
End Dup.

(* ------------------------------------------------------------------ theorems *)
Lemma opt_dup_unfold nodes o :
  opt_dup nodes o = let* (s, _) := fold_left (opt_dup_step o) nodes (Ok (mkDS [] [] [] None, 0)) in
                    Ok (mkPassOut (ds_out s) (ds_map s) (ds_output s)).
Proof. reflexivity. Qed.

Section DupThms.
  Variable sem : op -> list ty -> ty -> list value -> result value.
  Variable ft : op -> bool.
  Variable infer : op -> list ty -> ty.

  Theorem dup_sem_thm nodes o p tape vals :
    typed_nodes infer nodes ->
    opt_dup nodes o = Ok p ->
    valuation sem ft nodes tape vals ->
    forall tape', tape_compat ft nodes (po_map p) tape tape' ->
      exists vals', valuation sem ft (po_nodes p) tape' vals' /\ sim nodes (po_nodes p) vals vals' (po_map p).
  Proof.
    rewrite opt_dup_unfold. intros T H V. apply bind_ok in H as ([s i] & E & H). injection H as <-.
    cbn [po_nodes po_map]. apply (dup_sem_inv sem ft infer nodes o T tape vals V) in E. apply E.
  Qed.

  Theorem dup_struct_thm nodes o p :
    typed_nodes infer nodes ->
    opt_dup nodes o = Ok p ->
    length (po_map p) = length nodes /\
    bounded (po_map p) (length (po_nodes p)) /\
    keeps nodes (po_nodes p) (po_map p) /\
    input_sigs (po_nodes p) = input_sigs nodes /\
    fresh_spec nodes (po_nodes p) (po_map p) /\
    (forall x, o = Some x -> 0 <= x < Z.of_nat (length nodes) ->
               nth_error (po_map p) (Z.to_nat x) = Some (po_output p)) /\
    ((forall nd deps, In nd nodes -> ft (n_op nd) = true -> node_key nd deps = Ok None) ->
     ft_first ft nodes (po_map p)).
  Proof.
    rewrite opt_dup_unfold. intros T H. apply bind_ok in H as ([s i] & E & H). injection H as <-.
    cbn [po_nodes po_map po_output].
    apply (dup_struct_inv infer nodes o T) in E as (I1 & I2 & I3 & I4 & I5 & I6 & I7 & I9 & I10).
    splits; auto.
    - intros x -> R. rewrite I9. unfold out_spec.
      replace ((0 <=? x) && (x <? Z.of_nat (length nodes))) with true by lia.
      destruct (nth_error (ds_map s) (Z.to_nat x)) eqn:X; auto. apply nth_error_None in X. lia.
    - intros Hk i0 nd0 j E F G i' L. eapply I10; eauto. intros deps. apply Hk; auto.
      eapply nth_error_In; eauto.
  Qed.
End DupThms.

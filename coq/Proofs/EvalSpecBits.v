(* Per-operation specification proofs (C10), part 8: A2B and B2A on whole arrays (bit dimension
   last, little endian) and their round trip. *)
From CC Require Import Base.Prelude Base.Scalar Base.Ty Base.Shape Graph.Value Graph.IR Graph.Eval
  Proofs.EvalProofs Graph.Spec Proofs.EvalSpecBase Proofs.EvalSpecGemm Proofs.EvalSpecStruct.

Lemma nth_bits_lsb w : forall x (j : nat), (j < w)%nat ->
  nth j (bits_lsb w x) 0 = bit_of x (Z.of_nat j).
Proof.
  unfold bit_of. induction w as [|w IH]; intros x j Hj; [lia|]. cbn [bits_lsb].
  destruct j as [|j]; cbn [nth].
  - change (2 ^ Z.of_nat 0) with 1. now rewrite Z.div_1_r.
  - rewrite IH by lia. rewrite Nat2Z.inj_succ, Z.pow_succ_r by lia.
    rewrite Z.div_div by lia. reflexivity.
Qed.

Lemma zsum_shift f n : 0 <= n -> zsum f (1 + n) = f 0 + zsum (fun j => f (1 + j)) n.
Proof.
  intros Hn. unfold zsum. rewrite zrange_app by lia. change (zrange 1) with [0].
  cbn [app map fold_right]. rewrite map_map. reflexivity.
Qed.

Lemma zsum_scale g h n c : (forall j, 0 <= j < n -> h j = c * g j) -> zsum h n = c * zsum g n.
Proof.
  intros H. unfold zsum.
  assert (G : forall l, (forall j, In j l -> h j = c * g j) ->
            fold_right Z.add 0 (map h l) = c * fold_right Z.add 0 (map g l)).
  { induction l as [|x l IH]; intros Hl; cbn [map fold_right]; [lia|].
    rewrite IH by (intros; apply Hl; now right). rewrite (Hl x) by now left. ring. }
  apply G. intros j Hj. apply H. now apply In_zrange.
Qed.

Lemma from_bits_lsb_sum bs :
  from_bits_lsb bs = bits_value (fun j => nth (Z.to_nat j) bs 0) (Z.of_nat (length bs)).
Proof.
  unfold bits_value. induction bs as [|b bs IH]; [reflexivity|].
  cbn [from_bits_lsb length]. replace (Z.of_nat (S (length bs))) with (1 + Z.of_nat (length bs)) by lia.
  rewrite zsum_shift by lia. cbn [nth Z.to_nat]. change (2 ^ 0) with 1. rewrite IH.
  rewrite Z.mul_1_r. f_equal.
  symmetry. apply zsum_scale. intros j Hj.
  replace (Z.to_nat (1 + j)) with (S (Z.to_nat j)) by lia. cbn [nth].
  replace (1 + j) with (Z.succ j) by lia. rewrite Z.pow_succ_r by lia. ring.
Qed.

Lemma flat_map_concat_map' {A B} (f : A -> list B) l : flat_map f l = concat (map f l).
Proof. induction l as [|x l IH]; cbn; [reflexivity|]. now rewrite IH. Qed.

(* A2B: the bits of each element, least significant first, along a new last dimension *)
Theorem a2b_array_spec t0 t sh es :
  valid_shape sh -> length es = Z.to_nat (prod_list sh) ->
  let W := width (st_of t0) in
  exists r, eval_node OA2B [t0] t [VArr es] = Ok (VArr r) /\
    length r = Z.to_nat (prod_list (sh ++ [W])) /\
    forall idx j, in_shape idx sh -> 0 <= j < W ->
      get r (sh ++ [W]) (idx ++ [j]) = bit_of (get es sh idx) j.
Proof.
  intros Hv Hl W. pose proof (width_pos (st_of t0)) as HW. fold W in HW.
  pose proof (prod_list_pos _ Hv) as HP.
  set (w := Z.to_nat W).
  assert (Lb : forall l, In l (map (bits_lsb w) es) -> length l = Z.to_nat W).
  { intros l Hin. apply in_map_iff in Hin as (x & <- & _). apply bits_lsb_length. }
  exists (concat (map (bits_lsb w) es)). split; [|split].
  - cbn [eval_node nth nth_res bind arr_of]. now rewrite flat_map_concat_map'.
  - rewrite (concat_length_const_nat _ _ Lb). rewrite map_length, prod_list_app.
    unfold prod_list at 2. cbn [fold_right]. nia.
  - intros idx j Hin Hj. pose proof (flat_pos_range _ _ Hin) as R. unfold get at 1.
    rewrite flat_pos_app by (now apply in_shape_length). cbn [flat_pos].
    unfold prod_list at 1 2. cbn [fold_right].
    replace (flat_pos idx sh * (W * 1) + (j * 1 + 0)) with (flat_pos idx sh * W + j) by ring.
    rewrite (nth_concat_const_z _ W) by (auto; lia).
    rewrite (nth_map_default _ _ _ 0) by lia.
    rewrite nth_bits_lsb by (unfold w; lia). rewrite Z2Nat.id by lia. reflexivity.
Qed.

Lemma b2a_eval st t0 t es :
  eval_node (OB2A st) [t0] t [VArr es]
  = Ok (VArr (map from_bits_lsb (chunks (Z.to_nat (width st)) (length es) es))).
Proof. reflexivity. Qed.

(* B2A: the integer whose little-endian bits run along the last dimension *)
Theorem b2a_array_spec st t0 t sh es :
  valid_shape sh ->
  let W := width st in
  length es = Z.to_nat (prod_list (sh ++ [W])) ->
  exists r, eval_node (OB2A st) [t0] t [VArr es] = Ok (VArr r) /\
    length r = Z.to_nat (prod_list sh) /\
    forall idx, in_shape idx sh ->
      get r sh idx = bits_value (fun j => get es (sh ++ [W]) (idx ++ [j])) W.
Proof.
  intros Hv W Hl. pose proof (width_pos st) as HW. fold W in HW.
  pose proof (prod_list_pos _ Hv) as HP.
  rewrite prod_list_app in Hl. unfold prod_list at 2 in Hl. cbn [fold_right] in Hl.
  set (w := Z.to_nat W).
  destruct (chunks_spec w ltac:(lia) (Z.to_nat (prod_list sh)) es (length es)) as (E & L & F); [nia|nia|].
  set (cs := chunks w (length es) es) in *.
  exists (map from_bits_lsb cs). split; [apply b2a_eval|]. split; [now rewrite map_length|].
  intros idx Hin. pose proof (flat_pos_range _ _ Hin) as R. unfold get at 1.
  rewrite (nth_map_default _ _ _ []) by lia. rewrite from_bits_lsb_sum.
  rewrite Forall_forall in F.
  assert (Lc : length (nth (Z.to_nat (flat_pos idx sh)) cs []) = w) by (apply F, nth_In; lia).
  rewrite Lc. unfold w. rewrite Z2Nat.id by lia.
  unfold bits_value. apply zsum_ext. intros j Hj. cbv beta. f_equal.
  unfold get. rewrite flat_pos_app by (now apply in_shape_length). cbn [flat_pos].
  unfold prod_list at 1 2. cbn [fold_right].
  replace (flat_pos idx sh * (W * 1) + (j * 1 + 0)) with (flat_pos idx sh * W + j) by ring.
  rewrite <- E. rewrite (nth_concat_const_z _ W) by (auto; lia). reflexivity.
Qed.

(* B2A inverts A2B on whole arrays *)
Theorem a2b_b2a_round_trip st sh t1 t2 es :
  Forall (fun e => 0 <= e < modulus st) es ->
  (let* b := eval_node OA2B [TArray sh st] t1 [VArr es] in eval_node (OB2A st) [t1] t2 [b]) = Ok (VArr es).
Proof.
  intros Hr. pose proof (width_pos st) as HW.
  cbn [eval_node nth nth_res bind arr_of st_of]. fold (chunks (Z.to_nat (width st))).
  rewrite flat_map_concat_map'. rewrite chunks_concat; [|lia| |].
  - f_equal. f_equal. rewrite map_map. rewrite <- (map_id es) at 2. apply map_ext_in.
    intros x Hx. rewrite Forall_forall in Hr. apply b2a_a2b_elem. auto.
  - apply Forall_forall. intros l Hin. apply in_map_iff in Hin as (x & <- & _). apply bits_lsb_length.
  - rewrite map_length.
    rewrite (concat_length_const_nat _ (Z.to_nat (width st))).
    + rewrite map_length. nia.
    + intros l Hin. apply in_map_iff in Hin as (x & <- & _). apply bits_lsb_length.
Qed.

(* C01 deep model, proofs, part 4: evaluation of single emitted nodes, and the semantics of the
   resharing block (resharing.rs:246 reshare with get_zero_shares and recursively_sum_shares on an
   array/scalar share type): the three output shares add up to the three input shares, for every
   value of the three PRF nodes. *)
From Coq Require Import Ring.
From CC Require Import Base.Prelude Base.Scalar Base.Ty Base.Shape Graph.Value Graph.IR Graph.Eval Graph.Typing
  Model.RingEval Model.MpcCompile Model.MpcCompileSem Proofs.MpcCompileBase Proofs.MpcCompileStatic
  Proofs.MpcCompileTyping.

Lemma emit_ty o deps an out out' id :
  emit o deps an out = Ok (out', id) ->
  exists ts t, mapM (out_ty out) deps = Ok ts /\ infer o ts = Ok t /\ out_ty out' id = Ok t /\ ext out out'.
Proof.
  intros H. destruct (emit_spec _ _ _ _ _ _ H) as (ts & t & Hm & Hi & -> & ->).
  exists ts, t. repeat split; auto. - apply out_ty_last. - apply ext_app. - apply ext_app.
Qed.

Section Reshare.
  Variable R : Type.
  Variables (r0 r1 : R) (radd rmul rsub : R -> R -> R) (ropp : R -> R).
  Hypothesis Rth : ring_theory r0 r1 radd rmul rsub ropp eq.
  Add Ring Rr : Rth.
  Variable atom : Z -> R.
  Variable catom : value -> R.
  Variable one : R.
  Variable lin : op -> R -> R.
  Variable bil : op -> R -> R -> R.
  Variable nlin : op -> list R -> R.

  Notation rv := (rval R).
  Notation L := (RLeaf R).
  Notation evals := (evals R r0 radd rmul rsub atom catom one lin bil nlin).
  Notation dnode := (deval_node R r0 radd rmul rsub atom catom one lin bil nlin).
  Notation T3 := (T3 R).

  (* environments only grow *)
  Definition mono (env env' : list rv) : Prop := forall d x, znth env d = Ok x -> znth env' d = Ok x.
  Lemma mono_refl env : mono env env. Proof. intros d x H; exact H. Qed.
  Lemma mono_trans a b c : mono a b -> mono b c -> mono a c. Proof. intros H1 H2 d x H. auto. Qed.
  Lemma mono_snoc env v : mono env (env ++ [v]). Proof. intros d x H. now apply znth_app_l. Qed.

  (* ---------- single nodes ---------- *)
  Lemma step_tget i d out out' id ins0 env ins l v :
    emit (OTupleGet i) [d] [] out = Ok (out', id) -> evals ins0 out env ins ->
    znth env d = Ok (RTup R l) -> znth l i = Ok v ->
    evals ins0 out' (env ++ [v]) ins /\ znth (env ++ [v]) id = Ok v.
  Proof.
    intros H E Hd Hi. eapply emit_evals; eauto.
    - cbn [mapM]. rewrite Hd. reflexivity.
    - cbn [deval_node]. rewrite Hi. reflexivity.
  Qed.

  Lemma step_prf iv t k out out' id ins0 env ins kv :
    emit (OPRF iv t) [k] [] out = Ok (out', id) -> evals ins0 out env ins -> znth env k = Ok kv ->
    evals ins0 out' (env ++ [L (atom (zlen env))]) ins /\ znth (env ++ [L (atom (zlen env))]) id = Ok (L (atom (zlen env))).
  Proof.
    intros H E Hk. eapply emit_evals; eauto.
    - cbn [mapM]. rewrite Hk. reflexivity.
    - reflexivity.
  Qed.

  Definition arith (o : op) (a b : R) : R :=
    match o with OAdd => radd a b | OSubtract => rsub a b | _ => rmul a b end.

  Lemma step_arith o d1 d2 an out out' id ins0 env ins a b :
    is_arith o = true ->
    emit o [d1; d2] an out = Ok (out', id) -> evals ins0 out env ins ->
    znth env d1 = Ok (L a) -> znth env d2 = Ok (L b) ->
    evals ins0 out' (env ++ [L (arith o a b)]) ins /\ znth (env ++ [L (arith o a b)]) id = Ok (L (arith o a b)).
  Proof.
    intros Ho H E H1 H2. eapply emit_evals; eauto.
    - destruct o; try discriminate; reflexivity.
    - cbn [mapM]. rewrite H1, H2. reflexivity.
    - destruct o; try discriminate; reflexivity.
  Qed.

  Lemma step_nop d an out out' id ins0 env ins v :
    emit ONOP [d] an out = Ok (out', id) -> evals ins0 out env ins -> znth env d = Ok v ->
    evals ins0 out' (env ++ [v]) ins /\ znth (env ++ [v]) id = Ok v.
  Proof.
    intros H E Hd. eapply emit_evals; eauto.
    - cbn [mapM]. rewrite Hd. reflexivity.
    - reflexivity.
  Qed.

  Lemma step_ctuple deps vs out out' id ins0 env ins :
    emit OCreateTuple deps [] out = Ok (out', id) -> evals ins0 out env ins ->
    mapM (fun d => znth env d) deps = Ok vs ->
    evals ins0 out' (env ++ [RTup R vs]) ins /\ znth (env ++ [RTup R vs]) id = Ok (RTup R vs).
  Proof. intros H E Hd. eapply emit_evals; eauto. Qed.

  Lemma step_lin o d out out' id ins0 env ins a :
    is_lin_op o = true ->
    emit o [d] [] out = Ok (out', id) -> evals ins0 out env ins -> znth env d = Ok (L a) ->
    evals ins0 out' (env ++ [L (lin o a)]) ins /\ znth (env ++ [L (lin o a)]) id = Ok (L (lin o a)).
  Proof.
    intros Ho H E Hd. eapply emit_evals; eauto.
    - destruct o; try discriminate; reflexivity.
    - cbn [mapM]. rewrite Hd. reflexivity.
    - destruct o; try discriminate; cbn [deval_node]; rewrite Ho; reflexivity.
  Qed.

  Lemma step_zeros t out out' id ins0 env ins :
    is_leaf t = true -> emit (OZeros t) [] [] out = Ok (out', id) -> evals ins0 out env ins ->
    evals ins0 out' (env ++ [L r0]) ins /\ znth (env ++ [L r0]) id = Ok (L r0).
  Proof.
    intros Lt H E. eapply emit_evals; eauto.
    - reflexivity.
    - cbn [deval_node]. rewrite Lt. reflexivity.
  Qed.

  Lemma leaves_map xs : leaves R (map L xs) = Some xs.
  Proof. induction xs as [|x xs IH]; cbn; [reflexivity | now rewrite IH]. Qed.

  Lemma step_nlin o deps xs out out' id ins0 env ins :
    is_nlin_op o = true -> emit o deps [] out = Ok (out', id) -> evals ins0 out env ins ->
    mapM (fun d => znth env d) deps = Ok (map L xs) ->
    evals ins0 out' (env ++ [L (nlin o xs)]) ins /\ znth (env ++ [L (nlin o xs)]) id = Ok (L (nlin o xs)).
  Proof.
    intros Ho H E Hm. eapply emit_evals; eauto.
    - destruct o; try discriminate; reflexivity.
    - destruct o; try discriminate; cbn [deval_node is_lin_op is_nlin_op]; rewrite leaves_map; reflexivity.
  Qed.

  (* ---------- three TupleGet nodes on one tuple ---------- *)
  Lemma tget3_sem (f : Z -> list node -> result (list node * Z)) d :
    (forall i o r, f i o = Ok r -> emit (OTupleGet i) [d] [] o = Ok r) ->
    forall out out' ids ins0 env ins x0 x1 x2,
    mapS f parties out = Ok (out', ids) -> evals ins0 out env ins ->
    znth env d = Ok (RTup R [x0; x1; x2]) ->
    exists env' i0 i1 i2, ids = [i0; i1; i2] /\ evals ins0 out' env' ins /\ mono env env' /\
      znth env' i0 = Ok x0 /\ znth env' i1 = Ok x1 /\ znth env' i2 = Ok x2 /\ ext out out' /\
      (forall T, out_ty out d = Ok T -> exists t0, infer (OTupleGet 0) [T] = Ok t0 /\ out_ty out' i0 = Ok t0).
  Proof.
    intros Hf out out' ids ins0 env ins x0 x1 x2 H E Hd. unfold parties in H. cbn [mapS] in H.
    apply bind_ok in H as ([o1 i0] & E0 & H). apply bind_ok in H as ([o2' l1] & H & Hr). inversion Hr; subst; clear Hr.
    apply bind_ok in H as ([o2 i1] & E1 & H). apply bind_ok in H as ([o3' l2] & H & Hr). inversion Hr; subst; clear Hr.
    apply bind_ok in H as ([o3 i2] & E2 & H). inversion H; subst; clear H.
    apply Hf in E0, E1, E2.
    destruct (step_tget _ _ _ _ _ _ _ _ _ x0 E0 E Hd eq_refl) as [Ev0 F0].
    pose proof (mono_snoc env x0) as M0.
    destruct (step_tget _ _ _ _ _ _ _ _ _ x1 E1 Ev0 (M0 _ _ Hd) eq_refl) as [Ev1 F1].
    pose proof (mono_snoc (env ++ [x0]) x1) as M1.
    destruct (step_tget _ _ _ _ _ _ _ _ _ x2 E2 Ev1 (M1 _ _ (M0 _ _ Hd)) eq_refl) as [Ev2 F2].
    pose proof (mono_snoc ((env ++ [x0]) ++ [x1]) x2) as M2.
    destruct (emit_ty _ _ _ _ _ _ E0) as (ts0 & t0 & Hm0 & Hi0 & Ht0 & X0).
    destruct (emit_ty _ _ _ _ _ _ E1) as (_ & _ & _ & _ & _ & X1).
    destruct (emit_ty _ _ _ _ _ _ E2) as (_ & _ & _ & _ & _ & X2).
    exists (((env ++ [x0]) ++ [x1]) ++ [x2]), i0, i1, i2.
    split; [reflexivity|]. split; [exact Ev2|]. split; [exact (mono_trans _ _ _ M0 (mono_trans _ _ _ M1 M2))|].
    split; [exact (M2 _ _ (M1 _ _ F0))|]. split; [exact (M2 _ _ F1)|]. split; [exact F2|].
    split; [exact (ext_trans _ _ _ X0 (ext_trans _ _ _ X1 X2))|].
    intros T HT. cbn [mapM] in Hm0. rewrite HT in Hm0. cbn [bind] in Hm0. inversion Hm0; subst.
    exists t0. split; [exact Hi0|]. exact (ext_out_ty _ _ _ _ (ext_trans _ _ _ X1 X2) Ht0).
  Qed.

  (* ---------- zero shares on an array/scalar type ---------- *)
  Lemma zero_shares_leaf t keys out :
    is_leaf t = true ->
    generate_zero_shares t keys out =
    (let* (out1, random_shares) := mapS (fun key out => emit (OPRF 0 t) [key] [] out) keys out in
     mapS (fun i out =>
             let* a := znth random_shares i in
             let* b := znth random_shares ((i + 1) mod 3) in
             emit OSubtract [a; b] [] out) parties out1).
  Proof. destruct t; try discriminate; reflexivity. Qed.

  Lemma zero_shares_sem t k0 k1 k2 out out' zs ins0 env ins kv0 kv1 kv2 :
    is_leaf t = true ->
    generate_zero_shares t [k0; k1; k2] out = Ok (out', zs) -> evals ins0 out env ins ->
    znth env k0 = Ok kv0 -> znth env k1 = Ok kv1 -> znth env k2 = Ok kv2 ->
    exists env' z0 z1 z2 p0 p1 p2, zs = [z0; z1; z2] /\ evals ins0 out' env' ins /\ mono env env' /\
      znth env' z0 = Ok (L (rsub p0 p1)) /\ znth env' z1 = Ok (L (rsub p1 p2)) /\ znth env' z2 = Ok (L (rsub p2 p0)) /\
      ext out out'.
  Proof.
    intros Lt H E K0 K1 K2. rewrite (zero_shares_leaf _ _ _ Lt) in H. unfold parties in H. cbn [mapS] in H.
    apply bind_ok in H as ([o3 rs] & Hp & H).
    apply bind_ok in Hp as ([o1 q0] & E0 & Hp). apply bind_ok in Hp as ([o2' l1] & Hp & Hr). inversion Hr; subst; clear Hr.
    apply bind_ok in Hp as ([o2 q1] & E1 & Hp). apply bind_ok in Hp as ([o3' l2] & Hp & Hr). inversion Hr; subst; clear Hr.
    apply bind_ok in Hp as ([o3'' q2] & E2 & Hp). inversion Hp; subst; clear Hp.
    change (znth [q0; q1; q2] 0) with (Ok (A:=Z) q0) in H. change (znth [q0; q1; q2] ((0 + 1) mod 3)) with (Ok (A:=Z) q1) in H.
    change (znth [q0; q1; q2] 1) with (Ok (A:=Z) q1) in H. change (znth [q0; q1; q2] ((1 + 1) mod 3)) with (Ok (A:=Z) q2) in H.
    change (znth [q0; q1; q2] 2) with (Ok (A:=Z) q2) in H. change (znth [q0; q1; q2] ((2 + 1) mod 3)) with (Ok (A:=Z) q0) in H.
    cbn [bind] in H.
    apply bind_ok in H as ([o4 z0] & S0 & H). apply bind_ok in H as ([o5' l1] & H & Hr). inversion Hr; subst; clear Hr.
    apply bind_ok in H as ([o5 z1] & S1 & H). apply bind_ok in H as ([o6' l2] & H & Hr). inversion Hr; subst; clear Hr.
    apply bind_ok in H as ([o6 z2] & S2 & H). inversion H; subst; clear H.
    destruct (step_prf _ _ _ _ _ _ _ _ _ _ E0 E K0) as [Ev0 F0]. set (p0 := atom (zlen env)) in *.
    pose proof (mono_snoc env (L p0)) as M0. set (e1 := env ++ [L p0]) in *.
    destruct (step_prf _ _ _ _ _ _ _ _ _ _ E1 Ev0 (M0 _ _ K1)) as [Ev1 F1]. set (p1 := atom (zlen e1)) in *.
    pose proof (mono_snoc e1 (L p1)) as M1. set (e2 := e1 ++ [L p1]) in *.
    destruct (step_prf _ _ _ _ _ _ _ _ _ _ E2 Ev1 (M1 _ _ (M0 _ _ K2))) as [Ev2 F2]. set (p2 := atom (zlen e2)) in *.
    pose proof (mono_snoc e2 (L p2)) as M2. set (e3 := e2 ++ [L p2]) in *.
    assert (G0 : znth e3 q0 = Ok (L p0)) by auto. assert (G1 : znth e3 q1 = Ok (L p1)) by auto.
    destruct (step_arith OSubtract _ _ _ _ _ _ _ _ _ _ _ eq_refl S0 Ev2 G0 G1) as [Ev3 F3]. cbn [arith] in Ev3, F3.
    pose proof (mono_snoc e3 (L (rsub p0 p1))) as M3. set (e4 := e3 ++ [L (rsub p0 p1)]) in *.
    destruct (step_arith OSubtract _ _ _ _ _ _ _ _ _ _ _ eq_refl S1 Ev3 (M3 _ _ G1) (M3 _ _ F2)) as [Ev4 F4]. cbn [arith] in Ev4, F4.
    pose proof (mono_snoc e4 (L (rsub p1 p2))) as M4. set (e5 := e4 ++ [L (rsub p1 p2)]) in *.
    destruct (step_arith OSubtract _ _ _ _ _ _ _ _ _ _ _ eq_refl S2 Ev4 (M4 _ _ (M3 _ _ F2)) (M4 _ _ (M3 _ _ G0))) as [Ev5 F5]. cbn [arith] in Ev5, F5.
    pose proof (mono_snoc e5 (L (rsub p2 p0))) as M5. set (e6 := e5 ++ [L (rsub p2 p0)]) in *.
    exists e6, z0, z1, z2, p0, p1, p2.
    split; [reflexivity|]. split; [exact Ev5|].
    split; [intros d x Hd; apply M5, M4, M3, M2, M1, M0, Hd|].
    split; [exact (M5 _ _ (M4 _ _ F3))|]. split; [exact (M5 _ _ F4)|]. split; [exact F5|].
    pose proof (proj1 (proj1 (emit_grows _ _ _ _ _ _ E0))) as Y0. pose proof (proj1 (proj1 (emit_grows _ _ _ _ _ _ E1))) as Y1.
    pose proof (proj1 (proj1 (emit_grows _ _ _ _ _ _ E2))) as Y2. pose proof (proj1 (proj1 (emit_grows _ _ _ _ _ _ S0))) as Y3.
    pose proof (proj1 (proj1 (emit_grows _ _ _ _ _ _ S1))) as Y4. pose proof (proj1 (proj1 (emit_grows _ _ _ _ _ _ S2))) as Y5.
    exact (ext_trans _ _ _ Y0 (ext_trans _ _ _ Y1 (ext_trans _ _ _ Y2 (ext_trans _ _ _ Y3 (ext_trans _ _ _ Y4 Y5))))).
  Qed.

  (* ---------- one masked and sent share ---------- *)
  Lemma sum2_leaf t a z out : is_leaf t = true -> sum_shares t [a; z] out = emit OAdd [a; z] [] out.
  Proof. destruct t; try discriminate; reflexivity. Qed.

  Lemma masked_share_sem t a z an out out' id ins0 env ins xa xz :
    is_leaf t = true ->
    (let* (o', masked) := sum_shares t [a; z] out in emit ONOP [masked] an o') = Ok (out', id) ->
    evals ins0 out env ins -> znth env a = Ok (L xa) -> znth env z = Ok (L xz) ->
    exists env', evals ins0 out' env' ins /\ mono env env' /\ znth env' id = Ok (L (radd xa xz)) /\ ext out out' /\
      exists tn, out_ty out' id = Ok tn /\ is_leaf tn = true.
  Proof.
    intros Lt H E Ha Hz. rewrite (sum2_leaf _ _ _ _ Lt) in H.
    apply bind_ok in H as ([o1 m] & E0 & H).
    destruct (step_arith OAdd _ _ _ _ _ _ _ _ _ _ _ eq_refl E0 E Ha Hz) as [Ev0 F0]. cbn [arith] in Ev0, F0.
    destruct (step_nop _ _ _ _ _ _ _ _ _ H Ev0 F0) as [Ev1 F1].
    destruct (emit_ty _ _ _ _ _ _ E0) as (ts0 & t0 & Hm0 & Hi0 & Ht0 & X0).
    destruct (emit_ty _ _ _ _ _ _ H) as (ts1 & t1 & Hm1 & Hi1 & Ht1 & X1).
    eexists. split; [exact Ev1|]. split; [eauto using mono_trans, mono_snoc|]. split; [exact F1|].
    split; [eauto using ext_trans|].
    exists t1. split; [exact Ht1|].
    cbn [mapM] in Hm1. rewrite Ht0 in Hm1. cbn [bind] in Hm1. inversion Hm1; subst. apply infer_nop in Hi1. subst.
    destruct ts0 as [|ta [|tz [|]]]; try (apply mapM_ok_length in Hm0; discriminate).
    eapply infer_arith_leaf in Hi0; [tauto | reflexivity].
  Qed.

  (* the compiled node [k] has a share type: a triple whose first component is an array or scalar *)
  Definition shty (out : list node) (k : Z) : Prop := exists T, out_ty out k = Ok T /\ share_ty T.

  Lemma shty_ext a b k : ext a b -> shty a k -> shty b k.
  Proof. intros X (T & HT & S). exists T. split; [eapply ext_out_ty; eauto | exact S]. Qed.

  (* the compiled node [k] of a public node has an array/scalar type *)
  Definition pubty (out : list node) (k : Z) : Prop := exists T, out_ty out k = Ok T /\ is_leaf T = true.
  Lemma pubty_ext a b k : ext a b -> pubty a k -> pubty b k.
  Proof. intros X (T & HT & S). exists T. split; [eapply ext_out_ty; eauto | exact S]. Qed.

  (* ---------- reshare ---------- *)
  Lemma reshare_sem s k out out' id ins0 env ins a b c kv0 kv1 kv2 :
    reshare s k out = Ok (out', id) -> evals ins0 out env ins ->
    znth env s = Ok (T3 a b c) -> znth env k = Ok (RTup R [kv0; kv1; kv2]) -> shty out s ->
    exists env' a' b' c', evals ins0 out' env' ins /\ mono env env' /\
      znth env' id = Ok (T3 a' b' c') /\ radd (radd a' b') c' = radd (radd a b) c /\ shty out' id.
  Proof.
    intros H E Hs Hk (T & HT & (t1 & t2 & t3 & -> & Lt1)). unfold reshare in H.
    apply bind_ok in H as ([out1 isv] & HA & H).
    destruct (tget3_sem (fun i o => unwrap (emit (OTupleGet i) [s] [] o)) s (fun i o r => unwrap_ok _ r)
                _ _ _ _ _ _ _ _ _ HA E Hs) as (e1 & i0 & i1 & i2 & -> & Ev1 & M1 & Fa & Fb & Fc & X1 & Ty1).
    destruct (Ty1 _ HT) as (t0 & Hi0 & Ht0). apply infer_tget3 in Hi0. cbn in Hi0. inversion Hi0; subst t0; clear Hi0.
    change (znth [i0; i1; i2] 0) with (Ok (A:=Z) i0) in H. cbn [bind] in H. rewrite Ht0 in H. cbn [bind] in H.
    apply bind_ok in H as ([out2 zs] & HB & H). unfold get_zero_shares in HB.
    apply bind_ok in HB as ([out1' keys] & HK & HB).
    destruct (tget3_sem (fun i o => emit (OTupleGet i) [k] [] o) k (fun i o r Hr => Hr)
                _ _ _ _ _ _ _ _ _ HK Ev1 (M1 _ _ Hk)) as (e2 & k0 & k1 & k2 & -> & Ev2 & M2 & Fk0 & Fk1 & Fk2 & X2 & _).
    destruct (zero_shares_sem _ _ _ _ _ _ _ _ _ _ _ _ _ Lt1 HB Ev2 Fk0 Fk1 Fk2)
      as (e3 & z0 & z1 & z2 & p0 & p1 & p2 & -> & Ev3 & M3 & Fz0 & Fz1 & Fz2 & X3).
    apply bind_ok in H as ([out3 osv] & HC & H). unfold parties in HC. cbn [mapS] in HC.
    apply bind_ok in HC as ([o4 n0] & C0 & HC). apply bind_ok in HC as ([o5' l1] & HC & Hr). inversion Hr; subst; clear Hr.
    apply bind_ok in HC as ([o5 n1] & C1 & HC). apply bind_ok in HC as ([o6' l2] & HC & Hr). inversion Hr; subst; clear Hr.
    apply bind_ok in HC as ([o6 n2] & C2 & HC). inversion HC; subst; clear HC.
    change (znth [i0; i1; i2] 0) with (Ok (A:=Z) i0) in C0. change (znth [z0; z1; z2] 0) with (Ok (A:=Z) z0) in C0.
    change (znth [i0; i1; i2] 1) with (Ok (A:=Z) i1) in C1. change (znth [z0; z1; z2] 1) with (Ok (A:=Z) z1) in C1.
    change (znth [i0; i1; i2] 2) with (Ok (A:=Z) i2) in C2. change (znth [z0; z1; z2] 2) with (Ok (A:=Z) z2) in C2.
    cbn [bind] in C0, C1, C2.
    destruct (masked_share_sem _ _ _ _ _ _ _ _ _ _ _ _ Lt1 C0 Ev3 (M3 _ _ (M2 _ _ Fa)) Fz0)
      as (e4 & Ev4 & M4 & Fn0 & X4 & (tn & Htn & Ltn)).
    destruct (masked_share_sem _ _ _ _ _ _ _ _ _ _ _ _ Lt1 C1 Ev4 (M4 _ _ (M3 _ _ (M2 _ _ Fb))) (M4 _ _ Fz1))
      as (e5 & Ev5 & M5 & Fn1 & X5 & _).
    destruct (masked_share_sem _ _ _ _ _ _ _ _ _ _ _ _ Lt1 C2 Ev5 (M5 _ _ (M4 _ _ (M3 _ _ (M2 _ _ Fc)))) (M5 _ _ (M4 _ _ Fz2)))
      as (e6 & Ev6 & M6 & Fn2 & X6 & _).
    assert (Hm : mapM (fun d => znth e6 d) [n0; n1; n2] =
                 Ok [L (radd a (rsub p0 p1)); L (radd b (rsub p1 p2)); L (radd c (rsub p2 p0))]).
    { cbn [mapM]. rewrite (M6 _ _ (M5 _ _ Fn0)), (M6 _ _ Fn1), Fn2. reflexivity. }
    destruct (step_ctuple _ _ _ _ _ _ _ _ H Ev6 Hm) as [Ev7 F7].
    destruct (emit_ty _ _ _ _ _ _ H) as (ts7 & t7 & Hm7 & Hi7 & Ht7 & X7).
    do 4 eexists. split; [exact Ev7|]. split.
    { intros d x Hd. apply mono_snoc. auto 12. }
    split; [exact F7|]. split; [ring|].
    exists t7. split; [exact Ht7|]. apply infer_ctuple in Hi7. subst t7.
    destruct (mapM3 _ _ _ _ _ Hm7) as (ta & tb & tc & -> & Ha & _ & _).
    rewrite (ext_out_ty _ _ _ _ (ext_trans _ _ _ X5 X6) Htn) in Ha. inversion Ha; subst ta.
    exists tn, tb, tc. auto.
  Qed.
End Reshare.

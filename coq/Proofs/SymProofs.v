(* C07: the strategies of Model/Prefix.v commute with every homomorphism of the combiner.
   Instantiated with [term_eval] this says: the combination trees produced by a run over the free
   term algebra (what the harness compares with /repo's recorded log), evaluated under any
   operation, are the results of the run under that operation. *)
From CC Require Import Base.Prelude Model.Prefix Proofs.PrefixProofs.
Local Open Scope nat_scope.

Lemma arr_get_map {A B} (g : A -> B) l i : arr_get (map g l) i = rmap g (arr_get l i).
Proof. unfold arr_get. rewrite nth_error_map. destruct (nth_error l i); reflexivity. Qed.

Lemma set_nth_map {A B} (g : A -> B) l : forall i x, set_nth (map g l) i (g x) = map g (set_nth l i x).
Proof. induction l as [|y l IH]; intros [|i] x; cbn [map set_nth]; auto. now rewrite IH. Qed.

Lemma arr_set_map {A B} (g : A -> B) l i x : arr_set (map g l) i (g x) = rmap (map g) (arr_set l i x).
Proof.
  unfold arr_set. rewrite map_length. destruct (i <? length l); cbn [rmap]; [|reflexivity].
  now rewrite set_nth_map.
Qed.

Lemma foldM_map {A B I} (g : A -> B) (sa : A -> I -> result A) (sb : B -> I -> result B) :
  (forall c i, sb (g c) i = rmap g (sa c i)) ->
  forall l c, foldM sb l (g c) = rmap g (foldM sa l c).
Proof.
  intros H l; induction l as [|i l IH]; intros c; cbn [foldM rmap]; [reflexivity|].
  rewrite H. destruct (sa c i); cbn [rmap bind]; auto.
Qed.

Section Hom.
  Context {A B : Type} (opA : A -> A -> A) (opB : B -> B -> B) (h : A -> B).
  Hypothesis h_hom : forall a b, h (opA a b) = opB (h a) (h b).

  Lemma pair_up_map : forall l, pair_up opB (map h l) = map h (pair_up opA l).
  Proof.
    fix IH 1. intros [|x [|y r]]; cbn [map pair_up]; try reflexivity.
    rewrite h_hom. f_equal. apply IH.
  Qed.

  Lemma lds_loop_map fuel : forall l, lds_loop opB fuel (map h l) = rmap h (lds_loop opA fuel l).
  Proof.
    induction fuel as [|fuel IH]; intros l; cbn [lds_loop]; rewrite map_length;
      destruct (length l <=? 1); try apply arr_get_map; try reflexivity.
    rewrite pair_up_map. apply IH.
  Qed.

  Lemma log_depth_sum_map l : log_depth_sum opB (map h l) = rmap h (log_depth_sum opA l).
  Proof.
    destruct l as [|x r]; [reflexivity|].
    change (log_depth_sum opB (map h (x :: r))) with (lds_loop opB (length (map h (x :: r))) (map h (x :: r))).
    rewrite map_length. apply lds_loop_map.
  Qed.

  (* one array step of the form  c[i] = op(c[p], c[i]) *)
  Lemma step_map (c : list A) p i :
    (let* a := arr_get (map h c) p in let* b := arr_get (map h c) i in arr_set (map h c) i (opB a b))
    = rmap (map h) (let* a := arr_get c p in let* b := arr_get c i in arr_set c i (opA a b)).
  Proof.
    rewrite !arr_get_map. destruct (arr_get c p); cbn [rmap bind]; auto.
    destruct (arr_get c i); cbn [rmap bind]; auto. rewrite <- h_hom. apply arr_set_map.
  Qed.

  Lemma ascent_pass_map depth c :
    ascent_pass opB depth (map h c) = rmap (map h) (ascent_pass opA depth c).
  Proof.
    unfold ascent_pass. rewrite map_length. apply foldM_map. intros c' i. apply step_map.
  Qed.

  Lemma ascent_loop_map fuel : forall depth c,
    ascent_loop opB fuel depth (map h c) = rmap (map h) (ascent_loop opA fuel depth c).
  Proof.
    induction fuel as [|fuel IH]; intros depth c; cbn [ascent_loop]; rewrite map_length;
      destruct (depth <? length c); try reflexivity.
    rewrite ascent_pass_map. destruct (ascent_pass opA depth c); cbn [rmap bind]; auto.
  Qed.

  Lemma binary_ascent_map l :
    prefix_sums_binary_ascent opB (map h l) = rmap (map h) (prefix_sums_binary_ascent opA l).
  Proof.
    destruct l as [|x r]; [reflexivity|].
    change (prefix_sums_binary_ascent opB (map h (x :: r)))
      with (ascent_loop opB (length (map h (x :: r))) 1 (map h (x :: r))).
    rewrite map_length. apply ascent_loop_map.
  Qed.

  Lemma blocks_map bs l :
    prefix_sums_blocks opB bs (map h l) = rmap (map h) (prefix_sums_blocks opA bs l).
  Proof.
    unfold prefix_sums_blocks. rewrite map_length.
    rewrite (foldM_map (map h) (sqrt_step1 opA bs) (sqrt_step1 opB bs)).
    - destruct (foldM (sqrt_step1 opA bs) (seq 0 (length l)) l); cbn [rmap bind]; auto.
      apply foldM_map. intros c i. apply step_map.
    - intros c i. unfold sqrt_step1. destruct (negb (i mod bs =? 0)); [apply step_map|reflexivity].
  Qed.

  Lemma sqrt_trick_map l :
    prefix_sums_sqrt_trick opB (map h l) = rmap (map h) (prefix_sums_sqrt_trick opA l).
  Proof.
    destruct l as [|x r]; [reflexivity|].
    change (prefix_sums_sqrt_trick opB (map h (x :: r)))
      with (prefix_sums_blocks opB (sqrt_block_size (length (map h (x :: r)))) (map h (x :: r))).
    rewrite map_length. apply blocks_map.
  Qed.

  Lemma build_layers_map fuel : forall cur,
    build_layers opB fuel (map h cur) = rmap (map (map h)) (build_layers opA fuel cur).
  Proof.
    induction fuel as [|fuel IH]; intros cur; cbn [build_layers]; rewrite map_length;
      destruct (length cur <=? 1); try reflexivity.
    rewrite pair_up_map, IH. destruct (build_layers opA fuel (pair_up opA cur)); reflexivity.
  Qed.

  Lemma descend_pass_map up lo :
    descend_pass opB (map h up) (map h lo) = rmap (map h) (descend_pass opA up lo).
  Proof.
    unfold descend_pass. rewrite map_length. apply foldM_map. intros c j. unfold descend_step.
    destruct (j mod 2 =? 1).
    - rewrite arr_get_map. destruct (arr_get up (j / 2)); cbn [rmap bind]; auto. apply arr_set_map.
    - rewrite !arr_get_map. destruct (arr_get up ((j - 1) / 2)); cbn [rmap bind]; auto.
      destruct (arr_get c j); cbn [rmap bind]; auto. rewrite <- h_hom. apply arr_set_map.
  Qed.

  Lemma descend_cons {T} (op : T -> T -> T) lo r1 rs :
    descend op (lo :: r1 :: rs) =
    (let* rest' := descend op (r1 :: rs) in
     let* up := arr_get rest' 0 in
     let* lo' := descend_pass op up lo in Ok (lo' :: rest')).
  Proof. reflexivity. Qed.

  Lemma descend_map : forall layers,
    descend opB (map (map h) layers) = rmap (map (map h)) (descend opA layers).
  Proof.
    induction layers as [|lo rest IH]; [reflexivity|].
    destruct rest as [|r1 rs]; [reflexivity|].
    change (map (map h) (lo :: r1 :: rs)) with (map h lo :: map h r1 :: map (map h) rs).
    rewrite !descend_cons.
    change (map h r1 :: map (map h) rs) with (map (map h) (r1 :: rs)). rewrite IH.
    destruct (descend opA (r1 :: rs)) as [rest'| | |]; cbn [rmap bind]; auto.
    rewrite arr_get_map. destruct (arr_get rest' 0) as [up| | |]; cbn [rmap bind]; auto.
    rewrite descend_pass_map. destruct (descend_pass opA up lo); reflexivity.
  Qed.

  Lemma segment_tree_map l :
    prefix_sums_segment_tree opB (map h l) = rmap (map h) (prefix_sums_segment_tree opA l).
  Proof.
    destruct l as [|x r]; [reflexivity|].
    change (prefix_sums_segment_tree opB (map h (x :: r)))
      with (let* layers := build_layers opB (length (map h (x :: r))) (map h (x :: r)) in
            let* layers' := descend opB layers in arr_get layers' 0).
    change (prefix_sums_segment_tree opA (x :: r))
      with (let* layers := build_layers opA (length (x :: r)) (x :: r) in
            let* layers' := descend opA layers in arr_get layers' 0).
    rewrite map_length, build_layers_map.
    destruct (build_layers opA (length (x :: r)) (x :: r)) as [layers| | |]; cbn [rmap bind]; auto.
    rewrite descend_map. destruct (descend opA layers) as [layers'| | |]; cbn [rmap bind]; auto.
    apply arr_get_map.
  Qed.

  Lemma pick_map n lvl l :
    pick_prefix_sum_algorithm opB n lvl (map h l) = rmap (map h) (pick_prefix_sum_algorithm opA n lvl l).
  Proof.
    unfold pick_prefix_sum_algorithm. destruct lvl; [destruct (n <? 16)|].
    - apply sqrt_trick_map.
    - apply segment_tree_map.
    - apply binary_ascent_map.
  Qed.
End Hom.

(* ------------------------------------------------------------------ symbolic runs are sound *)
Section Sym.
  Context {T : Type} (op : T -> T -> T) (env : N -> T).
  Let ev := term_eval op env.

  Lemma ev_hom a b : ev (Comb a b) = op (ev a) (ev b).
  Proof. reflexivity. Qed.

  (* evaluating the trees of a symbolic run = running on the evaluated leaves, all six strategies *)
  Theorem sym_run_eval which n :
    rmap (map ev) (sym_run which n) =
    let items := map ev (leaves n) in
    match which with
    | 0 => let* r := log_depth_sum op items in Ok [r]
    | 1 => prefix_sums_binary_ascent op items
    | 2 => prefix_sums_sqrt_trick op items
    | 3 => prefix_sums_segment_tree op items
    | 4 => pick_prefix_sum_algorithm op n LvlDefault items
    | _ => pick_prefix_sum_algorithm op n LvlExtreme items
    end.
  Proof.
    cbv zeta. unfold sym_run.
    destruct which as [|[|[|[|[|w]]]]].
    - rewrite (log_depth_sum_map Comb op ev ev_hom). destruct (log_depth_sum Comb (leaves n)); reflexivity.
    - symmetry. apply (binary_ascent_map Comb op ev ev_hom).
    - symmetry. apply (sqrt_trick_map Comb op ev ev_hom).
    - symmetry. apply (segment_tree_map Comb op ev ev_hom).
    - symmetry. apply (pick_map Comb op ev ev_hom).
    - symmetry. apply (pick_map Comb op ev ev_hom).
  Qed.

  (* hence, for an associative op, output i of every symbolic prefix run denotes leaf 0 op ... op leaf i *)
  Theorem sym_run_sound which n ts :
    (forall a b c, op (op a b) c = op a (op b c)) ->
    1 <= which -> sym_run which n = Ok ts ->
    length ts = n /\
    forall i, i < n -> option_map ev (nth_error ts i)
                       = fold1 op (firstn (S i) (map (fun k => env (N.of_nat k)) (seq 0 n))).
  Proof.
    intros A Hw E. pose proof (sym_run_eval which n) as R. rewrite E in R. cbn [rmap] in R. cbv zeta in R.
    assert (Lv : map ev (leaves n) = map (fun k => env (N.of_nat k)) (seq 0 n)).
    { unfold leaves. rewrite map_map. reflexivity. }
    assert (P : exists ys, Ok (map ev ts) = Ok ys /\ prefix_spec op (map ev (leaves n)) ys).
    { rewrite R. destruct which as [|[|[|[|[|w]]]]]; [lia| | | | |].
      - apply binary_ascent_spec; auto.
      - apply sqrt_trick_spec; auto.
      - apply segment_tree_spec; auto.
      - apply pick_spec; auto.
      - apply pick_spec; auto. }
    destruct P as (ys & Ey & Ly & Iy). injection Ey as <-.
    rewrite Lv in Ly, Iy. rewrite !map_length, seq_length in Ly. rewrite map_length, seq_length in Iy.
    split; [exact Ly|]. intros i Hi. rewrite <- Iy by auto. now rewrite nth_error_map.
  Qed.
End Sym.

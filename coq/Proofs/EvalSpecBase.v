(* General helper lemmas for the per-operation specification proofs (C10): ranges, mapM,
   checked list access and update, row-major positions, sums. *)
From CC Require Import Base.Prelude Base.Scalar Base.Ty Base.Shape Graph.Value Graph.IR Graph.Eval
  Proofs.EvalProofs Graph.Spec.

(* ------------------------------------------------------------------ zrange *)
Lemma zrange_length n : length (zrange n) = Z.to_nat n.
Proof. unfold zrange. now rewrite map_length, seq_length. Qed.

Lemma In_zrange i n : In i (zrange n) <-> 0 <= i < n.
Proof.
  unfold zrange. rewrite in_map_iff. split.
  - intros (k & <- & Hk). apply in_seq in Hk. lia.
  - intros H. exists (Z.to_nat i). split; [lia|]. apply in_seq. lia.
Qed.

Lemma nth_zrange i n d : (i < Z.to_nat n)%nat -> nth i (zrange n) d = Z.of_nat i.
Proof.
  intros H. unfold zrange.
  rewrite nth_indep with (d' := Z.of_nat 0) by (rewrite map_length, seq_length; lia).
  rewrite map_nth. rewrite seq_nth by lia. reflexivity.
Qed.

Lemma zrange_succ n : 0 <= n -> zrange (n + 1) = zrange n ++ [n].
Proof.
  intros H. unfold zrange. replace (Z.to_nat (n + 1)) with (S (Z.to_nat n)) by lia.
  rewrite seq_S, map_app. cbn [map]. f_equal. f_equal. lia.
Qed.

Lemma zrange_to_nat n : zrange n = zrange (Z.of_nat (Z.to_nat n)).
Proof. unfold zrange. now rewrite Nat2Z.id. Qed.

Lemma zrange_nonpos n : n <= 0 -> zrange n = [].
Proof. intros H. unfold zrange. replace (Z.to_nat n) with O by lia. reflexivity. Qed.

Lemma zrange_of_nat_S k : zrange (Z.of_nat (S k)) = zrange (Z.of_nat k) ++ [Z.of_nat k].
Proof. rewrite Nat2Z.inj_succ. unfold Z.succ. apply zrange_succ. lia. Qed.

Lemma seq_shift_of_nat k n s :
  map Z.of_nat (seq (k + s) n) = map (Z.add (Z.of_nat k)) (map Z.of_nat (seq s n)).
Proof.
  revert s; induction n as [|n IH]; intros s; cbn [seq map]; [reflexivity|].
  f_equal; [lia|]. replace (S (k + s))%nat with (k + S s)%nat by lia. apply IH.
Qed.

Lemma zrange_app a b : 0 <= a -> 0 <= b -> zrange (a + b) = zrange a ++ map (Z.add a) (zrange b).
Proof.
  intros Ha Hb. unfold zrange. replace (Z.to_nat (a + b)) with (Z.to_nat a + Z.to_nat b)%nat by lia.
  rewrite seq_app, map_app. f_equal. replace (0 + Z.to_nat a)%nat with (Z.to_nat a + 0)%nat by lia.
  rewrite seq_shift_of_nat. rewrite Z2Nat.id by lia. reflexivity.
Qed.

Lemma nth_map_zrange {A} (g : Z -> A) i n d : 0 <= i < n -> nth (Z.to_nat i) (map g (zrange n)) d = g i.
Proof.
  intros H. rewrite nth_indep with (d' := g 0) by (rewrite map_length, zrange_length; lia).
  rewrite map_nth. rewrite nth_zrange by lia. f_equal. lia.
Qed.

(* ------------------------------------------------------------------ mapM *)
Lemma mapM_map {A B} (f : A -> result B) (g : A -> B) l :
  (forall x, In x l -> f x = Ok (g x)) -> mapM f l = Ok (map g l).
Proof.
  induction l as [|x l IH]; intros H; cbn [mapM map]; [reflexivity|].
  rewrite H by (left; reflexivity). cbn [bind].
  rewrite IH by (intros; apply H; right; assumption). reflexivity.
Qed.

Lemma mapM_ok_inv {A B} (f : A -> result B) l r :
  mapM f l = Ok r ->
  length r = length l /\ forall i da db, (i < length l)%nat -> f (nth i l da) = Ok (nth i r db).
Proof.
  revert r; induction l as [|x l IH]; intros r H; cbn [mapM] in H.
  - inversion H; subst. split; [reflexivity|]. intros i da db Hi. cbn in Hi. lia.
  - destruct (f x) as [y| | |] eqn:Fx; cbn [bind] in H; try discriminate.
    destruct (mapM f l) as [ys| | |] eqn:Ml; cbn [bind] in H; try discriminate.
    inversion H; subst. destruct (IH ys eq_refl) as [L N]. split; [cbn; now rewrite L|].
    intros [|i] da db Hi; cbn [nth]; [exact Fx|]. apply N. cbn in Hi. lia.
Qed.

(* the form asked for by every mapM over a range *)
Lemma mapM_zrange_inv {B} (f : Z -> result B) n r :
  mapM f (zrange n) = Ok r ->
  length r = Z.to_nat n /\ forall i d, 0 <= i < n -> f i = Ok (nth (Z.to_nat i) r d).
Proof.
  intros H. apply mapM_ok_inv in H as [L N]. rewrite zrange_length in L. split; [exact L|].
  intros i d Hi. specialize (N (Z.to_nat i) 0 d). rewrite zrange_length in N.
  rewrite nth_zrange in N by lia. rewrite Z2Nat.id in N by lia. apply N. lia.
Qed.

Lemma mapM_zrange_ok {B} (f : Z -> result B) (g : Z -> B) n :
  (forall i, 0 <= i < n -> f i = Ok (g i)) -> mapM f (zrange n) = Ok (map g (zrange n)).
Proof. intros H. apply mapM_map. intros x Hx. apply H. now apply In_zrange. Qed.

(* ------------------------------------------------------------------ checked access / update *)
Lemma nth_res_ok {A} (l : list A) i d : (i < length l)%nat -> nth_res l i = Ok (nth i l d).
Proof.
  revert i; induction l as [|x l IH]; intros [|i] H; cbn in *; try lia; auto. apply IH. lia.
Qed.

Lemma znth_ok {A} (l : list A) i d :
  0 <= i < Z.of_nat (length l) -> znth l i = Ok (nth (Z.to_nat i) l d).
Proof. intros H. unfold znth. replace (i <? 0) with false by lia. apply nth_res_ok. lia. Qed.

Fixpoint set_nth {A} (l : list A) (i : nat) (v : A) : list A :=
  match l, i with
  | [], _ => []
  | _ :: r, O => v :: r
  | x :: r, S k => x :: set_nth r k v
  end.

Lemma set_nth_length {A} (l : list A) i v : length (set_nth l i v) = length l.
Proof. revert i; induction l as [|x l IH]; intros [|i]; cbn; auto. Qed.

Lemma nth_set_nth {A} (l : list A) i j v d :
  (i < length l)%nat -> nth j (set_nth l i v) d = if (j =? i)%nat then v else nth j l d.
Proof.
  revert i j; induction l as [|x l IH]; intros [|i] [|j] H; cbn in *; try lia; auto.
  rewrite IH by lia. reflexivity.
Qed.

Lemma upd_nat_ok {A} (l : list A) i v : (i < length l)%nat -> upd_nat l i v = Ok (set_nth l i v).
Proof.
  revert i; induction l as [|x l IH]; intros [|i] H; cbn in *; try lia; auto.
  rewrite IH by lia. reflexivity.
Qed.

Lemma upd_ok {A} (l : list A) i v :
  0 <= i < Z.of_nat (length l) -> upd l i v = Ok (set_nth l (Z.to_nat i) v).
Proof. intros H. unfold upd. replace (i <? 0) with false by lia. apply upd_nat_ok. lia. Qed.

(* set_axis of the specification is set_nth *)
Lemma set_axis_set_nth idx axis t : set_axis idx axis t = set_nth idx axis t.
Proof. revert axis; induction idx as [|x r IH]; intros [|k]; cbn; auto. now rewrite IH. Qed.

Lemma slice_z_ok {A} (l : list A) from len :
  0 <= from -> 0 <= len -> from + len <= Z.of_nat (length l) ->
  slice_z l from len = Ok (firstn (Z.to_nat len) (skipn (Z.to_nat from) l)).
Proof.
  intros H1 H2 H3. unfold slice_z.
  replace ((from <? 0) || (len <? 0) || (Z.of_nat (length l) <? from + len)) with false by lia.
  reflexivity.
Qed.

Lemma nth_firstn_skipn {A} (l : list A) from len i d :
  (i < len)%nat -> nth i (firstn len (skipn from l)) d = nth (from + i) l d.
Proof.
  intros H. revert l; induction from as [|from IH]; intros l.
  - cbn [skipn Nat.add]. revert i H l. induction len as [|len IHl]; intros i H l; [lia|].
    destruct l as [|x l]; [destruct i; reflexivity|]. destruct i as [|i]; cbn; [reflexivity|].
    apply IHl. lia.
  - destruct l as [|x l]; cbn [skipn Nat.add nth].
    + rewrite firstn_nil. destruct i; reflexivity.
    + apply IH.
Qed.

(* ------------------------------------------------------------------ zip_with *)
Lemma zip_with_length {A B C} (f : A -> B -> C) l1 l2 :
  length l1 = length l2 -> length (zip_with f l1 l2) = length l1.
Proof.
  revert l2; induction l1 as [|x l1 IH]; intros [|y l2] H; cbn in *; try lia; auto.
Qed.

Lemma nth_zip_with {A B C} (f : A -> B -> C) l1 l2 i da db dc :
  (i < length l1)%nat -> (i < length l2)%nat ->
  nth i (zip_with f l1 l2) dc = f (nth i l1 da) (nth i l2 db).
Proof.
  revert l2 i; induction l1 as [|x l1 IH]; intros [|y l2] [|i] H1 H2; cbn in *; try lia; auto.
  apply IH; lia.
Qed.

(* ------------------------------------------------------------------ shapes and positions *)
Lemma prod_list_cons d sh : prod_list (d :: sh) = d * prod_list sh.
Proof. reflexivity. Qed.

Lemma prod_list_app a b : prod_list (a ++ b) = prod_list a * prod_list b.
Proof.
  induction a as [|d a IH]; cbn [app]; [unfold prod_list at 2; cbn; lia|].
  rewrite !prod_list_cons, IH. ring.
Qed.

Lemma valid_shape_app a b : valid_shape (a ++ b) <-> valid_shape a /\ valid_shape b.
Proof. unfold valid_shape. apply Forall_app. Qed.

Lemma valid_shape_skipn k sh : valid_shape sh -> valid_shape (skipn k sh).
Proof.
  intros H. rewrite <- (firstn_skipn k sh) in H. now apply valid_shape_app in H.
Qed.
Lemma valid_shape_firstn k sh : valid_shape sh -> valid_shape (firstn k sh).
Proof.
  intros H. rewrite <- (firstn_skipn k sh) in H. now apply valid_shape_app in H.
Qed.

Lemma in_shape_length idx sh : in_shape idx sh -> length idx = length sh.
Proof. induction 1; cbn; auto. Qed.

Lemma in_shape_app a sa b sb : in_shape a sa -> in_shape b sb -> in_shape (a ++ b) (sa ++ sb).
Proof. induction 1; intros Hb; cbn [app]; auto. constructor; auto. Qed.

Lemma in_shape_app_inv idx sa sb :
  in_shape idx (sa ++ sb) ->
  in_shape (firstn (length sa) idx) sa /\ in_shape (skipn (length sa) idx) sb.
Proof.
  revert idx; induction sa as [|d sa IH]; intros idx H; cbn [app length firstn skipn] in *.
  - split; [constructor|exact H].
  - inversion H; subst. destruct (IH _ H4) as [H1 H2]. split; [constructor; auto|exact H2].
Qed.

Lemma in_shape_skipn k idx sh : in_shape idx sh -> in_shape (skipn k idx) (skipn k sh).
Proof.
  intros H. revert k; induction H; intros [|k]; cbn [skipn]; try constructor; auto.
Qed.
Lemma in_shape_firstn k idx sh : in_shape idx sh -> in_shape (firstn k idx) (firstn k sh).
Proof.
  intros H. revert k; induction H; intros [|k]; cbn [firstn]; try constructor; auto.
Qed.

Lemma in_shape_nth idx sh k : in_shape idx sh -> (k < length sh)%nat ->
  0 <= nth k idx 0 < nth k sh 0.
Proof.
  intros H; revert k; induction H; intros [|k] Hk; cbn in *; try lia. apply IHin_shape. lia.
Qed.

Lemma in_shape_valid idx sh : in_shape idx sh -> valid_shape sh.
Proof. induction 1; constructor; auto. lia. Qed.

Lemma flat_pos_app a sa b sb :
  length a = length sa ->
  flat_pos (a ++ b) (sa ++ sb) = flat_pos a sa * prod_list sb + flat_pos b sb.
Proof.
  revert sa; induction a as [|x a IH]; intros [|d sa] H; cbn in H; try lia.
  - cbn [app flat_pos]. lia.
  - cbn [app flat_pos]. rewrite IH by lia. rewrite prod_list_app. ring.
Qed.

Lemma flat_pos_inj i j sh :
  in_shape i sh -> in_shape j sh -> flat_pos i sh = flat_pos j sh -> i = j.
Proof.
  intros Hi; revert j; induction Hi as [|x d idx sh Hx Hi IH]; intros j Hj E.
  - inversion Hj; reflexivity.
  - inversion Hj as [|y d' idx' sh' Hy Hj']; subst. cbn [flat_pos] in E.
    pose proof (flat_pos_range _ _ Hi) as R1. pose proof (flat_pos_range _ _ Hj') as R2.
    assert (x = y) by nia. subst y. f_equal. apply IH; auto. lia.
Qed.

(* position -> index is the inverse of the row-major position, as a function *)
Lemma number_to_index_flat_pos idx sh :
  in_shape idx sh -> number_to_index (flat_pos idx sh) sh = Ok idx.
Proof.
  intros H. pose proof (in_shape_valid _ _ H) as Hv.
  destruct (number_to_index_inverse sh (flat_pos idx sh) Hv (flat_pos_range _ _ H))
    as (idx' & E & Hin & Hf).
  rewrite E. f_equal. eapply flat_pos_inj; eauto.
Qed.

Definition unravel (n : Z) (sh : list Z) : list Z :=
  match number_to_index n sh with Ok i => i | _ => [] end.

Lemma number_to_index_unravel sh n :
  valid_shape sh -> 0 <= n < prod_list sh ->
  number_to_index n sh = Ok (unravel n sh) /\ in_shape (unravel n sh) sh
  /\ flat_pos (unravel n sh) sh = n.
Proof.
  intros Hv Hn. destruct (number_to_index_inverse sh n Hv Hn) as (idx & E & Hin & Hf).
  unfold unravel. rewrite E. auto.
Qed.

Lemma unravel_flat_pos idx sh : in_shape idx sh -> unravel (flat_pos idx sh) sh = idx.
Proof. intros H. unfold unravel. now rewrite number_to_index_flat_pos. Qed.

(* The reusable core of every "for each result position" loop: a mapM over the positions of
   the result shape that computes, from the multi-index, a value G idx. *)
Lemma mapM_over_shape (F : list Z -> result Z) (G : list Z -> Z) rs :
  valid_shape rs ->
  (forall idx, in_shape idx rs -> F idx = Ok (G idx)) ->
  exists r, mapM (fun i => let* iv := number_to_index i rs in F iv) (zrange (prod_list rs)) = Ok r
    /\ length r = Z.to_nat (prod_list rs)
    /\ forall idx, in_shape idx rs -> get r rs idx = G idx.
Proof.
  intros Hv HF. exists (map (fun i => G (unravel i rs)) (zrange (prod_list rs))). split; [|split].
  - apply mapM_zrange_ok. intros i Hi.
    destruct (number_to_index_unravel rs i Hv Hi) as (E & Hin & _). rewrite E. cbn [bind]. auto.
  - now rewrite map_length, zrange_length.
  - intros idx Hin. unfold get. rewrite nth_map_zrange by (apply flat_pos_range; auto).
    now rewrite unravel_flat_pos.
Qed.

(* ------------------------------------------------------------------ sums *)
Lemma zsum_succ f n : 0 <= n -> zsum f (n + 1) = zsum f n + f n.
Proof.
  intros H. unfold zsum. rewrite zrange_succ by lia. rewrite map_app. cbn [map].
  generalize (map f (zrange n)); intros l. induction l as [|x l IH]; cbn [app fold_right]; lia.
Qed.
Lemma zsum_0 f : zsum f 0 = 0.
Proof. reflexivity. Qed.

Lemma zsum_ext f g n : (forall i, 0 <= i < n -> f i = g i) -> zsum f n = zsum g n.
Proof.
  intros H. unfold zsum. f_equal. apply map_ext_in. intros i Hi. apply H. now apply In_zrange.
Qed.

Lemma list_sum_z_app a b : list_sum_z (a ++ b) = list_sum_z a + list_sum_z b.
Proof. unfold list_sum_z. induction a as [|x a IH]; cbn [app fold_right]; lia. Qed.

(* folding the addition kernel = integer sum reduced modulo 2^w *)
Lemma fold_k_add st l a :
  fold_left (k_add st) l (a mod modulus st) = (a + list_sum_z l) mod modulus st.
Proof.
  revert a; induction l as [|x l IH]; intros a; cbn [fold_left list_sum_z fold_right].
  - f_equal. lia.
  - rewrite k_add_mod. rewrite Zplus_mod_idemp_l. rewrite IH. f_equal.
    change (fold_right Z.add 0 l) with (list_sum_z l). lia.
Qed.

Lemma fold_k_add_0 st l : fold_left (k_add st) l 0 = list_sum_z l mod modulus st.
Proof.
  pose proof (modulus_pos st). rewrite <- (Z.mod_0_l (modulus st)) at 1 by lia.
  rewrite fold_k_add. f_equal.
Qed.

(* the accumulation loop of dot / matmul: sum of products modulo 2^w *)
Lemma fold_dot_loop st (X Y : Z -> result Z) (x y : Z -> Z) n :
  (forall j, 0 <= j < n -> X j = Ok (x j) /\ Y j = Ok (y j)) ->
  fold_left (fun acc j => let* a := acc in let* u := X j in let* v := Y j in
                          Ok (k_add st a (k_mul st u v)))
            (zrange n) (Ok 0)
  = Ok (dot_sum n x y mod modulus st).
Proof.
  intros H. pose proof (modulus_pos st) as Hm.
  assert (G : forall k : nat, Z.of_nat k <= Z.max n 0 ->
    fold_left (fun acc j => let* a := acc in let* u := X j in let* v := Y j in
                            Ok (k_add st a (k_mul st u v)))
              (zrange (Z.of_nat k)) (Ok 0)
    = Ok (dot_sum (Z.of_nat k) x y mod modulus st)).
  { induction k as [|k IH]; intros Hk.
    - cbn. now rewrite Z.mod_0_l by lia.
    - rewrite zrange_of_nat_S, fold_left_app. rewrite IH by lia.
      cbn [fold_left bind]. destruct (H (Z.of_nat k) ltac:(lia)) as [E1 E2].
      rewrite E1, E2. cbn [bind]. f_equal. rewrite k_add_mod, k_mul_mod.
      rewrite Zplus_mod_idemp_l, Zplus_mod_idemp_r.
      unfold dot_sum. rewrite Nat2Z.inj_succ. unfold Z.succ.
      rewrite zsum_succ by lia. reflexivity. }
  specialize (G (Z.to_nat n) ltac:(lia)).
  unfold dot_sum, zsum in *. rewrite <- zrange_to_nat in G. exact G.
Qed.

(* ------------------------------------------------------------------ loops with a result state *)
(* invariant rule for the in-place update loops `for i in 0..n { ... }` *)
Lemma fold_left_result_inv {S} (step : S -> Z -> result S) (Inv : nat -> S -> Prop) n s0 :
  Inv O s0 ->
  (forall k s, (k < n)%nat -> Inv k s -> exists s', step s (Z.of_nat k) = Ok s' /\ Inv (Datatypes.S k) s') ->
  exists s, fold_left (fun acc i => let* s := acc in step s i) (zrange (Z.of_nat n)) (Ok s0) = Ok s
            /\ Inv n s.
Proof.
  intros H0 Hs. induction n as [|n IH].
  - exists s0. split; [reflexivity|exact H0].
  - destruct IH as (s & E & Hi); [intros; apply Hs; auto; lia|].
    destruct (Hs n s ltac:(lia) Hi) as (s' & E' & Hi').
    exists s'. split; [|exact Hi'].
    rewrite zrange_of_nat_S, fold_left_app, E. cbn [fold_left bind]. exact E'.
Qed.

Lemma nth_repeat_0 n i : nth i (repeat 0 n) 0 = 0.
Proof. revert i; induction n; intros [|i]; cbn; auto. Qed.

(* ------------------------------------------------------------------ enumeration of a shape *)
Lemma zrange_mul_flat d P : 0 <= d -> 0 <= P ->
  flat_map (fun x => map (fun q => x * P + q) (zrange P)) (zrange d) = zrange (d * P).
Proof.
  intros Hd HP. rewrite <- (Z2Nat.id d) by lia. generalize (Z.to_nat d). intros k.
  induction k as [|k IH]; [reflexivity|].
  rewrite zrange_of_nat_S, flat_map_app, IH. cbn [flat_map]. rewrite app_nil_r.
  rewrite Nat2Z.inj_succ. unfold Z.succ. rewrite Z.mul_add_distr_r, Z.mul_1_l.
  rewrite zrange_app by nia. reflexivity.
Qed.

Lemma all_indices_flat_pos sh : valid_shape sh ->
  map (fun idx => flat_pos idx sh) (all_indices sh) = zrange (prod_list sh).
Proof.
  induction 1 as [|d sh Hd Hv IH]; [reflexivity|].
  cbn [all_indices]. rewrite prod_list_cons. pose proof (prod_list_pos sh Hv).
  rewrite <- zrange_mul_flat by lia.
  rewrite flat_map_concat_map, concat_map, map_map, <- flat_map_concat_map.
  apply flat_map_ext. intros x. rewrite map_map. cbn [flat_pos]. rewrite <- IH, map_map. reflexivity.
Qed.

Lemma all_indices_in_shape sh : valid_shape sh -> Forall (fun idx => in_shape idx sh) (all_indices sh).
Proof.
  induction 1 as [|d sh Hd Hv IH]; cbn [all_indices]; [repeat constructor|].
  apply Forall_forall. intros idx Hin. apply in_flat_map in Hin as (x & Hx & Hin).
  apply in_map_iff in Hin as (r & <- & Hr). apply In_zrange in Hx.
  constructor; [lia|]. rewrite Forall_forall in IH. auto.
Qed.

(* a sum over positions is a sum over multi-indices *)
Lemma zsum_over_indices f sh : valid_shape sh ->
  zsum f (prod_list sh) = list_sum_z (map (fun idx => f (flat_pos idx sh)) (all_indices sh)).
Proof. intros Hv. unfold zsum. rewrite <- all_indices_flat_pos by auto. now rewrite map_map. Qed.

Lemma list_sum_z_map_ext {A} (f g : A -> Z) l :
  (forall x, In x l -> f x = g x) -> list_sum_z (map f l) = list_sum_z (map g l).
Proof. intros H. f_equal. now apply map_ext_in. Qed.

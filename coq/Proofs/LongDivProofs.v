(* Proofs about Model/LongDiv.v (C17): LongDivision returns the quotient and remainder of
   floored division for every power-of-two width and every non-zero divisor. *)
From CC Require Import Base.Prelude Model.Adder Model.Mux Model.Clip Model.LongDiv
  Proofs.AdderProofs Proofs.MuxProofs Proofs.ClipProofs.

Local Notation pw n := (2 ^ Z.of_nat n).

Lemma pw_pos n : 0 < pw n.
Proof. apply Z.pow_pos_nonneg; lia. Qed.

Lemma pw_S n : pw (S n) = 2 * pw n.
Proof. rewrite Nat2Z.inj_succ, Z.pow_succ_r by lia. reflexivity. Qed.

(* ---------------------------------------------------------------- normal forms *)
Lemma bval_bits_of_small n v : 0 <= v < pw n -> bval (bits_of n v) = v.
Proof. intros H. rewrite bval_bits_of. apply Z.mod_small. exact H. Qed.

Lemma bits_of_self x : bits_of (length x) (bval x) = x.
Proof. apply bits_of_bval. Qed.

Lemma invert_length x : length (invert_bits x) = length x.
Proof. apply map_length. Qed.

Lemma bval_invert x : bval (invert_bits x) = pw (length x) - 1 - bval x.
Proof.
  induction x as [|b r IH]; cbn [invert_bits map bval length].
  - change (pw 0) with 1. lia.
  - fold (invert_bits r). rewrite IH, pw_S. destruct b; cbn [negb Z.b2z]; lia.
Qed.

Lemma pow2_ge2 k : (1 <= k)%nat -> (2 <= 2 ^ k)%nat.
Proof. intros H. destruct k; [lia|]. pose proof (pow2_pos k). cbn [Nat.pow]. lia. Qed.

Lemma add_one_spec k x : (1 <= k)%nat -> length x = (2 ^ k)%nat ->
  add_one x = Ok (bits_of (2 ^ k) (bval x + 1)).
Proof.
  intros Hk Hx. pose proof (pow2_ge2 k Hk) as H2. unfold add_one. rewrite Hx.
  replace (2 ^ k <=? 1)%nat with false by (symmetry; apply Nat.leb_gt; lia).
  rewrite (binary_add_spec k x _ false Hx).
  - cbn [bind bval Z.b2z]. rewrite bval_repeat_false.
    replace (bval x + (1 + 2 * 0)) with (bval x + 1) by lia. reflexivity.
  - cbn [length]. rewrite repeat_length. lia.
Qed.

Lemma negative_spec k x : (1 <= k)%nat -> length x = (2 ^ k)%nat ->
  negative x = Ok (bits_of (2 ^ k) (pw (2 ^ k) - bval x)).
Proof.
  intros Hk Hx. unfold negative.
  rewrite (add_one_spec k) by (rewrite ?invert_length; auto).
  rewrite bval_invert, Hx.
  replace (pw (2 ^ k) - 1 - bval x + 1) with (pw (2 ^ k) - bval x) by lia. reflexivity.
Qed.

(* sign and magnitude from the unsigned value *)
Lemma sbval_cases x : x <> [] ->
  (last x false = false /\ sbval x = bval x /\ bval x < pw (length x - 1)) \/
  (last x false = true /\ sbval x = bval x - pw (length x) /\ pw (length x - 1) <= bval x).
Proof.
  intros Hne. destruct (bval_msb x Hne) as [E R]. unfold sbval.
  assert (pw (length x) = 2 * pw (length x - 1)) as P.
  { destruct x; [contradiction|]. cbn [length]. rewrite Nat.sub_succ, Nat.sub_0_r. apply pw_S. }
  destruct (last x false); cbn [Z.b2z] in E; [right | left]; repeat split; lia.
Qed.

Lemma forallb_negb_zero x : forallb negb x = (bval x =? 0).
Proof.
  induction x as [|b r IH]; [reflexivity|]. cbn [forallb bval].
  pose proof (bval_range r) as R. rewrite IH.
  destruct b; cbn [negb andb Z.b2z].
  - symmetry. apply Z.eqb_neq. lia.
  - destruct (bval r =? 0) eqn:E; [apply Z.eqb_eq in E | apply Z.eqb_neq in E];
      symmetry; [apply Z.eqb_eq | apply Z.eqb_neq]; lia.
Qed.

(* ---------------------------------------------------------------- abs *)
Lemma abs_unsigned x : abs_bits false x = Ok (false, x).
Proof. reflexivity. Qed.

Lemma abs_signed k x : (1 <= k)%nat -> length x = (2 ^ k)%nat ->
  exists y, abs_bits true x = Ok (sbval x <? 0, y) /\ length y = (2 ^ k)%nat /\
            bval y = Z.abs (sbval x) /\ bval y <= pw (2 ^ k - 1).
Proof.
  intros Hk Hx. pose proof (pow2_ge2 k Hk) as H2.
  assert (x <> []) as Hne by (intros ->; cbn in Hx; lia).
  unfold abs_bits, is_negative. destruct x as [|x0 xr] eqn:Ex; [contradiction|]. rewrite <- Ex in *.
  cbn [bind]. rewrite (negative_spec k x Hk Hx). cbn [bind].
  pose proof (bval_range x) as R. rewrite Hx in R.
  assert (pw (2 ^ k) = 2 * pw (2 ^ k - 1)) as P.
  { replace (2 ^ k)%nat with (S (2 ^ k - 1)) at 1 by lia. apply pw_S. }
  pose proof (pw_pos (2 ^ k - 1)) as Pp.
  destruct (sbval_cases x Hne) as [(Hl & Hs & Hb) | (Hl & Hs & Hb)]; rewrite Hx in *; rewrite Hl, Hs.
  - exists x. rewrite mux_bits_false by (rewrite bits_of_length; lia).
    replace (bval x <? 0) with false by (symmetry; apply Z.ltb_ge; lia).
    repeat split; auto; lia.
  - exists (bits_of (2 ^ k) (pw (2 ^ k) - bval x)).
    rewrite mux_bits_true by (rewrite bits_of_length; lia).
    replace (bval x - pw (2 ^ k) <? 0) with true by (symmetry; apply Z.ltb_lt; lia).
    rewrite bits_of_length, bval_bits_of_small by lia.
    repeat split; auto; lia.
Qed.

(* ---------------------------------------------------------------- the restoring loop *)
(* value of a bitstring written most significant bit first *)
Fixpoint mval (l : bits) : Z :=
  match l with [] => 0 | b :: r => Z.b2z b * pw (length r) + mval r end.

Lemma mval_app a b : mval (a ++ b) = mval a * pw (length b) + mval b.
Proof.
  induction a as [|x a IH]; cbn [app mval]; [lia|].
  rewrite IH, app_length, Nat2Z.inj_add, Z.pow_add_r by lia. lia.
Qed.

Lemma mval_rev l : mval (rev l) = bval l.
Proof.
  induction l as [|b r IH]; [reflexivity|]. cbn [rev bval].
  rewrite mval_app, IH. cbn [mval length]. change (pw 0) with 1. change (pw 1) with 2. lia.
Qed.

Lemma bval_rev l : bval (rev l) = mval l.
Proof. rewrite <- (rev_involutive l) at 2. symmetry. apply mval_rev. Qed.

Lemma mval_range l : 0 <= mval l < pw (length l).
Proof. pose proof (bval_range (rev l)) as H. rewrite bval_rev, rev_length in H. exact H. Qed.

Lemma removelast_length {A} (l : list A) : length (removelast l) = (length l - 1)%nat.
Proof.
  destruct l as [|a l]; [reflexivity|].
  assert (a :: l <> []) as Hne by discriminate.
  pose proof (app_removelast_last a Hne) as E.
  rewrite E at 2. rewrite app_length. cbn [length]. lia.
Qed.

(* one iteration: shift the next dividend bit in, subtract the divisor if it fits *)
Lemma single_iteration_spec k rem md b D :
  length rem = (2 ^ k)%nat -> length md = (2 ^ k)%nat ->
  0 < D < pw (2 ^ k) -> bval md = pw (2 ^ k) - D ->
  bval rem < D -> 2 * bval rem + Z.b2z b < pw (2 ^ k) ->
  let T := 2 * bval rem + Z.b2z b in
  exists r', single_iteration rem md b = Ok (r', D <=? T) /\
             length r' = (2 ^ k)%nat /\ bval r' = T mod D /\ Z.b2z (D <=? T) = T / D.
Proof.
  intros Hr Hm HD Hmd HR Hfit T.
  pose proof (pow2_pos k) as Hpos.
  assert (rem <> []) as Hne by (intros ->; cbn in Hr; lia).
  destruct (bval_msb rem Hne) as [Em Rm]. rewrite Hr in Em, Rm.
  assert (pw (2 ^ k) = 2 * pw (2 ^ k - 1)) as P.
  { replace (2 ^ k)%nat with (S (2 ^ k - 1)) at 1 by lia. apply pw_S. }
  pose proof (pw_pos (2 ^ k - 1)) as Pp.
  pose proof (bval_range rem) as Rr.
  assert (last rem false = false) as Hmsb.
  { destruct (last rem false); [|reflexivity]. cbn [Z.b2z] in Em. destruct b; cbn [Z.b2z] in Hfit; lia. }
  rewrite Hmsb in Em. cbn [Z.b2z] in Em.
  set (rem1 := b :: removelast rem).
  assert (length rem1 = 2 ^ k)%nat as Hl1.
  { unfold rem1. cbn [length]. rewrite removelast_length, Hr. lia. }
  assert (bval rem1 = T) as Hv1 by (unfold rem1, T; cbn [bval]; lia).
  unfold single_iteration. fold rem1.
  unfold binary_add_transposed. rewrite Hl1, Hm, Nat.eqb_refl. cbn [negb].
  pose proof (binary_add_spec k rem1 md true Hl1 Hm) as HA.
  unfold binary_add, binary_add_transposed in HA. rewrite Hl1, Hm, Nat.eqb_refl in HA. cbn [negb] in HA.
  rewrite HA. cbn [bind]. rewrite Hv1, Hmd.
  assert (carry_out (2 ^ k) (T + (pw (2 ^ k) - D)) = (D <=? T)) as Hc.
  { unfold carry_out. destruct (D <=? T) eqn:E; [apply Z.leb_le in E; apply Z.leb_le | apply Z.leb_gt in E; apply Z.leb_gt]; lia. }
  rewrite Hc.
  assert (0 <= T < 2 * D) as RT by (unfold T; destruct b; cbn [Z.b2z]; lia).
  destruct (D <=? T) eqn:E; [apply Z.leb_le in E | apply Z.leb_gt in E].
  - eexists. split; [reflexivity|].
    rewrite mux_bits_true by (rewrite bits_of_length; lia).
    rewrite bits_of_length. split; [reflexivity|].
    rewrite bval_bits_of.
    split.
    + rewrite <- (Z.mod_unique (T + (pw (2 ^ k) - D)) (pw (2 ^ k)) 1 (T - D)) by lia.
      apply Z.mod_unique with (q := 1); lia.
    + cbn [Z.b2z]. apply Z.div_unique with (r := T - D); lia.
  - eexists. split; [reflexivity|].
    rewrite mux_bits_false by (rewrite bits_of_length; lia).
    split; [exact Hl1|]. rewrite Hv1. split.
    + symmetry. apply Z.mod_small. lia.
    + cbn [Z.b2z]. symmetry. apply Z.div_small. lia.
Qed.

(* the loop: with remainder R < D and the remaining dividend bits l (most significant first)
   it returns (R * 2^|l| + l) mod D and the quotient bits of (R * 2^|l| + l) / D.
   No bit is lost by the shift when the running value stays below 2^n, or when D <= 2^(n-1). *)
Lemma div_loop_spec k md D : forall l rem,
  length rem = (2 ^ k)%nat -> length md = (2 ^ k)%nat ->
  0 < D < pw (2 ^ k) -> bval md = pw (2 ^ k) - D ->
  bval rem < D ->
  (bval rem * pw (length l) + mval l < pw (2 ^ k) \/ 2 * D <= pw (2 ^ k)) ->
  let V := bval rem * pw (length l) + mval l in
  exists rf qs, div_loop rem md l = Ok (rf, qs) /\
                length rf = (2 ^ k)%nat /\ length qs = length l /\
                bval rf = V mod D /\ mval qs = V / D.
Proof.
  induction l as [|b l IH]; intros rem Hr Hm HD Hmd HR Hfit; cbv zeta.
  - exists rem, []. cbn [div_loop length mval]. change (pw 0) with 1.
    pose proof (bval_range rem).
    replace (bval rem * 1 + 0) with (bval rem) by lia.
    repeat split; auto.
    + symmetry. apply Z.mod_small. lia.
    + symmetry. apply Z.div_small. lia.
  - cbn [div_loop]. cbn [mval length] in Hfit |- *.
    pose proof (pw_pos (length l)) as Pl. pose proof (mval_range l) as Rl.
    pose proof (bval_range rem) as Rr.
    rewrite pw_S in Hfit |- *.
    set (V := bval rem * (2 * pw (length l)) + (Z.b2z b * pw (length l) + mval l)).
    assert (2 * bval rem + Z.b2z b < pw (2 ^ k)) as Hfit1.
    { destruct Hfit as [Hf | Hf]; [|destruct b; cbn [Z.b2z]; lia].
      destruct b; cbn [Z.b2z] in *; nia. }
    destruct (single_iteration_spec k rem md b D Hr Hm HD Hmd HR Hfit1) as (r1 & E1 & Hl1 & Hv1 & Hq1).
    set (T := 2 * bval rem + Z.b2z b) in *.
    assert (T = 2 * bval rem + Z.b2z b) as HT by reflexivity. clearbody T.
    rewrite E1. cbn [bind].
    assert (0 <= T mod D < D) as RTm by (apply Z.mod_pos_bound; lia).
    assert (T = D * (T / D) + T mod D) as ET by (apply Z.div_mod; lia).
    assert (0 <= T / D) as RTd by (rewrite <- Hq1; destruct (D <=? T); cbn; lia).
    assert (V = T * pw (length l) + mval l) as EV0 by (unfold V; rewrite HT; ring).
    destruct (IH r1 Hl1 Hm HD Hmd ltac:(lia)) as (rf & qs & E2 & Hlf & Hlq & Hvf & Hvq).
    { destruct Hfit as [Hf | Hf]; [left | right; exact Hf]. rewrite Hv1.
      apply Z.le_lt_trans with (m := T * pw (length l) + mval l); [|lia].
      apply Z.add_le_mono_r. apply Z.mul_le_mono_nonneg_r; lia. }
    rewrite E2. cbn [bind]. exists rf, ((D <=? T) :: qs).
    split; [reflexivity|]. split; [exact Hlf|]. split; [cbn [length]; lia|].
    rewrite Hv1 in Hvf, Hvq.
    set (W := T mod D * pw (length l) + mval l) in *.
    assert (V = W + (T / D * pw (length l)) * D) as EV.
    { rewrite EV0. unfold W. rewrite ET at 1. ring. }
    split.
    + rewrite Hvf, EV, Z.mod_add by lia. reflexivity.
    + cbn [mval]. rewrite Hlq, Hvq, Hq1, EV, Z.div_add by lia. lia.
Qed.

(* ---------------------------------------------------------------- unsigned division *)
Theorem long_division_unsigned k a d :
  (1 <= k)%nat -> length d = (2 ^ k)%nat -> bval d <> 0 ->
  (bval a < pw (2 ^ k) \/ 2 * bval d <= pw (2 ^ k)) ->
  exists q r, long_division false a d = Ok (q, r) /\
              length q = length a /\ length r = (2 ^ k)%nat /\
              bval q = bval a / bval d /\ bval r = bval a mod bval d.
Proof.
  intros Hk Hd Hnz Hfit. unfold long_division. rewrite !abs_unsigned. cbn [bind].
  rewrite (negative_spec k d Hk Hd). cbn [bind].
  pose proof (bval_range d) as Rd. rewrite Hd in Rd.
  set (D := bval d) in *.
  set (md := bits_of (2 ^ k) (pw (2 ^ k) - D)).
  assert (length md = 2 ^ k)%nat as Hlm by apply bits_of_length.
  assert (bval md = pw (2 ^ k) - D) as Hvm by (apply bval_bits_of_small; lia).
  assert (bval (repeat false (length d)) = 0) as Hz by apply bval_repeat_false.
  destruct (div_loop_spec k md D (rev a) (repeat false (length d))) as (rf & qs & E & Hlf & Hlq & Hvf & Hvq);
    try (rewrite ?repeat_length; auto; lia).
  { rewrite Hz, mval_rev. lia. }
  rewrite E. cbn [bind]. rewrite Hz, mval_rev in Hvf, Hvq.
  replace (0 * pw (length (rev a)) + bval a) with (bval a) in Hvf, Hvq by lia.
  exists (rev qs), rf. rewrite rev_length, Hlq, rev_length, bval_rev. auto.
Qed.

(* ---------------------------------------------------------------- sign adjustment *)
Lemma sbval_of_bval x : x <> [] ->
  (2 * bval x < pw (length x) -> sbval x = bval x) /\
  (pw (length x) <= 2 * bval x -> sbval x = bval x - pw (length x)).
Proof.
  intros Hne.
  assert (pw (length x) = 2 * pw (length x - 1)) as P.
  { destruct x; [contradiction|]. cbn [length]. rewrite Nat.sub_succ, Nat.sub_0_r. apply pw_S. }
  destruct (sbval_cases x Hne) as [(_ & Hs & Hb) | (_ & Hs & Hb)]; split; intros; lia.
Qed.

Definition pos_rem (rneg : bool) (D R : Z) : Z :=
  if R =? 0 then 0 else if rneg then D - R else R.
Definition adj_quot (rneg : bool) (Q R : Z) : Z :=
  if rneg then (if R =? 0 then - Q else - Q - 1) else Q.

Lemma adjust_negative_spec j k qb rb db an dn :
  (1 <= j)%nat -> (1 <= k)%nat ->
  length qb = (2 ^ j)%nat -> length rb = (2 ^ k)%nat -> length db = (2 ^ k)%nat ->
  bval rb < bval db -> 2 * bval db <= pw (2 ^ k) ->
  exists q' r', adjust_negative qb rb db an dn = Ok (q', r') /\
    length q' = (2 ^ j)%nat /\ length r' = (2 ^ k)%nat /\
    bval q' = adj_quot (xorb an dn) (bval qb) (bval rb) mod pw (2 ^ j) /\
    sbval r' = (let PR := pos_rem (xorb an dn) (bval db) (bval rb) in if dn then - PR else PR).
Proof.
  intros Hj Hk Hq Hr Hd HRD HD2.
  pose proof (pow2_ge2 j Hj) as H2j. pose proof (pow2_ge2 k Hk) as H2k.
  pose proof (bval_range qb) as Rq. rewrite Hq in Rq.
  pose proof (bval_range rb) as Rr. rewrite Hr in Rr.
  pose proof (bval_range db) as Rd. rewrite Hd in Rd.
  set (Q := bval qb) in *. set (R := bval rb) in *. set (D := bval db) in *.
  set (M := pw (2 ^ j)) in *. set (N := pw (2 ^ k)) in *.
  unfold adjust_negative. rewrite forallb_negb_zero. fold R.
  set (rneg := xorb an dn).
  rewrite (add_one_spec j) by (rewrite ?invert_length; auto).
  cbn [bind]. rewrite bval_invert, Hq. fold Q M.
  rewrite (negative_spec k rb Hk Hr). cbn [bind]. fold R N.
  rewrite (binary_add_spec k db _ false Hd) by apply bits_of_length. cbn [bind].
  fold D. rewrite bval_bits_of. fold N.
  set (dmr := bits_of (2 ^ k) (D + (N - R) mod N)).
  set (prb := mux_bits (R =? 0) rb (mux_bits rneg dmr rb)).
  assert (length dmr = 2 ^ k)%nat as Hldmr by apply bits_of_length.
  assert (length prb = 2 ^ k)%nat as Hlpr.
  { unfold prb. rewrite !mux_bits_spec by (rewrite ?mux_bits_spec; try destruct rneg; lia).
    destruct (R =? 0), rneg; lia. }
  assert (bval prb = pos_rem rneg D R) as Hvpr.
  { unfold prb, pos_rem. rewrite !mux_bits_spec by (rewrite ?mux_bits_spec; try destruct rneg; lia).
    destruct (R =? 0) eqn:E0; [apply Z.eqb_eq in E0; lia|apply Z.eqb_neq in E0].
    destruct rneg; [|reflexivity].
    unfold dmr. rewrite bval_bits_of. fold N.
    rewrite (Z.mod_small (N - R) N) by lia.
    symmetry. apply Z.mod_unique with (q := 1); lia. }
  rewrite (negative_spec k prb Hk Hlpr). cbn [bind]. fold N. rewrite Hvpr.
  set (PR := pos_rem rneg D R) in *.
  assert (0 <= PR < D) as RPR.
  { unfold PR, pos_rem. destruct (R =? 0) eqn:E0; [apply Z.eqb_eq in E0|apply Z.eqb_neq in E0]; [lia|].
    destruct rneg; lia. }
  set (negq := bits_of (2 ^ j) (M - 1 - Q + 1)).
  set (invq := invert_bits qb).
  assert (length negq = 2 ^ j)%nat as Hlnq by apply bits_of_length.
  assert (length invq = 2 ^ j)%nat as Hliq by (unfold invq; rewrite invert_length; exact Hq).
  assert (mux_bits (R =? 0) negq invq = if R =? 0 then negq else invq) as Hq1
    by (apply mux_bits_spec; lia).
  assert (mux_bits rneg (if R =? 0 then negq else invq) qb
          = if rneg then (if R =? 0 then negq else invq) else qb) as Hq2
    by (apply mux_bits_spec; destruct (R =? 0); lia).
  rewrite Hq1, Hq2.
  assert (length (bits_of (2 ^ k) (N - PR)) = 2 ^ k)%nat as Hlnp by apply bits_of_length.
  rewrite (mux_bits_spec dn) by lia.
  eexists. eexists. split; [reflexivity|].
  split; [|split; [|split]].
  - destruct rneg; [destruct (R =? 0)|]; lia.
  - destruct dn; lia.
  - unfold adj_quot. fold rneg. destruct rneg.
    + destruct (R =? 0).
      * unfold negq. rewrite bval_bits_of. fold M.
        replace (M - 1 - Q + 1) with (- Q + 1 * M) by lia. apply Z.mod_add. lia.
      * unfold invq. rewrite bval_invert, Hq. fold Q M. apply Z.mod_unique with (q := -1); lia.
    + fold Q. symmetry. apply Z.mod_small. lia.
  - cbv zeta. fold rneg PR.
    destruct dn.
    + set (y := bits_of (2 ^ k) (N - PR)).
      assert (length y = 2 ^ k)%nat as Hly by apply bits_of_length.
      assert (y <> []) as Hyne by (intros E; rewrite E in Hly; cbn in Hly; lia).
      destruct (sbval_of_bval y Hyne) as [S1 S2]. rewrite Hly in S1, S2. fold N in S1, S2.
      assert (bval y = (N - PR) mod N) as Hvy by (unfold y; rewrite bval_bits_of; reflexivity).
      destruct (Z.eq_dec PR 0) as [E0 | E0].
      * rewrite E0, Z.sub_0_r, Z.mod_same in Hvy by lia. rewrite S1; lia.
      * rewrite Z.mod_small in Hvy by lia. rewrite S2; lia.
    + assert (prb <> []) as Hpne by (intros E; rewrite E in Hlpr; cbn in Hlpr; lia).
      destruct (sbval_of_bval prb Hpne) as [S1 _]. rewrite Hlpr in S1. fold N in S1.
      rewrite S1; lia.
Qed.

(* floored division from the division of the magnitudes *)
Lemma div_mod_unique' a b q r :
  (0 <= r < b \/ b < r <= 0) -> a = b * q + r -> a / b = q /\ a mod b = r.
Proof.
  intros Hr E. assert (b <> 0) as Hb by lia.
  pose proof (Z.div_mod a b Hb) as E'. pose proof (Z.mod_bound_or a b Hb) as Hr'.
  apply (Z.div_mod_unique b (a / b) q (a mod b) r); auto; lia.
Qed.

Lemma floor_from_abs sa sd : sd <> 0 ->
  let A := Z.abs sa in let D := Z.abs sd in
  let rneg := xorb (sa <? 0) (sd <? 0) in
  sa / sd = adj_quot rneg (A / D) (A mod D) /\
  sa mod sd = (let PR := pos_rem rneg D (A mod D) in if sd <? 0 then - PR else PR).
Proof.
  intros Hnz A D rneg. cbv zeta.
  assert (0 < D) as HD by (unfold D; lia).
  pose proof (Z.div_mod A D ltac:(lia)) as E. pose proof (Z.mod_pos_bound A D HD) as RR.
  set (Q := A / D) in *. set (R := A mod D) in *.
  unfold adj_quot, pos_rem, rneg.
  destruct (sa <? 0) eqn:Ea; [apply Z.ltb_lt in Ea | apply Z.ltb_ge in Ea];
  (destruct (sd <? 0) eqn:Ed; [apply Z.ltb_lt in Ed | apply Z.ltb_ge in Ed]);
  cbn [xorb];
  (destruct (R =? 0) eqn:E0; [apply Z.eqb_eq in E0 | apply Z.eqb_neq in E0]);
  apply div_mod_unique'; unfold A, D in *; nia.
Qed.

(* ---------------------------------------------------------------- signed division *)
Theorem long_division_signed j k a d :
  (1 <= j)%nat -> (1 <= k)%nat -> length a = (2 ^ j)%nat -> length d = (2 ^ k)%nat ->
  sbval d <> 0 ->
  exists q r, long_division true a d = Ok (q, r) /\
              length q = (2 ^ j)%nat /\ length r = (2 ^ k)%nat /\
              bval q = (sbval a / sbval d) mod pw (2 ^ j) /\
              sbval r = sbval a mod sbval d.
Proof.
  intros Hj Hk Ha Hd Hnz. unfold long_division.
  destruct (abs_signed j a Hj Ha) as (ya & Ea & Hlya & Hvya & Hbya).
  destruct (abs_signed k d Hk Hd) as (yd & Ed & Hlyd & Hvyd & Hbyd).
  rewrite Ea, Ed. cbn [bind].
  rewrite (negative_spec k yd Hk Hlyd). cbn [bind].
  pose proof (pow2_ge2 k Hk) as H2k.
  assert (pw (2 ^ k) = 2 * pw (2 ^ k - 1)) as P.
  { replace (2 ^ k)%nat with (S (2 ^ k - 1)) at 1 by lia. apply pw_S. }
  pose proof (pw_pos (2 ^ k - 1)) as Pp.
  set (D := bval yd) in *.
  assert (0 < D) as HDpos by lia.
  set (md := bits_of (2 ^ k) (pw (2 ^ k) - D)).
  assert (length md = 2 ^ k)%nat as Hlm by apply bits_of_length.
  assert (bval md = pw (2 ^ k) - D) as Hvm by (apply bval_bits_of_small; lia).
  assert (bval (repeat false (length d)) = 0) as Hz by apply bval_repeat_false.
  destruct (div_loop_spec k md D (rev ya) (repeat false (length d))) as (rf & qs & E & Hlf & Hlq & Hvf & Hvq);
    try (rewrite ?repeat_length; auto; lia).
  rewrite E. cbn [bind]. rewrite Hz, mval_rev in Hvf, Hvq.
  replace (0 * pw (length (rev ya)) + bval ya) with (bval ya) in Hvf, Hvq by lia.
  rewrite rev_length, Hlya in Hlq.
  assert (0 <= bval rf < D) as RR by (rewrite Hvf; apply Z.mod_pos_bound; lia).
  destruct (adjust_negative_spec j k (rev qs) rf yd (sbval a <? 0) (sbval d <? 0))
    as (q' & r' & E' & Hlq' & Hlr' & Hvq' & Hvr'); auto; try lia.
  { rewrite rev_length. exact Hlq. }
  exists q', r'. split; [exact E'|]. split; [exact Hlq'|]. split; [exact Hlr'|].
  cbv zeta in Hvr'. subst D.
  rewrite bval_rev, Hvq, Hvf, Hvya, Hvyd in Hvq'. rewrite Hvf, Hvya, Hvyd in Hvr'.
  destruct (floor_from_abs (sbval a) (sbval d) Hnz) as [Fq Fr]. cbv zeta in Fq, Fr.
  rewrite Fq, Fr. split; assumption.
Qed.

(* ---------------------------------------------------------------- the statement of C17 *)
(* same width n = 2^k for dividend and divisor: no hypothesis on the operands is needed *)
Theorem longdiv_unsigned_same_width k a d :
  (1 <= k)%nat -> length a = (2 ^ k)%nat -> length d = (2 ^ k)%nat -> bval d <> 0 ->
  exists q r, long_division false a d = Ok (q, r) /\
              length q = (2 ^ k)%nat /\ length r = (2 ^ k)%nat /\
              bval q = bval a / bval d /\ bval r = bval a mod bval d /\
              bval q * bval d + bval r = bval a /\ 0 <= bval r < bval d.
Proof.
  intros Hk Ha Hd Hnz. pose proof (bval_range a) as Ra. rewrite Ha in Ra.
  pose proof (bval_range d) as Rd.
  destruct (long_division_unsigned k a d Hk Hd Hnz ltac:(lia)) as (q & r & E & Hlq & Hlr & Hq & Hr).
  exists q, r. rewrite Hlq, Ha. repeat split; auto; rewrite ?Hq, ?Hr.
  - pose proof (Z.div_mod (bval a) (bval d) Hnz). lia.
  - apply Z.mod_pos_bound. lia.
  - apply Z.mod_pos_bound. lia.
Qed.

Theorem longdiv_signed_same_width k a d :
  (1 <= k)%nat -> length a = (2 ^ k)%nat -> length d = (2 ^ k)%nat -> sbval d <> 0 ->
  exists q r, long_division true a d = Ok (q, r) /\
              length q = (2 ^ k)%nat /\ length r = (2 ^ k)%nat /\
              bval q = (sbval a / sbval d) mod pw (2 ^ k) /\
              sbval r = sbval a mod sbval d /\
              (bval q * sbval d + sbval r) mod pw (2 ^ k) = sbval a mod pw (2 ^ k) /\
              (0 <= sbval r < sbval d \/ sbval d < sbval r <= 0).
Proof.
  intros Hk Ha Hd Hnz.
  destruct (long_division_signed k k a d Hk Hk Ha Hd Hnz) as (q & r & E & Hlq & Hlr & Hq & Hr).
  exists q, r. repeat split; auto.
  - rewrite Hq, Hr. pose proof (pw_pos (2 ^ k)) as P.
    rewrite Z.add_mod, Z.mul_mod_idemp_l, <- Z.add_mod by lia.
    f_equal. pose proof (Z.div_mod (sbval a) (sbval d) Hnz). lia.
  - rewrite Hr. apply Z.mod_bound_or. exact Hnz.
Qed.

(* dividend wider than the divisor, unsigned, divisor above 2^(n-1): the shifted remainder
   loses its top bit (long_division.rs:208) *)
Lemma longdiv_mixed_unsigned_counterexample :
  exists a d q r, length a = 8%nat /\ length d = 4%nat /\ bval d <> 0 /\
    long_division false a d = Ok (q, r) /\ bval q <> bval a / bval d.
Proof.
  exists (bits_of 8 85), (bits_of 4 11), (bits_of 8 0), (bits_of 4 5).
  repeat split; try reflexivity; vm_compute; discriminate.
Qed.

(* C01 deep model, proofs, part 2: static facts about every emitting helper of the compiler model
   (the output graph only grows, keeps its nodes, and dependencies point backwards), for the whole
   mirrored fragment, and the structure theorem of compile_graph_map. *)
From CC Require Import Base.Prelude Base.Scalar Base.Ty Base.Shape Graph.Value Graph.IR Graph.Eval Graph.Typing
  Model.RingEval Model.MpcCompile Model.MpcCompileSem Proofs.MpcCompileBase.

Definition grows (out out' : list node) : Prop := ext out out' /\ (wf out -> wf out').

Lemma grows_refl out : grows out out.
Proof. split; [apply ext_refl | auto]. Qed.
Lemma grows_trans a b c : grows a b -> grows b c -> grows a c.
Proof. intros [E1 W1] [E2 W2]. split; [eapply ext_trans; eauto | auto]. Qed.

Lemma emit_grows o deps an out out' id :
  emit o deps an out = Ok (out', id) -> grows out out' /\ id = zlen out /\ zlen out' = zlen out + 1.
Proof.
  intros H. destruct (emit_spec _ _ _ _ _ _ H) as (ts & t & Hm & _ & -> & ->).
  split; [split; [apply ext_app|]|split; [reflexivity | now rewrite zlen_app, zlen_one]].
  intros W. apply wf_snoc; [exact W|]. cbn. eapply mapM_out_ty_range; eauto.
Qed.
Lemma emit_gadget_grows g deps out out' id :
  emit_gadget g deps out = Ok (out', id) -> grows out out' /\ id = zlen out /\ zlen out' = zlen out + 1.
Proof.
  intros H. destruct (emit_gadget_spec _ _ _ _ _ H) as (ts & t & Hm & _ & _ & -> & ->).
  split; [split; [apply ext_app|]|split; [reflexivity | now rewrite zlen_app, zlen_one]].
  intros W. apply wf_snoc; [exact W|]. cbn. eapply mapM_out_ty_range; eauto.
Qed.
Lemma add_annotation_grows id a out out' : add_annotation id a out = Ok out' -> grows out out'.
Proof. intros H. split; [apply (add_annotation_ext _ _ _ _ H) | eapply add_annotation_wf; eauto]. Qed.

Lemma grows_zlen a b : grows a b -> zlen a <= zlen b.
Proof. intros [[L _] _]. exact L. Qed.

Lemma mapS_grows {A B} (f : A -> list node -> result (list node * B)) l :
  (forall a o o' y, In a l -> f a o = Ok (o', y) -> grows o o') ->
  forall out out' ys, mapS f l out = Ok (out', ys) -> grows out out'.
Proof.
  induction l as [|a l IH]; intros Hf out out' ys H; cbn [mapS] in H.
  - inversion H; subst. apply grows_refl.
  - inv_bind H. destruct x as [s1 y]. inv_bind H. destruct x as [s2 ys']. inversion H; subst.
    eapply grows_trans; [eapply Hf; [now left | eauto] | eapply IH; eauto]. intros; eapply Hf; eauto. now right.
Qed.

Lemma unwrap_ok {A} (r : result A) x : unwrap r = Ok x -> r = Ok x.
Proof. destruct r; cbn; congruence. Qed.

Ltac grows_emit :=
  match goal with
  | H : _ = Ok (?o', _) |- grows ?o ?o' =>
      cbv beta in H;
      first [ exact (proj1 (emit_grows _ _ _ _ _ _ H))
            | apply unwrap_ok in H; exact (proj1 (emit_grows _ _ _ _ _ _ H)) ]
  end.

(* ---------- the helpers ---------- *)
Lemma share_vec_grows priv i olds : forall news out out' sv,
  share_vec priv i olds news out = Ok (out', sv) -> grows out out'.
Proof.
  induction olds as [|o olds IH]; intros news out out' sv H; cbn [share_vec] in H.
  - inversion H; subst. apply grows_refl.
  - destruct news as [|nw news]; [discriminate|]. inv_bind H. destruct x as [out1 s]. inv_bind H. destruct x as [out2 rest].
    inversion H; subst. eapply grows_trans; [|eapply IH; eauto].
    destruct (mem o priv); cbv iota in E.
    + grows_emit.
    + destruct (i =? 0); cbv iota in E.
      * inversion E; subst. apply grows_refl.
      * inv_bind E. grows_emit.
Qed.

Lemma op_shares_grows priv o i olds news out out' sv :
  op_shares priv o i olds news out = Ok (out', sv) -> grows out out'.
Proof.
  unfold op_shares. intros H. destruct o; try (eapply share_vec_grows; exact H).
  inv_bind H. inv_bind H. destruct x0 as [o1 s]. inv_bind H. inversion H; subst.
  exact (proj1 (emit_grows _ _ _ _ _ _ E0)).
Qed.

Lemma apply_op_grows priv n o news olds out out' id :
  apply_op priv n o news olds out = Ok (out', id) -> grows out out' /\ zlen out <= id < zlen out'.
Proof.
  unfold apply_op. intros H.
  assert (G : forall out out' id,
             (let* (out1, result_shares) :=
                mapS (fun i out => let* (out', share) := op_shares priv o i olds news out in emit o share [] out')
                     parties out in
              emit OCreateTuple result_shares [] out1) = Ok (out', id) ->
             grows out out' /\ zlen out <= id < zlen out').
  { clear. intros out out' id H. inv_bind H. destruct x as [out1 rs].
    assert (G1 : grows out out1).
    { eapply mapS_grows; [|exact E]. intros a o1 o1' y _ Hf. inv_bind Hf. destruct x as [o2 sh].
      eapply grows_trans; [eapply op_shares_grows; eauto | grows_emit]. }
    destruct (emit_grows _ _ _ _ _ _ H) as (G2 & -> & L). pose proof (grows_zlen _ _ G1).
    split; [eapply grows_trans; eauto | lia]. }
  destruct (negb (mem n priv)).
  - destruct (emit_grows _ _ _ _ _ _ H) as (G2 & -> & L). split; [exact G2 | lia].
  - destruct o; try (apply G; exact H).
    destruct (emit_grows _ _ _ _ _ _ H) as (G2 & -> & L). split; [exact G2 | lia].
Qed.

Lemma generate_zero_shares_grows t : forall keys out out' zs,
  generate_zero_shares t keys out = Ok (out', zs) -> grows out out'.
Proof.
  induction t as [s|sh s|n t IH|ts IH|fs IH] using ty_ind'; intros keys out out' zs H; cbn [generate_zero_shares] in H.
  - inv_bind H. destruct x as [out1 rs]. eapply grows_trans.
    + eapply mapS_grows; [|exact E]. intros; grows_emit.
    + eapply mapS_grows; [|exact H]. intros a o o' y _ Hf. inv_bind Hf. inv_bind Hf. grows_emit.
  - inv_bind H. destruct x as [out1 rs]. eapply grows_trans.
    + eapply mapS_grows; [|exact E]. intros; grows_emit.
    + eapply mapS_grows; [|exact H]. intros a o o' y _ Hf. inv_bind Hf. inv_bind Hf. grows_emit.
  - inv_bind H. destruct x as [out1 subs]. eapply grows_trans.
    + clear H. revert out out1 subs E. induction (Z.to_nat n) as [|k IHk]; intros out out1 subs E.
      * inversion E; subst. apply grows_refl.
      * inv_bind E. destruct x as [o' s]. inv_bind E. destruct x as [o'' ss]. inversion E; subst.
        eapply grows_trans; [eapply IH; eauto | eapply IHk; eauto].
    + eapply mapS_grows; [|exact H]. intros a o o' y _ Hf. inv_bind Hf. grows_emit.
  - inv_bind H. destruct x as [out1 subs]. eapply grows_trans.
    + clear H. revert out out1 subs E. induction IH as [|t ts Ht _ IHts]; intros out out1 subs E.
      * inversion E; subst. apply grows_refl.
      * inv_bind E. destruct x as [o' s]. inv_bind E. destruct x as [o'' ss]. inversion E; subst.
        eapply grows_trans; [eapply Ht; eauto | eapply IHts; eauto].
    + eapply mapS_grows; [|exact H]. intros a o o' y _ Hf. inv_bind Hf. grows_emit.
  - inv_bind H. destruct x as [out1 subs]. eapply grows_trans.
    + clear H. revert out out1 subs E. induction IH as [|f fs Hf _ IHfs]; intros out out1 subs E.
      * inversion E; subst. apply grows_refl.
      * inv_bind E. destruct x as [o' s]. inv_bind E. destruct x as [o'' ss]. inversion E; subst.
        eapply grows_trans; [eapply Hf; eauto | eapply IHfs; eauto].
    + eapply mapS_grows; [|exact H]. intros a o o' y _ Hf. inv_bind Hf. grows_emit.
Qed.

Lemma get_zero_shares_grows k t out out' zs : get_zero_shares k t out = Ok (out', zs) -> grows out out'.
Proof.
  unfold get_zero_shares. intros H. inv_bind H. destruct x as [out1 keys]. eapply grows_trans.
  - eapply mapS_grows; [|exact E]. intros; grows_emit.
  - eapply generate_zero_shares_grows; eauto.
Qed.

Lemma fold_add_grows rest : forall out s0 out' r,
  fold_left (fun acc share => let* (out, res) := acc in emit OAdd [res; share] [] out) rest (Ok (out, s0)) = Ok (out', r) ->
  grows out out'.
Proof.
  induction rest as [|s rest IH]; intros out s0 out' r H; cbn [fold_left bind] in H.
  - inversion H; subst. apply grows_refl.
  - destruct (emit OAdd [s0; s] [] out) as [[o1 r1]| | |] eqn:E.
    + eapply grows_trans; [exact (proj1 (emit_grows _ _ _ _ _ _ E)) | eapply IH; eauto].
    + exfalso. clear -H. induction rest; cbn [fold_left bind] in H; [discriminate | auto].
    + exfalso. clear -H. induction rest; cbn [fold_left bind] in H; [discriminate | auto].
    + exfalso. clear -H. induction rest; cbn [fold_left bind] in H; [discriminate | auto].
Qed.

Lemma sum_shares_grows t : forall shares out out' r,
  sum_shares t shares out = Ok (out', r) -> grows out out'.
Proof.
  induction t as [s|sh s|n t IH|ts IH|fs IH] using ty_ind'; intros shares out out' r H; cbn [sum_shares] in H.
  - destruct shares as [|s0 rest]; [discriminate|]. eapply fold_add_grows; eauto.
  - destruct shares as [|s0 rest]; [discriminate|]. eapply fold_add_grows; eauto.
  - inv_bind H. destruct x as [out1 rv]. eapply grows_trans; [|grows_emit].
    clear H. revert out out1 rv E. generalize 0 as i.
    induction (Z.to_nat n) as [|k IHk]; intros i out out1 rv E.
    + inversion E; subst. apply grows_refl.
    + inv_bind E. destruct x as [o0 inode]. inv_bind E. destruct x as [o1 subs]. inv_bind E. destruct x as [o2 r2].
      inv_bind E. destruct x as [o3 rest]. inversion E; subst.
      eapply grows_trans; [exact (proj1 (emit_grows _ _ _ _ _ _ E0))|].
      eapply grows_trans; [eapply mapS_grows; [|exact E1]; intros; grows_emit|].
      eapply grows_trans; [eapply IH; eauto | eapply IHk; eauto].
  - inv_bind H. destruct x as [out1 rv]. eapply grows_trans; [|grows_emit].
    clear H. revert out out1 rv E. generalize 0 as i.
    induction IH as [|t ts Ht _ IHts]; intros i out out1 rv E.
    + inversion E; subst. apply grows_refl.
    + inv_bind E. destruct x as [o1 subs]. inv_bind E. destruct x as [o2 r2]. inv_bind E. destruct x as [o3 rest].
      inversion E; subst.
      eapply grows_trans; [eapply mapS_grows; [|exact E0]; intros; grows_emit|].
      eapply grows_trans; [eapply Ht; eauto | eapply IHts; eauto].
  - inv_bind H. destruct x as [out1 rv]. eapply grows_trans; [|grows_emit].
    clear H. revert out out1 rv E.
    induction IH as [|f fs Hf _ IHfs]; intros out out1 rv E.
    + inversion E; subst. apply grows_refl.
    + inv_bind E. destruct x as [o1 subs]. inv_bind E. destruct x as [o2 r2]. inv_bind E. destruct x as [o3 rest].
      inversion E; subst.
      eapply grows_trans; [eapply mapS_grows; [|exact E0]; intros; grows_emit|].
      eapply grows_trans; [eapply Hf; eauto | eapply IHfs; eauto].
Qed.

Lemma reshare_grows s k out out' id :
  reshare s k out = Ok (out', id) -> grows out out' /\ zlen out <= id < zlen out'.
Proof.
  unfold reshare. intros H. inv_bind H. destruct x as [out1 isv]. inv_bind H. inv_bind H. inv_bind H.
  destruct x1 as [out2 zs]. inv_bind H. destruct x1 as [out3 osv].
  assert (G1 : grows out out1) by (eapply mapS_grows; [|exact E]; intros; grows_emit).
  assert (G2 : grows out1 out2) by (eapply get_zero_shares_grows; eauto).
  assert (G3 : grows out2 out3).
  { eapply mapS_grows; [|exact E3]. intros a o o' y _ Hf. inv_bind Hf. inv_bind Hf. inv_bind Hf. destruct x3 as [o1 m].
    eapply grows_trans; [eapply sum_shares_grows; eauto | grows_emit]. }
  destruct (emit_grows _ _ _ _ _ _ H) as (G4 & -> & L).
  pose proof (grows_zlen _ _ G1). pose proof (grows_zlen _ _ G2). pose proof (grows_zlen _ _ G3).
  split; [|lia]. eauto using grows_trans.
Qed.

(* ---------- one source node ---------- *)
Lemma compile_node_static priv resh keys i nd omap out out' nn :
  compile_node priv resh keys i nd omap out = Ok (out', nn) ->
  grows out out' /\ zlen out <= nn < zlen out' /\
  (mem i priv = true -> exists cn, znth out' nn = Ok cn /\ In APrivate (n_annots cn)).
Proof.
  unfold compile_node. intros H. inv_bind H. destruct x as [out1 n1].
  assert (G1 : grows out out1 /\ zlen out <= n1 < zlen out1).
  { clear H. destruct (n_op nd); try discriminate.
    all: try (eapply apply_op_grows; exact E).
    all: try (destruct (emit_grows _ _ _ _ _ _ E) as (G & -> & L); split; [exact G | lia]).
    all: repeat match type of E with bind _ _ = Ok _ => apply bind_ok in E; destruct E as (? & ? & E) end.
    all: try (eapply apply_op_grows; exact E).
    all: try match type of E with (if ?c then _ else _) = _ => destruct c; [destruct keys; [|discriminate]|] end.
    all: match goal with H : emit_gadget _ _ _ = Ok _ |- _ =>
           destruct (emit_gadget_grows _ _ _ _ _ H) as (G & -> & L); split; [exact G | lia] end. }
  destruct G1 as [G1 R1].
  destruct (mem i priv) eqn:Hp.
  - inv_bind H. destruct x as [out2 n2]. inv_bind H. inversion H; subst.
    assert (G2 : grows out1 out2 /\ zlen out <= nn < zlen out2).
    { destruct (mem i resh).
      - destruct keys as [k|]; [|discriminate]. destruct (reshare_grows _ _ _ _ _ E0) as [G2 R2].
        pose proof (grows_zlen _ _ G1). split; [exact G2 | lia].
      - inversion E0; subst. split; [apply grows_refl | lia]. }
    destruct G2 as [G2 R2]. pose proof (add_annotation_grows _ _ _ _ E1) as G3.
    destruct (add_annotation_ext _ _ _ _ E1) as [_ L3].
    split; [eauto using grows_trans|]. split; [lia|]. intros _. eapply add_annotation_has; eauto.
  - inversion H; subst. split; [exact G1|]. split; [exact R1 | discriminate].
Qed.

(* ---------- the loop ---------- *)
Definition increasing (l : list Z) : Prop :=
  forall j j' a b, znth l j = Ok a -> znth l j' = Ok b -> j < j' -> a < b.

Lemma compile_loop_static priv resh keys nodes : forall i omap out out' omap',
  compile_loop priv resh keys nodes i omap out = Ok (out', omap') ->
  i = zlen omap ->
  (forall j k, znth omap j = Ok k -> 0 <= k < zlen out) -> increasing omap ->
  (forall j k, znth omap j = Ok k -> mem j priv = true -> exists cn, znth out k = Ok cn /\ In APrivate (n_annots cn)) ->
  grows out out' /\ zlen omap' = zlen omap + zlen nodes /\
  (forall j k, znth omap' j = Ok k -> 0 <= k < zlen out') /\ increasing omap' /\
  (forall j k, znth omap' j = Ok k -> mem j priv = true -> exists cn, znth out' k = Ok cn /\ In APrivate (n_annots cn)).
Proof.
  induction nodes as [|nd nodes IH]; intros i omap out out' omap' H Hi Hr Hinc Hp; cbn [compile_loop] in H.
  - inversion H; subst. rewrite zlen_nil. split; [apply grows_refl|]. split; [lia|]. auto.
  - inv_bind H. destruct x as [out1 nn].
    destruct (compile_node_static _ _ _ _ _ _ _ _ _ E) as (G1 & R1 & P1).
    pose proof (grows_zlen _ _ G1) as L1.
    destruct (IH (i + 1) (omap ++ [nn]) out1 out' omap' H) as (G2 & L2 & R2 & I2 & P2).
    + rewrite zlen_app, zlen_one. lia.
    + intros j k Hk. pose proof (znth_range _ _ _ Hk) as Hj. rewrite zlen_app, zlen_one in Hj.
      destruct (Z.eq_dec j (zlen omap)) as [->|Hne].
      * rewrite znth_last in Hk. inversion Hk; subst. pose proof (zlen_nonneg out). lia.
      * apply znth_inj_app in Hk; [|lia]. apply Hr in Hk. lia.
    + intros j j' a b Ha Hb Hlt.
      pose proof (znth_range _ _ _ Ha) as Hja. pose proof (znth_range _ _ _ Hb) as Hjb.
      rewrite zlen_app, zlen_one in Hja, Hjb.
      destruct (Z.eq_dec j' (zlen omap)) as [->|Hne].
      * rewrite znth_last in Hb. inversion Hb; subst. apply znth_inj_app in Ha; [|lia]. apply Hr in Ha. lia.
      * apply znth_inj_app in Ha; [|lia]. apply znth_inj_app in Hb; [|lia]. eauto.
    + intros j k Hk Hm. pose proof (znth_range _ _ _ Hk) as Hj. rewrite zlen_app, zlen_one in Hj.
      destruct (Z.eq_dec j (zlen omap)) as [->|Hne].
      * rewrite znth_last in Hk. inversion Hk; subst. apply P1. exact Hm.
      * apply znth_inj_app in Hk; [|lia]. destruct (Hp _ _ Hk Hm) as (cn & Hcn & Ha).
        destruct G1 as [[_ Ex] _]. destruct (Ex _ _ Hcn) as (cn' & Hcn' & (_ & _ & _ & Hincl)). eauto.
    + split; [eauto using grows_trans|]. split.
      * rewrite L2, zlen_app, zlen_one. change (nd :: nodes) with ([nd] ++ nodes). rewrite (zlen_app [nd]), zlen_one. lia.
      * auto.
Qed.

Lemma znth_nil_false {A} k (x : A) : znth [] k = Ok x -> False.
Proof. intros H. apply znth_range in H. unfold zlen in H. cbn in H. lia. Qed.
Lemma wf_nil : wf [].
Proof. intros k nd Hk. destruct (znth_nil_false _ _ Hk). Qed.

(* the structure of the compiled graph, for every program of the mirrored fragment *)
Theorem compile_graph_structure nodes output flags out oo omap :
  compile_graph_map nodes output flags = Ok (out, oo, omap) ->
  exists priv use_mul,
    propagate_private_annotations nodes flags = Ok (priv, use_mul) /\
    wf out /\
    zlen omap = zlen nodes /\
    (forall j k, znth omap j = Ok k -> 0 <= k < zlen out) /\
    increasing omap /\
    (forall j k, znth omap j = Ok k -> mem j priv = true ->
                 exists cn, znth out k = Ok cn /\ In APrivate (n_annots cn)) /\
    znth omap output = Ok oo.
Proof.
  unfold compile_graph_map. intros H. inv_bind H. destruct x as [priv um]. exists priv, um. split; [exact E|].
  inv_bind H. destruct x as [out0 keys]. inv_bind H. inv_bind H. destruct x0 as [out1 omap1]. inv_bind H. inversion H; subst.
  assert (W0 : wf out0).
  { destruct um; cbv iota in E0.
    - apply bind_ok in E0. destruct E0 as ([o k] & Eemit & E0). inversion E0; subst.
      destruct (emit_grows _ _ _ _ _ _ Eemit) as ([_ W] & _ & L). apply W, wf_nil.
    - inversion E0; subst. apply wf_nil. }
  destruct (compile_loop_static _ _ _ _ _ _ _ _ _ E2) as ([_ W] & L & Rg & Inc & Pv).
  - reflexivity.
  - intros j k Hk. destruct (znth_nil_false _ _ Hk).
  - intros j j' a b Ha. destruct (znth_nil_false _ _ Ha).
  - intros j k Hk. destruct (znth_nil_false _ _ Hk).
  - rewrite zlen_nil in L. split; [auto|]. split; [lia|]. auto.
Qed.

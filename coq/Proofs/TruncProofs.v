(* Proofs about Model/Trunc.v (C05). *)
From Coq Require Import Setoid Morphisms.
From CC Require Import Base.Prelude Base.Scalar Model.Trunc.

(* ---------------------------------------------------------------- congruence modulo M as a setoid *)
Definition cong (M a b : Z) : Prop := a mod M = b mod M.
#[global] Instance cong_equiv M : Equivalence (cong M).
Proof. split; unfold cong; congruence. Qed.
#[global] Instance cong_add M : Proper (cong M ==> cong M ==> cong M) Z.add.
Proof. intros a b H c d H'. unfold cong in *. rewrite (Zplus_mod a), (Zplus_mod b). congruence. Qed.
#[global] Instance cong_sub M : Proper (cong M ==> cong M ==> cong M) Z.sub.
Proof. intros a b H c d H'. unfold cong in *. rewrite (Zminus_mod a), (Zminus_mod b). congruence. Qed.
#[global] Instance cong_mul M : Proper (cong M ==> cong M ==> cong M) Z.mul.
Proof. intros a b H c d H'. unfold cong in *. rewrite (Zmult_mod a), (Zmult_mod b). congruence. Qed.
Lemma cong_mod M a : cong M (a mod M) a.
Proof. unfold cong. apply Zmod_mod. Qed.
Lemma cong_intro M a b : cong M a b -> a mod M = b mod M.
Proof. exact (fun H => H). Qed.
Lemma cong_of_eq M a b : a = b -> cong M a b.
Proof. intros ->. reflexivity. Qed.
Global Opaque cong.

(* ---------------------------------------------------------------- powers of two *)
Lemma pow2_pos n : 0 <= n -> 0 < 2 ^ n.
Proof. intros. apply Z.pow_pos_nonneg; lia. Qed.
Lemma pow2_add a b : 0 <= a -> 0 <= b -> 2 ^ (a + b) = 2 ^ a * 2 ^ b.
Proof. intros. apply Z.pow_add_r; lia. Qed.
Lemma pow2_succ n : 0 <= n -> 2 ^ (n + 1) = 2 * 2 ^ n.
Proof. intros. rewrite pow2_add by lia. change (2 ^ 1) with 2. lia. Qed.

(* ---------------------------------------------------------------- AND with the masks of the protocol *)
Lemma land_pow2_range a lo hi : 0 <= lo <= hi ->
  Z.land a (2 ^ hi - 2 ^ lo) = (a mod 2 ^ hi) / 2 ^ lo * 2 ^ lo.
Proof.
  intros Hr.
  assert (Hm : 2 ^ hi - 2 ^ lo = Z.shiftl (Z.ones (hi - lo)) lo).
  { rewrite Z.shiftl_mul_pow2, Z.ones_equiv by lia.
    replace hi with ((hi - lo) + lo) at 1 by lia. rewrite pow2_add by lia. lia. }
  rewrite Hm, <- Z.shiftl_mul_pow2, <- Z.shiftr_div_pow2 by lia.
  apply Z.bits_inj'. intros n Hn.
  rewrite Z.land_spec, !Z.shiftl_spec by lia.
  destruct (Z.lt_ge_cases n lo) as [L|G].
  - rewrite !(Z.testbit_neg_r _ (n - lo)) by lia. apply andb_false_r.
  - rewrite Z.shiftr_spec by lia. replace (n - lo + lo) with n by lia.
    destruct (Z.lt_ge_cases n hi) as [L2|G2].
    + rewrite Z.ones_spec_low by lia. rewrite Z.mod_pow2_bits_low by lia. apply andb_true_r.
    + rewrite Z.ones_spec_high by lia. rewrite Z.mod_pow2_bits_high by lia. apply andb_false_r.
Qed.

Lemma land_low_mask a n : 0 <= n -> Z.land a (2 ^ n - 1) = a mod 2 ^ n.
Proof.
  intros Hn. replace (2 ^ n - 1) with (2 ^ n - 2 ^ 0) by reflexivity.
  rewrite land_pow2_range by lia. change (2 ^ 0) with 1. rewrite Z.div_1_r. lia.
Qed.

Lemma land_top_bit a w : 1 <= w -> Z.land (a mod 2 ^ w) (2 ^ (w - 1)) = (a mod 2 ^ w) / 2 ^ (w - 1) * 2 ^ (w - 1).
Proof.
  intros Hw. replace (2 ^ (w - 1)) with (2 ^ w - 2 ^ (w - 1)) at 1.
  - rewrite land_pow2_range by lia. rewrite Z.mod_mod; [reflexivity|]. pose proof (pow2_pos w); lia.
  - replace w with ((w - 1) + 1) at 1 by lia. rewrite pow2_succ by lia. lia.
Qed.

(* ---------------------------------------------------------------- readings and plaintext truncation *)
Lemma cong_of_mod_eq M a b : a mod M = b mod M -> cong M a b.
Proof. Transparent cong. exact (fun H => H). Qed.
Global Opaque cong.

Lemma sv_mod w sg x : sv w sg (x mod 2 ^ w) = sv w sg x.
Proof. unfold sv. destruct (Z.eq_dec (2 ^ w) 0) as [E|E].
  - rewrite E, !Zmod_0_r. reflexivity.
  - rewrite Z.mod_mod by exact E. reflexivity. Qed.

Lemma sv_unsigned_small w v : 0 <= v < 2 ^ w -> sv w false v = v.
Proof. intros H. unfold sv. cbn [andb]. apply Z.mod_small; exact H. Qed.

Lemma sv_signed_small w v : 1 <= w -> - 2 ^ (w - 1) <= v < 2 ^ (w - 1) -> sv w true v = v.
Proof.
  intros Hw Hv. unfold sv. cbn [andb].
  assert (HM : 2 ^ w = 2 * 2 ^ (w - 1)) by (replace w with ((w - 1) + 1) at 1 by lia; apply pow2_succ; lia).
  pose proof (pow2_pos (w - 1) ltac:(lia)) as HH.
  destruct (Z.lt_ge_cases v 0) as [N|P].
  - assert (E : v mod 2 ^ w = v + 2 ^ w).
    { symmetry. apply Z.mod_unique with (q := -1); lia. }
    rewrite E. destruct (2 ^ (w - 1) <=? v + 2 ^ w) eqn:L; lia.
  - rewrite Z.mod_small by lia. destruct (2 ^ (w - 1) <=? v) eqn:L; lia.
Qed.

Lemma truncate_u_small w s x : 0 <= x < 2 ^ w -> truncate w false s x = x / s.
Proof. intros H. unfold truncate. rewrite Z.mod_small by exact H. reflexivity. Qed.

Lemma truncate_nonneg w sg s x : 1 <= w -> 0 < s -> 0 <= x < 2 ^ (w - 1) -> truncate w sg s x = x / s.
Proof.
  intros Hw Hs Hx.
  assert (HM : 2 ^ w = 2 * 2 ^ (w - 1)) by (replace w with ((w - 1) + 1) at 1 by lia; apply pow2_succ; lia).
  destruct sg; [|apply truncate_u_small; lia].
  unfold truncate. rewrite sv_signed_small by lia. rewrite Z.quot_div_nonneg by lia.
  apply Z.mod_small. split; [apply Z.div_pos; lia|].
  apply Z.le_lt_trans with x; [|lia]. apply Z.div_le_upper_bound; [lia|]. nia.
Qed.

(* ---------------------------------------------------------------- arithmetic core of TruncateMPC2K *)
Lemma div_add_carry P X rl : 0 < P ->
  (X + rl) / P - rl / P = X / P + (if P <=? X mod P + rl mod P then 1 else 0).
Proof.
  intros HP. destruct (P <=? X mod P + rl mod P) eqn:E.
  - nia.
  - nia.
Qed.

Lemma msb_core P Q X r : 0 < P -> 0 < Q -> 0 <= X < P * Q ->
  let H := P * Q in let M := 2 * H in
  let rM := r mod M in let rb := rM / H in let rl := rM mod H in
  let c := (X + r) mod M in let cm := c / H in let ctm := (c / P) mod Q in
  (rb + cm - 2 * rb * cm) * Q + ctm = (X + rl) / P.
Proof.
  intros HP HQ HX H M rM rb rl c cm ctm.
  assert (HH : 0 < H) by (apply Z.mul_pos_pos; assumption).
  assert (HrM : 0 <= rM < M) by (apply Z.mod_pos_bound; lia).
  assert (Hrl : 0 <= rl < H) by (apply Z.mod_pos_bound; lia).
  assert (Hrb : rb = 0 \/ rb = 1).
  { assert (0 <= rb < 2); [|lia]. unfold rb. split; [apply Z.div_pos; lia|apply Z.div_lt_upper_bound; lia]. }
  assert (Hr : rM = rb * H + rl) by (unfold rb, rl; rewrite Z.mul_comm; apply Z.div_mod; lia).
  assert (Hc : c = (X + rl + rb * H) mod M).
  { unfold c. rewrite <- (Zplus_mod_idemp_r r). fold rM. rewrite Hr. f_equal. lia. }
  set (s := X + rl) in *.
  assert (Hs : 0 <= s < 2 * H) by (clear - HX Hrl; unfold s; fold H in HX; lia).
  (* quotient facts about s *)
  assert (HsP : s / P = (s / H) * Q + (s mod H) / P).
  { rewrite (Z.div_mod s H) at 1 by lia.
    replace (H * (s / H) + s mod H) with (s mod H + (s / H * Q) * P) by (unfold H; ring).
    rewrite Z.div_add by lia. ring. }
  assert (HsQ : 0 <= (s mod H) / P < Q).
  { pose proof (Z.mod_pos_bound s H HH). split; [apply Z.div_pos; lia|apply Z.div_lt_upper_bound; lia]. }
  assert (Hsh : s / H = 0 \/ s / H = 1).
  { assert (0 <= s / H < 2); [|lia]. split; [apply Z.div_pos; lia|apply Z.div_lt_upper_bound; lia]. }
  (* c = (s mod H) + ((s/H + rb) mod 2) * H *)
  assert (Hc2 : c = s mod H + ((s / H + rb) mod 2) * H).
  { rewrite Hc. rewrite (Z.div_mod s H) at 1 by lia.
    pose proof (Z.mod_pos_bound s H HH).
    destruct Hsh as [-> | ->], Hrb as [-> | ->]; cbn [Z.add]; change ((0+0) mod 2) with 0; change ((0 + 1) mod 2) with 1;
      change ((1 + 0) mod 2) with 1; change ((1+1) mod 2) with 0.
    all: try (rewrite Z.mod_small; unfold M; lia).
    replace (H * 1 + s mod H + 1 * H) with (s mod H + 1 * M) by (unfold M; lia).
    rewrite Z.mod_add by lia. rewrite Z.mod_small; unfold M; lia. }
  assert (Hb : (s / H + rb) mod 2 = 0 \/ (s / H + rb) mod 2 = 1) by (pose proof (Z.mod_pos_bound (s / H + rb) 2); lia).
  assert (Hcm : cm = (s / H + rb) mod 2).
  { unfold cm. rewrite Hc2. rewrite Z.div_add by lia. rewrite Z.div_small; [lia|apply Z.mod_pos_bound; lia]. }
  assert (Hctm : ctm = (s mod H) / P).
  { unfold ctm. rewrite Hc2. unfold H at 3. rewrite (Z.mul_comm P Q), Z.mul_assoc. rewrite Z.div_add by lia.
    rewrite Z.mod_add by lia. apply Z.mod_small. exact HsQ. }
  rewrite Hcm, Hctm, HsP.
  destruct Hsh as [-> | ->], Hrb as [-> | ->]; cbn [Z.add]; change ((0+0) mod 2) with 0; change ((0 + 1) mod 2) with 1;
      change ((1 + 0) mod 2) with 1; change ((1+1) mod 2) with 0; lia.
Qed.

(* ---------------------------------------------------------------- the model of TruncateMPC2K, simplified *)
Lemma pow2_half w : 1 <= w -> 2 ^ w = 2 * 2 ^ (w - 1).
Proof. intros. replace w with ((w - 1) + 1) at 1 by lia. apply pow2_succ; lia. Qed.

Lemma pow2_split w k : 0 <= k <= w -> 2 ^ w = 2 ^ k * 2 ^ (w - k).
Proof. intros. replace w with (k + (w - k)) at 1 by lia. apply pow2_add; lia. Qed.

Lemma r_msb_eq w r : 1 <= w ->
  truncate w false (2 ^ (w - 1)) (andw w r (2 ^ (w - 1))) = (r mod 2 ^ w) / 2 ^ (w - 1).
Proof.
  intros Hw. unfold andw. rewrite land_top_bit by lia.
  pose proof (pow2_pos w ltac:(lia)) as HM. pose proof (pow2_pos (w - 1) ltac:(lia)) as HH.
  pose proof (Z.mod_pos_bound r (2 ^ w) HM) as Hr.
  set (rM := r mod 2 ^ w) in *.
  assert (Hq : 0 <= rM / 2 ^ (w - 1)) by (apply Z.div_pos; lia).
  assert (Hle : rM / 2 ^ (w - 1) * 2 ^ (w - 1) <= rM) by (rewrite Z.mul_comm; apply Z.mul_div_le; lia).
  rewrite truncate_u_small by nia. apply Z.div_mul; lia.
Qed.

Lemma r_trunc_eq w sg k r : 1 <= k <= w - 1 ->
  truncate w sg (2 ^ k) (andw w r (2 ^ (w - 1) - 2 ^ k)) = ((r mod 2 ^ w) mod 2 ^ (w - 1)) / 2 ^ k.
Proof.
  intros Hk. unfold andw. rewrite land_pow2_range by lia.
  pose proof (pow2_pos k ltac:(lia)) as HP. pose proof (pow2_pos (w - 1) ltac:(lia)) as HH.
  pose proof (Z.mod_pos_bound (r mod 2 ^ w) (2 ^ (w - 1)) HH) as Hr.
  set (rl := (r mod 2 ^ w) mod 2 ^ (w - 1)) in *.
  assert (Hq : 0 <= rl / 2 ^ k) by (apply Z.div_pos; lia).
  assert (Hle : rl / 2 ^ k * 2 ^ k <= rl) by (rewrite Z.mul_comm; apply Z.mul_div_le; lia).
  rewrite truncate_nonneg by nia. apply Z.div_mul; lia.
Qed.

Lemma c_tm_eq w k c : 1 <= k <= w - 1 -> 0 <= c < 2 ^ w ->
  andw w (truncate w false (2 ^ k) c) (2 ^ (w - 1 - k) - 1) = (c / 2 ^ k) mod 2 ^ (w - 1 - k).
Proof.
  intros Hk Hc. rewrite truncate_u_small by exact Hc. unfold andw. rewrite land_low_mask by lia.
  pose proof (pow2_pos k ltac:(lia)) as HP.
  rewrite (Z.mod_small (c / 2 ^ k)); [reflexivity|].
  split; [apply Z.div_pos; lia|]. apply Z.le_lt_trans with c; [|lia].
  apply Z.div_le_upper_bound; [lia|]. nia.
Qed.

Definition shift4 (w : Z) (sg : bool) : Z := if sg then 2 ^ (w - 2) else 0.
Definition shiftk (w : Z) (sg : bool) (k : Z) : Z := if sg then 2 ^ (w - 2 - k) else 0.

Lemma trunc2k_reveal_eq w sg k x0 x1 x2 r r0 rm0 rt0 y0 y2 :
  trunc2k_admissible w sg k ->
  let M := 2 ^ w in let H := 2 ^ (w - 1) in let P := 2 ^ k in let Q := 2 ^ (w - 1 - k) in
  let c := (x0 + x1 + x2 + shift4 w sg + r) mod M in
  let rb := (r mod M) / H in let rtr := ((r mod M) mod H) / P in
  let cm := c / H in let ctm := (c / P) mod Q in
  reveal w (trunc2k w sg k (x0, x1, x2) (r, r0, rm0, rt0, y0, y2))
  = ((rb + cm - 2 * rb * cm) * Q - rtr + ctm - shiftk w sg k) mod M.
Proof.
  intros Hadm.
  assert (Hk : 1 <= k <= w - 1) by (unfold trunc2k_admissible in Hadm; destruct sg; lia).
  assert (HM : 0 < 2 ^ w) by (apply pow2_pos; lia).
  assert (Hw1 : 1 <= w) by lia.
  assert (Hwk : 0 <= w - 1 - k) by lia.
  intros M H P Q c rb rtr cm ctm.
  assert (Hc : addw w (addw w (addw w (if sg then addw w x0 (2 ^ (w - 2)) else x0) x1) r0) (addw w x2 (subw w r r0)) = c).
  { unfold c, shift4, addw, subw. fold M. apply cong_intro. destruct sg; (rewrite_strat (topdown cong_mod)); apply cong_of_eq; ring. }
  assert (Hcr : 0 <= c < 2 ^ w) by (apply Z.mod_pos_bound; exact HM).
  cbv beta iota zeta delta [trunc2k trunc2k_full snd reveal].
  rewrite Hc. rewrite r_msb_eq by exact Hw1. rewrite r_trunc_eq by exact Hk. rewrite c_tm_eq by assumption.
  rewrite truncate_u_small by exact Hcr.
  fold M H P Q. fold rb rtr cm ctm.
  unfold shiftk, addw, subw, mulw. fold M. fold Q.
  clear Hc Hcr. clearbody ctm cm rtr rb c Q P H M.
  apply cong_intro. destruct sg; (rewrite_strat (topdown cong_mod)); apply cong_of_eq; ring.
Qed.

Lemma mod_mod_mul a P Q : 0 < P -> 0 < Q -> (a mod (P * Q)) mod P = a mod P.
Proof.
  intros HP HQ. rewrite Z.rem_mul_r by lia. rewrite (Z.mul_comm P), Z.mod_add by lia. apply Z.mod_mod; lia.
Qed.

Lemma trunc2k_arith (sg : bool) P Q F x r : 0 < P -> 0 < Q ->
  (if sg then Q = 2 * F /\ 0 < F /\ - (P * F) <= x < P * F else F = 0 /\ 0 <= x < P * Q) ->
  let H := P * Q in let M := 2 * H in
  let c := (x + P * F + r) mod M in
  let rb := (r mod M) / H in let rtr := ((r mod M) mod H) / P in
  let cm := c / H in let ctm := (c / P) mod Q in
  let v := (rb + cm - 2 * rb * cm) * Q - rtr + ctm - F in
  v = x / P + (if P <=? x mod P + r mod P then 1 else 0) /\
  (if sg then - F <= v <= F else 0 <= v <= Q).
Proof.
  intros HP HQ Hx.
  assert (HX : 0 <= x + P * F < P * Q) by (destruct sg; nia).
  assert (Hq : if sg then - F <= x / P < F else 0 <= x / P < Q).
  { destruct sg.
    - destruct Hx as (_ & HF & Hx). split.
      + apply Z.div_le_lower_bound; lia.
      + apply Z.div_lt_upper_bound; lia.
    - destruct Hx as (_ & Hx). split; [apply Z.div_pos; lia|apply Z.div_lt_upper_bound; lia]. }
  assert (HH : 0 < P * Q) by (apply Z.mul_pos_pos; assumption).
  assert (Hrl : ((r mod (2 * (P * Q))) mod (P * Q)) mod P = r mod P).
  { rewrite (Z.mul_comm 2), (mod_mod_mul r (P * Q) 2) by (assumption || reflexivity). apply mod_mod_mul; assumption. }
  assert (HXP : (x + P * F) / P = x / P + F).
  { rewrite (Z.mul_comm P), Z.div_add; [reflexivity|]. clear - HP; lia. }
  assert (HXm : (x + P * F) mod P = x mod P).
  { rewrite (Z.mul_comm P), Z.mod_add; [reflexivity|]. clear - HP; lia. }
  pose proof (msb_core P Q (x + P * F) r HP HQ HX) as Hcore. cbv zeta in Hcore.
  pose proof (div_add_carry P (x + P * F) ((r mod (2 * (P * Q))) mod (P * Q)) HP) as Hcarry.
  rewrite Hrl, HXP, HXm in Hcarry.
  intros H M c rb rtr cm ctm v.
  assert (Hv : v = x / P + (if P <=? x mod P + r mod P then 1 else 0)).
  { unfold v, ctm, cm, rtr, rb, c, M, H.
    clear - Hcore Hcarry.
    set (A := (r mod (2 * (P * Q)) / (P * Q) + (x + P * F + r) mod (2 * (P * Q)) / (P * Q) -
      2 * (r mod (2 * (P * Q)) / (P * Q)) * ((x + P * F + r) mod (2 * (P * Q)) / (P * Q))) * Q) in *.
    set (B := ((x + P * F + r) mod (2 * (P * Q)) / P) mod Q) in *.
    set (C := (x + P * F + (r mod (2 * (P * Q))) mod (P * Q)) / P) in *.
    set (D := (r mod (2 * (P * Q))) mod (P * Q) / P) in *.
    set (E := if P <=? x mod P + r mod P then 1 else 0) in *.
    set (G := x / P) in *.
    clearbody A B C D E G. lia. }
  split; [exact Hv|].
  rewrite Hv. clear - Hq.
  set (G := x / P) in *. clearbody G.
  destruct (P <=? x mod P + r mod P); destruct sg; lia.
Qed.

(* ---------------------------------------------------------------- TruncateMPC2K: value of the revealed result *)
Lemma pow2_quarter w : 2 <= w -> 2 ^ w / 4 = 2 ^ (w - 2).
Proof.
  intros. rewrite (pow2_split w 2) by lia. change (2 ^ 2) with 4.
  rewrite Z.mul_comm, Z.div_mul by lia. reflexivity.
Qed.
Lemma pow2_halfdiv w : 1 <= w -> 2 ^ w / 2 = 2 ^ (w - 1).
Proof.
  intros. rewrite (pow2_split w 1) by lia. change (2 ^ 1) with 2.
  rewrite Z.mul_comm, Z.div_mul by lia. reflexivity.
Qed.

Theorem trunc2k_value w sg k x0 x1 x2 m x :
  trunc2k_admissible w sg k -> in_range2k w sg x ->
  (x0 + x1 + x2) mod 2 ^ w = x mod 2 ^ w ->
  sv w sg (reveal w (trunc2k w sg k (x0, x1, x2) m)) = x / 2 ^ k + carry2k k x (mask_r m).
Proof.
  intros Hadm Hx Hs. destruct m as [[[[[r r0] rm0] rt0] y0] y2]. cbn [mask_r].
  rewrite trunc2k_reveal_eq by exact Hadm. cbv zeta.
  assert (Hk : 1 <= k <= w - 1) by (unfold trunc2k_admissible in Hadm; destruct sg; lia).
  assert (Hks : sg = true -> k <= w - 2) by (unfold trunc2k_admissible in Hadm; destruct sg; [lia|discriminate]).
  pose proof (pow2_pos k ltac:(lia)) as HP. pose proof (pow2_pos (w - 1 - k) ltac:(lia)) as HQ.
  assert (EH : 2 ^ (w - 1) = 2 ^ k * 2 ^ (w - 1 - k)) by (apply pow2_split; lia).
  assert (EM : 2 ^ w = 2 * (2 ^ k * 2 ^ (w - 1 - k))) by (rewrite <- EH; apply pow2_half; lia).
  assert (E4 : shift4 w sg = 2 ^ k * shiftk w sg k).
  { unfold shift4, shiftk. destruct sg; [|lia]. specialize (Hks eq_refl).
    replace (w - 2 - k) with ((w - 2) - k) by lia. apply pow2_split; lia. }
  assert (Hr : if sg then 2 ^ (w - 1 - k) = 2 * shiftk w sg k /\ 0 < shiftk w sg k /\
                         - (2 ^ k * shiftk w sg k) <= x < 2 ^ k * shiftk w sg k
               else shiftk w sg k = 0 /\ 0 <= x < 2 ^ k * 2 ^ (w - 1 - k)).
  { unfold in_range2k in Hx. destruct sg.
    - specialize (Hks eq_refl). rewrite <- E4. unfold shift4, shiftk.
      rewrite pow2_quarter in Hx by lia. split; [|split; [apply pow2_pos; lia|exact Hx]].
      replace (w - 1 - k) with ((w - 2 - k) + 1) by lia. apply pow2_succ; lia.
    - rewrite pow2_halfdiv in Hx by lia. rewrite <- EH. split; [reflexivity|exact Hx]. }
  (* c depends on the shares only through x *)
  assert (Hc : (x0 + x1 + x2 + shift4 w sg + r) mod 2 ^ w = (x + 2 ^ k * shiftk w sg k + r) mod 2 ^ w).
  { rewrite <- E4. apply cong_intro. apply cong_of_mod_eq in Hs. rewrite Hs. reflexivity. }
  rewrite Hc. clear Hc Hs.
  rewrite EH, EM.
  pose proof (trunc2k_arith sg (2 ^ k) (2 ^ (w - 1 - k)) (shiftk w sg k) x r HP HQ Hr) as [Hv Hb].
  cbv zeta in Hv, Hb. unfold carry2k. rewrite <- Hv.
  set (v := _ - shiftk w sg k) in *. clearbody v.
  rewrite <- EM. rewrite sv_mod.
  clear Hv Hr E4. destruct sg.
  - apply sv_signed_small; [lia|]. specialize (Hks eq_refl).
    assert (2 * shiftk w true k <= 2 ^ (w - 1)); [|lia].
    unfold shiftk. replace (w - 1) with ((w - 2 - k) + (k + 1)) by lia. rewrite pow2_add by lia.
    pose proof (pow2_pos (w - 2 - k) ltac:(lia)). rewrite pow2_succ by lia. nia.
  - apply sv_unsigned_small. rewrite EM. nia.
Qed.

(* ---------------------------------------------------------------- TruncateMPC (general divisor) *)
Lemma sv_signed_range w x : 1 <= w -> - 2 ^ (w - 1) <= sv w true x < 2 ^ (w - 1).
Proof.
  intros Hw. unfold sv. cbn [andb]. pose proof (pow2_half w Hw) as HM.
  pose proof (pow2_pos (w - 1) ltac:(lia)) as HH.
  assert (Hr : 0 <= x mod 2 ^ w < 2 ^ w) by (apply Z.mod_pos_bound; lia).
  set (y := x mod 2 ^ w) in *. clearbody y.
  destruct (2 ^ (w - 1) <=? y) eqn:E; lia.
Qed.

Lemma sv_signed_cong w x : cong (2 ^ w) (sv w true x) x.
Proof.
  unfold sv. cbn [andb]. destruct (2 ^ (w - 1) <=? x mod 2 ^ w).
  - apply cong_of_mod_eq. rewrite Zminus_mod, Z_mod_same_full, Z.sub_0_r, !Zmod_mod. reflexivity.
  - apply cong_mod.
Qed.

Lemma quot_cases a s : 0 < s -> (0 <= a /\ Z.quot a s = a / s) \/ (a < 0 /\ Z.quot a s = - ((- a) / s)).
Proof.
  intros Hs. destruct (Z.lt_ge_cases a 0) as [N|P].
  - right. split; [exact N|]. rewrite <- (Z.opp_involutive a) at 1. rewrite Z.quot_opp_l by lia.
    rewrite Z.quot_div_nonneg by lia. reflexivity.
  - left. split; [exact P|]. apply Z.quot_div_nonneg; lia.
Qed.

Lemma quot_sum_bound a b s : 1 < s ->
  Z.abs (Z.quot a s + Z.quot b s - Z.quot (a + b) s) <= 1.
Proof.
  intros Hs.
  destruct (quot_cases a s ltac:(lia)) as [[Ha ->]|[Ha ->]];
  destruct (quot_cases b s ltac:(lia)) as [[Hb ->]|[Hb ->]];
  destruct (quot_cases (a + b) s ltac:(lia)) as [[Hab ->]|[Hab ->]]; try lia.
  all: nia.
Qed.

Lemma quot_abs_le a s : 0 < s -> Z.abs (Z.quot a s) <= Z.abs a.
Proof.
  intros Hs. destruct (quot_cases a s Hs) as [[Ha ->]|[Ha ->]].
  - assert (0 <= a / s <= a); [|lia]. split; [apply Z.div_pos; lia|].
    apply Z.div_le_upper_bound; [lia|]. nia.
  - assert (0 <= (- a) / s <= - a); [|lia]. split; [apply Z.div_pos; lia|].
    apply Z.div_le_upper_bound; [lia|]. nia.
Qed.

Lemma quot_half a s : 1 < s -> 2 * Z.abs (Z.quot a s) <= Z.abs a.
Proof.
  intros Hs. destruct (quot_cases a s ltac:(lia)) as [[Ha ->]|[Ha ->]].
  - assert (0 <= a / s /\ 2 * (a / s) <= a); [|lia]. split; [apply Z.div_pos; lia|]. nia.
  - assert (0 <= (- a) / s /\ 2 * ((- a) / s) <= - a); [|lia]. split; [apply Z.div_pos; lia|]. nia.
Qed.

(* TruncateMPC: the revealed result is the sum of the two share-wise quotients *)
Lemma truncmpc_reveal_eq w scale x0 x1 x2 r :
  reveal w (truncmpc w scale (x0, x1, x2) r)
  = (Z.quot (sv w true x0) scale + Z.quot (sv w true (x1 + x2)) scale) mod 2 ^ w.
Proof.
  unfold truncmpc, reveal, truncate, addw, subw. rewrite sv_mod.
  set (A := Z.quot (sv w true x0) scale). set (B := Z.quot (sv w true (x1 + x2)) scale).
  clearbody A B. apply cong_intro. rewrite_strat (topdown cong_mod). apply cong_of_eq. ring.
Qed.

(* the documented wrap-around event of TruncateMPC (mpc_truncate.rs:18-25): the signed readings of the
   two addends that are truncated separately do not add up to the signed reading of the input *)
Theorem truncmpc_value_bound w scale x0 x1 x2 r x :
  1 <= w -> 1 < scale ->
  sv w true x0 + sv w true (x1 + x2) = sv w true x ->
  Z.abs (sv w true (reveal w (truncmpc w scale (x0, x1, x2) r)) - Z.quot (sv w true x) scale) <= 1.
Proof.
  intros Hw Hs Hnw. rewrite truncmpc_reveal_eq, sv_mod.
  pose proof (sv_signed_range w x0 Hw) as Ra. pose proof (sv_signed_range w (x1 + x2) Hw) as Rb.
  pose proof (sv_signed_range w x Hw) as Rx.
  pose proof (quot_sum_bound (sv w true x0) (sv w true (x1 + x2)) scale Hs) as Hq. rewrite Hnw in Hq.
  pose proof (quot_half (sv w true x0) scale Hs) as Ha.
  pose proof (quot_half (sv w true (x1 + x2)) scale Hs) as Hb.
  set (a := sv w true x0) in *. set (b := sv w true (x1 + x2)) in *. set (X := sv w true x) in *.
  set (qa := Z.quot a scale) in *. set (qb := Z.quot b scale) in *. set (qx := Z.quot X scale) in *.
  pose proof (pow2_pos (w - 1) ltac:(lia)) as HH.
  rewrite sv_signed_small; [exact Hq|exact Hw|].
  clearbody qa qb qx a b X. set (H := 2 ^ (w - 1)) in *. clearbody H. lia.
Qed.

(* characterisation of the wrap-around event in terms of the first share *)
Theorem truncmpc_wrap_iff w x0 x1 x2 x :
  1 <= w -> (x0 + x1 + x2) mod 2 ^ w = x mod 2 ^ w ->
  let a := sv w true x0 in let X := sv w true x in
  a + sv w true (x1 + x2) <> X <->
  (0 <= X /\ a <= X - 2 ^ (w - 1)) \/ (X < 0 /\ X + 2 ^ (w - 1) < a).
Proof.
  intros Hw Hs a X.
  pose proof (sv_signed_range w x0 Hw) as Ra. pose proof (sv_signed_range w x Hw) as Rx.
  pose proof (sv_signed_range w (x1 + x2) Hw) as Rb.
  fold a in Ra. fold X in Rx.
  (* b = X - a + j * 2^w for some integer j *)
  assert (Hb : cong (2 ^ w) (sv w true (x1 + x2)) (X - a)).
  { unfold X, a. rewrite !sv_signed_cong. apply cong_of_mod_eq in Hs. rewrite <- Hs. apply cong_of_eq. ring. }
  apply cong_intro in Hb.
  pose proof (pow2_half w Hw) as HM. pose proof (pow2_pos (w - 1) ltac:(lia)) as HH.
  set (b := sv w true (x1 + x2)) in *. clearbody b a X. set (H := 2 ^ (w - 1)) in *. clearbody H.
  rewrite HM in Hb.
  assert (Hj : exists j, b = X - a + j * (2 * H)).
  { exists ((b - (X - a)) / (2 * H)).
    assert (E : (b - (X - a)) mod (2 * H) = 0).
    { rewrite Zminus_mod, Hb, Z.sub_diag. apply Z.mod_0_l. clear - HH; lia. }
    assert (H2 : 2 * H <> 0) by (clear - HH; lia).
    pose proof (Z.div_mod (b - (X - a)) (2 * H) H2) as D. rewrite E in D. clear - D.
    set (q := (b - (X - a)) / (2 * H)) in *. clearbody q. lia. }
  destruct Hj as [j Hj]. clear Hb.
  assert (Hj3 : j = -1 \/ j = 0 \/ j = 1) by nia.
  destruct Hj3 as [-> | [-> | ->]]; split; intros Hcase; lia.
Qed.

Lemma nodup_interval_length (l : list Z) lo n :
  0 <= n -> NoDup l -> (forall z, In z l -> lo <= z < lo + n) -> Z.of_nat (length l) <= n.
Proof.
  intros Hn Hnd Hin.
  set (l' := map (fun i => lo + Z.of_nat i) (seq 0 (Z.to_nat n))).
  assert (Hincl : incl l l').
  { intros z Hz. specialize (Hin z Hz). unfold l'. apply in_map_iff.
    exists (Z.to_nat (z - lo)). split; [lia|]. apply in_seq. lia. }
  pose proof (NoDup_incl_length Hnd Hincl) as Hlen.
  unfold l' in Hlen. rewrite map_length, seq_length in Hlen. lia.
Qed.

(* at most |x|+1 of the 2^w possible first shares produce the wrap-around: with a uniformly random
   first share its probability is at most (|x|+1)/2^w < 2^(l-w) for |x| < 2^l (mpc_truncate.rs:21-25) *)
Theorem truncmpc_wrap_count w x (l : list Z) :
  1 <= w -> NoDup l ->
  (forall x0, In x0 l -> 0 <= x0 < 2 ^ w /\
     sv w true x0 + sv w true (x - x0) <> sv w true x) ->
  Z.of_nat (length l) <= Z.abs (sv w true x) + 1.
Proof.
  intros Hw Hnd Hl.
  pose proof (pow2_half w Hw) as HM. pose proof (pow2_pos (w - 1) ltac:(lia)) as HH.
  pose proof (sv_signed_range w x Hw) as Rx.
  set (X := sv w true x) in *.
  apply nodup_interval_length with (lo := if 0 <=? X then 2 ^ (w - 1) else X + 2 ^ (w - 1) + 1); [lia|exact Hnd|].
  intros x0 Hin. destruct (Hl x0 Hin) as [Hr Hwrap].
  assert (Hsh : (x0 + 0 + (x - x0)) mod 2 ^ w = x mod 2 ^ w) by (f_equal; ring).
  pose proof (truncmpc_wrap_iff w x0 0 (x - x0) x Hw Hsh) as Hiff. cbv zeta in Hiff.
  replace (0 + (x - x0)) with (x - x0) in Hiff by ring. fold X in Hiff.
  apply Hiff in Hwrap. clear Hiff Hl Hsh.
  (* sv x0 in terms of x0 *)
  assert (Ha : sv w true x0 = if 2 ^ (w - 1) <=? x0 then x0 - 2 ^ w else x0).
  { unfold sv. cbn [andb]. rewrite Z.mod_small by exact Hr. reflexivity. }
  rewrite Ha in Hwrap. clear Ha. clearbody X. set (H := 2 ^ (w - 1)) in *. clearbody H.
  rewrite HM in *. destruct (H <=? x0) eqn:E1; destruct (0 <=? X) eqn:E2; lia.
Qed.

(* ---------------------------------------------------------------- plaintext / public truncation *)
(* plaintext Truncate is exact division: round toward zero on the signed reading, floor unsigned *)
Lemma truncate_exact w sg scale x : 1 <= w -> 0 < scale ->
  sv w sg (truncate w sg scale x) = if sg then Z.quot (sv w true x) scale else (x mod 2 ^ w) / scale.
Proof.
  intros Hw Hs. pose proof (pow2_pos w ltac:(lia)) as HM. unfold truncate. destruct sg.
  - rewrite sv_mod. apply sv_signed_small; [exact Hw|].
    pose proof (sv_signed_range w x Hw) as R. pose proof (quot_abs_le (sv w true x) scale Hs) as Q.
    destruct (quot_cases (sv w true x) scale Hs) as [[Ha E]|[Ha E]]; rewrite E in *.
    + assert (0 <= sv w true x / scale) by (apply Z.div_pos; lia). lia.
    + assert (0 <= (- sv w true x) / scale) by (apply Z.div_pos; lia). lia.
  - apply sv_unsigned_small. pose proof (Z.mod_pos_bound x (2 ^ w) HM) as R.
    split; [apply Z.div_pos; lia|]. apply Z.le_lt_trans with (x mod 2 ^ w); [|lia].
    apply Z.div_le_upper_bound; [lia|]. nia.
Qed.

Theorem trunc_public_exact w sg scale x y : 1 <= w -> 0 < scale ->
  trunc_public w sg scale x = Ok y ->
  sv w sg y = if sg then Z.quot (sv w true x) scale else (x mod 2 ^ w) / scale.
Proof.
  intros Hw Hs. unfold trunc_public. destruct (is_power_of_two scale) eqn:Ep.
  - unfold is_power_of_two in Ep. apply andb_true_iff in Ep as [_ Ep]. apply Z.eqb_eq in Ep.
    intros [= <-]. destruct (Z.log2 scale =? 0) eqn:E0.
    + apply Z.eqb_eq in E0. rewrite E0 in Ep. change (2 ^ 0) with 1 in Ep. subst scale.
      rewrite sv_mod. destruct sg; [rewrite Z.quot_1_r; reflexivity|].
      rewrite Z.div_1_r. reflexivity.
    + rewrite <- Ep. apply truncate_exact; assumption.
  - destruct sg; cbn [negb]; [|discriminate]. intros [= <-]. exact (truncate_exact w true scale x Hw Hs).
Qed.

(* the only rejected public case: an unsigned type with a divisor that is not a power of two *)
Theorem trunc_public_err_iff w sg scale x :
  trunc_public w sg scale x = Err <-> is_power_of_two scale = false /\ sg = false.
Proof.
  unfold trunc_public. destruct (is_power_of_two scale), sg; cbn [negb]; split; intros H;
    try discriminate; try (destruct H; discriminate); auto.
Qed.

(* ---------------------------------------------------------------- corollaries in the form of the property *)
Corollary trunc2k_bound w sg k x0 x1 x2 m x :
  trunc2k_admissible w sg k -> in_range2k w sg x ->
  (x0 + x1 + x2) mod 2 ^ w = x mod 2 ^ w ->
  let d := sv w sg (reveal w (trunc2k w sg k (x0, x1, x2) m)) - x / 2 ^ k in
  d = 0 \/ d = 1.
Proof.
  intros Ha Hx Hs d. unfold d. rewrite (trunc2k_value w sg k x0 x1 x2 m x Ha Hx Hs).
  unfold carry2k. destruct (2 ^ k <=? _); [right|left]; ring.
Qed.

Corollary trunc2k_exact_iff w sg k x0 x1 x2 m x :
  trunc2k_admissible w sg k -> in_range2k w sg x ->
  (x0 + x1 + x2) mod 2 ^ w = x mod 2 ^ w ->
  let y := sv w sg (reveal w (trunc2k w sg k (x0, x1, x2) m)) in
  (y = x / 2 ^ k <-> x mod 2 ^ k + mask_r m mod 2 ^ k < 2 ^ k) /\
  (y = x / 2 ^ k + 1 <-> 2 ^ k <= x mod 2 ^ k + mask_r m mod 2 ^ k).
Proof.
  intros Ha Hx Hs y. unfold y. rewrite (trunc2k_value w sg k x0 x1 x2 m x Ha Hx Hs).
  unfold carry2k. set (q := x / 2 ^ k). set (t := x mod 2 ^ k + mask_r m mod 2 ^ k). set (P := 2 ^ k).
  clearbody q t P. destruct (P <=? t) eqn:E; lia.
Qed.

(* the width-indexed reading agrees with Base.Scalar.sval on every scalar type *)
Lemma sv_sval st x : sv (width st) (signed st) x = sval st x.
Proof. reflexivity. Qed.

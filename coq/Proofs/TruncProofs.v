(* Proofs about Model/Trunc.v (C05). *)
From Coq Require Import Setoid Morphisms.
From CC Require Import Base.Prelude Base.Scalar Model.Trunc.

(* ---------------------------------------------------------------- congruence modulo M as a setoid *)
Definition cong (M a b : Z) : Prop := a mod M = b mod M.
#[global] Instance cong_equiv M : Equivalence (cong M).
Proof. split; unfold cong; congruence. Qed.
#[global] Instance cong_add M : Proper (cong M ==> cong M ==> cong M) Z.add.
Proof. intros a b H c d H'. unfold cong in *. rewrite (Zplus_mod a), (Zplus_mod b). congruence. Qed.
#[global] Instance cong_sub M : Proper (cong M ==> cong M ==> cong M) Z.sub.
Proof. intros a b H c d H'. unfold cong in *. rewrite (Zminus_mod a), (Zminus_mod b). congruence. Qed.
#[global] Instance cong_mul M : Proper (cong M ==> cong M ==> cong M) Z.mul.
Proof. intros a b H c d H'. unfold cong in *. rewrite (Zmult_mod a), (Zmult_mod b). congruence. Qed.
Lemma cong_mod M a : cong M (a mod M) a.
Proof. unfold cong. apply Zmod_mod. Qed.
Lemma cong_intro M a b : cong M a b -> a mod M = b mod M.
Proof. exact (fun H => H). Qed.
Lemma cong_of_eq M a b : a = b -> cong M a b.
Proof. intros ->. reflexivity. Qed.
Global Opaque cong.

(* ---------------------------------------------------------------- powers of two *)
Lemma pow2_pos n : 0 <= n -> 0 < 2 ^ n.
Proof. intros. apply Z.pow_pos_nonneg; lia. Qed.
Lemma pow2_add a b : 0 <= a -> 0 <= b -> 2 ^ (a + b) = 2 ^ a * 2 ^ b.
Proof. intros. apply Z.pow_add_r; lia. Qed.
Lemma pow2_succ n : 0 <= n -> 2 ^ (n + 1) = 2 * 2 ^ n.
Proof. intros. rewrite pow2_add by lia. change (2 ^ 1) with 2. lia. Qed.

(* ---------------------------------------------------------------- AND with the masks of the protocol *)
Lemma land_pow2_range a lo hi : 0 <= lo <= hi ->
  Z.land a (2 ^ hi - 2 ^ lo) = (a mod 2 ^ hi) / 2 ^ lo * 2 ^ lo.
Proof.
  intros Hr.
  assert (Hm : 2 ^ hi - 2 ^ lo = Z.shiftl (Z.ones (hi - lo)) lo).
  { rewrite Z.shiftl_mul_pow2, Z.ones_equiv by lia.
    replace hi with ((hi - lo) + lo) at 1 by lia. rewrite pow2_add by lia. lia. }
  rewrite Hm, <- Z.shiftl_mul_pow2, <- Z.shiftr_div_pow2 by lia.
  apply Z.bits_inj'. intros n Hn.
  rewrite Z.land_spec, !Z.shiftl_spec by lia.
  destruct (Z.lt_ge_cases n lo) as [L|G].
  - rewrite !(Z.testbit_neg_r _ (n - lo)) by lia. apply andb_false_r.
  - rewrite Z.shiftr_spec by lia. replace (n - lo + lo) with n by lia.
    destruct (Z.lt_ge_cases n hi) as [L2|G2].
    + rewrite Z.ones_spec_low by lia. rewrite Z.mod_pow2_bits_low by lia. apply andb_true_r.
    + rewrite Z.ones_spec_high by lia. rewrite Z.mod_pow2_bits_high by lia. apply andb_false_r.
Qed.

Lemma land_low_mask a n : 0 <= n -> Z.land a (2 ^ n - 1) = a mod 2 ^ n.
Proof.
  intros Hn. replace (2 ^ n - 1) with (2 ^ n - 2 ^ 0) by reflexivity.
  rewrite land_pow2_range by lia. change (2 ^ 0) with 1. rewrite Z.div_1_r. lia.
Qed.

Lemma land_top_bit a w : 1 <= w -> Z.land (a mod 2 ^ w) (2 ^ (w - 1)) = (a mod 2 ^ w) / 2 ^ (w - 1) * 2 ^ (w - 1).
Proof.
  intros Hw. replace (2 ^ (w - 1)) with (2 ^ w - 2 ^ (w - 1)) at 1.
  - rewrite land_pow2_range by lia. rewrite Z.mod_mod; [reflexivity|]. pose proof (pow2_pos w); lia.
  - replace w with ((w - 1) + 1) at 1 by lia. rewrite pow2_succ by lia. lia.
Qed.

(* ---------------------------------------------------------------- readings and plaintext truncation *)
Lemma cong_of_mod_eq M a b : a mod M = b mod M -> cong M a b.
Proof. Transparent cong. exact (fun H => H). Qed.
Global Opaque cong.

Lemma sv_mod w sg x : sv w sg (x mod 2 ^ w) = sv w sg x.
Proof. unfold sv. destruct (Z.eq_dec (2 ^ w) 0) as [E|E].
  - rewrite E, !Zmod_0_r. reflexivity.
  - rewrite Z.mod_mod by exact E. reflexivity. Qed.

Lemma sv_unsigned_small w v : 0 <= v < 2 ^ w -> sv w false v = v.
Proof. intros H. unfold sv. cbn [andb]. apply Z.mod_small; exact H. Qed.

Lemma sv_signed_small w v : 1 <= w -> - 2 ^ (w - 1) <= v < 2 ^ (w - 1) -> sv w true v = v.
Proof.
  intros Hw Hv. unfold sv. cbn [andb].
  assert (HM : 2 ^ w = 2 * 2 ^ (w - 1)) by (replace w with ((w - 1) + 1) at 1 by lia; apply pow2_succ; lia).
  pose proof (pow2_pos (w - 1) ltac:(lia)) as HH.
  destruct (Z.lt_ge_cases v 0) as [N|P].
  - assert (E : v mod 2 ^ w = v + 2 ^ w).
    { symmetry. apply Z.mod_unique with (q := -1); lia. }
    rewrite E. destruct (2 ^ (w - 1) <=? v + 2 ^ w) eqn:L; lia.
  - rewrite Z.mod_small by lia. destruct (2 ^ (w - 1) <=? v) eqn:L; lia.
Qed.

Lemma truncate_u_small w s x : 0 <= x < 2 ^ w -> truncate w false s x = x / s.
Proof. intros H. unfold truncate. rewrite Z.mod_small by exact H. reflexivity. Qed.

Lemma truncate_nonneg w sg s x : 1 <= w -> 0 < s -> 0 <= x < 2 ^ (w - 1) -> truncate w sg s x = x / s.
Proof.
  intros Hw Hs Hx.
  assert (HM : 2 ^ w = 2 * 2 ^ (w - 1)) by (replace w with ((w - 1) + 1) at 1 by lia; apply pow2_succ; lia).
  destruct sg; [|apply truncate_u_small; lia].
  unfold truncate. rewrite sv_signed_small by lia. rewrite Z.quot_div_nonneg by lia.
  apply Z.mod_small. split; [apply Z.div_pos; lia|].
  apply Z.le_lt_trans with x; [|lia]. apply Z.div_le_upper_bound; [lia|]. nia.
Qed.

(* ---------------------------------------------------------------- arithmetic core of TruncateMPC2K *)
Lemma div_add_carry P X rl : 0 < P ->
  (X + rl) / P - rl / P = X / P + (if P <=? X mod P + rl mod P then 1 else 0).
Proof.
  intros HP. destruct (P <=? X mod P + rl mod P) eqn:E.
  - nia.
  - nia.
Qed.

Lemma msb_core P Q X r : 0 < P -> 0 < Q -> 0 <= X < P * Q ->
  let H := P * Q in let M := 2 * H in
  let rM := r mod M in let rb := rM / H in let rl := rM mod H in
  let c := (X + r) mod M in let cm := c / H in let ctm := (c / P) mod Q in
  (rb + cm - 2 * rb * cm) * Q + ctm = (X + rl) / P.
Proof.
  intros HP HQ HX H M rM rb rl c cm ctm.
  assert (HH : 0 < H) by (apply Z.mul_pos_pos; assumption).
  assert (HrM : 0 <= rM < M) by (apply Z.mod_pos_bound; lia).
  assert (Hrl : 0 <= rl < H) by (apply Z.mod_pos_bound; lia).
  assert (Hrb : rb = 0 \/ rb = 1).
  { assert (0 <= rb < 2); [|lia]. unfold rb. split; [apply Z.div_pos; lia|apply Z.div_lt_upper_bound; lia]. }
  assert (Hr : rM = rb * H + rl) by (unfold rb, rl; rewrite Z.mul_comm; apply Z.div_mod; lia).
  assert (Hc : c = (X + rl + rb * H) mod M).
  { unfold c. rewrite <- (Zplus_mod_idemp_r r). fold rM. rewrite Hr. f_equal. lia. }
  set (s := X + rl) in *.
  assert (Hs : 0 <= s < 2 * H) by (clear - HX Hrl; unfold s; fold H in HX; lia).
  (* quotient facts about s *)
  assert (HsP : s / P = (s / H) * Q + (s mod H) / P).
  { rewrite (Z.div_mod s H) at 1 by lia.
    replace (H * (s / H) + s mod H) with (s mod H + (s / H * Q) * P) by (unfold H; ring).
    rewrite Z.div_add by lia. ring. }
  assert (HsQ : 0 <= (s mod H) / P < Q).
  { pose proof (Z.mod_pos_bound s H HH). split; [apply Z.div_pos; lia|apply Z.div_lt_upper_bound; lia]. }
  assert (Hsh : s / H = 0 \/ s / H = 1).
  { assert (0 <= s / H < 2); [|lia]. split; [apply Z.div_pos; lia|apply Z.div_lt_upper_bound; lia]. }
  (* c = (s mod H) + ((s/H + rb) mod 2) * H *)
  assert (Hc2 : c = s mod H + ((s / H + rb) mod 2) * H).
  { rewrite Hc. rewrite (Z.div_mod s H) at 1 by lia.
    pose proof (Z.mod_pos_bound s H HH).
    destruct Hsh as [-> | ->], Hrb as [-> | ->]; cbn [Z.add]; change ((0+0) mod 2) with 0; change ((0 + 1) mod 2) with 1;
      change ((1 + 0) mod 2) with 1; change ((1+1) mod 2) with 0.
    all: try (rewrite Z.mod_small; unfold M; lia).
    replace (H * 1 + s mod H + 1 * H) with (s mod H + 1 * M) by (unfold M; lia).
    rewrite Z.mod_add by lia. rewrite Z.mod_small; unfold M; lia. }
  assert (Hb : (s / H + rb) mod 2 = 0 \/ (s / H + rb) mod 2 = 1) by (pose proof (Z.mod_pos_bound (s / H + rb) 2); lia).
  assert (Hcm : cm = (s / H + rb) mod 2).
  { unfold cm. rewrite Hc2. rewrite Z.div_add by lia. rewrite Z.div_small; [lia|apply Z.mod_pos_bound; lia]. }
  assert (Hctm : ctm = (s mod H) / P).
  { unfold ctm. rewrite Hc2. unfold H at 3. rewrite (Z.mul_comm P Q), Z.mul_assoc. rewrite Z.div_add by lia.
    rewrite Z.mod_add by lia. apply Z.mod_small. exact HsQ. }
  rewrite Hcm, Hctm, HsP.
  destruct Hsh as [-> | ->], Hrb as [-> | ->]; cbn [Z.add]; change ((0+0) mod 2) with 0; change ((0 + 1) mod 2) with 1;
      change ((1 + 0) mod 2) with 1; change ((1+1) mod 2) with 0; lia.
Qed.

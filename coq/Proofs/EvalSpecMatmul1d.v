(* Per-operation specification proofs (C10), part 10: Matmul with one rank-1 operand (NumPy's
   promotion rule: a 1 is prepended to / appended to the rank-1 shape and removed from the result)
   and Dot of an N-d array by a 1-d array. *)
From CC Require Import Base.Prelude Base.Scalar Base.Ty Base.Shape Graph.Value Graph.IR Graph.Eval
  Proofs.EvalProofs Graph.Spec Proofs.EvalSpecBase Proofs.EvalSpecProofs Proofs.EvalSpecIndex
  Proofs.EvalSpecMatmul Proofs.EvalSpecGemm.

Lemma bcast_to_nil rs : valid_shape rs -> bcast_to [] rs.
Proof.
  intros Hv. split; [cbn; lia|]. split; [exact Hv|]. cbn [length]. rewrite Nat.sub_0_r, skipn_all.
  constructor.
Qed.

Ltac get_eq :=
  unfold get; f_equal;
  try (f_equal; rewrite ?flat_pos_app by assumption; cbn [flat_pos]; unfold prod_list; cbn [fold_right]; lia).

Lemma bidx_nil idx : bidx idx [] = [].
Proof. destruct idx; reflexivity. Qed.

Lemma prod_one_l k : prod_list [1; k] = prod_list [k].
Proof. unfold prod_list. cbn [fold_right]. lia. Qed.
Lemma prod_one_r k : prod_list [k; 1] = prod_list [k].
Proof. unfold prod_list. cbn [fold_right]. lia. Qed.

(* ------------------------------------------------------------------ rank-1 first operand *)
Lemma insert_at_last (b : list Z) m : insert_at (b ++ [m]) (length (b ++ [m]) - 1) 1 = b ++ [1; m].
Proof.
  unfold insert_at. rewrite app_length. cbn [length].
  replace (length b + 1 - 1)%nat with (length b) by lia.
  rewrite firstn_app, Nat.sub_diag, firstn_all. cbn [firstn]. rewrite app_nil_r.
  rewrite skipn_app, skipn_all, Nat.sub_diag. cbn [skipn app]. reflexivity.
Qed.

Lemma matmul_1d_left st st1 st2 k s1 b m e0 e1 :
  (2 <= length s1)%nat ->
  eval_matmul (TArray [k] st) (TArray s1 st1) (TArray (b ++ [m]) st2) (VArr e0) (VArr e1)
  = eval_matmul (TArray [1; k] st) (TArray s1 st1) (TArray (b ++ [1; m]) st2) (VArr e0) (VArr e1).
Proof.
  intros H1. rewrite (eval_matmul_unfold st st1 st2 [1; k] s1 (b ++ [1; m])) by (cbn [length]; lia).
  unfold eval_matmul.
  cbn [st_of is_arr andb negb shape_of arr_of bind is_scalar].
  change (length [k]) with 1%nat. cbn [Nat.eqb].
  destruct (Nat.eqb_spec (length s1) 1); [lia|]. cbn [andb].
  rewrite insert_at_last.
  replace (prod_list (b ++ [m])) with (prod_list (b ++ [1; m]))
    by (rewrite !prod_list_app; f_equal; unfold prod_list; cbn [fold_right]; lia).
  reflexivity.
Qed.

Theorem matmul_vec_mat_spec st st1 st2 b1 k m e0 e1 :
  valid_shape b1 -> 0 < k -> 0 < m ->
  let s1 := b1 ++ [k; m] in let rs := b1 ++ [m] in
  length e0 = Z.to_nat k -> length e1 = Z.to_nat (prod_list s1) ->
  exists r, eval_matmul (TArray [k] st) (TArray s1 st1) (TArray rs st2) (VArr e0) (VArr e1) = Ok (VArr r) /\
    length r = Z.to_nat (prod_list rs) /\
    forall bi j, in_shape bi b1 -> 0 <= j < m ->
      get r rs (bi ++ [j]) =
      dot_sum k (fun l => get e0 [k] [l]) (fun l => get e1 s1 (bi ++ [l; j])) mod modulus st.
Proof.
  intros Hv Hk Hm s1 rs L0 L1.
  assert (Ls1 : (2 <= length s1)%nat) by (unfold s1; rewrite app_length; cbn [length]; lia).
  unfold rs. rewrite matmul_1d_left by exact Ls1.
  assert (L0' : length e0 = Z.to_nat (prod_list ([] ++ [1; k])))
    by (cbn [app]; rewrite prod_one_l; unfold prod_list; cbn [fold_right]; lia).
  destruct (matmul_spec st st1 st2 [] b1 b1 1 k m e0 e1 (bcast_to_nil _ Hv) (bcast_to_refl _ Hv)
              ltac:(lia) Hk Hm L0' L1) as (r & E & L & S).
  cbn [app] in E. exists r. split; [exact E|]. split.
  - rewrite L. rewrite !prod_list_app. f_equal; try (f_equal; unfold prod_list; cbn [fold_right]; lia).
  - intros bi j Hbi Hj. pose proof (in_shape_length _ _ Hbi) as Lbi.
    transitivity (get r (b1 ++ [1; m]) (bi ++ [0; j])).
    + get_eq.
    + rewrite (S bi 0 j Hbi ltac:(lia) Hj). f_equal. unfold dot_sum. apply zsum_ext. intros l Hl. cbv beta.
      f_equal.
      * unfold bcast_index. rewrite bidx_nil. cbn [app].
        get_eq.
      * unfold bcast_index. rewrite Nat.sub_diag. cbn [skipn]. rewrite bidx_id by exact Hbi. reflexivity.
Qed.

(* ------------------------------------------------------------------ rank-1 second operand *)
Lemma matmul_1d_right st st1 st2 s0 k rs0 e0 e1 :
  (2 <= length s0)%nat ->
  eval_matmul (TArray s0 st) (TArray [k] st1) (TArray rs0 st2) (VArr e0) (VArr e1)
  = eval_matmul (TArray s0 st) (TArray [k; 1] st1) (TArray (rs0 ++ [1]) st2) (VArr e0) (VArr e1).
Proof.
  intros H0. rewrite (eval_matmul_unfold st st1 st2 s0 [k; 1] (rs0 ++ [1])) by (cbn [length]; lia).
  unfold eval_matmul.
  cbn [st_of is_arr andb negb shape_of arr_of bind is_scalar].
  change (length [k]) with 1%nat. cbn [Nat.eqb].
  destruct (Nat.eqb_spec (length s0) 1); [lia|]. cbn [andb].
  unfold insert_at. cbn [firstn skipn app].
  replace (prod_list rs0) with (prod_list (rs0 ++ [1]))
    by (rewrite prod_list_app; unfold prod_list at 2; cbn [fold_right]; lia).
  reflexivity.
Qed.

Theorem matmul_mat_vec_spec st st1 st2 b0 n k e0 e1 :
  valid_shape b0 -> 0 < n -> 0 < k ->
  let s0 := b0 ++ [n; k] in let rs := b0 ++ [n] in
  length e0 = Z.to_nat (prod_list s0) -> length e1 = Z.to_nat k ->
  exists r, eval_matmul (TArray s0 st) (TArray [k] st1) (TArray rs st2) (VArr e0) (VArr e1) = Ok (VArr r) /\
    length r = Z.to_nat (prod_list rs) /\
    forall bi i, in_shape bi b0 -> 0 <= i < n ->
      get r rs (bi ++ [i]) =
      dot_sum k (fun l => get e0 s0 (bi ++ [i; l])) (fun l => get e1 [k] [l]) mod modulus st.
Proof.
  intros Hv Hn Hk s0 rs L0 L1.
  assert (Ls0 : (2 <= length s0)%nat) by (unfold s0; rewrite app_length; cbn [length]; lia).
  rewrite matmul_1d_right by exact Ls0.
  assert (L1' : length e1 = Z.to_nat (prod_list ([] ++ [k; 1])))
    by (cbn [app]; rewrite prod_one_r; unfold prod_list; cbn [fold_right]; lia).
  destruct (matmul_spec st st1 st2 b0 [] b0 n k 1 e0 e1 (bcast_to_refl _ Hv) (bcast_to_nil _ Hv)
              Hn Hk ltac:(lia) L0 L1') as (r & E & L & S).
  cbn [app] in E. unfold rs. rewrite <- app_assoc. cbn [app].
  exists r. split; [exact E|]. split.
  - rewrite L. rewrite !prod_list_app. f_equal; try (f_equal; unfold prod_list; cbn [fold_right]; lia).
  - intros bi i Hbi Hi. pose proof (in_shape_length _ _ Hbi) as Lbi.
    transitivity (get r (b0 ++ [n; 1]) (bi ++ [i; 0])).
    + get_eq.
    + rewrite (S bi i 0 Hbi Hi ltac:(lia)). f_equal. unfold dot_sum. apply zsum_ext. intros l Hl. cbv beta.
      f_equal.
      * unfold bcast_index. rewrite Nat.sub_diag. cbn [skipn]. rewrite bidx_id by exact Hbi. reflexivity.
      * unfold bcast_index. rewrite bidx_nil. cbn [app].
        get_eq.
Qed.

(* ------------------------------------------------------------------ Dot, N-d by 1-d *)
Lemma eval_dot_unfold_1d st st1 st2 s0 k rs e0 e1 :
  (2 <= length s0)%nat ->
  eval_dot (TArray s0 st) (TArray [k] st1) (TArray rs st2) (VArr e0) (VArr e1) =
    let l0 := length s0 in
    let* res :=
      mapM (fun i =>
              let* ri := number_to_index i rs in
              fold_left (fun acc j =>
                           let* a := acc in
                           if (length ri <? l0 - 1)%nat then Panic else
                           let* n0 := index_to_number (firstn (l0 - 1) ri ++ [j]) s0 in
                           let* n1 := index_to_number [j] [k] in
                           let* x := znth e0 n0 in let* y := znth e1 n1 in
                           Ok (k_add st a (k_mul st x y)))
                        (zrange k) (Ok 0))
           (zrange (prod_list rs)) in
    Ok (VArr res).
Proof.
  intros H0. unfold eval_dot. cbn [st_of is_arr andb negb shape_of arr_of bind is_scalar length].
  destruct (Nat.eqb_spec (length s0) 1); [lia|]. cbn [andb].
  change (1 <? 1)%nat with false. cbn [andb]. reflexivity.
Qed.

Theorem dot_nd_by_1d_spec st st1 st2 a0 k e0 e1 :
  valid_shape a0 -> a0 <> [] -> 0 < k ->
  length e0 = Z.to_nat (prod_list (a0 ++ [k])) -> length e1 = Z.to_nat k ->
  exists r, eval_dot (TArray (a0 ++ [k]) st) (TArray [k] st1) (TArray a0 st2) (VArr e0) (VArr e1) = Ok (VArr r) /\
    length r = Z.to_nat (prod_list a0) /\
    forall ia, in_shape ia a0 ->
      get r a0 ia = dot_sum k (fun l => get e0 (a0 ++ [k]) (ia ++ [l])) (fun l => get e1 [k] [l]) mod modulus st.
Proof.
  intros Hva Hne Hk Le0 Le1. set (s0 := a0 ++ [k]) in *.
  assert (Ls0 : length s0 = (length a0 + 1)%nat) by (unfold s0; rewrite app_length; cbn; lia).
  assert (La : (1 <= length a0)%nat) by (destruct a0; [congruence|cbn; lia]).
  rewrite eval_dot_unfold_1d by lia. cbv zeta.
  set (dd := fun ia => dot_sum k (fun l => get e0 s0 (ia ++ [l])) (fun l => get e1 [k] [l]) mod modulus st).
  destruct (mapM_over_shape
    (fun ri => fold_left (fun acc j =>
                           let* a := acc in
                           if (length ri <? length s0 - 1)%nat then Panic else
                           let* n0 := index_to_number (firstn (length s0 - 1) ri ++ [j]) s0 in
                           let* n1 := index_to_number [j] [k] in
                           let* x := znth e0 n0 in let* y := znth e1 n1 in
                           Ok (k_add st a (k_mul st x y)))
                        (zrange k) (Ok 0))
    dd a0 Hva) as (r & E & Lr & Hr).
  - intros ri Hin. unfold dd. apply fold_dot_loop'. intros l a Hl. cbn [bind].
    pose proof (in_shape_length _ _ Hin) as Lri.
    replace (length ri <? length s0 - 1)%nat with false by lia.
    replace (length s0 - 1)%nat with (length ri) by lia. rewrite firstn_all.
    assert (I0 : in_shape (ri ++ [l]) s0) by (apply in_shape_app; [exact Hin|repeat constructor; lia]).
    assert (I1 : in_shape [l] [k]) by (repeat constructor; lia).
    rewrite (index_to_number_flat_pos _ _ I0). cbn [bind].
    rewrite (index_to_number_flat_pos _ _ I1). cbn [bind].
    pose proof (flat_pos_range _ _ I0) as R0. pose proof (flat_pos_range _ _ I1) as R1.
    assert (prod_list [k] = k) by (unfold prod_list; cbn [fold_right]; lia).
    rewrite (znth_ok e0 _ 0) by lia. cbn [bind]. rewrite (znth_ok e1 _ 0) by lia. cbn [bind].
    reflexivity.
  - rewrite E. cbn [bind]. exists r. split; [reflexivity|]. split; [exact Lr|exact Hr].
Qed.

(* Per-operation specification proofs (C10), part 4: Gemm (op(A) op(B) with transposition flags
   and broadcast batch dimensions), proved against the model's own definition: transposition by
   permute_axes, then the block-wise general_gemm. *)
From CC Require Import Base.Prelude Base.Scalar Base.Ty Base.Shape Graph.Value Graph.IR Graph.Eval
  Proofs.EvalProofs Graph.Spec Proofs.EvalSpecBase Proofs.EvalSpecProofs Proofs.EvalSpecIndex
  Proofs.EvalSpecMatmul.

(* ------------------------------------------------------------------ generic list facts *)
Lemma mapM_map_in {A B C} (f : B -> result C) (h : A -> B) l :
  mapM f (map h l) = mapM (fun x => f (h x)) l.
Proof. induction l as [|x l IH]; cbn [map mapM]; [reflexivity|]. now rewrite IH. Qed.

Lemma nth_map_default {A B} (g : A -> B) l i da db :
  (i < length l)%nat -> nth i (map g l) db = g (nth i l da).
Proof. revert i; induction l as [|x l IH]; intros [|i] H; cbn in *; try lia; auto. apply IH. lia. Qed.

Lemma concat_length_const_nat {A} (L : list (list A)) c :
  (forall l, In l L -> length l = c) -> length (concat L) = (length L * c)%nat.
Proof.
  induction L as [|l L IH]; intros H; cbn [concat length]; [reflexivity|].
  rewrite app_length, IH by (intros; apply H; now right). rewrite (H l) by now left. lia.
Qed.

Lemma nth_concat_const {A} (L : list (list A)) c q p d :
  (forall l, In l L -> length l = c) -> (p < c)%nat ->
  nth (q * c + p) (concat L) d = nth p (nth q L []) d.
Proof.
  revert q; induction L as [|l L IH]; intros q H Hp.
  - cbn [concat]. replace (nth q [] []) with (@nil A) by (destruct q; reflexivity).
    destruct (q * c + p)%nat; destruct p; reflexivity.
  - cbn [concat]. pose proof (H l (or_introl eq_refl)) as Hl. destruct q as [|q].
    + cbn [Nat.mul Nat.add nth]. apply app_nth1. lia.
    + cbn [nth]. rewrite app_nth2 by (cbn [Nat.mul]; lia).
      replace (S q * c + p - length l)%nat with (q * c + p)%nat by (cbn [Nat.mul]; lia).
      apply IH; [intros; apply H; now right|exact Hp].
Qed.

Lemma nth_concat_const_z {A} (L : list (list A)) c q p d :
  (forall l, In l L -> length l = Z.to_nat c) -> 0 <= q -> 0 <= p < c ->
  nth (Z.to_nat (q * c + p)) (concat L) d = nth (Z.to_nat p) (nth (Z.to_nat q) L []) d.
Proof.
  intros H Hq Hp.
  replace (Z.to_nat (q * c + p)) with (Z.to_nat q * Z.to_nat c + Z.to_nat p)%nat.
  - apply nth_concat_const; [exact H|lia].
  - rewrite Z2Nat.inj_add by nia. rewrite Z2Nat.inj_mul by lia. reflexivity.
Qed.

Lemma bcast_dims_valid s rs : bcast_dims s rs -> valid_shape rs -> valid_shape s.
Proof.
  induction 1 as [|d r s rs Hd Hb IH]; intros Hv; [constructor|].
  inversion Hv; subst. constructor; [lia|apply IH; assumption].
Qed.

Lemma bcast_to_valid s rs : bcast_to s rs -> valid_shape s.
Proof. intros (_ & Hv & Hb). eapply bcast_dims_valid; [exact Hb|]. now apply valid_shape_skipn. Qed.

Lemma bcast_index_in_shape s rs idx : bcast_to s rs -> in_shape idx rs -> in_shape (bcast_index s rs idx) s.
Proof.
  intros (_ & _ & Hb) Hin. unfold bcast_index. eapply bidx_in_shape; [|exact Hb].
  now apply in_shape_skipn.
Qed.

Lemma prod_two a b : prod_list [a; b] = a * b.
Proof. unfold prod_list. cbn [fold_right]. ring. Qed.

Lemma flat_pos_two i j a b : flat_pos [i; j] [a; b] = i * b + j.
Proof. cbn [flat_pos]. unfold prod_list. cbn [fold_right]. ring. Qed.

Lemma flat_pos_app_two f F i j a b : length f = length F ->
  flat_pos (f ++ [i; j]) (F ++ [a; b]) = flat_pos f F * (a * b) + (i * b + j).
Proof. intros L. rewrite flat_pos_app by exact L. now rewrite prod_two, flat_pos_two. Qed.

Lemma in_shape_two i j a b : 0 <= i < a -> 0 <= j < b -> in_shape [i; j] [a; b].
Proof. intros; repeat constructor; lia. Qed.

(* ------------------------------------------------------------------ transposition *)
Lemma transpose_shape_app2 F x y : transpose_shape (F ++ [x; y]) true = F ++ [y; x].
Proof.
  unfold transpose_shape. cbn [negb]. rewrite app_length. cbn [length].
  replace (length F + 2 <? 2)%nat with false by lia.
  replace (length F + 2 - 2)%nat with (length F) by lia.
  replace (length F + 2 - 1)%nat with (S (length F)) by lia.
  rewrite firstn_app, Nat.sub_diag, firstn_all. cbn [firstn]. rewrite app_nil_r.
  rewrite !app_nth2 by lia. rewrite Nat.sub_diag. replace (S (length F) - length F)%nat with 1%nat by lia.
  reflexivity.
Qed.

Lemma transpose_permutation_eq (k : nat) :
  transpose_permutation (k + 2) = zrange (Z.of_nat k) ++ [Z.of_nat k + 1; Z.of_nat k].
Proof.
  unfold transpose_permutation. replace (k + 2 =? 1)%nat with false by lia.
  replace (Z.of_nat (k + 2) - 2) with (Z.of_nat k) by lia.
  replace (Z.of_nat (k + 2) - 1) with (Z.of_nat k + 1) by lia. reflexivity.
Qed.

Lemma transpose_perm_rank k : is_perm_of_rank (transpose_permutation (k + 2)) (k + 2).
Proof.
  rewrite transpose_permutation_eq. split; [|split].
  - rewrite app_length, zrange_length. cbn [length]. lia.
  - intros j Hj. apply in_app_or in Hj as [Hj|Hj]; [apply In_zrange in Hj; lia|].
    cbn [In] in Hj. lia.
  - intros j Hj. apply in_or_app. destruct (Z_lt_dec j (Z.of_nat k)) as [Hlt|Hge].
    + left. apply In_zrange. lia.
    + right. cbn [In]. lia.
Qed.

Lemma permute_index_prefix (F G : list Z) :
  map (fun j => nth (Z.to_nat j) (F ++ G) 0) (zrange (Z.of_nat (length F))) = F.
Proof.
  transitivity (permute_index (zrange (Z.of_nat (length F))) F); [|apply permute_index_id].
  unfold permute_index. apply map_ext_in.
  intros j Hj. apply In_zrange in Hj. apply app_nth1. lia.
Qed.

Lemma permute_index_transpose F a b :
  permute_index (transpose_permutation (length F + 2)) (F ++ [a; b]) = F ++ [b; a].
Proof.
  rewrite transpose_permutation_eq. unfold permute_index. rewrite map_app, permute_index_prefix.
  f_equal. cbn [map]. rewrite !app_nth2 by lia.
  replace (Z.to_nat (Z.of_nat (length F) + 1) - length F)%nat with 1%nat by lia.
  replace (Z.to_nat (Z.of_nat (length F)) - length F)%nat with O by lia. reflexivity.
Qed.

(* the evaluator's transposition swaps the last two coordinates *)
Lemma transpose_spec F x y es :
  valid_shape (F ++ [x; y]) -> length es = Z.to_nat (prod_list (F ++ [x; y])) ->
  exists r, eval_transpose (F ++ [x; y]) es = Ok r /\ length r = length es /\
    forall f i j, in_shape f F -> 0 <= i < x -> 0 <= j < y ->
      get r (F ++ [y; x]) (f ++ [j; i]) = get es (F ++ [x; y]) (f ++ [i; j]).
Proof.
  intros Hv Hl. unfold eval_transpose. rewrite transpose_shape_app2.
  assert (Ln : length (F ++ [y; x]) = (length F + 2)%nat) by (rewrite app_length; cbn; lia).
  assert (Lc : length (F ++ [x; y]) = (length F + 2)%nat) by (rewrite app_length; cbn; lia).
  rewrite Ln.
  pose proof (transpose_perm_rank (length F)) as Hp. rewrite <- Lc in Hp at 2.
  destruct (permute_axes_spec (F ++ [x; y]) _ es Hv Hp Hl) as (r & E & L & S).
  cbv zeta in E, S. rewrite permute_index_transpose in E, S.
  exists r. split; [exact E|]. split; [exact L|].
  intros f i j Hf Hi Hj.
  rewrite <- (S (f ++ [i; j])) by (apply in_shape_app; [exact Hf|now apply in_shape_two]).
  rewrite <- (in_shape_length _ _ Hf). now rewrite permute_index_transpose.
Qed.

(* ------------------------------------------------------------------ row inner products *)
Lemma fold_dot_lists st l : forall acc,
  fold_left (fun acc p => k_add st acc (k_mul st (fst p) (snd p))) l (acc mod modulus st)
  = (acc + list_sum_z (map (fun p => fst p * snd p) l)) mod modulus st.
Proof.
  induction l as [|p l IH]; intros acc; cbn [fold_left map].
  - unfold list_sum_z. cbn [fold_right]. f_equal. lia.
  - rewrite k_add_mod, k_mul_mod. rewrite Zplus_mod_idemp_l, Zplus_mod_idemp_r. rewrite IH.
    f_equal. unfold list_sum_z. cbn [fold_right]. lia.
Qed.

Lemma dot_lists_spec st a b k : length a = Z.to_nat k -> length b = Z.to_nat k ->
  dot_lists st a b
  = dot_sum k (fun l => nth (Z.to_nat l) a 0) (fun l => nth (Z.to_nat l) b 0) mod modulus st.
Proof.
  intros La Lb. pose proof (modulus_pos st) as Hm. unfold dot_lists.
  rewrite <- (Z.mod_0_l (modulus st)) at 1 by lia. rewrite fold_dot_lists. f_equal.
  rewrite Z.add_0_l. unfold dot_sum, zsum, list_sum_z. f_equal.
  apply nth_ext with (d := 0) (d' := 0).
  - rewrite !map_length, combine_length, zrange_length. lia.
  - rewrite map_length, combine_length. intros i Hi.
    rewrite (nth_map_default _ _ _ (0, 0)) by (rewrite combine_length; lia).
    rewrite combine_nth by lia. cbn [fst snd].
    rewrite <- (Nat2Z.id i) at 3. rewrite nth_map_zrange by lia. now rewrite Nat2Z.id.
Qed.

(* ------------------------------------------------------------------ general_gemm *)
Lemma last_z_app_two (B : list Z) (a b : Z) : last_z (B ++ [a; b]) = b.
Proof.
  unfold last_z. replace (B ++ [a; b]) with ((B ++ [a]) ++ [b]) by (now rewrite <- app_assoc).
  apply last_last.
Qed.

Lemma znth_second_last_two (B : list Z) (a b : Z) :
  znth (B ++ [a; b]) (Z.of_nat (length (B ++ [a; b])) - 2) = Ok a.
Proof.
  rewrite (znth_ok _ _ 0) by (rewrite app_length; cbn [length]; lia). f_equal.
  replace (Z.to_nat (Z.of_nat (length (B ++ [a; b])) - 2)) with (length B)
    by (rewrite app_length; cbn [length]; lia).
  apply nth_middle.
Qed.

(* the einsum ...ik, ...jk -> ...ij of general_gemm *)
Lemma general_gemm_spec st x0 x1 B0 B1 bs n m k :
  bcast_to B0 bs -> bcast_to B1 bs -> 0 < n -> 0 < k -> 0 < m ->
  let s0 := B0 ++ [n; k] in let s1 := B1 ++ [m; k] in let rs := bs ++ [n; m] in
  length x0 = Z.to_nat (prod_list s0) -> length x1 = Z.to_nat (prod_list s1) ->
  exists r, general_gemm st x0 x1 s0 s1 rs = Ok r /\ length r = Z.to_nat (prod_list rs) /\
    forall bi i j, in_shape bi bs -> 0 <= i < n -> 0 <= j < m ->
      get r rs (bi ++ [i; j]) =
      dot_sum k (fun l => get x0 s0 (bcast_index B0 bs bi ++ [i; l]))
                (fun l => get x1 s1 (bcast_index B1 bs bi ++ [j; l])) mod modulus st.
Proof.
  intros HB0 HB1 Hn Hk Hm s0 s1 rs Lx0 Lx1.
  pose proof HB0 as (Hl0 & Hvb & Hb0). pose proof HB1 as (Hl1 & _ & Hb1).
  pose proof (bcast_to_valid _ _ HB0) as Hv0. pose proof (bcast_to_valid _ _ HB1) as Hv1.
  pose proof (prod_list_pos _ Hvb) as Pbs. pose proof (prod_list_pos _ Hv0) as P0.
  pose proof (prod_list_pos _ Hv1) as P1.
  assert (Ls0 : length s0 = (length B0 + 2)%nat) by (unfold s0; rewrite app_length; cbn; lia).
  assert (Ls1 : length s1 = (length B1 + 2)%nat) by (unfold s1; rewrite app_length; cbn; lia).
  assert (Lrs : length rs = (length bs + 2)%nat) by (unfold rs; rewrite app_length; cbn; lia).
  assert (Ps0 : prod_list s0 = prod_list B0 * (n * k)) by (unfold s0; now rewrite prod_list_app, prod_two).
  assert (Ps1 : prod_list s1 = prod_list B1 * (m * k)) by (unfold s1; now rewrite prod_list_app, prod_two).
  assert (Prs : prod_list rs = prod_list bs * (n * m)) by (unfold rs; now rewrite prod_list_app, prod_two).
  assert (Hnm : 0 < n * m) by nia.
  set (D := fun bi i j =>
      dot_sum k (fun l => get x0 s0 (bcast_index B0 bs bi ++ [i; l]))
                (fun l => get x1 s1 (bcast_index B1 bs bi ++ [j; l])) mod modulus st).
  set (Row := fun bi i => map (D bi i) (zrange m)).
  set (Blk := fun q => concat (map (Row (unravel q bs)) (zrange n))).
  assert (LRow : forall bi l, In l (map (Row bi) (zrange n)) -> length l = Z.to_nat m).
  { intros bi l Hin. apply in_map_iff in Hin as (i & <- & _). unfold Row. now rewrite map_length, zrange_length. }
  assert (LBlk : forall l, In l (map Blk (zrange (prod_list bs))) -> length l = Z.to_nat (n * m)).
  { intros l Hin. apply in_map_iff in Hin as (q & <- & _). unfold Blk.
    rewrite (concat_length_const_nat _ (Z.to_nat m)) by apply LRow.
    rewrite map_length, zrange_length. rewrite Z2Nat.inj_mul by lia. reflexivity. }
  exists (concat (map Blk (zrange (prod_list bs)))). split; [|split].
  - assert (El : last_z s1 = k) by apply last_z_app_two.
    assert (Z0 : znth s0 (Z.of_nat (length s0) - 2) = Ok n) by apply znth_second_last_two.
    assert (Z1 : znth s1 (Z.of_nat (length s1) - 2) = Ok m) by apply znth_second_last_two.
    unfold general_gemm. rewrite El, Z0, Z1. cbn [bind].
    replace (n * m <=? 0) with false by lia.
    replace ((length rs <? length s0)%nat || (length rs <? length s1)%nat) with false by lia.
    rewrite Prs.
    replace ((prod_list bs * (n * m) + n * m - 1) / (n * m)) with (prod_list bs)
      by (apply (Z.div_unique _ _ _ (n * m - 1)); [lia|ring]).
    rewrite mapM_map_in.
    rewrite (mapM_zrange_ok _ Blk); [reflexivity|].
    intros q Hq.
    destruct (number_to_index_unravel bs q Hvb Hq) as (_ & Hbi & Hfq).
    set (bi := unravel q bs) in *. pose proof (in_shape_length _ _ Hbi) as Lbi.
    assert (Hstart : in_shape (bi ++ [0; 0]) rs)
      by (apply in_shape_app; [exact Hbi|apply in_shape_two; lia]).
    assert (Estart : number_to_index (q * (n * m)) rs = Ok (bi ++ [0; 0])).
    { rewrite <- (number_to_index_flat_pos _ _ Hstart). f_equal. unfold rs.
      rewrite flat_pos_app_two by exact Lbi. lia. }
    rewrite Estart. cbn [bind].
    set (o0 := (length bs - length B0)%nat). set (o1 := (length bs - length B1)%nat).
    replace (length rs - length s0)%nat with o0 by (unfold o0; lia).
    replace (length rs - length s1)%nat with o1 by (unfold o1; lia).
    rewrite !skipn_app_le by (unfold o0, o1; lia).
    set (t0 := skipn o0 bi). set (t1 := skipn o1 bi).
    assert (Ht0 : in_shape t0 (skipn o0 bs)) by (apply in_shape_skipn; exact Hbi).
    assert (Ht1 : in_shape t1 (skipn o1 bs)) by (apply in_shape_skipn; exact Hbi).
    assert (Lt0 : length t0 = length B0) by (unfold t0, o0; rewrite skipn_length; lia).
    assert (Lt1 : length t1 = length B1) by (unfold t1, o1; rewrite skipn_length; lia).
    assert (I0 : in_shape (t0 ++ [0; 0]) (skipn o0 bs ++ [n; k]))
      by (apply in_shape_app; [exact Ht0|apply in_shape_two; lia]).
    assert (I1 : in_shape (t1 ++ [0; 0]) (skipn o1 bs ++ [m; k]))
      by (apply in_shape_app; [exact Ht1|apply in_shape_two; lia]).
    assert (Bd0 : bcast_dims s0 (skipn o0 bs ++ [n; k])) by (apply bcast_dims_app; [exact Hb0|apply bcast_dims_refl]).
    assert (Bd1 : bcast_dims s1 (skipn o1 bs ++ [m; k])) by (apply bcast_dims_app; [exact Hb1|apply bcast_dims_refl]).
    rewrite (index_to_number_bcast _ _ _ I0 Bd0). cbn [bind].
    rewrite (index_to_number_bcast _ _ _ I1 Bd1). cbn [bind].
    set (c0 := bcast_index B0 bs bi). set (c1 := bcast_index B1 bs bi).
    assert (Ec0 : bidx (t0 ++ [0; 0]) s0 = c0 ++ [0; 0]).
    { unfold s0. rewrite bidx_app by lia. rewrite (bidx_id [0; 0] [n; k]) by (apply in_shape_two; lia). reflexivity. }
    assert (Ec1 : bidx (t1 ++ [0; 0]) s1 = c1 ++ [0; 0]).
    { unfold s1. rewrite bidx_app by lia. rewrite (bidx_id [0; 0] [m; k]) by (apply in_shape_two; lia). reflexivity. }
    rewrite Ec0, Ec1.
    assert (Hc0 : in_shape c0 B0) by (apply bcast_index_in_shape; auto).
    assert (Hc1 : in_shape c1 B1) by (apply bcast_index_in_shape; auto).
    pose proof (in_shape_length _ _ Hc0) as Lc0. pose proof (in_shape_length _ _ Hc1) as Lc1.
    pose proof (flat_pos_range _ _ Hc0) as R0. pose proof (flat_pos_range _ _ Hc1) as R1.
    set (p0 := flat_pos c0 B0) in *. set (p1 := flat_pos c1 B1) in *.
    assert (FP0 : forall i l, flat_pos (c0 ++ [i; l]) s0 = p0 * (n * k) + (i * k + l))
      by (intros; unfold s0; apply flat_pos_app_two; assumption).
    assert (FP1 : forall j l, flat_pos (c1 ++ [j; l]) s1 = p1 * (m * k) + (j * k + l))
      by (intros; unfold s1; apply flat_pos_app_two; assumption).
    rewrite FP0, FP1.
    assert (A0 : (p0 + 1) * (n * k) <= prod_list B0 * (n * k)) by (apply Z.mul_le_mono_nonneg_r; nia).
    assert (A1 : (p1 + 1) * (m * k) <= prod_list B1 * (m * k)) by (apply Z.mul_le_mono_nonneg_r; nia).
    rewrite (mapM_zrange_ok _ (Row bi)); [reflexivity|].
    intros i Hi.
    assert (A2 : (i + 1) * k <= n * k) by (apply Z.mul_le_mono_nonneg_r; lia).
    rewrite slice_z_ok by nia. cbn [bind].
    rewrite (mapM_zrange_ok _ (D bi i)); [reflexivity|].
    intros j Hj.
    assert (A3 : (j + 1) * k <= m * k) by (apply Z.mul_le_mono_nonneg_r; lia).
    rewrite slice_z_ok by nia. cbn [bind]. f_equal.
    rewrite (dot_lists_spec st _ _ k)
      by (rewrite firstn_length, skipn_length; nia).
    unfold D. f_equal. unfold dot_sum. apply zsum_ext. intros l Hl. cbv beta.
    rewrite !nth_firstn_skipn by lia. unfold get. fold c0 c1. rewrite FP0, FP1.
    f_equal; f_equal; nia.
  - rewrite (concat_length_const_nat _ (Z.to_nat (n * m))) by exact LBlk.
    rewrite map_length, zrange_length, Prs. rewrite <- Z2Nat.inj_mul by lia. reflexivity.
  - intros bi i j Hbi Hi Hj. pose proof (in_shape_length _ _ Hbi) as Lbi.
    pose proof (flat_pos_range _ _ Hbi) as Rq.
    unfold get at 1. unfold rs. rewrite flat_pos_app_two by exact Lbi.
    rewrite (nth_concat_const_z _ (n * m)) by (auto; nia).
    rewrite nth_map_zrange by lia. unfold Blk. rewrite unravel_flat_pos by exact Hbi.
    rewrite (nth_concat_const_z _ m) by (try apply LRow; lia).
    rewrite nth_map_zrange by lia. unfold Row. rewrite nth_map_zrange by lia. reflexivity.
Qed.

(* ------------------------------------------------------------------ Gemm *)
Lemma tr_pair_negb t a b : tr_pair (negb t) a b = tr_pair t b a.
Proof. destruct t; reflexivity. Qed.

(* an operand as general_gemm receives it: of shape B ++ [a; b], transposed by the evaluator
   when [flag] is set *)
Lemma gemm_operand (flag : bool) B a b es :
  valid_shape B -> 0 < a -> 0 < b ->
  length es = Z.to_nat (prod_list (B ++ tr_pair flag a b)) ->
  exists x, (if flag then eval_transpose (B ++ tr_pair flag a b) es else Ok es) = Ok x /\
    transpose_shape (B ++ tr_pair flag a b) flag = B ++ [a; b] /\
    length x = Z.to_nat (prod_list (B ++ [a; b])) /\
    forall f i j, in_shape f B -> 0 <= i < a -> 0 <= j < b ->
      get x (B ++ [a; b]) (f ++ [i; j]) = get es (B ++ tr_pair flag a b) (f ++ tr_pair flag i j).
Proof.
  intros HvB Ha Hb Hl. destruct flag; cbn [tr_pair] in *.
  - assert (Hv : valid_shape (B ++ [b; a]))
      by (apply valid_shape_app; split; [exact HvB|repeat constructor; lia]).
    destruct (transpose_spec B b a es Hv Hl) as (x & E & L & S).
    exists x. split; [exact E|]. split; [apply transpose_shape_app2|]. split.
    + rewrite L, Hl. rewrite !prod_list_app, !prod_two. f_equal. ring.
    + intros f i j Hf Hi Hj. now apply S.
  - exists es. split; [reflexivity|]. split; [reflexivity|]. split; [exact Hl|]. reflexivity.
Qed.

Theorem gemm_spec st st0 st1 ta tb b0 b1 br n k m e0 e1 :
  bcast_to b0 br -> bcast_to b1 br -> 0 < n -> 0 < k -> 0 < m ->
  let s0 := b0 ++ tr_pair ta n k in let s1 := b1 ++ tr_pair tb k m in let rs := br ++ [n; m] in
  length e0 = Z.to_nat (prod_list s0) -> length e1 = Z.to_nat (prod_list s1) ->
  exists r, eval_gemm (TArray s0 st0) (TArray s1 st1) (TArray rs st) ta tb (VArr e0) (VArr e1) = Ok (VArr r) /\
    length r = Z.to_nat (prod_list rs) /\
    forall bi i j, in_shape bi br -> 0 <= i < n -> 0 <= j < m ->
      get r rs (bi ++ [i; j]) =
      dot_sum k (fun l => get e0 s0 (bcast_index b0 br bi ++ tr_pair ta i l))
                (fun l => get e1 s1 (bcast_index b1 br bi ++ tr_pair tb l j)) mod modulus st.
Proof.
  intros HB0 HB1 Hn Hk Hm s0 s1 rs Le0 Le1.
  pose proof (bcast_to_valid _ _ HB0) as Hv0. pose proof (bcast_to_valid _ _ HB1) as Hv1.
  destruct (gemm_operand ta b0 n k e0 Hv0 Hn Hk Le0) as (x0 & E0 & T0 & L0 & G0).
  assert (Le1' : length e1 = Z.to_nat (prod_list (b1 ++ tr_pair (negb tb) m k)))
    by (rewrite tr_pair_negb; exact Le1).
  destruct (gemm_operand (negb tb) b1 m k e1 Hv1 Hm Hk Le1') as (x1 & E1 & T1 & L1 & G1).
  rewrite tr_pair_negb in E1, T1, G1. fold s0 in E0, T0, G0. fold s1 in E1, T1, G1.
  destruct (general_gemm_spec st x0 x1 b0 b1 br n m k HB0 HB1 Hn Hk Hm L0 L1) as (r & E & L & S).
  exists r. split; [|split; [exact L|]].
  - unfold eval_gemm. cbn [arr_of bind is_arr andb negb shape_of st_of].
    rewrite E0, E1. cbn [bind]. rewrite T0, T1. unfold rs. rewrite E. reflexivity.
  - intros bi i j Hbi Hi Hj. unfold rs. rewrite (S bi i j Hbi Hi Hj). f_equal.
    unfold dot_sum. apply zsum_ext. intros l Hl. cbv beta.
    rewrite G0 by (auto using bcast_index_in_shape).
    rewrite G1 by (auto using bcast_index_in_shape).
    rewrite tr_pair_negb. reflexivity.
Qed.

(* C06 / constant folding (Model.Opt.opt_const): semantics, inputs, annotations, freshness. *)
From CC Require Import Base.Prelude Base.Scalar Base.Ty Base.Shape Graph.Value Graph.IR Graph.Eval
  Model.Opt Model.Uniquify Proofs.OptBase Proofs.OptSem Proofs.OptSim Proofs.OptFresh Proofs.OptDangling
  Proofs.OptDup.

(* a Constant node carries the type of its literal (what the graph builder guarantees) *)
Definition const_typed (nodes : list node) : Prop :=
  forall nd t v, In nd nodes -> n_op nd = OConstant t v -> n_ty nd = t.

Definition const_lit (o : op) : option (ty * value) :=
  match o with OConstant t v => Some (t, v) | _ => None end.
Lemma const_lit_some o t v : const_lit o = Some (t, v) -> o = OConstant t v.
Proof. destruct o; cbn; intros H; try discriminate. now injection H as -> ->. Qed.

Lemma eval_node_ok_not_tape o dts t vs v : eval_node o dts t vs = Ok v -> from_tape o = false.
Proof. destruct o; try (intros _; reflexivity); unfold eval_node; intros H; discriminate H. Qed.

Lemma const_optimizable_true o : is_const_optimizable o = Ok true ->
  is_input o = false /\ is_fresh_op o = false.
Proof. destruct o; cbn; intros H; try discriminate; auto. Qed.
Lemma const_optimizable_fresh o c : is_fresh_op o = true -> is_const_optimizable o = Ok c -> c = false.
Proof. destruct o; cbn; intros F H; try discriminate; injection H as <-; auto. Qed.
Lemma const_optimizable_input o c : is_input o = true -> is_const_optimizable o = Ok c -> c = false.
Proof. destruct o; cbn; intros F H; try discriminate; injection H as <-; auto. Qed.

(* ------------------------------------------------------------------ the step in a form that
   separates literal constants from the other operations *)
Definition is_nil {A} (l : list A) : bool := match l with [] => true | _ => false end.

Definition const_other (s : const_state) (i : Z) (nd : node) : result (const_state * Z) :=
  let o := n_op nd in
  let* c0 := is_const_optimizable o in
  let* deps' := mapM (map_get (cs_map s)) (n_deps nd) in
  let all_const := forallb (fun d => match consts_find (cs_consts s) d with Some _ => true | None => false end) (n_deps nd) in
  if c0 && all_const && is_nil (n_annots nd) then
    let dep_vals := map (fun d => match consts_find (cs_consts s) d with Some v => v | None => VArr [] end) (n_deps nd) in
    let* dts := mapM (fun d => let* j := map_get (cs_map s) d in node_ty_at (cs_out s) j) (n_deps nd) in
    let* v := eval_node o dts (n_ty nd) dep_vals in
    let s1 := mkCS (cs_out s) (cs_map s) (cs_cache s) (cs_consts s ++ [(i, v)]) (cs_output s) in
    Ok (resolve_const s1 (n_ty nd) v)
  else
    let j := Z.of_nat (length (cs_out s)) in
    Ok (mkCS (cs_out s ++ [mkNode o deps' [] (n_annots nd) (n_ty nd)]) (cs_map s)
             (cs_cache s) (cs_consts s) (cs_output s), j).

Definition const_step' (old_output : option Z) (acc : result (const_state * Z)) (nd : node)
  : result (const_state * Z) :=
  let* (s, i) := acc in
  if negb (is_nil (n_gdeps nd)) then Err else
  let* (s', j) :=
    match const_lit (n_op nd) with
    | Some (t, v) =>
        if negb (is_nil (n_annots nd)) then Err else
        Ok (resolve_const (mkCS (cs_out s) (cs_map s) (cs_cache s) (cs_consts s ++ [(i, v)]) (cs_output s)) t v)
    | None => const_other s i nd
    end in
  let out := if eqb old_output (Some i) then Some j else cs_output s' in
  Ok (mkCS (cs_out s') (cs_map s' ++ [Some j]) (cs_cache s') (cs_consts s') out, i + 1).

Lemma opt_const_step_eq o acc nd : opt_const_step o acc nd = const_step' o acc nd.
Proof.
  unfold opt_const_step, const_step', const_other, is_nil. destruct acc as [[s i]| | |]; try reflexivity.
  cbn [bind]. destruct (n_gdeps nd); [|reflexivity]. cbn [negb].
  destruct (n_op nd); reflexivity.
Qed.

Lemma opt_const_step_strict o r a s' : opt_const_step o r a = Ok s' -> exists s, r = Ok s.
Proof. destruct r; cbn; intros; try discriminate; eauto. Qed.

Lemma forallb_false_ex {A} (f : A -> bool) l : forallb f l = false -> exists x, In x l /\ f x = false.
Proof.
  induction l as [|x l IH]; cbn; [discriminate|]. intros H. apply andb_false_iff in H as [H|H].
  - exists x; auto.
  - destruct (IH H) as (y & I & F). exists y; auto.
Qed.

(* outcome of one step *)
Inductive const_case (s : const_state) (i : Z) (nd : node) (s' : const_state) (j : Z) : Prop :=
| CFold (T : ty) (v : value)
    (Hann : n_annots nd = [])
    (Hwhy : n_op nd = OConstant T v \/
            (T = n_ty nd /\ is_const_optimizable (n_op nd) = Ok true /\
             (forall d, In d (n_deps nd) -> exists c, consts_find (cs_consts s) d = Some c) /\
             exists dts, mapM (fun d => let* j := map_get (cs_map s) d in node_ty_at (cs_out s) j) (n_deps nd) = Ok dts /\
                         eval_node (n_op nd) dts (n_ty nd)
                                   (map (fun d => match consts_find (cs_consts s) d with Some v => v | None => VArr [] end)
                                        (n_deps nd)) = Ok v))
    (Hconsts : cs_consts s' = cs_consts s ++ [(i, v)])
    (Hres : (cache_find (cs_cache s) T v = Some j /\ cs_out s' = cs_out s /\ cs_cache s' = cs_cache s) \/
            (cache_find (cs_cache s) T v = None /\ j = Z.of_nat (length (cs_out s)) /\
             cs_out s' = cs_out s ++ [mkNode (OConstant T v) [] [] [] T] /\
             cs_cache s' = cs_cache s ++ [((T, v), j)]))
| CCopy (deps' : list Z)
    (Hnc : const_lit (n_op nd) = None)
    (Hdeps : mapM (map_get (cs_map s)) (n_deps nd) = Ok deps')
    (Hwhy : n_annots nd <> [] \/ is_const_optimizable (n_op nd) = Ok false \/
            exists d, In d (n_deps nd) /\ consts_find (cs_consts s) d = None)
    (Hj : j = Z.of_nat (length (cs_out s)))
    (Hout : cs_out s' = cs_out s ++ [mkNode (n_op nd) deps' [] (n_annots nd) (n_ty nd)])
    (Hcache : cs_cache s' = cs_cache s)
    (Hconsts : cs_consts s' = cs_consts s).

Lemma resolve_const_inv s t v s' j : resolve_const s t v = (s', j) ->
  cs_map s' = cs_map s /\ cs_consts s' = cs_consts s /\ cs_output s' = cs_output s /\
  ((cache_find (cs_cache s) t v = Some j /\ cs_out s' = cs_out s /\ cs_cache s' = cs_cache s) \/
   (cache_find (cs_cache s) t v = None /\ j = Z.of_nat (length (cs_out s)) /\
    cs_out s' = cs_out s ++ [mkNode (OConstant t v) [] [] [] t] /\
    cs_cache s' = cs_cache s ++ [((t, v), j)])).
Proof.
  unfold resolve_const. destruct (cache_find (cs_cache s) t v) as [j0|] eqn:F; intros H; injection H as <- <-; cbn;
    (split; [reflexivity|split; [reflexivity|split; [reflexivity|]]]); [left|right]; auto.
Qed.

Lemma opt_const_step_inv o s i nd s' i' :
  opt_const_step o (Ok (s, i)) nd = Ok (s', i') ->
  i' = i + 1 /\ n_gdeps nd = [] /\
  exists s1 j, const_case s i nd s1 j /\
    cs_out s' = cs_out s1 /\ cs_cache s' = cs_cache s1 /\ cs_consts s' = cs_consts s1 /\
    cs_map s' = cs_map s ++ [Some j] /\
    cs_output s' = (if eqb o (Some i) then Some j else cs_output s).
Proof.
  rewrite opt_const_step_eq. unfold const_step'. cbn [bind].
  destruct (n_gdeps nd) eqn:G; [|discriminate]. cbn [is_nil negb].
  intros H. apply bind_ok in H as ([s1 j] & E & H). injection H as <- <-. split; auto. split; auto.
  destruct (const_lit (n_op nd)) as [[t v]|] eqn:L.
  - apply const_lit_some in L. destruct (n_annots nd) eqn:A; [|discriminate]. cbn [is_nil negb] in E.
    injection E as E. apply resolve_const_inv in E as (E1 & E2 & E4 & E3). cbn in E1, E2, E3, E4.
    exists s1, j. cbn. split; [|rewrite E1, E4; repeat split; auto].
    apply (CFold s i nd s1 j t v); auto.
  - unfold const_other in E. apply bind_ok in E as (c0 & C0 & E). apply bind_ok in E as (deps' & D & E).
    destruct (c0 && _ && is_nil (n_annots nd)) eqn:C.
    + apply andb_true_iff in C as (C & A). apply andb_true_iff in C as (-> & AC).
      apply bind_ok in E as (dts & Dt & E). apply bind_ok in E as (v & Ev & E).
      injection E as E. apply resolve_const_inv in E as (E1 & E2 & E4 & E3). cbn in E1, E2, E3, E4.
      exists s1, j. cbn. split; [|rewrite E1, E4; repeat split; auto].
      apply (CFold s i nd s1 j (n_ty nd) v); auto.
      * destruct (n_annots nd); [auto|discriminate].
      * right. repeat split; auto.
        -- intros d I. rewrite forallb_forall in AC. specialize (AC d I).
           destruct (consts_find (cs_consts s) d); [eauto|discriminate].
        -- eauto.
    + injection E as <- <-. exists (mkCS (cs_out s ++ [mkNode (n_op nd) deps' [] (n_annots nd) (n_ty nd)])
                                       (cs_map s) (cs_cache s) (cs_consts s) (cs_output s)),
                                  (Z.of_nat (length (cs_out s))).
      cbn. split; [|repeat split; auto].
      apply (CCopy _ i nd _ _ deps'); auto. cbn.
      apply andb_false_iff in C as [C|C].
      * apply andb_false_iff in C as [->|C]; [auto|]. right; right.
        apply forallb_false_ex in C as (d & I & F). exists d. split; auto.
        destruct (consts_find (cs_consts s) d); [discriminate|reflexivity].
      * left. destruct (n_annots nd); [discriminate|congruence].
Qed.

(* ------------------------------------------------------------------ invariants *)
(* every mapped node keeps its type; it keeps operation and annotations unless it had no
   annotation and became a Constant of its own type *)
Definition keepsC (pre out : list node) (m : list (option Z)) : Prop :=
  forall k j, nth_error m k = Some (Some j) ->
    exists nd nd', nth_error pre k = Some nd /\ nth_error out (Z.to_nat j) = Some nd' /\ n_ty nd' = n_ty nd /\
      ((n_op nd' = n_op nd /\ n_annots nd' = n_annots nd) \/
       (n_annots nd = [] /\ n_annots nd' = [] /\ n_deps nd' = [] /\ exists v, n_op nd' = OConstant (n_ty nd) v)).

Lemma keepsC_nil out : keepsC [] out [].
Proof. intros [|k] j H; discriminate. Qed.
Lemma keepsC_app pre a out o2 m : keepsC pre out m -> keepsC (pre ++ a) (out ++ o2) m.
Proof.
  intros H k j E. apply H in E as (nd & nd' & E1 & E2 & E3). exists nd, nd'. repeat split; try tauto.
  - now apply nth_error_app1'.
  - now apply nth_error_app1'.
Qed.
Lemma keepsC_snoc pre a out m x : length m = length pre -> keepsC (pre ++ [a]) out m ->
  (forall j, x = Some j -> exists nd', nth_error out (Z.to_nat j) = Some nd' /\ n_ty nd' = n_ty a /\
      ((n_op nd' = n_op a /\ n_annots nd' = n_annots a) \/
       (n_annots a = [] /\ n_annots nd' = [] /\ n_deps nd' = [] /\ exists v, n_op nd' = OConstant (n_ty a) v))) ->
  keepsC (pre ++ [a]) out (m ++ [x]).
Proof.
  intros L H Hx k j E. apply nth_error_snoc_inv in E as [(Lk & E)|(-> & E)]; auto.
  destruct (Hx j (eq_sym E)) as (nd' & E1 & E2). exists a, nd'. rewrite L, nth_error_snoc. tauto.
Qed.

Definition cnode (T : ty) (v : value) : node := mkNode (OConstant T v) [] [] [] T.
Definition cache_ok (out : list node) (cache : list ((ty * value) * Z)) : Prop :=
  forall T v j, In ((T, v), j) cache -> 0 <= j /\ nth_error out (Z.to_nat j) = Some (cnode T v).
Lemma cache_ok_app out o2 cache : cache_ok out cache -> cache_ok (out ++ o2) cache.
Proof. intros H T v j I. destruct (H T v j I). split; auto. now apply nth_error_app1'. Qed.

Lemma cache_find_some c t v j : cache_find c t v = Some j -> In ((t, v), j) c.
Proof.
  unfold cache_find. destruct (find _ c) as [[[t0 v0] j0]|] eqn:F; [|discriminate].
  intros H; injection H as <-. apply find_some in F as (I & E). cbn in E.
  apply andb_true_iff in E as (E1 & E2). apply ty_eqb_eq in E1. apply value_eqb_eq in E2. now subst.
Qed.
Lemma consts_find_some c d x : consts_find c d = Some x -> In (d, x) c.
Proof.
  unfold consts_find. destruct (find _ c) as [[d0 x0]|] eqn:F; [|discriminate].
  intros H; injection H as <-. apply find_some in F as (I & E). cbn in E. assert (d0 = d) by lia. now subst.
Qed.

Lemma const_node_val out tape' vals' j T v :
  valuation eval_node from_tape out tape' vals' -> nth_error out j = Some (cnode T v) ->
  nth_error vals' j = Some v.
Proof.
  intros (L & H) E. destruct (nth_error vals' j) as [v'|] eqn:Ev.
  - specialize (H _ _ _ E Ev). unfold node_sem in H. cbn in H. destruct H as (vs & dts & _ & _ & H). congruence.
  - apply nth_error_None in Ev. apply nth_error_Some_lt in E. lia.
Qed.

Lemma Forall2_eq {A} (l l' : list A) : Forall2 eq l l' -> l = l'.
Proof. induction 1; congruence. Qed.

Section Const.
  Variables (nodes : list node) (o : option Z).
  Hypothesis Hct : const_typed nodes.

  Definition const_struct (pre : list node) (st : const_state * Z) : Prop :=
    let '(s, i) := st in
    i = Z.of_nat (length pre) /\ length (cs_map s) = length pre /\
    bounded (cs_map s) (length (cs_out s)) /\ keepsC pre (cs_out s) (cs_map s) /\
    cache_ok (cs_out s) (cs_cache s) /\
    input_sigs (cs_out s) = input_sigs pre /\
    fresh_spec pre (cs_out s) (cs_map s) /\
    cs_output s = out_spec o pre (cs_map s) /\
    (forall i0 nd0 j, nth_error pre i0 = Some nd0 -> from_tape (n_op nd0) = true ->
                      nth_error (cs_map s) i0 = Some (Some j) ->
                      forall i', (i' < i0)%nat -> nth_error (cs_map s) i' <> Some (Some j)).

  Lemma const_struct_init : const_struct [] (mkCS [] [] [] [] None, 0).
  Proof.
    cbn. splits; auto using bounded_nil, keepsC_nil, fresh_spec_nil.
    - intros T v j [].
    - unfold out_spec. destruct o as [x|]; auto. cbn. destruct ((0 <=? x) && (x <? 0)) eqn:E; auto; lia.
    - intros [|i0] nd0 j E; discriminate.
  Qed.

  Lemma const_struct_step pre a post st st' :
    nodes = pre ++ a :: post -> const_struct pre st -> opt_const_step o (Ok st) a = Ok st' ->
    const_struct (pre ++ [a]) st'.
  Proof.
    destruct st as [s i], st' as [s' i'].
    intros El (I1 & I2 & I3 & I4 & I5 & I6 & I7 & I9 & I10) St.
    apply opt_const_step_inv in St as (-> & Ga & s1 & j & Hc & Eout & Ecache & Econsts & Em & Eo).
    assert (Ia : In a nodes) by (rewrite El; apply in_app_iff; right; left; auto).
    cbn [const_struct]. rewrite Em, Eo, Eout, Ecache. rewrite !app_length; cbn [length].
    rewrite (out_spec_step o pre a (cs_map s) i j _ I1 I2 I9).
    assert (First : forall jj, (from_tape (n_op a) = true -> jj = Z.of_nat (length (cs_out s))) ->
              forall i0 nd0 j0, nth_error (pre ++ [a]) i0 = Some nd0 -> from_tape (n_op nd0) = true ->
                      nth_error (cs_map s ++ [Some jj]) i0 = Some (Some j0) ->
                      forall i', (i' < i0)%nat -> nth_error (cs_map s ++ [Some jj]) i' <> Some (Some j0)).
    { intros jj Hjj i1 nd1 j1 E1 Ft Ej i'' Li.
      apply nth_error_snoc_inv in E1 as [(L1 & E1)|(-> & ->)].
      - rewrite nth_error_app1 in Ej by lia. rewrite nth_error_app1 by lia. eapply I10; eauto.
      - rewrite <- I2, nth_error_snoc in Ej. injection Ej as <-. rewrite (Hjj Ft).
        rewrite nth_error_app1 by lia. intros X. apply I3 in X. lia. }
    destruct Hc as [T v Hann Hwhy Hconsts Hres | deps' Hnc Hdeps Hwhy Hj Hout Hcache Hconsts].
    - (* folded into a constant *)
      assert (Props : T = n_ty a /\ is_input (n_op a) = false /\ is_fresh_op (n_op a) = false /\ from_tape (n_op a) = false).
      { destruct Hwhy as [Eop|(-> & C0 & _ & dts & _ & Ev)].
        - rewrite Eop. cbn. repeat split; auto. symmetry. eapply Hct; eauto.
        - apply const_optimizable_true in C0 as (? & ?). apply eval_node_ok_not_tape in Ev. auto. }
      destruct Props as (-> & Pi & Pf & Pt).
      destruct Hres as [(Hf & -> & ->)|(Hf & -> & -> & ->)].
      + apply cache_find_some in Hf. destruct (I5 _ _ _ Hf) as (J & Ej).
        splits; auto; try lia.
        * apply bounded_snoc; auto. intros j0 E; injection E as <-. apply nth_error_Some_lt in Ej. lia.
        * apply keepsC_snoc; auto; [rewrite <- (app_nil_r (cs_out s)); now apply keepsC_app|].
          intros j0 E; injection E as <-. exists (cnode (n_ty a) v). split; [auto|]. split; [reflexivity|].
          right. split; [auto|]. split; [reflexivity|]. split; [reflexivity|]. exists v; reflexivity.
        * rewrite input_sigs_app, I6. unfold input_sigs at 3. cbn [filter]. rewrite Pi. cbn. now rewrite app_nil_r.
        * rewrite <- (app_nil_r (cs_out s)). apply fresh_spec_step_other; auto.
        * apply First. congruence.
      + rewrite app_length; cbn [length]. splits; auto; try lia.
        * apply bounded_snoc; [eapply bounded_mono; eauto; lia|]. intros j0 E; injection E as <-. lia.
        * apply keepsC_snoc; auto; [now apply keepsC_app|]. intros j0 E; injection E as <-.
          rewrite Nat2Z.id, nth_error_snoc. eexists; split; eauto. split; [reflexivity|].
          right. split; [auto|]. split; [reflexivity|]. split; [reflexivity|]. exists v; reflexivity.
        * intros T0 v0 j0 I. apply in_app_iff in I as [I|[I|[]]].
          -- now apply (cache_ok_app _ _ _ I5).
          -- injection I as <- <- <-. split; [lia|]. rewrite Nat2Z.id. apply nth_error_snoc.
        * rewrite !input_sigs_app, I6. unfold input_sigs at 3 4. cbn [filter n_op is_input]. rewrite Pi. reflexivity.
        * apply fresh_spec_step_other; auto.
        * apply First. congruence.
    - (* copied *)
      rewrite Hout, Hcache, app_length; cbn [length]. subst j. splits; auto; try lia.
      + apply bounded_snoc; [eapply bounded_mono; eauto; lia|]. intros j0 E; injection E as <-. lia.
      + apply keepsC_snoc; auto; [now apply keepsC_app|]. intros j0 E; injection E as <-.
        rewrite Nat2Z.id, nth_error_snoc. eexists; split; eauto.
      + now apply cache_ok_app.
      + rewrite !input_sigs_app, I6. f_equal. unfold input_sigs. cbn [filter n_op].
        destruct (is_input (n_op a)); reflexivity.
      + apply fresh_spec_step_copy; auto.
      + apply First. auto.
  Qed.

  Lemma const_struct_inv sN :
    fold_left (opt_const_step o) nodes (Ok (mkCS [] [] [] [] None, 0)) = Ok sN -> const_struct nodes sN.
  Proof.
    apply (fold_res_inv (opt_const_step o) const_struct).
    - apply opt_const_step_strict.
    - apply const_struct_init.
    - intros pre a post s s' El I St. eapply const_struct_step; eauto.
  Qed.

  Variables (tape : Z -> option value) (vals : list value).
  Hypothesis Hval : valuation eval_node from_tape nodes tape vals.

  Definition consts_ok (consts : list (Z * value)) : Prop :=
    forall i0 v0, In (i0, v0) consts -> 0 <= i0 /\ nth_error vals (Z.to_nat i0) = Some v0.

  Definition const_sem (pre : list node) (st : const_state * Z) : Prop :=
    let '(s, i) := st in
    consts_ok (cs_consts s) /\
    forall tape', tape_compat from_tape nodes (cs_map s) tape tape' ->
                  exists vals', valuation eval_node from_tape (cs_out s) tape' vals' /\
                                sim nodes (cs_out s) vals vals' (cs_map s).

  Lemma const_dep_vals consts i deps vs :
    consts_ok consts ->
    (forall d, In d deps -> exists c, consts_find consts d = Some c) ->
    mapM (dep_get vals i) deps = Ok vs ->
    map (fun d => match consts_find consts d with Some v => v | None => VArr [] end) deps = vs.
  Proof.
    intros Hc. revert vs. induction deps as [|d deps IH]; intros vs Hall H; cbn [mapM] in H.
    - now injection H as <-.
    - apply bind_ok in H as (x & Ex & H). apply bind_ok in H as (xs & Exs & H). injection H as <-.
      cbn [map]. f_equal.
      + destruct (Hall d (or_introl eq_refl)) as (c & Ec). rewrite Ec.
        apply consts_find_some, Hc in Ec as (_ & Ec). apply dep_get_ok in Ex as (_ & Ex). congruence.
      + apply IH; auto. intros d0 I. apply Hall. now right.
  Qed.

  Lemma const_dep_tys pre out m i deps dts dts' :
    keepsC pre out m -> (forall k nd, nth_error pre k = Some nd -> nth_error nodes k = Some nd) ->
    mapM (fun d => let* j := map_get m d in node_ty_at out j) deps = Ok dts' ->
    mapM (dep_get (map n_ty nodes) i) deps = Ok dts -> dts' = dts.
  Proof.
    intros S Pn M V. apply mapM_Forall2 in M, V. apply Forall2_eq.
    eapply Forall2_compose; eauto. cbn. intros d t' t _ Hd Ht.
    apply bind_ok in Hd as (j & Hj & Hd). unfold node_ty_at in Hd. apply bind_ok in Hd as (n & Hn & Hd).
    injection Hd as <-. apply map_get_ok in Hj as (_ & Hj). apply znth_ok in Hn as (_ & Hn).
    apply dep_get_ok in Ht as (_ & Ht).
    apply S in Hj as (nd & nd' & N1 & N2 & N3 & _). apply Pn in N1.
    rewrite (map_nth_error n_ty _ _ N1) in Ht. congruence.
  Qed.

  Lemma const_sem_step pre a post st st' :
    nodes = pre ++ a :: post -> const_struct pre st -> const_sem pre st -> opt_const_step o (Ok st) a = Ok st' ->
    const_sem (pre ++ [a]) st'.
  Proof.
    intros El Is I St.
    destruct st as [s i], st' as [s' i'].
    destruct Is as (I1 & I2 & I3 & I4 & I5 & _). destruct I as (Ic & I).
    apply opt_const_step_inv in St as (-> & Ga & s1 & j & Hc & Eout & Ecache & Econsts & Em & Eo).
    assert (Ia : In a nodes) by (rewrite El; apply in_app_iff; right; left; auto).
    assert (Pn : forall k nd, nth_error pre k = Some nd -> nth_error nodes k = Some nd).
    { intros k nd E. rewrite El. now apply nth_error_app1'. }
    assert (Ea : nth_error nodes (length pre) = Some a).
    { rewrite El, nth_error_app2, Nat.sub_diag by lia. reflexivity. }
    destruct Hval as (Lv & Hv).
    destruct (nth_error vals (length pre)) as [va|] eqn:Ev.
    2:{ apply nth_error_None in Ev. apply nth_error_Some_lt in Ea. lia. }
    pose proof (Hv _ _ _ Ea Ev) as Na.
    assert (Ej : nth_error (cs_map s ++ [Some j]) (length pre) = Some (Some j)).
    { rewrite <- I2. apply nth_error_snoc. }
    cbn [const_sem]. rewrite Em, Eout, Econsts.
    destruct Hc as [T v Hann Hwhy Hconsts Hres | deps' Hnc Hdeps Hwhy Hj Hout Hcache Hconsts].
    - assert (Props : T = n_ty a /\ v = va).
      { destruct Hwhy as [Eop|(-> & C0 & Hall & dts' & Dt & Evn)].
        - split; [symmetry; eapply Hct; eauto|].
          unfold node_sem in Na. rewrite Eop in Na. cbn in Na. destruct Na as (vs & dts & _ & _ & Na). congruence.
        - split; auto. pose proof (eval_node_ok_not_tape _ _ _ _ _ Evn) as Ft.
          unfold node_sem in Na. rewrite Ft in Na. destruct Na as (vs & dts & A1 & A2 & A3).
          rewrite (const_dep_vals _ _ _ _ Ic Hall A1) in Evn.
          rewrite (const_dep_tys _ _ _ _ _ _ _ I4 Pn Dt A2) in Evn. congruence. }
      destruct Props as (-> & ->). rewrite Hconsts. split.
      + intros i0 v0 In0. apply in_app_iff in In0 as [In0|[In0|[]]]; auto.
        injection In0 as <- <-. subst i. rewrite Nat2Z.id. split; [lia|auto].
      + intros tape' Tc.
        destruct (I tape' (tape_compat_prefix _ _ _ _ _ _ Tc)) as (vals' & V & S).
        destruct Hres as [(Hf & -> & _)|(Hf & -> & -> & _)].
        * exists vals'. split; auto. apply sim_snoc; auto. intros j0 E; injection E as <-. rewrite I2.
          apply cache_find_some in Hf. destruct (I5 _ _ _ Hf) as (J & Ejn).
          split; auto. split.
          -- exists va. split; auto. eapply const_node_val; eauto.
          -- exists a, (cnode (n_ty a) va). auto.
        * exists (vals' ++ [va]). destruct V as (Lv' & Hv'). split.
          -- apply valuation_snoc; [split; auto|]. unfold node_sem. cbn.
             exists [], []. auto.
          -- apply sim_snoc; [now apply sim_app|]. intros j0 E; injection E as <-.
             rewrite I2. split; [lia|]. split.
             ++ exists va. split; auto. rewrite Nat2Z.id, <- Lv'. apply nth_error_snoc.
             ++ exists a. eexists. split; auto. rewrite Nat2Z.id. split; [apply nth_error_snoc|reflexivity].
    - rewrite Hconsts, Hout. split; auto. intros tape' Tc. subst j.
      destruct (I tape' (tape_compat_prefix _ _ _ _ _ _ Tc)) as (vals' & V & S).
      exists (vals' ++ [va]). destruct V as (Lv' & Hv'). split.
      + apply valuation_snoc; [split; auto|].
        eapply copy_node_sem; eauto; intros F; eapply Tc; eauto.
      + apply sim_snoc; [now apply sim_app|]. intros j0 E; injection E as <-.
        rewrite I2. split; [lia|]. split.
        * exists va. split; auto. rewrite Nat2Z.id, <- Lv'. apply nth_error_snoc.
        * exists a. eexists. split; auto. rewrite Nat2Z.id. split; [apply nth_error_snoc|reflexivity].
  Qed.

  Lemma const_sem_inv sN :
    fold_left (opt_const_step o) nodes (Ok (mkCS [] [] [] [] None, 0)) = Ok sN -> const_sem nodes sN.
  Proof.
    intros Hfold.
    apply (fold_res_inv (opt_const_step o) (fun pre st => const_struct pre st /\ const_sem pre st) nodes _ _
                        (opt_const_step_strict o)) in Hfold; [tauto| |].
    - split; [apply const_struct_init|]. cbn. split; [intros i0 v0 []|].
      intros tape' _. exists []. split; [apply valuation_nil|apply sim_nil].
    - intros pre a post s s' El (Is & I) St. split.
      + eapply const_struct_step; eauto.
      + eapply const_sem_step; eauto.
  Qed.
End Const.

(* ------------------------------------------------------------------ theorems *)
Lemma opt_const_unfold nodes o :
  opt_const nodes o = let* (s, _) := fold_left (opt_const_step o) nodes (Ok (mkCS [] [] [] [] None, 0)) in
                      Ok (mkPassOut (cs_out s) (cs_map s) (cs_output s)).
Proof. reflexivity. Qed.

Theorem const_sem_thm nodes o p tape vals :
  const_typed nodes ->
  opt_const nodes o = Ok p ->
  valuation eval_node from_tape nodes tape vals ->
  forall tape', tape_compat from_tape nodes (po_map p) tape tape' ->
    exists vals', valuation eval_node from_tape (po_nodes p) tape' vals' /\
                  sim nodes (po_nodes p) vals vals' (po_map p).
Proof.
  rewrite opt_const_unfold. intros T H V. apply bind_ok in H as ([s i] & E & H). injection H as <-.
  cbn [po_nodes po_map]. apply (const_sem_inv nodes o T tape vals V) in E. apply E.
Qed.

Theorem const_struct_thm nodes o p :
  const_typed nodes ->
  opt_const nodes o = Ok p ->
  length (po_map p) = length nodes /\
  bounded (po_map p) (length (po_nodes p)) /\
  keepsC nodes (po_nodes p) (po_map p) /\
  input_sigs (po_nodes p) = input_sigs nodes /\
  fresh_spec nodes (po_nodes p) (po_map p) /\
  (forall x, o = Some x -> 0 <= x < Z.of_nat (length nodes) ->
             nth_error (po_map p) (Z.to_nat x) = Some (po_output p)) /\
  ft_first from_tape nodes (po_map p).
Proof.
  rewrite opt_const_unfold. intros T H. apply bind_ok in H as ([s i] & E & H). injection H as <-.
  cbn [po_nodes po_map po_output].
  apply (const_struct_inv nodes o T) in E as (I1 & I2 & I3 & I4 & I5 & I6 & I7 & I9 & I10).
  splits; auto.
  - intros x -> R. rewrite I9. unfold out_spec.
    replace ((0 <=? x) && (x <? Z.of_nat (length nodes))) with true by lia.
    destruct (nth_error (cs_map s) (Z.to_nat x)) eqn:X; auto. apply nth_error_None in X. lia.
Qed.

(* Proofs about Model/Adder.v (C17): the segment tree of generate/propagate nodes computes
   the ripple carries, hence BinaryAdd returns the sum modulo 2^n and the true carry-out,
   for every width n = 2^k. *)
From CC Require Import Base.Prelude Model.Adder.

(* ---------------------------------------------------------------- bitstrings and integers *)
Lemma bval_range l : 0 <= bval l < 2 ^ Z.of_nat (length l).
Proof.
  induction l as [|b r IH]; cbn [bval length].
  - change (2 ^ Z.of_nat 0) with 1. lia.
  - rewrite Nat2Z.inj_succ, Z.pow_succ_r by lia. destruct b; cbn [Z.b2z]; lia.
Qed.

Lemma bits_of_length n x : length (bits_of n x) = n.
Proof. revert x; induction n as [|n IH]; intros x; cbn [bits_of length]; auto. Qed.

Lemma b2z_odd x : Z.b2z (Z.odd x) = x mod 2.
Proof. rewrite Zmod_odd. destruct (Z.odd x); reflexivity. Qed.

Lemma bval_bits_of n x : bval (bits_of n x) = x mod 2 ^ Z.of_nat n.
Proof.
  revert x; induction n as [|n IH]; intros x.
  - cbn [bits_of bval]. change (2 ^ Z.of_nat 0) with 1. now rewrite Z.mod_1_r.
  - cbn [bits_of bval]. rewrite IH, b2z_odd, Nat2Z.inj_succ, Z.pow_succ_r by lia.
    assert (0 < 2 ^ Z.of_nat n) by (apply Z.pow_pos_nonneg; lia).
    rewrite (Z.rem_mul_r x 2 (2 ^ Z.of_nat n)) by lia. reflexivity.
Qed.

Lemma bits_of_bval l : bits_of (length l) (bval l) = l.
Proof.
  induction l as [|b r IH]; cbn [length bits_of bval]; [reflexivity|].
  f_equal.
  - rewrite Z.odd_add_mul_2. destruct b; reflexivity.
  - replace ((Z.b2z b + 2 * bval r) / 2) with (bval r); [exact IH|].
    destruct b; cbn [Z.b2z]; lia.
Qed.

Lemma bits_eq_of_bval l n x : length l = n -> bval l = x mod 2 ^ Z.of_nat n -> l = bits_of n x.
Proof.
  intros Hl Hv. rewrite <- (bits_of_bval l), Hl, Hv, <- (bval_bits_of n x).
  pose proof (bits_of_bval (bits_of n x)) as H. rewrite bits_of_length in H. exact H.
Qed.

(* ---------------------------------------------------------------- list helpers *)
Lemma list_ind2 {A} (P : list A -> Prop) :
  P [] -> (forall a, P [a]) -> (forall a b r, P r -> P (a :: b :: r)) -> forall l, P l.
Proof.
  intros H0 H1 H2 l. enough (P l /\ forall a, P (a :: l)) by tauto.
  induction l as [|x r [IH1 IH2]]; split; auto.
Qed.

Lemma map2_length {A B C} (f : A -> B -> C) l1 l2 :
  length (map2 f l1 l2) = Nat.min (length l1) (length l2).
Proof. revert l2; induction l1 as [|x r IH]; intros [|y s]; cbn [map2 length Nat.min]; auto. Qed.

Lemma every2_cons {A} (x : A) r : every2 (x :: r) = x :: every2 (tl r).
Proof. destruct r; reflexivity. Qed.

Lemma every2_length {A} (l : list A) : length (every2 l) = ((length l + 1) / 2)%nat.
Proof.
  induction l as [| a | a b r IH] using list_ind2; try reflexivity.
  cbn [every2 length]. rewrite IH.
  replace (S (S (length r)) + 1)%nat with ((length r + 1) + 1 * 2)%nat by lia.
  rewrite Nat.div_add by lia. lia.
Qed.

Lemma interleave_length {A} (l1 l2 : list A) :
  length l1 = length l2 -> length (interleave l1 l2) = (2 * length l1)%nat.
Proof.
  revert l2; induction l1 as [|x r IH]; intros [|y s] H; cbn [interleave length] in *; try lia.
  rewrite IH by lia. lia.
Qed.

Lemma last_every2_odd {A} (l : list A) d :
  Nat.odd (length l) = true -> last (every2 l) d = last l d.
Proof.
  induction l as [| a | a b r IH] using list_ind2; intros H; try reflexivity; try discriminate.
  change (length (a :: b :: r)) with (S (S (length r))) in H.
  rewrite Nat.odd_succ_succ in H. specialize (IH H).
  destruct r as [|c r']; [discriminate|].
  change (every2 (a :: b :: c :: r')) with (a :: every2 (c :: r')).
  change (last (a :: b :: c :: r') d) with (last (c :: r') d).
  rewrite <- IH. rewrite every2_cons. reflexivity.
Qed.

(* ---------------------------------------------------------------- the generate/propagate monoid *)
Notation node := (bool * bool)%type (only parsing).   (* (propagate, generate) *)
Definition napply (n : node) (c : bool) : bool := xorb (snd n) (andb (fst n) c).
Definition njoin (lo hi : node) : node :=
  (andb (fst lo) (fst hi), xorb (snd hi) (andb (fst hi) (snd lo))).

(* joining two segments is composing their carry functions *)
Lemma napply_njoin lo hi c : napply (njoin lo hi) c = napply hi (napply lo c).
Proof. destruct lo as [[] []], hi as [[] []], c; reflexivity. Qed.

Lemma njoin_assoc a b c : njoin (njoin a b) c = njoin a (njoin b c).
Proof. destruct a as [[] []], b as [[] []], c as [[] []]; reflexivity. Qed.

(* ripple carries: carry into every node, then the carry out of the last one *)
Fixpoint scan (c : bool) (l : list node) : list bool :=
  match l with [] => [c] | n :: r => c :: scan (napply n c) r end.

Fixpoint pairjoin (l : list node) : list node :=
  match l with a :: b :: r => njoin a b :: pairjoin r | _ => [] end.

Lemma scan_length c l : length (scan c l) = S (length l).
Proof. revert c; induction l as [|n r IH]; intros c; cbn [scan length]; auto. Qed.

Lemma scan_nonempty c l : scan c l <> [].
Proof. destruct l; discriminate. Qed.

Lemma pairjoin_length l : length (pairjoin l) = (length l / 2)%nat.
Proof.
  induction l as [| a | a b r IH] using list_ind2; try reflexivity.
  cbn [pairjoin length]. rewrite IH.
  replace (S (S (length r))) with (length r + 1 * 2)%nat by lia.
  rewrite Nat.div_add by lia. lia.
Qed.

(* layer invariant, bottom-up: the carries of the joined layer are the even carries *)
Lemma scan_pairjoin l : forall c, scan c (pairjoin l) = every2 (scan c l).
Proof.
  induction l as [| a | a b r IH] using list_ind2; intros c; try reflexivity.
  cbn [pairjoin scan]. rewrite IH, napply_njoin. reflexivity.
Qed.

(* layer invariant, top-down: the known even carries give the odd ones *)
Lemma push_down_nodes l : forall c t, (t <= length (every2 l))%nat ->
  let cs := firstn t (scan c (pairjoin l)) in
  interleave cs (map2 napply (every2 l) cs) = firstn (2 * t) (scan c l).
Proof.
  induction l as [| a | a b r IH] using list_ind2; intros c t Ht; cbv zeta.
  - cbn [every2 length] in Ht. assert (t = 0)%nat as -> by lia. reflexivity.
  - cbn [every2 length] in Ht. destruct t as [|[|t]]; try lia; reflexivity.
  - destruct t as [|t]; [reflexivity|].
    cbn [every2 length] in Ht.
    cbn [pairjoin scan]. rewrite napply_njoin.
    replace (2 * S t)%nat with (S (S (2 * t))) by lia.
    cbn [firstn every2 map2 interleave]. do 2 f_equal.
    apply IH. lia.
Qed.

Lemma scan_firstn l : forall c m, (m <= length l)%nat ->
  scan c (firstn m l) = firstn (S m) (scan c l).
Proof.
  induction l as [|n r IH]; intros c m Hm.
  - cbn [length] in Hm. assert (m = 0)%nat as -> by lia. reflexivity.
  - destruct m as [|m]; [reflexivity|]. cbn [length] in Hm.
    cbn [firstn scan]. f_equal. rewrite IH by lia. reflexivity.
Qed.

Lemma pairjoin_firstn l : forall k, pairjoin (firstn (k * 2) l) = firstn k (pairjoin l).
Proof.
  induction l as [| a | a b r IH] using list_ind2; intros k.
  - destruct k; reflexivity.
  - destruct k as [|k]; [reflexivity|]. cbn [Nat.mul Nat.add firstn pairjoin].
    destruct (k * 2)%nat; reflexivity.
  - destruct k as [|k]; [reflexivity|].
    cbn [Nat.mul Nat.add firstn pairjoin]. f_equal. apply IH.
Qed.

(* ---------------------------------------------------------------- CarryNode as a list of nodes *)
Definition nodes (c : carry_node) : list node := combine (cn_p c) (cn_g c).
Definition wf (c : carry_node) : Prop := length (cn_p c) = length (cn_g c).

Lemma nodes_length c : wf c -> length (nodes c) = bit_len c.
Proof. unfold wf, nodes, bit_len. intros H. rewrite combine_length, <- H. lia. Qed.

Lemma join_slices p : forall g, length p = length g ->
  combine (band (every2 p) (every2 (tl p)))
          (bxor (every2 (tl g)) (band (every2 (tl p)) (every2 g)))
  = pairjoin (combine p g).
Proof.
  induction p as [| a | a b r IH] using list_ind2; intros g Hg.
  - destruct g; [reflexivity|discriminate].
  - destruct g as [|x [|y s]]; try discriminate. reflexivity.
  - destruct g as [|x [|y s]]; try discriminate.
    cbn [length] in Hg. assert (length r = length s) as Hrs by lia.
    rewrite (every2_cons a), (every2_cons x).
    cbn [tl]. rewrite (every2_cons b), (every2_cons y).
    cbn [tl combine pairjoin]. unfold band, bxor in *. cbn [map2 combine].
    f_equal. apply IH. exact Hrs.
Qed.

Lemma slice2_0 {A} stop (l : list A) : slice2 0 stop l = every2 (firstn stop l).
Proof. reflexivity. Qed.
Lemma slice2_1 {A} stop (l : list A) : slice2 1 stop l = every2 (tl (firstn stop l)).
Proof. unfold slice2. destruct (firstn stop l); reflexivity. Qed.

Definition next_bits (ob : bool) (bl : nat) : nat :=
  if ob then (bl / 2)%nat else ((bl - 1) / 2)%nat.

Lemma shrink_nodes ob c : wf c ->
  nodes (shrink ob c) = firstn (next_bits ob (bit_len c)) (pairjoin (nodes c)).
Proof.
  intros Hwf. unfold shrink, join, sub_slice, nodes. cbn [cn_p cn_g].
  fold (next_bits ob (bit_len c)). set (k := next_bits ob (bit_len c)).
  rewrite !slice2_0, !slice2_1.
  rewrite join_slices.
  - rewrite <- combine_firstn. apply pairjoin_firstn.
  - rewrite !firstn_length. unfold wf in Hwf. lia.
Qed.

Lemma next_bits_le ob bl : (next_bits ob bl * 2 <= bl)%nat.
Proof. unfold next_bits. destruct ob; lia. Qed.

Lemma shrink_wf ob c : wf c ->
  wf (shrink ob c) /\ bit_len (shrink ob c) = next_bits ob (bit_len c).
Proof.
  intros Hwf. unfold wf in Hwf. unfold shrink, join, sub_slice, wf, bit_len. cbn [cn_p cn_g].
  fold (bit_len c). fold (next_bits ob (bit_len c)).
  pose proof (next_bits_le ob (bit_len c)) as Hle. set (k := next_bits ob (bit_len c)) in *.
  unfold bit_len in Hle.
  rewrite !slice2_0, !slice2_1. unfold band, bxor.
  rewrite !map2_length, !every2_length.
  assert (length (firstn (k * 2) (cn_p c)) = k * 2)%nat as E1 by (rewrite firstn_length; lia).
  assert (length (firstn (k * 2) (cn_g c)) = k * 2)%nat as E2 by (rewrite firstn_length; lia).
  assert (forall l : bits, length (tl l) = (length l - 1)%nat) as Htl by (intros [|? ?]; cbn; lia).
  rewrite !Htl, E1, E2. split; lia.
Qed.

Lemma apply_nodes P : forall G cs, length P = length G ->
  bxor G (band P cs) = map2 napply (combine P G) cs.
Proof.
  induction P as [|p P IH]; intros [|g G] cs H; try discriminate; [reflexivity|].
  destruct cs as [|c cs]; [reflexivity|]. unfold bxor, band in *.
  cbn [map2 combine]. f_equal. apply IH. cbn [length] in H. lia.
Qed.

Lemma every2_combine {A B} (p : list A) : forall (g : list B),
  every2 (combine p g) = combine (every2 p) (every2 g).
Proof.
  induction p as [| a | a b r IH] using list_ind2; intros g.
  - reflexivity.
  - destruct g as [|x [|y s]]; reflexivity.
  - destruct g as [|x [|y s]]; try reflexivity.
    + cbn [combine every2]. destruct (every2 r); reflexivity.
    + cbn [combine every2]. f_equal. apply IH.
Qed.

(* one step of the top-down pass, on the node view *)
Lemma push_down_spec node c t cs : wf node ->
  cs = firstn t (scan c (pairjoin (nodes node))) ->
  (t <= length (every2 (nodes node)))%nat ->
  push_down cs node = firstn (2 * t) (scan c (nodes node)).
Proof.
  intros Hwf -> Ht. unfold push_down, apply, sub_slice. cbn [cn_p cn_g].
  rewrite !slice2_0. unfold bit_len. rewrite firstn_all.
  unfold wf in Hwf. rewrite Hwf, firstn_all.
  rewrite apply_nodes by (rewrite !every2_length; lia).
  rewrite <- every2_combine. fold (nodes node).
  apply push_down_nodes. exact Ht.
Qed.

(* ---------------------------------------------------------------- the two node chains *)
Lemma pow2_pos k : (1 <= 2 ^ k)%nat.
Proof. induction k; cbn [Nat.pow]; lia. Qed.

Lemma firstn_all_le {A} n (l : list A) : (length l <= n)%nat -> firstn n l = l.
Proof. apply firstn_all2. Qed.

(* overflow_bit = true: layers of 2^k, 2^(k-1), ..., 1 nodes *)
Lemma chain_full k : forall last acc0 fuel c0,
  wf last -> bit_len last = (2 ^ k)%nat -> (k <= fuel)%nat ->
  exists root mid,
    build_nodes fuel true last (last :: acc0) = Ok (root :: mid ++ acc0) /\
    (forall c, apply root [c] = [List.last (scan c (nodes last)) false]) /\
    fold_left push_down mid [c0] = firstn (2 ^ k) (scan c0 (nodes last)).
Proof.
  induction k as [|k IH]; intros last acc0 fuel c0 Hwf Hlen Hfuel.
  - exists last, []. cbn [Nat.pow] in Hlen.
    assert (build_nodes fuel true last (last :: acc0) = Ok (last :: acc0)) as ->.
    { destruct fuel; cbn [build_nodes]; rewrite Hlen; reflexivity. }
    split; [reflexivity|].
    unfold wf, bit_len in *. unfold nodes, apply.
    destruct (cn_p last) as [|p [|? ?]]; try discriminate.
    destruct (cn_g last) as [|g [|? ?]]; try discriminate.
    split; [intros c|]; reflexivity.
  - destruct fuel as [|fuel]; [lia|].
    pose proof (pow2_pos k) as Hpos.
    assert (2 ^ S k = 2 * 2 ^ k)%nat as Hpow by (cbn [Nat.pow]; lia).
    cbn [build_nodes]. rewrite Hlen.
    replace (2 ^ S k <=? 1)%nat with false by (symmetry; apply Nat.leb_gt; lia).
    destruct (shrink_wf true last Hwf) as [Hwf' Hlen'].
    pose proof (shrink_nodes true last Hwf) as Hn.
    unfold next_bits in Hlen', Hn. rewrite Hlen in Hlen', Hn.
    assert ((2 ^ S k) / 2 = 2 ^ k)%nat as Hhalf.
    { rewrite Hpow, Nat.mul_comm, Nat.div_mul by lia. reflexivity. }
    rewrite Hhalf in Hlen', Hn.
    assert (length (nodes last) = 2 ^ S k)%nat as Hnl by (rewrite nodes_length; auto).
    rewrite firstn_all_le in Hn by (rewrite pairjoin_length, Hnl, Hhalf; lia).
    set (nx := shrink true last) in *.
    destruct (IH nx (last :: acc0) fuel c0 Hwf' Hlen' ltac:(lia)) as (root & mid & Hb & Hroot & Hfold).
    exists root, (mid ++ [last]). split; [|split].
    + rewrite Hb. rewrite <- app_assoc. reflexivity.
    + intros c. rewrite Hroot, Hn, scan_pairjoin. f_equal.
      apply last_every2_odd. rewrite scan_length, Hnl, Hpow.
      rewrite Nat.odd_succ, Nat.even_mul. reflexivity.
    + rewrite fold_left_app. cbn [fold_left]. rewrite Hfold.
      rewrite (push_down_spec last c0 (2 ^ k) _ Hwf).
      * rewrite Hpow. reflexivity.
      * rewrite Hn. reflexivity.
      * rewrite every2_length, Hnl, Hpow.
        replace (2 * 2 ^ k + 1)%nat with (1 + 2 ^ k * 2)%nat by lia.
        rewrite Nat.div_add by lia. cbn. lia.
Qed.

(* overflow_bit = false, below the first layer: layers of 2^(j+1)-1, ..., 3, 1 nodes *)
Lemma chain_trimmed j : forall last acc0 fuel c0,
  wf last -> bit_len last = (2 ^ S j - 1)%nat -> (j <= fuel)%nat ->
  exists nl,
    build_nodes fuel false last (last :: acc0) = Ok (nl ++ last :: acc0) /\
    fold_left push_down (nl ++ [last]) [c0] = scan c0 (nodes last).
Proof.
  induction j as [|j IH]; intros last acc0 fuel c0 Hwf Hlen Hfuel.
  - exists []. change (2 ^ 1 - 1)%nat with 1%nat in Hlen.
    assert (build_nodes fuel false last (last :: acc0) = Ok (last :: acc0)) as ->.
    { destruct fuel; cbn [build_nodes]; rewrite Hlen; reflexivity. }
    split; [reflexivity|].
    cbn [app fold_left].
    assert (length (nodes last) = 1)%nat as Hnl by (rewrite nodes_length; auto).
    rewrite (push_down_spec last c0 1 _ Hwf).
    + apply firstn_all_le. rewrite scan_length, Hnl. lia.
    + destruct (nodes last) as [|n [|? ?]]; try discriminate. reflexivity.
    + rewrite every2_length, Hnl. cbn. lia.
  - destruct fuel as [|fuel]; [lia|].
    pose proof (pow2_pos j) as Hpos.
    assert (2 ^ S (S j) = 4 * 2 ^ j)%nat as Hpow by (cbn [Nat.pow]; lia).
    assert (2 ^ S j = 2 * 2 ^ j)%nat as Hpow' by (cbn [Nat.pow]; lia).
    cbn [build_nodes]. rewrite Hlen.
    replace (2 ^ S (S j) - 1 <=? 1)%nat with false by (symmetry; apply Nat.leb_gt; lia).
    destruct (shrink_wf false last Hwf) as [Hwf' Hlen'].
    pose proof (shrink_nodes false last Hwf) as Hn.
    unfold next_bits in Hlen', Hn. rewrite Hlen in Hlen', Hn.
    assert ((2 ^ S (S j) - 1 - 1) / 2 = 2 ^ S j - 1)%nat as Hhalf.
    { rewrite Hpow, Hpow'.
      replace (4 * 2 ^ j - 1 - 1)%nat with ((2 * 2 ^ j - 1) * 2)%nat by lia.
      apply Nat.div_mul. lia. }
    rewrite Hhalf in Hlen', Hn.
    assert (length (nodes last) = 2 ^ S (S j) - 1)%nat as Hnl by (rewrite nodes_length; auto).
    assert (length (pairjoin (nodes last)) = 2 ^ S j - 1)%nat as Hpl.
    { rewrite pairjoin_length, Hnl, Hpow, Hpow'.
      replace (4 * 2 ^ j - 1)%nat with (1 + (2 * 2 ^ j - 1) * 2)%nat by lia.
      rewrite Nat.div_add by lia. cbn. lia. }
    rewrite firstn_all_le in Hn by lia.
    set (nx := shrink false last) in *.
    destruct (IH nx (last :: acc0) fuel c0 Hwf' Hlen' ltac:(lia)) as (nl & Hb & Hfold).
    exists (nl ++ [nx]). split.
    + rewrite Hb. rewrite <- app_assoc. reflexivity.
    + rewrite fold_left_app. cbn [fold_left]. rewrite Hfold.
      rewrite (push_down_spec last c0 (2 ^ S j) _ Hwf).
      * apply firstn_all_le. rewrite scan_length, Hnl. lia.
      * rewrite Hn. symmetry. apply firstn_all_le. rewrite scan_length, Hpl. lia.
      * rewrite every2_length, Hnl, Hpow, Hpow'.
        replace (4 * 2 ^ j - 1 + 1)%nat with ((2 * 2 ^ j) * 2)%nat by lia.
        rewrite Nat.div_mul by lia. lia.
Qed.

Lemma is_pow2_fuel_pow k : forall fuel, (k < fuel)%nat -> is_pow2_fuel fuel (2 ^ k) = true.
Proof.
  induction k as [|k IH]; intros fuel Hf; (destruct fuel as [|fuel]; [lia|]).
  - reflexivity.
  - pose proof (pow2_pos k). cbn [is_pow2_fuel].
    assert (2 ^ S k = 2 * 2 ^ k)%nat as Hpow by (cbn [Nat.pow]; lia).
    replace (2 ^ S k =? 1)%nat with false by (symmetry; apply Nat.eqb_neq; lia).
    replace (2 ^ S k =? 0)%nat with false by (symmetry; apply Nat.eqb_neq; lia).
    rewrite Hpow, Nat.even_mul. cbn [Nat.even orb].
    rewrite Nat.mul_comm, Nat.div_mul by lia. apply IH. lia.
Qed.

Lemma is_power_of_two_pow k : is_power_of_two (2 ^ k) = true.
Proof.
  unfold is_power_of_two. apply is_pow2_fuel_pow.
  pose proof (Nat.pow_gt_lin_r 2 k). lia.
Qed.

(* calculate_carry_bits returns the ripple carries into every position, and the carry out *)
Theorem calculate_carry_bits_spec k p g ob :
  length p = (2 ^ k)%nat -> length g = (2 ^ k)%nat ->
  calculate_carry_bits p g ob =
  Ok (firstn (2 ^ k) (scan false (combine p g)),
      if ob then Some [List.last (scan false (combine p g)) false] else None).
Proof.
  intros Hp Hg. unfold calculate_carry_bits.
  set (node0 := CN p g).
  assert (wf node0) as Hwf by (unfold wf, node0; cbn [cn_p cn_g]; lia).
  assert (bit_len node0 = 2 ^ k)%nat as Hbl by exact Hp.
  change (combine p g) with (nodes node0).
  assert (length (nodes node0) = 2 ^ k)%nat as Hnl by (rewrite nodes_length; auto).
  rewrite Hbl, is_power_of_two_pow. cbn [negb].
  pose proof (pow2_pos k) as Hpos.
  pose proof (Nat.pow_gt_lin_r 2 k ltac:(lia)) as Hlin.
  destruct ob; cbn [negb andb orb].
  - (* overflow bit requested *)
    destruct (chain_full k node0 [] (2 ^ k) false Hwf Hbl ltac:(lia)) as (root & mid & Hb & Hroot & Hfold).
    rewrite Hb. cbn [bind]. rewrite app_nil_r, Hroot, Hfold. reflexivity.
  - destruct k as [|[|k]].
    + (* one bit *)
      change (2 ^ 0)%nat with 1%nat. cbn [Nat.eqb bind].
      change (2 ^ 0)%nat with 1%nat in Hnl.
      destruct (nodes node0) as [|n [|? ?]]; try discriminate. reflexivity.
    + (* two bits: no join on the first layer *)
      change (2 ^ 1)%nat with 2%nat in *. cbn [Nat.eqb Nat.ltb Nat.leb bind fold_left].
      rewrite (push_down_spec node0 false 1 _ Hwf); try reflexivity.
      * destruct (nodes node0) as [|n [|? ?]]; try discriminate. reflexivity.
      * rewrite every2_length, Hnl. cbn. lia.
    + assert (2 ^ S (S k) = 4 * 2 ^ k)%nat as Hpow by (cbn [Nat.pow]; lia).
      assert (2 ^ S k = 2 * 2 ^ k)%nat as Hpow' by (cbn [Nat.pow]; lia).
      pose proof (pow2_pos k) as Hpos'.
      replace (2 ^ S (S k) =? 1)%nat with false by (symmetry; apply Nat.eqb_neq; lia).
      replace (2 <? 2 ^ S (S k))%nat with true by (symmetry; apply Nat.ltb_lt; lia).
      remember (2 ^ S (S k))%nat as L eqn:HL.
      destruct L as [|f]; [lia|].
      cbn [build_nodes]. rewrite Hbl.
      replace (S f <=? 1)%nat with false by (symmetry; apply Nat.leb_gt; lia).
      destruct (shrink_wf false node0 Hwf) as [Hwf' Hlen'].
      pose proof (shrink_nodes false node0 Hwf) as Hn.
      unfold next_bits in Hlen', Hn. rewrite Hbl in Hlen', Hn.
      assert ((S f - 1) / 2 = 2 ^ S k - 1)%nat as Hhalf.
      { rewrite Hpow, Hpow'.
        replace (4 * 2 ^ k - 1)%nat with (1 + (2 * 2 ^ k - 1) * 2)%nat by lia.
        rewrite Nat.div_add by lia. cbn. lia. }
      rewrite Hhalf in Hlen', Hn.
      set (nx := shrink false node0) in *.
      destruct (chain_trimmed k nx [node0] f false Hwf' Hlen' ltac:(lia)) as (nl & Hb & Hfold).
      rewrite Hb. cbn [bind].
      replace (nl ++ [nx; node0]) with ((nl ++ [nx]) ++ [node0]) by (rewrite <- app_assoc; reflexivity).
      rewrite fold_left_app. cbn [fold_left]. rewrite Hfold.
      rewrite (push_down_spec node0 false (2 ^ S k) _ Hwf).
      * rewrite Hpow, Hpow'. do 3 f_equal. lia.
      * rewrite Hn, scan_firstn.
        -- f_equal. lia.
        -- rewrite pairjoin_length, Hnl, Hpow, Hpow'.
           replace (4 * 2 ^ k)%nat with ((2 * 2 ^ k) * 2)%nat by lia.
           rewrite Nat.div_mul by lia. lia.
      * rewrite every2_length, Hnl, Hpow, Hpow'.
        replace (4 * 2 ^ k + 1)%nat with (1 + (2 * 2 ^ k) * 2)%nat by lia.
        rewrite Nat.div_add by lia. cbn. lia.
Qed.

(* ---------------------------------------------------------------- ripple carries add *)
Lemma last_cons_scan c c' l d : List.last (c :: scan c' l) d = List.last (scan c' l) d.
Proof. destruct l; reflexivity. Qed.

Lemma ripple_adds a : forall b c, length a = length b ->
  let cs := scan c (combine (bxor a b) (band a b)) in
  bval (bxor (firstn (length a) cs) (bxor a b))
  + 2 ^ Z.of_nat (length a) * Z.b2z (List.last cs false)
  = bval a + bval b + Z.b2z c.
Proof.
  induction a as [|x a IH]; intros [|y b] c H; try discriminate; cbv zeta.
  - cbn [length bxor band map2 combine scan firstn bval List.last].
    change (2 ^ Z.of_nat 0) with 1. lia.
  - cbn [length] in H. assert (length a = length b) as H' by lia.
    unfold bxor, band in *. cbn [map2 combine scan length firstn bval].
    rewrite last_cons_scan.
    specialize (IH b (napply (xorb x y, andb x y) c) H'). cbv zeta in IH.
    rewrite Nat2Z.inj_succ, Z.pow_succ_r by lia.
    set (S1 := bval (map2 xorb (firstn (length a) (scan (napply (xorb x y, andb x y) c)
                  (combine (map2 xorb a b) (map2 andb a b)))) (map2 xorb a b))) in *.
    set (LC := Z.b2z (List.last (scan (napply (xorb x y, andb x y) c)
                  (combine (map2 xorb a b) (map2 andb a b))) false)) in *.
    assert (Z.b2z (xorb c (xorb x y)) + 2 * Z.b2z (napply (xorb x y, andb x y) c)
            = Z.b2z x + Z.b2z y + Z.b2z c) as Hbit by (destruct x, y, c; reflexivity).
    nia.
Qed.

(* ---------------------------------------------------------------- BinaryAdd *)
Definition carry_out (n : nat) (s : Z) : bool := 2 ^ Z.of_nat n <=? s.

Theorem binary_add_spec k a b ob :
  length a = (2 ^ k)%nat -> length b = (2 ^ k)%nat ->
  binary_add ob a b =
  Ok (bits_of (2 ^ k) (bval a + bval b),
      if ob then Some [carry_out (2 ^ k) (bval a + bval b)] else None).
Proof.
  intros Ha Hb. unfold binary_add, binary_add_transposed.
  rewrite Ha, Hb, Nat.eqb_refl. cbn [negb].
  assert (length (bxor a b) = 2 ^ k)%nat as Hx by (unfold bxor; rewrite map2_length; lia).
  assert (length (band a b) = 2 ^ k)%nat as Hn by (unfold band; rewrite map2_length; lia).
  rewrite (calculate_carry_bits_spec k _ _ ob Hx Hn). cbn [bind].
  pose proof (ripple_adds a b false ltac:(lia)) as R. cbv zeta in R.
  rewrite Ha in R. cbn [Z.b2z] in R. rewrite Z.add_0_r in R.
  set (cs := scan false (combine (bxor a b) (band a b))) in *.
  set (s := bxor (firstn (2 ^ k) cs) (bxor a b)) in *.
  assert (length s = 2 ^ k)%nat as Hs.
  { unfold s, bxor at 1. rewrite map2_length, firstn_length. unfold cs.
    rewrite scan_length, combine_length, Hx, Hn. lia. }
  pose proof (bval_range s) as Rs. rewrite Hs in Rs.
  pose proof (bval_range a) as Ra. pose proof (bval_range b) as Rb. rewrite Ha in Ra. rewrite Hb in Rb.
  set (M := 2 ^ Z.of_nat (2 ^ k)) in *.
  assert (s = bits_of (2 ^ k) (bval a + bval b)) as Es.
  { apply bits_eq_of_bval; [exact Hs|]. fold M.
    destruct (List.last cs false); cbn [Z.b2z] in R.
    - apply Z.mod_unique with (q := 1); lia.
    - apply Z.mod_unique with (q := 0); lia. }
  rewrite <- Es. f_equal. f_equal.
  destruct ob; [|reflexivity]. do 2 f_equal. unfold carry_out. fold M.
  destruct (List.last cs false); cbn [Z.b2z] in R; symmetry; [apply Z.leb_le | apply Z.leb_gt]; lia.
Qed.

(* the statement of C17 for the adder, on integers *)
Theorem adder_sum k a b ob s ov :
  length a = (2 ^ k)%nat -> length b = (2 ^ k)%nat ->
  binary_add ob a b = Ok (s, ov) ->
  length s = (2 ^ k)%nat /\
  bval s = (bval a + bval b) mod 2 ^ Z.of_nat (2 ^ k) /\
  (if ob then exists c, ov = Some [c] /\ Z.b2z c = (bval a + bval b) / 2 ^ Z.of_nat (2 ^ k)
   else ov = None).
Proof.
  intros Ha Hb H. rewrite (binary_add_spec k a b ob Ha Hb) in H.
  injection H as <- <-. split; [apply bits_of_length|]. split; [apply bval_bits_of|].
  destruct ob; [|reflexivity].
  eexists; split; [reflexivity|].
  pose proof (bval_range a) as Ra. pose proof (bval_range b) as Rb. rewrite Ha in Ra. rewrite Hb in Rb.
  unfold carry_out. set (M := 2 ^ Z.of_nat (2 ^ k)) in *.
  destruct (M <=? bval a + bval b) eqn:E; cbn [Z.b2z].
  - apply Z.leb_le in E. apply Z.div_unique with (r := bval a + bval b - M); lia.
  - apply Z.leb_gt in E. symmetry. apply Z.div_small. lia.
Qed.

(* in particular BinaryAdd succeeds on every power-of-two width: no error, panic or fuel
   exhaustion.  (Rejection of the other widths is checked by the correspondence cases only.) *)
Theorem adder_sum_ex k a b ob :
  length a = (2 ^ k)%nat -> length b = (2 ^ k)%nat ->
  exists s ov, binary_add ob a b = Ok (s, ov) /\
    length s = (2 ^ k)%nat /\
    bval s = (bval a + bval b) mod 2 ^ Z.of_nat (2 ^ k) /\
    (if ob then exists c, ov = Some [c] /\ Z.b2z c = (bval a + bval b) / 2 ^ Z.of_nat (2 ^ k)
     else ov = None).
Proof.
  intros Ha Hb. pose proof (binary_add_spec k a b ob Ha Hb) as E.
  eexists. eexists. split; [exact E|]. exact (adder_sum k a b ob _ _ Ha Hb E).
Qed.

(* Per-operation specification proofs (C10), part 2: Get, PermuteAxes, GetSlice. *)
From Coq Require Import Permutation FinFun.
From CC Require Import Base.Prelude Base.Scalar Base.Ty Base.Shape Graph.Value Graph.IR Graph.Eval
  Proofs.EvalProofs Graph.Spec Proofs.EvalSpecBase.

(* ------------------------------------------------------------------ Get *)
Theorem get_spec shape st t sub es :
  valid_shape shape ->
  in_shape sub (firstn (length sub) shape) ->
  length es = Z.to_nat (prod_list shape) ->
  let rsh := skipn (length sub) shape in
  exists r, eval_node (OGet sub) [TArray shape st] t [VArr es] = Ok (VArr r) /\
    length r = Z.to_nat (prod_list rsh) /\
    forall idx, in_shape idx rsh -> get r rsh idx = get es shape (sub ++ idx).
Proof.
  intros Hv Hsub Hl rsh. set (k := length sub) in *.
  pose proof (in_shape_length _ _ Hsub) as Lk. rewrite firstn_length in Lk. fold k in Lk.
  assert (Hk : (k <= length shape)%nat) by lia.
  pose proof (prod_list_pos _ (valid_shape_skipn k _ Hv)) as Pr. fold rsh in Pr.
  pose proof (prod_list_pos _ (valid_shape_firstn k _ Hv)) as Pf.
  pose proof (flat_pos_range _ _ Hsub) as Rn.
  assert (Hprod : prod_list shape = prod_list (firstn k shape) * prod_list rsh).
  { rewrite <- prod_list_app. unfold rsh. now rewrite firstn_skipn. }
  cbn [eval_node nth nth_res bind arr_of is_arr negb shape_of]. fold k. fold rsh.
  rewrite (index_to_number_flat_pos _ _ Hsub). cbn [bind].
  set (num := flat_pos sub (firstn k shape)) in *.
  replace (length shape <? k)%nat with false by lia.
  replace (prod_list rsh <=? 0) with false by lia.
  assert (Hdiv : Z.of_nat (length es) / prod_list rsh = prod_list (firstn k shape)).
  { rewrite Hl, Z2Nat.id by lia. rewrite Hprod. apply Z.div_mul. lia. }
  rewrite Hdiv. replace (prod_list (firstn k shape) <=? num) with false by lia.
  rewrite slice_z_ok by nia. cbn [bind]. eexists. split; [reflexivity|]. split.
  - rewrite firstn_length, skipn_length. nia.
  - intros idx Hin. unfold get. pose proof (flat_pos_range _ _ Hin) as Ri.
    rewrite nth_firstn_skipn by lia. f_equal.
    assert (Hfp : flat_pos (sub ++ idx) shape = num * prod_list rsh + flat_pos idx rsh).
    { transitivity (flat_pos (sub ++ idx) (firstn k shape ++ rsh)).
      - unfold rsh. now rewrite firstn_skipn.
      - rewrite flat_pos_app by (rewrite firstn_length; lia). reflexivity. }
    rewrite Hfp. nia.
Qed.

(* ------------------------------------------------------------------ PermuteAxes *)
Lemma prod_list_Permutation l l' : Permutation l l' -> prod_list l = prod_list l'.
Proof.
  induction 1; rewrite ?prod_list_cons; auto; try ring.
  - now rewrite IHPermutation.
  - congruence.
Qed.

Lemma NoDup_zrange n : NoDup (zrange n).
Proof. unfold zrange. apply Injective_map_NoDup; [intros x y; apply Nat2Z.inj|apply seq_NoDup]. Qed.

Lemma perm_Permutation perm n : is_perm_of_rank perm n -> Permutation (zrange (Z.of_nat n)) perm.
Proof.
  intros (L & _ & Hall). apply NoDup_Permutation_bis; [apply NoDup_zrange| |].
  - rewrite zrange_length. lia.
  - intros k Hk. apply Hall. now apply In_zrange.
Qed.

Lemma permute_index_id idx : permute_index (zrange (Z.of_nat (length idx))) idx = idx.
Proof.
  unfold permute_index. apply nth_ext with (d := 0) (d' := 0).
  - now rewrite map_length, zrange_length, Nat2Z.id.
  - rewrite map_length, zrange_length, Nat2Z.id. intros p Hp.
    rewrite <- (Nat2Z.id p) at 1. rewrite nth_map_zrange by lia. now rewrite Nat2Z.id.
Qed.

Lemma prod_list_permute perm sh : is_perm_of_rank perm (length sh) ->
  prod_list (permute_index perm sh) = prod_list sh.
Proof.
  intros H. apply perm_Permutation in H.
  rewrite <- (permute_index_id sh) at 2. symmetry. apply prod_list_Permutation.
  unfold permute_index. now apply Permutation_map.
Qed.

Lemma permute_in_shape perm idx sh : in_shape idx sh ->
  (forall j, In j perm -> 0 <= j < Z.of_nat (length sh)) ->
  in_shape (permute_index perm idx) (permute_index perm sh).
Proof.
  intros Hin. induction perm as [|j perm IH]; intros Hr; cbn [permute_index map]; constructor.
  - apply in_shape_nth; auto. specialize (Hr j (or_introl eq_refl)). lia.
  - apply IH. intros; apply Hr; now right.
Qed.

Lemma permute_index_inj perm i1 i2 n : is_perm_of_rank perm n ->
  length i1 = n -> length i2 = n -> permute_index perm i1 = permute_index perm i2 -> i1 = i2.
Proof.
  intros (L & _ & Hall) L1 L2 E. apply nth_ext with (d := 0) (d' := 0); [lia|].
  intros p Hp. unfold permute_index in E.
  pose proof (ext_in_map E (Z.of_nat p) (Hall (Z.of_nat p) ltac:(lia))) as Ep. cbn beta in Ep.
  now rewrite Nat2Z.id in Ep.
Qed.

Lemma mapM_znth_perm perm old n : length old = n ->
  (forall j, In j perm -> 0 <= j < Z.of_nat n) ->
  mapM (fun j => znth old j) perm = Ok (permute_index perm old).
Proof.
  intros L Hr. unfold permute_index. apply mapM_map. intros j Hj. apply znth_ok. specialize (Hr j Hj). lia.
Qed.

Theorem permute_axes_spec cur perm es :
  valid_shape cur -> is_perm_of_rank perm (length cur) ->
  length es = Z.to_nat (prod_list cur) ->
  let out := permute_index perm cur in
  exists r, eval_permute_axes cur es perm out = Ok r /\ length r = length es /\
    forall idx, in_shape idx cur -> get r out (permute_index perm idx) = get es cur idx.
Proof.
  intros Hv Hperm Hl out. pose proof (prod_list_pos cur Hv) as Hp.
  pose proof Hperm as (Lp & Hrange & Hall).
  pose proof (prod_list_permute perm cur Hperm) as Hprod. fold out in Hprod.
  set (n := length es).
  set (P := fun i => flat_pos (permute_index perm (unravel i cur)) out).
  set (Inv := fun (k : nat) (r : list Z) =>
     length r = n /\ forall i, 0 <= i < Z.of_nat k ->
       nth (Z.to_nat (P i)) r 0 = nth (Z.to_nat i) es 0).
  assert (HP : forall i, 0 <= i < Z.of_nat n ->
             in_shape (permute_index perm (unravel i cur)) out /\ 0 <= P i < Z.of_nat n).
  { intros i Hi. destruct (number_to_index_unravel cur i Hv ltac:(lia)) as (_ & Hin & _).
    pose proof (permute_in_shape perm _ _ Hin Hrange) as Hin'. fold out in Hin'. split; [exact Hin'|].
    pose proof (flat_pos_range _ _ Hin'). unfold P. lia. }
  assert (Pinj : forall i j, 0 <= i < Z.of_nat n -> 0 <= j < Z.of_nat n -> P i = P j -> i = j).
  { intros i j Hi Hj E. destruct (HP i Hi) as (Hi1 & _). destruct (HP j Hj) as (Hj1 & _).
    unfold P in E. apply flat_pos_inj in E; auto.
    destruct (number_to_index_unravel cur i Hv ltac:(lia)) as (_ & Hini & Hfi).
    destruct (number_to_index_unravel cur j Hv ltac:(lia)) as (_ & Hinj & Hfj).
    apply (permute_index_inj perm _ _ (length cur) Hperm) in E;
      [|now apply in_shape_length|now apply in_shape_length].
    rewrite <- Hfi, <- Hfj. now rewrite E. }
  destruct (fold_left_result_inv
    (fun r i =>
               let* old := number_to_index i cur in
               let* new := mapM (fun j => znth old j) perm in
               let* pos := index_to_number new out in
               let* x := znth es i in
               upd r pos x) Inv n (repeat 0 n)) as (r & E & HI).
  - split; [apply repeat_length|]. intros; lia.
  - intros k r Hk (Lr & Hr).
    destruct (number_to_index_unravel cur (Z.of_nat k) Hv ltac:(lia)) as (E1 & Hin & Hf).
    rewrite E1. cbn [bind].
    rewrite (mapM_znth_perm perm _ (length cur)) by (auto using in_shape_length). cbn [bind].
    destruct (HP (Z.of_nat k) ltac:(lia)) as (Hin' & RP).
    rewrite (index_to_number_flat_pos _ _ Hin'). cbn [bind]. fold (P (Z.of_nat k)).
    rewrite (znth_ok es _ 0) by lia. cbn [bind]. rewrite upd_ok by lia.
    eexists. split; [reflexivity|]. split; [now rewrite set_nth_length|].
    intros i Hi. rewrite nth_set_nth by lia.
    destruct (Nat.eqb_spec (Z.to_nat (P i)) (Z.to_nat (P (Z.of_nat k)))) as [Ep|Ep].
    + destruct (HP i ltac:(lia)) as (_ & RPi).
      assert (i = Z.of_nat k) by (apply Pinj; lia). now subst i.
    + apply Hr. assert (i <> Z.of_nat k) by (intros ->; lia). lia.
  - destruct HI as (Lr & Hr). exists r. split; [exact E|]. split; [exact Lr|].
    intros idx Hin. pose proof (flat_pos_range _ _ Hin) as R.
    specialize (Hr (flat_pos idx cur) ltac:(lia)). unfold P in Hr.
    rewrite unravel_flat_pos in Hr by auto. exact Hr.
Qed.

(* Per-operation specification proofs (C10), part 2: Get, PermuteAxes, GetSlice. *)
From Coq Require Import Permutation FinFun.
From CC Require Import Base.Prelude Base.Scalar Base.Ty Base.Shape Graph.Value Graph.IR Graph.Eval
  Proofs.EvalProofs Graph.Spec Proofs.EvalSpecBase.

(* ------------------------------------------------------------------ Get *)
Theorem get_spec shape st t sub es :
  valid_shape shape ->
  in_shape sub (firstn (length sub) shape) ->
  length es = Z.to_nat (prod_list shape) ->
  let rsh := skipn (length sub) shape in
  exists r, eval_node (OGet sub) [TArray shape st] t [VArr es] = Ok (VArr r) /\
    length r = Z.to_nat (prod_list rsh) /\
    forall idx, in_shape idx rsh -> get r rsh idx = get es shape (sub ++ idx).
Proof.
  intros Hv Hsub Hl rsh. set (k := length sub) in *.
  pose proof (in_shape_length _ _ Hsub) as Lk. rewrite firstn_length in Lk. fold k in Lk.
  assert (Hk : (k <= length shape)%nat) by lia.
  pose proof (prod_list_pos _ (valid_shape_skipn k _ Hv)) as Pr. fold rsh in Pr.
  pose proof (prod_list_pos _ (valid_shape_firstn k _ Hv)) as Pf.
  pose proof (flat_pos_range _ _ Hsub) as Rn.
  assert (Hprod : prod_list shape = prod_list (firstn k shape) * prod_list rsh).
  { rewrite <- prod_list_app. unfold rsh. now rewrite firstn_skipn. }
  cbn [eval_node nth nth_res bind arr_of is_arr negb shape_of]. fold k. fold rsh.
  rewrite (index_to_number_flat_pos _ _ Hsub). cbn [bind].
  set (num := flat_pos sub (firstn k shape)) in *.
  replace (length shape <? k)%nat with false by lia.
  replace (prod_list rsh <=? 0) with false by lia.
  assert (Hdiv : Z.of_nat (length es) / prod_list rsh = prod_list (firstn k shape)).
  { rewrite Hl, Z2Nat.id by lia. rewrite Hprod. apply Z.div_mul. lia. }
  rewrite Hdiv. replace (prod_list (firstn k shape) <=? num) with false by lia.
  rewrite slice_z_ok by nia. cbn [bind]. eexists. split; [reflexivity|]. split.
  - rewrite firstn_length, skipn_length. nia.
  - intros idx Hin. unfold get. pose proof (flat_pos_range _ _ Hin) as Ri.
    rewrite nth_firstn_skipn by lia. f_equal.
    assert (Hfp : flat_pos (sub ++ idx) shape = num * prod_list rsh + flat_pos idx rsh).
    { transitivity (flat_pos (sub ++ idx) (firstn k shape ++ rsh)).
      - unfold rsh. now rewrite firstn_skipn.
      - rewrite flat_pos_app by (rewrite firstn_length; lia). reflexivity. }
    rewrite Hfp. nia.
Qed.

(* ------------------------------------------------------------------ PermuteAxes *)
Lemma prod_list_Permutation l l' : Permutation l l' -> prod_list l = prod_list l'.
Proof.
  induction 1; rewrite ?prod_list_cons; auto; try ring.
  - now rewrite IHPermutation.
  - congruence.
Qed.

Lemma NoDup_zrange n : NoDup (zrange n).
Proof. unfold zrange. apply Injective_map_NoDup; [intros x y; apply Nat2Z.inj|apply seq_NoDup]. Qed.

Lemma perm_Permutation perm n : is_perm_of_rank perm n -> Permutation (zrange (Z.of_nat n)) perm.
Proof.
  intros (L & _ & Hall). apply NoDup_Permutation_bis; [apply NoDup_zrange| |].
  - rewrite zrange_length. lia.
  - intros k Hk. apply Hall. now apply In_zrange.
Qed.

Lemma permute_index_id idx : permute_index (zrange (Z.of_nat (length idx))) idx = idx.
Proof.
  unfold permute_index. apply nth_ext with (d := 0) (d' := 0).
  - now rewrite map_length, zrange_length, Nat2Z.id.
  - rewrite map_length, zrange_length, Nat2Z.id. intros p Hp.
    rewrite <- (Nat2Z.id p) at 1. rewrite nth_map_zrange by lia. now rewrite Nat2Z.id.
Qed.

Lemma prod_list_permute perm sh : is_perm_of_rank perm (length sh) ->
  prod_list (permute_index perm sh) = prod_list sh.
Proof.
  intros H. apply perm_Permutation in H.
  rewrite <- (permute_index_id sh) at 2. symmetry. apply prod_list_Permutation.
  unfold permute_index. now apply Permutation_map.
Qed.

Lemma permute_in_shape perm idx sh : in_shape idx sh ->
  (forall j, In j perm -> 0 <= j < Z.of_nat (length sh)) ->
  in_shape (permute_index perm idx) (permute_index perm sh).
Proof.
  intros Hin. induction perm as [|j perm IH]; intros Hr; cbn [permute_index map]; constructor.
  - apply in_shape_nth; auto. specialize (Hr j (or_introl eq_refl)). lia.
  - apply IH. intros; apply Hr; now right.
Qed.

Lemma permute_index_inj perm i1 i2 n : is_perm_of_rank perm n ->
  length i1 = n -> length i2 = n -> permute_index perm i1 = permute_index perm i2 -> i1 = i2.
Proof.
  intros (L & _ & Hall) L1 L2 E. apply nth_ext with (d := 0) (d' := 0); [lia|].
  intros p Hp. unfold permute_index in E.
  pose proof (ext_in_map E (Z.of_nat p) (Hall (Z.of_nat p) ltac:(lia))) as Ep. cbn beta in Ep.
  now rewrite Nat2Z.id in Ep.
Qed.

Lemma mapM_znth_perm perm old n : length old = n ->
  (forall j, In j perm -> 0 <= j < Z.of_nat n) ->
  mapM (fun j => znth old j) perm = Ok (permute_index perm old).
Proof.
  intros L Hr. unfold permute_index. apply mapM_map. intros j Hj. apply znth_ok. specialize (Hr j Hj). lia.
Qed.

Theorem permute_axes_spec cur perm es :
  valid_shape cur -> is_perm_of_rank perm (length cur) ->
  length es = Z.to_nat (prod_list cur) ->
  let out := permute_index perm cur in
  exists r, eval_permute_axes cur es perm out = Ok r /\ length r = length es /\
    forall idx, in_shape idx cur -> get r out (permute_index perm idx) = get es cur idx.
Proof.
  intros Hv Hperm Hl out. pose proof (prod_list_pos cur Hv) as Hp.
  pose proof Hperm as (Lp & Hrange & Hall).
  pose proof (prod_list_permute perm cur Hperm) as Hprod. fold out in Hprod.
  set (n := length es).
  set (P := fun i => flat_pos (permute_index perm (unravel i cur)) out).
  set (Inv := fun (k : nat) (r : list Z) =>
     length r = n /\ forall i, 0 <= i < Z.of_nat k ->
       nth (Z.to_nat (P i)) r 0 = nth (Z.to_nat i) es 0).
  assert (HP : forall i, 0 <= i < Z.of_nat n ->
             in_shape (permute_index perm (unravel i cur)) out /\ 0 <= P i < Z.of_nat n).
  { intros i Hi. destruct (number_to_index_unravel cur i Hv ltac:(lia)) as (_ & Hin & _).
    pose proof (permute_in_shape perm _ _ Hin Hrange) as Hin'. fold out in Hin'. split; [exact Hin'|].
    pose proof (flat_pos_range _ _ Hin'). unfold P. lia. }
  assert (Pinj : forall i j, 0 <= i < Z.of_nat n -> 0 <= j < Z.of_nat n -> P i = P j -> i = j).
  { intros i j Hi Hj E. destruct (HP i Hi) as (Hi1 & _). destruct (HP j Hj) as (Hj1 & _).
    unfold P in E. apply flat_pos_inj in E; auto.
    destruct (number_to_index_unravel cur i Hv ltac:(lia)) as (_ & Hini & Hfi).
    destruct (number_to_index_unravel cur j Hv ltac:(lia)) as (_ & Hinj & Hfj).
    apply (permute_index_inj perm _ _ (length cur) Hperm) in E;
      [|now apply in_shape_length|now apply in_shape_length].
    rewrite <- Hfi, <- Hfj. now rewrite E. }
  destruct (fold_left_result_inv
    (fun r i =>
               let* old := number_to_index i cur in
               let* new := mapM (fun j => znth old j) perm in
               let* pos := index_to_number new out in
               let* x := znth es i in
               upd r pos x) Inv n (repeat 0 n)) as (r & E & HI).
  - split; [apply repeat_length|]. intros; lia.
  - intros k r Hk (Lr & Hr).
    destruct (number_to_index_unravel cur (Z.of_nat k) Hv ltac:(lia)) as (E1 & Hin & Hf).
    rewrite E1. cbn [bind].
    rewrite (mapM_znth_perm perm _ (length cur)) by (auto using in_shape_length). cbn [bind].
    destruct (HP (Z.of_nat k) ltac:(lia)) as (Hin' & RP).
    rewrite (index_to_number_flat_pos _ _ Hin'). cbn [bind]. fold (P (Z.of_nat k)).
    rewrite (znth_ok es _ 0) by lia. cbn [bind]. rewrite upd_ok by lia.
    eexists. split; [reflexivity|]. split; [now rewrite set_nth_length|].
    intros i Hi. rewrite nth_set_nth by lia.
    destruct (Nat.eqb_spec (Z.to_nat (P i)) (Z.to_nat (P (Z.of_nat k)))) as [Ep|Ep].
    + destruct (HP i ltac:(lia)) as (_ & RPi).
      assert (i = Z.of_nat k) by (apply Pinj; lia). now subst i.
    + apply Hr. assert (i <> Z.of_nat k) by (intros ->; lia). lia.
  - destruct HI as (Lr & Hr). exists r. split; [exact E|]. split; [exact Lr|].
    intros idx Hin. pose proof (flat_pos_range _ _ Hin) as R.
    specialize (Hr (flat_pos idx cur) ltac:(lia)). unfold P in Hr.
    rewrite unravel_flat_pos in Hr by auto. exact Hr.
Qed.

(* ------------------------------------------------------------------ GetSlice *)
Definition shape_go :=
  fix go (shape : list Z) (clean : list slice_elem) : result (list Z) :=
     match shape with
     | [] => Ok []
     | d :: shape' =>
         match clean with
         | c :: clean' =>
             let* o := get_slice_shape_1d d c in
             let* rest := go shape' clean' in
             Ok (match o with Some s => s :: rest | None => rest end)
         | [] => let* rest := go shape' [] in Ok (d :: rest)
         end
     end.
Lemma get_slice_shape_unfold shape slice :
  get_slice_shape shape slice = let* clean := get_clean_slice shape slice in shape_go shape clean.
Proof. reflexivity. Qed.

Definition index_go (index : list Z) :=
  fix go (shape : list Z) (clean : list slice_elem) (j : nat) : result (list Z * nat) :=
       match shape with
       | [] => Ok ([], j)
       | d :: shape' =>
           match clean with
           | SSingle ind :: clean' =>
               let real := if 0 <=? ind then ind else ind + d in
               if real <? 0 then Panic else
               let* (rest, j') := go shape' clean' j in Ok (real :: rest, j')
           | SSub b e s :: clean' =>
               match nth_error index j with
               | None => Err
               | Some ix =>
                   let* r := slice_1d_index d b e s ix in
                   let* (rest, j') := go shape' clean' (S j) in Ok (r :: rest, j')
               end
           | SEllipsis :: _ => Panic
           | [] =>
               match nth_error index j with
               | None => Err
               | Some ix => let* (rest, j') := go shape' [] (S j) in Ok (ix :: rest, j')
               end
           end
       end.
Lemma slice_index_unfold shape slice index :
  slice_index shape slice index =
  let* clean := get_clean_slice shape slice in
  let* (res, j) := index_go index shape clean O in
  if (j =? 0)%nat && (length index =? 1)%nat && (match index with [x] => x =? 0 | _ => false end)
  then Ok res
  else if negb (j =? length index)%nat then Err else Ok res.
Proof. reflexivity. Qed.

Lemma count_loop_range fuel : forall cur end_ step d c c',
  count_loop fuel cur end_ step d c = Ok c' ->
  c <= c' /\ forall x, 0 <= x < c' - c -> 0 <= cur + step * x < d.
Proof.
  induction fuel as [|f IH]; intros cur end_ step d c c' H; cbn [count_loop] in H; [discriminate|].
  destruct (((0 <? step) && (end_ <=? cur)) || ((step <? 0) && (cur <=? end_))).
  - inversion H; subst. split; [lia|]. intros; lia.
  - destruct ((cur <? 0) || (d <=? cur)) eqn:Er; [discriminate|].
    apply IH in H as (Hc & Hx). split; [lia|]. intros x Hx'.
    destruct (Z.eq_dec x 0) as [->|Nx]; [lia|].
    specialize (Hx (x - 1) ltac:(lia)). replace (cur + step * x) with (cur + step + step * (x - 1)) by ring.
    exact Hx.
Qed.

Lemma normalize_subarray_py d b e s bg en stp : 0 < d ->
  normalize_subarray d b e s = Ok (bg, en, stp) -> bg = py_begin d b s /\ stp = py_step s /\ stp <> 0.
Proof.
  intros Hd H. unfold normalize_subarray in H. fold (py_step s) in H.
  destruct (py_step s =? 0) eqn:E0; [discriminate|]. inversion H; subst. split; [|split; [reflexivity|lia]].
  unfold py_begin. fold (py_step s). destruct b as [x|]; [reflexivity|].
  destruct (0 <? py_step s); [reflexivity|]. replace (d - 1 <? 0) with false by lia. reflexivity.
Qed.

Lemma nth_error_middle {A} (pre : list A) x r : nth_error (pre ++ x :: r) (length pre) = Some x.
Proof. induction pre; cbn; auto. Qed.

(* the implementation's index translation is the documented source index, for every slice
   accepted by the shape computation and every result index *)
Lemma index_go_spec shape : forall clean rsh0 ridx pre,
  valid_shape shape -> shape_go shape clean = Ok rsh0 -> in_shape ridx rsh0 ->
  index_go (pre ++ ridx) shape clean (length pre)
    = Ok (slice_src shape clean ridx, (length pre + length ridx)%nat)
  /\ in_shape (slice_src shape clean ridx) shape.
Proof.
  induction shape as [|d shape IH]; intros clean rsh0 ridx pre Hv Hs Hin.
  - cbn in Hs. inversion Hs; subst. inversion Hin; subst. cbn. rewrite Nat.add_0_r. split; [reflexivity|constructor].
  - inversion Hv as [|? ? Hd Hv']; subst. cbn [shape_go] in Hs. fold shape_go in Hs.
    destruct clean as [|c clean'].
    + destruct (shape_go shape []) as [rest| | |] eqn:Er; cbn [bind] in Hs; try discriminate.
      inversion Hs; subst. inversion Hin as [|x ? r ? Hx Hr]; subst.
      cbn [index_go slice_src]. fold (index_go (pre ++ x :: r)). rewrite nth_error_middle.
      destruct (IH [] rest r (pre ++ [x]) Hv' Er Hr) as (E & Hin').
      rewrite <- app_assoc in E. cbn [app] in E. rewrite app_length in E. cbn [length] in E.
      replace (length pre + 1)%nat with (S (length pre)) in E by lia. rewrite E. cbn [bind].
      split; [f_equal; f_equal; cbn [length]; lia|constructor; auto].
    + destruct (get_slice_shape_1d d c) as [o| | |] eqn:E1; cbn [bind] in Hs; try discriminate.
      destruct (shape_go shape clean') as [rest| | |] eqn:Er; cbn [bind] in Hs; try discriminate.
      inversion Hs; subst. destruct c as [ind|b e s|]; cbn [get_slice_shape_1d] in E1; try discriminate.
      * (* single index *)
        destruct (((if ind <? 0 then ind + d else ind) <? 0) || (d <=? (if ind <? 0 then ind + d else ind))) eqn:Erange;
          [discriminate|]. inversion E1; subst.
        cbn [index_go slice_src]. fold (index_go (pre ++ ridx)).
        assert (Hreal : 0 <= (if 0 <=? ind then ind else ind + d) < d)
          by (destruct (ind <? 0) eqn:?, (0 <=? ind) eqn:?; lia).
        replace ((if 0 <=? ind then ind else ind + d) <? 0) with false by lia.
        destruct (IH clean' rest ridx pre Hv' Er Hin) as (E & Hin'). rewrite E. cbn [bind].
        split; [reflexivity|constructor; auto].
      * (* sub-range *)
        destruct (normalize_subarray d b e s) as [[[bg en] stp]| | |] eqn:En; cbn [bind] in E1; try discriminate.
        destruct (count_loop (S (S (Z.to_nat d))) bg en stp d 0) as [counter| | |] eqn:Ec; cbn [bind] in E1; try discriminate.
        destruct (counter =? 0) eqn:E0; [discriminate|]. inversion E1; subst.
        inversion Hin as [|x ? r ? Hx Hr]; subst.
        destruct (normalize_subarray_py _ _ _ _ _ _ _ Hd En) as (Hb & Hst & Hnz).
        apply count_loop_range in Ec as (_ & Hrange). specialize (Hrange x ltac:(lia)).
        cbn [index_go slice_src]. fold (index_go (pre ++ x :: r)). rewrite nth_error_middle.
        unfold slice_1d_index. rewrite En. cbn [bind].
        replace (bg + stp * x <? 0) with false by lia. cbn [bind].
        destruct (IH clean' rest r (pre ++ [x]) Hv' Er Hr) as (E & Hin').
        rewrite <- app_assoc in E. cbn [app] in E. rewrite app_length in E. cbn [length] in E.
        replace (length pre + 1)%nat with (S (length pre)) in E by lia. rewrite E. cbn [bind].
        subst bg stp. split; [f_equal; f_equal; cbn [length]; lia|constructor; auto].
Qed.

(* every result dimension is positive *)
Lemma shape_go_valid dshape : forall clean rsh, valid_shape dshape ->
  shape_go dshape clean = Ok rsh -> valid_shape rsh.
Proof.
  induction dshape as [|d sh IH]; intros clean rsh Hv Hs.
  - cbn in Hs. inversion Hs; constructor.
  - inversion Hv as [|? ? Hd Hv']; subst. cbn [shape_go] in Hs. fold shape_go in Hs.
    destruct clean as [|c clean'].
    + destruct (shape_go sh []) as [rest| | |] eqn:Er; cbn [bind] in Hs; try discriminate.
      inversion Hs; subst. constructor; [exact Hd|exact (IH _ _ Hv' Er)].
    + destruct (get_slice_shape_1d d c) as [o| | |] eqn:E1; cbn [bind] in Hs; try discriminate.
      destruct (shape_go sh clean') as [rest| | |] eqn:Er; cbn [bind] in Hs; try discriminate.
      inversion Hs as [Hs']. destruct o as [cnt|]; [|subst; exact (IH _ _ Hv' Er)].
      constructor; [|exact (IH _ _ Hv' Er)].
      destruct c as [ind|b e s|]; cbn [get_slice_shape_1d] in E1; try discriminate.
      * destruct (_ || _) in E1; discriminate.
      * destruct (normalize_subarray d b e s) as [[[bg en] stp]| | |]; cbn [bind] in E1; try discriminate.
        destruct (count_loop _ _ _ _ _ _) as [counter| | |] eqn:Ec; cbn [bind] in E1; try discriminate.
        apply count_loop_range in Ec as (Hc0 & _).
        destruct (counter =? 0) eqn:E0; [discriminate|]. inversion E1; subst. lia.
Qed.

(* a scalar result (every axis singly indexed): the result index [0] is not consumed *)
Lemma scalar_slice_same : forall sh c j, shape_go sh c = Ok [] ->
  index_go [0] sh c j = index_go [] sh c j /\ slice_src sh c [0] = slice_src sh c [].
Proof.
  induction sh as [|d sh IH]; intros c j Hs; [split; reflexivity|].
  cbn [shape_go] in Hs. fold shape_go in Hs. destruct c as [|c c'].
  - destruct (shape_go sh []); cbn [bind] in Hs; discriminate.
  - destruct (get_slice_shape_1d d c) as [o| | |] eqn:E1; cbn [bind] in Hs; try discriminate.
    destruct (shape_go sh c') as [rest| | |] eqn:Er; cbn [bind] in Hs; try discriminate.
    inversion Hs as [Hs']. destruct o; [discriminate|]. subst rest.
    destruct c as [ind|b e s|]; cbn [get_slice_shape_1d] in E1.
    + cbn [index_go slice_src]. fold (index_go [0]). fold (index_go []).
      destruct (IH c' j Er) as (Ea & Eb). rewrite Ea, Eb. split; reflexivity.
    + destruct (normalize_subarray d b e s) as [[[bg en] stp]| | |]; cbn [bind] in E1; try discriminate.
      destruct (count_loop _ _ _ _ _ _); cbn [bind] in E1; try discriminate.
      destruct (_ =? 0); discriminate.
    + discriminate.
Qed.

Lemma slice_go_total dshape clean rsh0 ridx :
  valid_shape dshape -> shape_go dshape clean = Ok rsh0 ->
  in_shape ridx (match rsh0 with [] => [1] | _ => rsh0 end) ->
  exists j, index_go ridx dshape clean O = Ok (slice_src dshape clean ridx, j) /\
            in_shape (slice_src dshape clean ridx) dshape /\
            (j = length ridx \/ (j = O /\ ridx = [0])).
Proof.
  intros Hv Hs Hin. destruct rsh0 as [|d0 rs'].
  - inversion Hin as [|x ? r0 ? Hx Hr0]; subst. inversion Hr0; subst. assert (x = 0) by lia. subst x.
    destruct (index_go_spec dshape clean [] [] [] Hv Hs ltac:(constructor)) as (E0 & Hin0).
    destruct (scalar_slice_same dshape clean O Hs) as (Ea & Eb).
    exists O. rewrite Ea, Eb. cbn [app length] in E0. rewrite E0. split; [reflexivity|]. split; [exact Hin0|].
    right; split; reflexivity.
  - destruct (index_go_spec dshape clean (d0 :: rs') ridx [] Hv Hs Hin) as (E0 & Hin0).
    cbn [app length Nat.add] in E0. exists (length ridx). split; [exact E0|]. split; [exact Hin0|]. left; reflexivity.
Qed.

Theorem get_slice_spec dshape st t sl clean rsh0 es :
  valid_shape dshape ->
  get_clean_slice dshape sl = Ok clean -> shape_go dshape clean = Ok rsh0 ->
  dims t = (match rsh0 with [] => [1] | _ => rsh0 end) ->
  length es = Z.to_nat (prod_list dshape) ->
  exists r, eval_node (OGetSlice sl) [TArray dshape st] t [VArr es] = Ok (VArr r) /\
    length r = Z.to_nat (prod_list (dims t)) /\
    forall ridx, in_shape ridx (dims t) ->
      in_shape (slice_src dshape clean ridx) dshape /\
      get r (dims t) ridx = get es dshape (slice_src dshape clean ridx).
Proof.
  intros Hv Hc Hs Ht Hl.
  assert (Hvr : valid_shape (dims t)).
  { rewrite Ht. pose proof (shape_go_valid _ _ _ Hv Hs). destruct rsh0; [repeat constructor; lia|auto]. }
  cbn [eval_node nth nth_res bind arr_of is_arr negb shape_of].
  destruct (mapM_over_shape
    (fun index => let* dindex := slice_index dshape sl index in
                  let* j := index_to_number dindex dshape in znth es j)
    (fun ridx => get es dshape (slice_src dshape clean ridx)) (dims t) Hvr) as (r & E & Lr & Hr).
  - intros ridx Hin. rewrite slice_index_unfold, Hc. cbn [bind]. rewrite Ht in Hin.
    destruct (slice_go_total dshape clean rsh0 ridx Hv Hs Hin) as (j & Ego & Hin' & Hj).
    rewrite Ego. cbn [bind].
    assert (Efin : (if (j =? 0)%nat && (length ridx =? 1)%nat && (match ridx with [x] => x =? 0 | _ => false end)
                    then Ok (slice_src dshape clean ridx)
                    else if negb (j =? length ridx)%nat then Err else Ok (slice_src dshape clean ridx))
                   = Ok (slice_src dshape clean ridx)).
    { destruct Hj as [->|(-> & ->)].
      - rewrite Nat.eqb_refl. cbn [negb]. destruct (_ && _); reflexivity.
      - reflexivity. }
    rewrite Efin. cbn [bind]. rewrite (index_to_number_flat_pos _ _ Hin'). cbn [bind].
    pose proof (flat_pos_range _ _ Hin'). rewrite (znth_ok es _ 0) by lia. reflexivity.
  - rewrite E. cbn [bind]. exists r. split; [reflexivity|]. split; [exact Lr|].
    intros ridx Hin. split; [|apply Hr; exact Hin].
    rewrite Ht in Hin. destruct (slice_go_total dshape clean rsh0 ridx Hv Hs Hin) as (j & _ & Hin' & _). exact Hin'.
Qed.

(* get_clean_slice only expands the (at most one) Ellipsis *)
Lemma get_clean_slice_expand shape slice clean :
  get_clean_slice shape slice = Ok clean ->
  clean = expand_ellipsis (Z.to_nat (Z.of_nat (length shape) - Z.of_nat (length slice) + 1)) slice.
Proof.
  unfold get_clean_slice. destruct (1 <? length (filter is_ellipsis slice))%nat; [discriminate|].
  set (pad := Z.of_nat (length shape) - Z.of_nat (length slice) + 1).
  assert (G : forall sl acc c,
    fold_left (fun acc x => let* a := acc in
                 if is_ellipsis x then (if pad <? 0 then Err else Ok (a ++ repeat (SSub None None None) (Z.to_nat pad)))
                 else Ok (a ++ [x])) sl (Ok acc) = Ok c -> c = acc ++ expand_ellipsis (Z.to_nat pad) sl).
  { induction sl as [|x sl IH]; intros acc c H; cbn [fold_left expand_ellipsis] in *.
    - inversion H. now rewrite app_nil_r.
    - cbn [bind] in H. destruct x as [i|b e s|]; cbn [is_ellipsis] in H.
      + apply IH in H. rewrite <- app_assoc in H. exact H.
      + apply IH in H. rewrite <- app_assoc in H. exact H.
      + destruct (pad <? 0).
        * exfalso. clear - H. induction sl as [|y sl IHs]; cbn [fold_left] in H; [discriminate|]. auto.
        * apply IH in H. rewrite <- app_assoc in H. exact H. }
  intros H. destruct (fold_left _ slice (Ok [])) as [c| | |] eqn:Ef; cbn [bind] in H; try discriminate.
  destruct (length shape <? length c)%nat; [discriminate|]. inversion H; subst.
  apply G in Ef. exact Ef.
Qed.

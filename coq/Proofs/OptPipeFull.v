(* C06: the whole pipeline with the meta-operation stage proved for every proxy
   (Proofs/OptMetaFull.v): hypotheses on the INPUT graph and run only. *)
From CC Require Import Base.Prelude Base.Scalar Base.Ty Base.Shape Graph.Value Graph.IR Graph.Eval
  Model.Opt Model.Uniquify Proofs.UniquifyProofs Proofs.OptBase Proofs.OptSem Proofs.OptSim Proofs.OptFresh
  Proofs.OptDangling Proofs.OptDup Proofs.OptConst Proofs.OptMeta Proofs.EvalProofs Proofs.OptMetaSem Proofs.OptPipe
  Proofs.OptProofs Proofs.OptMetaEval Proofs.OptMetaFull.

(* ------------------------------------------------------------------ node-local typing
   predicates survive constant folding *)
Definition local_typed (P : op -> list ty -> ty -> Prop) (nodes : list node) : Prop :=
  forall i nd dts, nth_error nodes i = Some nd ->
    mapM (dep_get (map n_ty nodes) i) (n_deps nd) = Ok dts -> P (n_op nd) dts (n_ty nd).

Definition zip_a2v_ty (o : op) (dts : list ty) (t : ty) : Prop :=
  match o with
  | OZip => exists n ets, dts = map (TVector n) ets /\ t = TVector n (TTuple ets)
  | OArrayToVector => exists d rest st, dts = [TArray (d :: rest) st] /\ valid_shape (d :: rest) /\ d < 2 ^ 63 /\
                                        t = TVector d (elem_ty rest st)
  | _ => True
  end.

Lemma zip_a2v_typed_local nodes : zip_a2v_typed nodes <-> local_typed zip_a2v_ty nodes.
Proof.
  split; intros H i nd dts E D; specialize (H i nd dts E D); unfold zip_a2v_ty in *; destruct (n_op nd); exact H.
Qed.

Theorem const_preserves_local (P : op -> list ty -> ty -> Prop) infer nodes o p :
  const_typed nodes -> opt_const nodes o = Ok p ->
  infer_const infer -> typed_nodes infer nodes ->
  (forall T v dts t, P (OConstant T v) dts t) ->
  local_typed P nodes -> local_typed P (po_nodes p).
Proof.
  intros Ct H Ic Tn Pc Lt. rewrite opt_const_unfold in H. apply bind_ok in H as ([s i] & E & H). injection H as <-.
  cbn [po_nodes]. apply (const_prov_inv nodes o Ct) in E as (Is & Ip). cbn [fst] in Ip.
  destruct Is as (_ & I2 & I3 & I4 & _).
  intros j nd' dts' Ej D'.
  destruct (Ip _ _ Ej) as [(T & v & ix & -> & _)|(i0 & nd & deps' & E1 & E2 & E3 & E4 & ->)]; [apply Pc|].
  cbn [n_deps n_ty n_op] in *. destruct (Tn _ _ E1) as (dts & D & Ty).
  assert (Dts : mapM (dep_get (map n_ty (cs_out s)) j) deps' = Ok dts).
  { apply mapM_Forall2 in E3, D. apply mapM_Forall2.
    pose proof (Forall2_and_r _ _ _ _ E3 E4) as E34.
    eapply Forall2_compose; [exact E34|exact D|]. cbn. intros d d' t _ (Hd & Bd) Ht.
    apply map_get_ok in Hd as (D0 & Hd). apply dep_get_ok in Ht as (_ & Ht).
    destruct (I4 _ _ Hd) as (nd0 & nd0' & N1 & N2 & N3 & _).
    rewrite (map_nth_error n_ty _ _ N1) in Ht. injection Ht as <-.
    apply dep_get_ok. split; [lia|]. rewrite (map_nth_error n_ty _ _ N2). congruence. }
  rewrite Dts in D'. injection D' as <-. exact (Lt _ _ _ E1 D).
Qed.

(* constant folding creates no A2B / B2A node *)
Theorem const_preserves_bits nodes o p :
  const_typed nodes -> opt_const nodes o = Ok p -> bits_ops (po_nodes p) -> bits_ops nodes.
Proof.
  intros Ct H. rewrite opt_const_unfold in H. apply bind_ok in H as ([s i] & E & H). injection H as <-.
  cbn [po_nodes]. apply (const_prov_inv nodes o Ct) in E as (_ & Ip). cbn [fst] in Ip.
  intros (nd' & I & Ho). apply In_nth_error in I as (j & Ej).
  destruct (Ip _ _ Ej) as [(T & v & ix & -> & _)|(i0 & nd & deps' & E1 & _ & _ & _ & ->)].
  - cbn in Ho. destruct Ho as [Ho|(st & Ho)]; discriminate.
  - exists nd. split; [eapply nth_error_In; eauto|exact Ho].
Qed.

(* ------------------------------------------------------------------ the meta stage *)
(* hypotheses of the meta pass theorem that concern the graph only *)
Definition meta_hyps_full (nodes : list node) : Prop :=
  const_typed nodes /\ few_deps nodes /\ meta_typed nodes /\ zip_a2v_typed nodes.

Theorem meta_sem_ok_full nodes o p :
  meta_hyps_full nodes -> ~ bits_ops nodes -> opt_meta nodes o = Ok p -> pass_sem_ok nodes p.
Proof.
  intros (Ct & Rg & Ty & Ty2) Nb H tape vals V tape' Tc. apply eval_graph_nodes_valuation in V.
  destruct (meta_sem_full_thm (fun _ _ => TTuple []) _ _ _ _ _ V Ct Rg (fun B => False_ind _ (Nb B)) Ty Ty2 H) as (_ & _ & _ & K).
  destruct (K tape' Tc) as (vals' & V' & S). exists vals'. split; auto. now apply eval_graph_nodes_valuation.
Qed.

Theorem meta_sem_transport_full nodes o p tape vals :
  meta_hyps_full nodes ->
  (bits_ops nodes -> vals_typed nodes vals) ->
  opt_meta nodes o = Ok p ->
  eval_graph_nodes nodes tape = Ok vals ->
  exists vals', eval_graph_nodes (po_nodes p) (transport (po_map p) tape) = Ok vals' /\
                sim nodes (po_nodes p) vals vals' (po_map p) /\
                (forall x, o = Some x -> 0 <= x < Z.of_nat (length nodes) ->
                           nth_error (po_map p) (Z.to_nat x) = Some (po_output p)).
Proof.
  intros (Ct & Rg & Ty & Ty2) Vt H V. pose proof V as V0. apply eval_graph_nodes_valuation in V.
  destruct (meta_sem_full_thm (fun _ _ => TTuple []) _ _ _ _ _ V Ct Rg Vt Ty Ty2 H) as (F & _ & _ & K).
  destruct (K _ (transport_compat _ _ _ tape F)) as (vals' & V' & S).
  exists vals'. split; [now apply eval_graph_nodes_valuation|]. split; auto.
  now apply meta_struct_thm in H.
Qed.

(* for every compatible tape, not only the transported one *)
Theorem meta_sem_compat_full nodes o p tape vals :
  meta_hyps_full nodes ->
  (bits_ops nodes -> vals_typed nodes vals) ->
  opt_meta nodes o = Ok p ->
  eval_graph_nodes nodes tape = Ok vals ->
  forall tape', tape_compat from_tape nodes (po_map p) tape tape' ->
  exists vals', eval_graph_nodes (po_nodes p) tape' = Ok vals' /\
                sim nodes (po_nodes p) vals vals' (po_map p).
Proof.
  intros (Ct & Rg & Ty & Ty2) Vt H V tape' Tc. apply eval_graph_nodes_valuation in V.
  destruct (meta_sem_full_thm (fun _ _ => TTuple []) _ _ _ _ _ V Ct Rg Vt Ty Ty2 H) as (_ & _ & _ & K).
  destruct (K _ Tc) as (vals' & V' & S). exists vals'. split; auto. now apply eval_graph_nodes_valuation.
Qed.

Theorem meta_annots_full nodes o p tape vals :
  meta_hyps_full nodes -> (bits_ops nodes -> vals_typed nodes vals) ->
  opt_meta nodes o = Ok p -> eval_graph_nodes nodes tape = Ok vals ->
  annots_incl nodes (po_nodes p) (po_map p).
Proof.
  intros (Ct & Rg & Ty & Ty2) Vt H V. apply eval_graph_nodes_valuation in V.
  now destruct (meta_sem_full_thm (fun _ _ => TTuple []) _ _ _ _ _ V Ct Rg Vt Ty Ty2 H) as (_ & _ & A & _).
Qed.

(* ------------------------------------------------------------------ the pipeline *)
Section Pipe.
  Variables (infer : op -> list ty -> ty) (nodes : list node) (o : option Z) (p : pass_out).
  Variables (tape : Z -> option value) (vals : list value).
  Hypothesis Ic : infer_const infer.
  Hypothesis Im : infer_meta infer.
  Hypothesis Tn : typed_nodes infer nodes.
  Hypothesis Ct : const_typed nodes.
  Hypothesis Fd : few_deps nodes.
  Hypothesis Mt : meta_typed nodes.
  Hypothesis Zt : zip_a2v_typed nodes.
  Hypothesis H : optimize_graph nodes o = Ok p.
  Hypothesis V : eval_graph_nodes nodes tape = Ok vals.
  Hypothesis Vt : bits_ops nodes -> vals_typed nodes vals.

  (* what the first two stages give *)
  Lemma stages12 p1 p2 :
    opt_const nodes o = Ok p1 -> opt_meta (po_nodes p1) (po_output p1) = Ok p2 ->
    typed_nodes infer (po_nodes p1) /\
    exists v1, eval_graph_nodes (po_nodes p1) (transport (po_map p1) tape) = Ok v1 /\
               sim nodes (po_nodes p1) vals v1 (po_map p1) /\
               ft_first from_tape (po_nodes p1) (po_map p2) /\
               typed_nodes infer (po_nodes p2) /\
               annots_incl (po_nodes p1) (po_nodes p2) (po_map p2) /\
               forall tape', tape_compat from_tape (po_nodes p1) (po_map p2) (transport (po_map p1) tape) tape' ->
                 exists v2, valuation eval_node from_tape (po_nodes p2) tape' v2 /\
                            sim (po_nodes p1) (po_nodes p2) v1 v2 (po_map p2).
  Proof.
    intros E1 E2.
    destruct (const_preserves infer _ _ _ Ct E1) as (Ct1 & Fd1 & _ & _ & Ty1).
    destruct (Ty1 Ic Tn) as (Tn1 & Mt1). split; auto.
    pose proof (proj1 (zip_a2v_typed_local _) Zt) as Zl.
    pose proof (const_preserves_local zip_a2v_ty infer _ _ _ Ct E1 Ic Tn (fun _ _ _ _ => I) Zl) as Zl1.
    apply zip_a2v_typed_local in Zl1.
    destruct (const_sem_transport _ _ _ _ _ Ct E1 V) as (v1 & V1 & S1 & _).
    exists v1. split; auto. split; auto.
    pose proof V1 as V1v. apply eval_graph_nodes_valuation in V1v.
    assert (Vt1 : bits_ops (po_nodes p1) ->
                  forall i nd v, nth_error (po_nodes p1) i = Some nd -> nth_error v1 i = Some v -> has_type v (n_ty nd) = true).
    { intros B. apply (const_preserves_vals_typed _ _ _ _ _ Ct E1 (Vt (const_preserves_bits _ _ _ Ct E1 B)) S1). }
    destruct (meta_sem_full_thm infer _ _ _ _ _ V1v Ct1 (Fd1 Fd) Vt1 (Mt1 Mt) Zl1 E2) as (F2 & Tn2 & A2 & K2).
    split; auto.
  Qed.

  Theorem optimize_sem_all : nokey nodes ->
    exists p1 p2 p3 p4,
      opt_const nodes o = Ok p1 /\ opt_meta (po_nodes p1) (po_output p1) = Ok p2 /\
      opt_dup (po_nodes p2) (po_output p2) = Ok p3 /\ opt_dangling (po_nodes p3) (po_output p3) = Ok p4 /\
      exists vals', eval_graph_nodes (po_nodes p)
                      (transport (po_map p4) (transport (po_map p3) (transport (po_map p2) (transport (po_map p1) tape))))
                    = Ok vals' /\
                    sim nodes (po_nodes p) vals vals' (po_map p).
  Proof.
    intros Nk. pose proof H as H0.
    apply optimize_graph_inv in H0 as (p1 & p2 & p3 & p4 & E1 & E2 & E3 & E4 & En & Eo & Em).
    exists p1, p2, p3, p4. repeat split; auto. rewrite En, Em.
    destruct (stages12 _ _ E1 E2) as (Tn1 & v1 & V1 & S1 & F2 & Tn2 & _ & K2).
    destruct (const_preserves infer _ _ _ Ct E1) as (_ & _ & _ & Nk1 & _).
    destruct (K2 _ (transport_compat _ _ _ (transport (po_map p1) tape) F2)) as (v2 & V2v & S2).
    pose proof V2v as V2. apply eval_graph_nodes_valuation in V2.
    pose proof (meta_preserves_nokey _ _ _ E2 (Nk1 Nk)) as Nk2.
    assert (Nk2' : forall nd deps, In nd (po_nodes p2) -> from_tape (n_op nd) = true -> node_key nd deps = Ok None).
    { intros nd deps I Ft. apply (Nk2 nd I Ft nd deps eq_refl). }
    destruct (dup_sem_transport _ _ _ _ _ _ Tn2 Nk2' E3 V2) as (v3 & V3 & S3 & _).
    destruct (opt_dangling_some _ _ _ E4) as (x & Ex). rewrite Ex in E4.
    destruct (dangling_sem_transport _ _ _ _ _ E4 V3) as (v4 & V4 & S4 & _).
    exists v4. split; auto. eauto using sim_compose.
  Qed.

  (* for every chain of stage-wise compatible tapes (no restriction on keyed tape operations) *)
  Theorem optimize_sem_all_chain :
    exists p1 p2 p3 p4,
      opt_const nodes o = Ok p1 /\ opt_meta (po_nodes p1) (po_output p1) = Ok p2 /\
      opt_dup (po_nodes p2) (po_output p2) = Ok p3 /\ opt_dangling (po_nodes p3) (po_output p3) = Ok p4 /\
      forall t2 t3 t4,
        tape_compat from_tape (po_nodes p1) (po_map p2) (transport (po_map p1) tape) t2 ->
        tape_compat from_tape (po_nodes p2) (po_map p3) t2 t3 ->
        tape_compat from_tape (po_nodes p3) (po_map p4) t3 t4 ->
        exists vals', eval_graph_nodes (po_nodes p) t4 = Ok vals' /\
                      sim nodes (po_nodes p) vals vals' (po_map p).
  Proof.
    pose proof H as H0.
    apply optimize_graph_inv in H0 as (p1 & p2 & p3 & p4 & E1 & E2 & E3 & E4 & En & Eo & Em).
    exists p1, p2, p3, p4. repeat split; auto. intros t2 t3 t4 C2 C3 C4. rewrite En, Em.
    destruct (stages12 _ _ E1 E2) as (Tn1 & v1 & V1 & S1 & F2 & Tn2 & _ & K2).
    destruct (K2 _ C2) as (v2 & V2v & S2).
    pose proof V2v as V2. apply eval_graph_nodes_valuation in V2.
    destruct (dup_sem_ok _ _ _ _ Tn2 E3 _ _ V2 _ C3) as (v3 & V3 & S3).
    destruct (opt_dangling_some _ _ _ E4) as (x & Ex). rewrite Ex in E4.
    destruct (dangling_sem_ok _ _ _ E4 _ _ V3 _ C4) as (v4 & V4 & S4).
    exists v4. split; auto. eauto using sim_compose.
  Qed.

  (* the output of the pipeline is the image of the old output under the joined map *)
  Theorem optimize_output_all :
    exists x j, o = Some x /\ 0 <= x < Z.of_nat (length nodes) /\ po_output p = Some j /\
                nth_error (po_map p) (Z.to_nat x) = Some (Some j).
  Proof.
    pose proof H as H0.
    apply optimize_graph_inv in H0 as (p1 & p2 & p3 & p4 & E1 & E2 & E3 & E4 & En & Eo & Em).
    destruct (stages12 _ _ E1 E2) as (Tn1 & v1 & V1 & S1 & F2 & Tn2 & _ & K2).
    destruct (opt_dangling_some _ _ _ E4) as (x3 & Ex3).
    destruct (dup_output_some _ _ _ _ _ Tn2 E3 Ex3) as (x2 & Ex2 & R2 & M3).
    destruct (meta_output_some _ _ _ _ E2 Ex2) as (x1 & Ex1 & R1 & M2).
    destruct (const_output_some _ _ _ _ Ct E1 Ex1) as (x & Ex & R & M1).
    assert (R3 : 0 <= x3 < Z.of_nat (length (po_nodes p3))).
    { apply (dup_struct_thm from_tape infer) in E3 as (_ & B & _); auto. eapply B; eauto. }
    rewrite Ex3 in E4. destruct (dangling_output_kept _ _ _ E4 R3) as (j & Ej & M4).
    exists x, j. repeat split; auto; try lia; [congruence|].
    rewrite Em. apply join_maps_nth. exists x3. split; [|split; [lia|auto]].
    apply join_maps_nth. exists x2. split; [|split; [lia|auto]].
    apply join_maps_nth. exists x1. split; [|split; [lia|auto]]. exact M1.
  Qed.

  Theorem optimize_sem_all_output : nokey nodes ->
    exists p1 p2 p3 p4,
      opt_const nodes o = Ok p1 /\ opt_meta (po_nodes p1) (po_output p1) = Ok p2 /\
      opt_dup (po_nodes p2) (po_output p2) = Ok p3 /\ opt_dangling (po_nodes p3) (po_output p3) = Ok p4 /\
      exists vals', eval_graph_nodes (po_nodes p)
                      (transport (po_map p4) (transport (po_map p3) (transport (po_map p2) (transport (po_map p1) tape))))
                    = Ok vals' /\
                    sim nodes (po_nodes p) vals vals' (po_map p) /\
                    exists x j v, o = Some x /\ po_output p = Some j /\ 0 <= x /\ 0 <= j /\
                                  nth_error (po_map p) (Z.to_nat x) = Some (Some j) /\
                                  nth_error vals (Z.to_nat x) = Some v /\ nth_error vals' (Z.to_nat j) = Some v.
  Proof.
    intros Nk. destruct (optimize_sem_all Nk) as (p1 & p2 & p3 & p4 & E1 & E2 & E3 & E4 & vals' & V' & S).
    exists p1, p2, p3, p4. repeat split; auto. exists vals'. split; auto. split; auto.
    destruct optimize_output_all as (x & j & Ex & R & Ej & M).
    destruct (S _ _ M) as (J & (v & W1 & W2) & _).
    exists x, j, v. repeat split; auto. lia.
  Qed.

  (* every node in the domain of the pipeline's map has an image that carries all its annotations *)
  Theorem optimize_annots_all : annots_incl nodes (po_nodes p) (po_map p).
  Proof.
    pose proof H as H0.
    apply optimize_graph_inv in H0 as (p1 & p2 & p3 & p4 & E1 & E2 & E3 & E4 & En & Eo & Em).
    destruct (stages12 _ _ E1 E2) as (Tn1 & v1 & V1 & S1 & F2 & Tn2 & A2 & K2).
    pose proof (const_struct_thm _ _ _ Ct E1) as (_ & B1 & K1 & _).
    pose proof (dup_struct_thm from_tape infer _ _ _ Tn2 E3) as (_ & B3 & K3 & _).
    destruct (opt_dangling_some _ _ _ E4) as (x & Ex). rewrite Ex in E4.
    pose proof (dangling_struct _ _ _ E4) as (_ & B4 & _ & K4 & _).
    rewrite En, Em.
    apply annots_incl_compose with (b := po_nodes p3);
      [apply annots_incl_compose with (b := po_nodes p2); [apply annots_incl_compose with (b := po_nodes p1)|]|].
    - now apply keepsC_annots_incl.
    - exact A2.
    - now apply keeps_annots_incl.
    - now apply keeps_annots_incl.
  Qed.
End Pipe.

(* C09 preservation: Gemm (transposition of the operands, block-wise general_gemm). *)
From CC Require Import Base.Prelude Base.Scalar Base.Ty Base.Shape Graph.Value Graph.IR Graph.Eval
  Graph.Typing Proofs.EvalProofs Proofs.TypingBase Proofs.TypingTuple Proofs.TypingArith
  Proofs.TypingBits Proofs.TypingReduce Proofs.TypingStruct Proofs.TypingZip Proofs.TypingDot
  Proofs.TypingMatmul.

(* ------------------------------------------------------------------ permuting axes, generically *)
Lemma eval_permute_axes_ok (P : Z -> Prop) cur es perm out :
  valid_shape cur -> valid_shape out -> Z.of_nat (length es) = prod_list cur ->
  prod_list out = prod_list cur -> (length out <= length perm)%nat ->
  Forall (fun x => 0 <= x < Z.of_nat (length cur)) perm -> Forall P es -> P 0 ->
  exists r, eval_permute_axes cur es perm out = Ok r /\ length r = length es /\ Forall P r.
Proof.
  intros Vc Vo Le Pp Lp Fperm Fe P0. unfold eval_permute_axes.
  pose proof (prod_list_pos _ Vc) as Pc.
  match goal with |- context [fold_left ?ff ?ll (Ok ?aa)] =>
    destruct (fold_res_inv ff (fun r => length r = length es /\ Forall P r) ll) with (a := aa)
      as (r & -> & Lr & Fr)
  end.
  - intros i acc Hi [La Fa]. apply zrange_in in Hi. cbn [bind].
    destruct (number_to_index_inverse cur i Vc) as (idx & -> & Hin & _); [lia|]. cbn [bind].
    apply in_shape_length in Hin.
    match goal with |- context [mapM ?g perm] =>
      destruct (mapM_ok g (fun _ => True) perm) as (ni & -> & Lni & _) end.
    { intros ax Hax. rewrite Forall_forall in Fperm. specialize (Fperm ax Hax).
      destruct (znth_total idx ax) as (y & -> & _); [lia|]. eauto. }
    cbn [bind].
    destruct (index_to_number_total out ni Vo) as (n & -> & Bn); [lia|]. cbn [bind].
    destruct (znth_total es i) as (x & -> & Ix); [lia|]. cbn [bind].
    destruct (upd_ok P acc n x) as (acc' & -> & L' & F'); [lia|].
    eexists; split; [reflexivity|]. split; [lia|]. apply F'; auto.
    rewrite Forall_forall in Fe. auto.
  - split; [apply repeat_length|]. apply Forall_forall. intros e He. apply repeat_spec in He. now subst.
  - eauto.
Qed.

Lemma last_two_split (sh : list Z) : (2 <= length sh)%nat ->
  sh = firstn (length sh - 2) sh ++ [nth (length sh - 2) sh 0; nth (length sh - 1) sh 0].
Proof.
  induction sh as [|a sh IH]; intros L; cbn [length] in L; [lia|].
  destruct sh as [|b sh']; cbn [length] in L; [lia|].
  destruct sh' as [|c sh''].
  - reflexivity.
  - specialize (IH ltac:(cbn; lia)).
    replace (length (a :: b :: c :: sh'') - 2)%nat with (S (length (b :: c :: sh'') - 2)) by (cbn; lia).
    replace (length (a :: b :: c :: sh'') - 1)%nat with (S (length (b :: c :: sh'') - 1)) by (cbn; lia).
    cbn [firstn nth app]. f_equal. exact IH.
Qed.

Lemma transpose_shape_app F x y : transpose_shape (F ++ [x; y]) true = F ++ [y; x].
Proof.
  unfold transpose_shape. cbn [negb]. rewrite app_length. cbn [length].
  replace (length F + 2 <? 2)%nat with false by (symmetry; apply Nat.ltb_ge; lia).
  replace (length F + 2 - 2)%nat with (length F) by lia.
  replace (length F + 2 - 1)%nat with (S (length F)) by lia.
  rewrite firstn_app, Nat.sub_diag, firstn_all. cbn [firstn]. rewrite app_nil_r.
  rewrite !app_nth2 by lia. rewrite Nat.sub_diag. replace (S (length F) - length F)%nat with 1%nat by lia.
  reflexivity.
Qed.

Lemma prod_swap_last F x y : prod_list (F ++ [y; x]) = prod_list (F ++ [x; y]).
Proof. rewrite !prod_list_app. cbn [prod_list fold_right]. ring. Qed.

Lemma eval_transpose_ok (P : Z -> Prop) F x y es :
  valid_shape (F ++ [x; y]) -> Z.of_nat (length es) = prod_list (F ++ [x; y]) -> Forall P es -> P 0 ->
  exists r, eval_transpose (F ++ [x; y]) es = Ok r /\ length r = length es /\ Forall P r.
Proof.
  intros V Le Fe P0. unfold eval_transpose. rewrite transpose_shape_app.
  assert (Vo : valid_shape (F ++ [y; x])).
  { apply Forall_app in V as [VF Vxy]. apply Forall_app. split; [exact VF|].
    inversion Vxy as [|? ? Hx Vy]; subst. inversion Vy; subst. repeat constructor; auto. }
  apply eval_permute_axes_ok; auto.
  - apply prod_swap_last.
  - unfold transpose_permutation. rewrite !app_length. cbn [length].
    replace (length F + 2 =? 1)%nat with false by (symmetry; apply Nat.eqb_neq; lia).
    rewrite app_length, zrange_length. cbn [length]. lia.
  - unfold transpose_permutation. rewrite !app_length. cbn [length].
    replace (length F + 2 =? 1)%nat with false by (symmetry; apply Nat.eqb_neq; lia).
    apply Forall_app. split.
    + apply Forall_forall. intros i Hi. apply zrange_in in Hi. lia.
    + repeat constructor; lia.
Qed.

(* ------------------------------------------------------------------ positions of matrix blocks *)
Lemma in_shape_app_inv s1 : forall idx s2, in_shape idx (s1 ++ s2) ->
  exists i1 i2, idx = i1 ++ i2 /\ in_shape i1 s1 /\ in_shape i2 s2.
Proof.
  induction s1 as [|d s1 IH]; intros idx s2 H; cbn [app] in H.
  - exists [], idx. repeat split; [constructor| exact H].
  - inversion H as [|x ? idx' ? Hx H']; subst. destruct (IH _ _ H') as (i1 & i2 & -> & H1 & H2).
    exists (x :: i1), i2. repeat split; [constructor; auto| exact H2].
Qed.

Lemma flat_pos_app i1 : forall s1 i2 s2, length i1 = length s1 ->
  flat_pos (i1 ++ i2) (s1 ++ s2) = flat_pos i1 s1 * prod_list s2 + flat_pos i2 s2.
Proof.
  induction i1 as [|x i1 IH]; intros [|d s1] i2 s2 L; cbn [length] in L; try lia; cbn [app flat_pos].
  - lia.
  - rewrite IH by lia. rewrite prod_list_app. ring.
Qed.

Lemma index_to_number_aux_app i1 : forall s1 i2 s2 acc, length i1 = length s1 ->
  index_to_number_aux acc (i1 ++ i2) (s1 ++ s2) =
  (let* c := index_to_number_aux acc i1 s1 in index_to_number_aux c i2 s2).
Proof.
  induction i1 as [|x i1 IH]; intros [|d s1] i2 s2 acc L; cbn [length] in L; try lia; cbn [app].
  - cbn [index_to_number_aux bind]. destruct i2; reflexivity.
  - cbn [index_to_number_aux]. destruct (d =? 0); [reflexivity|]. apply IH. lia.
Qed.

(* the index of the first element of the q-th matrix of the result ends in two zeros *)
Lemma block_start bs n0 n1 q : valid_shape (bs ++ [n0; n1]) -> 0 <= q < prod_list bs ->
  exists ib, number_to_index (q * (n0 * n1)) (bs ++ [n0; n1]) = Ok (ib ++ [0; 0]) /\ length ib = length bs.
Proof.
  intros V Hq. pose proof V as V'. apply Forall_app in V' as [Vb Vn]. inversion Vn as [|? ? H0 Vn']; subst.
  inversion Vn' as [|? ? H1 _]; subst.
  destruct (number_to_index_inverse (bs ++ [n0; n1]) (q * (n0 * n1)) V) as (idx & E & Hin & Hf).
  { rewrite prod_list_app. cbn [prod_list fold_right]. replace (n0 * (n1 * 1)) with (n0 * n1) by ring.
    assert (0 < n0 * n1) by nia. split; [apply Z.mul_nonneg_nonneg; lia| apply Z.mul_lt_mono_pos_r; lia]. }
  destruct (in_shape_app_inv _ _ _ Hin) as (ib & i2 & -> & Hb & H2).
  inversion H2 as [|x ? i2' ? Hx H2']; subst. inversion H2' as [|y ? i2'' ? Hy H2'']; subst. inversion H2''; subst.
  rewrite flat_pos_app in Hf by (now apply in_shape_length). cbn [flat_pos prod_list fold_right] in Hf.
  pose proof (flat_pos_range _ _ Hb) as Rb.
  assert (Hr : 0 <= x * n1 + y < n0 * n1) by nia.
  assert (Hd : x * n1 + y = (q - flat_pos ib bs) * (n0 * n1)) by lia.
  assert (Hz : q - flat_pos ib bs = 0) by nia.
  assert (Hxy : x * n1 + y = 0) by (rewrite Hd, Hz; lia).
  assert (x = 0) by nia. assert (y = 0) by nia. subst x y.
  exists ib. split; [exact E| now apply in_shape_length].
Qed.

(* an operand index whose last two coordinates are zero addresses the start of a matrix *)
Lemma operand_block_start B a b ib' : valid_shape (B ++ [a; b]) -> length ib' = length B ->
  exists c, index_to_number (ib' ++ [0; 0]) (B ++ [a; b]) = Ok (c * (a * b)) /\ 0 <= c < prod_list B.
Proof.
  intros V L. apply Forall_app in V as [VB Vab]. inversion Vab as [|? ? Ha Vb]; subst. inversion Vb as [|? ? Hb _]; subst.
  unfold index_to_number. rewrite index_to_number_aux_app by exact L.
  destruct (index_to_number_aux_total B VB ib' 0) as (c & -> & Bc); [lia| lia|]. cbn [bind].
  exists c. split; [|lia]. cbn [index_to_number_aux].
  replace (a =? 0) with false by lia. replace (b =? 0) with false by lia.
  rewrite !Z.mod_0_l by lia. f_equal. ring.
Qed.

(* ------------------------------------------------------------------ general_gemm *)
Lemma dot_lists_range st a b : 0 <= dot_lists st a b < modulus st.
Proof.
  unfold dot_lists. generalize (combine a b) as l. intros l.
  assert (G : forall acc, 0 <= acc < modulus st ->
            0 <= fold_left (fun acc p => k_add st acc (k_mul st (fst p) (snd p))) l acc < modulus st).
  { induction l as [|p l IH]; intros acc Ha; cbn [fold_left]; [exact Ha|]. apply IH. apply k_add_range. }
  apply G. apply zero_in_range.
Qed.

Lemma last_z_app2 (B : list Z) (a b : Z) : last_z (B ++ [a; b]) = b.
Proof. unfold last_z. replace (B ++ [a; b]) with ((B ++ [a]) ++ [b]) by (rewrite <- app_assoc; reflexivity). apply last_last. Qed.

Lemma znth_second_last (B : list Z) (a b : Z) : znth (B ++ [a; b]) (Z.of_nat (length (B ++ [a; b])) - 2) = Ok a.
Proof.
  rewrite (znth_ok _ _ 0) by (rewrite app_length; cbn [length]; lia). f_equal.
  replace (Z.to_nat (Z.of_nat (length (B ++ [a; b])) - 2)) with (length B) by (rewrite app_length; cbn [length]; lia).
  rewrite app_nth2 by lia. now rewrite Nat.sub_diag.
Qed.

Lemma skipn_app_le {A} n (l1 l2 : list A) : (n <= length l1)%nat -> skipn n (l1 ++ l2) = skipn n l1 ++ l2.
Proof. intros H. rewrite skipn_app. replace (n - length l1)%nat with O by lia. reflexivity. Qed.

Lemma general_gemm_typed st x0 x1 B0 B1 bs n0 n1 k :
  valid_shape (B0 ++ [n0; k]) -> valid_shape (B1 ++ [n1; k]) -> valid_shape (bs ++ [n0; n1]) ->
  (length B0 <= length bs)%nat -> (length B1 <= length bs)%nat ->
  Z.of_nat (length x0) = prod_list (B0 ++ [n0; k]) -> Z.of_nat (length x1) = prod_list (B1 ++ [n1; k]) ->
  exists r, general_gemm st x0 x1 (B0 ++ [n0; k]) (B1 ++ [n1; k]) (bs ++ [n0; n1]) = Ok r /\
            Z.of_nat (length r) = prod_list (bs ++ [n0; n1]) /\ Forall (fun e => 0 <= e < modulus st) r.
Proof.
  intros V0 V1 Vr L0 L1 Lx0 Lx1. unfold general_gemm.
  rewrite last_z_app2, !znth_second_last. cbn [bind].
  pose proof V0 as V0'. apply Forall_app in V0' as [VB0 Vt0]. inversion Vt0 as [|? ? Hn0 Vt0']; subst.
  inversion Vt0' as [|? ? Hk _]; subst.
  pose proof V1 as V1'. apply Forall_app in V1' as [VB1 Vt1]. inversion Vt1 as [|? ? Hn1 _]; subst.
  pose proof Vr as Vr'. apply Forall_app in Vr' as [Vbs _].
  pose proof (prod_list_pos _ VB0) as PB0. pose proof (prod_list_pos _ VB1) as PB1. pose proof (prod_list_pos _ Vbs) as Pbs.
  assert (Hm : 0 < n0 * n1) by nia.
  replace (n0 * n1 <=? 0) with false by lia.
  replace ((length (bs ++ [n0; n1]) <? length (B0 ++ [n0; k]))%nat || (length (bs ++ [n0; n1]) <? length (B1 ++ [n1; k]))%nat)
    with false.
  2:{ symmetry. rewrite !app_length. cbn [length]. apply orb_false_iff. split; apply Nat.ltb_ge; lia. }
  rewrite !prod_list_app in *. cbn [prod_list fold_right] in *.
  replace (n0 * (n1 * 1)) with (n0 * n1) in * by ring. replace (n0 * (k * 1)) with (n0 * k) in * by ring.
  replace (n1 * (k * 1)) with (n1 * k) in * by ring.
  replace ((prod_list bs * (n0 * n1) + n0 * n1 - 1) / (n0 * n1)) with (prod_list bs).
  2:{ apply (Z.div_unique _ _ _ (n0 * n1 - 1)); [lia| ring]. }
  match goal with |- context [mapM ?g (map ?h (zrange (prod_list bs)))] =>
    destruct (mapM_ok g (fun blk => Z.of_nat (length blk) = n0 * n1 /\ Forall (fun e => 0 <= e < modulus st) blk)
                (map h (zrange (prod_list bs)))) as (blocks & -> & Lb & Fb) end.
  { intros mi Hmi. apply in_map_iff in Hmi as (q & <- & Hq). apply zrange_in in Hq.
    destruct (block_start bs n0 n1 q Vr Hq) as (ib & -> & Lib). cbn [bind].
    rewrite !app_length. cbn [length].
    rewrite !skipn_app_le by lia.
    destruct (operand_block_start B0 n0 k (skipn (length bs + 2 - (length B0 + 2)) ib) V0) as (c0 & -> & Bc0).
    { rewrite skipn_length. lia. }
    destruct (operand_block_start B1 n1 k (skipn (length bs + 2 - (length B1 + 2)) ib) V1) as (c1 & -> & Bc1).
    { rewrite skipn_length. lia. }
    cbn [bind].
    match goal with |- context [mapM ?g (zrange n0)] =>
      destruct (mapM_ok g (fun row => Z.of_nat (length row) = n1 /\ Forall (fun e => 0 <= e < modulus st) row) (zrange n0))
        as (rows & -> & Lrows & Frows) end.
    { intros i Hi. apply zrange_in in Hi.
      assert (A1 : (c0 + 1) * (n0 * k) <= prod_list B0 * (n0 * k)) by (apply Z.mul_le_mono_nonneg_r; nia).
      assert (A2 : (i + 1) * k <= n0 * k) by (apply Z.mul_le_mono_nonneg_r; lia).
      destruct (slice_z_ok (fun _ => True) x0 (c0 * (n0 * k) + i * k) k) as (row0 & -> & Lr0 & _); try nia.
      { apply Forall_forall; auto. }
      cbn [bind].
      match goal with |- context [mapM ?g (zrange n1)] =>
        destruct (mapM_ok g (fun e => 0 <= e < modulus st) (zrange n1)) as (row & -> & Lrow & Frow) end.
      { intros j Hj. apply zrange_in in Hj.
        assert (A3 : (c1 + 1) * (n1 * k) <= prod_list B1 * (n1 * k)) by (apply Z.mul_le_mono_nonneg_r; nia).
        assert (A4 : (j + 1) * k <= n1 * k) by (apply Z.mul_le_mono_nonneg_r; lia).
        destruct (slice_z_ok (fun _ => True) x1 (c1 * (n1 * k) + j * k) k) as (row1 & -> & Lr1 & _); try nia.
        { apply Forall_forall; auto. }
        cbn [bind]. eexists; split; [reflexivity| apply dot_lists_range]. }
      eexists; split; [reflexivity|]. split; [rewrite Lrow, zrange_length; lia| exact Frow]. }
    cbn [bind]. eexists; split; [reflexivity|]. split.
    - rewrite (concat_length_const rows (Z.to_nat n1)).
      + rewrite Lrows, zrange_length. nia.
      + eapply Forall_impl; [|exact Frows]. cbn. intros a [La _]. lia.
    - apply Forall_forall. intros e He. apply in_concat in He as (p & Hp & He).
      rewrite Forall_forall in Frows. destruct (Frows p Hp) as [_ F]. rewrite Forall_forall in F. auto. }
  cbn [bind]. eexists; split; [reflexivity|]. split.
  - rewrite (concat_length_const blocks (Z.to_nat (n0 * n1))).
    + rewrite Lb, map_length, zrange_length. nia.
    + eapply Forall_impl; [|exact Fb]. cbn. intros a [La _]. lia.
  - apply Forall_forall. intros e He. apply in_concat in He as (p & Hp & He).
    rewrite Forall_forall in Fb. destruct (Fb p Hp) as [_ F]. rewrite Forall_forall in F. auto.
Qed.

(* ------------------------------------------------------------------ Gemm *)
Lemma valid_swap F (a b : Z) : valid_shape (F ++ [a; b]) -> valid_shape (F ++ [b; a]).
Proof.
  intros V. apply Forall_app in V as [VF Vab]. apply Forall_app. split; [exact VF|].
  inversion Vab as [|? ? Ha Vb]; subst. inversion Vb; subst. repeat constructor; auto.
Qed.

Lemma transpose_shape_false sh : transpose_shape sh false = sh.
Proof. reflexivity. Qed.

Lemma gemm_shapes sh tr : (2 <= length sh)%nat -> valid_shape sh ->
  exists F a b, transpose_shape sh tr = F ++ [a; b] /\ transpose_shape sh (negb tr) = F ++ [b; a] /\
                valid_shape (F ++ [a; b]) /\ valid_shape (F ++ [b; a]) /\
                prod_list (F ++ [a; b]) = prod_list sh /\ prod_list (F ++ [b; a]) = prod_list sh /\
                sh = (if tr then F ++ [b; a] else F ++ [a; b]).
Proof.
  intros L V. pose proof (last_two_split sh L) as E.
  set (F := firstn (length sh - 2) sh) in *. set (p := nth (length sh - 2) sh 0) in *.
  set (q := nth (length sh - 1) sh 0) in *. clearbody F p q. subst sh.
  destruct tr; cbn [negb].
  - exists F, q, p. rewrite transpose_shape_app, transpose_shape_false.
    repeat split; auto using valid_swap, prod_swap_last.
  - exists F, p, q. rewrite transpose_shape_app, transpose_shape_false.
    repeat split; auto using valid_swap, prod_swap_last.
Qed.

Lemma znth_last2 (B : list Z) (a b : Z) : znth (B ++ [a; b]) (zlen (B ++ [a; b]) - 1) = Ok b.
Proof.
  unfold zlen. rewrite (znth_ok _ _ 0) by (rewrite app_length; cbn [length]; lia). f_equal.
  replace (Z.to_nat (Z.of_nat (length (B ++ [a; b])) - 1)) with (S (length B)) by (rewrite app_length; cbn [length]; lia).
  rewrite app_nth2 by lia. replace (S (length B) - length B)%nat with 1%nat by lia. reflexivity.
Qed.

Lemma firstn_app_two {A} (B : list A) a b : firstn (length (B ++ [a; b]) - 2) (B ++ [a; b]) = B.
Proof.
  rewrite app_length. cbn [length]. replace (length B + 2 - 2)%nat with (length B) by lia.
  rewrite firstn_app, Nat.sub_diag, firstn_all. cbn [firstn]. apply app_nil_r.
Qed.

Lemma preserves_gemm ta tb : preserves (OGemm ta tb).
Proof.
  intros ts t vs Hu H HF. inv_infer H. apply zlen_eq in Harity.
  destruct (two_deps _ _ Harity HF) as (v0 & t0 & v1 & t1 & -> & -> & [Hv0 Hok0] & [Hv1 Hok1]).
  cbn [nth] in H. cbn [eval_node nth nth_res bind].
  apply bind_ok in H as (r & Er & H). apply register_ok in H as [-> _].
  unfold gemm_type_inference in Er.
  destruct t0 as [|sh0 st0| | |]; try discriminate. destruct t1 as [|sh1 st1| | |]; try discriminate.
  cbn [is_arr negb st_of shape_of] in Er.
  destruct (scalar_eqb st0 st1) eqn:S; cbn [negb] in Er; [|discriminate]. apply scalar_eqb_eq in S. subst st1.
  destruct ((zlen sh0 =? 1) || (zlen sh1 =? 1)) eqn:R1; [discriminate|]. unfold zlen in R1.
  destruct (ty_ok_array _ _ Hok0) as [V0 N0]. destruct (ty_ok_array _ _ Hok1) as [V1 N1].
  assert (L0 : (2 <= length sh0)%nat) by (destruct sh0 as [|? [|? ?]]; cbn in *; try congruence; lia).
  assert (L1 : (2 <= length sh1)%nat) by (destruct sh1 as [|? [|? ?]]; cbn in *; try congruence; lia).
  destruct v0 as [e0|]; [|discriminate]. apply has_type_array in Hv0 as [Le0 _].
  destruct v1 as [e1|]; [|discriminate]. apply has_type_array in Hv1 as [Le1 _].
  destruct (gemm_shapes sh0 ta L0 V0) as (F0 & n0 & k0 & Es0 & _ & Vs0 & Vs0' & Ps0 & Ps0' & Esh0).
  destruct (gemm_shapes sh1 tb L1 V1) as (F1 & k1 & m & Es1 & Es1e & Vs1 & Vs1e & Ps1 & Ps1e & Esh1).
  rewrite Es0, Es1 in Er.
  rewrite znth_last2 in Er. unfold zlen in Er. rewrite znth_second_last in Er. cbn [bind] in Er.
  destruct (k0 =? k1) eqn:K; cbn [negb] in Er; [|discriminate]. assert (k1 = k0) by lia. subst k1. clear K.
  rewrite !firstn_app_two in Er.
  apply bind_ok in Er as (bs & Ebs & Er).
  rewrite znth_second_last in Er. fold (zlen (F1 ++ [k0; m])) in Er. rewrite znth_last2 in Er. cbn [bind] in Er.
  inversion Er; subst r. clear Er.
  revert Esh0 Esh1.
  pose proof Vs0 as Vs0a. apply Forall_app in Vs0a as [VF0 Vt0]. inversion Vt0 as [|? ? Hn0 Vt0']; subst.
  inversion Vt0' as [|? ? Hk0 _]; subst.
  pose proof Vs1 as Vs1a. apply Forall_app in Vs1a as [VF1 Vt1]. inversion Vt1 as [|? ? _ Vt1']; subst.
  inversion Vt1' as [|? ? Hm _]; subst.
  intros Esh0 Esh1.
  destruct (broadcast_shapes_ok _ _ _ Ebs VF0 VF1) as [Lbs Vbs].
  assert (Vrs : valid_shape (bs ++ [n0; m])) by (apply Forall_app; split; [exact Vbs| repeat constructor; lia]).
  unfold eval_gemm. cbn [arr_of bind is_arr andb negb shape_of st_of].
  (* the operands, transposed where the evaluator transposes them *)
  assert (X0 : exists x0, (if ta then eval_transpose sh0 e0 else Ok e0) = Ok x0 /\
                          Z.of_nat (length x0) = prod_list (F0 ++ [n0; k0])).
  { destruct ta.
    - subst sh0. destruct (eval_transpose_ok (fun _ => True) F0 k0 n0 e0 Vs0' Le0) as (x0 & -> & Lx & _); auto.
      { apply Forall_forall; auto. } exists x0. split; [reflexivity|]. rewrite Lx, Le0. apply prod_swap_last.
    - subst sh0. exists e0. auto. }
  assert (X1 : exists x1, (if negb tb then eval_transpose sh1 e1 else Ok e1) = Ok x1 /\
                          Z.of_nat (length x1) = prod_list (F1 ++ [m; k0])).
  { destruct tb; cbn [negb].
    - subst sh1. exists e1. auto.
    - subst sh1. destruct (eval_transpose_ok (fun _ => True) F1 k0 m e1 Vs1 Le1) as (x1 & -> & Lx & _); auto.
      { apply Forall_forall; auto. } exists x1. split; [reflexivity|]. rewrite Lx, Le1. apply prod_swap_last. }
  destruct X0 as (x0 & -> & Lx0). destruct X1 as (x1 & -> & Lx1). cbn [bind].
  rewrite Es0, Es1e.
  destruct (general_gemm_typed st0 x0 x1 F0 F1 bs n0 m k0 Vs0 Vs1e Vrs) as (res & -> & Lres & Fres); auto; try lia.
  cbn [bind safe_typed]. apply has_type_array. auto.
Qed.

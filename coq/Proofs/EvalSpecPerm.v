(* Per-operation specification proofs (C10), part 9: InversePermutation, ApplyPermutation (both
   directions), SegmentCumSum, at the level of eval_node.  (Property C18 proves the algebra of
   permutation application and inversion on its own row-level model, Model/Sort.v; the statements
   here are the element-wise NumPy-style readings of the evaluator model's operations.) *)
From CC Require Import Base.Prelude Base.Scalar Base.Ty Base.Shape Graph.Value Graph.IR Graph.Eval
  Proofs.EvalProofs Graph.Spec Proofs.EvalSpecBase Proofs.EvalSpecGemm Proofs.EvalSpecGather.

(* ------------------------------------------------------------------ loops over enumerate() *)
Lemma combine_zrange (vals : list Z) :
  combine (zrange (Z.of_nat (length vals))) vals
  = map (fun i => (i, nth (Z.to_nat i) vals 0)) (zrange (Z.of_nat (length vals))).
Proof.
  apply nth_ext with (d := (0, 0)) (d' := (0, 0)).
  - rewrite combine_length, map_length, zrange_length. lia.
  - rewrite combine_length, zrange_length. intros i Hi.
    rewrite combine_nth by (rewrite zrange_length; lia).
    rewrite (nth_map_default _ _ _ 0) by (rewrite zrange_length; lia).
    rewrite nth_zrange by lia. now rewrite Nat2Z.id.
Qed.

Lemma fold_left_map' {A B C} (f : A -> C -> A) (h : B -> C) l a :
  fold_left f (map h l) a = fold_left (fun a x => f a (h x)) l a.
Proof. revert a; induction l as [|x l IH]; intros a; cbn [map fold_left]; auto. Qed.

Lemma nodup_z_true l : NoDup l -> nodup_z l = true.
Proof.
  induction 1 as [|x l Hx Hl IH]; [reflexivity|]. cbn [nodup_z]. rewrite IH, andb_true_r.
  destruct (existsb (Z.eqb x) l) eqn:E; [|reflexivity].
  apply existsb_exists in E as (y & Hy & Exy). assert (x = y) by lia. subst. contradiction.
Qed.

(* ------------------------------------------------------------------ InversePermutation *)
Definition is_perm_list (n : Z) (p : list Z) : Prop :=
  Z.of_nat (length p) = n /\ Forall (fun v => 0 <= v < n) p /\ NoDup p.

(* output[p[j]] = j *)
Lemma inverse_permutation_fn_spec n p : is_perm_list n p ->
  exists r, inverse_permutation p = Ok r /\ Z.of_nat (length r) = n /\
    Forall (fun e => 0 <= e < n) r /\
    forall j, 0 <= j < n -> nth (Z.to_nat (nth (Z.to_nat j) p 0)) r 0 = j.
Proof.
  intros (Ln & Hr & Hnd). rewrite Forall_forall in Hr.
  set (N := length p).
  set (Inv := fun (k : nat) (r : list Z) =>
     length r = N /\ Forall (fun e => 0 <= e < n) r /\
     forall j, 0 <= j < Z.of_nat k -> nth (Z.to_nat (nth (Z.to_nat j) p 0)) r 0 = j).
  destruct (fold_left_result_inv
    (fun r i => if Z.of_nat N <=? nth (Z.to_nat i) p 0 then Err else upd r (nth (Z.to_nat i) p 0) i)
    Inv N (repeat 0 N)) as (r & E & HI).
  - split; [apply repeat_length|]. split; [|intros; lia].
    apply Forall_forall. intros e He. pose proof (repeat_spec _ _ _ He) as ->.
    assert (HN : (N = 0)%nat \/ 0 < n) by (unfold N; lia).
    destruct HN as [HN|HN]; [rewrite HN in He; destruct He|lia].
  - intros k r Hk (Lr & Fr & Hj). rewrite Nat2Z.id.
    assert (Hv : 0 <= nth k p 0 < n) by (apply Hr, nth_In; lia).
    replace (Z.of_nat N <=? nth k p 0) with false by (unfold N; lia).
    rewrite upd_ok by (unfold N in Lr; lia). eexists. split; [reflexivity|].
    split; [now rewrite set_nth_length|]. split.
    + apply Forall_forall. intros e He. apply (In_nth _ _ 0) in He as (q & Hq & <-).
      rewrite set_nth_length in Hq. rewrite nth_set_nth by (unfold N in Lr; lia).
      destruct (Nat.eqb q (Z.to_nat (nth k p 0))); [unfold N in Hk; lia|].
      rewrite Forall_forall in Fr. apply Fr, nth_In. lia.
    + intros j Hj'. rewrite nth_set_nth by (unfold N in Lr; lia).
      destruct (Nat.eqb_spec (Z.to_nat (nth (Z.to_nat j) p 0)) (Z.to_nat (nth k p 0))) as [Eq|Ne].
      * assert (Hvj : 0 <= nth (Z.to_nat j) p 0 < n) by (apply Hr, nth_In; lia).
        assert (Ejk : nth (Z.to_nat j) p 0 = nth k p 0) by lia.
        apply (proj1 (NoDup_nth p 0) Hnd) in Ejk; [lia|lia|exact Hk].
      * apply Hj. assert (j <> Z.of_nat k) by (intros ->; rewrite Nat2Z.id in Ne; congruence). lia.
  - destruct HI as (Lr & Fr & Hj). exists r. split; [|split; [unfold N in Lr; lia|split; [exact Fr|]]].
    + unfold inverse_permutation. rewrite combine_zrange, fold_left_map'. exact E.
    + intros j Hj'. apply Hj. unfold N. lia.
Qed.

Theorem inverse_permutation_spec n st t es :
  let p := map (as_u64 st) es in
  is_perm_list n p ->
  exists r, eval_node OInversePermutation [TArray [n] st] t [VArr es] = Ok (VArr r) /\
    is_perm_list n r /\
    (forall j, 0 <= j < n -> nth (Z.to_nat (nth (Z.to_nat j) p 0)) r 0 = j) /\
    (forall i, 0 <= i < n -> nth (Z.to_nat (nth (Z.to_nat i) r 0)) p 0 = i).
Proof.
  intros p Hp. pose proof Hp as (Ln & Hr & Hnd).
  destruct (inverse_permutation_fn_spec n p Hp) as (r & E & Lr & Fr & Hj).
  (* r is injective on positions, hence a permutation, hence p[r[i]] = i *)
  assert (Hsurj : forall i, 0 <= i < n -> exists j, 0 <= j < n /\ nth (Z.to_nat j) p 0 = i).
  { (* p is an injection of [0,n) into itself: it is onto *)
    intros i Hi. destruct (in_dec Z.eq_dec i p) as [Hin|Hnin].
    - apply (In_nth _ _ 0) in Hin as (q & Hq & Eq). exists (Z.of_nat q). rewrite Nat2Z.id. split; [lia|exact Eq].
    - exfalso. assert (Hincl : incl p (remove Z.eq_dec i (zrange n))).
      { intros x Hx. apply in_in_remove; [intros ->; contradiction|]. apply In_zrange.
        rewrite Forall_forall in Hr. auto. }
      pose proof (NoDup_incl_length Hnd Hincl) as Hlen.
      assert (Hrem : (length (remove Z.eq_dec i (zrange n)) < length (zrange n))%nat)
        by (apply remove_length_lt, In_zrange; lia).
      rewrite zrange_length in Hrem. lia. }
  assert (Hinv : forall i, 0 <= i < n -> nth (Z.to_nat (nth (Z.to_nat i) r 0)) p 0 = i).
  { intros i Hi. destruct (Hsurj i Hi) as (j & Hj' & <-). now rewrite Hj. }
  exists r. split; [|split; [|split; [exact Hj|exact Hinv]]].
  - cbn [eval_node nth nth_res bind arr_of is_arr negb st_of]. fold p.
    rewrite nodup_z_true by exact Hnd. cbn [negb]. rewrite E. reflexivity.
  - split; [exact Lr|]. split; [exact Fr|].
    apply (proj2 (NoDup_nth r 0)). intros a b Ha Hb Eab.
    pose proof (Hinv (Z.of_nat a) ltac:(lia)) as Ea. pose proof (Hinv (Z.of_nat b) ltac:(lia)) as Eb.
    rewrite Nat2Z.id in Ea, Eb. rewrite Eab in Ea. lia.
Qed.

(* ------------------------------------------------------------------ ApplyPermutation *)
Lemma filter_all {A} (f : A -> bool) l : (forall x, In x l -> f x = true) -> filter f l = l.
Proof.
  induction l as [|x l IH]; intros H; cbn [filter]; [reflexivity|].
  rewrite (H x) by now left. rewrite IH by (intros; apply H; now right). reflexivity.
Qed.

(* rows of a (first dimension n) selected by a list of row numbers: eval_gather along axis 0 *)
Lemma gather_rows_spec n rest es inds :
  0 < n -> valid_shape rest -> length es = Z.to_nat (prod_list (n :: rest)) ->
  Forall (fun e => 0 <= e < n) inds ->
  exists r, eval_gather (n :: rest) es inds 0 = Ok r /\
    length r = Z.to_nat (prod_list (Z.of_nat (length inds) :: rest)) /\
    forall c idx, 0 <= c < Z.of_nat (length inds) -> in_shape idx rest ->
      get r (Z.of_nat (length inds) :: rest) (c :: idx) = get es (n :: rest) (nth (Z.to_nat c) inds 0 :: idx).
Proof.
  intros Hn Hv Hl Hin.
  destruct (eval_gather_spec [] n rest es inds ltac:(constructor) Hn Hv Hl Hin) as (r & E & L & S).
  cbv zeta in L, S. cbn [app length] in E, S. change (Z.of_nat 0) with 0 in E.
  exists r. split; [exact E|]. split.
  - rewrite L. rewrite prod_list_cons. unfold prod_list at 1. cbn [fold_right]. f_equal. ring.
  - intros c idx Hc Hidx. specialize (S [] c idx in_shape_nil Hc Hidx). cbn [flat_pos app] in S.
    rewrite <- S. unfold get. cbn [flat_pos]. f_equal; try (f_equal; ring).
Qed.

Theorem apply_permutation_spec (inv : bool) n rest st ist t0 es p0 :
  0 < n -> valid_shape rest -> length es = Z.to_nat (prod_list (n :: rest)) ->
  let p := map (as_u64 ist) p0 in
  is_perm_list n p ->
  exists r, eval_node (OApplyPermutation inv) [t0; TArray [n] ist] (TArray (n :: rest) st) [VArr es; VArr p0]
            = Ok (VArr r) /\
    length r = Z.to_nat (prod_list (n :: rest)) /\
    forall x idx, 0 <= x < n -> in_shape idx rest ->
      let px := nth (Z.to_nat x) p 0 in
      if inv then get r (n :: rest) (px :: idx) = get es (n :: rest) (x :: idx)
      else get r (n :: rest) (x :: idx) = get es (n :: rest) (px :: idx).
Proof.
  intros Hn Hv Hl p Hp. pose proof Hp as (Ln & Hr & Hnd).
  assert (Ebelow : filter (fun x => x <? n) p = p).
  { apply filter_all. intros x Hx. rewrite Forall_forall in Hr. specialize (Hr x Hx). lia. }
  assert (Echeck : negb (Z.of_nat (length (nodup Z.eq_dec (filter (fun x => x <? n) p))) =? n) = false).
  { rewrite Ebelow, nodup_fixed_point by exact Hnd. rewrite Ln, Z.eqb_refl. reflexivity. }
  destruct inv.
  - destruct (inverse_permutation_fn_spec n p Hp) as (q & Eq & Lq & Fq & Hq).
    destruct (gather_rows_spec n rest es q Hn Hv Hl Fq) as (r & E & L & S). rewrite Lq in L, S.
    exists r. split; [|split; [exact L|]].
    + cbn [eval_node nth nth_res bind arr_of is_arr negb shape_of st_of]. rewrite (znth_ok _ _ 0) by (cbn [length]; lia).
      cbn [nth Z.to_nat bind]. fold p. rewrite Echeck. rewrite Eq. cbn [bind]. rewrite E. reflexivity.
    + intros x idx Hx Hidx px.
      assert (Hpx : 0 <= px < n) by (rewrite Forall_forall in Hr; apply Hr, nth_In; lia).
      rewrite (S px idx Hpx Hidx). unfold px. now rewrite Hq.
  - destruct (gather_rows_spec n rest es p Hn Hv Hl Hr) as (r & E & L & S). rewrite Ln in L, S.
    exists r. split; [|split; [exact L|]].
    + cbn [eval_node nth nth_res bind arr_of is_arr negb shape_of st_of]. rewrite (znth_ok _ _ 0) by (cbn [length]; lia).
      cbn [nth Z.to_nat bind]. fold p. rewrite Echeck. cbn [bind]. rewrite E. reflexivity.
    + intros x idx Hx Hidx px. exact (S x idx Hx Hidx).
Qed.

(* ------------------------------------------------------------------ SegmentCumSum *)
Lemma seg_cumsum_at_ext a a' b b' v i :
  (forall k, 0 <= k < Z.of_nat i -> a k = a' k /\ b k = b' k) ->
  seg_cumsum_at a b v i = seg_cumsum_at a' b' v i.
Proof.
  induction i as [|i IH]; intros H; cbn [seg_cumsum_at]; [reflexivity|].
  destruct (H (Z.of_nat i) ltac:(lia)) as [-> ->]. rewrite IH by (intros; apply H; lia). reflexivity.
Qed.

Theorem segment_cumsum_spec n rest st tb tf t A B v :
  0 < n -> valid_shape rest -> prod_list (dims tf) = prod_list rest ->
  let P := prod_list rest in let m := modulus st in
  length A = Z.to_nat (n * P) -> length B = Z.to_nat n -> length v = Z.to_nat P ->
  Forall (fun b => b = 0 \/ b = 1) B ->
  Forall (fun e => 0 <= e < m) A -> Forall (fun e => 0 <= e < m) v ->
  exists r, eval_node OSegmentCumSum [TArray (n :: rest) st; tb; tf] t [VArr A; VArr B; VArr v] = Ok (VArr r) /\
    length r = Z.to_nat ((n + 1) * P) /\
    forall i idx, 0 <= i <= n -> in_shape idx rest ->
      get r ((n + 1) :: rest) (i :: idx) =
      seg_cumsum_at (fun k => get A (n :: rest) (k :: idx)) (fun k => nth (Z.to_nat k) B 0)
                    (get v rest idx) (Z.to_nat i) mod m.
Proof.
  intros Hn Hv Hdf P m LA LB Lv HB HA Hvr.
  pose proof (prod_list_pos _ Hv) as HP. fold P in HP. pose proof (modulus_pos st) as Hm. fold m in Hm.
  rewrite Forall_forall in HB, HA, Hvr.
  set (Sg := fun (i : nat) (p : Z) =>
     seg_cumsum_at (fun k => nth (Z.to_nat (k * P + p)) A 0) (fun k => nth (Z.to_nat k) B 0)
                   (nth (Z.to_nat p) v 0) i mod m).
  set (N := length B).
  set (Inv := fun (k : nat) (r : list Z) =>
     Z.of_nat (length r) = (Z.of_nat k + 1) * P /\
     forall i p, 0 <= i <= Z.of_nat k -> 0 <= p < P -> nth (Z.to_nat (i * P + p)) r 0 = Sg (Z.to_nat i) p).
  destruct (fold_left_result_inv
    (fun r i => let* input_row := slice_z A (i * P) P in
                if nth (Z.to_nat i) B 0 =? 0 then Ok (r ++ input_row) else
                let* prev := slice_z r (i * P) P in
                Ok (r ++ zip_with (k_add st) input_row prev))
    Inv N v) as (r & E & HI).
  - split; [lia|]. intros i p Hi Hp. assert (i = 0) by lia. subst i. cbn [Z.to_nat]. unfold Sg.
    cbn [seg_cumsum_at]. rewrite Z.mul_0_l, Z.add_0_l. symmetry. apply Z.mod_small.
    apply Hvr, nth_In. lia.
  - intros k r Hk (Lr & Hr).
    assert (Hk' : Z.of_nat k < n) by (unfold N in Hk; lia).
    assert (A1 : (Z.of_nat k + 1) * P <= n * P) by (apply Z.mul_le_mono_nonneg_r; lia).
    rewrite slice_z_ok by nia. cbn [bind]. rewrite Nat2Z.id.
    set (row := firstn (Z.to_nat P) (skipn (Z.to_nat (Z.of_nat k * P)) A)).
    assert (Lrow : length row = Z.to_nat P) by (unfold row; rewrite firstn_length, skipn_length; nia).
    assert (Hrow : forall p, 0 <= p < P -> nth (Z.to_nat p) row 0 = nth (Z.to_nat (Z.of_nat k * P + p)) A 0).
    { intros p Hp. unfold row. rewrite nth_firstn_skipn by lia. f_equal. nia. }
    assert (HAk : forall p, 0 <= p < P -> 0 <= nth (Z.to_nat (Z.of_nat k * P + p)) A 0 < m)
      by (intros p Hp; apply HA, nth_In; nia).
    assert (Hbit : nth k B 0 = 0 \/ nth k B 0 = 1) by (apply HB, nth_In; exact Hk).
    assert (Hsplit : forall (new : list Z), length new = Z.to_nat P ->
       (forall p, 0 <= p < P -> nth (Z.to_nat p) new 0 = Sg (S k) p) -> Inv (S k) (r ++ new)).
    { intros new Lnew Hnew. split; [rewrite app_length; nia|].
      intros i p Hi Hp. destruct (Z_lt_dec i (Z.of_nat k + 1)) as [Hlt|Hge].
      - rewrite app_nth1 by nia. apply Hr; lia.
      - assert (i = Z.of_nat k + 1) by lia. subst i. rewrite app_nth2 by nia.
        replace (Z.to_nat ((Z.of_nat k + 1) * P + p) - length r)%nat with (Z.to_nat p) by nia.
        rewrite Hnew by lia. f_equal. lia. }
    destruct Hbit as [Eb|Eb]; rewrite Eb.
    + cbn [Z.eqb]. eexists. split; [reflexivity|]. apply Hsplit; [exact Lrow|].
      intros p Hp. rewrite Hrow by lia. unfold Sg. cbn [seg_cumsum_at]. rewrite !Nat2Z.id, Eb.
      rewrite Z.mul_0_l, Z.add_0_r. symmetry. apply Z.mod_small. now apply HAk.
    + cbn [Z.eqb]. rewrite slice_z_ok by nia. cbn [bind]. eexists. split; [reflexivity|].
      set (prev := firstn (Z.to_nat P) (skipn (Z.to_nat (Z.of_nat k * P)) r)).
      assert (Lprev : length prev = Z.to_nat P) by (unfold prev; rewrite firstn_length, skipn_length; nia).
      apply Hsplit; [rewrite zip_with_length; lia|].
      intros p Hp. rewrite (nth_zip_with _ _ _ _ 0 0 0) by lia. rewrite Hrow by lia.
      unfold prev. rewrite nth_firstn_skipn by lia.
      replace (Z.to_nat (Z.of_nat k * P) + Z.to_nat p)%nat with (Z.to_nat (Z.of_nat k * P + p)) by nia.
      rewrite Hr by lia. rewrite k_add_mod. unfold Sg. cbn [seg_cumsum_at]. rewrite !Nat2Z.id, Eb.
      fold m. rewrite Zplus_mod_idemp_r. f_equal. ring.
  - destruct HI as (Lr & Hr). exists r. split; [|split].
    + cbn [eval_node nth nth_res bind arr_of st_of]. rewrite Hdf. fold P.
      rewrite combine_zrange, fold_left_map'.
      match goal with |- (let* r := ?X in _) = _ => replace X with (Ok r) by (symmetry; exact E) end.
      reflexivity.
    + unfold N in Lr. lia.
    + intros i idx Hi Hidx. pose proof (flat_pos_range _ _ Hidx) as Rp. fold P in Rp.
      unfold get at 1. cbn [flat_pos]. fold P. rewrite Hr by (unfold N; lia). unfold Sg.
      f_equal; try (apply seg_cumsum_at_ext; intros k Hk; split; reflexivity).
Qed.

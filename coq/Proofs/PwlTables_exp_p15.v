(* Generated (harness/src/c20.rs, tier gen): interval proofs for the committed table exp_p15. *)
From Coq Require Import Reals.
From Interval Require Import Tactic.
From CC Require Import Base.Prelude Model.PwlData Proofs.PwlReal.
Open Scope R_scope.

Lemma exp_p15_seg1 : seg_bound exp_fn (4/100) (1/32768) 32768 1073741824 (-540672) (-507904) 0 0.
Proof. unfold seg_bound, exp_fn. intros x Hx; apply Rabs_le; split; apply Rminus_le; interval with (i_bisect x, i_taylor x, i_prec 53). Qed.
Lemma exp_p15_seg2 : seg_bound exp_fn (4/100) (1/32768) 32768 1073741824 (-507904) (-491520) 0 0.
Proof. unfold seg_bound, exp_fn. intros x Hx; apply Rabs_le; split; apply Rminus_le; interval with (i_bisect x, i_taylor x, i_prec 53). Qed.
Lemma exp_p15_seg3 : seg_bound exp_fn (4/100) (1/32768) 32768 1073741824 (-491520) (-475136) 0 0.
Proof. unfold seg_bound, exp_fn. intros x Hx; apply Rabs_le; split; apply Rminus_le; interval with (i_bisect x, i_taylor x, i_prec 53). Qed.
Lemma exp_p15_seg4 : seg_bound exp_fn (4/100) (1/32768) 32768 1073741824 (-475136) (-458752) 0 0.
Proof. unfold seg_bound, exp_fn. intros x Hx; apply Rabs_le; split; apply Rminus_le; interval with (i_bisect x, i_taylor x, i_prec 53). Qed.
Lemma exp_p15_seg5 : seg_bound exp_fn (4/100) (1/32768) 32768 1073741824 (-458752) (-442368) 0 0.
Proof. unfold seg_bound, exp_fn. intros x Hx; apply Rabs_le; split; apply Rminus_le; interval with (i_bisect x, i_taylor x, i_prec 53). Qed.
Lemma exp_p15_seg6 : seg_bound exp_fn (4/100) (1/32768) 32768 1073741824 (-442368) (-425984) 0 0.
Proof. unfold seg_bound, exp_fn. intros x Hx; apply Rabs_le; split; apply Rminus_le; interval with (i_bisect x, i_taylor x, i_prec 53). Qed.
Lemma exp_p15_seg7 : seg_bound exp_fn (4/100) (1/32768) 32768 1073741824 (-425984) (-409600) 0 0.
Proof. unfold seg_bound, exp_fn. intros x Hx; apply Rabs_le; split; apply Rminus_le; interval with (i_bisect x, i_taylor x, i_prec 53). Qed.
Lemma exp_p15_seg8 : seg_bound exp_fn (4/100) (1/32768) 32768 1073741824 (-409600) (-393216) 0 0.
Proof. unfold seg_bound, exp_fn. intros x Hx; apply Rabs_le; split; apply Rminus_le; interval with (i_bisect x, i_taylor x, i_prec 53). Qed.
Lemma exp_p15_seg9 : seg_bound exp_fn (4/100) (1/32768) 32768 1073741824 (-393216) (-376832) 0 0.
Proof. unfold seg_bound, exp_fn. intros x Hx; apply Rabs_le; split; apply Rminus_le; interval with (i_bisect x, i_taylor x, i_prec 53). Qed.
Lemma exp_p15_seg10 : seg_bound exp_fn (4/100) (1/32768) 32768 1073741824 (-376832) (-360448) 0 0.
Proof. unfold seg_bound, exp_fn. intros x Hx; apply Rabs_le; split; apply Rminus_le; interval with (i_bisect x, i_taylor x, i_prec 53). Qed.
Lemma exp_p15_seg11 : seg_bound exp_fn (4/100) (1/32768) 32768 1073741824 (-360448) (-344064) 0 0.
Proof. unfold seg_bound, exp_fn. intros x Hx; apply Rabs_le; split; apply Rminus_le; interval with (i_bisect x, i_taylor x, i_prec 53). Qed.
Lemma exp_p15_seg12 : seg_bound exp_fn (4/100) (1/32768) 32768 1073741824 (-344064) (-327680) 2 688128.
Proof. unfold seg_bound, exp_fn. intros x Hx; apply Rabs_le; split; apply Rminus_le; interval with (i_bisect x, i_taylor x, i_prec 53). Qed.
Lemma exp_p15_seg13 : seg_bound exp_fn (4/100) (1/32768) 32768 1073741824 (-327680) (-311296) 2 688128.
Proof. unfold seg_bound, exp_fn. intros x Hx; apply Rabs_le; split; apply Rminus_le; interval with (i_bisect x, i_taylor x, i_prec 53). Qed.
Lemma exp_p15_seg14 : seg_bound exp_fn (4/100) (1/32768) 32768 1073741824 (-311296) (-294912) 4 1310720.
Proof. unfold seg_bound, exp_fn. intros x Hx; apply Rabs_le; split; apply Rminus_le; interval with (i_bisect x, i_taylor x, i_prec 53). Qed.
Lemma exp_p15_seg15 : seg_bound exp_fn (4/100) (1/32768) 32768 1073741824 (-294912) (-278528) 4 1310720.
Proof. unfold seg_bound, exp_fn. intros x Hx; apply Rabs_le; split; apply Rminus_le; interval with (i_bisect x, i_taylor x, i_prec 53). Qed.
Lemma exp_p15_seg16 : seg_bound exp_fn (4/100) (1/32768) 32768 1073741824 (-278528) (-262144) 8 2424832.
Proof. unfold seg_bound, exp_fn. intros x Hx; apply Rabs_le; split; apply Rminus_le; interval with (i_bisect x, i_taylor x, i_prec 53). Qed.
Lemma exp_p15_seg17 : seg_bound exp_fn (4/100) (1/32768) 32768 1073741824 (-262144) (-245760) 16 4521984.
Proof. unfold seg_bound, exp_fn. intros x Hx; apply Rabs_le; split; apply Rminus_le; interval with (i_bisect x, i_taylor x, i_prec 53). Qed.
Lemma exp_p15_seg18 : seg_bound exp_fn (4/100) (1/32768) 32768 1073741824 (-245760) (-229376) 22 5996544.
Proof. unfold seg_bound, exp_fn. intros x Hx; apply Rabs_le; split; apply Rminus_le; interval with (i_bisect x, i_taylor x, i_prec 53). Qed.
Lemma exp_p15_seg19 : seg_bound exp_fn (4/100) (1/32768) 32768 1073741824 (-229376) (-212992) 40 10125312.
Proof. unfold seg_bound, exp_fn. intros x Hx; apply Rabs_le; split; apply Rminus_le; interval with (i_bisect x, i_taylor x, i_prec 53). Qed.
Lemma exp_p15_seg20 : seg_bound exp_fn (4/100) (1/32768) 32768 1073741824 (-212992) (-196608) 64 15237120.
Proof. unfold seg_bound, exp_fn. intros x Hx; apply Rabs_le; split; apply Rminus_le; interval with (i_bisect x, i_taylor x, i_prec 53). Qed.
Lemma exp_p15_seg21 : seg_bound exp_fn (4/100) (1/32768) 32768 1073741824 (-196608) (-180224) 104 23101440.
Proof. unfold seg_bound, exp_fn. intros x Hx; apply Rabs_le; split; apply Rminus_le; interval with (i_bisect x, i_taylor x, i_prec 53). Qed.
Lemma exp_p15_seg22 : seg_bound exp_fn (4/100) (1/32768) 32768 1073741824 (-180224) (-163840) 174 35717120.
Proof. unfold seg_bound, exp_fn. intros x Hx; apply Rabs_le; split; apply Rminus_le; interval with (i_bisect x, i_taylor x, i_prec 53). Qed.
Lemma exp_p15_seg23 : seg_bound exp_fn (4/100) (1/32768) 32768 1073741824 (-163840) (-147456) 288 54394880.
Proof. unfold seg_bound, exp_fn. intros x Hx; apply Rabs_le; split; apply Rminus_le; interval with (i_bisect x, i_taylor x, i_prec 53). Qed.
Lemma exp_p15_seg24 : seg_bound exp_fn (4/100) (1/32768) 32768 1073741824 (-147456) (-131072) 472 81526784.
Proof. unfold seg_bound, exp_fn. intros x Hx; apply Rabs_le; split; apply Rminus_le; interval with (i_bisect x, i_taylor x, i_prec 53). Qed.
Lemma exp_p15_seg25 : seg_bound exp_fn (4/100) (1/32768) 32768 1073741824 (-131072) (-114688) 778 121634816.
Proof. unfold seg_bound, exp_fn. intros x Hx; apply Rabs_le; split; apply Rminus_le; interval with (i_bisect x, i_taylor x, i_prec 53). Qed.
Lemma exp_p15_seg26 : seg_bound exp_fn (4/100) (1/32768) 32768 1073741824 (-114688) (-98304) 1284 179666944.
Proof. unfold seg_bound, exp_fn. intros x Hx; apply Rabs_le; split; apply Rminus_le; interval with (i_bisect x, i_taylor x, i_prec 53). Qed.
Lemma exp_p15_seg27 : seg_bound exp_fn (4/100) (1/32768) 32768 1073741824 (-98304) (-81920) 2116 261455872.
Proof. unfold seg_bound, exp_fn. intros x Hx; apply Rabs_le; split; apply Rminus_le; interval with (i_bisect x, i_taylor x, i_prec 53). Qed.
Lemma exp_p15_seg28 : seg_bound exp_fn (4/100) (1/32768) 32768 1073741824 (-81920) (-65536) 3490 374013952.
Proof. unfold seg_bound, exp_fn. intros x Hx; apply Rabs_le; split; apply Rminus_le; interval with (i_bisect x, i_taylor x, i_prec 53). Qed.
Lemma exp_p15_seg29 : seg_bound exp_fn (4/100) (1/32768) 32768 1073741824 (-65536) (-49152) 5754 522387456.
Proof. unfold seg_bound, exp_fn. intros x Hx; apply Rabs_le; split; apply Rminus_le; interval with (i_bisect x, i_taylor x, i_prec 53). Qed.
Lemma exp_p15_seg30 : seg_bound exp_fn (4/100) (1/32768) 32768 1073741824 (-49152) (-32768) 9486 705822720.
Proof. unfold seg_bound, exp_fn. intros x Hx; apply Rabs_le; split; apply Rminus_le; interval with (i_bisect x, i_taylor x, i_prec 53). Qed.
Lemma exp_p15_seg31 : seg_bound exp_fn (4/100) (1/32768) 32768 1073741824 (-32768) (-16384) 15640 907476992.
Proof. unfold seg_bound, exp_fn. intros x Hx; apply Rabs_le; split; apply Rminus_le; interval with (i_bisect x, i_taylor x, i_prec 53). Qed.
Lemma exp_p15_seg32 : seg_bound exp_fn (4/100) (1/32768) 32768 1073741824 (-16384) 0 25788 1073741824.
Proof. unfold seg_bound, exp_fn. intros x Hx; apply Rabs_le; split; apply Rminus_le; interval with (i_bisect x, i_taylor x, i_prec 53). Qed.
Lemma exp_p15_seg33 : seg_bound exp_fn (4/100) (1/32768) 32768 1073741824 0 16384 42514 1073741824.
Proof. unfold seg_bound, exp_fn. intros x Hx; apply Rabs_le; split; apply Rminus_le; interval with (i_bisect x, i_taylor x, i_prec 53). Qed.
Lemma exp_p15_seg34 : seg_bound exp_fn (4/100) (1/32768) 32768 1073741824 16384 32768 70094 621871104.
Proof. unfold seg_bound, exp_fn. intros x Hx; apply Rabs_le; split; apply Rminus_le; interval with (i_bisect x, i_taylor x, i_prec 53). Qed.
Lemma exp_p15_seg35 : seg_bound exp_fn (4/100) (1/32768) 32768 1073741824 32768 49152 115566 (-868155392).
Proof. unfold seg_bound, exp_fn. intros x Hx; apply Rabs_le; split; apply Rminus_le; interval with (i_bisect x, i_taylor x, i_prec 53). Qed.
Lemma exp_p15_seg36 : seg_bound exp_fn (4/100) (1/32768) 32768 1073741824 49152 65536 190538 (-4553179136).
Proof. unfold seg_bound, exp_fn. intros x Hx; apply Rabs_le; split; apply Rminus_le; interval with (i_bisect x, i_taylor x, i_prec 53). Qed.
Lemma exp_p15_seg37 : seg_bound exp_fn (4/100) (1/32768) 32768 1073741824 65536 81920 314142 (-12653690880).
Proof. unfold seg_bound, exp_fn. intros x Hx; apply Rabs_le; split; apply Rminus_le; interval with (i_bisect x, i_taylor x, i_prec 53). Qed.
Lemma exp_p15_seg38 : seg_bound exp_fn (4/100) (1/32768) 32768 1073741824 81920 98304 517934 (-29348331520).
Proof. unfold seg_bound, exp_fn. intros x Hx; apply Rabs_le; split; apply Rminus_le; interval with (i_bisect x, i_taylor x, i_prec 53). Qed.
Lemma exp_p15_seg39 : seg_bound exp_fn (4/100) (1/32768) 32768 1073741824 98304 114688 853930 (-62378082304).
Proof. unfold seg_bound, exp_fn. intros x Hx; apply Rabs_le; split; apply Rminus_le; interval with (i_bisect x, i_taylor x, i_prec 53). Qed.
Lemma exp_p15_seg40 : seg_bound exp_fn (4/100) (1/32768) 32768 1073741824 114688 131072 1407890 (-125910646784).
Proof. unfold seg_bound, exp_fn. intros x Hx; apply Rabs_le; split; apply Rminus_le; interval with (i_bisect x, i_taylor x, i_prec 53). Qed.
Lemma exp_p15_seg41 : seg_bound exp_fn (4/100) (1/32768) 32768 1073741824 131072 147456 2321218 (-245622374400).
Proof. unfold seg_bound, exp_fn. intros x Hx; apply Rabs_le; split; apply Rminus_le; interval with (i_bisect x, i_taylor x, i_prec 53). Qed.
Lemma exp_p15_seg42 : seg_bound exp_fn (4/100) (1/32768) 32768 1073741824 147456 163840 3827042 (-467665158144).
Proof. unfold seg_bound, exp_fn. intros x Hx; apply Rabs_le; split; apply Rminus_le; interval with (i_bisect x, i_taylor x, i_prec 53). Qed.
Lemma exp_p15_seg43 : seg_bound exp_fn (4/100) (1/32768) 32768 1073741824 163840 180224 6309726 (-874428104704).
Proof. unfold seg_bound, exp_fn. intros x Hx; apply Rabs_le; split; apply Rminus_le; interval with (i_bisect x, i_taylor x, i_prec 53). Qed.
Lemma exp_p15_seg44 : seg_bound exp_fn (4/100) (1/32768) 32768 1073741824 180224 196608 10402980 (-1612130713600).
Proof. unfold seg_bound, exp_fn. intros x Hx; apply Rabs_le; split; apply Rminus_le; interval with (i_bisect x, i_taylor x, i_prec 53). Qed.
Lemma exp_p15_seg45 : seg_bound exp_fn (4/100) (1/32768) 32768 1073741824 196608 212992 17151614 (-2938966147072).
Proof. unfold seg_bound, exp_fn. intros x Hx; apply Rabs_le; split; apply Rminus_le; interval with (i_bisect x, i_taylor x, i_prec 53). Qed.
Lemma exp_p15_seg46 : seg_bound exp_fn (4/100) (1/32768) 32768 1073741824 212992 229376 28278228 (-5308845916160).
Proof. unfold seg_bound, exp_fn. intros x Hx; apply Rabs_le; split; apply Rminus_le; interval with (i_bisect x, i_taylor x, i_prec 53). Qed.
Lemma exp_p15_seg47 : seg_bound exp_fn (4/100) (1/32768) 32768 1073741824 229376 245760 46622912 (-9516676153344).
Proof. unfold seg_bound, exp_fn. intros x Hx; apply Rabs_le; split; apply Rminus_le; interval with (i_bisect x, i_taylor x, i_prec 53). Qed.
Lemma exp_p15_seg48 : seg_bound exp_fn (4/100) (1/32768) 32768 1073741824 245760 262144 76868200 (-16949758132224).
Proof. unfold seg_bound, exp_fn. intros x Hx; apply Rabs_le; split; apply Rminus_le; interval with (i_bisect x, i_taylor x, i_prec 53). Qed.
Lemma exp_p15_seg49 : seg_bound exp_fn (4/100) (1/32768) 32768 1073741824 262144 278528 126734240 (-30021841321984).
Proof. unfold seg_bound, exp_fn. intros x Hx; apply Rabs_le; split; apply Rminus_le; interval with (i_bisect x, i_taylor x, i_prec 53). Qed.
Lemma exp_p15_seg50 : seg_bound exp_fn (4/100) (1/32768) 32768 1073741824 278528 294912 208949408 (-52921067634688).
Proof. unfold seg_bound, exp_fn. intros x Hx; apply Rabs_le; split; apply Rminus_le; interval with (i_bisect x, i_taylor x, i_prec 53). Qed.
Lemma exp_p15_seg51 : seg_bound exp_fn (4/100) (1/32768) 32768 1073741824 294912 311296 344499328 (-92896365641728).
Proof. unfold seg_bound, exp_fn. intros x Hx; apply Rabs_le; split; apply Rminus_le; interval with (i_bisect x, i_taylor x, i_prec 53). Qed.
Lemma exp_p15_seg52 : seg_bound exp_fn (4/100) (1/32768) 32768 1073741824 311296 327680 567983360 (-162466050867200).
Proof. unfold seg_bound, exp_fn. intros x Hx; apply Rabs_le; split; apply Rminus_le; interval with (i_bisect x, i_taylor x, i_prec 53). Qed.
Lemma exp_p15_seg53 : seg_bound exp_fn (4/100) (1/32768) 32768 1073741824 327680 344064 936446464 (-283204040785920).
Proof. unfold seg_bound, exp_fn. intros x Hx; apply Rabs_le; split; apply Rminus_le; interval with (i_bisect x, i_taylor x, i_prec 53). Qed.
Lemma exp_p15_seg54 : seg_bound exp_fn (4/100) (1/32768) 32768 1073741824 344064 360448 1543938816 (-492220289384448).
Proof. unfold seg_bound, exp_fn. intros x Hx; apply Rabs_le; split; apply Rminus_le; interval with (i_bisect x, i_taylor x, i_prec 53). Qed.
Lemma exp_p15_seg55 : seg_bound exp_fn (4/100) (1/32768) 32768 1073741824 360448 376832 2545525248 (-853240115625984).
Proof. unfold seg_bound, exp_fn. intros x Hx; apply Rabs_le; split; apply Rminus_le; interval with (i_bisect x, i_taylor x, i_prec 53). Qed.
Lemma exp_p15_seg56 : seg_bound exp_fn (4/100) (1/32768) 32768 1073741824 376832 393216 4196861440 (-1475516435529728).
Proof. unfold seg_bound, exp_fn. intros x Hx; apply Rabs_le; split; apply Rminus_le; interval with (i_bisect x, i_taylor x, i_prec 53). Qed.
Lemma exp_p15_seg57 : seg_bound exp_fn (4/100) (1/32768) 32768 1073741824 393216 409600 6919453696 (-2546083272065024).
Proof. unfold seg_bound, exp_fn. intros x Hx; apply Rabs_le; split; apply Rminus_le; interval with (i_bisect x, i_taylor x, i_prec 53). Qed.
Lemma exp_p15_seg58 : seg_bound exp_fn (4/100) (1/32768) 32768 1073741824 409600 425984 11408252928 (-4384695437492224).
Proof. unfold seg_bound, exp_fn. intros x Hx; apply Rabs_le; split; apply Rminus_le; interval with (i_bisect x, i_taylor x, i_prec 53). Qed.
Lemma exp_p15_seg59 : seg_bound exp_fn (4/100) (1/32768) 32768 1073741824 425984 442368 18809026560 (-7537306592346112).
Proof. unfold seg_bound, exp_fn. intros x Hx; apply Rabs_le; split; apply Rminus_le; interval with (i_bisect x, i_taylor x, i_prec 53). Qed.
Lemma exp_p15_seg60 : seg_bound exp_fn (4/100) (1/32768) 32768 1073741824 442368 458752 31010840576 (-12934998654976000).
Proof. unfold seg_bound, exp_fn. intros x Hx; apply Rabs_le; split; apply Rminus_le; interval with (i_bisect x, i_taylor x, i_prec 53). Qed.
Lemma exp_p15_seg61 : seg_bound exp_fn (4/100) (1/32768) 32768 1073741824 458752 475136 51128238080 (-22163894994731008).
Proof. unfold seg_bound, exp_fn. intros x Hx; apply Rabs_le; split; apply Rminus_le; interval with (i_bisect x, i_taylor x, i_prec 53). Qed.
Lemma exp_p15_seg62 : seg_bound exp_fn (4/100) (1/32768) 32768 1073741824 475136 491520 84296204288 (-37923189786935296).
Proof. unfold seg_bound, exp_fn. intros x Hx; apply Rabs_le; split; apply Rminus_le; interval with (i_bisect x, i_taylor x, i_prec 53). Qed.
Lemma exp_p15_seg63 : seg_bound exp_fn (4/100) (1/32768) 32768 1073741824 491520 507904 138980966400 (-64801844060225536).
Proof. unfold seg_bound, exp_fn. intros x Hx; apply Rabs_le; split; apply Rminus_le; interval with (i_bisect x, i_taylor x, i_prec 53). Qed.
Lemma exp_p15_seg64 : seg_bound exp_fn (4/100) (1/32768) 32768 1073741824 507904 524288 229140889600 (-110594429693198336).
Proof. unfold seg_bound, exp_fn. intros x Hx; apply Rabs_le; split; apply Rminus_le; interval with (i_bisect x, i_taylor x, i_prec 53). Qed.

Lemma exp_p15_table : table_bound exp_fn (4/100) (1/32768) 15 exp_p15_lb exp_p15_left exp_p15_divisor exp_p15_alphas exp_p15_betas.
Proof.
  unfold table_bound. intros i a b Hi Ha Hb.
  change (2 ^ exp_p15_lb)%Z with 64%Z in Hi.
  assert (Hc : (i = 1 \/ i = 2 \/ i = 3 \/ i = 4 \/ i = 5 \/ i = 6 \/ i = 7 \/ i = 8 \/ i = 9 \/ i = 10 \/ i = 11 \/ i = 12 \/ i = 13 \/ i = 14 \/ i = 15 \/ i = 16 \/ i = 17 \/ i = 18 \/ i = 19 \/ i = 20 \/ i = 21 \/ i = 22 \/ i = 23 \/ i = 24 \/ i = 25 \/ i = 26 \/ i = 27 \/ i = 28 \/ i = 29 \/ i = 30 \/ i = 31 \/ i = 32 \/ i = 33 \/ i = 34 \/ i = 35 \/ i = 36 \/ i = 37 \/ i = 38 \/ i = 39 \/ i = 40 \/ i = 41 \/ i = 42 \/ i = 43 \/ i = 44 \/ i = 45 \/ i = 46 \/ i = 47 \/ i = 48 \/ i = 49 \/ i = 50 \/ i = 51 \/ i = 52 \/ i = 53 \/ i = 54 \/ i = 55 \/ i = 56 \/ i = 57 \/ i = 58 \/ i = 59 \/ i = 60 \/ i = 61 \/ i = 62 \/ i = 63 \/ i = 64)%Z) by lia.
  destruct Hc as [Hc|Hc]; [subst i; vm_compute in Ha, Hb; injection Ha as <-; injection Hb as <-; exact exp_p15_seg1|].
  destruct Hc as [Hc|Hc]; [subst i; vm_compute in Ha, Hb; injection Ha as <-; injection Hb as <-; exact exp_p15_seg2|].
  destruct Hc as [Hc|Hc]; [subst i; vm_compute in Ha, Hb; injection Ha as <-; injection Hb as <-; exact exp_p15_seg3|].
  destruct Hc as [Hc|Hc]; [subst i; vm_compute in Ha, Hb; injection Ha as <-; injection Hb as <-; exact exp_p15_seg4|].
  destruct Hc as [Hc|Hc]; [subst i; vm_compute in Ha, Hb; injection Ha as <-; injection Hb as <-; exact exp_p15_seg5|].
  destruct Hc as [Hc|Hc]; [subst i; vm_compute in Ha, Hb; injection Ha as <-; injection Hb as <-; exact exp_p15_seg6|].
  destruct Hc as [Hc|Hc]; [subst i; vm_compute in Ha, Hb; injection Ha as <-; injection Hb as <-; exact exp_p15_seg7|].
  destruct Hc as [Hc|Hc]; [subst i; vm_compute in Ha, Hb; injection Ha as <-; injection Hb as <-; exact exp_p15_seg8|].
  destruct Hc as [Hc|Hc]; [subst i; vm_compute in Ha, Hb; injection Ha as <-; injection Hb as <-; exact exp_p15_seg9|].
  destruct Hc as [Hc|Hc]; [subst i; vm_compute in Ha, Hb; injection Ha as <-; injection Hb as <-; exact exp_p15_seg10|].
  destruct Hc as [Hc|Hc]; [subst i; vm_compute in Ha, Hb; injection Ha as <-; injection Hb as <-; exact exp_p15_seg11|].
  destruct Hc as [Hc|Hc]; [subst i; vm_compute in Ha, Hb; injection Ha as <-; injection Hb as <-; exact exp_p15_seg12|].
  destruct Hc as [Hc|Hc]; [subst i; vm_compute in Ha, Hb; injection Ha as <-; injection Hb as <-; exact exp_p15_seg13|].
  destruct Hc as [Hc|Hc]; [subst i; vm_compute in Ha, Hb; injection Ha as <-; injection Hb as <-; exact exp_p15_seg14|].
  destruct Hc as [Hc|Hc]; [subst i; vm_compute in Ha, Hb; injection Ha as <-; injection Hb as <-; exact exp_p15_seg15|].
  destruct Hc as [Hc|Hc]; [subst i; vm_compute in Ha, Hb; injection Ha as <-; injection Hb as <-; exact exp_p15_seg16|].
  destruct Hc as [Hc|Hc]; [subst i; vm_compute in Ha, Hb; injection Ha as <-; injection Hb as <-; exact exp_p15_seg17|].
  destruct Hc as [Hc|Hc]; [subst i; vm_compute in Ha, Hb; injection Ha as <-; injection Hb as <-; exact exp_p15_seg18|].
  destruct Hc as [Hc|Hc]; [subst i; vm_compute in Ha, Hb; injection Ha as <-; injection Hb as <-; exact exp_p15_seg19|].
  destruct Hc as [Hc|Hc]; [subst i; vm_compute in Ha, Hb; injection Ha as <-; injection Hb as <-; exact exp_p15_seg20|].
  destruct Hc as [Hc|Hc]; [subst i; vm_compute in Ha, Hb; injection Ha as <-; injection Hb as <-; exact exp_p15_seg21|].
  destruct Hc as [Hc|Hc]; [subst i; vm_compute in Ha, Hb; injection Ha as <-; injection Hb as <-; exact exp_p15_seg22|].
  destruct Hc as [Hc|Hc]; [subst i; vm_compute in Ha, Hb; injection Ha as <-; injection Hb as <-; exact exp_p15_seg23|].
  destruct Hc as [Hc|Hc]; [subst i; vm_compute in Ha, Hb; injection Ha as <-; injection Hb as <-; exact exp_p15_seg24|].
  destruct Hc as [Hc|Hc]; [subst i; vm_compute in Ha, Hb; injection Ha as <-; injection Hb as <-; exact exp_p15_seg25|].
  destruct Hc as [Hc|Hc]; [subst i; vm_compute in Ha, Hb; injection Ha as <-; injection Hb as <-; exact exp_p15_seg26|].
  destruct Hc as [Hc|Hc]; [subst i; vm_compute in Ha, Hb; injection Ha as <-; injection Hb as <-; exact exp_p15_seg27|].
  destruct Hc as [Hc|Hc]; [subst i; vm_compute in Ha, Hb; injection Ha as <-; injection Hb as <-; exact exp_p15_seg28|].
  destruct Hc as [Hc|Hc]; [subst i; vm_compute in Ha, Hb; injection Ha as <-; injection Hb as <-; exact exp_p15_seg29|].
  destruct Hc as [Hc|Hc]; [subst i; vm_compute in Ha, Hb; injection Ha as <-; injection Hb as <-; exact exp_p15_seg30|].
  destruct Hc as [Hc|Hc]; [subst i; vm_compute in Ha, Hb; injection Ha as <-; injection Hb as <-; exact exp_p15_seg31|].
  destruct Hc as [Hc|Hc]; [subst i; vm_compute in Ha, Hb; injection Ha as <-; injection Hb as <-; exact exp_p15_seg32|].
  destruct Hc as [Hc|Hc]; [subst i; vm_compute in Ha, Hb; injection Ha as <-; injection Hb as <-; exact exp_p15_seg33|].
  destruct Hc as [Hc|Hc]; [subst i; vm_compute in Ha, Hb; injection Ha as <-; injection Hb as <-; exact exp_p15_seg34|].
  destruct Hc as [Hc|Hc]; [subst i; vm_compute in Ha, Hb; injection Ha as <-; injection Hb as <-; exact exp_p15_seg35|].
  destruct Hc as [Hc|Hc]; [subst i; vm_compute in Ha, Hb; injection Ha as <-; injection Hb as <-; exact exp_p15_seg36|].
  destruct Hc as [Hc|Hc]; [subst i; vm_compute in Ha, Hb; injection Ha as <-; injection Hb as <-; exact exp_p15_seg37|].
  destruct Hc as [Hc|Hc]; [subst i; vm_compute in Ha, Hb; injection Ha as <-; injection Hb as <-; exact exp_p15_seg38|].
  destruct Hc as [Hc|Hc]; [subst i; vm_compute in Ha, Hb; injection Ha as <-; injection Hb as <-; exact exp_p15_seg39|].
  destruct Hc as [Hc|Hc]; [subst i; vm_compute in Ha, Hb; injection Ha as <-; injection Hb as <-; exact exp_p15_seg40|].
  destruct Hc as [Hc|Hc]; [subst i; vm_compute in Ha, Hb; injection Ha as <-; injection Hb as <-; exact exp_p15_seg41|].
  destruct Hc as [Hc|Hc]; [subst i; vm_compute in Ha, Hb; injection Ha as <-; injection Hb as <-; exact exp_p15_seg42|].
  destruct Hc as [Hc|Hc]; [subst i; vm_compute in Ha, Hb; injection Ha as <-; injection Hb as <-; exact exp_p15_seg43|].
  destruct Hc as [Hc|Hc]; [subst i; vm_compute in Ha, Hb; injection Ha as <-; injection Hb as <-; exact exp_p15_seg44|].
  destruct Hc as [Hc|Hc]; [subst i; vm_compute in Ha, Hb; injection Ha as <-; injection Hb as <-; exact exp_p15_seg45|].
  destruct Hc as [Hc|Hc]; [subst i; vm_compute in Ha, Hb; injection Ha as <-; injection Hb as <-; exact exp_p15_seg46|].
  destruct Hc as [Hc|Hc]; [subst i; vm_compute in Ha, Hb; injection Ha as <-; injection Hb as <-; exact exp_p15_seg47|].
  destruct Hc as [Hc|Hc]; [subst i; vm_compute in Ha, Hb; injection Ha as <-; injection Hb as <-; exact exp_p15_seg48|].
  destruct Hc as [Hc|Hc]; [subst i; vm_compute in Ha, Hb; injection Ha as <-; injection Hb as <-; exact exp_p15_seg49|].
  destruct Hc as [Hc|Hc]; [subst i; vm_compute in Ha, Hb; injection Ha as <-; injection Hb as <-; exact exp_p15_seg50|].
  destruct Hc as [Hc|Hc]; [subst i; vm_compute in Ha, Hb; injection Ha as <-; injection Hb as <-; exact exp_p15_seg51|].
  destruct Hc as [Hc|Hc]; [subst i; vm_compute in Ha, Hb; injection Ha as <-; injection Hb as <-; exact exp_p15_seg52|].
  destruct Hc as [Hc|Hc]; [subst i; vm_compute in Ha, Hb; injection Ha as <-; injection Hb as <-; exact exp_p15_seg53|].
  destruct Hc as [Hc|Hc]; [subst i; vm_compute in Ha, Hb; injection Ha as <-; injection Hb as <-; exact exp_p15_seg54|].
  destruct Hc as [Hc|Hc]; [subst i; vm_compute in Ha, Hb; injection Ha as <-; injection Hb as <-; exact exp_p15_seg55|].
  destruct Hc as [Hc|Hc]; [subst i; vm_compute in Ha, Hb; injection Ha as <-; injection Hb as <-; exact exp_p15_seg56|].
  destruct Hc as [Hc|Hc]; [subst i; vm_compute in Ha, Hb; injection Ha as <-; injection Hb as <-; exact exp_p15_seg57|].
  destruct Hc as [Hc|Hc]; [subst i; vm_compute in Ha, Hb; injection Ha as <-; injection Hb as <-; exact exp_p15_seg58|].
  destruct Hc as [Hc|Hc]; [subst i; vm_compute in Ha, Hb; injection Ha as <-; injection Hb as <-; exact exp_p15_seg59|].
  destruct Hc as [Hc|Hc]; [subst i; vm_compute in Ha, Hb; injection Ha as <-; injection Hb as <-; exact exp_p15_seg60|].
  destruct Hc as [Hc|Hc]; [subst i; vm_compute in Ha, Hb; injection Ha as <-; injection Hb as <-; exact exp_p15_seg61|].
  destruct Hc as [Hc|Hc]; [subst i; vm_compute in Ha, Hb; injection Ha as <-; injection Hb as <-; exact exp_p15_seg62|].
  destruct Hc as [Hc|Hc]; [subst i; vm_compute in Ha, Hb; injection Ha as <-; injection Hb as <-; exact exp_p15_seg63|].
  subst i; vm_compute in Ha, Hb; injection Ha as <-; injection Hb as <-; exact exp_p15_seg64.
Qed.

(* C20 (c), Goldschmidt division: exhaustive in-Coq sweeps (see FixedNewton.v). *)
From CC Require Import Base.Prelude Model.Fixed Proofs.FixedBits Proofs.FixedNewton.

(* ---------------------------------------------------------------- Goldschmidt division *)
Definition gold_sweep (sg : bool) (cap rn rd tol : Z) (ns ds : list Z) : bool :=
  forallb (fun d => forallb (fun n =>
      is_ok_and (goldschmidt_division 64 sg (rule_iters cap) cap None n d) (div_close cap rn rd tol n d)) ns) ds.

Lemma gold_sweep_sound : forall sg cap rn rd tol ns ds, gold_sweep sg cap rn rd tol ns ds = true ->
  forall n d, In n ns -> In d ds ->
  exists a, goldschmidt_division 64 sg (rule_iters cap) cap None n d = Ok a /\
            rd * Z.abs (a * d - 2 ^ cap * n) <= rn * 2 ^ cap * n + rd * tol * d.
Proof.
  intros sg cap rn rd tol ns ds H n d Hn Hd. unfold gold_sweep in H.
  rewrite forallb_forall in H. specialize (H d Hd). rewrite forallb_forall in H. specialize (H n Hn).
  destruct (is_ok_and_true _ _ H) as [a [Ha Hc]]. exists a. split; [exact Ha|].
  unfold div_close in Hc. lia.
Qed.

Definition caps_5_8 : list Z := [5; 6; 7; 8].
Definition doc_range (cap : Z) : list Z := zrange 1 (Z.to_nat (2 ^ (cap - 1) - 1)).
(* documented domain: dividend and divisor in (0, 2^(cap-1)); relative 1% plus 3 units *)
Lemma gold_sweep_5_8 :
  forallb (fun cap => gold_sweep true cap 1 100 3 (doc_range cap) (doc_range cap)
                      && gold_sweep false cap 1 100 3 (doc_range cap) (doc_range cap)) caps_5_8 = true.
Proof. vm_cast_no_check (eq_refl true). Qed.

Lemma gold_5_8 : forall sg cap n d, 5 <= cap <= 8 -> 0 < n < 2 ^ (cap - 1) -> 0 < d < 2 ^ (cap - 1) ->
  exists a, goldschmidt_division 64 sg (rule_iters cap) cap None n d = Ok a /\
            100 * Z.abs (a * d - 2 ^ cap * n) <= 1 * 2 ^ cap * n + 100 * 3 * d.
Proof.
  intros sg cap n d Hc Hn Hd. pose proof gold_sweep_5_8 as H. rewrite forallb_forall in H.
  assert (Hin : In cap caps_5_8).
  { unfold caps_5_8. assert (cap = 5 \/ cap = 6 \/ cap = 7 \/ cap = 8) as Hor by lia. cbn [In]. intuition. }
  specialize (H cap Hin). apply andb_true_iff in H. destruct H as [Ht Hf].
  assert (Hp : 0 < 2 ^ (cap - 1)) by (apply Z.pow_pos_nonneg; lia).
  destruct sg; eapply gold_sweep_sound; try eassumption; apply zrange_In; lia.
Qed.

(* the tests' cap = 10, 5 iterations: every divisor of (0, 2^10), dividends as in the tests
   (far above 2^cap) and small ones; not the whole product domain *)
Definition gold_dividends : list Z := [1; 2; 3; 5; 17; 100; 1000; 123456; 1234567; 99999999].
Lemma gold_sweep_10 :
  gold_sweep true 10 1 100 3 gold_dividends (zrange 1 1023) = true.
Proof. vm_cast_no_check (eq_refl true). Qed.
Lemma gold_10_partial : forall n d, In n gold_dividends -> 0 < d < 2 ^ 10 ->
  exists a, goldschmidt_division 64 true 5 10 None n d = Ok a /\
            100 * Z.abs (a * d - 2 ^ 10 * n) <= 1 * 2 ^ 10 * n + 100 * 3 * d.
Proof.
  intros n d Hn Hd.
  apply (gold_sweep_sound true 10 1 100 3 gold_dividends (zrange 1 1023) gold_sweep_10 n d Hn).
  apply zrange_In. change (2 ^ 10) with 1024 in Hd. lia.
Qed.

(* more iterations do not help: with the doc example's parameters (iterations 10, cap 4) the
   quotient drifts, because b sticks at 2^cap - 1 and a keeps being multiplied by 1 + 2^-cap *)
Lemma gold_doc_example_drift :
  goldschmidt_division 64 false 10 4 None 1000000 14 = Ok 1827188 /\ 2 ^ 4 * 1000000 / 14 = 1142857.
Proof. vm_compute. split; reflexivity. Qed.

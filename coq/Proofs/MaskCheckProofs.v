(* C03: soundness of the static mask analysis (Model/MaskCheck.v). *)
From Coq Require Import Ring.
From CC Require Import Base.Prelude Base.Scalar Base.Ty Base.Shape Graph.Value Graph.IR
  Model.RingEval Model.Knows Model.Privacy Proofs.PrivacyProofs Model.MaskCheck.

(* ------------------------------------------------------------------ list access *)
Lemma nth_res_nth {A} (l : list A) n d :
  match nth_res l n with Ok v => v | _ => d end = nth n l d.
Proof. revert n; induction l as [|y l IH]; intros [|n]; cbn; auto. Qed.

Lemma zget_nth {A} (l : list A) i d : zget l i d = if i <? 0 then d else nth (Z.to_nat i) l d.
Proof. unfold zget, znth. destruct (i <? 0); auto. apply nth_res_nth. Qed.

Lemma zget_out {A} (l : list A) i d : ~ (0 <= i < Z.of_nat (length l)) -> zget l i d = d.
Proof.
  intros H. rewrite zget_nth. destruct (i <? 0) eqn:E; auto. apply nth_overflow. lia.
Qed.

Lemma znth_zget {A} (l : list A) i x d : znth l i = Ok x -> zget l i d = x.
Proof. unfold zget. now intros ->. Qed.

Lemma znth_nth_error {A} (l : list A) i x : znth l i = Ok x -> 0 <= i /\ nth_error l (Z.to_nat i) = Some x.
Proof.
  unfold znth. destruct (i <? 0) eqn:E; [discriminate|]. intros H. split; [lia|].
  revert H. generalize (Z.to_nat i). clear. intros n. revert n.
  induction l as [|y l IH]; intros [|n]; cbn; try discriminate; auto. now intros [= ->].
Qed.

Lemma nth_error_znth {A} (l : list A) k x : nth_error l k = Some x -> znth l (Z.of_nat k) = Ok x.
Proof.
  unfold znth. replace (Z.of_nat k <? 0) with false by lia. rewrite Nat2Z.id.
  revert k. induction l as [|y l IH]; intros [|n]; cbn; try discriminate; auto. now intros [= ->].
Qed.

Lemma znth_range {A} (l : list A) i x : znth l i = Ok x -> 0 <= i < Z.of_nat (length l).
Proof.
  intros H. apply znth_nth_error in H as [H0 H]. split; auto.
  assert (Z.to_nat i < length l)%nat by (apply nth_error_Some; congruence). lia.
Qed.

Lemma znth_in_range {A} (l : list A) i : 0 <= i < Z.of_nat (length l) -> exists x, znth l i = Ok x.
Proof.
  intros H. destruct (nth_error l (Z.to_nat i)) eqn:E.
  - exists a. apply nth_error_znth in E. now rewrite Z2Nat.id in E by lia.
  - apply nth_error_None in E. lia.
Qed.

Lemma nth_firstn' {A} (l : list A) n k d : nth k (firstn n l) d = if (k <? n)%nat then nth k l d else d.
Proof.
  revert n k; induction l as [|y l IH]; intros [|n] [|k]; cbn [firstn nth]; auto.
  - destruct (_ <? _)%nat; auto.
  - rewrite IH. change (S k <? S n)%nat with (k <? n)%nat. reflexivity.
Qed.

Lemma zget_firstn {A} (l : list A) i d dflt : 0 <= i ->
  zget (firstn (Z.to_nat i) l) d dflt = if (0 <=? d) && (d <? i) then zget l d dflt else dflt.
Proof.
  intros Hi. rewrite !zget_nth. destruct (d <? 0) eqn:E.
  - replace (0 <=? d) with false by lia. reflexivity.
  - replace (0 <=? d) with true by lia. cbn [andb]. rewrite nth_firstn'.
    destruct (d <? i) eqn:E2; [replace (Z.to_nat d <? Z.to_nat i)%nat with true by lia
                              | replace (Z.to_nat d <? Z.to_nat i)%nat with false by lia]; reflexivity.
Qed.

Lemma zmem_In x l : zmem x l = true <-> In x l.
Proof.
  unfold zmem. rewrite existsb_exists. split.
  - intros (y & Hy & E). apply Z.eqb_eq in E. now subst.
  - intros H. exists x. split; auto. apply Z.eqb_refl.
Qed.
Lemma zmem_union x a b : zmem x (zunion a b) = zmem x a || zmem x b.
Proof.
  apply eq_true_iff_eq. rewrite orb_true_iff, !zmem_In. unfold zunion. rewrite in_app_iff, filter_In.
  rewrite negb_true_iff. split; [intros [H|[H _]]; auto|].
  intros [H|H]; auto. destruct (zmem x a) eqn:E; [left; now apply zmem_In | right; auto].
Qed.

(* ------------------------------------------------------------------ the builder *)
Definition cnt_inputs (l : list node) : nat := length (filter (fun nd => is_input (n_op nd)) l).

Section BuildSpec.
  Context {A I : Type}.
  Variable dflt : A.
  Variable sem : Z -> node -> (Z -> A) -> list I -> A.
  Hypothesis sem_ext : forall i nd f g ins, (forall d, f d = g d) -> sem i nd f ins = sem i nd g ins.

  Lemma build_app : forall nodes acc ins, exists tl, build dflt sem nodes acc ins = acc ++ tl /\ length tl = length nodes.
  Proof.
    induction nodes as [|nd r IH]; intros acc ins; cbn [build].
    - exists []. now rewrite app_nil_r.
    - destruct (IH (acc ++ [sem (Z.of_nat (length acc)) nd (fun d => zget acc d dflt) ins])
                   (if is_input (n_op nd) then tl ins else ins)) as (tl0 & E & L).
      eexists (_ :: tl0). rewrite E, <- app_assoc. cbn. split; [reflexivity | lia].
  Qed.

  Lemma build_length nodes ins : length (build dflt sem nodes [] ins) = length nodes.
  Proof. destruct (build_app nodes [] ins) as (tl & E & L). rewrite E. cbn. exact L. Qed.

  Lemma skipn_tl {X} (l : list X) n : skipn n (tl l) = skipn (S n) l.
  Proof. destruct l; cbn; auto. now destruct n. Qed.

  Lemma build_spec_go : forall nodes acc ins k nd, nth_error nodes k = Some nd ->
    nth (length acc + k) (build dflt sem nodes acc ins) dflt =
    sem (Z.of_nat (length acc + k)) nd
        (fun d => zget (firstn (length acc + k) (build dflt sem nodes acc ins)) d dflt)
        (skipn (cnt_inputs (firstn k nodes)) ins).
  Proof.
    induction nodes as [|nd0 r IH]; intros acc ins k nd Hk; [destruct k; discriminate|].
    cbn [build].
    set (v := sem (Z.of_nat (length acc)) nd0 (fun d => zget acc d dflt) ins).
    set (ins' := if is_input (n_op nd0) then tl ins else ins).
    destruct k as [|k].
    - cbn in Hk. injection Hk as <-. rewrite Nat.add_0_r.
      destruct (build_app r (acc ++ [v]) ins') as (tl0 & E & _). rewrite E, <- app_assoc.
      rewrite app_nth2, Nat.sub_diag by lia. cbn [app nth firstn skipn cnt_inputs filter length].
      rewrite firstn_app, Nat.sub_diag, firstn_all. cbn [firstn]. rewrite app_nil_r. reflexivity.
    - cbn in Hk. specialize (IH (acc ++ [v]) ins' k nd Hk).
      replace (length (acc ++ [v]) + k)%nat with (length acc + S k)%nat in IH by (rewrite app_length; cbn; lia).
      rewrite IH. f_equal. cbn [firstn]. unfold cnt_inputs, ins'. cbn [filter].
      destruct (is_input (n_op nd0)); cbn [length]; auto using skipn_tl.
  Qed.

  Definition vlook (res : list A) (i d : Z) : A :=
    if (0 <=? d) && (d <? i) then zget res d dflt else dflt.

  Lemma build_spec nodes ins i nd : znth nodes i = Ok nd ->
    zget (build dflt sem nodes [] ins) i dflt =
    sem i nd (vlook (build dflt sem nodes [] ins) i) (skipn (cnt_inputs (firstn (Z.to_nat i) nodes)) ins).
  Proof.
    intros H. apply znth_nth_error in H as [H0 H].
    pose proof (build_spec_go nodes [] ins (Z.to_nat i) nd H) as S. cbn [length Nat.add] in S.
    rewrite zget_nth. replace (i <? 0) with false by lia. rewrite S, Z2Nat.id by lia.
    apply sem_ext. intros d. unfold vlook. apply zget_firstn. exact H0.
  Qed.
End BuildSpec.

(* ------------------------------------------------------------------ small facts on ops *)
Definition isprf (o : op) : bool := match o with OPRF _ _ => true | _ => false end.
Definition isconst (o : op) : bool :=
  match o with OZeros _ | OOnes _ | OConstant _ _ | ORandom _ => true | _ => false end.

Lemma mapM_zget {A} (env : list A) dflt : forall ds vs,
  mapM (fun d => znth env d) ds = Ok vs -> map (fun d => zget env d dflt) ds = vs.
Proof.
  induction ds as [|d ds IH]; intros vs; cbn [mapM map].
  - now intros [= <-].
  - unfold bind. destruct (znth env d) eqn:E; try discriminate.
    destruct (mapM _ ds) as [l0| | |] eqn:E2; try discriminate. intros [= <-].
    rewrite (IH l0 eq_refl). f_equal. now apply znth_zget.
Qed.

Lemma hd_skipn {A} (l : list A) k d : hd d (skipn k l) = nth k l d.
Proof. revert l; induction k as [|k IH]; intros [|y l]; cbn; auto. Qed.
Lemma skipn_cons_nth_error {A} (l : list A) k y r : skipn k l = y :: r -> nth_error l k = Some y.
Proof. revert l; induction k as [|k IH]; intros [|z l]; cbn; try discriminate; auto. now intros [= ->]. Qed.

Section Sound.
  Variable R : Type.
  Variables (r0 r1 : R) (radd rmul rsub : R -> R -> R) (ropp : R -> R).
  Hypothesis Rth : ring_theory r0 r1 radd rmul rsub ropp eq.
  Add Ring RrMC : Rth.
  Variable catom : value -> R.
  Variable one : R.

  Notation rval := (rval R).
  Notation RKey := (RKey R).
  Notation RLeaf := (RLeaf R).
  Notation leaf := (leaf R r0).
  Notation mnode := (mnode R r0 radd rmul rsub catom one).
  Notation msem := (msem R r0 radd rmul rsub catom one).
  Notation mval := (mval R r0 radd rmul rsub catom one).
  Notation nval := (nval R r0 radd rmul rsub catom one).
  Notation tape := (Z -> R).
  Notation upd := (Privacy.upd R Z Z.eqb).
  Notation sg := (Privacy.sgn R ropp).

  (* --- agreement with RingEval.reval wherever it succeeds *)
  Lemma mnode_reval_node t i o vs v :
    reval_node R r0 radd rmul rsub t catom one i o vs = Some v -> mnode t i o vs = v.
  Proof.
    unfold reval_node, MaskCheck.mnode, zget. intros H.
    destruct o; try discriminate;
    repeat (match type of H with context [match ?x with _ => _ end] => destruct x; try discriminate end);
    try (injection H as <-; reflexivity).
  Qed.

  Lemma msem_input t i nd look ins : is_input (n_op nd) = true -> msem t i nd look ins = hd RKey ins.
  Proof. unfold MaskCheck.msem. destruct (n_op nd); try discriminate; reflexivity. Qed.
  Lemma msem_other t i nd look ins : is_input (n_op nd) = false ->
    msem t i nd look ins = mnode t i (n_op nd) (map look (n_deps nd)).
  Proof. unfold MaskCheck.msem. destruct (n_op nd); try discriminate; reflexivity. Qed.

  Lemma mval_reval_go t : forall nodes env ins env',
    reval R r0 radd rmul rsub t catom one nodes env ins = Some env' ->
    build RKey (msem t) nodes env ins = env'.
  Proof.
    induction nodes as [|nd r IH]; intros env ins env' H; cbn [reval build] in *.
    - now injection H.
    - destruct (is_input (n_op nd)) eqn:Ein.
      + rewrite msem_input by exact Ein. destruct (n_op nd); try discriminate Ein.
        destruct ins as [|w ins']; try discriminate. cbn [hd tl]. now apply IH.
      + rewrite msem_other by exact Ein.
        destruct (n_op nd) eqn:Eo; try discriminate Ein;
        (destruct (mapM (fun d => znth env d) (n_deps nd)) as [ws| | |] eqn:Em; try discriminate;
         match type of H with context [reval_node ?a ?b ?c ?d ?e ?f ?g ?h ?i ?j ?k] =>
           destruct (reval_node a b c d e f g h i j k) as [w|] eqn:Er; try discriminate end;
         apply mnode_reval_node in Er; rewrite (mapM_zget env RKey _ _ Em), Er; now apply IH).
  Qed.

  Theorem mval_reval t nodes ins env :
    reval R r0 radd rmul rsub t catom one nodes [] ins = Some env -> mval t ins nodes = env.
  Proof. apply mval_reval_go. Qed.

  (* --- pointwise equations *)
  Lemma msem_ext t i nd f g (ins : list rval) : (forall d, f d = g d) -> msem t i nd f ins = msem t i nd g ins.
  Proof. intros H. unfold MaskCheck.msem. now rewrite (map_ext f g H). Qed.
  Lemma isem_ext c p i nd f g sts : (forall d, f d = g d) -> isem c p i nd f sts = isem c p i nd g sts.
  Proof. intros H. unfold isem. now rewrite (map_ext f g H). Qed.

  Lemma mnode_prf t i o vs : isprf o = true -> mnode t i o vs = RLeaf (t i).
  Proof. destruct o; try discriminate; reflexivity. Qed.
  Lemma mnode_tape t t' i o vs : isprf o = false -> mnode t i o vs = mnode t' i o vs.
  Proof. destruct o; try discriminate; reflexivity. Qed.
  Lemma mnode_const t t' i o vs vs' : isconst o = true -> mnode t i o vs = mnode t' i o vs'.
  Proof. destruct o; try discriminate; try reflexivity; destruct t0; reflexivity. Qed.

  Lemma isem_supp_prf c p i nd look sts : isprf (n_op nd) = true -> ni_supp (isem c p i nd look sts) = [i].
  Proof. unfold isem. cbn [ni_supp]. destruct (n_op nd); try discriminate; reflexivity. Qed.
  Lemma isem_supp_other c p i nd look sts : isprf (n_op nd) = false ->
    ni_supp (isem c p i nd look sts) = dsupp (map look (n_deps nd)).
  Proof. unfold isem. cbn [ni_supp]. destruct (n_op nd); try discriminate; reflexivity. Qed.
  Lemma isem_pre_other c p i nd look sts : is_input (n_op nd) = false -> isconst (n_op nd) = false ->
    ni_pre (isem c p i nd look sts) = forallb ni_vd (map look (n_deps nd)).
  Proof. unfold isem. cbn [ni_pre]. destruct (n_op nd); try discriminate; reflexivity. Qed.
  Lemma isem_vd c p i nd look sts :
    ni_vd (isem c p i nd look sts) = is_deliv p nd || ni_pre (isem c p i nd look sts).
  Proof. reflexivity. Qed.

  Lemma zmem_dsupp cl ds : zmem cl (dsupp ds) = existsb (fun a => zmem cl (ni_supp a)) ds.
  Proof.
    induction ds as [|a ds IH]; [reflexivity|]. unfold dsupp in *. cbn [fold_right existsb].
    now rewrite zmem_union, IH.
  Qed.

  (* ---------------------------------------------------------------- fixed graph and observer *)
  Variable c : config.
  Variable p : party.
  Variable nodes : list node.

  Notation V t x i := (nval t x nodes i) (only parsing).
  Notation I := (info_at c p nodes).
  Definition vlk (t : tape) (x : list rval) (i d : Z) : rval :=
    if (0 <=? d) && (d <? i) then nval t x nodes d else RKey.
  Definition ilook (i d : Z) : ninfo :=
    if (0 <=? d) && (d <? i) then info_at c p nodes d else ni_default.
  Definition inum (i : Z) : nat := cnt_inputs (firstn (Z.to_nat i) nodes).

  Lemma nval_spec t x i nd : znth nodes i = Ok nd ->
    nval t x nodes i = msem t i nd (vlk t x i) (skipn (inum i) x).
  Proof.
    intros H. unfold MaskCheck.nval, MaskCheck.mval.
    rewrite (build_spec RKey (msem t) (msem_ext t) nodes x i nd H). reflexivity.
  Qed.
  Lemma info_spec i nd : znth nodes i = Ok nd ->
    info_at c p nodes i = isem c p i nd (ilook i) (skipn (inum i) (cfg_inputs c)).
  Proof.
    intros H. unfold info_at, infos.
    rewrite (build_spec ni_default (isem c p) (isem_ext c p) nodes (cfg_inputs c) i nd H). reflexivity.
  Qed.
  Lemma nval_out t x i : ~ (0 <= i < Z.of_nat (length nodes)) -> nval t x nodes i = RKey.
  Proof.
    intros H. unfold MaskCheck.nval, MaskCheck.mval. apply zget_out.
    now rewrite (build_length RKey (msem t) (msem_ext t)).
  Qed.
  Lemma info_out i : ~ (0 <= i < Z.of_nat (length nodes)) -> info_at c p nodes i = ni_default.
  Proof.
    intros H. unfold info_at, infos. apply zget_out. now rewrite (build_length ni_default (isem c p) (isem_ext c p)).
  Qed.

  Lemma node_cases i : (exists nd, znth nodes i = Ok nd /\ 0 <= i) \/ ~ (0 <= i < Z.of_nat (length nodes)).
  Proof.
    destruct (Z_le_dec 0 i) as [H0|H0]; [|right; lia].
    destruct (Z_lt_dec i (Z.of_nat (length nodes))) as [H1|H1]; [|right; lia].
    left. destruct (znth_in_range nodes i) as (nd & E); [lia|]. eauto.
  Qed.

  (* strong induction on node ids *)
  Lemma node_ind (P : Z -> Prop) :
    (forall i, (forall d, 0 <= d < i -> P d) -> P i) -> forall i, P i.
  Proof.
    intros H i. destruct (Z_lt_dec i 0) as [Hn|Hn].
    - apply H. intros d Hd. lia.
    - revert i Hn. assert (forall i, 0 <= i -> P i); [|intros; apply H0; lia].
      apply (Zlt_0_ind P). intros x IH _. apply H. intros d Hd. apply IH. exact Hd.
  Qed.

  Lemma ilook_in i d : 0 <= d < i -> ilook i d = info_at c p nodes d.
  Proof. intros H. unfold ilook. replace ((0 <=? d) && (d <? i)) with true by lia. reflexivity. Qed.
  Lemma vlk_in t x i d : 0 <= d < i -> vlk t x i d = nval t x nodes d.
  Proof. intros H. unfold vlk. replace ((0 <=? d) && (d <? i)) with true by lia. reflexivity. Qed.
  Lemma ilook_cases i d : (0 <= d < i /\ ilook i d = info_at c p nodes d) \/ (~ 0 <= d < i /\ ilook i d = ni_default).
  Proof.
    unfold ilook. destruct ((0 <=? d) && (d <? i)) eqn:E; [left | right]; split; auto; lia.
  Qed.
  Lemma vlk_out t x i d : ~ 0 <= d < i -> vlk t x i d = RKey.
  Proof. intros H. unfold vlk. replace ((0 <=? d) && (d <? i)) with false by lia. reflexivity. Qed.

  (* ---------------------------------------------------------------- L1: support *)
  Lemma supp_sound : forall i t t' x,
    (forall cl, zmem cl (ni_supp (I i)) = true -> t cl = t' cl) -> V t x i = V t' x i.
  Proof.
    intros i. pattern i. apply node_ind. clear i. intros i IH t t' x H.
    destruct (node_cases i) as [(nd & E & Hi)|Ho]; [|now rewrite !nval_out].
    rewrite (nval_spec t x i nd E), (nval_spec t' x i nd E).
    rewrite (info_spec i nd E) in H.
    destruct (is_input (n_op nd)) eqn:Ein; [now rewrite !msem_input|].
    rewrite !msem_other by exact Ein.
    destruct (isprf (n_op nd)) eqn:Ep.
    - rewrite !mnode_prf by exact Ep. f_equal. apply H. rewrite isem_supp_prf by exact Ep.
      cbn. now rewrite Z.eqb_refl.
    - rewrite isem_supp_other in H by exact Ep.
      rewrite (mnode_tape t t') by exact Ep. f_equal. apply map_ext_in. intros d Hd.
      destruct (ilook_cases i d) as [[Hr El]|[Hr El]]; [|now rewrite !vlk_out].
      rewrite !vlk_in by exact Hr. apply IH; [exact Hr|]. intros cl Hcl. apply H.
      rewrite zmem_dsupp. apply existsb_exists. exists (ilook i d). split; [now apply in_map|].
      now rewrite El.
  Qed.

  Lemma tape_ext t t' x i : (forall cl, t cl = t' cl) -> V t x i = V t' x i.
  Proof. intros H. apply supp_sound. intros; apply H. Qed.

  (* ---------------------------------------------------------------- L0: kinds *)
  Lemma kind_sound : forall i,
    (ni_kind (I i) = KdKey -> forall t x, V t x i = RKey) /\
    (ni_kind (I i) = KdLeaf -> forall t x, V t x i = RLeaf (leaf (V t x i))).
  Proof.
    intros i. pattern i. apply node_ind. clear i. intros i IH.
    destruct (node_cases i) as [(nd & E & Hi)|Ho].
    2:{ rewrite info_out by exact Ho. split; discriminate. }
    rewrite (info_spec i nd E).
    assert (S : forall t x, V t x i = msem t i nd (vlk t x i) (skipn (inum i) x))
      by (intros; now apply nval_spec).
    unfold isem. cbn [ni_kind].
    destruct (is_input (n_op nd)) eqn:Ein.
    { destruct (n_op nd); try discriminate Ein. split; discriminate. }
    split; intros K t x; rewrite S, msem_other by exact Ein;
      destruct (n_op nd); try discriminate;
      try (destruct t0; try discriminate; reflexivity);
      try (destruct (n_deps nd) as [|a [|b [|? ?]]]; cbn [map] in *; try discriminate; reflexivity).
    - (* NOP, key *)
      destruct (n_deps nd) as [|a [|? ?]]; cbn [map] in *; try reflexivity.
      cbn [MaskCheck.mnode]. destruct (ilook_cases i a) as [[Hr El]|[Hr El]]; rewrite El in K; [|discriminate].
      rewrite vlk_in by exact Hr. now apply (IH a Hr).
    - (* NOP, leaf *)
      destruct (n_deps nd) as [|a [|? ?]]; cbn [map] in *; try discriminate.
      cbn [MaskCheck.mnode]. destruct (ilook_cases i a) as [[Hr El]|[Hr El]]; rewrite El in K; [|discriminate].
      rewrite vlk_in by exact Hr. now apply (IH a Hr).
  Qed.

  (* ---------------------------------------------------------------- L2: slopes *)
  Lemma upd_same t cl v : upd t cl v cl = v.
  Proof. unfold Privacy.upd. now rewrite Z.eqb_refl. Qed.
  Lemma upd_other t cl v cl' : cl' <> cl -> upd t cl v cl' = t cl'.
  Proof. unfold Privacy.upd. intros H. now replace (cl' =? cl) with false by lia. Qed.

  Lemma ilook_lin i a e : In e (ni_lin (ilook i a)) -> 0 <= a < i /\ ilook i a = info_at c p nodes a.
  Proof.
    destruct (ilook_cases i a) as [[Hr El]|[Hr El]]; [auto|]. rewrite El. cbn. contradiction.
  Qed.

  (* value of a dependency whose support does not contain the cell *)
  Lemma vlk_upd_indep t x i b cl v :
    (forall d, 0 <= d < i -> forall t t' x, (forall cl, zmem cl (ni_supp (I d)) = true -> t cl = t' cl) -> V t x d = V t' x d) ->
    zmem cl (ni_supp (ilook i b)) = false -> vlk (upd t cl v) x i b = vlk t x i b.
  Proof.
    intros L1 H. destruct (ilook_cases i b) as [[Hr El]|[Hr El]]; [|now rewrite !vlk_out].
    rewrite !vlk_in by exact Hr. apply L1; [exact Hr|]. intros cl' Hcl'. apply upd_other.
    intros ->. rewrite El in H. congruence.
  Qed.

  Lemma sg_negb s a : sg (negb s) a = ropp (sg s a).
  Proof. destruct s; cbn; ring. Qed.

  Lemma slope_sound : forall i cl s, In (cl, s) (ni_lin (I i)) ->
    forall t x v, V (upd t cl v) x i = RLeaf (radd (leaf (V t x i)) (sg s (rsub v (t cl)))).
  Proof.
    intros i. pattern i. apply node_ind. clear i. intros i IH cl s H t x v.
    destruct (node_cases i) as [(nd & E & Hi)|Ho].
    2:{ rewrite info_out in H by exact Ho. cbn in H. contradiction. }
    rewrite (info_spec i nd E) in H.
    rewrite (nval_spec _ x i nd E), (nval_spec t x i nd E).
    unfold isem in H. cbn [ni_lin] in H.
    destruct (is_input (n_op nd)) eqn:Ein.
    { destruct (n_op nd); try discriminate Ein. cbn in H. contradiction. }
    rewrite !msem_other by exact Ein.
    assert (L1 := fun d (_ : 0 <= d < i) => supp_sound d).
    destruct (n_op nd); try (cbn in H; contradiction).
    - (* Add *)
      destruct (n_deps nd) as [|a [|b [|? ?]]]; cbn [map] in *; try contradiction.
      cbn [MaskCheck.mnode]. apply in_app_or in H as [H|H]; apply filter_In in H as [H Hn];
        cbn [fst] in Hn; apply negb_true_iff in Hn.
      + destruct (ilook_lin i a _ H) as [Hr El]. rewrite El in H.
        rewrite (vlk_upd_indep t x i b cl v L1 Hn), !(vlk_in _ _ i a Hr).
        rewrite (IH a Hr cl s H t x v). f_equal. cbn [MaskCheck.leaf]. ring.
      + destruct (ilook_lin i b _ H) as [Hr El]. rewrite El in H.
        rewrite (vlk_upd_indep t x i a cl v L1 Hn), !(vlk_in _ _ i b Hr).
        rewrite (IH b Hr cl s H t x v). f_equal. cbn [MaskCheck.leaf]. ring.
    - (* Subtract *)
      destruct (n_deps nd) as [|a [|b [|? ?]]]; cbn [map] in *; try contradiction.
      cbn [MaskCheck.mnode]. apply in_app_or in H as [H|H].
      + apply filter_In in H as [H Hn]. cbn [fst] in Hn. apply negb_true_iff in Hn.
        destruct (ilook_lin i a _ H) as [Hr El]. rewrite El in H.
        rewrite (vlk_upd_indep t x i b cl v L1 Hn), !(vlk_in _ _ i a Hr).
        rewrite (IH a Hr cl s H t x v). f_equal. cbn [MaskCheck.leaf]. ring.
      + unfold lin_flip in H. apply in_map_iff in H as ([cl' s'] & Ee & H). cbn [fst snd] in Ee.
        injection Ee as -> <-.
        apply filter_In in H as [H Hn]. cbn [fst] in Hn. apply negb_true_iff in Hn.
        destruct (ilook_lin i b _ H) as [Hr El]. rewrite El in H.
        rewrite (vlk_upd_indep t x i a cl v L1 Hn), !(vlk_in _ _ i b Hr).
        rewrite (IH b Hr cl s' H t x v). f_equal. cbn [MaskCheck.leaf]. rewrite sg_negb. ring.
    - (* NOP *)
      destruct (n_deps nd) as [|a [|? ?]]; cbn [map] in *; try contradiction.
      cbn [MaskCheck.mnode]. destruct (ilook_lin i a _ H) as [Hr El]. rewrite El in H.
      rewrite !vlk_in by exact Hr. now apply IH.
    - (* PRF *)
      cbn in H. destruct H as [H|[]]. injection H as <- <-. cbn [MaskCheck.mnode MaskCheck.leaf Privacy.sgn].
      rewrite upd_same. f_equal. ring.
  Qed.

  Lemma lin_leaf i cl s : In (cl, s) (ni_lin (I i)) -> forall t x, V t x i = RLeaf (leaf (V t x i)).
  Proof.
    intros H t x. pose proof (slope_sound i cl s H t x (t cl)) as S.
    rewrite (tape_ext (upd t cl (t cl)) t) in S.
    - destruct (nval t x nodes i); try discriminate S; reflexivity.
    - intros cl'. unfold Privacy.upd. destruct (Z.eqb_spec cl' cl); congruence.
  Qed.

  (* ---------------------------------------------------------------- L3: the recorded masks form a one-time pad *)
  Notation X := (list rval).
  Definition mkdeliv (m : mask) : delivery R Z X :=
    mkD R Z X (fst (fst m)) (snd (fst m))
        (fun x t => rsub (leaf (nval t x nodes (snd m))) (sg (snd (fst m)) (t (fst (fst m))))).
  Definition dlist (M : list mask) : list (delivery R Z X) := map mkdeliv M.

  Lemma dlist_cells M : map (d_mask R Z X) (dlist M) = mask_cells M.
  Proof. unfold dlist, mask_cells. rewrite map_map. reflexivity. Qed.

  Lemma mkdeliv_msg m x t :
    msg R radd ropp Z X (mkdeliv m) x t = leaf (nval t x nodes (snd m)).
  Proof. unfold Privacy.msg, mkdeliv. cbn [d_mask d_neg d_rest]. ring. Qed.

  Lemma lin_existsb cl s l :
    existsb (fun e : Z * bool => (fst e =? cl) && Bool.eqb (snd e) s) l = true -> In (cl, s) l.
  Proof.
    intros H. apply existsb_exists in H as ([cl' s'] & Hin & H). cbn [fst snd] in H.
    apply andb_true_iff in H as [H1 H2]. apply Z.eqb_eq in H1. apply Bool.eqb_prop in H2. now subst.
  Qed.

  Lemma masks_ok_otp M : masks_okb (infos c p nodes) M = true -> otp_ok R Z Z.eqb X (dlist M).
  Proof.
    induction M as [|[[cl s] n] r IH]; [intros; exact Logic.I|].
    cbn [masks_okb]. change (zget (infos c p nodes) n ni_default) with (info_at c p nodes n).
    change (zget (infos c p nodes) cl ni_default) with (info_at c p nodes cl).
    intros H. apply andb_true_iff in H as [H He]. apply andb_true_iff in H as [H Hd].
    apply andb_true_iff in H as [H Hc]. apply andb_true_iff in H as [Ha Hb].
    apply lin_existsb in Ha. apply negb_true_iff in Hc.
    cbn [dlist map Privacy.otp_ok]. fold (dlist r). split; [|split].
    - intros x t t' Hag. cbn [d_rest mkdeliv fst snd]. rewrite dlist_cells in Hag.
      set (t1 := upd t cl (t' cl)).
      assert (E1 : nval t1 x nodes n = nval t' x nodes n).
      { apply supp_sound. intros cl' Hcl'. unfold t1. destruct (Z.eq_dec cl' cl) as [->|Hne].
        - apply upd_same.
        - rewrite upd_other by exact Hne. apply Hag. cbn [d_mask mkdeliv fst snd map existsb].
          replace (cl' =? cl) with false by lia. cbn [orb].
          destruct (existsb (Z.eqb cl') (mask_cells r)) eqn:Ex; [|reflexivity].
          apply existsb_exists in Ex as (y & Hy & Ey). apply Z.eqb_eq in Ey. subst y.
          rewrite forallb_forall in Hd. specialize (Hd cl' Hy). apply negb_true_iff in Hd. congruence. }
      pose proof (slope_sound n cl s Ha t x (t' cl)) as E2. fold t1 in E2.
      rewrite <- E1, E2. cbn [MaskCheck.leaf]. destruct s; cbn [Privacy.sgn]; ring.
    - cbn [d_mask mkdeliv fst snd]. rewrite dlist_cells. exact Hc.
    - apply IH. exact He.
  Qed.

  Lemma masks_ok_in M : masks_okb (infos c p nodes) M = true -> forall cl s n, In (cl, s, n) M ->
    In (cl, s) (ni_lin (I n)) /\ ni_vd (I cl) = false.
  Proof.
    induction M as [|[[cl0 s0] n0] r IH]; [intros _ ? ? ? []|].
    cbn [masks_okb]. change (zget (infos c p nodes) n0 ni_default) with (info_at c p nodes n0).
    change (zget (infos c p nodes) cl0 ni_default) with (info_at c p nodes cl0).
    intros H cl s n Hin. apply andb_true_iff in H as [H He]. apply andb_true_iff in H as [H Hd].
    apply andb_true_iff in H as [H Hc]. apply andb_true_iff in H as [Ha Hb].
    destruct Hin as [Hin|Hin]; [|now apply IH].
    injection Hin as <- <- <-. split; [now apply lin_existsb | now apply negb_true_iff].
  Qed.

  (* ---------------------------------------------------------------- reveal patterns *)
  Lemma outchain_same : forall fuel i j, In j (outchain nodes fuel i) -> forall t x, V t x j = V t x i.
  Proof.
    induction fuel as [|f IH]; intros i j H t x; cbn [outchain] in H.
    - destruct H as [<-|[]]. reflexivity.
    - destruct H as [<-|H]; [reflexivity|].
      destruct (znth nodes i) as [nd| | |] eqn:E; try contradiction.
      destruct (n_op nd) eqn:Eo; try contradiction.
      destruct (n_deps nd) as [|d [|? ?]] eqn:Ed; try contradiction.
      destruct ((0 <=? d) && (d <? i)) eqn:Er; try contradiction.
      rewrite (IH d j H t x). symmetry. rewrite (nval_spec t x i nd E), msem_other by (now rewrite Eo).
      rewrite Eo, Ed. cbn [map MaskCheck.mnode]. apply vlk_in. lia.
  Qed.

  Lemma outchain_last : forall fuel i, In (last (outchain nodes fuel i) 0) (outchain nodes fuel i).
  Proof.
    intros fuel i. assert (Hne : outchain nodes fuel i <> []) by (destruct fuel; discriminate).
    destruct (exists_last Hne) as (l' & a & ->). rewrite last_last. apply in_or_app. right. now left.
  Qed.

  Lemma etree_sound : forall fuel n i b, etree (infos c p nodes) nodes fuel n i = Some b ->
    forall t x t' x', (forall j, 0 <= j < n -> ni_vd (I j) = true -> V t' x' j = V t x j) ->
    rsub (leaf (V t' x' i)) (if b then leaf (V t' x' n) else r0)
    = rsub (leaf (V t x i)) (if b then leaf (V t x n) else r0).
  Proof.
    induction fuel as [|f IH]; intros n i b H t x t' x' Hag; cbn [etree] in H; [discriminate|].
    destruct (Z.eqb_spec i n) as [->|Hne].
    { injection H as <-. ring. }
    change (zget (infos c p nodes) i ni_default) with (info_at c p nodes i) in H.
    destruct ((i <? n) && ni_vd (I i)) eqn:El.
    { injection H as <-. apply andb_true_iff in El as [El1 El2].
      destruct (Z_le_dec 0 i) as [H0|H0].
      - rewrite (Hag i) by (auto; lia). reflexivity.
      - rewrite !nval_out by lia. reflexivity. }
    destruct (znth nodes i) as [nd| | |] eqn:E; try discriminate.
    destruct (n_op nd) eqn:Eo; try discriminate.
    destruct (n_deps nd) as [|a [|b0 [|? ?]]] eqn:Ed; try discriminate.
    destruct ((0 <=? a) && (a <? i) && (0 <=? b0) && (b0 <? i)) eqn:Er; try discriminate.
    destruct (etree (infos c p nodes) nodes f n a) as [xa|] eqn:Ea; try discriminate.
    destruct (etree (infos c p nodes) nodes f n b0) as [xb|] eqn:Eb; try discriminate.
    pose proof (IH n a xa Ea t x t' x' Hag) as Ia. pose proof (IH n b0 xb Eb t x t' x' Hag) as Ib.
    assert (S : forall t x, V t x i = RLeaf (radd (leaf (V t x a)) (leaf (V t x b0)))).
    { intros t0 x0. rewrite (nval_spec t0 x0 i nd E), msem_other by (now rewrite Eo).
      rewrite Eo, Ed. cbn [map MaskCheck.mnode]. rewrite !vlk_in by lia. reflexivity. }
    rewrite !S. cbn [MaskCheck.leaf].
    destruct xa, xb; cbn [andb orb] in H; try discriminate; injection H as <-.
    - replace (rsub (radd (leaf (V t' x' a)) (leaf (V t' x' b0))) (leaf (V t' x' n)))
        with (radd (rsub (leaf (V t' x' a)) (leaf (V t' x' n))) (rsub (leaf (V t' x' b0)) r0)) by ring.
      rewrite Ia, Ib. ring.
    - replace (rsub (radd (leaf (V t' x' a)) (leaf (V t' x' b0))) (leaf (V t' x' n)))
        with (radd (rsub (leaf (V t' x' a)) r0) (rsub (leaf (V t' x' b0)) (leaf (V t' x' n)))) by ring.
      rewrite Ia, Ib. ring.
    - replace (rsub (radd (leaf (V t' x' a)) (leaf (V t' x' b0))) r0)
        with (radd (rsub (leaf (V t' x' a)) r0) (rsub (leaf (V t' x' b0)) r0)) by ring.
      rewrite Ia, Ib. ring.
  Qed.

  Lemma deliveries_in : forall l k i nd, nth_error l k = Some nd -> is_deliv p nd = true ->
    In (i + Z.of_nat k) (deliveries_go p l i).
  Proof.
    induction l as [|a l IH]; intros [|k] i nd H Hd; cbn in H; try discriminate; cbn [deliveries_go].
    - injection H as ->. rewrite Hd. left. lia.
    - apply in_or_app. right. replace (i + Z.of_nat (S k)) with (i + 1 + Z.of_nat k) by lia. eapply IH; eauto.
  Qed.

  (* ---------------------------------------------------------------- L4: the theorem *)
  Variable out : Z.

  Theorem maskcheck_sound M :
    maskcheck c p nodes out = Some M ->
    forall x x' : list rval,
    (forall j st, nth_error (cfg_inputs c) j = Some st -> (st = StParty p \/ st = StPublic) ->
                  nth j x RKey = nth j x' RKey) ->
    (zmem p (cfg_outputs c) = true -> forall t t', V t x out = V t' x' out) ->
    exists pi pi' : tape -> tape,
      (forall t cl, pi' (pi t) cl = t cl) /\
      (forall t cl, pi (pi' t) cl = t cl) /\
      (forall t cl, zmem cl (mask_cells M) = false -> pi t cl = t cl) /\
      (forall t i, mc_vd c p nodes i = true -> V (pi t) x' i = V t x i).
  Proof.
    unfold maskcheck.
    set (chain := outchain nodes (length nodes) out).
    set (dl := deliveries p nodes).
    set (M0 := fst (fold_left (find_step (infos c p nodes) nodes (zmem p (cfg_outputs c)) chain) dl ([], []))).
    destruct (wf_okb c nodes && masks_okb (infos c p nodes) M0 &&
              forallb (deliv_okb (infos c p nodes) nodes (zmem p (cfg_outputs c)) chain M0) dl) eqn:Ck; [|discriminate].
    intros [= <-]. apply andb_true_iff in Ck as [Ck Hdl]. apply andb_true_iff in Ck as [_ Hmk].
    intros x x' Hx Hout.
    destruct (otp_bijection R radd ropp r0 r1 rmul rsub Rth Z Z.eqb Z.eqb_eq X (dlist M0) x x'
                (masks_ok_otp M0 Hmk)) as (Mg & I1 & I2 & O).
    exists (Privacy.pi R radd ropp Z Z.eqb X (dlist M0) x x'), (Privacy.pi R radd ropp Z Z.eqb X (dlist M0) x' x).
    split; [exact I1|]. split; [exact I2|]. split.
    { intros t cl Hcl. apply O. rewrite dlist_cells. exact Hcl. }
    set (pi := Privacy.pi R radd ropp Z Z.eqb X (dlist M0) x x') in *.
    intros t i. revert t. pattern i. apply node_ind. clear i. intros i IH t Hvd. unfold mc_vd in Hvd.
    destruct (node_cases i) as [(nd & E & Hi)|Ho]; [|rewrite info_out in Hvd by exact Ho; discriminate].
    assert (PRE : ni_pre (I i) = true -> V (pi t) x' i = V t x i).
    { intros Hp. rewrite (info_spec i nd E) in Hp.
      rewrite (nval_spec (pi t) x' i nd E), (nval_spec t x i nd E).
      destruct (is_input (n_op nd)) eqn:Ein.
      { rewrite !msem_input, !hd_skipn by exact Ein. unfold isem in Hp. cbn [ni_pre] in Hp.
        destruct (n_op nd); try discriminate Ein.
        destruct (skipn (inum i) (cfg_inputs c)) as [|st r] eqn:Es; [discriminate|].
        apply skipn_cons_nth_error in Es. symmetry. apply (Hx _ st Es).
        destruct st as [q| |]; [left; f_equal; lia | now right | discriminate]. }
      rewrite !msem_other by exact Ein.
      destruct (isconst (n_op nd)) eqn:Ec; [now apply mnode_const|].
      rewrite isem_pre_other in Hp by assumption.
      destruct (isprf (n_op nd)) eqn:Ep.
      { rewrite !mnode_prf by exact Ep. f_equal. apply O. rewrite dlist_cells.
        destruct (existsb (Z.eqb i) (mask_cells M0)) eqn:Ez; [|reflexivity]. exfalso.
        apply zmem_In in Ez. unfold mask_cells in Ez. apply in_map_iff in Ez as ([[cl s] n] & Ee & Hin).
        cbn in Ee. subst cl. destruct (masks_ok_in M0 Hmk _ _ _ Hin) as [_ Hv]. congruence. }
      rewrite (mnode_tape (pi t) t) by exact Ep. f_equal. apply map_ext_in. intros d Hd.
      rewrite forallb_forall in Hp. specialize (Hp (ilook i d) (in_map _ _ _ Hd)).
      destruct (ilook_cases i d) as [[Hr El]|[Hr El]]; rewrite El in Hp; [|discriminate].
      rewrite !vlk_in by exact Hr. apply IH; auto. }
    pose proof Hvd as Hvd'. rewrite (info_spec i nd E), isem_vd, <- (info_spec i nd E) in Hvd'.
    apply orb_true_iff in Hvd' as [Hd|Hp]; [|now apply PRE].
    assert (Hin_dl : In i dl).
    { apply znth_nth_error in E as [_ E]. pose proof (deliveries_in nodes _ 0 nd E Hd) as D.
      rewrite Z2Nat.id in D by lia. exact D. }
    rewrite forallb_forall in Hdl. specialize (Hdl i Hin_dl). unfold deliv_okb in Hdl.
    apply orb_true_iff in Hdl as [Hf|Hm].
    - unfold deliv_free in Hf. change (zget (infos c p nodes) i ni_default) with (info_at c p nodes i) in Hf.
      apply orb_true_iff in Hf as [Hf|HE]. 1: apply orb_true_iff in Hf as [Hf|HE'].
      1: apply orb_true_iff in Hf as [Hpre|Hkey].
      + now apply PRE.
      + destruct (ni_kind (I i)) eqn:K; try discriminate.
        destruct (kind_sound i) as [KS _]. now rewrite !(KS K).
      + apply andb_true_iff in HE' as [Ho Hc]. apply zmem_In in Hc.
        rewrite !(outchain_same _ _ _ Hc). symmetry. now apply Hout.
      + apply andb_true_iff in HE as [HE Ht]. apply andb_true_iff in HE as [Ho Hk].
        destruct (ni_kind (I i)) eqn:K; try discriminate.
        destruct (kind_sound i) as [_ KS]. specialize (KS K).
        destruct (etree (infos c p nodes) nodes (length nodes) i (last chain 0)) as [[|]|] eqn:Et; try discriminate.
        pose proof (etree_sound _ _ _ _ Et t x (pi t) x') as ES.
        assert (Hag : forall j, 0 <= j < i -> ni_vd (I j) = true -> V (pi t) x' j = V t x j)
          by (intros j Hj Hv; apply IH; auto).
        specialize (ES Hag).
        rewrite !(outchain_same _ _ _ (outchain_last (length nodes) out)) in ES.
        rewrite <- (Hout Ho t (pi t)) in ES.
        rewrite (KS (pi t) x'), (KS t x). f_equal.
        set (A := leaf (V t x out)) in *. set (B' := leaf (V (pi t) x' i)) in *. set (B := leaf (V t x i)) in *.
        replace B' with (rsub A (rsub A B')) by ring. rewrite ES. ring.
    - apply existsb_exists in Hm as ([[cl s] n] & Hin & En). cbn [snd] in En. apply Z.eqb_eq in En. subst n.
      destruct (masks_ok_in M0 Hmk _ _ _ Hin) as [Hl _].
      specialize (Mg t). rewrite Forall_forall in Mg.
      specialize (Mg (mkdeliv (cl, s, i)) (in_map _ _ _ Hin)). rewrite !mkdeliv_msg in Mg. cbn [snd] in Mg.
      rewrite (lin_leaf i cl s Hl (pi t) x'), (lin_leaf i cl s Hl t x). f_equal. exact Mg.
  Qed.
End Sound.

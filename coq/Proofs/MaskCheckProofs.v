(* C03: soundness of the static mask analysis (Model/MaskCheck.v). *)
From Coq Require Import Ring.
From CC Require Import Base.Prelude Base.Scalar Base.Ty Base.Shape Graph.Value Graph.IR
  Model.RingEval Model.Knows Model.Privacy Proofs.PrivacyProofs Model.MaskCheck.

(* ------------------------------------------------------------------ list access *)
Lemma nth_res_nth {A} (l : list A) n d :
  match nth_res l n with Ok v => v | _ => d end = nth n l d.
Proof. revert n; induction l as [|y l IH]; intros [|n]; cbn; auto. Qed.

Lemma zget_nth {A} (l : list A) i d : zget l i d = if i <? 0 then d else nth (Z.to_nat i) l d.
Proof. unfold zget, znth. destruct (i <? 0); auto. apply nth_res_nth. Qed.

Lemma zget_out {A} (l : list A) i d : ~ (0 <= i < Z.of_nat (length l)) -> zget l i d = d.
Proof.
  intros H. rewrite zget_nth. destruct (i <? 0) eqn:E; auto. apply nth_overflow. lia.
Qed.

Lemma znth_zget {A} (l : list A) i x d : znth l i = Ok x -> zget l i d = x.
Proof. unfold zget. now intros ->. Qed.

Lemma znth_nth_error {A} (l : list A) i x : znth l i = Ok x -> 0 <= i /\ nth_error l (Z.to_nat i) = Some x.
Proof.
  unfold znth. destruct (i <? 0) eqn:E; [discriminate|]. intros H. split; [lia|].
  revert H. generalize (Z.to_nat i). clear. intros n. revert n.
  induction l as [|y l IH]; intros [|n]; cbn; try discriminate; auto. now intros [= ->].
Qed.

Lemma nth_error_znth {A} (l : list A) k x : nth_error l k = Some x -> znth l (Z.of_nat k) = Ok x.
Proof.
  unfold znth. replace (Z.of_nat k <? 0) with false by lia. rewrite Nat2Z.id.
  revert k. induction l as [|y l IH]; intros [|n]; cbn; try discriminate; auto. now intros [= ->].
Qed.

Lemma znth_range {A} (l : list A) i x : znth l i = Ok x -> 0 <= i < Z.of_nat (length l).
Proof.
  intros H. apply znth_nth_error in H as [H0 H]. split; auto.
  assert (Z.to_nat i < length l)%nat by (apply nth_error_Some; congruence). lia.
Qed.

Lemma znth_in_range {A} (l : list A) i : 0 <= i < Z.of_nat (length l) -> exists x, znth l i = Ok x.
Proof.
  intros H. destruct (nth_error l (Z.to_nat i)) eqn:E.
  - exists a. apply nth_error_znth in E. now rewrite Z2Nat.id in E by lia.
  - apply nth_error_None in E. lia.
Qed.

Lemma nth_firstn' {A} (l : list A) n k d : nth k (firstn n l) d = if (k <? n)%nat then nth k l d else d.
Proof.
  revert n k; induction l as [|y l IH]; intros [|n] [|k]; cbn [firstn nth]; auto.
  - destruct (_ <? _)%nat; auto.
  - rewrite IH. change (S k <? S n)%nat with (k <? n)%nat. reflexivity.
Qed.

Lemma zget_firstn {A} (l : list A) i d dflt : 0 <= i ->
  zget (firstn (Z.to_nat i) l) d dflt = if (0 <=? d) && (d <? i) then zget l d dflt else dflt.
Proof.
  intros Hi. rewrite !zget_nth. destruct (d <? 0) eqn:E.
  - replace (0 <=? d) with false by lia. reflexivity.
  - replace (0 <=? d) with true by lia. cbn [andb]. rewrite nth_firstn'.
    destruct (d <? i) eqn:E2; [replace (Z.to_nat d <? Z.to_nat i)%nat with true by lia
                              | replace (Z.to_nat d <? Z.to_nat i)%nat with false by lia]; reflexivity.
Qed.

Lemma zmem_In x l : zmem x l = true <-> In x l.
Proof.
  unfold zmem. rewrite existsb_exists. split.
  - intros (y & Hy & E). apply Z.eqb_eq in E. now subst.
  - intros H. exists x. split; auto. apply Z.eqb_refl.
Qed.
Lemma zmem_union x a b : zmem x (zunion a b) = zmem x a || zmem x b.
Proof.
  apply eq_true_iff_eq. rewrite orb_true_iff, !zmem_In. unfold zunion. rewrite in_app_iff, filter_In.
  rewrite negb_true_iff. split; [intros [H|[H _]]; auto|].
  intros [H|H]; auto. destruct (zmem x a) eqn:E; [left; now apply zmem_In | right; auto].
Qed.

(* ------------------------------------------------------------------ the builder *)
Definition cnt_inputs (l : list node) : nat := length (filter (fun nd => is_input (n_op nd)) l).

Section BuildSpec.
  Context {A I : Type}.
  Variable dflt : A.
  Variable sem : Z -> node -> (Z -> A) -> list I -> A.
  Hypothesis sem_ext : forall i nd f g ins, (forall d, f d = g d) -> sem i nd f ins = sem i nd g ins.

  Lemma build_app : forall nodes acc ins, exists tl, build dflt sem nodes acc ins = acc ++ tl /\ length tl = length nodes.
  Proof.
    induction nodes as [|nd r IH]; intros acc ins; cbn [build].
    - exists []. now rewrite app_nil_r.
    - destruct (IH (acc ++ [sem (Z.of_nat (length acc)) nd (fun d => zget acc d dflt) ins])
                   (if is_input (n_op nd) then tl ins else ins)) as (tl0 & E & L).
      eexists (_ :: tl0). rewrite E, <- app_assoc. cbn. split; [reflexivity | lia].
  Qed.

  Lemma build_length nodes ins : length (build dflt sem nodes [] ins) = length nodes.
  Proof. destruct (build_app nodes [] ins) as (tl & E & L). rewrite E. cbn. exact L. Qed.

  Lemma skipn_tl {X} (l : list X) n : skipn n (tl l) = skipn (S n) l.
  Proof. destruct l; cbn; auto. now destruct n. Qed.

  Lemma build_spec_go : forall nodes acc ins k nd, nth_error nodes k = Some nd ->
    nth (length acc + k) (build dflt sem nodes acc ins) dflt =
    sem (Z.of_nat (length acc + k)) nd
        (fun d => zget (firstn (length acc + k) (build dflt sem nodes acc ins)) d dflt)
        (skipn (cnt_inputs (firstn k nodes)) ins).
  Proof.
    induction nodes as [|nd0 r IH]; intros acc ins k nd Hk; [destruct k; discriminate|].
    cbn [build].
    set (v := sem (Z.of_nat (length acc)) nd0 (fun d => zget acc d dflt) ins).
    set (ins' := if is_input (n_op nd0) then tl ins else ins).
    destruct k as [|k].
    - cbn in Hk. injection Hk as <-. rewrite Nat.add_0_r.
      destruct (build_app r (acc ++ [v]) ins') as (tl0 & E & _). rewrite E, <- app_assoc.
      rewrite app_nth2, Nat.sub_diag by lia. cbn [app nth firstn skipn cnt_inputs filter length].
      rewrite firstn_app, Nat.sub_diag, firstn_all. cbn [firstn]. rewrite app_nil_r. reflexivity.
    - cbn in Hk. specialize (IH (acc ++ [v]) ins' k nd Hk).
      replace (length (acc ++ [v]) + k)%nat with (length acc + S k)%nat in IH by (rewrite app_length; cbn; lia).
      rewrite IH. f_equal. cbn [firstn]. unfold cnt_inputs, ins'. cbn [filter].
      destruct (is_input (n_op nd0)); cbn [length]; auto using skipn_tl.
  Qed.

  Definition vlook (res : list A) (i d : Z) : A :=
    if (0 <=? d) && (d <? i) then zget res d dflt else dflt.

  Lemma build_spec nodes ins i nd : znth nodes i = Ok nd ->
    zget (build dflt sem nodes [] ins) i dflt =
    sem i nd (vlook (build dflt sem nodes [] ins) i) (skipn (cnt_inputs (firstn (Z.to_nat i) nodes)) ins).
  Proof.
    intros H. apply znth_nth_error in H as [H0 H].
    pose proof (build_spec_go nodes [] ins (Z.to_nat i) nd H) as S. cbn [length Nat.add] in S.
    rewrite zget_nth. replace (i <? 0) with false by lia. rewrite S, Z2Nat.id by lia.
    apply sem_ext. intros d. unfold vlook. apply zget_firstn. exact H0.
  Qed.
End BuildSpec.

(* ------------------------------------------------------------------ small facts on ops *)
Definition isprf (o : op) : bool := match o with OPRF _ _ => true | _ => false end.
Definition isconst (o : op) : bool :=
  match o with OZeros _ | OOnes _ | OConstant _ _ | ORandom _ => true | _ => false end.

Lemma mapM_zget {A} (env : list A) dflt : forall ds vs,
  mapM (fun d => znth env d) ds = Ok vs -> map (fun d => zget env d dflt) ds = vs.
Proof.
  induction ds as [|d ds IH]; intros vs; cbn [mapM map].
  - now intros [= <-].
  - unfold bind. destruct (znth env d) eqn:E; try discriminate.
    destruct (mapM _ ds) as [l0| | |] eqn:E2; try discriminate. intros [= <-].
    rewrite (IH l0 eq_refl). f_equal. now apply znth_zget.
Qed.

Lemma hd_skipn {A} (l : list A) k d : hd d (skipn k l) = nth k l d.
Proof. revert l; induction k as [|k IH]; intros [|y l]; cbn; auto. Qed.
Lemma skipn_cons_nth_error {A} (l : list A) k y r : skipn k l = y :: r -> nth_error l k = Some y.
Proof. revert l; induction k as [|k IH]; intros [|z l]; cbn; try discriminate; auto. now intros [= ->]. Qed.

(* more list access *)
Lemma znth_nil_not_ok {A} (j : Z) (x : A) : znth (@nil A) j = Ok x -> False.
Proof. intros H. apply znth_range in H. cbn in H. lia. Qed.

Lemma znth_map_inv {A B} (g : A -> B) (l : list A) j y :
  znth (map g l) j = Ok y -> exists x, znth l j = Ok x /\ y = g x.
Proof.
  intros H. pose proof (znth_range _ _ _ H) as Hr. rewrite map_length in Hr.
  destruct (znth_in_range l j Hr) as (x & Ex). exists x. split; auto.
  apply znth_nth_error in H as [_ H]. apply znth_nth_error in Ex as [_ Ex].
  rewrite nth_error_map, Ex in H. cbn in H. congruence.
Qed.

Lemma znth_map {A B} (g : A -> B) (l : list A) j x : znth l j = Ok x -> znth (map g l) j = Ok (g x).
Proof.
  intros H. apply znth_nth_error in H as [H0 H].
  rewrite <- (Z2Nat.id j) by lia. apply nth_error_znth. rewrite nth_error_map, H. reflexivity.
Qed.

Lemma zget_znth_or {A} (l : list A) j d : (exists x, znth l j = Ok x /\ zget l j d = x) \/ zget l j d = d.
Proof. unfold zget. destruct (znth l j); eauto. Qed.

Lemma zget_ext {A} (l l' : list A) d : length l = length l' ->
  (forall j, 0 <= j < Z.of_nat (length l) -> zget l j d = zget l' j d) -> l = l'.
Proof.
  intros HL H. apply (nth_ext _ _ d d HL). intros n Hn.
  specialize (H (Z.of_nat n) ltac:(lia)). rewrite !zget_nth in H.
  replace (Z.of_nat n <? 0) with false in H by lia. now rewrite Nat2Z.id in H.
Qed.

Lemma map_singleton {A B} (g : A -> B) (l : list A) y : map g l = [y] -> exists x, l = [x] /\ g x = y.
Proof. destruct l as [|x [|? ?]]; try discriminate. intros [= <-]. eauto. Qed.

Lemma in_zrange j n : 0 <= j < n -> In j (zrange n).
Proof.
  intros H. unfold zrange. apply in_map_iff. exists (Z.to_nat j). split; [lia|]. apply in_seq. lia.
Qed.

Section Sound.
  Variable R : Type.
  Variables (r0 r1 : R) (radd rmul rsub : R -> R -> R) (ropp : R -> R).
  Hypothesis Rth : ring_theory r0 r1 radd rmul rsub ropp eq.
  Add Ring RrMC : Rth.
  Variable catom : value -> R.
  Variable one : R.

  Notation rval := (rval R).
  Notation RKey := (RKey R).
  Notation RLeaf := (RLeaf R).
  Notation RTup := (RTup R).
  Notation leaf := (leaf R r0).
  Notation cval := (cval R).
  Notation mnode := (mnode R r0 radd rmul rsub catom one).
  Notation msem := (msem R r0 radd rmul rsub catom one).
  Notation mval := (mval R r0 radd rmul rsub catom one).
  Notation nval := (nval R r0 radd rmul rsub catom one).
  Notation lval := (lval R r0 radd rmul rsub catom one).
  Notation tape := (Z -> R).
  Notation upd := (Privacy.upd R Z Z.eqb).
  Notation sg := (Privacy.sgn R ropp).
  Notation X := (list rval).

  (* --- agreement with RingEval.reval wherever it succeeds *)
  Lemma mnode_reval_node t i o vs v :
    reval_node R r0 radd rmul rsub t catom one i o vs = Some v -> mnode t i o vs = v.
  Proof.
    unfold reval_node, MaskCheck.mnode, zget. intros H.
    destruct o; try discriminate;
    repeat (match type of H with context [match ?x with _ => _ end] => destruct x; try discriminate end);
    try (injection H as <-; reflexivity).
  Qed.

  Lemma msem_input t i nd look ins : is_input (n_op nd) = true -> msem t i nd look ins = hd RKey ins.
  Proof. unfold MaskCheck.msem. destruct (n_op nd); try discriminate; reflexivity. Qed.
  Lemma msem_other t i nd look ins : is_input (n_op nd) = false ->
    msem t i nd look ins = mnode t i (n_op nd) (map look (n_deps nd)).
  Proof. unfold MaskCheck.msem. destruct (n_op nd); try discriminate; reflexivity. Qed.

  Lemma mval_reval_go t : forall nodes env ins env',
    reval R r0 radd rmul rsub t catom one nodes env ins = Some env' ->
    build RKey (msem t) nodes env ins = env'.
  Proof.
    induction nodes as [|nd r IH]; intros env ins env' H; cbn [reval build] in *.
    - now injection H.
    - destruct (is_input (n_op nd)) eqn:Ein.
      + rewrite msem_input by exact Ein. destruct (n_op nd); try discriminate Ein.
        destruct ins as [|w ins']; try discriminate. cbn [hd tl]. now apply IH.
      + rewrite msem_other by exact Ein.
        destruct (n_op nd) eqn:Eo; try discriminate Ein;
        (destruct (mapM (fun d => znth env d) (n_deps nd)) as [ws| | |] eqn:Em; try discriminate;
         match type of H with context [reval_node ?a ?b ?c ?d ?e ?f ?g ?h ?i ?j ?k] =>
           destruct (reval_node a b c d e f g h i j k) as [w|] eqn:Er; try discriminate end;
         apply mnode_reval_node in Er; rewrite (mapM_zget env RKey _ _ Em), Er; now apply IH).
  Qed.

  Theorem mval_reval t nodes ins env :
    reval R r0 radd rmul rsub t catom one nodes [] ins = Some env -> mval t ins nodes = env.
  Proof. apply mval_reval_go. Qed.

  (* --- pointwise equations *)
  Lemma msem_ext t i nd f g (ins : list rval) : (forall d, f d = g d) -> msem t i nd f ins = msem t i nd g ins.
  Proof. intros H. unfold MaskCheck.msem. now rewrite (map_ext f g H). Qed.
  Lemma isem_ext c p i nd f g sts : (forall d, f d = g d) -> isem c p i nd f sts = isem c p i nd g sts.
  Proof. intros H. unfold isem. now rewrite (map_ext f g H). Qed.

  Lemma mnode_prf t i o vs : isprf o = true -> mnode t i o vs = RLeaf (t i).
  Proof. destruct o; try discriminate; reflexivity. Qed.
  Lemma mnode_tape t t' i o vs : isprf o = false -> mnode t i o vs = mnode t' i o vs.
  Proof. destruct o; try discriminate; reflexivity. Qed.
  Lemma mnode_const t t' i o vs vs' : isconst o = true -> mnode t i o vs = mnode t' i o vs'.
  Proof. destruct o; try discriminate; try reflexivity; destruct t0; reflexivity. Qed.
  Lemma mnode_tget t i j v : mnode t i (OTupleGet j) [v] = cval j v.
  Proof. destruct v; reflexivity. Qed.

  Lemma zmem_dsupp cl ds : zmem cl (dsupp ds) = existsb (fun a => zmem cl (ni_supp a)) ds.
  Proof.
    induction ds as [|a ds IH]; [reflexivity|]. unfold dsupp in *. cbn [fold_right existsb].
    now rewrite zmem_union, IH.
  Qed.

  Lemma upd_same t cl v : upd t cl v cl = v.
  Proof. unfold Privacy.upd. now rewrite Z.eqb_refl. Qed.
  Lemma upd_other t cl v cl' : cl' <> cl -> upd t cl v cl' = t cl'.
  Proof. unfold Privacy.upd. intros H. now replace (cl' =? cl) with false by lia. Qed.
  Lemma sg_negb s a : sg (negb s) a = ropp (sg s a).
  Proof. destruct s; cbn; ring. Qed.

  (* ---------------------------------------------------------------- what an info claims *)
  Definition vfun := tape -> X -> rval.

  (* the static info [inf] is correct for the value function f: support, kind, slopes *)
  Definition sem_ok (inf : ninfo) (f : vfun) : Prop :=
    (forall t t' x, (forall cl, zmem cl (ni_supp inf) = true -> t cl = t' cl) -> f t x = f t' x) /\
    (ni_kind inf = KdKey -> forall t x, f t x = RKey) /\
    (ni_kind inf = KdLeaf -> forall t x, f t x = RLeaf (leaf (f t x))) /\
    (forall cl s, In (cl, s) (ni_lin inf) -> forall t x v,
       f (upd t cl v) x = RLeaf (radd (leaf (f t x)) (sg s (rsub v (t cl))))).

  (* ... and for a node: the whole value, the tuple shape, every recorded component *)
  Definition xnode_ok (xi : xinfo) (f : vfun) : Prop :=
    sem_ok (fst xi) f /\
    (ni_kind (fst xi) = KdTup -> forall t x, exists vs, f t x = RTup vs /\ length vs = length (snd xi)) /\
    (forall j cj, znth (snd xi) j = Ok cj -> sem_ok cj (fun t x => cval j (f t x))).

  Lemma sem_ok_ext a (f g : vfun) : (forall t x, f t x = g t x) -> sem_ok a f -> sem_ok a g.
  Proof.
    intros E (H1 & H2 & H3 & H4). repeat split.
    - intros t t' x H. rewrite <- !E. now apply H1.
    - intros K t x. rewrite <- E. now apply H2.
    - intros K t x. rewrite <- !E. now apply H3.
    - intros cl s Hin t x v. rewrite <- !E. now apply H4.
  Qed.

  Lemma sem_ok_sub a b (f : vfun) :
    ni_supp b = ni_supp a -> ni_lin b = ni_lin a ->
    (ni_kind b = KdKey -> ni_kind a = KdKey) -> (ni_kind b = KdLeaf -> ni_kind a = KdLeaf) ->
    sem_ok a f -> sem_ok b f.
  Proof.
    intros Es El Kk Kl (H1 & H2 & H3 & H4). unfold sem_ok. rewrite Es, El. repeat split; auto.
  Qed.

  Lemma unk_kind_key k : unk_kind k = KdKey -> k = KdKey.
  Proof. destruct k; cbn; congruence. Qed.
  Lemma unk_kind_leaf k : unk_kind k = KdLeaf -> k = KdLeaf.
  Proof. destruct k; cbn; congruence. Qed.
  Lemma unk_kind_tup k : unk_kind k <> KdTup.
  Proof. destruct k; cbn; congruence. Qed.

  Lemma sem_ok_comp dv a (f : vfun) : sem_ok a f -> sem_ok (set_deliv dv (as_comp a)) f.
  Proof.
    apply sem_ok_sub; try reflexivity; cbn [set_deliv as_comp ni_kind]; auto using unk_kind_key, unk_kind_leaf.
  Qed.

  Lemma sem_ok_default (f : vfun) : (forall t t' x, f t x = f t' x) -> sem_ok ni_default f.
  Proof.
    intros H. repeat split; cbn; try discriminate; try contradiction. intros; apply H.
  Qed.

  Lemma xnode_ok_default : xnode_ok xi_default (fun _ _ => RKey).
  Proof.
    split; [|split].
    - apply sem_ok_default. reflexivity.
    - cbn. discriminate.
    - cbn [snd xi_default]. intros j cj H. exfalso. exact (znth_nil_not_ok _ _ H).
  Qed.

  Lemma xnode_ok_ext xi (f g : vfun) : (forall t x, f t x = g t x) -> xnode_ok xi f -> xnode_ok xi g.
  Proof.
    intros E (H1 & H2 & H3). split; [|split].
    - eapply sem_ok_ext; eauto.
    - intros K t x. rewrite <- E. now apply H2.
    - intros j cj Hj. eapply sem_ok_ext; [|apply (H3 j cj Hj)]. intros t x. cbn beta. now rewrite E.
  Qed.

  (* ---------------------------------------------------------------- inversion of the info builders *)
  Lemma tget_of_inv o (xs : list xinfo) cj : tget_of o xs = Some cj ->
    exists j a cs, o = OTupleGet j /\ xs = [(a, cs)] /\ znth cs j = Ok cj.
  Proof.
    unfold tget_of, tget_comp. destruct o; try discriminate.
    destruct xs as [|[a cs] [|? ?]]; try discriminate.
    destruct (znth cs i) eqn:E; try discriminate. intros [= <-]. eauto 6.
  Qed.

  Lemma comps_of_inv o (xs : list xinfo) j c1 : znth (comps_of o xs) j = Ok c1 ->
    (o = OCreateTuple /\ exists xd, znth xs j = Ok xd /\ c1 = as_comp (fst xd)) \/
    (o = ONOP /\ exists a cs c0, xs = [(a, cs)] /\ znth cs j = Ok c0 /\ c1 = as_comp c0).
  Proof.
    unfold comps_of. destruct o; try (intros H; exfalso; exact (znth_nil_not_ok _ _ H)).
    - destruct xs as [|[a cs] [|? ?]]; try (intros H; exfalso; exact (znth_nil_not_ok _ _ H)).
      intros H. apply znth_map_inv in H as (c0 & H & ->). right. split; auto. eauto 6.
    - intros H. apply znth_map_inv in H as (a & H & ->). apply znth_map_inv in H as (xd & H & ->).
      left. split; auto. eauto.
  Qed.

  Lemma pre_of_other c p i o ds sts : is_input o = false -> isconst o = false ->
    pre_of c p i o ds sts = forallb ni_vd ds.
  Proof. destruct o; try discriminate; reflexivity. Qed.
  Lemma supp_of_prf i o ds : isprf o = true -> supp_of i o ds = [i].
  Proof. destruct o; try discriminate; reflexivity. Qed.
  Lemma supp_of_other i o ds : isprf o = false -> supp_of i o ds = dsupp ds.
  Proof. destruct o; try discriminate; reflexivity. Qed.

  Lemma isem_input_ok c p i nd (look : Z -> xinfo) sts k : is_input (n_op nd) = true ->
    xnode_ok (isem c p i nd look sts) (fun _ x => hd RKey (skipn k x)).
  Proof.
    intros Ein. unfold isem. destruct (n_op nd); try discriminate Ein. cbn [tget_of comps_of map].
    split; [|split]; cbn [fst snd].
    - repeat split; cbn [ni_kind ni_lin kind_of lin_of]; try discriminate; try contradiction.
    - cbn. discriminate.
    - intros j cj H. exfalso. exact (znth_nil_not_ok _ _ H).
  Qed.

  (* ---------------------------------------------------------------- one node: isem is correct *)
  Section OneNode.
    Variables (c : config) (p : party) (i : Z) (nd : node) (look : Z -> xinfo) (sts : list status).
    Variable fs : Z -> vfun.
    Hypothesis Hlook : forall d, xnode_ok (look d) (fs d).
    Let f : vfun := fun t x => mnode t i (n_op nd) (map (fun d => fs d t x) (n_deps nd)).
    Let xs := map look (n_deps nd).
    Let ds := map fst xs.

    Lemma dep_top d : sem_ok (fst (look d)) (fs d).
    Proof. apply Hlook. Qed.

    Lemma f_supp : forall t t' x,
      (forall cl, zmem cl (supp_of i (n_op nd) ds) = true -> t cl = t' cl) -> f t x = f t' x.
    Proof.
      intros t t' x H. unfold f. destruct (isprf (n_op nd)) eqn:Ep.
      - rewrite !mnode_prf by exact Ep. f_equal. apply H. rewrite supp_of_prf by exact Ep.
        cbn. now rewrite Z.eqb_refl.
      - rewrite supp_of_other in H by exact Ep. rewrite (mnode_tape t t') by exact Ep. f_equal.
        apply map_ext_in. intros d Hd. apply (dep_top d). intros cl Hcl. apply H.
        rewrite zmem_dsupp. apply existsb_exists. exists (fst (look d)). split; [|exact Hcl].
        unfold ds, xs. rewrite map_map. apply in_map_iff. eauto.
    Qed.

    Lemma f_key : kind_of (n_op nd) ds = KdKey -> forall t x, f t x = RKey.
    Proof.
      unfold f, ds, xs. intros K t x.
      destruct (n_op nd); try discriminate; try reflexivity;
        try (destruct t0; discriminate);
        try (destruct (n_deps nd) as [|a [|b [|? ?]]]; cbn [map] in *; try discriminate; reflexivity).
      (* NOP *)
      destruct (n_deps nd) as [|a [|? ?]]; cbn [map] in *; try reflexivity.
      cbn [MaskCheck.mnode]. cbn [kind_of] in K. now apply (dep_top a).
    Qed.

    Lemma f_leaf : kind_of (n_op nd) ds = KdLeaf -> forall t x, f t x = RLeaf (leaf (f t x)).
    Proof.
      unfold f, ds, xs. intros K t x.
      destruct (n_op nd); try discriminate; try reflexivity;
        try (destruct t0; try discriminate; reflexivity);
        try (destruct (n_deps nd) as [|a [|b [|? ?]]]; cbn [map] in *; try discriminate; reflexivity).
      (* NOP *)
      destruct (n_deps nd) as [|a [|? ?]]; cbn [map] in *; try discriminate.
      cbn [MaskCheck.mnode]. cbn [kind_of] in K. now apply (dep_top a).
    Qed.

    (* a dependency whose support does not contain the cell *)
    Lemma dep_indep b cl t x v : zmem cl (ni_supp (fst (look b))) = false -> fs b (upd t cl v) x = fs b t x.
    Proof.
      intros H. apply (dep_top b). intros cl' Hcl'. apply upd_other. intros ->. congruence.
    Qed.

    Lemma f_lin : forall cl s, In (cl, s) (lin_of i (n_op nd) ds) -> forall t x v,
      f (upd t cl v) x = RLeaf (radd (leaf (f t x)) (sg s (rsub v (t cl)))).
    Proof.
      unfold f, ds, xs. intros cl s H t x v.
      destruct (n_op nd); try (cbn in H; contradiction).
      - (* Add *)
        destruct (n_deps nd) as [|a [|b [|? ?]]]; cbn [map lin_of] in *; try contradiction.
        cbn [MaskCheck.mnode]. apply in_app_or in H as [H|H]; apply filter_In in H as [H Hn];
          cbn [fst] in Hn; apply negb_true_iff in Hn.
        + rewrite (dep_indep b cl t x v Hn).
          destruct (dep_top a) as (_ & _ & _ & L). rewrite (L cl s H t x v). f_equal. cbn [MaskCheck.leaf]. ring.
        + rewrite (dep_indep a cl t x v Hn).
          destruct (dep_top b) as (_ & _ & _ & L). rewrite (L cl s H t x v). f_equal. cbn [MaskCheck.leaf]. ring.
      - (* Subtract *)
        destruct (n_deps nd) as [|a [|b [|? ?]]]; cbn [map lin_of] in *; try contradiction.
        cbn [MaskCheck.mnode]. apply in_app_or in H as [H|H].
        + apply filter_In in H as [H Hn]. cbn [fst] in Hn. apply negb_true_iff in Hn.
          rewrite (dep_indep b cl t x v Hn).
          destruct (dep_top a) as (_ & _ & _ & L). rewrite (L cl s H t x v). f_equal. cbn [MaskCheck.leaf]. ring.
        + unfold lin_flip in H. apply in_map_iff in H as ([cl' s'] & Ee & H). cbn [fst snd] in Ee.
          injection Ee as -> <-.
          apply filter_In in H as [H Hn]. cbn [fst] in Hn. apply negb_true_iff in Hn.
          rewrite (dep_indep a cl t x v Hn).
          destruct (dep_top b) as (_ & _ & _ & L). rewrite (L cl s' H t x v). f_equal. cbn [MaskCheck.leaf].
          rewrite sg_negb. ring.
      - (* NOP *)
        destruct (n_deps nd) as [|a [|? ?]]; cbn [map lin_of] in *; try contradiction.
        cbn [MaskCheck.mnode]. destruct (dep_top a) as (_ & _ & _ & L). now apply L.
      - (* PRF *)
        cbn in H. destruct H as [H|[]]. injection H as <- <-. cbn [MaskCheck.mnode MaskCheck.leaf Privacy.sgn].
        rewrite upd_same. f_equal. ring.
    Qed.

    Lemma f_shape : kind_of (n_op nd) ds = KdTup -> forall t x,
      exists vs, f t x = RTup vs /\ length vs = length (comps_of (n_op nd) xs).
    Proof.
      unfold f, ds, xs. intros K t x.
      destruct (n_op nd); try discriminate;
        try (destruct t0; discriminate);
        try (destruct (n_deps nd) as [|a [|b [|? ?]]]; cbn [map] in *; discriminate).
      - (* NOP *)
        destruct (n_deps nd) as [|a [|? ?]]; cbn [map] in *; try discriminate.
        cbn [MaskCheck.mnode kind_of comps_of] in *.
        destruct (Hlook a) as (_ & S & _). destruct (S K t x) as (vs & E & L).
        exists vs. split; auto. destruct (look a) as [ia cs]. cbn [snd] in L. now rewrite map_length.
      - (* CreateTuple *)
        cbn [MaskCheck.mnode comps_of]. eexists. split; [reflexivity|]. now rewrite !map_length.
    Qed.

    Lemma f_comps : forall j c1, znth (comps_of (n_op nd) xs) j = Ok c1 ->
      exists c0, c1 = as_comp c0 /\ sem_ok c0 (fun t x => cval j (f t x)).
    Proof.
      intros j c1 H. apply comps_of_inv in H as [(Eo & xd & H & ->)|(Eo & a & cs & c0 & Exs & H & ->)].
      - unfold xs in H. apply znth_map_inv in H as (d & Hd & ->).
        exists (fst (look d)). split; auto. eapply sem_ok_ext; [|apply (dep_top d)].
        intros t x. unfold f. rewrite Eo. cbn [MaskCheck.mnode MaskCheck.cval].
        symmetry. apply znth_zget. now apply (znth_map (fun d => fs d t x)).
      - unfold xs in Exs. apply map_singleton in Exs as (d & Ed & El).
        exists c0. split; auto. destruct (Hlook d) as (_ & _ & Cc). rewrite El in Cc. cbn [snd] in Cc.
        eapply sem_ok_ext; [|apply (Cc j c0 H)]. intros t x. unfold f. rewrite Eo, Ed. reflexivity.
    Qed.

    Theorem isem_ok : is_input (n_op nd) = false -> xnode_ok (isem c p i nd look sts) f.
    Proof.
      intros Ein. unfold isem. fold xs. fold ds.
      destruct (tget_of (n_op nd) xs) as [cj|] eqn:Et.
      - apply tget_of_inv in Et as (j & a & cs & Eo & Exs & Hj).
        unfold xs in Exs. apply map_singleton in Exs as (d & Ed & El).
        assert (Ef : forall t x, cval j (fs d t x) = f t x).
        { intros t x. unfold f. rewrite Eo, Ed. cbn [map]. now rewrite mnode_tget. }
        destruct (Hlook d) as (_ & _ & Cc). rewrite El in Cc. cbn [snd] in Cc. specialize (Cc j cj Hj).
        split; [|split]; cbn [fst snd].
        + eapply sem_ok_ext; [exact Ef|]. revert Cc. apply sem_ok_sub; cbn [ni_supp ni_lin ni_kind]; auto using unk_kind_key, unk_kind_leaf.
        + cbn [ni_kind]. intros K. exfalso. eapply unk_kind_tup; eauto.
        + intros j' cj' H. exfalso. exact (znth_nil_not_ok _ _ H).
      - split; [|split]; cbn [fst snd].
        + unfold sem_ok. cbn [ni_supp ni_lin ni_kind]. split; [exact f_supp|]. split; [exact f_key|].
          split; [exact f_leaf | exact f_lin].
        + cbn [ni_kind]. intros K t x. destruct (f_shape K t x) as (vs & E & L). exists vs. split; auto.
          now rewrite map_length.
        + intros j cj H. apply znth_map_inv in H as (c1 & H & ->).
          destruct (f_comps j c1 H) as (c0 & -> & S). now apply sem_ok_comp.
    Qed.

    (* the view flags *)
    Lemma isem_vd_top : ni_vd (fst (isem c p i nd look sts)) = is_deliv p nd || ni_pre (fst (isem c p i nd look sts)).
    Proof. unfold isem. destruct (tget_of _ _); reflexivity. Qed.
    Lemma isem_vd_comp j cj : znth (snd (isem c p i nd look sts)) j = Ok cj ->
      ni_vd cj = is_deliv p nd || ni_pre cj.
    Proof.
      unfold isem. destruct (tget_of _ _); cbn [snd]; intros H.
      - exfalso. exact (znth_nil_not_ok _ _ H).
      - apply znth_map_inv in H as (c1 & _ & ->). reflexivity.
    Qed.
  End OneNode.

  (* ---------------------------------------------------------------- fixed graph and observer *)
  Variable c : config.
  Variable p : party.
  Variable nodes : list node.

  Notation V t x i := (nval t x nodes i) (only parsing).
  Notation Inf := (infos c p nodes).
  Notation I := (topi (infos c p nodes)).
  Notation C := (compsi (infos c p nodes)).
  Definition xi_at (i : Z) : xinfo := zget (infos c p nodes) i xi_default.
  Definition vlk (t : tape) (x : list rval) (i d : Z) : rval :=
    if (0 <=? d) && (d <? i) then nval t x nodes d else RKey.
  Definition ilook (i d : Z) : xinfo :=
    if (0 <=? d) && (d <? i) then xi_at d else xi_default.
  Definition inum (i : Z) : nat := cnt_inputs (firstn (Z.to_nat i) nodes).

  Lemma I_at i : I i = fst (xi_at i).
  Proof. reflexivity. Qed.
  Lemma C_at i : C i = snd (xi_at i).
  Proof. reflexivity. Qed.

  Lemma nval_spec t x i nd : znth nodes i = Ok nd ->
    nval t x nodes i = msem t i nd (vlk t x i) (skipn (inum i) x).
  Proof.
    intros H. unfold MaskCheck.nval, MaskCheck.mval.
    rewrite (build_spec RKey (msem t) (msem_ext t) nodes x i nd H). reflexivity.
  Qed.
  Lemma info_spec i nd : znth nodes i = Ok nd ->
    xi_at i = isem c p i nd (ilook i) (skipn (inum i) (cfg_inputs c)).
  Proof.
    intros H. unfold xi_at, infos.
    rewrite (build_spec xi_default (isem c p) (isem_ext c p) nodes (cfg_inputs c) i nd H). reflexivity.
  Qed.
  Lemma nval_out t x i : ~ (0 <= i < Z.of_nat (length nodes)) -> nval t x nodes i = RKey.
  Proof.
    intros H. unfold MaskCheck.nval, MaskCheck.mval. apply zget_out.
    now rewrite (build_length RKey (msem t) (msem_ext t)).
  Qed.
  Lemma info_out i : ~ (0 <= i < Z.of_nat (length nodes)) -> xi_at i = xi_default.
  Proof.
    intros H. unfold xi_at, infos. apply zget_out. now rewrite (build_length xi_default (isem c p) (isem_ext c p)).
  Qed.

  Lemma node_cases i : (exists nd, znth nodes i = Ok nd /\ 0 <= i) \/ ~ (0 <= i < Z.of_nat (length nodes)).
  Proof.
    destruct (Z_le_dec 0 i) as [H0|H0]; [|right; lia].
    destruct (Z_lt_dec i (Z.of_nat (length nodes))) as [H1|H1]; [|right; lia].
    left. destruct (znth_in_range nodes i) as (nd & E); [lia|]. eauto.
  Qed.

  (* strong induction on node ids *)
  Lemma node_ind (P : Z -> Prop) :
    (forall i, (forall d, 0 <= d < i -> P d) -> P i) -> forall i, P i.
  Proof.
    intros H i. destruct (Z_lt_dec i 0) as [Hn|Hn].
    - apply H. intros d Hd. lia.
    - revert i Hn. assert (forall i, 0 <= i -> P i); [|intros; apply H0; lia].
      apply (Zlt_0_ind P). intros x IH _. apply H. intros d Hd. apply IH. exact Hd.
  Qed.

  Lemma ilook_in i d : 0 <= d < i -> ilook i d = xi_at d.
  Proof. intros H. unfold ilook. replace ((0 <=? d) && (d <? i)) with true by lia. reflexivity. Qed.
  Lemma vlk_in t x i d : 0 <= d < i -> vlk t x i d = nval t x nodes d.
  Proof. intros H. unfold vlk. replace ((0 <=? d) && (d <? i)) with true by lia. reflexivity. Qed.
  Lemma ilook_cases i d : (0 <= d < i /\ ilook i d = xi_at d) \/ (~ 0 <= d < i /\ ilook i d = xi_default).
  Proof.
    unfold ilook. destruct ((0 <=? d) && (d <? i)) eqn:E; [left | right]; split; auto; lia.
  Qed.
  Lemma vlk_out t x i d : ~ 0 <= d < i -> vlk t x i d = RKey.
  Proof. intros H. unfold vlk. replace ((0 <=? d) && (d <? i)) with false by lia. reflexivity. Qed.

  (* ---------------------------------------------------------------- L1: every node's info is correct *)
  Theorem all_ok : forall i, xnode_ok (xi_at i) (fun t x => V t x i).
  Proof.
    intros i. pattern i. apply node_ind. clear i. intros i IH.
    destruct (node_cases i) as [(nd & E & Hi)|Ho].
    2:{ rewrite info_out by exact Ho. eapply xnode_ok_ext; [|apply xnode_ok_default].
        intros t x. cbn beta. now rewrite nval_out. }
    rewrite (info_spec i nd E).
    destruct (is_input (n_op nd)) eqn:Ein.
    - eapply xnode_ok_ext; [|apply (isem_input_ok c p i nd (ilook i) _ (inum i) Ein)].
      intros t x. cbn beta. now rewrite (nval_spec t x i nd E), msem_input.
    - eapply xnode_ok_ext; [|apply (isem_ok c p i nd (ilook i) _ (fun d t x => vlk t x i d)); [|exact Ein]].
      + intros t x. cbn beta. now rewrite (nval_spec t x i nd E), msem_other.
      + intros d. destruct (ilook_cases i d) as [[Hr El]|[Hr El]]; rewrite El.
        * eapply xnode_ok_ext; [|apply (IH d Hr)]. intros t x. cbn beta. now rewrite vlk_in.
        * eapply xnode_ok_ext; [|apply xnode_ok_default]. intros t x. cbn beta. now rewrite vlk_out.
  Qed.

  Lemma top_ok i : sem_ok (I i) (fun t x => V t x i).
  Proof. apply (all_ok i). Qed.
  Lemma shape_ok i : ni_kind (I i) = KdTup -> forall t x, exists vs, V t x i = RTup vs /\ length vs = length (C i).
  Proof. apply (all_ok i). Qed.
  Lemma comp_ok i j cj : znth (C i) j = Ok cj -> sem_ok cj (fun t x => cval j (V t x i)).
  Proof. apply (all_ok i). Qed.

  Lemma supp_sound i t t' x :
    (forall cl, zmem cl (ni_supp (I i)) = true -> t cl = t' cl) -> V t x i = V t' x i.
  Proof. apply (top_ok i). Qed.
  Lemma tape_ext t t' x i : (forall cl, t cl = t' cl) -> V t x i = V t' x i.
  Proof. intros H. apply supp_sound. intros; apply H. Qed.

  (* locations *)
  Lemma linfo_cases n j :
    (j < 0 /\ linfo Inf n j = I n) \/
    (0 <= j /\ exists cj, znth (C n) j = Ok cj /\ linfo Inf n j = cj) \/
    (0 <= j /\ linfo Inf n j = ni_default).
  Proof.
    unfold linfo. destruct (j <? 0) eqn:E; [left; split; [lia | reflexivity]|right].
    destruct (zget_znth_or (C n) j ni_default) as [(cj & H1 & H2)|H]; [left | right]; split; try lia; eauto.
  Qed.

  Lemma loc_ok n j : linfo Inf n j = ni_default \/ sem_ok (linfo Inf n j) (fun t x => lval t x nodes n j).
  Proof.
    destruct (linfo_cases n j) as [[Hj E]|[[Hj (cj & Hc & E)]|[Hj E]]]; [right | right | left; exact E]; rewrite E.
    - eapply sem_ok_ext; [|apply top_ok]. intros t x. unfold MaskCheck.lval.
      now replace (j <? 0) with true by lia.
    - eapply sem_ok_ext; [|apply (comp_ok n j cj Hc)]. intros t x. unfold MaskCheck.lval.
      now replace (j <? 0) with false by lia.
  Qed.

  Lemma loc_ok_lin n j e : In e (ni_lin (linfo Inf n j)) -> sem_ok (linfo Inf n j) (fun t x => lval t x nodes n j).
  Proof. destruct (loc_ok n j) as [E|H]; auto. rewrite E. cbn. contradiction. Qed.
  Lemma loc_ok_kind n j : ni_kind (linfo Inf n j) <> KdUnk -> sem_ok (linfo Inf n j) (fun t x => lval t x nodes n j).
  Proof. destruct (loc_ok n j) as [E|H]; auto. rewrite E. cbn. congruence. Qed.

  Definition valid_loc (n j : Z) : Prop := j < 0 \/ exists cj, znth (C n) j = Ok cj.
  Lemma linfo_top n j : j < 0 -> linfo Inf n j = I n.
  Proof. intros H. unfold linfo. now replace (j <? 0) with true by lia. Qed.
  Lemma linfo_comp n j cj : znth (C n) j = Ok cj -> 0 <= j /\ linfo Inf n j = cj.
  Proof.
    intros H. pose proof (znth_range _ _ _ H) as Hr. split; [lia|]. unfold linfo.
    replace (j <? 0) with false by lia. now apply znth_zget.
  Qed.
  Lemma lval_top t x n j : j < 0 -> lval t x nodes n j = V t x n.
  Proof. intros H. unfold MaskCheck.lval. now replace (j <? 0) with true by lia. Qed.
  Lemma lval_comp t x n j : 0 <= j -> lval t x nodes n j = cval j (V t x n).
  Proof. intros H. unfold MaskCheck.lval. now replace (j <? 0) with false by lia. Qed.
  Lemma loc_ok_valid n j : valid_loc n j -> sem_ok (linfo Inf n j) (fun t x => lval t x nodes n j).
  Proof.
    intros [Hj|(cj & Hc)].
    - rewrite linfo_top by exact Hj. eapply sem_ok_ext; [|apply top_ok]. intros t x. cbn beta. now rewrite lval_top.
    - destruct (linfo_comp n j cj Hc) as [Hj ->]. eapply sem_ok_ext; [|apply (comp_ok n j cj Hc)].
      intros t x. cbn beta. now rewrite lval_comp.
  Qed.

  Lemma lin_leaf n j cl s : In (cl, s) (ni_lin (linfo Inf n j)) ->
    forall t x, lval t x nodes n j = RLeaf (leaf (lval t x nodes n j)).
  Proof.
    intros H t x. destruct (loc_ok_lin n j _ H) as (S1 & _ & _ & S4).
    pose proof (S4 cl s H t x (t cl)) as S. cbn beta in S.
    rewrite (S1 (upd t cl (t cl)) t x) in S.
    - destruct (lval t x nodes n j); try discriminate S; reflexivity.
    - intros cl' _. unfold Privacy.upd. destruct (Z.eqb_spec cl' cl); congruence.
  Qed.

  (* ---------------------------------------------------------------- L3: the recorded masks form a one-time pad *)
  Definition mkdeliv (m : mask) : delivery R Z X :=
    mkD R Z X (m_cell m) (m_neg m)
        (fun x t => rsub (leaf (lval t x nodes (m_node m) (m_comp m))) (sg (m_neg m) (t (m_cell m)))).
  Definition dlist (M : list mask) : list (delivery R Z X) := map mkdeliv M.

  Lemma dlist_cells M : map (d_mask R Z X) (dlist M) = mask_cells M.
  Proof. unfold dlist, mask_cells. rewrite map_map. reflexivity. Qed.

  Lemma mkdeliv_msg m x t :
    msg R radd ropp Z X (mkdeliv m) x t = leaf (lval t x nodes (m_node m) (m_comp m)).
  Proof. unfold Privacy.msg, mkdeliv. cbn [d_mask d_neg d_rest]. ring. Qed.

  Lemma lin_existsb cl s l :
    existsb (fun e : Z * bool => (fst e =? cl) && Bool.eqb (snd e) s) l = true -> In (cl, s) l.
  Proof.
    intros H. apply existsb_exists in H as ([cl' s'] & Hin & H). cbn [fst snd] in H.
    apply andb_true_iff in H as [H1 H2]. apply Z.eqb_eq in H1. apply Bool.eqb_prop in H2. now subst.
  Qed.

  Lemma masks_ok_otp M : masks_okb Inf M = true -> otp_ok R Z Z.eqb X (dlist M).
  Proof.
    induction M as [|[[[cl s] n] j] r IH]; [intros; exact Logic.I|].
    cbn [masks_okb].
    intros H. apply andb_true_iff in H as [H He]. apply andb_true_iff in H as [H Hd].
    apply andb_true_iff in H as [H Hc]. apply andb_true_iff in H as [Ha Hb].
    apply lin_existsb in Ha. apply negb_true_iff in Hc.
    destruct (loc_ok_lin n j _ Ha) as (S1 & _ & _ & S4).
    cbn [dlist map Privacy.otp_ok]. fold (dlist r). split; [|split].
    - intros x t t' Hag. cbn [d_rest mkdeliv m_cell m_neg m_node m_comp fst snd]. rewrite dlist_cells in Hag.
      set (t1 := upd t cl (t' cl)).
      assert (E1 : lval t1 x nodes n j = lval t' x nodes n j).
      { apply (S1 t1 t' x). intros cl' Hcl'. unfold t1. destruct (Z.eq_dec cl' cl) as [->|Hne].
        - apply upd_same.
        - rewrite upd_other by exact Hne. apply Hag. cbn [d_mask mkdeliv m_cell fst snd map existsb].
          replace (cl' =? cl) with false by lia. cbn [orb].
          destruct (existsb (Z.eqb cl') (mask_cells r)) eqn:Ex; [|reflexivity].
          apply existsb_exists in Ex as (y & Hy & Ey). apply Z.eqb_eq in Ey. subst y.
          rewrite forallb_forall in Hd. specialize (Hd cl' Hy). apply negb_true_iff in Hd. congruence. }
      pose proof (S4 cl s Ha t x (t' cl)) as E2. cbn beta in E2. fold t1 in E2.
      rewrite <- E1, E2. cbn [MaskCheck.leaf]. destruct s; cbn [Privacy.sgn]; ring.
    - cbn [d_mask mkdeliv m_cell fst snd]. rewrite dlist_cells. exact Hc.
    - apply IH. exact He.
  Qed.

  Lemma masks_ok_in M : masks_okb Inf M = true -> forall cl s n j, In (cl, s, n, j) M ->
    In (cl, s) (ni_lin (linfo Inf n j)) /\ ni_vd (I cl) = false.
  Proof.
    induction M as [|[[[cl0 s0] n0] j0] r IH]; [intros _ ? ? ? ? []|].
    cbn [masks_okb].
    intros H cl s n j Hin. apply andb_true_iff in H as [H He]. apply andb_true_iff in H as [H Hd].
    apply andb_true_iff in H as [H Hc]. apply andb_true_iff in H as [Ha Hb].
    destruct Hin as [Hin|Hin]; [|now apply IH].
    injection Hin as <- <- <- <-. split; [now apply lin_existsb | now apply negb_true_iff].
  Qed.

  (* ---------------------------------------------------------------- reveal patterns *)
  Lemma outchain_same : forall fuel i j, In j (outchain nodes fuel i) -> forall t x, V t x j = V t x i.
  Proof.
    induction fuel as [|f IH]; intros i j H t x; cbn [outchain] in H.
    - destruct H as [<-|[]]. reflexivity.
    - destruct H as [<-|H]; [reflexivity|].
      destruct (znth nodes i) as [nd| | |] eqn:E; try contradiction.
      destruct (n_op nd) eqn:Eo; try contradiction.
      destruct (n_deps nd) as [|d [|? ?]] eqn:Ed; try contradiction.
      destruct ((0 <=? d) && (d <? i)) eqn:Er; try contradiction.
      rewrite (IH d j H t x). symmetry. rewrite (nval_spec t x i nd E), msem_other by (now rewrite Eo).
      rewrite Eo, Ed. cbn [map MaskCheck.mnode]. apply vlk_in. lia.
  Qed.

  Lemma outchain_last : forall fuel i, In (last (outchain nodes fuel i) 0) (outchain nodes fuel i).
  Proof.
    intros fuel i. assert (Hne : outchain nodes fuel i <> []) by (destruct fuel; discriminate).
    destruct (exists_last Hne) as (l' & a & ->). rewrite last_last. apply in_or_app. right. now left.
  Qed.

  (* the two runs agree on everything in the view below node n *)
  Definition agree_below (n : Z) (t : tape) (x : X) (t' : tape) (x' : X) : Prop :=
    (forall d, 0 <= d < n -> ni_vd (I d) = true -> V t' x' d = V t x d) /\
    (forall d j cj, 0 <= d < n -> znth (C d) j = Ok cj -> ni_vd cj = true ->
                    cval j (V t' x' d) = cval j (V t x d)).

  Lemma etree_sound : forall fuel n jn i b, etree Inf nodes fuel n jn i = Some b ->
    forall t x t' x', agree_below n t x t' x' ->
    rsub (leaf (V t' x' i)) (if b then leaf (lval t' x' nodes n jn) else r0)
    = rsub (leaf (V t x i)) (if b then leaf (lval t x nodes n jn) else r0).
  Proof.
    induction fuel as [|f IH]; intros n jn i b H t x t' x' Hag; cbn [etree] in H; [discriminate|].
    destruct ((jn <? 0) && (i =? n)) eqn:Eroot.
    { injection H as <-. apply andb_true_iff in Eroot as [Ej Ei]. apply Z.eqb_eq in Ei. subst i.
      unfold MaskCheck.lval. rewrite Ej. ring. }
    destruct ((i <? n) && ni_vd (I i)) eqn:El.
    { injection H as <-. apply andb_true_iff in El as [El1 El2].
      destruct (Z_le_dec 0 i) as [H0|H0].
      - rewrite (proj1 Hag i) by (auto; lia). reflexivity.
      - rewrite !nval_out by lia. reflexivity. }
    destruct (znth nodes i) as [nd| | |] eqn:E; try discriminate.
    destruct (n_op nd) eqn:Eo; try discriminate.
    - (* Add *)
      destruct (n_deps nd) as [|a [|b0 [|? ?]]] eqn:Ed; try discriminate.
      destruct ((0 <=? a) && (a <? i) && (0 <=? b0) && (b0 <? i)) eqn:Er; try discriminate.
      destruct (etree Inf nodes f n jn a) as [xa|] eqn:Ea; try discriminate.
      destruct (etree Inf nodes f n jn b0) as [xb|] eqn:Eb; try discriminate.
      pose proof (IH n jn a xa Ea t x t' x' Hag) as Ia. pose proof (IH n jn b0 xb Eb t x t' x' Hag) as Ib.
      assert (S : forall t x, V t x i = RLeaf (radd (leaf (V t x a)) (leaf (V t x b0)))).
      { intros t0 x0. rewrite (nval_spec t0 x0 i nd E), msem_other by (now rewrite Eo).
        rewrite Eo, Ed. cbn [map MaskCheck.mnode]. rewrite !vlk_in by lia. reflexivity. }
      rewrite !S. cbn [MaskCheck.leaf].
      set (L' := leaf (lval t' x' nodes n jn)) in *. set (L := leaf (lval t x nodes n jn)) in *.
      destruct xa, xb; cbn [andb orb] in H; try discriminate; injection H as <-.
      + replace (rsub (radd (leaf (V t' x' a)) (leaf (V t' x' b0))) L')
          with (radd (rsub (leaf (V t' x' a)) L') (rsub (leaf (V t' x' b0)) r0)) by ring.
        rewrite Ia, Ib. ring.
      + replace (rsub (radd (leaf (V t' x' a)) (leaf (V t' x' b0))) L')
          with (radd (rsub (leaf (V t' x' a)) r0) (rsub (leaf (V t' x' b0)) L')) by ring.
        rewrite Ia, Ib. ring.
      + replace (rsub (radd (leaf (V t' x' a)) (leaf (V t' x' b0))) r0)
          with (radd (rsub (leaf (V t' x' a)) r0) (rsub (leaf (V t' x' b0)) r0)) by ring.
        rewrite Ia, Ib. ring.
    - (* TupleGet *)
      rename i0 into j.
      destruct (n_deps nd) as [|d [|? ?]] eqn:Ed; try discriminate.
      destruct ((0 <=? d) && (d <? i) && (0 <=? j)) eqn:Er; try discriminate.
      assert (S : forall t x, V t x i = cval j (V t x d)).
      { intros t0 x0. rewrite (nval_spec t0 x0 i nd E), msem_other by (now rewrite Eo).
        rewrite Eo, Ed. cbn [map]. rewrite mnode_tget, vlk_in by lia. reflexivity. }
      rewrite !S.
      destruct ((d =? n) && (j =? jn)) eqn:Eh.
      { injection H as <-. apply andb_true_iff in Eh as [E1 E2]. apply Z.eqb_eq in E1, E2. subst d jn.
        unfold MaskCheck.lval. replace (j <? 0) with false by lia. ring. }
      destruct ((d <? n) && ni_vd (linfo Inf d j)) eqn:Ev; try discriminate.
      injection H as <-. apply andb_true_iff in Ev as [Ev1 Ev2].
      destruct (linfo_cases d j) as [[Hj _]|[[Hj (cj & Hc & Ec)]|[Hj Ec]]]; [lia| |rewrite Ec in Ev2; discriminate].
      rewrite Ec in Ev2. rewrite (proj2 Hag d j cj) by (auto; lia). reflexivity.
  Qed.

  Lemma deliveries_in : forall l k i nd, nth_error l k = Some nd -> is_deliv p nd = true ->
    In (i + Z.of_nat k) (deliveries_go p l i).
  Proof.
    induction l as [|a l IH]; intros [|k] i nd H Hd; cbn in H; try discriminate; cbn [deliveries_go].
    - injection H as ->. rewrite Hd. left. lia.
    - apply in_or_app. right. replace (i + Z.of_nat (S k)) with (i + 1 + Z.of_nat k) by lia. eapply IH; eauto.
  Qed.

  (* ---------------------------------------------------------------- L4: the theorem *)
  Variable out : Z.

  Theorem maskcheck_sound M :
    maskcheck c p nodes out = Some M ->
    forall x x' : list rval,
    (forall j st, nth_error (cfg_inputs c) j = Some st -> (st = StParty p \/ st = StPublic) ->
                  nth j x RKey = nth j x' RKey) ->
    (zmem p (cfg_outputs c) = true -> forall t t', V t x out = V t' x' out) ->
    exists pi pi' : tape -> tape,
      (forall t cl, pi' (pi t) cl = t cl) /\
      (forall t cl, pi (pi' t) cl = t cl) /\
      (forall t cl, zmem cl (mask_cells M) = false -> pi t cl = t cl) /\
      (forall t i, mc_vd c p nodes i = true -> V (pi t) x' i = V t x i) /\
      (forall t i j, mc_cvd c p nodes i j = true -> cval j (V (pi t) x' i) = cval j (V t x i)).
  Proof.
    unfold maskcheck.
    set (chain := outchain nodes (length nodes) out).
    set (dl := all_locs Inf p nodes).
    set (outp := zmem p (cfg_outputs c)).
    set (M0 := fst (fold_left (find_step Inf nodes outp chain) dl ([], []))).
    destruct (wf_okb c nodes && masks_okb Inf M0 && forallb (deliv_okb Inf nodes outp chain M0) dl) eqn:Ck; [|discriminate].
    intros [= <-]. apply andb_true_iff in Ck as [Ck Hdl]. apply andb_true_iff in Ck as [_ Hmk].
    intros x x' Hx Hout.
    destruct (otp_bijection R radd ropp r0 r1 rmul rsub Rth Z Z.eqb Z.eqb_eq X (dlist M0) x x'
                (masks_ok_otp M0 Hmk)) as (Mg & I1 & I2 & O).
    exists (Privacy.pi R radd ropp Z Z.eqb X (dlist M0) x x'), (Privacy.pi R radd ropp Z Z.eqb X (dlist M0) x' x).
    split; [exact I1|]. split; [exact I2|]. split.
    { intros t cl Hcl. apply O. rewrite dlist_cells. exact Hcl. }
    set (pi := Privacy.pi R radd ropp Z Z.eqb X (dlist M0) x x') in *.
    (* both parts by one induction on the node id *)
    assert (Q : forall i,
      (ni_vd (I i) = true -> forall t, V (pi t) x' i = V t x i) /\
      (forall j cj, znth (C i) j = Ok cj -> ni_vd cj = true -> forall t, cval j (V (pi t) x' i) = cval j (V t x i))).
    2:{ split.
        - intros t i Hvd. now apply (proj1 (Q i)).
        - intros t i j Hvd. unfold mc_cvd in Hvd. apply andb_true_iff in Hvd as [Hj Hvd].
          destruct (linfo_cases i j) as [[Hj' _]|[[Hj' (cj & Hc & Ec)]|[Hj' Ec]]]; [lia| |rewrite Ec in Hvd; discriminate].
          rewrite Ec in Hvd. now apply (proj2 (Q i) j cj). }
    intros i. pattern i. apply node_ind. clear i. intros i IH.
    destruct (node_cases i) as [(nd & E & Hi)|Ho].
    2:{ rewrite I_at, C_at, info_out by exact Ho. cbn [fst snd xi_default]. split; [discriminate|].
        intros j cj H. exfalso. exact (znth_nil_not_ok _ _ H). }
    pose proof (info_spec i nd E) as Einfo.
    remember (skipn (inum i) (cfg_inputs c)) as sts eqn:Ests.
    assert (Hag : forall t, agree_below i t x (pi t) x').
    { intros t. split.
      - intros d Hd Hv. now apply (proj1 (IH d Hd)).
      - intros d j cj Hd Hc Hv. now apply (proj2 (IH d Hd) j cj). }
    (* dependencies in the view *)
    assert (DEP : forall d, ni_vd (fst (ilook i d)) = true -> forall t, vlk (pi t) x' i d = vlk t x i d).
    { intros d Hv t. destruct (ilook_cases i d) as [[Hr El]|[Hr El]]; rewrite El in Hv; [|discriminate].
      rewrite !vlk_in by exact Hr. now apply (proj1 (IH d Hr)). }
    assert (DEPC : forall d j cj, znth (snd (ilook i d)) j = Ok cj -> ni_vd cj = true ->
                   forall t, cval j (vlk (pi t) x' i d) = cval j (vlk t x i d)).
    { intros d j cj Hc Hv t. destruct (ilook_cases i d) as [[Hr El]|[Hr El]]; rewrite El in Hc.
      - rewrite !vlk_in by exact Hr. now apply (proj2 (IH d Hr) j cj).
      - exfalso. exact (znth_nil_not_ok _ _ Hc). }
    pose proof (isem_vd_top c p i nd (ilook i) sts) as VD. rewrite <- Einfo, <- I_at in VD.
    (* determined without the delivery: the whole value *)
    assert (PRE : ni_pre (I i) = true -> forall t, V (pi t) x' i = V t x i).
    { intros Hp0 t. pose proof Hp0 as Hp. rewrite I_at, Einfo in Hp.
      rewrite (nval_spec (pi t) x' i nd E), (nval_spec t x i nd E).
      unfold isem in Hp.
      destruct (tget_of (n_op nd) (map (ilook i) (n_deps nd))) as [cj|] eqn:Et.
      { cbn [fst ni_pre] in Hp. apply tget_of_inv in Et as (j & a & cs & Eo & Exs & Hj).
        apply map_singleton in Exs as (d & Ed & El).
        rewrite !msem_other by (now rewrite Eo). rewrite Eo, Ed. cbn [map]. rewrite !mnode_tget.
        apply (DEPC d j cj); auto. now rewrite El. }
      cbn [fst ni_pre] in Hp.
      destruct (is_input (n_op nd)) eqn:Ein.
      { rewrite !msem_input, !hd_skipn by exact Ein.
        destruct (n_op nd); try discriminate Ein. cbn [pre_of] in Hp.
        destruct sts as [|st r]; [discriminate|]. symmetry in Ests.
        apply skipn_cons_nth_error in Ests. symmetry. apply (Hx _ st Ests).
        destruct st as [q| |]; [left; f_equal; lia | now right | discriminate]. }
      rewrite !msem_other by exact Ein.
      destruct (isconst (n_op nd)) eqn:Ec; [now apply mnode_const|].
      rewrite pre_of_other in Hp by assumption.
      destruct (isprf (n_op nd)) eqn:Ep.
      { rewrite !mnode_prf by exact Ep. f_equal. apply O. rewrite dlist_cells.
        destruct (existsb (Z.eqb i) (mask_cells M0)) eqn:Ez; [|reflexivity]. exfalso.
        apply zmem_In in Ez. unfold mask_cells in Ez. apply in_map_iff in Ez as ([[[cl s] n] j] & Ee & Hin).
        cbn in Ee. subst cl. destruct (masks_ok_in M0 Hmk _ _ _ _ Hin) as [_ Hv].
        assert (Hvd : ni_vd (I i) = true) by (rewrite VD, Hp0; apply orb_true_r).
        congruence. }
      rewrite (mnode_tape (pi t) t) by exact Ep. f_equal. apply map_ext_in. intros d Hd.
      rewrite forallb_forall in Hp. apply DEP. apply Hp. rewrite map_map. apply in_map_iff. eauto. }
    (* ... and a recorded component *)
    assert (PREC : forall j cj, znth (C i) j = Ok cj -> ni_pre cj = true ->
                   forall t, cval j (V (pi t) x' i) = cval j (V t x i)).
    { intros j cj Hc Hp t. rewrite C_at, Einfo in Hc. unfold isem in Hc.
      destruct (tget_of (n_op nd) (map (ilook i) (n_deps nd))) as [cj0|] eqn:Et; cbn [snd] in Hc.
      { exfalso. exact (znth_nil_not_ok _ _ Hc). }
      apply znth_map_inv in Hc as (c1 & Hc & ->). cbn [set_deliv ni_pre] in Hp.
      rewrite (nval_spec (pi t) x' i nd E), (nval_spec t x i nd E).
      apply comps_of_inv in Hc as [(Eo & xd & Hc & ->)|(Eo & a & cs & c0 & Exs & Hc & ->)].
      - apply znth_map_inv in Hc as (d & Hd & ->). cbn [as_comp ni_pre] in Hp.
        rewrite !msem_other by (now rewrite Eo). rewrite Eo. cbn [MaskCheck.mnode MaskCheck.cval].
        rewrite (znth_zget _ _ _ RKey (znth_map (vlk (pi t) x' i) _ _ _ Hd)).
        rewrite (znth_zget _ _ _ RKey (znth_map (vlk t x i) _ _ _ Hd)).
        now apply DEP.
      - apply map_singleton in Exs as (d & Ed & El). cbn [as_comp ni_pre] in Hp.
        rewrite !msem_other by (now rewrite Eo). rewrite Eo, Ed. cbn [map MaskCheck.mnode].
        apply (DEPC d j c0); auto. now rewrite El. }
    (* a delivered location that the checker accepted *)
    assert (LOC : forall j, In (i, j) dl ->
                  valid_loc i j ->
                  forall t, lval (pi t) x' nodes i j = lval t x nodes i j).
    { intros j Hin Hj t.
      rewrite forallb_forall in Hdl. specialize (Hdl (i, j) Hin). unfold deliv_okb in Hdl.
      pose proof (loc_ok_valid i j Hj) as Hloc.
      apply orb_true_iff in Hdl as [Hf|Hm].
      - unfold deliv_free in Hf. cbn [fst snd] in Hf.
        apply orb_true_iff in Hf as [Hf|HE]. 1: apply orb_true_iff in Hf as [Hf|HE'].
        1: apply orb_true_iff in Hf as [Hpre|Hkey].
        + (* K *)
          destruct Hj as [Hj|(cj & Hc)].
          * rewrite linfo_top in Hpre by exact Hj. rewrite !lval_top by exact Hj. now apply PRE.
          * destruct (linfo_comp i j cj Hc) as [Hj E']. rewrite E' in Hpre. rewrite !lval_comp by exact Hj.
            now apply (PREC j cj).
        + (* Key *)
          destruct (ni_kind (linfo Inf i j)) eqn:K; try discriminate.
          destruct Hloc as (_ & KS & _). now rewrite !(KS K).
        + (* E': a copy of the output *)
          apply andb_true_iff in HE' as [Ho Hc]. apply zmem_In in Hc.
          assert (EV : V (pi t) x' i = V t x i).
          { rewrite !(outchain_same _ _ _ Hc). symmetry. now apply Hout. }
          unfold MaskCheck.lval. now rewrite EV.
        + (* E: the missing summand of the output *)
          apply andb_true_iff in HE as [HE Ht]. apply andb_true_iff in HE as [Ho Hk].
          destruct (ni_kind (linfo Inf i j)) eqn:K; try discriminate.
          destruct Hloc as (_ & _ & KS & _). specialize (KS K). cbn beta in KS.
          rewrite (KS (pi t) x'), (KS t x). f_equal.
          pose proof (outchain_last (length nodes) out) as Hlast. fold chain in Hlast.
          assert (EB : V (pi t) x' (last chain 0) = V t x (last chain 0)).
          { rewrite !(outchain_same _ _ _ Hlast). symmetry. now apply Hout. }
          unfold epat in Ht. destruct (j <? 0) eqn:Ej.
          * destruct (etree Inf nodes (length nodes) i j (last chain 0)) as [[|]|] eqn:Et; try discriminate.
            pose proof (etree_sound _ _ _ _ _ Et t x (pi t) x' (Hag t)) as ES. cbn iota in ES.
            rewrite EB in ES.
            set (A := leaf (V t x (last chain 0))) in *.
            set (B' := leaf (lval (pi t) x' nodes i j)) in *. set (B := leaf (lval t x nodes i j)) in *.
            replace B' with (rsub A (rsub A B')) by ring. rewrite ES. ring.
          * destruct (znth nodes (last chain 0)) as [ndb| | |] eqn:Eb; try discriminate.
            destruct (n_op ndb) eqn:Eob; try discriminate.
            destruct (znth (n_deps ndb) j) as [cn| | |] eqn:Ecn; try discriminate.
            apply andb_true_iff in Ht as [Hr Ht].
            destruct (etree Inf nodes (length nodes) i j cn) as [[|]|] eqn:Et; try discriminate.
            pose proof (etree_sound _ _ _ _ _ Et t x (pi t) x' (Hag t)) as ES. cbn iota in ES.
            assert (SB : forall t x, cval j (V t x (last chain 0)) = V t x cn).
            { intros t0 x0. rewrite (nval_spec t0 x0 _ ndb Eb), msem_other by (now rewrite Eob).
              rewrite Eob. cbn [MaskCheck.mnode MaskCheck.cval].
              rewrite (znth_zget _ _ _ RKey (znth_map (vlk t0 x0 (last chain 0)) _ _ _ Ecn)).
              apply vlk_in. lia. }
            assert (EC : V (pi t) x' cn = V t x cn) by (rewrite <- !SB; now rewrite EB).
            rewrite EC in ES.
            set (A := leaf (V t x cn)) in *.
            set (B' := leaf (lval (pi t) x' nodes i j)) in *. set (B := leaf (lval t x nodes i j)) in *.
            replace B' with (rsub A (rsub A B')) by ring. rewrite ES. ring.
      - (* M: masked *)
        apply existsb_exists in Hm as ([[[cl s] n] jm] & Hin' & En). cbn [m_node m_comp fst snd] in En.
        apply andb_true_iff in En as [En Ej]. apply Z.eqb_eq in En, Ej. subst n jm.
        destruct (masks_ok_in M0 Hmk _ _ _ _ Hin') as [Hl _].
        specialize (Mg t). rewrite Forall_forall in Mg.
        specialize (Mg (mkdeliv (cl, s, i, j)) (in_map _ _ _ Hin')). rewrite !mkdeliv_msg in Mg.
        cbn [m_node m_comp fst snd] in Mg.
        rewrite (lin_leaf i j cl s Hl (pi t) x'), (lin_leaf i j cl s Hl t x). f_equal. exact Mg. }
    assert (VDC : forall j cj, znth (C i) j = Ok cj -> ni_vd cj = is_deliv p nd || ni_pre cj).
    { intros j cj Hc. rewrite C_at, Einfo in Hc. now apply (isem_vd_comp c p i nd (ilook i) sts j cj). }
    assert (INDL : is_deliv p nd = true -> forall l, In l (deliv_locs Inf i) -> In l dl).
    { intros Hd l Hl. unfold dl, all_locs. apply in_flat_map. exists i. split; [|exact Hl].
      apply znth_nth_error in E as [_ E]. pose proof (deliveries_in nodes _ 0 nd E Hd) as D.
      rewrite Z2Nat.id in D by lia. exact D. }
    assert (INC : forall j cj, znth (C i) j = Ok cj -> In (i, j) (deliv_locs Inf i)).
    { intros j cj Hc. unfold deliv_locs. apply in_or_app. right. apply in_map_iff. exists j. split; auto.
      apply in_zrange. now apply znth_range in Hc. }
    split.
    - intros Hvd t. rewrite VD in Hvd. apply orb_true_iff in Hvd as [Hd|Hp]; [|now apply PRE].
      destruct (kind_eqb (ni_kind (I i)) KdTup) eqn:K.
      + assert (K' : ni_kind (I i) = KdTup) by (destruct (ni_kind (I i)); try discriminate K; reflexivity).
        destruct (shape_ok i K' (pi t) x') as (vs' & E' & L'). destruct (shape_ok i K' t x) as (vs & E0 & L).
        rewrite E', E0. f_equal. apply (zget_ext vs' vs RKey); [congruence|].
        intros j Hj. destruct (znth_in_range (C i) j) as (cj & Hc); [lia|].
        pose proof (LOC j (INDL Hd _ (INC j cj Hc)) (or_intror (ex_intro _ cj Hc)) t) as EL.
        rewrite !lval_comp, E', E0 in EL by lia. exact EL.
      + assert (In (i, -1) (deliv_locs Inf i)) as Hin.
        { unfold deliv_locs. rewrite K. apply in_or_app. left. now left. }
        assert (Hneg : -1 < 0) by lia.
        pose proof (LOC (-1) (INDL Hd _ Hin) (or_introl Hneg) t) as EL.
        rewrite !lval_top in EL by lia. exact EL.
    - intros j cj Hc Hvd t. rewrite (VDC j cj Hc) in Hvd. apply orb_true_iff in Hvd as [Hd|Hp]; [|now apply (PREC j cj)].
      pose proof (LOC j (INDL Hd _ (INC j cj Hc)) (or_intror (ex_intro _ cj Hc)) t) as EL.
      apply znth_range in Hc. rewrite !lval_comp in EL by lia. exact EL.
  Qed.
End Sound.

(* C20 (c), inverse square root: sweep definition, soundness, and the UINT64 cap = 8 sweep
   (kept in its own file so that the sweeps compile in parallel). *)
From CC Require Import Base.Prelude Model.Fixed Proofs.FixedBits Proofs.FixedNewton.

Definition isqrt_sweep (sg : bool) (iters cap tol hi : Z) : bool :=
  forallb (fun d => is_ok_and (inverse_sqrt sg iters cap None d) (isqrt_close cap tol d))
          (zrange 1 (Z.to_nat (hi - 1))).

Lemma isqrt_sweep_sound : forall sg iters cap tol hi, isqrt_sweep sg iters cap tol hi = true ->
  forall d, 0 < d < hi ->
  exists a, inverse_sqrt sg iters cap None d = Ok a /\
            (a <= tol \/ (a - tol) * (a - tol) * d <= 2 ^ (2 * cap)) /\
            2 ^ (2 * cap) <= (a + tol) * (a + tol) * d.
Proof.
  intros sg iters cap tol hi H d Hd. unfold isqrt_sweep in H.
  pose proof (forallb_zrange _ _ _ H d ltac:(lia)) as Hd'. cbv beta in Hd'.
  destruct (is_ok_and_true _ _ Hd') as [a [Ha Hc]].
  exists a. split; [exact Ha|]. unfold isqrt_close in Hc.
  apply andb_true_iff in Hc. destruct Hc as [Hc1 Hc2]. apply orb_true_iff in Hc1.
  split; [destruct Hc1; [left|right]; lia|lia].
Qed.

Lemma isqrt_sweep_8u : isqrt_sweep false 5 8 2 (2 ^ 15) = true.
Proof. vm_cast_no_check (eq_refl true). Qed.

(* Per-operation specification proofs (C10), part 3: Matmul, Dot. *)
From CC Require Import Base.Prelude Base.Scalar Base.Ty Base.Shape Graph.Value Graph.IR Graph.Eval
  Proofs.EvalProofs Graph.Spec Proofs.EvalSpecBase Proofs.EvalSpecProofs.

Lemma fold_dot_loop' st (step : result Z -> Z -> result Z) (x y : Z -> Z) n :
  (forall j a, 0 <= j < n -> step (Ok a) j = Ok (k_add st a (k_mul st (x j) (y j)))) ->
  fold_left step (zrange n) (Ok 0) = Ok (dot_sum n x y mod modulus st).
Proof.
  intros H. pose proof (modulus_pos st) as Hm.
  assert (G : forall k : nat, Z.of_nat k <= Z.max n 0 ->
    fold_left step (zrange (Z.of_nat k)) (Ok 0) = Ok (dot_sum (Z.of_nat k) x y mod modulus st)).
  { induction k as [|k IH]; intros Hk.
    - cbn. now rewrite Z.mod_0_l by lia.
    - rewrite zrange_of_nat_S, fold_left_app. rewrite IH by lia.
      cbn [fold_left]. rewrite H by lia. f_equal. rewrite k_add_mod, k_mul_mod.
      rewrite Zplus_mod_idemp_l, Zplus_mod_idemp_r.
      unfold dot_sum. rewrite Nat2Z.inj_succ. unfold Z.succ.
      rewrite zsum_succ by lia. reflexivity. }
  specialize (G (Z.to_nat n) ltac:(lia)).
  unfold dot_sum, zsum in *. rewrite <- zrange_to_nat in G. exact G.
Qed.

Lemma bidx_id idx s : in_shape idx s -> bidx idx s = idx.
Proof.
  induction 1 as [|x d idx s Hx Hin IH]; cbn [bidx]; [reflexivity|]. rewrite IH.
  destruct (d =? 1) eqn:E; [f_equal; lia|reflexivity].
Qed.

Lemma bidx_app x y s t : length x = length s -> bidx (x ++ y) (s ++ t) = bidx x s ++ bidx y t.
Proof.
  revert s; induction x as [|a x IH]; intros [|d s] H; cbn in H; try lia; cbn [app bidx]; [reflexivity|].
  rewrite IH by lia. reflexivity.
Qed.

Lemma bcast_dims_app a b c d : bcast_dims a b -> bcast_dims c d -> bcast_dims (a ++ c) (b ++ d).
Proof. induction 1; intros H'; cbn [app]; auto. constructor; auto. Qed.

Lemma bcast_dims_length a b : bcast_dims a b -> length a = length b.
Proof. induction 1; cbn; auto. Qed.

Lemma set_nth_app_middle {A} (a : list A) x r v : set_nth (a ++ x :: r) (length a) v = a ++ v :: r.
Proof. induction a as [|y a IH]; cbn; [reflexivity|]. now rewrite IH. Qed.

Lemma skipn_app_le {A} k (a b : list A) : (k <= length a)%nat -> skipn k (a ++ b) = skipn k a ++ b.
Proof. intros H. rewrite skipn_app. replace (k - length a)%nat with O by lia. reflexivity. Qed.

Lemma eval_matmul_unfold st st1 st2 s0 s1 rs e0 e1 :
  (2 <= length s0)%nat -> (2 <= length s1)%nat ->
  eval_matmul (TArray s0 st) (TArray s1 st1) (TArray rs st2) (VArr e0) (VArr e1) =
    let l0 := length s0 in let l1 := length s1 in let lr := length rs in
    let* middle := znth s1 (Z.of_nat l1 - 2) in
    if (lr <? l0)%nat || (lr <? l1)%nat then Panic else
    let* res :=
      mapM (fun i =>
              let* ri := number_to_index i rs in
              fold_left (fun acc j =>
                           let* a := acc in
                           let index0 := firstn (l0 - 1) (skipn (lr - l0) ri) ++ [j] in
                           let* index1 := upd (skipn (lr - l1) ri) (Z.of_nat l1 - 2) j in
                           let* n0 := index_to_number index0 s0 in
                           let* n1 := index_to_number index1 s1 in
                           let* x := znth e0 n0 in let* y := znth e1 n1 in
                           Ok (k_add st a (k_mul st x y)))
                        (zrange middle) (Ok 0))
           (zrange (prod_list rs)) in
    Ok (VArr res).
Proof.
  intros H0 H1. unfold eval_matmul. cbn [st_of is_arr andb negb shape_of arr_of bind is_scalar].
  destruct (Nat.eqb_spec (length s0) 1); [lia|]. destruct (Nat.eqb_spec (length s1) 1); [lia|].
  reflexivity.
Qed.

(* numpy.matmul for operands of rank >= 2: stacks of n x k and k x m matrices whose batch
   dimensions broadcast (b0, b1 to br) *)
Theorem matmul_spec st st1 st2 b0 b1 br n k m e0 e1 :
  bcast_to b0 br -> bcast_to b1 br -> 0 < n -> 0 < k -> 0 < m ->
  let s0 := b0 ++ [n; k] in let s1 := b1 ++ [k; m] in let rs := br ++ [n; m] in
  length e0 = Z.to_nat (prod_list s0) -> length e1 = Z.to_nat (prod_list s1) ->
  exists r, eval_matmul (TArray s0 st) (TArray s1 st1) (TArray rs st2) (VArr e0) (VArr e1) = Ok (VArr r) /\
    length r = Z.to_nat (prod_list rs) /\
    forall bi i j, in_shape bi br -> 0 <= i < n -> 0 <= j < m ->
      get r rs (bi ++ [i; j]) =
      dot_sum k (fun l => get e0 s0 (bcast_index b0 br bi ++ [i; l]))
                (fun l => get e1 s1 (bcast_index b1 br bi ++ [l; j])) mod modulus st.
Proof.
  intros (Hl0 & Hvr & Hb0) (Hl1 & _ & Hb1) Hn Hk Hm s0 s1 rs Le0 Le1.
  assert (Ls0 : length s0 = (length b0 + 2)%nat) by (unfold s0; rewrite app_length; cbn; lia).
  assert (Ls1 : length s1 = (length b1 + 2)%nat) by (unfold s1; rewrite app_length; cbn; lia).
  assert (Lrs : length rs = (length br + 2)%nat) by (unfold rs; rewrite app_length; cbn; lia).
  rewrite eval_matmul_unfold by lia. cbv zeta.
  assert (Emid : znth s1 (Z.of_nat (length s1) - 2) = Ok k).
  { rewrite (znth_ok _ _ 0) by lia. f_equal. replace (Z.to_nat (Z.of_nat (length s1) - 2)) with (length b1) by lia.
    unfold s1. apply nth_middle. }
  rewrite Emid. cbn [bind].
  replace ((length rs <? length s0)%nat || (length rs <? length s1)%nat) with false by lia.
  assert (Hvrs : valid_shape rs).
  { unfold rs. apply valid_shape_app. split; [exact Hvr|repeat constructor; lia]. }
  set (o0 := (length br - length b0)%nat). set (o1 := (length br - length b1)%nat).
  set (L := length br).
  set (mm := fun bi i j =>
      dot_sum k (fun l => get e0 s0 (bcast_index b0 br bi ++ [i; l]))
                (fun l => get e1 s1 (bcast_index b1 br bi ++ [l; j])) mod modulus st).
  destruct (mapM_over_shape
    (fun ri => fold_left (fun acc j =>
                           let* a := acc in
                           let index0 := firstn (length s0 - 1) (skipn (length rs - length s0) ri) ++ [j] in
                           let* index1 := upd (skipn (length rs - length s1) ri) (Z.of_nat (length s1) - 2) j in
                           let* n0 := index_to_number index0 s0 in
                           let* n1 := index_to_number index1 s1 in
                           let* x := znth e0 n0 in let* y := znth e1 n1 in
                           Ok (k_add st a (k_mul st x y)))
                        (zrange k) (Ok 0))
    (fun ri => mm (firstn L ri) (nth L ri 0) (nth (S L) ri 0)) rs Hvrs) as (r & E & Lr & Hr).
  - intros ri Hin. apply in_shape_app_inv in Hin as (Hbi & Hij). fold L in Hbi, Hij.
    inversion Hij as [|i ? rest ? Hi Hrest E1 E2]; subst. inversion Hrest as [|j ? rest' ? Hj Hnil E3 E4]; subst.
    inversion Hnil; subst.
    set (bi := firstn L ri) in *.
    assert (Eri : ri = bi ++ [i; j]).
    { rewrite <- (firstn_skipn L ri). fold bi. f_equal. congruence. }
    pose proof (in_shape_length _ _ Hbi) as Lbi. fold L in Lbi.
    assert (Ei : nth L ri 0 = i) by (rewrite Eri, <- Lbi; apply nth_middle).
    assert (Ej : nth (S L) ri 0 = j).
    { rewrite Eri. rewrite app_nth2 by lia. replace (S L - length bi)%nat with 1%nat by lia. reflexivity. }
    rewrite Ei, Ej. unfold mm.
    apply fold_dot_loop'. intros l a Hl. cbn [bind].
    replace (length rs - length s0)%nat with o0 by (unfold o0; lia).
    replace (length rs - length s1)%nat with o1 by (unfold o1; lia).
    rewrite Eri. rewrite !skipn_app_le by (unfold o0, o1; lia).
    set (t0 := skipn o0 bi). set (t1 := skipn o1 bi).
    assert (Lt0 : length t0 = length b0) by (unfold t0, o0; rewrite skipn_length; lia).
    assert (Lt1 : length t1 = length b1) by (unfold t1, o1; rewrite skipn_length; lia).
    assert (Ht0 : in_shape t0 (skipn o0 br)) by (apply in_shape_skipn; exact Hbi).
    assert (Ht1 : in_shape t1 (skipn o1 br)) by (apply in_shape_skipn; exact Hbi).
    (* first operand *)
    assert (E0 : firstn (length s0 - 1) (t0 ++ [i; j]) ++ [l] = t0 ++ [i; l]).
    { rewrite firstn_app. rewrite firstn_all2 by lia.
      replace (length s0 - 1 - length t0)%nat with 1%nat by lia. cbn [firstn]. now rewrite <- app_assoc. }
    rewrite E0.
    (* second operand *)
    rewrite upd_ok by (rewrite app_length; cbn [length]; lia).
    replace (Z.to_nat (Z.of_nat (length s1) - 2)) with (length t1) by lia.
    rewrite set_nth_app_middle. cbn [bind].
    assert (I0 : in_shape (t0 ++ [i; l]) (skipn o0 br ++ [n; k]))
      by (apply in_shape_app; [exact Ht0|repeat constructor; lia]).
    assert (I1 : in_shape (t1 ++ [l; j]) (skipn o1 br ++ [k; m]))
      by (apply in_shape_app; [exact Ht1|repeat constructor; lia]).
    assert (B0 : bcast_dims s0 (skipn o0 br ++ [n; k])) by (apply bcast_dims_app; [exact Hb0|apply bcast_dims_refl]).
    assert (B1 : bcast_dims s1 (skipn o1 br ++ [k; m])) by (apply bcast_dims_app; [exact Hb1|apply bcast_dims_refl]).
    rewrite (index_to_number_bcast _ _ _ I0 B0). cbn [bind].
    rewrite (index_to_number_bcast _ _ _ I1 B1). cbn [bind].
    pose proof (flat_pos_range _ _ (bidx_in_shape _ _ I0 _ B0)) as R0.
    pose proof (flat_pos_range _ _ (bidx_in_shape _ _ I1 _ B1)) as R1.
    rewrite (znth_ok e0 _ 0) by lia. cbn [bind]. rewrite (znth_ok e1 _ 0) by lia. cbn [bind].
    unfold get, bcast_index. fold o0 o1 t0 t1.
    unfold s0 at 1 3, s1 at 1 3. rewrite !bidx_app by lia.
    rewrite (bidx_id [i; l] [n; k]) by (repeat constructor; lia).
    rewrite (bidx_id [l; j] [k; m]) by (repeat constructor; lia). reflexivity.
  - cbv zeta in E. rewrite E. cbn [bind]. exists r. split; [reflexivity|]. split; [exact Lr|].
    intros bi i j Hbi Hi Hj.
    rewrite Hr by (apply in_shape_app; [exact Hbi|repeat constructor; lia]).
    pose proof (in_shape_length _ _ Hbi) as Lbi. fold L in Lbi.
    rewrite firstn_app, firstn_all2 by lia. replace (L - length bi)%nat with O by lia.
    cbn [firstn]. rewrite app_nil_r. rewrite <- Lbi at 1. rewrite nth_middle.
    rewrite app_nth2 by lia. replace (S L - length bi)%nat with 1%nat by lia. reflexivity.
Qed.

(* rank-1 x rank-1: inner product (same code in Dot and Matmul) *)
Lemma inner_loop st n e0 e1 :
  length e0 = Z.to_nat n -> length e1 = Z.to_nat n ->
  fold_left (fun acc i => let* a := acc in let* x := znth e0 i in let* y := znth e1 i in
                          Ok (k_add st a (k_mul st x y)))
            (zrange n) (Ok 0)
  = Ok (dot_sum n (fun l => get e0 [n] [l]) (fun l => get e1 [n] [l]) mod modulus st).
Proof.
  intros L0 L1.
  pose proof (fold_dot_loop st (fun i => znth e0 i) (fun i => znth e1 i)
                (fun l => get e0 [n] [l]) (fun l => get e1 [n] [l]) n) as H.
  cbv beta in H. apply H. intros j Hj. unfold get. cbn [flat_pos].
  replace (j * prod_list [] + 0) with j by (unfold prod_list; cbn; lia).
  split; apply znth_ok; lia.
Qed.

Theorem matmul_inner_spec st st1 tr n e0 e1 :
  length e0 = Z.to_nat n -> length e1 = Z.to_nat n ->
  eval_matmul (TArray [n] st) (TArray [n] st1) tr (VArr e0) (VArr e1)
  = Ok (VArr [dot_sum n (fun l => get e0 [n] [l]) (fun l => get e1 [n] [l]) mod modulus st]).
Proof.
  intros L0 L1. unfold eval_matmul. cbn [st_of is_arr andb negb shape_of arr_of bind length Nat.eqb hd].
  rewrite inner_loop by auto. reflexivity.
Qed.

Theorem dot_inner_spec st st1 tr n e0 e1 :
  length e0 = Z.to_nat n -> length e1 = Z.to_nat n ->
  eval_dot (TArray [n] st) (TArray [n] st1) tr (VArr e0) (VArr e1)
  = Ok (VArr [dot_sum n (fun l => get e0 [n] [l]) (fun l => get e1 [n] [l]) mod modulus st]).
Proof.
  intros L0 L1. unfold eval_dot. cbn [st_of is_arr andb negb shape_of arr_of bind length Nat.eqb hd].
  rewrite inner_loop by auto. reflexivity.
Qed.

(* ------------------------------------------------------------------ Dot, N-d by M-d (M >= 2) *)
Lemma eval_dot_unfold st st1 st2 s0 s1 rs e0 e1 :
  (2 <= length s1)%nat ->
  eval_dot (TArray s0 st) (TArray s1 st1) (TArray rs st2) (VArr e0) (VArr e1) =
    let l0 := length s0 in let l1 := length s1 in
    let* middle := znth s1 (Z.of_nat l1 - 2) in
    let* res :=
      mapM (fun i =>
              let* ri := number_to_index i rs in
              fold_left (fun acc j =>
                           let* a := acc in
                           if (length ri <? l0 - 1)%nat then Panic else
                           let index0 := firstn (l0 - 1) ri ++ [j] in
                           let index1 := (let tl := skipn (l0 - 1) ri in
                                          if (length tl =? 0)%nat then []
                                          else insert_at tl (length tl - 1) j) in
                           if (length (skipn (l0 - 1) ri) =? 0)%nat then Panic else
                           let* n0 := index_to_number index0 s0 in
                           let* n1 := index_to_number index1 s1 in
                           let* x := znth e0 n0 in let* y := znth e1 n1 in
                           Ok (k_add st a (k_mul st x y)))
                        (zrange middle) (Ok 0))
           (zrange (prod_list rs)) in
    Ok (VArr res).
Proof.
  intros H1. unfold eval_dot. cbn [st_of is_arr andb negb shape_of arr_of bind is_scalar].
  destruct (Nat.eqb_spec (length s1) 1); [lia|]. rewrite andb_false_r.
  destruct (Nat.ltb_spec 1 (length s1)); [|lia]. reflexivity.
Qed.

Theorem dot_general_spec st st1 st2 a0 c k m e0 e1 :
  valid_shape a0 -> valid_shape c -> 0 < k -> 0 < m ->
  let s0 := a0 ++ [k] in let s1 := c ++ [k; m] in let rs := a0 ++ c ++ [m] in
  length e0 = Z.to_nat (prod_list s0) -> length e1 = Z.to_nat (prod_list s1) ->
  exists r, eval_dot (TArray s0 st) (TArray s1 st1) (TArray rs st2) (VArr e0) (VArr e1) = Ok (VArr r) /\
    length r = Z.to_nat (prod_list rs) /\
    forall ia ic j, in_shape ia a0 -> in_shape ic c -> 0 <= j < m ->
      get r rs (ia ++ ic ++ [j]) =
      dot_sum k (fun l => get e0 s0 (ia ++ [l])) (fun l => get e1 s1 (ic ++ [l; j])) mod modulus st.
Proof.
  intros Hva Hvc Hk Hm s0 s1 rs Le0 Le1.
  assert (Ls0 : length s0 = (length a0 + 1)%nat) by (unfold s0; rewrite app_length; cbn; lia).
  assert (Ls1 : length s1 = (length c + 2)%nat) by (unfold s1; rewrite app_length; cbn; lia).
  rewrite eval_dot_unfold by lia. cbv zeta.
  assert (Emid : znth s1 (Z.of_nat (length s1) - 2) = Ok k).
  { rewrite (znth_ok _ _ 0) by lia. f_equal. replace (Z.to_nat (Z.of_nat (length s1) - 2)) with (length c) by lia.
    unfold s1. apply nth_middle. }
  rewrite Emid. cbn [bind].
  assert (Hvrs : valid_shape rs).
  { unfold rs. apply valid_shape_app. split; [exact Hva|]. apply valid_shape_app. split; [exact Hvc|repeat constructor; lia]. }
  set (La := length a0). set (Lc := length c).
  set (dd := fun ia ic j =>
      dot_sum k (fun l => get e0 s0 (ia ++ [l])) (fun l => get e1 s1 (ic ++ [l; j])) mod modulus st).
  destruct (mapM_over_shape
    (fun ri => fold_left (fun acc j =>
                           let* a := acc in
                           if (length ri <? length s0 - 1)%nat then Panic else
                           if (length (skipn (length s0 - 1) ri) =? 0)%nat then Panic else
                           let* n0 := index_to_number (firstn (length s0 - 1) ri ++ [j]) s0 in
                           let* n1 := index_to_number
                                        (if (length (skipn (length s0 - 1) ri) =? 0)%nat then []
                                         else insert_at (skipn (length s0 - 1) ri)
                                                        (length (skipn (length s0 - 1) ri) - 1) j) s1 in
                           let* x := znth e0 n0 in let* y := znth e1 n1 in
                           Ok (k_add st a (k_mul st x y)))
                        (zrange k) (Ok 0))
    (fun ri => dd (firstn La ri) (firstn Lc (skipn La ri)) (nth (La + Lc) ri 0)) rs Hvrs) as (r & E & Lr & Hr).
  - intros ri Hin. apply in_shape_app_inv in Hin as (Hia & Hrest). fold La in Hia, Hrest.
    apply in_shape_app_inv in Hrest as (Hic & Hj). fold Lc in Hic, Hj.
    set (ia := firstn La ri) in *. set (ic := firstn Lc (skipn La ri)) in *.
    inversion Hj as [|j ? rest ? Hj' Hnil E1 E2]; subst. inversion Hnil; subst.
    assert (Eri : ri = ia ++ ic ++ [j]).
    { rewrite <- (firstn_skipn La ri). fold ia. f_equal.
      rewrite <- (firstn_skipn Lc (skipn La ri)). fold ic. f_equal. congruence. }
    pose proof (in_shape_length _ _ Hia) as Lia. fold La in Lia.
    pose proof (in_shape_length _ _ Hic) as Lic. fold Lc in Lic.
    assert (Ej : nth (La + Lc) ri 0 = j).
    { rewrite Eri. rewrite app_nth2 by lia. rewrite app_nth2 by lia.
      replace (La + Lc - length ia - length ic)%nat with O by lia. reflexivity. }
    rewrite Ej. unfold dd.
    apply fold_dot_loop'. intros l a Hl. cbn [bind].
    replace (length s0 - 1)%nat with La by (unfold La; lia).
    assert (Lri : length ri = (La + Lc + 1)%nat) by (rewrite Eri, !app_length; cbn [length]; lia).
    replace (length ri <? La)%nat with false by lia.
    assert (Esk : skipn La ri = ic ++ [j]).
    { rewrite Eri. rewrite skipn_app. rewrite skipn_all2 by lia. replace (La - length ia)%nat with O by lia. reflexivity. }
    rewrite Esk. rewrite app_length. cbn [length].
    replace (length ic + 1 =? 0)%nat with false by lia.
    fold ia. unfold insert_at. replace (length ic + 1 - 1)%nat with (length ic) by lia.
    rewrite firstn_app, firstn_all2 by lia. rewrite Nat.sub_diag. cbn [firstn]. rewrite app_nil_r.
    rewrite skipn_app, skipn_all2 by lia. rewrite Nat.sub_diag. cbn [skipn app].
    assert (I0 : in_shape (ia ++ [l]) s0) by (apply in_shape_app; [exact Hia|repeat constructor; lia]).
    assert (I1 : in_shape (ic ++ [l; j]) s1) by (apply in_shape_app; [exact Hic|repeat constructor; lia]).
    rewrite (index_to_number_flat_pos _ _ I0). cbn [bind].
    rewrite (index_to_number_flat_pos _ _ I1). cbn [bind].
    pose proof (flat_pos_range _ _ I0) as R0. pose proof (flat_pos_range _ _ I1) as R1.
    rewrite (znth_ok e0 _ 0) by lia. cbn [bind]. rewrite (znth_ok e1 _ 0) by lia. cbn [bind].
    reflexivity.
  - cbv zeta in E. rewrite E. cbn [bind]. exists r. split; [reflexivity|]. split; [exact Lr|].
    intros ia ic j Hia Hic Hj.
    rewrite Hr by (apply in_shape_app; [exact Hia|apply in_shape_app; [exact Hic|repeat constructor; lia]]).
    pose proof (in_shape_length _ _ Hia) as Lia. fold La in Lia.
    pose proof (in_shape_length _ _ Hic) as Lic. fold Lc in Lic.
    rewrite firstn_app, firstn_all2 by lia. replace (La - length ia)%nat with O by lia.
    cbn [firstn]. rewrite app_nil_r.
    rewrite skipn_app, skipn_all2 by lia. replace (La - length ia)%nat with O by lia. cbn [skipn app].
    rewrite firstn_app, firstn_all2 by lia. replace (Lc - length ic)%nat with O by lia.
    cbn [firstn]. rewrite app_nil_r.
    rewrite app_nth2 by lia. rewrite app_nth2 by lia.
    replace (La + Lc - length ia - length ic)%nat with O by lia. reflexivity.
Qed.

(* C09 preservation: GetSlice. *)
From CC Require Import Base.Prelude Base.Scalar Base.Ty Base.Shape Graph.Value Graph.IR Graph.Eval
  Graph.Typing Proofs.EvalProofs Proofs.TypingBase Proofs.TypingTuple Proofs.TypingArith
  Proofs.TypingBits Proofs.TypingReduce Proofs.TypingStruct Proofs.TypingPermOps.

Definition noell (x : slice_elem) : Prop := is_ellipsis x = false.

Lemma clean_no_ellipsis shape slice clean : get_clean_slice shape slice = Ok clean -> Forall noell clean.
Proof.
  unfold get_clean_slice. destruct (1 <? length (filter is_ellipsis slice))%nat; [discriminate|].
  intros H. apply bind_ok in H as (c & Ec & H).
  destruct (length shape <? length c)%nat; [discriminate|]. inversion H; subst c. clear H.
  revert Ec. generalize (Z.of_nat (length shape) - Z.of_nat (length slice) + 1) as padding. intros padding.
  assert (G : forall acc, Forall noell acc ->
    fold_left (fun acc x => let* a := acc in
                 if is_ellipsis x then
                   (if padding <? 0 then Err else Ok (a ++ repeat (SSub None None None) (Z.to_nat padding)))
                 else Ok (a ++ [x])) slice (Ok acc) = Ok clean -> Forall noell clean).
  { induction slice as [|x slice IH]; intros acc Fa E; cbn [fold_left] in E.
    - inversion E; subst. exact Fa.
    - cbn [bind] in E. destruct (is_ellipsis x) eqn:Ex.
      + destruct (padding <? 0).
        * rewrite fold_err in E by reflexivity. discriminate.
        * apply (IH _ ) in E; auto. apply Forall_app. split; [exact Fa|].
          apply Forall_forall. intros y Hy. apply repeat_spec in Hy. subst y. reflexivity.
      + apply IH in E; auto. apply Forall_app. split; [exact Fa| constructor; [exact Ex| constructor]]. }
  apply G. constructor.
Qed.

Lemma count_loop_nonneg fuel : forall cur e s dim c r, 0 <= c -> count_loop fuel cur e s dim c = Ok r -> 0 <= r.
Proof.
  induction fuel as [|f IH]; intros cur e s dim c r Hc H; cbn [count_loop] in H; [discriminate|].
  destruct (((0 <? s) && (e <=? cur)) || ((s <? 0) && (cur <=? e))); [inversion H; lia|].
  destruct ((cur <? 0) || (dim <=? cur)); [discriminate|]. eapply IH; [|exact H]. lia.
Qed.

(* every single index of the cleaned slice is inside its dimension *)
Definition single_ok (shape : list Z) (clean : list slice_elem) : Prop :=
  Forall (fun p : Z * slice_elem =>
            match snd p with SSingle ind => 0 <= (if 0 <=? ind then ind else ind + fst p) | _ => True end)
         (combine shape clean).

Definition gss_go :=
  fix go (shape : list Z) (clean : list slice_elem) {struct shape} : result (list Z) :=
    match shape with
    | [] => Ok []
    | d :: shape' =>
        match clean with
        | c :: clean' =>
            let* o := get_slice_shape_1d d c in
            let* rest := go shape' clean' in
            Ok (match o with Some s => s :: rest | None => rest end)
        | [] => let* rest := go shape' [] in Ok (d :: rest)
        end
    end.

Lemma gss_go_inv : forall shape clean ns, valid_shape shape -> gss_go shape clean = Ok ns ->
  single_ok shape clean /\ valid_shape ns.
Proof.
  induction shape as [|d shape IH]; intros clean ns V H; cbn [gss_go] in H.
  - inversion H. split; constructor.
  - inversion V as [|? ? Hd V']; subst. destruct clean as [|c clean].
    + apply bind_ok in H as (rest & Er & H). inversion H; subst.
      destruct (IH [] rest V' Er) as [_ Vr]. split; [constructor| constructor; auto].
    + apply bind_ok in H as (o & Eo & H). apply bind_ok in H as (rest & Er & H). inversion H; subst. clear H.
      destruct (IH clean rest V' Er) as [So Vr]. split.
      * unfold single_ok. cbn [combine]. constructor; [|exact So]. cbn [fst snd].
        destruct c as [ind| |]; auto. cbn [get_slice_shape_1d] in Eo.
        destruct (((if ind <? 0 then ind + d else ind) <? 0) || (d <=? (if ind <? 0 then ind + d else ind))) eqn:C;
          [discriminate|].
        destruct (ind <? 0) eqn:N; destruct (0 <=? ind) eqn:N'; lia.
      * destruct o as [s|]; [|exact Vr]. constructor; [|exact Vr].
        destruct c as [ind|b e st|]; cbn [get_slice_shape_1d] in Eo.
        -- destruct ((_ <? 0) || _); discriminate.
        -- apply bind_ok in Eo as ([[bg en] stp] & En & Eo). apply bind_ok in Eo as (cnt & Ec & Eo).
           destruct (cnt =? 0) eqn:C0; [discriminate|]. inversion Eo; subst.
           apply count_loop_nonneg in Ec; lia.
        -- discriminate.
Qed.

Section SliceIndex.
  Variable index : list Z.
  Definition si_go :=
    fix go (shape : list Z) (clean : list slice_elem) (j : nat) {struct shape} : result (list Z * nat) :=
      match shape with
      | [] => Ok ([], j)
      | d :: shape' =>
          match clean with
          | SSingle ind :: clean' =>
              let real := if 0 <=? ind then ind else ind + d in
              if real <? 0 then Panic else
              let* (rest, j') := go shape' clean' j in Ok (real :: rest, j')
          | SSub b e s :: clean' =>
              match nth_error index j with
              | None => Err
              | Some ix =>
                  let* r := slice_1d_index d b e s ix in
                  let* (rest, j') := go shape' clean' (S j) in Ok (r :: rest, j')
              end
          | SEllipsis :: _ => Panic
          | [] =>
              match nth_error index j with
              | None => Err
              | Some ix => let* (rest, j') := go shape' [] (S j) in Ok (ix :: rest, j')
              end
          end
      end.

  Lemma slice_1d_index_safe d b e s ix :
    match slice_1d_index d b e s ix with Ok _ | Err => True | _ => False end.
  Proof.
    unfold slice_1d_index, normalize_subarray.
    destruct ((match s with Some x => x | None => 1 end) =? 0); cbn [bind]; auto.
    match goal with |- context [if ?c then Err else Ok _] => destruct c end; auto.
  Qed.

  Lemma si_go_safe : forall shape clean j, Forall noell clean -> single_ok shape clean ->
    match si_go shape clean j with
    | Ok (res, _) => length res = length shape
    | Err => True
    | _ => False
    end.
  Proof.
    induction shape as [|d shape IH]; intros clean j Fn So; cbn [si_go]; [reflexivity|].
    destruct clean as [|c clean].
    - destruct (nth_error index j); [|exact I].
      specialize (IH [] (S j) (Forall_nil _)). unfold single_ok in IH. cbn [combine] in IH.
      assert (X : Forall (fun p : Z * slice_elem => match snd p with SSingle ind => 0 <= (if 0 <=? ind then ind else ind + fst p) | _ => True end) (combine shape [])) by (destruct shape; constructor).
      specialize (IH X). destruct (si_go shape [] (S j)) as [[rest j']| | |]; cbn [bind]; auto. cbn. lia.
    - inversion Fn as [|? ? Nc Fn']; subst. unfold single_ok in So. cbn [combine] in So.
      inversion So as [|? ? Sc So']; subst. cbn [fst snd] in Sc.
      destruct c as [ind|b e s|]; [| |discriminate Nc].
      + replace ((if 0 <=? ind then ind else ind + d) <? 0) with false by lia.
        specialize (IH clean j Fn' So'). destruct (si_go shape clean j) as [[rest j']| | |]; cbn [bind]; auto. cbn. lia.
      + destruct (nth_error index j); [|exact I].
        pose proof (slice_1d_index_safe d b e s z) as S1.
        destruct (slice_1d_index d b e s z); cbn [bind]; try contradiction; auto.
        specialize (IH clean (S j) Fn' So'). destruct (si_go shape clean (S j)) as [[rest j']| | |]; cbn [bind]; auto. cbn. lia.
  Qed.
End SliceIndex.

Lemma slice_index_safe shape sl index clean ns : valid_shape shape ->
  get_clean_slice shape sl = Ok clean -> gss_go shape clean = Ok ns ->
  match slice_index shape sl index with
  | Ok res => length res = length shape
  | Err => True
  | _ => False
  end.
Proof.
  intros V Ec Eg. unfold slice_index. rewrite Ec. cbn [bind].
  destruct (gss_go_inv _ _ _ V Eg) as [So _]. pose proof (clean_no_ellipsis _ _ _ Ec) as Fn.
  pose proof (si_go_safe index shape clean O Fn So) as G. unfold si_go in G.
  match goal with |- context [bind ?x _] => destruct x as [[res j]| | |] end; cbn [bind]; try contradiction; auto.
  destruct ((j =? 0)%nat && (length index =? 1)%nat && match index with [x] => x =? 0 | _ => false end); auto.
  destruct (negb (j =? length index)%nat); auto.
Qed.

Lemma preserves_get_slice sl : preserves (OGetSlice sl).
Proof.
  intros ts t vs Hu H HF. inv_infer H. apply zlen_eq in Harity.
  destruct (one_dep _ _ Harity HF) as (v & t0 & -> & -> & Hv & Hok).
  cbn [nth] in H. cbn [eval_node nth nth_res bind].
  destruct t0 as [|os st0| | |]; try discriminate. cbn [is_arr negb shape_of st_of] in *.
  apply bind_ok in H as (ns & Ens & H).
  destruct v as [es|]; [|discriminate]. apply has_type_array in Hv as [Le Fe].
  destruct (ty_ok_array _ _ Hok) as [Vos _].
  unfold get_slice_shape in Ens. apply bind_ok in Ens as (clean & Ec & Eg).
  change (gss_go os clean = Ok ns) in Eg.
  destruct (gss_go_inv _ _ _ Vos Eg) as [_ Vns].
  cbn [arr_of bind].
  assert (Ht : is_leaf t = true /\ st_of t = st0 /\ valid_shape (dims t)).
  { destruct ns; apply register_ok in H as [-> _]; cbn; repeat split; auto. repeat constructor; lia. }
  destruct Ht as (Lt & St & Vt). clear H.
  match goal with |- context [mapM ?g (zrange (prod_list (dims t)))] =>
    pose proof (mapM_safe g (fun e => 0 <= e < modulus st0) (zrange (prod_list (dims t)))) as G end.
  match type of G with ?A -> _ => assert (HA : A) end.
  { intros i Hi. apply zrange_in in Hi. cbn beta.
    destruct (number_to_index_inverse (dims t) i Vt Hi) as (index & -> & _ & _). cbn [bind].
    pose proof (slice_index_safe os sl index clean ns Vos Ec Eg) as S.
    destruct (slice_index os sl index) as [dindex| | |]; cbn [bind]; try contradiction; auto.
    destruct (index_to_number_total os dindex Vos) as (j & -> & Bj); [lia|]. cbn [bind].
    destruct (znth_total es j) as (x & -> & Ix); [lia|]. rewrite Forall_forall in Fe. auto. }
  specialize (G HA).
  destruct (mapM _ (zrange (prod_list (dims t)))) as [r| | |]; cbn [bind safe_typed]; auto.
  destruct G as [Lr Fr]. apply leaf_has_type; auto.
  - rewrite Lr, zrange_length. pose proof (prod_list_pos _ Vt). lia.
  - now rewrite St.
Qed.

(* Per-operation specification proofs (C10), part 1: broadcasting, elementwise arithmetic,
   sum, cumulative sum. *)
From CC Require Import Base.Prelude Base.Scalar Base.Ty Base.Shape Graph.Value Graph.IR Graph.Eval
  Proofs.EvalProofs Graph.Spec Proofs.EvalSpecBase.

(* ------------------------------------------------------------------ broadcasting *)
Lemma bidx_in_shape idx rs : in_shape idx rs -> forall s, bcast_dims s rs -> in_shape (bidx idx s) s.
Proof.
  induction 1 as [|x r idx rs Hx Hin IH]; intros s Hb; inversion Hb; subst; cbn [bidx]; constructor; auto.
  destruct (d =? 1) eqn:E; lia.
Qed.

Lemma index_to_number_aux_bcast idx rs : in_shape idx rs -> forall s, bcast_dims s rs -> forall acc,
  index_to_number_aux acc idx s = Ok (acc * prod_list s + flat_pos (bidx idx s) s).
Proof.
  induction 1 as [|x r idx rs Hx Hin IH]; intros s Hb acc; inversion Hb as [|d r' s' rs' Hd Hb']; subst.
  - cbn. f_equal. lia.
  - cbn [index_to_number_aux bidx flat_pos]. rewrite prod_list_cons.
    replace (d =? 0) with false by lia. rewrite IH by auto. f_equal.
    destruct (d =? 1) eqn:E.
    + assert (d = 1) by lia. subst d. rewrite Z.mod_1_r. ring.
    + assert (d = r) by lia. subst d. rewrite Z.mod_small by lia. ring.
Qed.

(* the implementation's `index % dim` trick is NumPy broadcasting *)
Lemma index_to_number_bcast idx rs s : in_shape idx rs -> bcast_dims s rs ->
  index_to_number idx s = Ok (flat_pos (bidx idx s) s).
Proof.
  intros H Hb. unfold index_to_number. rewrite (index_to_number_aux_bcast idx rs) by auto. f_equal; lia.
Qed.

Theorem broadcast_spec arr s rs :
  bcast_to s rs -> length arr = Z.to_nat (prod_list s) ->
  exists r, broadcast_to_shape arr s rs = Ok r /\ length r = Z.to_nat (prod_list rs) /\
    forall idx, in_shape idx rs -> get r rs idx = get arr s (bcast_index s rs idx).
Proof.
  intros (Hl & Hv & Hb) Ha. unfold broadcast_to_shape.
  replace (length rs <? length s)%nat with false by lia.
  apply (mapM_over_shape
           (fun iv => let* ix := index_to_number (skipn (length rs - length s) iv) s in znth arr ix)
           (fun idx => get arr s (bcast_index s rs idx))); [exact Hv|].
  intros idx Hin. unfold bcast_index.
  pose proof (in_shape_skipn (length rs - length s) _ _ Hin) as Hin'.
  rewrite (index_to_number_bcast _ _ _ Hin' Hb). cbn [bind].
  pose proof (flat_pos_range _ _ (bidx_in_shape _ _ Hin' _ Hb)) as R.
  rewrite (znth_ok _ _ 0) by lia. reflexivity.
Qed.

(* identity broadcast: same shape *)
Lemma bcast_dims_refl s : bcast_dims s s.
Proof. induction s; constructor; auto. Qed.
Lemma bcast_to_refl s : valid_shape s -> bcast_to s s.
Proof. intros H. split; [lia|]. split; [exact H|]. rewrite Nat.sub_diag. apply bcast_dims_refl. Qed.

(* ------------------------------------------------------------------ elementwise arithmetic *)
Definition arith_st (t0 t1 : ty) : scalar :=
  match t0, t1 with TScalar _, TArray _ s => s | _, _ => st_of t0 end.

Lemma arith_st_same t0 t1 : st_of t0 = st_of t1 -> arith_st t0 t1 = st_of t0.
Proof. intros H. unfold arith_st. destruct t0, t1; cbn in *; auto. Qed.

Lemma zip_broadcast_spec f a sa b sb rs :
  bcast_to sa rs -> bcast_to sb rs ->
  length a = Z.to_nat (prod_list sa) -> length b = Z.to_nat (prod_list sb) ->
  exists a' b', broadcast_to_shape a sa rs = Ok a' /\ broadcast_to_shape b sb rs = Ok b' /\
    elementwise_spec f a sa b sb (zip_with f a' b') rs.
Proof.
  intros Ba Bb La Lb.
  destruct (broadcast_spec a sa rs Ba La) as (a' & Ea & La' & Ga).
  destruct (broadcast_spec b sb rs Bb Lb) as (b' & Eb & Lb' & Gb).
  exists a', b'. split; [exact Ea|]. split; [exact Eb|]. split.
  - rewrite zip_with_length by lia. exact La'.
  - intros idx Hin. unfold get at 1.
    pose proof (flat_pos_range _ _ Hin) as R.
    rewrite (nth_zip_with f a' b' _ 0 0 0) by lia.
    specialize (Ga idx Hin). specialize (Gb idx Hin). unfold get at 1 in Ga. unfold get at 1 in Gb.
    now rewrite Ga, Gb.
Qed.

Theorem arith_spec k t0 t1 tr a b :
  is_leaf t0 = true -> is_leaf t1 = true ->
  bcast_to (dims t0) (dims tr) -> bcast_to (dims t1) (dims tr) ->
  length a = Z.to_nat (prod_list (dims t0)) -> length b = Z.to_nat (prod_list (dims t1)) ->
  exists r, eval_arith k t0 t1 tr (VArr a) (VArr b) = Ok (VArr r) /\
    elementwise_spec (k (arith_st t0 t1)) a (dims t0) b (dims t1) r (dims tr).
Proof.
  intros L0 L1 B0 B1 La Lb. unfold eval_arith. rewrite L0, L1. cbn [andb negb arr_of bind].
  destruct (zip_broadcast_spec (k (arith_st t0 t1)) a (dims t0) b (dims t1) (dims tr) B0 B1 La Lb)
    as (a' & b' & Ea & Eb & S).
  rewrite Ea, Eb. cbn [bind]. eexists. split; [reflexivity|exact S].
Qed.

Theorem mixed_spec t0 t1 tr a b :
  is_leaf t0 = true -> is_leaf t1 = true ->
  bcast_to (dims t0) (dims tr) -> bcast_to (dims t1) (dims tr) ->
  length a = Z.to_nat (prod_list (dims t0)) -> length b = Z.to_nat (prod_list (dims t1)) ->
  exists r, eval_mixed t0 t1 tr (VArr a) (VArr b) = Ok (VArr r) /\
    elementwise_spec (k_mul (st_of t0)) a (dims t0) b (dims t1) r (dims tr).
Proof.
  intros L0 L1 B0 B1 La Lb. unfold eval_mixed. rewrite L0, L1. cbn [andb negb arr_of bind].
  destruct (zip_broadcast_spec (k_mul (st_of t0)) a (dims t0) b (dims t1) (dims tr) B0 B1 La Lb)
    as (a' & b' & Ea & Eb & S).
  rewrite Ea, Eb. cbn [bind]. eexists. split; [reflexivity|exact S].
Qed.

(* ------------------------------------------------------------------ sum to a scalar *)
Theorem sum_scalar_spec sh st0 st axes values :
  eval_sum (TArray sh st0) (TScalar st) axes (VArr values)
  = Ok (VArr [list_sum_z values mod modulus st]).
Proof. unfold eval_sum. cbn [arr_of bind is_arr negb]. now rewrite fold_k_add_0. Qed.

(* ------------------------------------------------------------------ sum along axes *)
Lemma drop_axes_in_shape axes idx sh : in_shape idx sh ->
  forall k, in_shape (drop_axes k axes idx) (drop_axes k axes sh).
Proof.
  induction 1 as [|x d idx sh Hx Hin IH]; intros k; cbn [drop_axes]; [constructor|].
  destruct (existsb (Z.eqb k) axes); [apply IH|constructor; auto].
Qed.

Lemma mapM_res_axes axes idx : forall pre,
  mapM (fun ax => znth (pre ++ idx) ax)
       (filter (fun j => negb (existsb (Z.eqb j) axes))
               (map (Z.add (Z.of_nat (length pre))) (zrange (Z.of_nat (length idx)))))
  = Ok (drop_axes (Z.of_nat (length pre)) axes idx).
Proof.
  induction idx as [|x r IH]; intros pre; [reflexivity|].
  cbn [length]. rewrite Nat2Z.inj_succ. unfold Z.succ. rewrite (Z.add_comm _ 1).
  rewrite zrange_app by lia. change (zrange 1) with [0]. cbn [app map filter drop_axes].
  rewrite Z.add_0_r. rewrite map_map.
  specialize (IH (pre ++ [x])). rewrite app_length, Nat2Z.inj_add in IH. cbn [length] in IH.
  rewrite <- app_assoc in IH. cbn [app] in IH.
  rewrite (map_ext (fun x0 => Z.of_nat (length pre) + (1 + x0)) (Z.add (Z.of_nat (length pre) + Z.of_nat 1)))
    by (intros; lia).
  destruct (existsb (Z.eqb (Z.of_nat (length pre))) axes); cbn [negb].
  - exact IH.
  - cbn [mapM]. rewrite (znth_ok _ _ 0) by (rewrite app_length; cbn [length]; lia).
    rewrite Nat2Z.id, nth_middle. cbn [bind]. rewrite IH. reflexivity.
Qed.

Lemma mapM_res_axes0 axes idx :
  mapM (fun ax => znth idx ax)
       (filter (fun j => negb (existsb (Z.eqb j) axes)) (zrange (Z.of_nat (length idx))))
  = Ok (drop_axes 0 axes idx).
Proof.
  pose proof (mapM_res_axes axes idx []) as H. cbn [length app] in H.
  rewrite (map_ext _ (fun x => x)) in H by (intros; lia). rewrite map_id in H. exact H.
Qed.

Lemma sum_loop st sh axes values :
  valid_shape sh -> length values = Z.to_nat (prod_list sh) ->
  let rsh := drop_axes 0 axes sh in
  let res_axes := filter (fun j => negb (existsb (Z.eqb j) axes)) (zrange (Z.of_nat (length sh))) in
  exists r,
    fold_left (fun acc i =>
                 let* r := acc in
                 let* inp_index := number_to_index i sh in
                 let* new_index := mapM (fun ax => znth inp_index ax) res_axes in
                 let* new_i := index_to_number new_index rsh in
                 let* old := znth r new_i in
                 let* x := znth values i in
                 upd r new_i (k_add st old x))
              (zrange (Z.of_nat (length values)))
              (Ok (repeat 0 (Z.to_nat (prod_list rsh)))) = Ok r /\
    length r = Z.to_nat (prod_list rsh) /\
    forall ridx, in_shape ridx rsh -> get r rsh ridx = sum_axes_at values sh axes ridx mod modulus st.
Proof.
  intros Hv Hl rsh res_axes. pose proof (modulus_pos st) as Hm.
  pose proof (prod_list_pos sh Hv) as Hp.
  set (P := fun i => flat_pos (drop_axes 0 axes (unravel i sh)) rsh).
  set (N := Z.to_nat (prod_list rsh)).
  set (Inv := fun (k : nat) (r : list Z) =>
     length r = N /\ forall p, 0 <= p < Z.of_nat N ->
       nth (Z.to_nat p) r 0 =
       zsum (fun i => if P i =? p then nth (Z.to_nat i) values 0 else 0) (Z.of_nat k) mod modulus st).
  destruct (fold_left_result_inv
    (fun r i =>
                 let* inp_index := number_to_index i sh in
                 let* new_index := mapM (fun ax => znth inp_index ax) res_axes in
                 let* new_i := index_to_number new_index rsh in
                 let* old := znth r new_i in
                 let* x := znth values i in
                 upd r new_i (k_add st old x)) Inv (length values) (repeat 0 N)) as (r & E & HI).
  - split; [apply repeat_length|]. intros p Hp'. rewrite nth_repeat_0. rewrite zsum_0.
    now rewrite Z.mod_0_l by lia.
  - intros k r Hk (Lr & Hr).
    destruct (number_to_index_unravel sh (Z.of_nat k) Hv ltac:(lia)) as (E1 & Hin & Hf).
    rewrite E1. cbn [bind]. unfold res_axes. rewrite <- (in_shape_length _ _ Hin).
    rewrite mapM_res_axes0. cbn [bind].
    pose proof (drop_axes_in_shape axes _ _ Hin 0) as Hin'. fold rsh in Hin'.
    rewrite (index_to_number_flat_pos _ _ Hin'). cbn [bind]. fold (P (Z.of_nat k)).
    pose proof (flat_pos_range _ _ Hin') as R. fold (P (Z.of_nat k)) in R.
    assert (HN : Z.of_nat N = prod_list rsh) by (unfold N; lia).
    rewrite (znth_ok r _ 0) by lia. cbn [bind]. rewrite (znth_ok values _ 0) by lia. cbn [bind].
    rewrite upd_ok by lia. eexists. split; [reflexivity|]. split; [now rewrite set_nth_length|].
    intros p Hp'. rewrite nth_set_nth by lia. rewrite Nat2Z.inj_succ. unfold Z.succ.
    rewrite zsum_succ by lia.
    destruct (Nat.eqb_spec (Z.to_nat p) (Z.to_nat (P (Z.of_nat k)))) as [Ep|Ep].
    + assert (p = P (Z.of_nat k)) by lia. subst p. rewrite Z.eqb_refl.
      rewrite k_add_mod. rewrite Hr by lia. rewrite Zplus_mod_idemp_l. reflexivity.
    + replace (P (Z.of_nat k) =? p) with false by lia. rewrite Z.add_0_r. apply Hr. lia.
  - destruct HI as (Lr & Hr). exists r. split; [exact E|]. split; [exact Lr|].
    intros ridx Hridx. unfold get. pose proof (flat_pos_range _ _ Hridx) as R.
    rewrite Hr by (unfold N; lia). f_equal.
    replace (Z.of_nat (length values)) with (prod_list sh) by lia.
    rewrite zsum_over_indices by auto. unfold sum_axes_at. apply list_sum_z_map_ext.
    intros idx Hidx. pose proof (all_indices_in_shape sh Hv) as Hall. rewrite Forall_forall in Hall.
    specialize (Hall idx Hidx). unfold P. rewrite unravel_flat_pos by auto.
    pose proof (drop_axes_in_shape axes _ _ Hall 0) as Hd. fold rsh in Hd.
    destruct (list_eqb Z.eqb (drop_axes 0 axes idx) ridx) eqn:Eq.
    + apply list_eqb_eq in Eq; [|intros; lia]. rewrite Eq, Z.eqb_refl. reflexivity.
    + destruct (Z.eqb_spec (flat_pos (drop_axes 0 axes idx) rsh) (flat_pos ridx rsh)) as [Ef|Ef]; [|reflexivity].
      apply flat_pos_inj in Ef; auto. rewrite Ef in Eq.
      rewrite list_eqb_refl in Eq by (intros; lia). discriminate.
Qed.

Theorem sum_axes_spec sh st0 st axes values :
  valid_shape sh -> axes <> [] -> length values = Z.to_nat (prod_list sh) ->
  let rsh := drop_axes 0 axes sh in
  exists r, eval_sum (TArray sh st0) (TArray rsh st) axes (VArr values) = Ok (VArr r) /\
    length r = Z.to_nat (prod_list rsh) /\
    forall ridx, in_shape ridx rsh -> get r rsh ridx = sum_axes_at values sh axes ridx mod modulus st.
Proof.
  intros Hv Ha Hl rsh. destruct (sum_loop st sh axes values Hv Hl) as (r & E & Lr & Hr).
  exists r. split; [|split; [exact Lr|exact Hr]].
  unfold eval_sum. cbn [arr_of bind is_arr negb shape_of].
  destruct axes as [|a0 ax]; [congruence|]. fold rsh. unfold rsh in E |- *. rewrite E. reflexivity.
Qed.

(* ------------------------------------------------------------------ cumulative sum *)
Lemma set_nth_in_shape idx sh : in_shape idx sh -> forall axis t,
  (axis < length sh)%nat -> 0 <= t < nth axis sh 0 -> in_shape (set_nth idx axis t) sh.
Proof.
  induction 1 as [|x d idx sh Hx Hin IH]; intros [|k] t Hk Ht; cbn in *; try lia.
  - constructor; auto.
  - constructor; auto. apply IH; auto. lia.
Qed.

Lemma flat_pos_set_nth_lt idx sh : in_shape idx sh -> forall axis t,
  (axis < length sh)%nat -> 0 <= t < nth axis idx 0 ->
  flat_pos (set_nth idx axis t) sh < flat_pos idx sh.
Proof.
  induction 1 as [|x d idx sh Hx Hin IH]; intros [|k] t Hk Ht; cbn [set_nth flat_pos nth length] in *; try lia.
  - pose proof (prod_list_pos sh (in_shape_valid _ _ Hin)). nia.
  - specialize (IH k t ltac:(lia) Ht). lia.
Qed.

Lemma set_nth_set_nth {A} (l : list A) i a b : set_nth (set_nth l i a) i b = set_nth l i b.
Proof. revert i; induction l as [|x l IH]; intros [|i]; cbn; auto. now rewrite IH. Qed.

Lemma set_nth_nth_id {A} (l : list A) i d : (i < length l)%nat -> set_nth l i (nth i l d) = l.
Proof. revert i; induction l as [|x l IH]; intros [|i] H; cbn in *; try lia; auto. rewrite IH by lia. reflexivity. Qed.

Theorem cumsum_spec sh st axis values :
  valid_shape sh -> 0 <= axis < Z.of_nat (length sh) -> length values = Z.to_nat (prod_list sh) ->
  Forall (fun e => 0 <= e < modulus st) values ->
  exists r, eval_cum_sum (TArray sh st) axis (VArr values) = Ok (VArr r) /\
    length r = length values /\
    forall idx, in_shape idx sh ->
      get r sh idx = cumsum_at values sh (Z.to_nat axis) idx mod modulus st.
Proof.
  intros Hv Hax Hl Hrange. pose proof (modulus_pos st) as Hm. pose proof (prod_list_pos sh Hv) as Hp.
  set (ax := Z.to_nat axis).
  set (C := fun i => cumsum_at values sh ax (unravel i sh) mod modulus st).
  set (n := length values).
  set (Inv := fun (k : nat) (out : list Z) =>
     length out = n /\ forall i, 0 <= i < Z.of_nat n ->
       nth (Z.to_nat i) out 0 = if i <? Z.of_nat k then C i else nth (Z.to_nat i) values 0).
  destruct (fold_left_result_inv
    (fun out i =>
                     let* index := number_to_index i sh in
                     let* a := znth index axis in
                     if 0 <? a then
                       let* index' := upd index axis (a - 1) in
                       let* j := index_to_number index' sh in
                       let* oi := znth out i in let* oj := znth out j in
                       upd out i (k_add st oi oj)
                     else Ok out) Inv n values) as (r & E & HI).
  - split; [reflexivity|]. intros i Hi. replace (i <? Z.of_nat 0) with false by lia. reflexivity.
  - intros k out Hk (Lo & Ho).
    destruct (number_to_index_unravel sh (Z.of_nat k) Hv ltac:(lia)) as (E1 & Hin & Hf).
    rewrite E1. cbn [bind]. set (idx := unravel (Z.of_nat k) sh) in *.
    pose proof (in_shape_length _ _ Hin) as Li.
    rewrite (znth_ok idx axis 0) by lia. cbn [bind]. fold ax.
    pose proof (in_shape_nth idx sh ax Hin ltac:(lia)) as Ra.
    set (a := nth ax idx 0) in *.
    assert (Ck : C (Z.of_nat k) =
                 (zsum (fun t => get values sh (set_nth idx ax t)) a + nth k values 0) mod modulus st).
    { unfold C. fold idx. unfold cumsum_at. fold a. rewrite zsum_succ by lia.
      rewrite (zsum_ext _ (fun t => get values sh (set_nth idx ax t))) by (intros; now rewrite set_axis_set_nth).
      f_equal. f_equal. rewrite set_axis_set_nth. unfold a. rewrite set_nth_nth_id by lia.
      unfold get. rewrite Hf. now rewrite Nat2Z.id. }
    destruct (0 <? a) eqn:Ea.
    + rewrite upd_ok by lia. cbn [bind]. fold ax.
      assert (Hin' : in_shape (set_nth idx ax (a - 1)) sh) by (apply set_nth_in_shape; auto; lia).
      rewrite (index_to_number_flat_pos _ _ Hin'). cbn [bind].
      pose proof (flat_pos_range _ _ Hin') as Rj.
      pose proof (flat_pos_set_nth_lt idx sh Hin ax (a - 1) ltac:(lia) ltac:(fold a; lia)) as Lj.
      rewrite Hf in Lj. set (j := flat_pos (set_nth idx ax (a - 1)) sh) in *.
      rewrite (znth_ok out (Z.of_nat k) 0) by lia. cbn [bind].
      rewrite (znth_ok out j 0) by lia. cbn [bind].
      rewrite upd_ok by lia. eexists. split; [reflexivity|]. split; [now rewrite set_nth_length|].
      intros i Hi. rewrite nth_set_nth by lia.
      destruct (Nat.eqb_spec (Z.to_nat i) (Z.to_nat (Z.of_nat k))) as [Ei|Ei].
      * assert (i = Z.of_nat k) by lia. subst i. replace (Z.of_nat k <? Z.of_nat (S k)) with true by lia.
        rewrite Ck. rewrite k_add_mod. rewrite (Ho (Z.of_nat k)) by lia.
        replace (Z.of_nat k <? Z.of_nat k) with false by lia.
        rewrite (Ho j) by lia. replace (j <? Z.of_nat k) with true by lia.
        unfold C. unfold j at 1. rewrite unravel_flat_pos by auto. unfold cumsum_at.
        rewrite (nth_set_nth idx ax ax (a - 1) 0) by lia. rewrite Nat.eqb_refl.
        replace (a - 1 + 1) with a by lia.
        rewrite (zsum_ext _ (fun t => get values sh (set_nth idx ax t)))
          by (intros; now rewrite set_axis_set_nth, set_nth_set_nth).
        rewrite Nat2Z.id. rewrite Zplus_mod_idemp_r. f_equal. lia.
      * rewrite Ho by lia. replace (i <? Z.of_nat (S k)) with (i <? Z.of_nat k) by lia. reflexivity.
    + exists out. split; [reflexivity|]. split; [exact Lo|].
      intros i Hi. rewrite Ho by lia.
      destruct (Z.eq_dec i (Z.of_nat k)) as [->|Ne].
      * replace (Z.of_nat k <? Z.of_nat k) with false by lia.
        replace (Z.of_nat k <? Z.of_nat (S k)) with true by lia.
        rewrite Ck. assert (a = 0) by lia. replace a with 0 by lia. rewrite zsum_0. rewrite Z.add_0_l.
        rewrite Nat2Z.id. rewrite Forall_forall in Hrange.
        symmetry. apply Z.mod_small. apply Hrange. apply nth_In. lia.
      * replace (i <? Z.of_nat (S k)) with (i <? Z.of_nat k) by lia. reflexivity.
  - destruct HI as (Lr & Hr). exists r. split; [|split; [exact Lr|]].
    + unfold eval_cum_sum. cbn [arr_of bind]. fold n. rewrite E. reflexivity.
    + intros idx Hin. unfold get. pose proof (flat_pos_range _ _ Hin) as R.
      rewrite Hr by lia. replace (flat_pos idx sh <? Z.of_nat n) with true by lia.
      unfold C. now rewrite unravel_flat_pos.
Qed.

(* ------------------------------------------------------------------ node-level statements *)
Lemma elementwise_spec_ext f g a sa b sb r rs :
  (forall x y, f x y = g x y) -> elementwise_spec f a sa b sb r rs -> elementwise_spec g a sa b sb r rs.
Proof. intros H (L & S). split; [exact L|]. intros idx Hin. rewrite <- H. now apply S. Qed.

Definition arith_hyps (t0 t1 tr : ty) (a b : list Z) : Prop :=
  is_leaf t0 = true /\ is_leaf t1 = true /\ st_of t0 = st_of t1 /\
  bcast_to (dims t0) (dims tr) /\ bcast_to (dims t1) (dims tr) /\
  length a = Z.to_nat (prod_list (dims t0)) /\ length b = Z.to_nat (prod_list (dims t1)).

Lemma arith_node_spec k f t0 t1 tr a b :
  (forall st x y, k st x y = f x y mod modulus st) ->
  arith_hyps t0 t1 tr a b ->
  exists r, eval_arith k t0 t1 tr (VArr a) (VArr b) = Ok (VArr r) /\
    elementwise_spec (fun x y => f x y mod modulus (st_of t0)) a (dims t0) b (dims t1) r (dims tr).
Proof.
  intros Hk (L0 & L1 & Hst & B0 & B1 & La & Lb).
  destruct (arith_spec k t0 t1 tr a b L0 L1 B0 B1 La Lb) as (r & E & S).
  exists r. split; [exact E|]. eapply elementwise_spec_ext; [|exact S].
  intros x y. cbv beta. rewrite Hk. now rewrite arith_st_same.
Qed.

(* Per-operation specification proofs (C10), part 1: broadcasting, elementwise arithmetic,
   sum, cumulative sum. *)
From CC Require Import Base.Prelude Base.Scalar Base.Ty Base.Shape Graph.Value Graph.IR Graph.Eval
  Proofs.EvalProofs Graph.Spec Proofs.EvalSpecBase.

(* ------------------------------------------------------------------ broadcasting *)
Lemma bidx_in_shape idx rs : in_shape idx rs -> forall s, bcast_dims s rs -> in_shape (bidx idx s) s.
Proof.
  induction 1 as [|x r idx rs Hx Hin IH]; intros s Hb; inversion Hb; subst; cbn [bidx]; constructor; auto.
  destruct (d =? 1) eqn:E; lia.
Qed.

Lemma index_to_number_aux_bcast idx rs : in_shape idx rs -> forall s, bcast_dims s rs -> forall acc,
  index_to_number_aux acc idx s = Ok (acc * prod_list s + flat_pos (bidx idx s) s).
Proof.
  induction 1 as [|x r idx rs Hx Hin IH]; intros s Hb acc; inversion Hb as [|d r' s' rs' Hd Hb']; subst.
  - cbn. f_equal. lia.
  - cbn [index_to_number_aux bidx flat_pos]. rewrite prod_list_cons.
    replace (d =? 0) with false by lia. rewrite IH by auto. f_equal.
    destruct (d =? 1) eqn:E.
    + assert (d = 1) by lia. subst d. rewrite Z.mod_1_r. ring.
    + assert (d = r) by lia. subst d. rewrite Z.mod_small by lia. ring.
Qed.

(* the implementation's `index % dim` trick is NumPy broadcasting *)
Lemma index_to_number_bcast idx rs s : in_shape idx rs -> bcast_dims s rs ->
  index_to_number idx s = Ok (flat_pos (bidx idx s) s).
Proof.
  intros H Hb. unfold index_to_number. rewrite (index_to_number_aux_bcast idx rs) by auto. f_equal; lia.
Qed.

Theorem broadcast_spec arr s rs :
  bcast_to s rs -> length arr = Z.to_nat (prod_list s) ->
  exists r, broadcast_to_shape arr s rs = Ok r /\ length r = Z.to_nat (prod_list rs) /\
    forall idx, in_shape idx rs -> get r rs idx = get arr s (bcast_index s rs idx).
Proof.
  intros (Hl & Hv & Hb) Ha. unfold broadcast_to_shape.
  replace (length rs <? length s)%nat with false by lia.
  apply (mapM_over_shape
           (fun iv => let* ix := index_to_number (skipn (length rs - length s) iv) s in znth arr ix)
           (fun idx => get arr s (bcast_index s rs idx))); [exact Hv|].
  intros idx Hin. unfold bcast_index.
  pose proof (in_shape_skipn (length rs - length s) _ _ Hin) as Hin'.
  rewrite (index_to_number_bcast _ _ _ Hin' Hb). cbn [bind].
  pose proof (flat_pos_range _ _ (bidx_in_shape _ _ Hin' _ Hb)) as R.
  rewrite (znth_ok _ _ 0) by lia. reflexivity.
Qed.

(* identity broadcast: same shape *)
Lemma bcast_dims_refl s : bcast_dims s s.
Proof. induction s; constructor; auto. Qed.
Lemma bcast_to_refl s : valid_shape s -> bcast_to s s.
Proof. intros H. split; [lia|]. split; [exact H|]. rewrite Nat.sub_diag. apply bcast_dims_refl. Qed.

(* ------------------------------------------------------------------ elementwise arithmetic *)
Definition arith_st (t0 t1 : ty) : scalar :=
  match t0, t1 with TScalar _, TArray _ s => s | _, _ => st_of t0 end.

Lemma arith_st_same t0 t1 : st_of t0 = st_of t1 -> arith_st t0 t1 = st_of t0.
Proof. intros H. unfold arith_st. destruct t0, t1; cbn in *; auto. Qed.

Lemma zip_broadcast_spec f a sa b sb rs :
  bcast_to sa rs -> bcast_to sb rs ->
  length a = Z.to_nat (prod_list sa) -> length b = Z.to_nat (prod_list sb) ->
  exists a' b', broadcast_to_shape a sa rs = Ok a' /\ broadcast_to_shape b sb rs = Ok b' /\
    elementwise_spec f a sa b sb (zip_with f a' b') rs.
Proof.
  intros Ba Bb La Lb.
  destruct (broadcast_spec a sa rs Ba La) as (a' & Ea & La' & Ga).
  destruct (broadcast_spec b sb rs Bb Lb) as (b' & Eb & Lb' & Gb).
  exists a', b'. split; [exact Ea|]. split; [exact Eb|]. split.
  - rewrite zip_with_length by lia. exact La'.
  - intros idx Hin. unfold get at 1.
    pose proof (flat_pos_range _ _ Hin) as R.
    rewrite (nth_zip_with f a' b' _ 0 0 0) by lia.
    specialize (Ga idx Hin). specialize (Gb idx Hin). unfold get at 1 in Ga. unfold get at 1 in Gb.
    now rewrite Ga, Gb.
Qed.

Theorem arith_spec k t0 t1 tr a b :
  is_leaf t0 = true -> is_leaf t1 = true ->
  bcast_to (dims t0) (dims tr) -> bcast_to (dims t1) (dims tr) ->
  length a = Z.to_nat (prod_list (dims t0)) -> length b = Z.to_nat (prod_list (dims t1)) ->
  exists r, eval_arith k t0 t1 tr (VArr a) (VArr b) = Ok (VArr r) /\
    elementwise_spec (k (arith_st t0 t1)) a (dims t0) b (dims t1) r (dims tr).
Proof.
  intros L0 L1 B0 B1 La Lb. unfold eval_arith. rewrite L0, L1. cbn [andb negb arr_of bind].
  destruct (zip_broadcast_spec (k (arith_st t0 t1)) a (dims t0) b (dims t1) (dims tr) B0 B1 La Lb)
    as (a' & b' & Ea & Eb & S).
  rewrite Ea, Eb. cbn [bind]. eexists. split; [reflexivity|exact S].
Qed.

Theorem mixed_spec t0 t1 tr a b :
  is_leaf t0 = true -> is_leaf t1 = true ->
  bcast_to (dims t0) (dims tr) -> bcast_to (dims t1) (dims tr) ->
  length a = Z.to_nat (prod_list (dims t0)) -> length b = Z.to_nat (prod_list (dims t1)) ->
  exists r, eval_mixed t0 t1 tr (VArr a) (VArr b) = Ok (VArr r) /\
    elementwise_spec (k_mul (st_of t0)) a (dims t0) b (dims t1) r (dims tr).
Proof.
  intros L0 L1 B0 B1 La Lb. unfold eval_mixed. rewrite L0, L1. cbn [andb negb arr_of bind].
  destruct (zip_broadcast_spec (k_mul (st_of t0)) a (dims t0) b (dims t1) (dims tr) B0 B1 La Lb)
    as (a' & b' & Ea & Eb & S).
  rewrite Ea, Eb. cbn [bind]. eexists. split; [reflexivity|exact S].
Qed.

(* ------------------------------------------------------------------ sum to a scalar *)
Theorem sum_scalar_spec sh st0 st axes values :
  eval_sum (TArray sh st0) (TScalar st) axes (VArr values)
  = Ok (VArr [list_sum_z values mod modulus st]).
Proof. unfold eval_sum. cbn [arr_of bind is_arr negb]. now rewrite fold_k_add_0. Qed.

(* C20 (a): the integer piecewise-linear evaluation equals, for ANY tables, the truncated value
   alpha_i * x + beta_i of the segment i it selects; hence it is within one unit (2^-p) of the
   exact rational value of that segment. *)
From CC Require Import Base.Prelude Model.Fixed Proofs.FixedBits.
Local Ltac Zify.zify_post_hook ::= Z.to_euclidean_division_equations.

Ltac ev c := let v := eval vm_compute in c in change c with v.

Lemma quot_spec : forall s D, 0 < D ->
  (0 <= s -> D * Z.quot s D <= s < D * Z.quot s D + D) /\
  (s <= 0 -> D * Z.quot s D - D < s <= D * Z.quot s D).
Proof. intros s D HD. split; intros Hs; lia. Qed.

Lemma quot_sign : forall s D, 0 < D ->
  (Z.quot s D < 0 <-> s <= - D) /\ (0 <= s -> 0 <= Z.quot s D <= s) /\ (s <= 0 -> s <= Z.quot s D <= 0).
Proof.
  intros s D HD. destruct (quot_spec s D HD) as [H1 H2].
  set (q := Z.quot s D) in *.
  destruct (Z.le_gt_cases 0 s) as [Hs|Hs].
  - specialize (H1 Hs). clear H2. repeat split; intros; try nia.
  - assert (Hs' : s <= 0) by lia. specialize (H2 Hs'). clear H1. repeat split; intros; try nia.
Qed.

Lemma quot_ge : forall s D P, 0 < D -> 0 < P -> (P <= Z.quot s D <-> P * D <= s).
Proof.
  intros s D P HD HP. destruct (quot_spec s D HD) as [H1 H2].
  destruct (quot_sign s D HD) as [H3 [H4 H5]].
  set (q := Z.quot s D) in *.
  destruct (Z.le_gt_cases 0 s) as [Hs|Hs].
  - specialize (H1 Hs). split; intros H.
    + assert (P * D <= q * D) by (apply Z.mul_le_mono_nonneg_r; lia). lia.
    + destruct (Z.le_gt_cases P q) as [|Hlt]; [assumption|exfalso].
      assert ((q + 1) * D <= P * D) by (apply Z.mul_le_mono_nonneg_r; lia). lia.
  - assert (Hs' : s <= 0) by lia. specialize (H5 Hs').
    assert (0 < P * D) by (apply Z.mul_pos_pos; lia). split; intros; lia.
Qed.

Lemma combine_masks : forall mainv leftv rightv msb any,
  word mainv -> word leftv -> word rightv -> bitp msb -> bitp any ->
  wadd 64 (wadd 64 (wmul 64 mainv (band (bnot msb) (bnot (band any (bnot msb))))) (wmul 64 leftv msb))
       (wmul 64 rightv (band any (bnot msb)))
  = if msb =? 1 then leftv else if any =? 1 then rightv else mainv.
Proof.
  intros m l r msb any Hm Hl Hr [H1|H1] [H2|H2]; subst msb any;
    match goal with
    | |- wadd 64 (wadd 64 (wmul 64 _ ?c1) (wmul 64 _ _)) (wmul 64 _ ?c3) = _ => ev c1; ev c3
    end;
    repeat match goal with |- context [?a =? 1] => ev (a =? 1) end; cbv iota;
    unfold word, wadd, wmul, wrap in *; pw; lia.
Qed.

Lemma firstn_In' : forall {A} n (l : list A) x, In x (firstn n l) -> In x l.
Proof.
  intros A; induction n; intros l x H; destruct l; cbn [firstn In] in *; try contradiction.
  destruct H as [H|H]; [left; exact H|right; apply IHn; exact H].
Qed.

Lemma pow_split : forall lb, 0 < lb < 62 -> 2 ^ lb * 2 ^ (63 - lb) = 2 ^ 63.
Proof. intros. rewrite <- Z.pow_add_r by lia. f_equal. lia. Qed.

Lemma pwl_eval_closed : forall p lb alphas betas L D x,
  0 <= p -> 0 < lb < 62 -> word x -> 0 < D ->
  Z.of_nat (length alphas) = 2 ^ lb + 2 -> Z.of_nat (length betas) = 2 ^ lb + 2 ->
  - 2 ^ 63 <= sv 64 x - L < 2 ^ 63 ->
  exists a b,
    nth_error alphas (Z.to_nat (pwl_segment lb L D x)) = Some a /\
    nth_error betas (Z.to_nat (pwl_segment lb L D x)) = Some b /\
    pwl_eval p lb alphas betas L D x = Ok (trunc 64 true (wrap 64 (a * sv 64 x + b)) (2 ^ p)).
Proof.
  intros p lb alphas betas L D x Hp Hlb Hx HD Hla Hlbt Hs.
  assert (HP : 0 < 2 ^ lb) by (apply Z.pow_pos_nonneg; lia).
  assert (HQ : 0 < 2 ^ (63 - lb)) by (apply Z.pow_pos_nonneg; lia).
  pose proof (pow_split lb Hlb) as HPQ.
  set (P := 2 ^ lb) in *. set (Q := 2 ^ (63 - lb)) in *.
  (* shifted and scaled words *)
  assert (Hshift : wsub 64 x (wrap 64 L) = wrap 64 (sv 64 x - L)).
  { unfold wsub. apply wrap_congr. unfold sv, wrap, word in *. change (64 - 1) with 63. pw.
    destruct (Z.ltb_spec x 9223372036854775808); lia. }
  set (s := sv 64 x - L) in *.
  set (q := Z.quot s D).
  destruct (quot_sign s D HD) as [Hq1 [Hq2 Hq3]]. fold q in Hq1, Hq2, Hq3.
  assert (Hq : - 2 ^ 63 <= q < 2 ^ 63) by lia.
  assert (Hseg : pwl_segment lb L D x = if q <? 0 then 0 else if P <=? q then P + 1 else q + 1).
  { unfold pwl_segment. rewrite Hshift, (sv_wrap_id s Hs). reflexivity. }
  assert (Hscaled : trunc 64 true (wsub 64 x (wrap 64 L)) D = wrap 64 q).
  { unfold trunc. rewrite Hshift, (sv_wrap_id s Hs). reflexivity. }
  (* potential values *)
  set (f := fun a b : Z => wadd 64 (wmul 64 x (wrap 64 a)) (wrap 64 b)).
  set (potential := zip_with f alphas betas).
  assert (Hlp : Z.of_nat (length potential) = P + 2).
  { unfold potential. rewrite zip_with_length by lia. exact Hla. }
  assert (Hwp : Forall word potential).
  { apply Forall_forall. intros v Hv. apply In_nth_error in Hv. destruct Hv as [n Hn].
    unfold potential in Hn. rewrite zip_with_nth in Hn.
    destruct (nth_error alphas n); [|discriminate]. destruct (nth_error betas n); [|discriminate].
    inversion Hn. unfold f, wadd. apply wrap_word. }
  assert (Hval : forall i v, nth_error potential i = Some v ->
            exists a b, nth_error alphas i = Some a /\ nth_error betas i = Some b /\
                        v = wrap 64 (a * sv 64 x + b)).
  { intros i v Hi. unfold potential in Hi. rewrite zip_with_nth in Hi.
    destruct (nth_error alphas i) as [a|]; [|discriminate].
    destruct (nth_error betas i) as [b|]; [|discriminate].
    exists a, b. split; [reflexivity|]. split; [reflexivity|].
    inversion Hi. unfold f, wadd, wmul. apply wrap_congr.
    unfold sv, wrap, word in *. change (64 - 1) with 63. pw.
    destruct (Z.ltb_spec x 9223372036854775808); lia. }
  (* the three candidates *)
  destruct potential as [|leftv rest] eqn:Hpot; [cbn [length] in Hlp; lia|].
  cbn [length] in Hlp.
  set (vals := firstn (Z.to_nat P) rest).
  assert (Hlv : length vals = Z.to_nat P).
  { unfold vals. rewrite firstn_length. lia. }
  set (scaled := wrap 64 q) in *.
  assert (Hwsc : word scaled) by apply wrap_word.
  set (low := firstn (Z.to_nat lb) (bits_of 64 scaled)).
  assert (Hlow : low = bits' (Z.to_nat lb) scaled).
  { unfold low. rewrite bits_of_eq. apply firstn_bits'. lia. }
  assert (Hmain : 0 <= from_bits low /\ exists mainv, tree_retrieve low vals = Ok mainv /\
            nth_error vals (Z.to_nat (from_bits low)) = Some mainv).
  { apply tree_retrieve_nth.
    - rewrite Hlow. apply bits'_bitp.
    - apply Forall_forall. intros v Hv. unfold vals in Hv. apply firstn_In' in Hv.
      inversion Hwp as [|? ? ? Hw2]; subst. eapply Forall_forall; [exact Hw2|exact Hv].
    - rewrite Hlv, Hlow, bits'_length. unfold P. rewrite Z2Nat.inj_pow by lia. reflexivity. }
  destruct Hmain as [Hfb [mainv [Hmain Hnth]]].
  assert (Hidx : from_bits low = scaled mod P).
  { rewrite Hlow, from_bits_bits'. unfold P. rewrite Z2Nat.id by lia. reflexivity. }
  destruct (rev (leftv :: rest)) as [|rightv rt] eqn:Hrev.
  { apply (f_equal (@length Z)) in Hrev. rewrite rev_length in Hrev. discriminate. }
  pose proof (rev_head_last _ _ _ Hrev) as Hright. cbn [length] in Hright.
  assert (Hwm : word mainv).
  { apply nth_error_In in Hnth. unfold vals in Hnth. apply firstn_In' in Hnth.
    inversion Hwp as [|? ? ? Hw2]; subst. eapply Forall_forall; [exact Hw2|exact Hnth]. }
  assert (Hwl : word leftv) by (inversion Hwp; assumption).
  assert (Hwr : word rightv).
  { eapply Forall_forall; [exact Hwp|]. eapply nth_error_In. exact Hright. }
  (* the mask bits *)
  set (msb := (scaled / 2 ^ 63) mod 2).
  set (high := firstn (Z.to_nat (63 - lb)) (skipn (Z.to_nat lb) (bits_of 64 scaled))).
  assert (Hhigh : high = bits' (Z.to_nat (63 - lb)) (scaled / P)).
  { unfold high. rewrite bits_of_eq. rewrite bits'_firstn_skipn by lia.
    unfold P. rewrite Z2Nat.id by lia. reflexivity. }
  set (any := if forallb (Z.eqb 0) high then 0 else 1).
  assert (Hmsb : bitp msb) by (unfold bitp, msb; lia).
  assert (Hany : bitp any) by (unfold bitp, any; destruct (forallb (Z.eqb 0) high); lia).
  assert (Heval : pwl_eval p lb alphas betas L D x =
            Ok (trunc 64 true (if msb =? 1 then leftv else if any =? 1 then rightv else mainv) (2 ^ p))).
  { unfold pwl_eval.
    destruct (Z.leb_spec D 0) as [?|_]; [lia|].
    rewrite Hla, Hlbt. fold P. rewrite Z.eqb_refl. cbn [negb orb].
    cbv zeta. fold f. fold potential. rewrite Hpot, Hscaled. fold scaled.
    cbn [skipn]. fold P. fold vals. fold low. rewrite Hmain. cbn [bind].
    rewrite Hrev. cbn [bind]. fold msb. fold high. fold any.
    rewrite (combine_masks mainv leftv rightv msb any Hwm Hwl Hwr Hmsb Hany). reflexivity. }
  rewrite Heval, Hseg.
  (* case analysis on q *)
  destruct (Z.ltb_spec q 0) as [Hneg|Hpos].
  - (* left *)
    assert (Hm1 : msb = 1).
    { unfold msb, scaled, wrap. pw. lia. }
    rewrite Hm1. ev (1 =? 1). cbv iota.
    destruct (Hval O leftv eq_refl) as [a [b [Ha [Hb Hv]]]].
    exists a, b. change (Z.to_nat 0) with O. rewrite Ha, Hb, Hv. auto.
  - assert (Hsc : scaled = q) by (unfold scaled, wrap; pw; lia).
    assert (Hm0 : msb = 0).
    { unfold msb. rewrite Hsc. pw. lia. }
    rewrite Hm0. ev (0 =? 1). cbv iota.
    assert (Hqp : 0 <= q / P < Q).
    { split; [apply Z.div_pos; lia|]. apply Z.div_lt_upper_bound; lia. }
    assert (Hany' : any = if P <=? q then 1 else 0).
    { unfold any. destruct (forallb (Z.eqb 0) high) eqn:Hf.
      - rewrite Hhigh in Hf. apply bits'_all_zero in Hf. rewrite Z2Nat.id in Hf by lia. fold Q in Hf.
        rewrite Hsc, Z.mod_small in Hf by lia.
        destruct (Z.leb_spec P q) as [Hge|Hlt]; [|reflexivity].
        exfalso. assert (1 <= q / P) by (apply Z.div_le_lower_bound; lia). lia.
      - destruct (Z.leb_spec P q) as [Hge|Hlt]; [reflexivity|].
        exfalso. assert (Hz : forallb (Z.eqb 0) high = true); [|congruence].
        rewrite Hhigh. apply bits'_all_zero. rewrite Hsc, Z.div_small by lia.
        apply Z.mod_0_l. apply Z.pow_nonzero; lia. }
    rewrite Hany'.
    destruct (Z.leb_spec P q) as [Hge|Hlt].
    + (* right *)
      ev (1 =? 1). cbv iota.
      replace (Z.to_nat (P + 1)) with (length rest - 0)%nat by lia.
      replace (length rest - 0)%nat with (S (length rest) - 1)%nat by lia.
      destruct (Hval _ rightv Hright) as [a [b [Ha [Hb Hv]]]].
      exists a, b. rewrite Ha, Hb, Hv. auto.
    + (* main *)
      ev (0 =? 1). cbv iota.
      rewrite Hidx, Hsc, Z.mod_small in Hnth by lia.
      unfold vals in Hnth. rewrite nth_error_firstn' in Hnth by lia.
      assert (Hn' : nth_error (leftv :: rest) (Z.to_nat (q + 1)) = Some mainv).
      { replace (Z.to_nat (q + 1)) with (S (Z.to_nat q)) by lia. exact Hnth. }
      destruct (Hval _ mainv Hn') as [a [b [Ha [Hb Hv]]]].
      exists a, b. rewrite Ha, Hb, Hv. auto.
Qed.

(* which inputs select which segment *)
Lemma pwl_segment_spec : forall lb L D x,
  0 < lb < 62 -> word x -> 0 < D -> - 2 ^ 63 <= sv 64 x - L < 2 ^ 63 ->
  let X := sv 64 x in let i := pwl_segment lb L D x in
  (X <= L - D -> i = 0) /\
  (L - D < X < L + D -> i = 1) /\
  (L <= X < L + 2 ^ lb * D -> 1 <= i <= 2 ^ lb /\ L + (i - 1) * D <= X < L + i * D) /\
  (L + 2 ^ lb * D <= X -> i = 2 ^ lb + 1).
Proof.
  intros lb L D x Hlb Hx HD Hs X i.
  assert (HP : 0 < 2 ^ lb) by (apply Z.pow_pos_nonneg; lia).
  assert (Hshift : wsub 64 x (wrap 64 L) = wrap 64 (sv 64 x - L)).
  { unfold wsub. apply wrap_congr. unfold sv, wrap, word in *. change (64 - 1) with 63. pw.
    destruct (Z.ltb_spec x 9223372036854775808); lia. }
  assert (Hi : i = let q := Z.quot (X - L) D in
                   if q <? 0 then 0 else if 2 ^ lb <=? q then 2 ^ lb + 1 else q + 1).
  { unfold i, pwl_segment. rewrite Hshift, (sv_wrap_id _ Hs). reflexivity. }
  set (s := X - L) in *. cbv zeta in Hi.
  destruct (quot_sign s D HD) as [Hq1 [Hq2 Hq3]].
  destruct (quot_spec s D HD) as [Hq4 Hq5].
  pose proof (quot_ge s D (2 ^ lb) HD HP) as Hq6.
  set (q := Z.quot s D) in *. set (P := 2 ^ lb) in *.
  assert (Es : s = X - L) by reflexivity.
  assert (HPD : 0 < P * D) by (apply Z.mul_pos_pos; lia).
  assert (HPD1 : 1 * D <= P * D) by (apply Z.mul_le_mono_nonneg_r; lia).
  destruct Hq1 as [Hq1a Hq1b]. destruct Hq6 as [Hq6a Hq6b].
  destruct (Z.ltb_spec q 0) as [Hneg|Hpos]; [|destruct (Z.leb_spec P q) as [Hge|Hlt]]; subst i.
  - specialize (Hq1a Hneg). repeat split; intros; lia.
  - specialize (Hq6a Hge). repeat split; intros; lia.
  - assert (Hn1 : ~ s <= - D) by (intro Hc; specialize (Hq1b Hc); lia).
    assert (Hn2 : ~ P * D <= s) by (intro Hc; specialize (Hq6b Hc); lia).
    destruct (Z.le_gt_cases 0 s) as [Hs0|Hs0].
    + specialize (Hq4 Hs0).
      assert (Hq0 : s < D -> q = 0).
      { intros Hc. destruct (Z.le_gt_cases q 0); [lia|].
        assert (D * 1 <= D * q) by (apply Z.mul_le_mono_nonneg_l; lia). lia. }
      repeat split; intros; lia.
    + assert (Hs' : s <= 0) by lia. specialize (Hq3 Hs').
      repeat split; intros; lia.
Qed.

Theorem pwl_int_close : forall p lb alphas betas L D x out,
  0 <= p -> 0 < lb < 62 -> word x ->
  - 2 ^ 63 <= sv 64 x - L < 2 ^ 63 ->
  pwl_eval p lb alphas betas L D x = Ok out ->
  0 < D /\
  exists a b,
    nth_error alphas (Z.to_nat (pwl_segment lb L D x)) = Some a /\
    nth_error betas (Z.to_nat (pwl_segment lb L D x)) = Some b /\
    (- 2 ^ 63 <= a * sv 64 x + b < 2 ^ 63 ->
       sv 64 out = Z.quot (a * sv 64 x + b) (2 ^ p) /\
       Z.abs (2 ^ p * sv 64 out - (a * sv 64 x + b)) < 2 ^ p).
Proof.
  intros p lb alphas betas L D x out Hp Hlb Hx Hs H.
  assert (Hpre : 0 < D /\ Z.of_nat (length alphas) = 2 ^ lb + 2 /\ Z.of_nat (length betas) = 2 ^ lb + 2).
  { unfold pwl_eval in H.
    destruct (Z.leb_spec D 0); [discriminate|].
    destruct (Z.eqb_spec (Z.of_nat (length alphas)) (2 ^ lb + 2));
      destruct (Z.eqb_spec (Z.of_nat (length betas)) (2 ^ lb + 2)); cbn [negb orb] in H;
      try discriminate. auto. }
  destruct Hpre as [HD [Hla Hlbt]]. split; [exact HD|].
  destruct (pwl_eval_closed p lb alphas betas L D x Hp Hlb Hx HD Hla Hlbt Hs) as [a [b [Ha [Hb He]]]].
  exists a, b. split; [exact Ha|]. split; [exact Hb|].
  intros Hv. rewrite He in H. inversion H as [Hout]. clear H He.
  set (v := a * sv 64 x + b) in *.
  assert (H2p : 0 < 2 ^ p) by (apply Z.pow_pos_nonneg; lia).
  destruct (quot_sign v (2 ^ p) H2p) as [_ [Hq2 Hq3]].
  destruct (quot_spec v (2 ^ p) H2p) as [Hq4 Hq5].
  unfold trunc. rewrite (sv_wrap_id v Hv).
  set (t := Z.quot v (2 ^ p)) in *.
  assert (Ht : - 2 ^ 63 <= t < 2 ^ 63) by lia.
  rewrite (sv_wrap_id t Ht). split; [reflexivity|].
  destruct (Z.le_gt_cases 0 v); lia.
Qed.

(* C09 preservation: Print, Assert, Get, ArrayToVector, VectorToArray, and the operations whose
   value eval_node does not compute (supplied on the tape: eval_node answers Err). *)
From CC Require Import Base.Prelude Base.Scalar Base.Ty Base.Shape Graph.Value Graph.IR Graph.Eval
  Graph.Typing Proofs.EvalProofs Proofs.TypingBase Proofs.TypingTuple Proofs.TypingArith
  Proofs.TypingBits.

(* eval_node's last arm: "Not implemented" for the operations read from the tape *)
Lemma preserves_random t0 : preserves (ORandom t0).
Proof. intros ts t vs _ _ _. exact I. Qed.
Lemma preserves_prf iv t0 : preserves (OPRF iv t0).
Proof. intros ts t vs _ _ _. exact I. Qed.
Lemma preserves_permutation_from_prf iv n : preserves (OPermutationFromPRF iv n).
Proof. intros ts t vs _ _ _. exact I. Qed.
Lemma preserves_random_permutation n : preserves (ORandomPermutation n).
Proof. intros ts t vs _ _ _. exact I. Qed.
Lemma preserves_cuckoo_to_permutation : preserves OCuckooToPermutation.
Proof. intros ts t vs _ _ _. exact I. Qed.
Lemma preserves_decompose_switching_map n : preserves (ODecomposeSwitchingMap n).
Proof. intros ts t vs _ _ _. exact I. Qed.

Lemma preserves_print msg : preserves (OPrint msg).
Proof.
  intros ts t vs Hu H HF. inv_infer H. apply zlen_eq in Harity.
  destruct (one_dep _ _ Harity HF) as (v & t0 & -> & -> & Hv & Hok).
  cbn [nth] in H. apply register_ok in H as [-> _]. cbn. exact Hv.
Qed.

Lemma preserves_assert msg : preserves (OAssert msg).
Proof.
  intros ts t vs Hu H HF. inv_infer H. apply zlen_eq in Harity.
  destruct (two_deps _ _ Harity HF) as (v0 & t0 & v1 & t1 & -> & -> & [Hv0 Hok0] & [Hv1 Hok1]).
  cbn [nth] in H. cbn [eval_node nth nth_res bind].
  destruct (negb (is_scalar t0) || negb (scalar_eqb (st_of t0) Bit)); [discriminate|].
  apply register_ok in H as [-> _].
  destruct v0 as [es|]; cbn [arr_of bind]; [|exact I].
  destruct es as [|x [|y r]]; try exact I. destruct (x =? 0); [exact I|]. exact Hv1.
Qed.

(* ------------------------------------------------------------------ Get *)
Lemma valid_shape_split k sh : valid_shape sh -> valid_shape (firstn k sh) /\ valid_shape (skipn k sh).
Proof. intros H. rewrite <- (firstn_skipn k sh) in H. now apply Forall_app in H. Qed.

Lemma prod_list_split k sh : prod_list sh = prod_list (firstn k sh) * prod_list (skipn k sh).
Proof. rewrite <- prod_list_app. now rewrite firstn_skipn. Qed.

Lemma slice_z_ok {A} (P : A -> Prop) (l : list A) from len :
  0 <= from -> 0 <= len -> from + len <= Z.of_nat (length l) -> Forall P l ->
  exists r, slice_z l from len = Ok r /\ Z.of_nat (length r) = len /\ Forall P r.
Proof.
  intros Hf Hl Hb F. unfold slice_z.
  replace ((from <? 0) || (len <? 0) || (Z.of_nat (length l) <? from + len)) with false by lia.
  eexists; split; [reflexivity|]. split.
  - rewrite firstn_length, skipn_length. lia.
  - apply Forall_forall. intros x Hx.
    assert (Hx' : In x (skipn (Z.to_nat from) l)).
    { rewrite <- (firstn_skipn (Z.to_nat len) (skipn (Z.to_nat from) l)). apply in_or_app. now left. }
    rewrite Forall_forall in F. apply F. rewrite <- (firstn_skipn (Z.to_nat from) l). apply in_or_app. now right.
Qed.

Lemma preserves_get idx : preserves (OGet idx).
Proof.
  intros ts t vs Hu H HF. inv_infer H. apply zlen_eq in Harity. cbn [op_u64] in Hu.
  destruct (one_dep _ _ Harity HF) as (v & t0 & -> & -> & Hv & Hok).
  cbn [nth] in H. cbn [eval_node nth nth_res bind].
  destruct t0 as [|os st0| | |]; try discriminate. cbn [is_arr negb shape_of st_of] in *.
  destruct (zlen os <? zlen idx) eqn:Lk; [discriminate|]. unfold zlen in Lk.
  destruct (forallb (fun p => fst p <? snd p) (combine idx os)); cbn [negb] in H; [|discriminate].
  destruct v as [es|]; [|discriminate]. apply has_type_array in Hv as [Le Fe].
  destruct (ty_ok_array _ _ Hok) as [Vos _].
  cbn [arr_of bind]. set (k := length idx) in *.
  destruct (valid_shape_split k os Vos) as [Vf Vs].
  pose proof (prod_list_pos _ Vf) as Pf. pose proof (prod_list_pos _ Vs) as Ps.
  pose proof (prod_list_split k os) as Pm.
  destruct (index_to_number_total (firstn k os) idx Vf) as (num & -> & Bn).
  { rewrite firstn_length. lia. }
  cbn [bind].
  replace (length os <? k)%nat with false by (symmetry; apply Nat.ltb_ge; lia).
  replace (prod_list (skipn k os) <=? 0) with false by lia.
  assert (Hq : Z.of_nat (length es) / prod_list (skipn k os) = prod_list (firstn k os)).
  { rewrite Le, Pm. apply Z.div_mul. lia. }
  rewrite Hq. replace (prod_list (firstn k os) <=? num) with false by lia.
  destruct (slice_z_ok (fun e => 0 <= e < modulus st0) es (num * prod_list (skipn k os)) (prod_list (skipn k os)))
    as (r & -> & Lr & Fr); try nia; auto.
  cbn [bind safe_typed].
  destruct (zlen idx =? zlen os) eqn:Full; apply register_ok in H as [-> _].
  - apply has_type_scalar. split; [|exact Fr].
    unfold zlen in Full. rewrite skipn_all2 in Lr by lia. cbn in Lr. lia.
  - apply has_type_array. split; [exact Lr| exact Fr].
Qed.

(* ------------------------------------------------------------------ ArrayToVector / VectorToArray *)
Lemma preserves_array_to_vector : preserves OArrayToVector.
Proof.
  intros ts t vs Hu H HF. inv_infer H. apply zlen_eq in Harity.
  destruct (one_dep _ _ Harity HF) as (v & t0 & -> & -> & Hv & Hok).
  cbn [nth] in H. cbn [eval_node nth nth_res bind].
  destruct t0 as [|sh st0| | |]; try discriminate. cbn [is_arr negb shape_of st_of] in *.
  apply bind_ok in H as (d0 & Ed & H).
  destruct v as [es|]; [|discriminate]. apply has_type_array in Hv as [Le Fe].
  destruct (ty_ok_array _ _ Hok) as [Vsh Nsh].
  destruct sh as [|d sh']; [congruence|]. cbn in Ed. inversion Ed; subst d0. clear Ed.
  cbn [tl]. inversion Vsh as [|? ? Hd Vtl]; subst.
  pose proof (prod_list_pos _ Vtl) as Pt.
  cbn [arr_of bind]. replace (prod_list sh' <=? 0) with false by lia.
  cbn [prod_list fold_right] in Le. change (fold_right Z.mul 1 sh') with (prod_list sh') in Le.
  set (w := Z.to_nat (prod_list sh')).
  change ((fix go (fuel : nat) (l : list Z) {struct fuel} : list (list Z) :=
             match fuel with
             | O => []
             | S f => if (length l <? w)%nat then [] else firstn w l :: go f (skipn w l)
             end) (length es) es) with (chunks w (length es) es).
  destruct (chunks_spec w ltac:(lia) (Z.to_nat d) (length es) es) as [Lc Fc]; [nia| nia|].
  cbn [safe_typed].
  assert (G : forall et, is_leaf et = true -> prod_list (dims et) = prod_list sh' -> st_of et = st0 ->
              has_type (VTup (map VArr (chunks w (length es) es))) (TVector d et) = true).
  { intros et Hlf Hpr Hst. apply has_type_vector. rewrite map_length, Lc. split; [lia|].
    apply Forall_forall. intros c Hc. apply in_map_iff in Hc as (c0 & <- & Hc0).
    rewrite Forall_forall in Fc. destruct (Fc c0 Hc0) as [Lc0 Ic0].
    apply leaf_has_type; auto; [lia|]. rewrite Hst.
    apply Forall_forall. intros x Hx. rewrite Forall_forall in Fe. auto. }
  destruct (zlen (d :: sh') =? 1) eqn:L1; apply register_ok in H as [-> _].
  - apply G; auto. destruct sh'; [reflexivity| unfold zlen in L1; cbn in L1; lia].
  - apply G; auto.
Qed.

Lemma concat_length_const {A} (ls : list (list A)) k :
  Forall (fun l => length l = k) ls -> length (concat ls) = (k * length ls)%nat.
Proof. induction 1 as [|l ls Hl _ IH]; cbn; [lia|]. rewrite app_length, Hl, IH. lia. Qed.

Lemma preserves_vector_to_array : preserves OVectorToArray.
Proof.
  intros ts t vs Hu H HF. inv_infer H. apply zlen_eq in Harity.
  destruct (one_dep _ _ Harity HF) as (v & t0 & -> & -> & Hv & Hok).
  cbn [nth] in H. cbn [eval_node nth nth_res bind].
  destruct t0 as [| |len et| |]; try discriminate.
  destruct (len =? 0) eqn:L0; [discriminate|].
  destruct (is_leaf et) eqn:Hlf; cbn [negb] in H; [|discriminate].
  destruct (has_type_tup_inv v (TVector len et) eq_refl Hv) as (l & ->). cbn [tup_of bind].
  apply has_type_vector in Hv as [Ll Fl].
  assert (Hoke : ty_ok et = true).
  { unfold ty_ok in *. cbn [ty_valid ty_u64] in Hok. btrue. bsolve. }
  destruct (dims_valid et Hlf Hoke) as [Vet _]. pose proof (prod_list_pos _ Vet) as Pet.
  match goal with |- context [mapM ?g l] =>
    destruct (mapM_ok g (fun es => Z.of_nat (length es) = prod_list (dims et) /\
                                   Forall (fun e => 0 <= e < modulus (st_of et)) es) l) as (parts & -> & Lp & Fp) end.
  { intros x Hx. rewrite Forall_forall in Fl.
    destruct (has_type_leaf x et Hlf (Fl x Hx)) as (es & -> & Les & Fes). cbn. eauto. }
  cbn [bind safe_typed].
  assert (Lc : Z.of_nat (length (concat parts)) = len * prod_list (dims et)).
  { rewrite (concat_length_const parts (Z.to_nat (prod_list (dims et)))).
    - nia.
    - eapply Forall_impl; [|exact Fp]. cbn. intros a [La _]. lia. }
  assert (Fc : Forall (fun e => 0 <= e < modulus (st_of et)) (concat parts)).
  { apply Forall_forall. intros e He. apply in_concat in He as (p & Hp & He).
    rewrite Forall_forall in Fp. destruct (Fp p Hp) as [_ F]. rewrite Forall_forall in F. auto. }
  destruct et as [s|sh s| | |]; try discriminate; cbn [is_scalar dims st_of shape_of] in *;
    apply register_ok in H as [-> _]; apply has_type_array; (split; [|exact Fc]).
  - rewrite Lc. cbn [prod_list fold_right]. lia.
  - rewrite Lc. cbn [prod_list fold_right]. reflexivity.
Qed.

(* C01 deep model, proofs, part 6: the gadget specifications [gadget_sem] used by the ring reading
   (Model/MpcCompileSem.v) are what the gadget BODIES compute: for AddMPC, SubtractMPC and the
   bilinear gadgets (Multiply, Dot, Matmul, Gemm) the graph built by [gadget_body] (the mirror of
   CustomOperationBody::instantiate, tied literally to the code by T:gadget-literal), evaluated by
   the same ring reading on the two argument values, returns [gadget_sem] of these values.
   No algebra is involved: the two sides are syntactically the same ring expression. *)
From CC Require Import Base.Prelude Base.Scalar Base.Ty Base.Shape Graph.Value Graph.IR Graph.Eval Graph.Typing
  Model.RingEval Model.MpcCompile Model.MpcCompileSem Proofs.MpcCompileBase Proofs.MpcCompileTyping.

Lemma bind_assoc {A B C} (r : result A) (f : A -> result B) (g : B -> result C) :
  bind (bind r f) g = bind r (fun x => bind (f x) g).
Proof. destruct r; reflexivity. Qed.

(* forward symbolic execution of a chain of emits: every emit that succeeded appended one node *)
Ltac fwd H :=
  repeat
    (cbv beta iota in H;
     lazymatch type of H with
     | bind (bind _ _) _ = Ok _ => rewrite bind_assoc in H
     | bind (emit ?o ?d ?a ?out) _ = Ok _ =>
         let E := fresh "E" in let Hi := fresh "Hi" in let Hm := fresh "Hm" in let tt := fresh "t" in
         destruct (emit o d a out) as [[? ?]| | |] eqn:E; [|discriminate H ..];
         apply emit_spec in E; destruct E as (? & tt & Hm & Hi & -> & ->);
         try (cbn [mapM] in Hm; injection Hm as <-; apply infer_input in Hi; subst tt);
         try clear Hm; cbn [bind] in H
     | bind (check_private_tuple ?v) _ = Ok _ =>
         destruct (check_private_tuple v) as [[]| | |]; [|discriminate H ..]; cbn [bind] in H
     | bind (out_ty ?o ?d) _ = Ok _ =>
         let r := eval vm_compute in (out_ty o d) in change (out_ty o d) with r in H; cbn [bind] in H
     | bind (znth ?l ?i) _ = Ok _ =>
         let r := eval vm_compute in (znth l i) in change (znth l i) with r in H; cbn [bind] in H
     | bind (Ok _) _ = Ok _ => cbn [bind] in H
     | bind (if (?a =? ?b) then _ else _) _ = Ok _ =>
         let v := eval vm_compute in (a =? b) in change (a =? b) with v in H
     | bind (mapS _ _ _) _ = Ok _ => cbn [mapS] in H
     | emit ?o ?d ?a ?out = Ok _ =>
         apply emit_spec in H; destruct H as (? & ? & _ & _ & ? & ?)
     | (if (?a =? ?b) then _ else _) = Ok _ =>
         let v := eval vm_compute in (a =? b) in change (a =? b) with v in H
     | mapS _ _ _ = Ok _ => cbn [mapS] in H
     end).

Section Gadgets.
  Variable R : Type.
  Variables (r0 : R) (radd rmul rsub : R -> R -> R).
  Variable atom : Z -> R.
  Variable catom : value -> R.
  Variable one : R.
  Variable lin : op -> R -> R.
  Variable bil : op -> R -> R -> R.
  Variable nlin : op -> list R -> R.

  Notation rv := (rval R).
  Notation L := (RLeaf R).
  Notation T3 := (T3 R).
  Notation deval := (deval R r0 radd rmul rsub atom catom one lin bil nlin).
  Notation gsem := (gadget_sem R r0 radd rmul rsub bil).

  Notation shape_ok := (shape_ok R).

  Theorem gadget_body_sem g t0 t1 body oid va vb :
    elem_gadget g = true ->
    gadget_body g [t0; t1] = Ok (body, oid) ->
    shape_ok t0 va -> shape_ok t1 vb ->
    exists env v, deval body [va; vb] = Some env /\ znth env oid = Ok v /\ gsem g [va; vb] = Some v.
  Proof.
    intros Hg H Sa Sb. unfold gadget_body in H.
    destruct t0 as [s0|sh0 s0|n0 e0|v0|f0]; try contradiction; destruct t1 as [s1|sh1 s1|n1 e1|v1|f1]; try contradiction;
      cbn [shape_ok] in Sa, Sb;
      try (destruct Sa as (a0 & a1 & a2 & ->)); try (destruct Sa as (x & ->));
      try (destruct Sb as (b0 & b1 & b2 & ->)); try (destruct Sb as (y & ->));
      destruct g as [| |p]; try (destruct p; try discriminate Hg);
      unfold subtract_body, adder_body, mixed_product_body, private_product_body, parties in H;
      fwd H; subst;
      (eexists; eexists; split; [reflexivity | split; reflexivity]).
  Qed.
End Gadgets.

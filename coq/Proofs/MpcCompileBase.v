(* C01 deep model, proofs, part 1: list indexing, the evaluation invariant [evals], and what one
   emitted node does to the output graph and to its evaluation. *)
From Coq Require Import Ring.
From CC Require Import Base.Prelude Base.Scalar Base.Ty Base.Shape Graph.Value Graph.IR Graph.Eval Graph.Typing
  Model.RingEval Model.MpcCompile Model.MpcCompileSem.

(* ---------- result / bind inversion ---------- *)
Lemma bind_ok {A B} (r : result A) (f : A -> result B) y :
  bind r f = Ok y -> exists x, r = Ok x /\ f x = Ok y.
Proof. destruct r; cbn; try discriminate. eauto. Qed.

Ltac inv_bind H :=
  cbv beta in H;
  lazymatch type of H with
  | bind ?r ?f = Ok ?y =>
      let x := fresh "x" in let E := fresh "E" in
      apply bind_ok in H; destruct H as (x & E & H);
      try inv_bind E
  | _ => idtac
  end.

(* ---------- zlen / znth ---------- *)
Lemma zlen_app {A} (l l' : list A) : zlen (l ++ l') = zlen l + zlen l'.
Proof. unfold zlen. rewrite app_length. lia. Qed.
Lemma zlen_nonneg {A} (l : list A) : 0 <= zlen l.
Proof. unfold zlen. lia. Qed.
Lemma zlen_one {A} (x : A) : zlen [x] = 1.
Proof. reflexivity. Qed.
Lemma zlen_nil {A} : zlen (@nil A) = 0.
Proof. reflexivity. Qed.

Lemma nth_res_lt {A} (l : list A) n x : nth_res l n = Ok x -> (n < length l)%nat.
Proof. revert n; induction l as [|a l IH]; intros [|n]; cbn; try discriminate; try lia. intros H. apply IH in H. lia. Qed.
Lemma nth_res_app_l {A} (l l' : list A) n x : nth_res l n = Ok x -> nth_res (l ++ l') n = Ok x.
Proof. revert n; induction l as [|a l IH]; intros [|n]; cbn; try discriminate; auto. Qed.
Lemma nth_res_last {A} (l : list A) x : nth_res (l ++ [x]) (length l) = Ok x.
Proof. induction l; cbn; auto. Qed.
Lemma nth_res_some {A} (l : list A) n : (n < length l)%nat -> exists x, nth_res l n = Ok x.
Proof. revert n; induction l as [|a l IH]; intros [|n]; cbn; try lia; eauto. intros. apply IH. lia. Qed.
Lemma nth_res_app_r {A} (l l' : list A) n : nth_res (l ++ l') (length l + n) = nth_res l' n.
Proof. induction l; cbn; auto. Qed.

Lemma znth_range {A} (l : list A) i x : znth l i = Ok x -> 0 <= i < zlen l.
Proof.
  unfold znth, zlen. destruct (i <? 0) eqn:E; [discriminate|]. intros H. apply nth_res_lt in H. lia.
Qed.
Lemma znth_app_l {A} (l l' : list A) i x : znth l i = Ok x -> znth (l ++ l') i = Ok x.
Proof. unfold znth. destruct (i <? 0); [discriminate|]. apply nth_res_app_l. Qed.
Lemma znth_last {A} (l : list A) x : znth (l ++ [x]) (zlen l) = Ok x.
Proof.
  unfold znth, zlen. destruct (Z.of_nat (length l) <? 0) eqn:E; [lia|].
  rewrite Nat2Z.id. apply nth_res_last.
Qed.
Lemma znth_some {A} (l : list A) i : 0 <= i < zlen l -> exists x, znth l i = Ok x.
Proof.
  unfold znth, zlen. intros H. destruct (i <? 0) eqn:E; [lia|]. apply nth_res_some. lia.
Qed.
Lemma znth_app_r {A} (l l' : list A) i : 0 <= i -> znth (l ++ l') (zlen l + i) = znth l' i.
Proof.
  unfold znth, zlen. intros H. destruct (Z.of_nat (length l) + i <? 0) eqn:E; [lia|].
  destruct (i <? 0) eqn:E'; [lia|].
  replace (Z.to_nat (Z.of_nat (length l) + i)) with (length l + Z.to_nat i)%nat by lia.
  apply nth_res_app_r.
Qed.
Lemma znth_inj_app {A} (l l' : list A) i x : znth (l ++ l') i = Ok x -> i < zlen l -> znth l i = Ok x.
Proof.
  intros H Hi. pose proof (znth_range _ _ _ H) as Hr.
  destruct (znth_some l i) as (y & Hy); [lia|]. rewrite (znth_app_l _ l' _ _ Hy) in H. congruence.
Qed.
Lemma znth_3 {A} (a b c : A) i x : znth [a; b; c] i = Ok x -> (i = 0 /\ x = a) \/ (i = 1 /\ x = b) \/ (i = 2 /\ x = c).
Proof.
  intros H. pose proof (znth_range _ _ _ H) as Hr. unfold zlen in Hr; cbn in Hr.
  assert (i = 0 \/ i = 1 \/ i = 2) as [-> | [-> | ->]] by lia; cbn in H; inversion H; auto.
Qed.

Lemma mapM_app {A B} (f : A -> result B) l l' :
  mapM f (l ++ l') = let* a := mapM f l in let* b := mapM f l' in Ok (a ++ b).
Proof.
  induction l as [|x l IH]; cbn.
  - destruct (mapM f l'); reflexivity.
  - destruct (f x); cbn; auto. rewrite IH. destruct (mapM f l); cbn; auto. destruct (mapM f l'); reflexivity.
Qed.
Lemma mapM_ok_length {A B} (f : A -> result B) l r : mapM f l = Ok r -> length r = length l.
Proof.
  revert r; induction l as [|x l IH]; cbn; intros r H.
  - inversion H; reflexivity.
  - inv_bind H. inv_bind H. inversion H; subst. cbn. f_equal. eauto.
Qed.
Lemma mapM_ok_forall {A B} (f : A -> result B) l r :
  mapM f l = Ok r -> Forall (fun x => exists y, f x = Ok y) l.
Proof.
  revert r; induction l as [|x l IH]; cbn; intros r H; constructor.
  - inv_bind H. eauto.
  - inv_bind H. inv_bind H. eauto.
Qed.
Lemma mapM_ext_forall {A B} (f g : A -> result B) l :
  Forall (fun x => f x = g x) l -> mapM f l = mapM g l.
Proof. induction 1 as [|x l H _ IH]; cbn; [reflexivity|]. now rewrite H, IH. Qed.

(* ---------- static relations between output graphs ---------- *)
Definition nsame (a b : node) : Prop :=
  n_op a = n_op b /\ n_deps a = n_deps b /\ n_ty a = n_ty b /\ incl (n_annots a) (n_annots b).
Lemma nsame_refl a : nsame a a.
Proof. repeat split; auto using incl_refl. Qed.
Lemma nsame_trans a b c : nsame a b -> nsame b c -> nsame a c.
Proof. intros (?&?&?&?) (?&?&?&?). repeat split; try congruence. eauto using incl_tran. Qed.

(* [out'] keeps every node of [out] (same operation, dependencies and type; more annotations) *)
Definition ext (out out' : list node) : Prop :=
  zlen out <= zlen out' /\
  forall k nd, znth out k = Ok nd -> exists nd', znth out' k = Ok nd' /\ nsame nd nd'.
Lemma ext_refl out : ext out out.
Proof. split; [lia|]. eauto using nsame_refl. Qed.
Lemma ext_trans a b c : ext a b -> ext b c -> ext a c.
Proof.
  intros [L1 H1] [L2 H2]. split; [lia|]. intros k nd Hk.
  destruct (H1 _ _ Hk) as (nd1 & Hk1 & S1). destruct (H2 _ _ Hk1) as (nd2 & Hk2 & S2).
  eauto using nsame_trans.
Qed.
Lemma ext_app out new : ext out (out ++ new).
Proof.
  split; [rewrite zlen_app; pose proof (zlen_nonneg new); lia|].
  intros k nd Hk. exists nd. split; [now apply znth_app_l | apply nsame_refl].
Qed.
Lemma ext_out_ty a b d t : ext a b -> out_ty a d = Ok t -> out_ty b d = Ok t.
Proof.
  intros [_ H] Ht. unfold out_ty in *. inv_bind Ht. inversion Ht; subst.
  destruct (H _ _ E) as (nd' & Hn & (_ & _ & Ht' & _)). rewrite Hn. cbn. now rewrite Ht'.
Qed.

(* dependencies point backwards *)
Definition wf (out : list node) : Prop :=
  forall k nd, znth out k = Ok nd -> Forall (fun d => 0 <= d < k) (n_deps nd).

Lemma mapM_out_ty_range out deps ts : mapM (out_ty out) deps = Ok ts -> Forall (fun d => 0 <= d < zlen out) deps.
Proof.
  intros H. apply mapM_ok_forall in H. eapply Forall_impl; [|exact H].
  intros d (t & Ht). unfold out_ty in Ht. inv_bind Ht. eauto using znth_range.
Qed.

Lemma wf_snoc out nd : wf out -> Forall (fun d => 0 <= d < zlen out) (n_deps nd) -> wf (out ++ [nd]).
Proof.
  intros W Hd k nd' Hk. pose proof (znth_range _ _ _ Hk) as Hr. rewrite zlen_app, zlen_one in Hr.
  destruct (Z.eq_dec k (zlen out)) as [->|Hne].
  - rewrite znth_last in Hk. inversion Hk; subst. exact Hd.
  - apply W. apply (znth_inj_app _ [nd]); [exact Hk | lia].
Qed.

(* ---------- add_annotation ---------- *)
Lemma znth_split {A} (l : list A) i x :
  znth l i = Ok x -> l = firstn (Z.to_nat i) l ++ [x] ++ skipn (S (Z.to_nat i)) l /\ zlen (firstn (Z.to_nat i) l) = i.
Proof.
  intros H. pose proof (znth_range _ _ _ H) as Hr. unfold znth in H. destruct (i <? 0) eqn:E; [lia|].
  unfold zlen in *. remember (Z.to_nat i) as n eqn:Hn.
  assert (Hlt : (n < length l)%nat) by lia.
  assert (G : l = firstn n l ++ [x] ++ skipn (S n) l).
  { clear -H. revert n H. induction l as [|a l IH]; intros [|n] H; cbn in *; try discriminate.
    - inversion H; reflexivity.
    - f_equal. apply IH. exact H. }
  split; [exact G|]. rewrite firstn_length. lia.
Qed.

Lemma znth_update {A} (l1 l2 : list A) x y k z :
  znth (l1 ++ [x] ++ l2) k = Ok z ->
  (k = zlen l1 /\ z = x /\ znth (l1 ++ [y] ++ l2) k = Ok y) \/
  (k <> zlen l1 /\ znth (l1 ++ [y] ++ l2) k = Ok z).
Proof.
  intros H. pose proof (znth_range _ _ _ H) as Hr.
  destruct (Z.eq_dec k (zlen l1)) as [->|Hne]; [left|right; split; [exact Hne|]].
  - replace (zlen l1) with (zlen l1 + 0) in H |- * by lia.
    rewrite znth_app_r in H |- * by lia. cbn in H |- *. inversion H; auto.
  - destruct (Z_lt_dec k (zlen l1)).
    + apply znth_inj_app in H; [|lia]. now apply znth_app_l.
    + assert (Hj : 0 <= k - zlen l1 - 1) by lia. remember (k - zlen l1 - 1) as j eqn:Ej.
      assert (Hk : k = zlen l1 + (zlen [x] + j)) by (rewrite zlen_one; lia).
      rewrite Hk in H. rewrite Hk. clear Hk Ej.
      rewrite znth_app_r in H by (rewrite zlen_one; lia). rewrite znth_app_r in H by lia.
      rewrite znth_app_r by (rewrite zlen_one; lia).
      change (zlen [x]) with (zlen [y]). rewrite znth_app_r by lia. exact H.
Qed.

Lemma add_annotation_spec id a out out' :
  add_annotation id a out = Ok out' ->
  exists l1 nd l2, out = l1 ++ [nd] ++ l2 /\ zlen l1 = id /\
    out' = l1 ++ [mkNode (n_op nd) (n_deps nd) (n_gdeps nd) (n_annots nd ++ [a]) (n_ty nd)] ++ l2.
Proof.
  unfold add_annotation. intros H. inv_bind H. inversion H; subst; clear H.
  destruct (znth_split _ _ _ E) as [G L]. exists (firstn (Z.to_nat id) out), x, (skipn (S (Z.to_nat id)) out).
  repeat split; auto.
Qed.

Lemma add_annotation_ext id a out out' : add_annotation id a out = Ok out' -> ext out out' /\ zlen out' = zlen out.
Proof.
  intros H. destruct (add_annotation_spec _ _ _ _ H) as (l1 & nd & l2 & -> & L & ->).
  assert (Z : zlen (l1 ++ [mkNode (n_op nd) (n_deps nd) (n_gdeps nd) (n_annots nd ++ [a]) (n_ty nd)] ++ l2) = zlen (l1 ++ [nd] ++ l2)).
  { rewrite !zlen_app. reflexivity. }
  split; [|exact Z]. split; [lia|].
  intros k z Hk. destruct (znth_update _ _ _ (mkNode (n_op nd) (n_deps nd) (n_gdeps nd) (n_annots nd ++ [a]) (n_ty nd)) _ _ Hk)
    as [(-> & -> & G) | (Hne & G)].
  - eexists; split; [exact G|]. repeat split; cbn; auto. apply incl_appl, incl_refl.
  - eexists; split; [exact G | apply nsame_refl].
Qed.

Lemma add_annotation_has id a out out' :
  add_annotation id a out = Ok out' -> exists nd, znth out' id = Ok nd /\ In a (n_annots nd).
Proof.
  intros H. destruct (add_annotation_spec _ _ _ _ H) as (l1 & nd & l2 & -> & L & ->).
  eexists. split.
  - replace id with (zlen l1 + 0) by lia. rewrite znth_app_r by lia. reflexivity.
  - cbn. apply in_or_app. right. now left.
Qed.

Lemma add_annotation_wf id a out out' : add_annotation id a out = Ok out' -> wf out -> wf out'.
Proof.
  intros H W. destruct (add_annotation_spec _ _ _ _ H) as (l1 & nd & l2 & -> & L & ->).
  intros k z Hk.
  destruct (znth_update _ _ _ nd _ _ Hk) as [(-> & -> & G) | (Hne & G)].
  - cbn. apply (W _ _ G).
  - apply (W _ _ G).
Qed.

(* ---------- emit: static facts ---------- *)
Lemma emit_spec o deps an out out' id :
  emit o deps an out = Ok (out', id) ->
  exists ts t, mapM (out_ty out) deps = Ok ts /\ infer o ts = Ok t /\
               out' = out ++ [mkNode o deps [] an t] /\ id = zlen out.
Proof.
  unfold emit. intros H. inv_bind H. inv_bind H. inversion H; subst. eauto 8.
Qed.
Lemma emit_gadget_spec g deps out out' id :
  emit_gadget g deps out = Ok (out', id) ->
  exists ts t, mapM (out_ty out) deps = Ok ts /\ gadget_ty g ts = Ok t /\ ty_valid t = true /\
               out' = out ++ [mkNode (OCustom (gadget_name g)) deps [] [] t] /\ id = zlen out.
Proof.
  unfold emit_gadget. intros H. inv_bind H. inv_bind H. inv_bind H. inversion H; subst.
  unfold register in E1. destruct (ty_valid x0) eqn:V; [|discriminate]. inversion E1; subst. eauto 10.
Qed.

Lemma out_ty_last out nd : out_ty (out ++ [nd]) (zlen out) = Ok (n_ty nd).
Proof. unfold out_ty. now rewrite znth_last. Qed.

(* ---------- evaluation ---------- *)
Section Evals.
  Variable R : Type.
  Variables (r0 : R) (radd rmul rsub : R -> R -> R).
  Variable atom : Z -> R.
  Variable catom : value -> R.
  Variable one : R.
  Variable lin : op -> R -> R.
  Variable bil : op -> R -> R -> R.
  Variable nlin : op -> list R -> R.

  Notation rv := (rval R).
  Notation dnode := (deval_node R r0 radd rmul rsub atom catom one lin bil nlin).
  Notation dfrom := (deval_from R r0 radd rmul rsub atom catom one lin bil nlin).
  Notation dstp := (dstep R r0 radd rmul rsub atom catom one lin bil nlin).

  (* the graph [out], run on the inputs [ins0], has the node values [env] and leaves [ins] *)
  Definition evals (ins0 : list rv) (out : list node) (env : list rv) (ins : list rv) : Prop :=
    dfrom out (Some ([], ins0)) = Some (env, ins).

  Lemma dfrom_app a b st : dfrom (a ++ b) st = dfrom b (dfrom a st).
  Proof. unfold deval_from. apply fold_left_app. Qed.

  Lemma dstep_same st a b : n_op a = n_op b -> n_deps a = n_deps b -> dstp st a = dstp st b.
  Proof. intros Ho Hd. unfold dstep. now rewrite Ho, Hd. Qed.

  Lemma dfrom_update l1 l2 x y st :
    n_op x = n_op y -> n_deps x = n_deps y -> dfrom (l1 ++ [x] ++ l2) st = dfrom (l1 ++ [y] ++ l2) st.
  Proof.
    intros Ho Hd. rewrite !dfrom_app. f_equal.
    change (dfrom [x] (dfrom l1 st)) with (dstp (dfrom l1 st) x).
    change (dfrom [y] (dfrom l1 st)) with (dstp (dfrom l1 st) y). now apply dstep_same.
  Qed.

  Lemma dfrom_cons nd out st : dfrom (nd :: out) st = dfrom out (dstp st nd).
  Proof. reflexivity. Qed.
  Lemma dfrom_none out : dfrom out None = None.
  Proof. induction out as [|nd out IH]; [reflexivity|]. rewrite dfrom_cons. exact IH. Qed.

  Lemma dstep_inv e0 i0 nd e1 i1 : dstp (Some (e0, i0)) nd = Some (e1, i1) -> exists v, e1 = e0 ++ [v].
  Proof.
    unfold dstep.
    destruct (n_op nd);
      try (destruct i0; intros H; inversion H; eauto; fail);
      (destruct (mapM _ _); try discriminate;
       match goal with |- context [match ?x with Some _ => _ | None => _ end] => destruct x end;
       intros H; inversion H; eauto).
  Qed.

  Lemma dfrom_length out st env ins env0 ins0' :
    st = Some (env0, ins0') -> dfrom out st = Some (env, ins) -> zlen env = zlen env0 + zlen out.
  Proof.
    revert st env0 ins0'. induction out as [|nd out IH]; intros st env0 ins0' -> H.
    - inversion H; subst. rewrite zlen_nil. lia.
    - rewrite dfrom_cons in H.
      destruct (dstp (Some (env0, ins0')) nd) as [[e1 i1]|] eqn:S.
      + pose proof (IH _ _ _ eq_refl H) as L.
        destruct (dstep_inv _ _ _ _ _ S) as (v & ->). rewrite zlen_app, zlen_one in L.
        change (nd :: out) with ([nd] ++ out). rewrite zlen_app, zlen_one. lia.
      + rewrite dfrom_none in H. discriminate.
  Qed.

  Lemma evals_length ins0 out env ins : evals ins0 out env ins -> zlen env = zlen out.
  Proof. intros H. apply (dfrom_length _ _ _ _ [] ins0 eq_refl) in H. rewrite zlen_nil in H. lia. Qed.

  Lemma evals_nil ins0 : evals ins0 [] [] ins0.
  Proof. reflexivity. Qed.

  Lemma add_annotation_evals id a out out' ins0 env ins :
    add_annotation id a out = Ok out' -> evals ins0 out env ins -> evals ins0 out' env ins.
  Proof.
    intros H E. destruct (add_annotation_spec _ _ _ _ H) as (l1 & nd & l2 & -> & L & ->).
    unfold evals in *. rewrite <- E. symmetry. now apply dfrom_update.
  Qed.

  (* a non-input node whose dependencies evaluate *)
  Lemma evals_snoc ins0 out env ins nd vs v :
    evals ins0 out env ins -> is_input (n_op nd) = false ->
    mapM (fun d => znth env d) (n_deps nd) = Ok vs -> dnode (zlen env) (n_op nd) vs = Some v ->
    evals ins0 (out ++ [nd]) (env ++ [v]) ins.
  Proof.
    intros E Hi Hm Hv. unfold evals in *. rewrite dfrom_app, E.
    change (dfrom [nd] (Some (env, ins))) with (dstp (Some (env, ins)) nd). unfold dstep.
    destruct (n_op nd) eqn:Ho; try discriminate; cbv beta iota; rewrite Hm, Hv; reflexivity.
  Qed.
  (* an input node *)
  Lemma evals_snoc_input ins0 out env v ins nd t :
    evals ins0 out env (v :: ins) -> n_op nd = OInput t -> evals ins0 (out ++ [nd]) (env ++ [v]) ins.
  Proof.
    intros E Hi. unfold evals in *. rewrite dfrom_app, E.
    change (dfrom [nd] (Some (env, v :: ins))) with (dstp (Some (env, v :: ins)) nd). unfold dstep.
    now rewrite Hi.
  Qed.

  Lemma emit_evals o deps an out out' id ins0 env ins vs v :
    emit o deps an out = Ok (out', id) -> evals ins0 out env ins -> is_input o = false ->
    mapM (fun d => znth env d) deps = Ok vs -> dnode (zlen env) o vs = Some v ->
    evals ins0 out' (env ++ [v]) ins /\ znth (env ++ [v]) id = Ok v.
  Proof.
    intros H E Hi Hm Hv. destruct (emit_spec _ _ _ _ _ _ H) as (ts & t & _ & _ & -> & ->).
    split; [eapply evals_snoc; eauto|].
    rewrite <- (evals_length _ _ _ _ E). apply znth_last.
  Qed.
End Evals.

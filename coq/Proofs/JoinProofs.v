(* Proofs about Model/JoinImpl.v and Model/JoinSpec.v (C19).
   Part 1: the result columns of the row-major algorithm as a function of the rows appended so
   far (a per-column invariant stated through [lookup]).  Part 2: what [extract_columns] gives on a
   well-formed table.  Part 3: the key hash map against [find_row].  Part 4: the joins. *)
From CC Require Import Base.Prelude Model.JoinTable Model.JoinImpl Model.JoinSpec.

(* ------------------------------------------------------------------------------ generalities *)
Lemma mem_In h l : mem h l = true <-> In h l.
Proof.
  unfold mem. rewrite existsb_exists. split.
  - intros (x & Hx & E). apply String.eqb_eq in E. now subst.
  - intros H. exists h. split; auto. apply String.eqb_refl.
Qed.
Lemma mem_false h l : mem h l = false <-> ~ In h l.
Proof. rewrite <- mem_In. destruct (mem h l); split; congruence. Qed.
Lemma mem_cons h k l : mem h (k :: l) = String.eqb h k || mem h l.
Proof. reflexivity. Qed.
Lemma mem_app h l1 l2 : mem h (l1 ++ l2) = mem h l1 || mem h l2.
Proof. unfold mem. apply existsb_app. Qed.
Lemma mem_rev h l : mem h (rev l) = mem h l.
Proof.
  destruct (mem h l) eqn:E.
  - apply mem_In. apply -> in_rev. now apply mem_In.
  - apply mem_false. intros H. apply in_rev in H. apply mem_false in E. auto.
Qed.

Lemma lookup_In {A} h (l : list (string * A)) c : lookup h l = Some c -> In (h, c) l.
Proof.
  induction l as [|[k v] r IH]; cbn; [discriminate|].
  destruct (String.eqb h k) eqn:E; intros H.
  - apply String.eqb_eq in E. inversion H. subst. now left.
  - right. auto.
Qed.
Lemma lookup_names {A} h (l : list (string * A)) c : lookup h l = Some c -> In h (names l).
Proof. intros H. apply lookup_In in H. unfold names. change h with (fst (h, c)). now apply in_map. Qed.
Lemma lookup_None {A} h (l : list (string * A)) : lookup h l = None <-> ~ In h (names l).
Proof.
  induction l as [|[k v] r IH]; cbn; [tauto|].
  destruct (String.eqb h k) eqn:E.
  - apply String.eqb_eq in E. subst. split; [discriminate|]. intros H. exfalso. apply H. now left.
  - apply String.eqb_neq in E. rewrite IH. split; intros H; [intros [H1|H1]; [congruence|auto]|tauto].
Qed.
Lemma names_lookup {A} h (l : list (string * A)) : In h (names l) -> exists c, lookup h l = Some c.
Proof.
  intros H. destruct (lookup h l) eqn:E; [eauto|]. apply lookup_None in E. contradiction.
Qed.
Lemma lookup_NoDup {A} (l : list (string * A)) p : NoDup (names l) -> In p l -> lookup (fst p) l = Some (snd p).
Proof.
  induction l as [|[k v] r IH]; cbn; [tauto|]. intros ND [H|H].
  - subst. cbn. now rewrite String.eqb_refl.
  - inversion ND as [|? ? Hn ND']. subst.
    destruct (String.eqb (fst p) k) eqn:E; [|auto].
    apply String.eqb_eq in E. subst. exfalso. apply Hn. unfold names. now apply in_map.
Qed.
Lemma lookup_map {A B} (g : string -> A -> B) h (l : list (string * A)) :
  lookup h (map (fun p => (fst p, g (fst p) (snd p))) l) = option_map (g h) (lookup h l).
Proof.
  induction l as [|[k v] r IH]; cbn; [reflexivity|].
  destruct (String.eqb h k) eqn:E; [|exact IH]. apply String.eqb_eq in E. now subst.
Qed.
Lemma lookup_filter_nonnull {A} h (l : list (string * A)) :
  is_null h = false -> lookup h (filter (fun p => negb (is_null (fst p))) l) = lookup h l.
Proof.
  intros Hn. induction l as [|[k v] r IH]; [reflexivity|]. cbn [filter lookup fst].
  destruct (is_null k) eqn:Ek; cbn [negb lookup].
  - destruct (String.eqb h k) eqn:E; [|exact IH]. apply String.eqb_eq in E. congruence.
  - now rewrite IH.
Qed.
Lemma is_null_sym h : is_null h = false -> String.eqb null_header h = false.
Proof. unfold is_null. now rewrite String.eqb_sym. Qed.
Lemma is_null_true h : is_null h = true -> h = null_header.
Proof. apply String.eqb_eq. Qed.

Lemma mapM_ok {A B} (f : A -> result B) (g : A -> B) l :
  (forall x, In x l -> f x = Ok (g x)) -> mapM f l = Ok (map g l).
Proof.
  induction l as [|x r IH]; intros H; cbn; [reflexivity|].
  rewrite H by now left. cbn. rewrite IH; [reflexivity|]. intros; apply H; now right.
Qed.

Lemma idx_nth {A} (l : list A) i d : (i < length l)%nat -> idx l i = Ok (nth i l d).
Proof. intros H. unfold idx. now rewrite (nth_error_nth' l d H). Qed.

(* --------------------------------------------------------------- Part 1: the result columns *)
Definition rowdesc := (Z * (string -> nat -> Z * row))%type.
Definition colof (masked : bool) (h : string) (rs : nat) (rows : list rowdesc) : column :=
  mkcol rs (if masked then map (fun r => fst (snd r h rs)) rows else [])
        (map (fun r => snd (snd r h rs)) rows).
Definition zrow : rowdesc := (0, fun _ rs => zero_entry rs).

Lemma update_col_spec h f l c : lookup h l = Some c ->
  exists l', update_col h f l = Some l' /\
             forall h', lookup h' l' = if String.eqb h' h then Some (f c) else lookup h' l.
Proof.
  induction l as [|[k v] r IH]; cbn; [discriminate|].
  destruct (String.eqb h k) eqn:E; intros H.
  - inversion H; subst. apply String.eqb_eq in E. subst. eexists; split; [reflexivity|].
    intros h'. cbn. destruct (String.eqb h' k); reflexivity.
  - destruct (IH H) as (l' & -> & Hl'). eexists; split; [reflexivity|].
    intros h'. cbn. destruct (String.eqb h' k) eqn:E1.
    + destruct (String.eqb h' h) eqn:E2; [|reflexivity].
      apply String.eqb_eq in E1, E2. subst. now rewrite String.eqb_refl in E.
    + apply Hl'.
Qed.

Section Inv.
Variables (masked : bool) (res : list (string * nat)).

Definition pinv (rc : cmap) (rows : list rowdesc) (r : rowdesc) (dn : list string) : Prop :=
  cm_masked rc = masked /\
  cm_null rc = map fst rows ++ (if mem null_header dn then [fst r] else []) /\
  forall h, is_null h = false ->
    lookup h (cm_cols rc)
    = option_map (fun rs => colof masked h rs (if mem h dn then rows ++ [r] else rows)) (lookup h res).
Definition inv (rc : cmap) (rows : list rowdesc) : Prop := pinv rc rows zrow [].

Lemma colof_snoc h rs rows r :
  colof masked h rs (rows ++ [r])
  = mkcol rs (if masked then c_mask (colof masked h rs rows) ++ [fst (snd r h rs)] else [])
          (c_rows (colof masked h rs rows) ++ [snd (snd r h rs)]).
Proof. unfold colof. cbn. rewrite !map_app. destruct masked; reflexivity. Qed.

Lemma push_entry_pinv rc rows r dn h rs m e :
  pinv rc rows r dn -> is_null h = false -> lookup h res = Some rs -> mem h dn = false ->
  snd (snd r h rs) = e -> m = (if masked then Some (fst (snd r h rs)) else None) ->
  exists rc', push_entry rc h m e = Ok rc' /\ pinv rc' rows r (h :: dn).
Proof.
  intros (Hm & Hn & Hc) Hh Hres Hdn He Hmk.
  pose proof (Hc h Hh) as Hl. rewrite Hres, Hdn in Hl. cbn in Hl.
  unfold push_entry.
  destruct (update_col_spec h
              (fun c => mkcol (c_rs c) (match m with Some m => c_mask c ++ [m] | None => c_mask c end)
                              (c_rows c ++ [e])) _ _ Hl) as (l' & -> & Hl').
  eexists; split; [reflexivity|]. repeat split; cbn [cm_masked cm_null cm_cols]; auto.
  - rewrite Hn, mem_cons, (is_null_sym _ Hh). reflexivity.
  - intros h' Hh'. rewrite Hl', mem_cons. destruct (String.eqb h' h) eqn:E.
    + apply String.eqb_eq in E. subst h'. rewrite Hres. cbn. f_equal.
      rewrite colof_snoc. subst e m. unfold colof. cbn. destruct masked; reflexivity.
    + cbn. now apply Hc.
Qed.

Lemma get_row_size_pinv rc rows r dn h rs :
  pinv rc rows r dn -> is_null h = false -> lookup h res = Some rs -> get_row_size rc h = Ok rs.
Proof.
  intros (_ & _ & Hc) Hh Hres. unfold get_row_size, get_col. rewrite (Hc h Hh), Hres. reflexivity.
Qed.

Lemma append_zero_entry_pinv rc rows r dn h rs :
  pinv rc rows r dn -> is_null h = false -> lookup h res = Some rs -> mem h dn = false ->
  snd r h rs = zero_entry rs ->
  exists rc', append_zero_entry rc h = Ok rc' /\ pinv rc' rows r (h :: dn).
Proof.
  intros Hp Hh Hres Hdn Hz. unfold append_zero_entry.
  rewrite (get_row_size_pinv _ _ _ _ _ _ Hp Hh Hres). cbn.
  apply push_entry_pinv with (rs := rs); auto.
  - now rewrite Hz.
  - destruct Hp as (-> & _). now rewrite Hz.
Qed.

(* what the algorithm reads from a source table for one cell *)
Definition src_entry (src : cmap) (s : string) (i rs : nat) (cv : Z * row) : Prop :=
  (cm_masked src = true ->
   exists mk, get_mask_entry src s i = Ok mk /\
              if mk =? 1 then exists d, get_entry src i s = Ok d /\ cv = (1, d)
              else cv = zero_entry rs) /\
  (cm_masked src = false -> exists d, get_entry src i s = Ok d /\ snd cv = d).

Lemma copy_entry_pinv rc rows r dn t s src i rs :
  pinv rc rows r dn -> is_null t = false -> lookup t res = Some rs -> mem t dn = false ->
  cm_masked src = masked -> src_entry src s i rs (snd r t rs) ->
  exists rc', copy_entry_from_column rc t s src i = Ok rc' /\ pinv rc' rows r (t :: dn).
Proof.
  intros Hp Ht Hres Hdn Hms (Hs1 & Hs2). unfold copy_entry_from_column. rewrite Ht. cbn [andb].
  assert (Hg : get_col rc t = Ok (colof masked t rs rows)).
  { destruct Hp as (_ & _ & Hc). unfold get_col. rewrite (Hc t Ht), Hres, Hdn. reflexivity. }
  rewrite Hg. cbn [bind].
  destruct (cm_masked src) eqn:Es.
  - destruct (Hs1 eq_refl) as (mk & -> & Hk). cbn [bind].
    destruct (mk =? 1) eqn:E1.
    + destruct Hk as (d & -> & Hcv). pose proof Hp as (Hm' & _). rewrite Hm', <- Hms. cbn [negb bind].
      apply push_entry_pinv with (rs := rs); auto.
      * now rewrite Hcv.
      * rewrite <- Hms, Hcv. cbn. f_equal. lia.
    + apply append_zero_entry_pinv with (rs := rs); auto.
  - destruct (Hs2 eq_refl) as (d & -> & Hcv). cbn [bind].
    apply push_entry_pinv with (rs := rs); auto. now rewrite <- Hms.
Qed.

Lemma copy_null_pinv rc rows r dn src i nb :
  pinv rc rows r dn -> mem null_header dn = false -> idx (cm_null src) i = Ok nb -> fst r = nb ->
  exists rc', copy_entry_from_column rc null_header null_header src i = Ok rc' /\
              pinv rc' rows r (null_header :: dn).
Proof.
  intros (Hm & Hn & Hc) Hdn Hi Hr. unfold copy_entry_from_column.
  assert (E : is_null null_header = true) by apply String.eqb_refl. rewrite E. cbn [andb].
  rewrite Hi. cbn [bind]. eexists; split; [reflexivity|].
  repeat split; cbn [cm_masked cm_null cm_cols]; auto.
  - rewrite Hn, Hdn, mem_cons, String.eqb_refl, app_nil_r. cbn. now subst.
  - intros h Hh. rewrite mem_cons. unfold is_null in Hh. rewrite Hh. cbn. now apply Hc.
Qed.

Lemma push_null_pinv rc rows r dn :
  pinv rc rows r dn -> mem null_header dn = false -> fst r = 1 ->
  pinv (mkcm (cm_null rc ++ [1]) (cm_masked rc) (cm_cols rc)) rows r (null_header :: dn).
Proof.
  intros (Hm & Hn & Hc) Hdn Hr. repeat split; cbn [cm_masked cm_null cm_cols]; auto.
  - rewrite Hn, Hdn, mem_cons, String.eqb_refl, app_nil_r. cbn. now rewrite Hr.
  - intros h Hh. rewrite mem_cons. unfold is_null in Hh. rewrite Hh. cbn. now apply Hc.
Qed.

Lemma pinv_ext rc rows r dn dn' :
  pinv rc rows r dn -> (forall h, mem h dn' = mem h dn) -> pinv rc rows r dn'.
Proof.
  intros (Hm & Hn & Hc) E. repeat split; auto.
  - now rewrite E.
  - intros h Hh. rewrite E. now apply Hc.
Qed.

Lemma copy_all_pinv src i rows r hs : forall rc dn,
  pinv rc rows r dn -> NoDup hs -> (forall h, In h hs -> mem h dn = false) ->
  cm_masked src = masked ->
  (forall h, In h hs ->
     if is_null h then exists nb, idx (cm_null src) i = Ok nb /\ fst r = nb
     else exists rs, lookup h res = Some rs /\ src_entry src h i rs (snd r h rs)) ->
  exists rc', copy_all src i hs rc = Ok rc' /\ pinv rc' rows r (hs ++ dn).
Proof.
  unfold copy_all. induction hs as [|h hs IH]; intros rc dn Hp ND Hdn Hms Hsrc.
  - cbn. eauto.
  - inversion ND as [|? ? Hnin ND']; subst. cbn [foldM].
    assert (Hstep : exists rc1, copy_entry_from_column rc h h src i = Ok rc1 /\ pinv rc1 rows r (h :: dn)).
    { pose proof (Hsrc h (or_introl eq_refl)) as Hh. destruct (is_null h) eqn:En.
      - apply is_null_true in En. subst h. destruct Hh as (nb & Hi & Hr).
        eapply copy_null_pinv; eauto. apply Hdn. now left.
      - destruct Hh as (rs & Hres & Hse). eapply copy_entry_pinv; eauto. apply Hdn. now left. }
    destruct Hstep as (rc1 & -> & Hp1). cbn [bind].
    destruct (IH rc1 (h :: dn) Hp1 ND') as (rc' & Hf & Hp'); auto.
    + intros h' Hin. rewrite mem_cons, (Hdn h') by now right.
      destruct (String.eqb h' h) eqn:E; [|reflexivity]. apply String.eqb_eq in E. now subst.
    + intros h' Hin. apply Hsrc. now right.
    + exists rc'. split; [exact Hf|]. eapply pinv_ext; [exact Hp'|].
      intros x. cbn [app]. rewrite mem_app, !mem_cons, mem_app. destruct (String.eqb x h), (mem x hs), (mem x dn); reflexivity.
Qed.

Lemma zero_all_pinv rows r hs : forall rc dn,
  pinv rc rows r dn -> NoDup hs -> (forall h, In h hs -> mem h dn = false) ->
  (forall h, In h hs -> is_null h = false /\
                        exists rs, lookup h res = Some rs /\ snd r h rs = zero_entry rs) ->
  exists rc', zero_all hs rc = Ok rc' /\ pinv rc' rows r (hs ++ dn).
Proof.
  unfold zero_all. induction hs as [|h hs IH]; intros rc dn Hp ND Hdn Hz.
  - cbn. eauto.
  - inversion ND as [|? ? Hnin ND']; subst. cbn [foldM].
    destruct (Hz h (or_introl eq_refl)) as (Hn & rs & Hres & Hzz).
    destruct (append_zero_entry_pinv rc rows r dn h rs Hp Hn Hres (Hdn h (or_introl eq_refl)) Hzz)
      as (rc1 & -> & Hp1). cbn [bind].
    destruct (IH rc1 (h :: dn) Hp1 ND') as (rc' & Hf & Hp'); auto.
    + intros h' Hin. rewrite mem_cons, (Hdn h') by now right.
      destruct (String.eqb h' h) eqn:E; [|reflexivity]. apply String.eqb_eq in E. now subst.
    + intros h' Hin. apply Hz. now right.
    + exists rc'. split; [exact Hf|]. eapply pinv_ext; [exact Hp'|].
      intros x. cbn [app]. rewrite mem_app, !mem_cons, mem_app. destruct (String.eqb x h), (mem x hs), (mem x dn); reflexivity.
Qed.

Lemma pinv_close rc rows r dn :
  pinv rc rows r dn -> (forall h, In h (names res) -> mem h dn = true) -> mem null_header dn = true ->
  inv rc (rows ++ [r]).
Proof.
  intros (Hm & Hn & Hc) Hall Hnull. repeat split; auto.
  - rewrite Hn, Hnull. cbn. now rewrite map_app, app_nil_r.
  - intros h Hh. rewrite (Hc h Hh). cbn. destruct (lookup h res) eqn:E; [|reflexivity].
    cbn. rewrite Hall; [reflexivity|]. eapply lookup_names; eauto.
Qed.

Lemma append_zero_row_inv rc rows : inv rc rows -> inv (append_zero_row rc) (rows ++ [zrow]).
Proof.
  intros (Hm & Hn & Hc). cbn in Hn. rewrite app_nil_r in Hn.
  repeat split; cbn [append_zero_row cm_masked cm_null cm_cols mem existsb]; auto.
  - rewrite Hn, map_app, app_nil_r. reflexivity.
  - intros h Hh.
    rewrite (lookup_map (fun _ c => mkcol (c_rs c) (if cm_masked rc then c_mask c ++ [0] else c_mask c)
                                          (c_rows c ++ [repeat 0 (c_rs c)]))).
    rewrite (Hc h Hh). cbn. destruct (lookup h res); [|reflexivity]. cbn. f_equal.
    rewrite colof_snoc, Hm. unfold colof, zrow, zero_entry. cbn. destruct masked; reflexivity.
Qed.

Lemma init_inv : inv (init_result_columns masked res) [].
Proof.
  repeat split; cbn; auto. intros h Hh.
  rewrite (lookup_map (fun _ rs => mkcol rs [] [])), lookup_filter_nonnull by auto.
  destruct (lookup h res); [|reflexivity]. cbn. unfold colof. cbn. destruct masked; reflexivity.
Qed.

Lemma foldM_rows {A} (f : cmap -> A -> result cmap) (g : A -> rowdesc) l : forall rc rows,
  inv rc rows ->
  (forall rc rows x, In x l -> inv rc rows -> exists rc', f rc x = Ok rc' /\ inv rc' (rows ++ [g x])) ->
  exists rc', foldM f l rc = Ok rc' /\ inv rc' (rows ++ map g l).
Proof.
  induction l as [|x l IH]; intros rc rows Hi Hstep; cbn.
  - rewrite app_nil_r. eauto.
  - destruct (Hstep rc rows x (or_introl eq_refl) Hi) as (rc1 & -> & Hi1). cbn.
    destruct (IH rc1 _ Hi1) as (rc' & Hf & Hi').
    + intros; apply Hstep; auto. now right.
    + exists rc'. split; auto. now rewrite <- app_assoc in Hi'.
Qed.

Definition render (rows : list rowdesc) : table :=
  map (fun p => if is_null (fst p) then (fst p, mkcol 1 [] (map (fun r => [fst r]) rows))
                else (fst p, colof masked (fst p) (snd p) rows)) res.

Lemma to_value_inv rc rows : inv rc rows -> NoDup (names res) -> to_value rc res = Ok (render rows).
Proof.
  intros (Hm & Hn & Hc) ND. unfold to_value, render. apply mapM_ok. intros p Hp.
  destruct (is_null (fst p)) eqn:E.
  - cbn in Hn. rewrite app_nil_r in Hn. rewrite Hn, map_map. reflexivity.
  - unfold get_col. rewrite (Hc _ E), (lookup_NoDup _ _ ND Hp). cbn. reflexivity.
Qed.
End Inv.

(* ------------------------------------------- Part 2: extract_columns on a well-formed table *)
Lemma row_eqb_iff (k k' : row) : eqb k k' = true <-> k = k'.
Proof.
  split.
  - apply list_eqb_eq. intros x y. apply Z.eqb_eq.
  - intros ->. apply list_eqb_refl. intros x. apply Z.eqb_refl.
Qed.
Lemma row_eqb_sym (k k' : row) : eqb k k' = eqb k' k.
Proof.
  destruct (eqb k k') eqn:E1, (eqb k' k) eqn:E2; auto.
  - apply row_eqb_iff in E1. subst. assert (eqb k' k' = true) by now apply row_eqb_iff. congruence.
  - apply row_eqb_iff in E2. subst. assert (eqb k k = true) by now apply row_eqb_iff. congruence.
Qed.

Lemma lookup_filter {A} (P : string -> bool) h (l : list (string * A)) :
  P h = true -> lookup h (filter (fun p => P (fst p)) l) = lookup h l.
Proof.
  intros Hn. induction l as [|[k v] r IH]; [reflexivity|]. cbn [filter lookup fst].
  destruct (P k) eqn:Ek; cbn [lookup].
  - now rewrite IH.
  - destruct (String.eqb h k) eqn:E; [|exact IH]. apply String.eqb_eq in E. congruence.
Qed.
Lemma lookup_app {A} h (l1 l2 : list (string * A)) :
  lookup h (l1 ++ l2) = match lookup h l1 with Some x => Some x | None => lookup h l2 end.
Proof.
  induction l1 as [|[k v] r IH]; cbn; [reflexivity|]. destruct (String.eqb h k); auto.
Qed.
Lemma lookup_types_of h t : lookup h (types_of t) = option_map c_rs (lookup h t).
Proof. unfold types_of. apply (lookup_map (fun _ c => c_rs c)). Qed.

Section Extract.
Variables (masked : bool) (t : table).
Hypothesis WF : wf_table masked t.
Let set := extract_columns t masked.

Lemma null_concat rows :
  Forall (fun r : row => exists b, r = [b] /\ bit b) rows ->
  concat rows = map (fun r => match r with [b] => b | _ => 0 end) rows.
Proof.
  induction 1 as [|r rows (b & -> & _) _ IH]; cbn; [reflexivity|]. now rewrite IH.
Qed.

Lemma ex_null_len : get_num_rows set = nrows t.
Proof.
  destruct (wf_null _ _ WF) as (c & Hc & Hr). unfold get_num_rows, set, extract_columns, nrows.
  cbn. rewrite Hc, (null_concat _ Hr). apply map_length.
Qed.
Lemma ex_null i : (i < nrows t)%nat -> idx (cm_null set) i = Ok (null_bit t i) /\ bit (null_bit t i).
Proof.
  destruct (wf_null _ _ WF) as (c & Hc & Hr). unfold set, extract_columns, nrows, null_bit, idx.
  cbn. rewrite Hc, (null_concat _ Hr). intros Hi. rewrite nth_error_map.
  destruct (nth_error _ i) as [r|] eqn:E.
  - cbn [option_map]. split; [reflexivity|]. apply nth_error_In in E. rewrite Forall_forall in Hr.
    destruct (Hr r E) as (b & -> & Hb). exact Hb.
  - apply nth_error_None in E. exfalso. apply (Nat.lt_irrefl i). eapply Nat.lt_le_trans; [exact Hi|exact E].
Qed.

Lemma ex_get_col h c : lookup h t = Some c -> is_null h = false ->
  get_col set h = Ok (mkcol (c_rs c) (if masked then c_mask c else []) (c_rows c)).
Proof.
  intros Hl Hn. unfold get_col, set, extract_columns. cbn [cm_cols].
  rewrite (lookup_map (fun _ c => mkcol (c_rs c) (if masked then c_mask c else []) (c_rows c))).
  rewrite lookup_filter_nonnull, Hl by auto. reflexivity.
Qed.

Lemma ex_mask h i : masked = true -> In h (names t) -> is_null h = false -> (i < nrows t)%nat ->
  get_mask_entry set h i = Ok (mask_at masked t h i) /\ bit (mask_at masked t h i).
Proof.
  intros Hm Hin Hn Hi. destruct (names_lookup _ _ Hin) as (c & Hc).
  destruct (wf_masks _ _ WF Hm h c Hc Hn) as (Hlen & Hbits).
  unfold get_mask_entry, mask_at. rewrite (ex_get_col _ _ Hc Hn), Hc. subst masked. cbn [bind c_mask].
  rewrite (idx_nth _ _ 0) by lia. split; [reflexivity|].
  rewrite Forall_forall in Hbits. apply Hbits, nth_In. lia.
Qed.

Lemma ex_flat hs i : (forall h, In h hs -> In h (names t) /\ is_null h = false) -> (i < nrows t)%nat ->
  get_flattened_row set i hs = Ok (row_key t hs i).
Proof.
  intros Hhs Hi. induction hs as [|h hs IH]; [reflexivity|].
  destruct (Hhs h (or_introl eq_refl)) as (Hin & Hn).
  destruct (names_lookup _ _ Hin) as (c & Hc).
  cbn [get_flattened_row]. rewrite (ex_get_col _ _ Hc Hn). cbn [bind c_rows].
  rewrite (@idx_nth row _ _ []) by (rewrite (wf_rows _ _ WF _ _ Hc); lia). cbn [bind].
  rewrite IH by (intros; apply Hhs; now right). cbn [bind row_key flat_map].
  unfold data_at. now rewrite Hc.
Qed.
Lemma ex_entry h i : In h (names t) -> is_null h = false -> (i < nrows t)%nat ->
  get_entry set i h = Ok (data_at t h i).
Proof.
  intros Hin Hn Hi. unfold get_entry. rewrite (ex_flat [h] i); auto.
  - unfold row_key. cbn. now rewrite app_nil_r.
  - intros h' [<-|[]]. auto.
Qed.

Lemma mask_at_unmasked h i : masked = false -> mask_at masked t h i = 1.
Proof. intros ->. reflexivity. Qed.

Lemma ex_empty hs i : (forall h, In h hs -> In h (names t) /\ is_null h = false) -> (i < nrows t)%nat ->
  row_has_empty_entries set i hs = Ok (negb (key_live masked t hs i)).
Proof.
  intros Hhs Hi. unfold row_has_empty_entries, key_live, live.
  destruct (ex_null i Hi) as (-> & Hb). cbn [bind].
  destruct (null_bit t i =? 0) eqn:E0; [reflexivity|]. cbn [negb andb].
  change (cm_masked set) with masked.
  assert (Hcase : masked = true \/ masked = false) by (destruct masked; auto).
  destruct Hcase as [Em|Em].
  - replace (negb masked) with false by (now rewrite Em).
    induction hs as [|h hs IH]; [reflexivity|]. cbn [any_mask_zero forallb].
    destruct (Hhs h (or_introl eq_refl)) as (Hin & Hn).
    destruct (ex_mask h i Em Hin Hn Hi) as (-> & Hbit). cbn [bind].
    destruct Hbit as [-> | ->]; cbn [Z.eqb andb negb].
    + reflexivity.
    + apply IH. intros; apply Hhs; now right.
  - replace (negb masked) with true by (now rewrite Em).
    f_equal. symmetry. apply negb_false_iff, forallb_forall. intros h _.
    now rewrite mask_at_unmasked.
Qed.

Lemma ex_src_entry h i rs : In h (names t) -> is_null h = false -> (i < nrows t)%nat ->
  src_entry set h i rs (entry masked t h i rs).
Proof.
  intros Hin Hn Hi. unfold src_entry, entry. change (cm_masked set) with masked. split; intros Hm.
  - destruct (ex_mask h i Hm Hin Hn Hi) as (Hg & Hbit). eexists; split; [exact Hg|].
    destruct (mask_at masked t h i =? 1); [|reflexivity].
    eexists; split; [now apply ex_entry|reflexivity].
  - rewrite (mask_at_unmasked _ _ Hm). cbn. eexists; split; [now apply ex_entry|reflexivity].
Qed.

(* ------------------------------------------------------------ Part 3: the key hash map *)
Section Hash.
Variable khs : list string.
Hypothesis Hkhs : forall h, In h khs -> In h (names t) /\ is_null h = false.

Let step (m : keyhash) (i : nat) : keyhash :=
  if key_live masked t khs i then (row_key t khs i, i) :: m else m.
Let P (k : row) (i : nat) : bool := key_live masked t khs i && eqb (row_key t khs i) k.

Lemma hm_fold l : (forall i, In i l -> (i < nrows t)%nat) -> forall m,
  foldM (fun m i =>
           let* e := row_has_empty_entries set i khs in
           if e then Ok m else
           let* k := get_flattened_row set i khs in Ok ((k, i) :: m)) l m
  = Ok (fold_left step l m).
Proof.
  induction l as [|i l IH]; intros Hl m; cbn [foldM fold_left]; [reflexivity|].
  rewrite (ex_empty khs i Hkhs) by (apply Hl; now left). cbn [bind]. unfold step at 2.
  destruct (key_live masked t khs i); cbn [negb].
  - rewrite (ex_flat khs i Hkhs) by (apply Hl; now left). cbn [bind]. apply IH. intros; apply Hl; now right.
  - apply IH. intros; apply Hl; now right.
Qed.

Lemma find_app {A} (f : A -> bool) l1 l2 :
  find f (l1 ++ l2) = match find f l1 with Some x => Some x | None => find f l2 end.
Proof. induction l1 as [|x l1 IH]; cbn; [reflexivity|]. destruct (f x); auto. Qed.

Lemma hm_get_fold k l : forall m,
  hm_get k (fold_left step l m)
  = match find (P k) (rev l) with Some i => Some i | None => hm_get k m end.
Proof.
  induction l as [|i l IH]; intros m; cbn [fold_left rev]; [reflexivity|].
  rewrite IH, find_app. destruct (find (P k) (rev l)); [reflexivity|].
  cbn [find]. unfold step, P. destruct (key_live masked t khs i); cbn [andb hm_get].
  - rewrite row_eqb_sym. destruct (eqb (row_key t khs i) k); reflexivity.
  - reflexivity.
Qed.

Lemma find_rev_unique {A} (f : A -> bool) l :
  (forall x y, In x l -> In y l -> f x = true -> f y = true -> x = y) ->
  find f (rev l) = find f l.
Proof.
  intros U. destruct (find f (rev l)) as [x|] eqn:E1, (find f l) as [y|] eqn:E2; auto.
  - apply find_some in E1, E2. destruct E1 as (I1 & F1), E2 as (I2 & F2).
    apply in_rev in I1. f_equal. auto.
  - apply find_some in E1. destruct E1 as (I1 & F1). apply in_rev in I1.
    pose proof (find_none _ _ E2 x I1). congruence.
  - apply find_some in E2. destruct E2 as (I2 & F2).
    pose proof (find_none _ _ E1 y (proj1 (in_rev _ _) I2)). congruence.
Qed.

Lemma hashmap_ok : unique_live_keys masked t khs ->
  exists hm, get_hashmap_from_key_columns set khs = Ok hm /\
             forall k, hm_get k hm = find_row masked t khs k.
Proof.
  intros U. unfold get_hashmap_from_key_columns. rewrite ex_null_len.
  rewrite hm_fold by (intros i Hi; apply in_seq in Hi; lia).
  eexists; split; [reflexivity|]. intros k. rewrite hm_get_fold. cbn [hm_get].
  rewrite find_rev_unique.
  - unfold find_row, P. destruct (find _ _); reflexivity.
  - intros x y Hx Hy Fx Fy. apply in_seq in Hx, Hy. unfold P in Fx, Fy.
    apply andb_true_iff in Fx, Fy. destruct Fx as (Lx & Kx), Fy as (Ly & Ky).
    apply row_eqb_iff in Kx, Ky. apply U; auto; try lia. congruence.
Qed.
End Hash.
End Extract.

(* ------------------------------------------------------------------- Part 4: the joins *)
Lemma NoDup_app_intro {A} (l1 l2 : list A) :
  NoDup l1 -> NoDup l2 -> (forall x, In x l1 -> ~ In x l2) -> NoDup (l1 ++ l2).
Proof.
  induction l1 as [|x l1 IH]; intros N1 N2 D; cbn; [exact N2|].
  inversion N1; subst. constructor.
  - rewrite in_app_iff. intros [H|H]; [auto|]. apply (D x); [now left|exact H].
  - apply IH; auto. intros y Hy. apply D. now right.
Qed.
Lemma NoDup_filter' {A} (f : A -> bool) l : NoDup l -> NoDup (filter f l).
Proof.
  induction 1 as [|x l Hn _ IH]; cbn; [constructor|]. destruct (f x); [|exact IH].
  constructor; [|exact IH]. rewrite filter_In. tauto.
Qed.
Lemma names_filter_types (P : string -> bool) t :
  names (filter (fun p => P (fst p)) (types_of t)) = filter P (names t).
Proof.
  unfold names, types_of. induction t as [|[k c] t IH]; cbn; [reflexivity|].
  destruct (P k); cbn; now rewrite IH.
Qed.
Lemma names_app {A} (l1 l2 : list (string * A)) : names (l1 ++ l2) = names l1 ++ names l2.
Proof. unfold names. apply map_app. Qed.
Lemma names_types_of t : names (types_of t) = names t.
Proof. unfold names, types_of. rewrite map_map. reflexivity. Qed.

Section Joins.
Variables (masked : bool) (a b : table) (keys : keymap).
Hypothesis WJ : wf_join masked a b keys.
Let kh0 := map fst keys.
Let kh1 := map snd keys.
Let res := result_headers a b keys.
Let set0 := extract_columns a masked.
Let set1 := extract_columns b masked.
Let nonkey1 := filter (fun h => negb (is_null h) && negb (mem h kh1)) (names b).
Let WA := wj_a _ _ _ _ WJ.
Let WB := wj_b _ _ _ _ WJ.

Definition rowdesc_of (p : prov) : rowdesc :=
  (match p with PZero => 0 | _ => 1 end, fun h rs => cell masked a b keys h rs p).

Lemma K0 : forall h, In h kh0 -> In h (names a) /\ is_null h = false.
Proof.
  intros h Hin. apply in_map_iff in Hin. destruct Hin as (k & <- & Hk).
  pose proof (wj_keys _ _ _ _ WJ) as F. rewrite Forall_forall in F. destruct (F k Hk). tauto.
Qed.
Lemma K1 : forall h, In h kh1 -> In h (names b) /\ is_null h = false.
Proof.
  intros h Hin. apply in_map_iff in Hin. destruct Hin as (k & <- & Hk).
  pose proof (wj_keys _ _ _ _ WJ) as F. rewrite Forall_forall in F. destruct (F k Hk). tauto.
Qed.
Lemma null_in_a : In null_header (names a).
Proof. destruct (wf_null _ _ WA) as (c & Hc & _). eapply lookup_names; eauto. Qed.

Lemma nonkey1_spec h : In h nonkey1 <-> In h (names b) /\ is_null h = false /\ ~ In h kh1.
Proof.
  unfold nonkey1. rewrite filter_In, andb_true_iff, !negb_true_iff, mem_false. tauto.
Qed.
Lemma nonkey1_not_a h : In h nonkey1 -> ~ In h (names a).
Proof. rewrite nonkey1_spec. intros (H1 & H2 & H3). now apply (wj_distinct _ _ _ _ WJ). Qed.

Lemma names_res : names res = names a ++ nonkey1.
Proof.
  unfold res, result_headers. rewrite names_app, names_types_of. f_equal.
  rewrite (names_filter_types (fun h => negb (mem h (names a)) && negb (mem h (map snd keys)))).
  unfold nonkey1. apply filter_ext_in. intros h Hb. fold kh1.
  destruct (mem h kh1) eqn:Ek; [now rewrite !andb_false_r|]. rewrite !andb_true_r. f_equal.
  destruct (is_null h) eqn:En.
  - apply is_null_true in En. subst. apply mem_In. exact null_in_a.
  - apply mem_false. apply (wj_distinct _ _ _ _ WJ); auto. now apply mem_false.
Qed.
Lemma nodup_res : NoDup (names res).
Proof.
  rewrite names_res. apply NoDup_app_intro.
  - exact (wf_nodup _ _ WA).
  - apply NoDup_filter'. exact (wf_nodup _ _ WB).
  - intros x Ha Hn. exact (nonkey1_not_a _ Hn Ha).
Qed.
Lemma lookup_res_a h c : lookup h a = Some c -> lookup h res = Some (c_rs c).
Proof.
  intros H. unfold res, result_headers. now rewrite lookup_app, lookup_types_of, H.
Qed.
Lemma lookup_res_b h : In h nonkey1 -> exists c, lookup h b = Some c /\ lookup h res = Some (c_rs c).
Proof.
  intros Hn. pose proof (nonkey1_not_a _ Hn) as Hna. apply nonkey1_spec in Hn.
  destruct Hn as (Hb & Hnull & Hk). destruct (names_lookup _ _ Hb) as (c & Hc).
  exists c. split; [exact Hc|]. unfold res, result_headers.
  rewrite lookup_app, lookup_types_of. apply lookup_None in Hna. rewrite Hna. cbn.
  rewrite (lookup_filter (fun h => negb (mem h (names a)) && negb (mem h (map snd keys)))).
  - now rewrite lookup_types_of, Hc.
  - apply andb_true_iff. split; apply negb_true_iff, mem_false; auto. now apply lookup_None.
Qed.

(* the row of the first table, copied into the result *)
Lemma emit_a rc rows i oj :
  inv masked res rc rows -> (i < nrows a)%nat -> live a i = true ->
  exists rc1, copy_all set0 i (names a) rc = Ok rc1 /\
              pinv masked res rc1 rows (rowdesc_of (PA i oj)) (names a ++ []).
Proof.
  intros Hi Hlt Hlive.
  apply (copy_all_pinv masked res set0 i rows (rowdesc_of (PA i oj)) (names a) rc []).
  - destruct Hi as (H1 & H2 & H3). repeat split; auto.
  - exact (wf_nodup _ _ WA).
  - reflexivity.
  - reflexivity.
  - intros h Hin. destruct (is_null h) eqn:En.
    + destruct (ex_null masked a WA i Hlt) as (Hn & Hb). eexists; split; [exact Hn|].
      cbn. unfold live in Hlive. destruct Hb as [E|E]; rewrite E in *; [discriminate|reflexivity].
    + destruct (names_lookup _ _ Hin) as (c & Hc). exists (c_rs c). split; [now apply lookup_res_a|].
      cbn. replace (mem h (names a)) with true by (symmetry; now apply mem_In).
      now apply ex_src_entry.
Qed.

Lemma nonkey1_nodup : NoDup nonkey1.
Proof. apply NoDup_filter'. exact (wf_nodup _ _ WB). Qed.
Lemma nonkey1_fresh h : In h nonkey1 -> mem h (names a ++ []) = false.
Proof. intros Hn. rewrite app_nil_r. apply mem_false. now apply nonkey1_not_a. Qed.

Lemma emit_b_copy rc rows i j :
  pinv masked res rc rows (rowdesc_of (PA i (Some j))) (names a ++ []) -> (j < nrows b)%nat ->
  exists rc2, copy_all set1 j nonkey1 rc = Ok rc2 /\
              pinv masked res rc2 rows (rowdesc_of (PA i (Some j))) (nonkey1 ++ names a ++ []).
Proof.
  intros Hp Hj.
  apply (copy_all_pinv masked res set1 j rows _ nonkey1 rc (names a ++ [])); auto.
  - exact nonkey1_nodup.
  - exact nonkey1_fresh.
  - intros h Hn. pose proof (nonkey1_not_a _ Hn) as Hna. pose proof Hn as Hn'.
    apply nonkey1_spec in Hn'. destruct Hn' as (Hb & Hnull & _). rewrite Hnull.
    destruct (lookup_res_b _ Hn) as (c & Hc & Hr). exists (c_rs c). split; [exact Hr|].
    cbn. replace (mem h (names a)) with false by (symmetry; now apply mem_false).
    now apply ex_src_entry.
Qed.
Lemma emit_b_zero rc rows i :
  pinv masked res rc rows (rowdesc_of (PA i None)) (names a ++ []) ->
  exists rc2, zero_all nonkey1 rc = Ok rc2 /\
              pinv masked res rc2 rows (rowdesc_of (PA i None)) (nonkey1 ++ names a ++ []).
Proof.
  intros Hp.
  apply (zero_all_pinv masked res rows _ nonkey1 rc (names a ++ [])); auto.
  - exact nonkey1_nodup.
  - exact nonkey1_fresh.
  - intros h Hn. pose proof (nonkey1_not_a _ Hn) as Hna. pose proof Hn as Hn'.
    apply nonkey1_spec in Hn'. destruct Hn' as (Hb & Hnull & _). split; [exact Hnull|].
    destruct (lookup_res_b _ Hn) as (c & Hc & Hr). exists (c_rs c). split; [exact Hr|].
    cbn. replace (mem h (names a)) with false by (symmetry; now apply mem_false). reflexivity.
Qed.
Lemma emit_close rc rows r :
  pinv masked res rc rows r (nonkey1 ++ names a ++ []) -> inv masked res rc (rows ++ [r]).
Proof.
  intros Hp. apply (pinv_close masked res rc rows r _ Hp).
  - intros h Hin. rewrite names_res in Hin. rewrite app_nil_r. apply mem_In.
    apply in_app_iff in Hin. apply in_app_iff. tauto.
  - apply mem_In. apply in_app_iff. right. rewrite app_nil_r. exact null_in_a.
Qed.
Lemma emit_zero rc rows :
  inv masked res rc rows -> inv masked res (append_zero_row rc) (rows ++ [rowdesc_of PZero]).
Proof. apply append_zero_row_inv. Qed.

Lemma render_spec ps : render masked res (map rowdesc_of ps)
  = map (fun hr =>
           if is_null (fst hr) then (fst hr, mkcol 1 [] (map null_cell ps))
           else let cells := map (cell masked a b keys (fst hr) (snd hr)) ps in
                (fst hr, mkcol (snd hr) (if masked then map fst cells else []) (map snd cells))) res.
Proof.
  unfold render. apply map_ext. intros (h, rs). cbn [fst snd].
  destruct (is_null h).
  - f_equal. f_equal. rewrite map_map. apply map_ext. intros []; reflexivity.
  - unfold colof. rewrite !map_map. reflexivity.
Qed.

Lemma e0 i : (i < nrows a)%nat ->
  row_has_empty_entries set0 i kh0 = Ok (negb (key_live masked a kh0 i)).
Proof. exact (ex_empty masked a WA kh0 i K0). Qed.
Lemma f0 i : (i < nrows a)%nat -> get_flattened_row set0 i kh0 = Ok (row_key a kh0 i).
Proof. exact (ex_flat masked a WA kh0 i K0). Qed.
Lemma n0 i : (i < nrows a)%nat -> idx (cm_null set0) i = Ok (null_bit a i) /\ bit (null_bit a i).
Proof. exact (ex_null masked a WA i). Qed.

Lemma h1 : unique_live_keys masked b kh1 ->
  exists hm, get_hashmap_from_key_columns set1 kh1 = Ok hm /\
             forall k, hm_get k hm = find_row masked b kh1 k.
Proof. exact (hashmap_ok masked b WB kh1 K1). Qed.
Lemma len0 : get_num_rows set0 = nrows a.
Proof. exact (ex_null_len masked a WA). Qed.

Section WithHash.
Hypothesis UB : unique_live_keys masked b kh1.
Variable hm1 : keyhash.
Hypothesis Hhm : forall k, hm_get k hm1 = find_row masked b kh1 k.

Lemma find_row_lt k j : find_row masked b kh1 k = Some j -> (j < nrows b)%nat.
Proof. unfold find_row. intros H. apply find_some in H. destruct H as (H & _). apply in_seq in H. lia. Qed.

Lemma inner_step rc rows i : (i < nrows a)%nat -> inv masked res rc rows ->
  exists rc',
    (let* e := row_has_empty_entries set0 i kh0 in
     if e then Ok (append_zero_row rc) else
     let* k := get_flattened_row set0 i kh0 in
     match hm_get k hm1 with
     | Some j => let* rc := copy_all set0 i (names a) rc in copy_all set1 j nonkey1 rc
     | None => Ok (append_zero_row rc)
     end) = Ok rc' /\
    inv masked res rc'
        (rows ++ [rowdesc_of (match match_of masked a b kh0 kh1 i with
                              | Some j => PA i (Some j) | None => PZero end)]).
Proof.
  intros Hlt Hi. rewrite (e0 i Hlt). cbn [bind]. unfold match_of.
  destruct (key_live masked a kh0 i) eqn:Ekl; cbn [negb].
  - rewrite (f0 i Hlt). cbn [bind]. rewrite Hhm.
    destruct (find_row masked b kh1 (row_key a kh0 i)) as [j|] eqn:Ef.
    + assert (Hlive : live a i = true) by (unfold key_live in Ekl; now apply andb_true_iff in Ekl).
      destruct (emit_a rc rows i (Some j) Hi Hlt Hlive) as (rc1 & -> & Hp1). cbn [bind].
      destruct (emit_b_copy rc1 rows i j Hp1 (find_row_lt _ _ Ef)) as (rc2 & -> & Hp2).
      eexists; split; [reflexivity|]. now apply emit_close.
    + eexists; split; [reflexivity|]. now apply emit_zero.
  - eexists; split; [reflexivity|]. now apply emit_zero.
Qed.

Lemma left_step rc rows i : (i < nrows a)%nat -> inv masked res rc rows ->
  exists rc',
    (let* nb := idx (cm_null set0) i in
     if nb =? 0 then Ok (append_zero_row rc) else
     let* rc := copy_all set0 i (names a) rc in
     let* e := row_has_empty_entries set0 i kh0 in
     if e then zero_all nonkey1 rc else
     let* k := get_flattened_row set0 i kh0 in
     match hm_get k hm1 with
     | Some j => copy_all set1 j nonkey1 rc
     | None => zero_all nonkey1 rc
     end) = Ok rc' /\
    inv masked res rc'
        (rows ++ [rowdesc_of (if live a i then PA i (match_of masked a b kh0 kh1 i) else PZero)]).
Proof.
  intros Hlt Hi. destruct (n0 i Hlt) as (-> & _). cbn [bind].
  unfold live at 1. destruct (null_bit a i =? 0) eqn:E0; cbn [negb].
  - eexists; split; [reflexivity|]. now apply emit_zero.
  - assert (Hlive : live a i = true) by (unfold live; now rewrite E0).
    unfold match_of.
    rewrite (e0 i Hlt).
    destruct (key_live masked a kh0 i) eqn:Ekl; cbn [negb].
    + destruct (find_row masked b kh1 (row_key a kh0 i)) as [j|] eqn:Ef.
      * destruct (emit_a rc rows i (Some j) Hi Hlt Hlive) as (rc1 & -> & Hp1). cbn [bind].
        rewrite (f0 i Hlt). cbn [bind]. rewrite Hhm, Ef.
        destruct (emit_b_copy rc1 rows i j Hp1 (find_row_lt _ _ Ef)) as (rc2 & -> & Hp2).
        eexists; split; [reflexivity|]. now apply emit_close.
      * destruct (emit_a rc rows i None Hi Hlt Hlive) as (rc1 & -> & Hp1). cbn [bind].
        rewrite (f0 i Hlt). cbn [bind]. rewrite Hhm, Ef.
        destruct (emit_b_zero rc1 rows i Hp1) as (rc2 & -> & Hp2).
        eexists; split; [reflexivity|]. now apply emit_close.
    + destruct (emit_a rc rows i None Hi Hlt Hlive) as (rc1 & -> & Hp1). cbn [bind].
      destruct (emit_b_zero rc1 rows i Hp1) as (rc2 & -> & Hp2).
      eexists; split; [reflexivity|]. now apply emit_close.
Qed.
End WithHash.

Lemma nonkey1_impl :
  filter (fun h => negb (is_null h) && negb (mem h (map snd keys))) (names b) = nonkey1.
Proof. reflexivity. Qed.

Theorem inner_impl_spec : unique_live_keys masked b kh1 ->
  join_impl JInner masked a b keys = Ok (join_spec masked JInner a b keys).
Proof.
  intros UB. unfold join_impl, evaluate_join, evaluate_join3. cbv zeta.
  fold kh0 kh1 set0 set1 res.
  destruct (h1 UB) as (hm & -> & Hhm). cbn [bind].
  unfold get_inner_join_columns. cbn [ji_set0 ji_set1 ji_headers0 ji_kh0 ji_nonkey1 ji_hm1 ji_res].
  fold nonkey1.
  change (cm_masked set0) with masked. rewrite len0.
  destruct (foldM_rows masked res
              (fun rc i =>
                 let* e := row_has_empty_entries set0 i kh0 in
                 if e then Ok (append_zero_row rc) else
                 let* k := get_flattened_row set0 i kh0 in
                 match hm_get k hm with
                 | Some j => let* rc := copy_all set0 i (names a) rc in copy_all set1 j nonkey1 rc
                 | None => Ok (append_zero_row rc)
                 end)
              (fun i => rowdesc_of (match match_of masked a b kh0 kh1 i with
                                    | Some j => PA i (Some j) | None => PZero end))
              (seq 0 (nrows a)) _ [] (init_inv masked res)) as (rc' & -> & Hinv).
  - intros rc rows i Hin Hi. apply in_seq in Hin. apply inner_step; auto. lia.
  - cbn [bind app] in *. rewrite (to_value_inv masked res rc' _ Hinv nodup_res).
    f_equal. rewrite <- (map_map (fun i => match match_of masked a b kh0 kh1 i with
                                           | Some j => PA i (Some j) | None => PZero end) rowdesc_of).
    rewrite render_spec. reflexivity.
Qed.

Theorem left_impl_spec : unique_live_keys masked b kh1 ->
  join_impl JLeft masked a b keys = Ok (join_spec masked JLeft a b keys).
Proof.
  intros UB. unfold join_impl, evaluate_join, evaluate_join3. cbv zeta.
  fold kh0 kh1 set0 set1 res.
  destruct (h1 UB) as (hm & -> & Hhm). cbn [bind].
  unfold get_left_join_columns. cbn [ji_set0 ji_set1 ji_headers0 ji_kh0 ji_nonkey1 ji_hm1 ji_res].
  fold nonkey1.
  change (cm_masked set0) with masked. rewrite len0.
  destruct (foldM_rows masked res
              (fun rc i =>
                 let* nb := idx (cm_null set0) i in
                 if nb =? 0 then Ok (append_zero_row rc) else
                 let* rc := copy_all set0 i (names a) rc in
                 let* e := row_has_empty_entries set0 i kh0 in
                 if e then zero_all nonkey1 rc else
                 let* k := get_flattened_row set0 i kh0 in
                 match hm_get k hm with
                 | Some j => copy_all set1 j nonkey1 rc
                 | None => zero_all nonkey1 rc
                 end)
              (fun i => rowdesc_of (if live a i then PA i (match_of masked a b kh0 kh1 i) else PZero))
              (seq 0 (nrows a)) _ [] (init_inv masked res)) as (rc' & -> & Hinv).
  - intros rc rows i Hin Hi. apply in_seq in Hin. apply left_step; auto. lia.
  - cbn [bind app] in *. rewrite (to_value_inv masked res rc' _ Hinv nodup_res).
    f_equal. rewrite <- (map_map (fun i => if live a i then PA i (match_of masked a b kh0 kh1 i) else PZero) rowdesc_of).
    rewrite render_spec. reflexivity.
Qed.
End Joins.

(* ------------------------------------------------------- documented identities on the specification *)
Definition expected_rows (jt : jtype) (a b : table) : nat :=
  match jt with JInner | JLeft => nrows a | JUnion | JFull => (nrows a + nrows b)%nat end.

Lemma provs_length masked jt a b keys : length (provs masked jt a b keys) = expected_rows jt a b.
Proof.
  destruct jt; unfold provs, unmatched_of_first, expected_rows;
    rewrite ?app_length, ?map_length, ?seq_length; reflexivity.
Qed.

Lemma spec_row_count masked jt a b keys :
  Forall (fun hc => length (c_rows (snd hc)) = expected_rows jt a b) (join_spec masked jt a b keys).
Proof.
  apply Forall_forall. intros hc Hin. unfold join_spec in Hin. apply in_map_iff in Hin.
  destruct Hin as (hr & <- & _). destruct (is_null (fst hr)); cbn [snd c_rows];
    rewrite !map_length; apply provs_length.
Qed.

Lemma spec_columns masked jt a b keys :
  map (fun hc => (fst hc, c_rs (snd hc))) (join_spec masked jt a b keys)
  = map (fun hr => (fst hr, if is_null (fst hr) then 1%nat else snd hr)) (result_headers a b keys).
Proof.
  unfold join_spec. rewrite map_map. apply map_ext. intros hr. destruct (is_null (fst hr)); reflexivity.
Qed.

Lemma inner_rows_are_left_rows masked a b keys i i' oj :
  nth_error (provs masked JInner a b keys) i = Some (PA i' oj) ->
  nth_error (provs masked JLeft a b keys) i = Some (PA i' oj).
Proof.
  unfold provs. rewrite !nth_error_map. destruct (nth_error (seq 0 (nrows a)) i) as [x|]; [|discriminate].
  cbn [option_map]. unfold match_of. destruct (key_live masked a (map fst keys) x) eqn:E.
  - assert (L : live a x = true) by (unfold key_live in E; now apply andb_true_iff in E).
    rewrite L. destruct (find_row masked b (map snd keys) (row_key a (map fst keys) x)); [auto|discriminate].
  - discriminate.
Qed.

(* ---------------- the hypothesis [full_ok] is needed: a witness outside it (a finding about /repo) *)
Definition wit_s1 (l : list Z) : list row := map (fun x => [x]) l.
Definition wit_A : table :=
  [(null_header, mkcol 1 [] (wit_s1 [1])); ("k0"%string, mkcol 1 [] (wit_s1 [5]));
   ("j0"%string, mkcol 1 [] (wit_s1 [7]))].
Definition wit_B : table :=
  [(null_header, mkcol 1 [] (wit_s1 [1])); ("j0"%string, mkcol 1 [] (wit_s1 [5]));
   ("pb0"%string, mkcol 1 [] (wit_s1 [9]))].
Definition wit_K : keymap := [("k0"%string, "j0"%string)].

Ltac nodup3 := repeat (constructor; [cbn; unfold null_header; intuition discriminate|]); constructor.
Ltac rows3 t :=
  let h := fresh "h" in let c := fresh "c" in let H := fresh "H" in
  intros h c; assert (E : nrows t = 1%nat) by reflexivity; rewrite E; unfold t; cbn [lookup];
  repeat (destruct (String.eqb h _); [intros H; inversion H; reflexivity|]); discriminate.

Lemma wit_wf_A : wf_table false wit_A.
Proof.
  constructor.
  - nodup3.
  - eexists; split; [reflexivity|]. repeat constructor. eexists; split; [reflexivity|now right].
  - rows3 wit_A.
  - discriminate.
Qed.
Lemma wit_wf_B : wf_table false wit_B.
Proof.
  constructor.
  - nodup3.
  - eexists; split; [reflexivity|]. repeat constructor. eexists; split; [reflexivity|now right].
  - rows3 wit_B.
  - discriminate.
Qed.
Lemma wit_wf : wf_join false wit_A wit_B wit_K.
Proof.
  constructor.
  - exact wit_wf_A.
  - exact wit_wf_B.
  - constructor; [|constructor]. cbn. repeat split; auto.
  - cbn. intros h [<-|[<-|[<-|[]]]] Hn Hk.
    + discriminate.
    + exfalso. apply Hk. now left.
    + unfold null_header. intuition discriminate.
Qed.
Lemma full_join_header_collision_refuted :
  exists a b keys,
    wf_join false a b keys /\ ~ full_ok a keys /\
    unique_live_keys false a (map fst keys) /\ unique_live_keys false b (map snd keys) /\
    join_impl JFull false a b keys <> Ok (join_spec false JFull a b keys).
Proof.
  exists wit_A, wit_B, wit_K. split; [exact wit_wf|]. split; [|split; [|split]].
  - intros F. specialize (F "j0"%string (or_introl eq_refl)).
    destruct F as [E|[]]; [|discriminate]. cbn. right. right. now left.
  - intros i j Hi Hj _ _ _. assert (E : nrows wit_A = 1%nat) by reflexivity. rewrite E in *. lia.
  - intros i j Hi Hj _ _ _. assert (E : nrows wit_B = 1%nat) by reflexivity. rewrite E in *. lia.
  - vm_compute. discriminate.
Qed.

(* C06 / meta-operation pass, every proxy: value preservation of opt_meta including the rewrites
   that CREATE nodes, VectorGet (ArrayToVector a) i -> Get / GetSlice and
   VectorGet (Zip [v1..vk]) i -> CreateTuple [VectorGet v1 i; ...].
   The elements of the proxies these rewrites record are NEW nodes without an old counterpart, so
   the invariant describes a proxy by what holds in the new graph (pshape) instead of through the
   node map as Proofs/OptMetaSem.v does. *)
From CC Require Import Base.Prelude Base.Scalar Base.Ty Base.Shape Graph.Value Graph.IR Graph.Eval
  Model.Opt Model.Uniquify Proofs.OptBase Proofs.OptSem Proofs.OptSim Proofs.OptFresh Proofs.OptDangling
  Proofs.OptDup Proofs.OptConst Proofs.OptMeta Proofs.EvalProofs Proofs.OptBits Proofs.OptMetaSem
  Proofs.OptMetaEval.

(* ------------------------------------------------------------------ three lists in step *)
Section All3.
  Context {A B C : Type}.
  Variable R : A -> B -> C -> Prop.
  Fixpoint all3 (l : list A) (bs : list B) (cs : list C) {struct l} : Prop :=
    match l with
    | [] => match bs, cs with [], [] => True | _, _ => False end
    | a :: l' => match bs, cs with
                 | b :: bs', c :: cs' => R a b c /\ all3 l' bs' cs'
                 | _, _ => False
                 end
    end.

  Lemma all3_length l : forall bs cs, all3 l bs cs -> length bs = length l /\ length cs = length l.
  Proof.
    induction l as [|a l IH]; intros [|b bs] [|c cs] H; cbn in H; try contradiction; auto.
    destruct H as (_ & H). apply IH in H. cbn. lia.
  Qed.

  Lemma all3_nth l : forall bs cs k a, all3 l bs cs -> nth_error l k = Some a ->
    exists b c, nth_error bs k = Some b /\ nth_error cs k = Some c /\ R a b c.
  Proof.
    induction l as [|a0 l IH]; intros [|b bs] [|c cs] k a H E; cbn in H; try contradiction;
      try (destruct k; discriminate).
    destruct H as (H0 & H). destruct k as [|k]; cbn in E.
    - injection E as <-. exists b, c. auto.
    - cbn [nth_error]. exact (IH bs cs k a H E).
  Qed.

  Lemma all3_intro l : forall bs cs, length bs = length l -> length cs = length l ->
    (forall k a b c, nth_error l k = Some a -> nth_error bs k = Some b -> nth_error cs k = Some c -> R a b c) ->
    all3 l bs cs.
  Proof.
    induction l as [|a l IH]; intros [|b bs] [|c cs] L1 L2 H; cbn in L1, L2; try discriminate; cbn; auto.
    split; [apply (H O); reflexivity|]. apply IH; try lia. intros k. apply (H (S k)).
  Qed.

  Lemma all3_app l1 : forall b1 c1 l2 b2 c2, all3 l1 b1 c1 -> all3 l2 b2 c2 -> all3 (l1 ++ l2) (b1 ++ b2) (c1 ++ c2).
  Proof.
    induction l1 as [|a l1 IH]; intros [|b b1] [|c c1] l2 b2 c2 H1 H2; cbn in H1; try contradiction; auto.
    destruct H1 as (H0 & H1). cbn [app all3]. split; auto.
  Qed.
End All3.

Lemma all3_impl {A B C} (R R' : A -> B -> C -> Prop) l : forall bs cs,
  (forall a b c, In a l -> R a b c -> R' a b c) -> all3 R l bs cs -> all3 R' l bs cs.
Proof.
  induction l as [|a l IH]; intros [|b bs] [|c cs] H H3; cbn in H3; try contradiction; auto.
  destruct H3 as (H0 & H3). cbn. split; [apply H; [left|]; auto|]. apply IH; auto. intros; apply H; auto. now right.
Qed.

Lemma all3_combine {N A B C} (R : A -> B -> C -> Prop) (names : list N) l : forall bs cs,
  length names = length l -> all3 R l bs cs -> all3 (fun x => R (snd x)) (combine names l) bs cs.
Proof.
  revert names. induction l as [|a l IH]; intros [|n names] [|b bs] [|c cs] L H; cbn in L, H; try discriminate;
    try contradiction; auto.
  destruct H as (H0 & H). cbn. split; auto.
Qed.

(* ------------------------------------------------------------------ what holds at a new node *)
Definition holds (tys : list ty) (vals' : list value) (j : Z) (v : value) (t : ty) : Prop :=
  0 <= j /\ nth_error vals' (Z.to_nat j) = Some v /\ nth_error tys (Z.to_nat j) = Some t.

Lemma holds_app tys t2 vals' v2 j v t : holds tys vals' j v t -> holds (tys ++ t2) (vals' ++ v2) j v t.
Proof. intros (J & V & T). repeat split; auto using nth_error_app1'. Qed.

Lemma holds_fun tys vals' j v t v' t' : holds tys vals' j v t -> holds tys vals' j v' t' -> v = v' /\ t = t'.
Proof. intros (_ & A & B) (_ & A' & B'). split; congruence. Qed.

(* a proxy p describes a value v of type t: by induction on the proxy, the elements being
   (proxy, new node) pairs that hold their part of v in the new graph *)
Section Shape.
  Variables (tys : list ty) (vals' : list value).
  Fixpoint pshape (p : proxy) (v : value) (t : ty) {struct p} : Prop :=
    match p with
    | PNumber x => v = VArr [x] /\ t = TScalar U64
    | PUnknown => True
    | PA2V arr =>
        exists va d rest st,
          holds tys vals' arr va (TArray (d :: rest) st) /\ valid_shape (d :: rest) /\ d < 2 ^ 63 /\
          t = TVector d (elem_ty rest st) /\
          eval_node OArrayToVector [TArray (d :: rest) st] t [va] = Ok v
    | PTuple l =>
        exists ws ts, v = VTup ws /\ t = TTuple ts /\
          all3 (fun e w t' => holds tys vals' (snd e) w t' /\ pshape (fst e) w t') l ws ts
    | PNamed l =>
        exists ws ts, v = VTup ws /\ t = TNamed (combine (map fst l) ts) /\ NoDup (map fst l) /\
          all3 (fun e w t' => holds tys vals' (snd (snd e)) w t' /\ pshape (fst (snd e)) w t') l ws ts
    | PZip l =>
        exists vs n ets, t = TVector n (TTuple ets) /\
          all3 (fun e w t' => holds tys vals' (snd e) w t' /\ pshape (fst e) w t') l vs (map (TVector n) ets) /\
          eval_node OZip (map (TVector n) ets) t vs = Ok v
    | PVector l =>
        exists ws et, v = VTup ws /\ t = TVector (Z.of_nat (length l)) et /\ Z.of_nat (length l) < 2 ^ 64 /\
          all3 (fun e w t' => holds tys vals' (snd e) w t' /\ pshape (fst e) w t') l ws (repeat et (length ws))
    | PA2B n =>
        exists vx tx, holds tys vals' n vx tx /\ has_type vx tx = true /\ leaf_valid tx /\
          t = TArray (shape_of tx ++ [width (st_of tx)]) Bit /\ eval_node OA2B [tx] t [vx] = Ok v
    | PB2A n =>
        exists vx st sh, holds tys vals' n vx (TArray (sh ++ [width st]) Bit) /\
          has_type vx (TArray (sh ++ [width st]) Bit) = true /\ t = b2a_ty sh st /\
          eval_node (OB2A st) [TArray (sh ++ [width st]) Bit] t [vx] = Ok v
    end.
  Definition pgood (e : pw) (v : value) (t : ty) : Prop := holds tys vals' (snd e) v t /\ pshape (fst e) v t.
End Shape.

Section ProxyInd.
  Variable P : proxy -> Prop.
  Hypothesis HN : forall n, P (PNumber n).
  Hypothesis HU : P PUnknown.
  Hypothesis HA : forall a, P (PA2V a).
  Hypothesis HT : forall l, Forall (fun e : proxy * Z => P (fst e)) l -> P (PTuple l).
  Hypothesis HNm : forall l, Forall (fun e : string * (proxy * Z) => P (fst (snd e))) l -> P (PNamed l).
  Hypothesis HZ : forall l, Forall (fun e : proxy * Z => P (fst e)) l -> P (PZip l).
  Hypothesis HV : forall l, Forall (fun e : proxy * Z => P (fst e)) l -> P (PVector l).
  Hypothesis HAB : forall n, P (PA2B n).
  Hypothesis HBA : forall n, P (PB2A n).
  Fixpoint proxy_ind' (p : proxy) : P p :=
    match p with
    | PNumber n => HN n
    | PUnknown => HU
    | PA2V a => HA a
    | PTuple l => HT l ((fix go (l : list (proxy * Z)) : Forall (fun e => P (fst e)) l :=
                           match l with
                           | [] => Forall_nil _
                           | e :: r => Forall_cons e (proxy_ind' (fst e)) (go r)
                           end) l)
    | PNamed l => HNm l ((fix go (l : list (string * (proxy * Z))) : Forall (fun e => P (fst (snd e))) l :=
                            match l with
                            | [] => Forall_nil _
                            | e :: r => Forall_cons e (proxy_ind' (fst (snd e))) (go r)
                            end) l)
    | PZip l => HZ l ((fix go (l : list (proxy * Z)) : Forall (fun e => P (fst e)) l :=
                         match l with
                         | [] => Forall_nil _
                         | e :: r => Forall_cons e (proxy_ind' (fst e)) (go r)
                         end) l)
    | PVector l => HV l ((fix go (l : list (proxy * Z)) : Forall (fun e => P (fst e)) l :=
                            match l with
                            | [] => Forall_nil _
                            | e :: r => Forall_cons e (proxy_ind' (fst e)) (go r)
                            end) l)
    | PA2B n => HAB n
    | PB2A n => HBA n
    end.
End ProxyInd.

Lemma pshape_app tys t2 vals' v2 p : forall v t,
  pshape tys vals' p v t -> pshape (tys ++ t2) (vals' ++ v2) p v t.
Proof.
  induction p as [x| |arr|l IH|l IH|l IH|l IH|n|n] using proxy_ind'; intros v t; cbn [pshape]; auto.
  - intros (va & d & rest & st & H & R). exists va, d, rest, st. split; auto using holds_app.
  - intros (ws & ts & E1 & E2 & H). exists ws, ts. split; auto. split; auto.
    eapply all3_impl; [|exact H]. rewrite Forall_forall in IH. cbn. intros e w t' I (Hh & Hp). auto using holds_app.
  - intros (ws & ts & E1 & E2 & E3 & H). exists ws, ts. split; auto. split; auto. split; auto.
    eapply all3_impl; [|exact H]. rewrite Forall_forall in IH. cbn. intros e w t' I (Hh & Hp). auto using holds_app.
  - intros (vs & n & ets & E1 & H & E2). exists vs, n, ets. split; auto. split; auto.
    eapply all3_impl; [|exact H]. rewrite Forall_forall in IH. cbn. intros e w t' I (Hh & Hp). auto using holds_app.
  - intros (ws & et & E1 & E2 & E3 & H). exists ws, et. split; auto. split; auto. split; auto.
    eapply all3_impl; [|exact H]. rewrite Forall_forall in IH. cbn. intros e w t' I (Hh & Hp). auto using holds_app.
  - intros (vx & tx & H & R). exists vx, tx. split; auto using holds_app.
  - intros (vx & st & sh & H & R). exists vx, st, sh. split; auto using holds_app.
Qed.

Lemma pgood_app tys t2 vals' v2 e v t : pgood tys vals' e v t -> pgood (tys ++ t2) (vals' ++ v2) e v t.
Proof. intros (H & P). split; auto using holds_app, pshape_app. Qed.

Lemma all3_pgood_app tys t2 vals' v2 l ws ts :
  all3 (pgood tys vals') l ws ts -> all3 (pgood (tys ++ t2) (vals' ++ v2)) l ws ts.
Proof. apply all3_impl. intros; now apply pgood_app. Qed.

(* the new nodes the pass creates are typed by the builder's type inference *)
Definition infer_meta (infer : op -> list ty -> ty) : Prop :=
  (forall d rest st idx, 0 <= idx < d -> infer (row_op rest idx) [TArray (d :: rest) st] = elem_ty rest st) /\
  (forall n et it, infer OVectorGet [TVector n et; it] = et) /\
  (forall dts, infer OCreateTuple dts = TTuple dts).

Lemma as_u64_small' x : 0 <= x < 2 ^ 64 -> as_u64 U64 x = x.
Proof.
  intros R. unfold as_u64, sval, norm. change (modulus U64) with (2 ^ 64). cbn [signed andb].
  rewrite !Z.mod_small; lia.
Qed.

(* dependencies that hold in the new graph are what a new node reads *)
Lemma holds_dep_get tys vals' n deps : forall vs dts,
  length tys = n -> length vals' = n -> all3 (holds tys vals') deps vs dts ->
  mapM (dep_get vals' n) deps = Ok vs /\ mapM (dep_get tys n) deps = Ok dts.
Proof.
  induction deps as [|d deps IH]; intros [|v vs] [|t dts] L1 L2 H; cbn in H; try contradiction; auto.
  destruct H as ((J & V & T) & H). destruct (IH _ _ L1 L2 H) as (E1 & E2). cbn [mapM].
  pose proof (nth_error_Some_lt _ _ _ V). pose proof (nth_error_Some_lt _ _ _ T).
  rewrite (dep_get_intro _ _ _ _ V), (dep_get_intro _ _ _ _ T) by lia. cbn [bind]. now rewrite E1, E2.
Qed.

(* appending a non-tape node whose operands hold *)
Lemma emit_sem out tape' vals1 nd vs dts v :
  valuation eval_node from_tape out tape' vals1 ->
  from_tape (n_op nd) = false ->
  all3 (holds (map n_ty out) vals1) (n_deps nd) vs dts ->
  eval_node (n_op nd) dts (n_ty nd) vs = Ok v ->
  valuation eval_node from_tape (out ++ [nd]) tape' (vals1 ++ [v]) /\
  holds (map n_ty (out ++ [nd])) (vals1 ++ [v]) (Z.of_nat (length out)) v (n_ty nd) /\
  (forall infer, n_ty nd = infer (n_op nd) dts -> typed_nodes infer out -> typed_nodes infer (out ++ [nd])).
Proof.
  intros V Ft H E. pose proof V as (L & _).
  destruct (holds_dep_get _ _ (length out) _ _ _ (map_length _ _) L H) as (E1 & E2).
  split; [|split].
  - apply valuation_snoc; auto. unfold node_sem. rewrite Ft. exists vs, dts. rewrite <- L at 1. rewrite L. auto.
  - split; [lia|]. rewrite Nat2Z.id. split.
    + rewrite <- L. apply nth_error_snoc.
    + rewrite map_app. cbn [map]. rewrite <- (map_length n_ty out). apply nth_error_snoc.
  - intros infer Ty T. eapply typed_nodes_snoc; eauto.
Qed.

Lemma holds_node_ty out vals1 j v t : holds (map n_ty out) vals1 j v t -> node_ty_at out j = Ok t.
Proof.
  intros (J & _ & T). rewrite nth_error_map in T. destruct (nth_error out (Z.to_nat j)) as [nd|] eqn:E; [|discriminate].
  injection T as <-. unfold node_ty_at. assert (Ez : znth out j = Ok nd) by (apply znth_ok; auto). now rewrite Ez.
Qed.

Lemma all3_pgood_holds tys vals1 sl : forall ws ts,
  all3 (pgood tys vals1) sl ws ts -> all3 (holds tys vals1) (map snd sl) ws ts.
Proof.
  induction sl as [|e sl IH]; intros [|w0 wv] [|t0 ets] G; cbn in G; try contradiction; auto.
  destruct G as ((Hh & _) & G). cbn. split; auto.
Qed.

Lemma all3_pgood_tys out vals1 sl : forall ws ts tys,
  all3 (pgood (map n_ty out) vals1) sl ws ts -> mapM (fun e => node_ty_at out (snd e)) sl = Ok tys -> tys = ts.
Proof.
  induction sl as [|e sl IH]; intros [|w0 wv] [|t0 ets] tys G M; cbn in G; try contradiction; cbn [mapM] in M.
  - now injection M as <-.
  - destruct G as ((Hh & _) & G). apply bind_ok in M as (t1 & E1 & M). apply bind_ok in M as (ts & E2 & M).
    injection M as <-. rewrite (holds_node_ty _ _ _ _ _ Hh) in E1. injection E1 as <-. f_equal. eauto.
Qed.

(* ------------------------------------------------------------------ VectorGet through a proxy *)
Section Mvg.
  Variable tape' : Z -> option value.
  Variables (index inode n : Z).
  Let id := as_u64 U64 index.
  Hypothesis Hid : id < n.

  (* e stands for a vector with n entries whose entry id is w, of type et *)
  Definition vec_ok (tys : list ty) (vals1 : list value) (e : pw) (w : value) (et : ty) : Prop :=
    exists ws, pgood tys vals1 e (VTup ws) (TVector n et) /\ znth ws id = Ok w.

  Lemma vec_ok_app tys t2 vals1 v2 e w et : vec_ok tys vals1 e w et -> vec_ok (tys ++ t2) (vals1 ++ v2) e w et.
  Proof. intros (ws & G & W). exists ws. split; auto using pgood_app. Qed.

  Definition mvg_ok (step : list node -> pw -> result (list node * option pw)) : Prop :=
    forall out obj out' r vals1 w et,
      step out obj = Ok (out', r) ->
      valuation eval_node from_tape out tape' vals1 ->
      vec_ok (map n_ty out) vals1 obj w et ->
      holds (map n_ty out) vals1 inode (VArr [index]) (TScalar U64) ->
      exists ext extra, out' = out ++ extra /\
        valuation eval_node from_tape out' tape' (vals1 ++ ext) /\
        (forall e, r = Some e -> pgood (map n_ty out') (vals1 ++ ext) e w et) /\
        (forall infer, infer_meta infer -> typed_nodes infer out -> typed_nodes infer out').

  Lemma zip_fold_sem step : mvg_ok step ->
    forall vecs wv etv o sl ok o' sl' ok' vals_o wsl etsl,
      fold_left (fun acc v =>
                   let* (o, sl, ok) := acc in
                   if negb ok then Ok (o, sl, ok) else
                   let* (o', r) := step o v in
                   match r with
                   | Some e => Ok (o', sl ++ [e], true)
                   | None => Ok (o', sl, false)
                   end) vecs (Ok (o, sl, ok)) = Ok (o', sl', ok') ->
      valuation eval_node from_tape o tape' vals_o ->
      all3 (vec_ok (map n_ty o) vals_o) vecs wv etv ->
      holds (map n_ty o) vals_o inode (VArr [index]) (TScalar U64) ->
      all3 (pgood (map n_ty o) vals_o) sl wsl etsl ->
      exists ext extra, o' = o ++ extra /\
        valuation eval_node from_tape o' tape' (vals_o ++ ext) /\
        (ok = false -> ok' = false) /\
        (ok = true -> ok' = true -> all3 (pgood (map n_ty o') (vals_o ++ ext)) sl' (wsl ++ wv) (etsl ++ etv)) /\
        (forall infer, infer_meta infer -> typed_nodes infer o -> typed_nodes infer o').
  Proof.
    intros Hstep. induction vecs as [|v vecs IH]; intros wv etv o sl ok o' sl' ok' vals_o wsl etsl H V Hv Hi Hs.
    - cbn [fold_left] in H. injection H as <- <- <-.
      destruct wv, etv; cbn in Hv; try contradiction.
      exists [], []. rewrite !app_nil_r. split; [reflexivity|]. split; [exact V|]. split; [auto|].
      split; [intros; exact Hs|auto].
    - cbn [fold_left] in H.
      match type of H with fold_left ?F _ ?acc = _ =>
        destruct (fold_res_fail F vecs acc (o', sl', ok')) as ([[o1 sl1] ok1] & E); auto end.
      { intros r0 a0 s'. destruct r0 as [[[? ?] ?]| | |]; cbn; intros; try discriminate; eauto. }
      rewrite E in H. cbn [bind] in E.
      destruct wv as [|w wv], etv as [|et etv]; cbn [all3] in Hv; try contradiction. destruct Hv as (Hv0 & Hv).
      destruct ok; cbn [negb] in E.
      + apply bind_ok in E as ([o2 r] & Es & E).
        destruct (Hstep _ _ _ _ _ _ _ Es V Hv0 Hi) as (ext1 & extra1 & -> & V1 & G1 & T1).
        rewrite map_app in G1.
        assert (Hv' : all3 (vec_ok (map n_ty (o ++ extra1)) (vals_o ++ ext1)) vecs wv etv).
        { rewrite map_app. eapply all3_impl; [|exact Hv]. intros; now apply vec_ok_app. }
        assert (Hi' : holds (map n_ty (o ++ extra1)) (vals_o ++ ext1) inode (VArr [index]) (TScalar U64))
          by (rewrite map_app; now apply holds_app).
        assert (Hs' : all3 (pgood (map n_ty (o ++ extra1)) (vals_o ++ ext1)) sl wsl etsl)
          by (rewrite map_app; now apply all3_pgood_app).
        destruct r as [e|]; injection E as <- <- <-.
        * assert (Hs'' : all3 (pgood (map n_ty (o ++ extra1)) (vals_o ++ ext1)) (sl ++ [e]) (wsl ++ [w]) (etsl ++ [et])).
          { apply all3_app; auto. cbn. split; auto. rewrite map_app. now apply G1. }
          destruct (IH _ _ _ _ _ _ _ _ _ _ _ H V1 Hv' Hi' Hs'') as (ext2 & extra2 & -> & V2 & F2 & G2 & T2).
          exists (ext1 ++ ext2), (extra1 ++ extra2). rewrite !app_assoc. split; auto. split; auto.
          split; [discriminate|]. split.
          -- intros _ Ok'. specialize (G2 eq_refl Ok').
             replace (wsl ++ w :: wv) with ((wsl ++ [w]) ++ wv) by (now rewrite <- app_assoc).
             replace (etsl ++ et :: etv) with ((etsl ++ [et]) ++ etv) by (now rewrite <- app_assoc).
             exact G2.
          -- intros infer Im Ty. apply T2; auto.
        * destruct (IH _ _ _ _ _ _ _ _ _ _ _ H V1 Hv' Hi' Hs') as (ext2 & extra2 & -> & V2 & F2 & G2 & T2).
          exists (ext1 ++ ext2), (extra1 ++ extra2). rewrite !app_assoc. split; auto. split; auto.
          split; [discriminate|]. split.
          -- intros _ Ok'. rewrite (F2 eq_refl) in Ok'. discriminate.
          -- intros infer Im Ty. apply T2; auto.
      + injection E as <- <- <-.
        destruct (IH _ _ _ _ _ _ _ _ _ wsl etsl H V Hv Hi Hs) as (ext2 & extra2 & -> & V2 & F2 & G2 & T2).
        exists ext2, extra2. split; auto. split; auto. split; auto. split; [discriminate|auto].
  Qed.

  (* the operands of a Zip whose row id exists *)
  Lemma zip_vecs_ok tys vals1 ets : forall vecs vs ls,
    all3 (fun e w t' => holds tys vals1 (snd e) w t' /\ pshape tys vals1 (fst e) w t') vecs vs (map (TVector n) ets) ->
    mapM tup_of vs = Ok ls -> Forall (fun l => (Z.to_nat id < length l)%nat) ls -> 0 <= id ->
    all3 (vec_ok tys vals1) vecs (map (fun l => nth (Z.to_nat id) l (VArr [])) ls) ets.
  Proof.
    induction ets as [|et ets IH]; intros [|e vecs] [|v vs] ls H M F I0; cbn [map all3] in H; try contradiction.
    - cbn in M. injection M as <-. exact I.
    - destruct H as (H0 & H). cbn [mapM] in M. apply bind_ok in M as (l & El & M). apply bind_ok in M as (ls' & Els & M).
      injection M as <-. inversion F as [|? ? Fl F']; subst. cbn [map all3]. split; [|eapply IH; eauto].
      destruct v as [es|l0]; [discriminate|]. cbn in El. injection El as ->.
      exists l. split; [exact H0|]. apply znth_ok. split; auto. now apply nth_error_nth'.
  Qed.

  Lemma mvg_sem : forall fuel, mvg_ok (fun out obj => maybe_vector_get fuel out obj index inode).
  Proof.
    induction fuel as [|f IHf]; intros out obj out' r vals1 w et H V (ws & (Hh & Hp) & Hw) Hi; [discriminate|].
    cbn [maybe_vector_get] in H. destruct obj as [p j]. cbn [fst snd] in *.
    assert (Hnone : out' = out -> r = None ->
              exists ext extra, out' = out ++ extra /\
                valuation eval_node from_tape out' tape' (vals1 ++ ext) /\
                (forall e, r = Some e -> pgood (map n_ty out') (vals1 ++ ext) e w et) /\
                (forall infer, infer_meta infer -> typed_nodes infer out -> typed_nodes infer out')).
    { intros -> ->. exists [], []. rewrite !app_nil_r. split; auto. split; auto. split; [discriminate|auto]. }
    pose proof V as (Lv & _).
    destruct p as [x| |arr|l|l|l|l|x|x]; try (injection H as <- <-; now apply Hnone).
    - (* Unknown: VectorGet on the node itself *)
      apply bind_ok in H as (vt & Evt & H). apply bind_ok in H as (et0 & Eet & H). unfold emit in H. injection H as <- <-.
      rewrite (holds_node_ty _ _ _ _ _ Hh) in Evt. injection Evt as <-. cbn in Eet. injection Eet as <-.
      destruct (emit_sem out tape' vals1 (mkNode OVectorGet [j; inode] [] [] et) [VTup ws; VArr [index]]
                         [TVector n et; TScalar U64] w V eq_refl) as (V' & H' & T').
      { cbn. auto. }
      { unfold eval_node. cbn [n_op n_ty nth nth_res bind arr_of st_of tup_of]. fold id.
        replace (n <=? id) with false by lia. exact Hw. }
      exists [w], [mkNode OVectorGet [j; inode] [] [] et]. split; auto. split; auto. split.
      + intros e E. injection E as <-. split; [exact H'|exact I].
      + intros infer (_ & Iv & _) Ty. apply T'; auto; cbn; now rewrite Iv.
    - (* ArrayToVector: Get / GetSlice of row index *)
      destruct Hp as (va & d & rest & st & Ha & Hvs & Hd & Et & Ea).
      apply bind_ok in H as (at_ & Eat & H). apply bind_ok in H as (rt & Ert & H). unfold emit in H. injection H as <- <-.
      rewrite (holds_node_ty _ _ _ _ _ Ha) in Eat. injection Eat as <-.
      injection Et as -> ->.
      assert (I0 : 0 <= id) by (unfold znth in Hw; destruct (id <? 0) eqn:X; [discriminate|lia]).
      assert (Hm : id = index mod 2 ^ 64).
      { unfold id, as_u64, sval, norm. change (modulus U64) with (2 ^ 64). cbn [signed andb]. now rewrite Z.mod_mod by lia. }
      clear Hnone.
      assert (Hop : (if (length (dims (TArray (d :: rest) st)) =? 1)%nat then OGet [index]
                     else OGetSlice [SSingle (if (length (dims (TArray (d :: rest) st)) =? 1)%nat then index
                                              else if 2 ^ 63 <=? index then index - 2 ^ 64 else index); SEllipsis])
                    = row_op rest id /\ rt = elem_ty rest st /\ id < d).
      { cbn [dims hd] in Ert |- *. destruct rest as [|r rest'].
        - cbn [length Nat.eqb] in Ert |- *. cbn [get_type] in Ert.
          destruct (index <? 0) eqn:N.
          + destruct ((index + d <? 0) || (d <=? index + d)) eqn:Rg; [discriminate|]. exfalso. lia.
          + destruct ((index <? 0) || (d <=? index)) eqn:Rg; [discriminate|]. injection Ert as <-.
            split; [|split; [reflexivity|lia]]. cbn [row_op]. do 2 f_equal. lia.
        - cbn [length Nat.eqb] in Ert |- *. cbn [get_type] in Ert.
          destruct (2 ^ 63 <=? index) eqn:B.
          + destruct (index - 2 ^ 64 <? 0) eqn:N.
            * destruct ((index - 2 ^ 64 + d <? 0) || (d <=? index - 2 ^ 64 + d)) eqn:Rg; [discriminate|]. exfalso. lia.
            * destruct ((index - 2 ^ 64 <? 0) || (d <=? index - 2 ^ 64)) eqn:Rg; [discriminate|]. injection Ert as <-.
              split; [|split; [reflexivity|lia]]. cbn [row_op]. do 3 f_equal. lia.
          + destruct (index <? 0) eqn:N.
            * destruct ((index + d <? 0) || (d <=? index + d)) eqn:Rg; [discriminate|]. exfalso. lia.
            * destruct ((index <? 0) || (d <=? index)) eqn:Rg; [discriminate|]. injection Ert as <-.
              split; [|split; [reflexivity|lia]]. cbn [row_op]. do 3 f_equal. lia. }
      destruct Hop as (Eo & -> & Hlt). rewrite Eo.
      destruct (emit_sem out tape' vals1 (mkNode (row_op rest id) [arr] [] [] (elem_ty rest st)) [va]
                         [TArray (d :: rest) st] w V) as (V' & H' & T').
      { destruct rest; reflexivity. }
      { cbn. auto. }
      { cbn [n_op n_ty]. eapply a2v_row_sem; eauto; lia. }
      eexists [w], [_]. split; [reflexivity|]. split; auto. split.
      + intros e E. injection E as <-. split; [exact H'|exact I].
      + intros infer (Ig & _) Ty. apply T'; auto; cbn; rewrite Ig; auto; lia.
    - (* Zip: the tuple of the slices *)
      destruct Hp as (vs & n0 & ets & Et & Hl & Ez). injection Et as <- ->.
      assert (I0 : 0 <= id) by (unfold znth in Hw; destruct (id <? 0) eqn:X; [discriminate|lia]).
      destruct (zip_row_sem _ _ _ _ _ _ Ez Hw) as (ls & Els & -> & Fl).
      pose proof (zip_vecs_ok _ _ _ _ _ _ Hl Els Fl I0) as Hv.
      apply bind_ok in H as ([[o1 sliced] ok] & Ef & H).
      destruct (zip_fold_sem _ IHf _ _ _ _ _ _ _ _ _ _ [] [] Ef V Hv Hi I)
        as (ext1 & extra1 & -> & V1 & _ & G1 & T1).
      destruct ok.
      + apply bind_ok in H as (tys & Etys & H). unfold emit in H. injection H as <- <-.
        specialize (G1 eq_refl eq_refl). cbn [app] in G1.
        set (wv := map (fun l => nth (Z.to_nat id) l (VArr [])) ls) in *.
        pose proof (all3_pgood_holds _ _ _ _ _ G1) as Hd.
        assert (tys = ets) by (eapply all3_pgood_tys; eauto).
        subst tys.
        destruct (emit_sem (out ++ extra1) tape' (vals1 ++ ext1) (mkNode OCreateTuple (map snd sliced) [] [] (TTuple ets))
                           wv ets (VTup wv) V1 eq_refl Hd eq_refl) as (V' & H' & T').
        exists (ext1 ++ [VTup wv]). eexists (extra1 ++ [_]). rewrite !app_assoc. split; [reflexivity|]. split; auto. split.
        * intros e E. injection E as <-. split; [exact H'|]. cbn [fst pshape]. exists wv, ets. split; auto. split; auto.
          rewrite map_app. cbn [map]. apply all3_pgood_app. exact G1.
        * intros infer Im Ty. apply T'; [destruct Im as (_ & _ & It); cbn; now rewrite It|apply T1; auto].
      + injection H as <- <-. exists ext1, extra1. split; auto. split; auto. split; [discriminate|auto].
    - (* Vector: the element itself *)
      destruct Hp as (ws' & et' & Ev & Et & Bl & Hl). injection Ev as <-. injection Et as -> <-.
      destruct (znth l index) as [e| | |] eqn:Ez; try (injection H as <- <-; now apply Hnone).
      injection H as <- <-. apply znth_ok in Ez as (I0 & Ez).
      assert (Eid : id = index) by (apply as_u64_small'; apply nth_error_Some_lt in Ez; lia).
      rewrite Eid in Hw. apply znth_ok in Hw as (_ & Hw).
      destruct (all3_nth _ _ _ _ _ _ Hl Ez) as (w' & t' & Ew' & Et' & G).
      assert (w' = w) by congruence. subst w'.
      assert (t' = et) by (apply nth_error_In, repeat_spec in Et'; auto). subst t'.
      exists [], []. rewrite !app_nil_r. split; auto. split; auto. split; [|auto].
      intros e0 E0. injection E0 as <-. exact G.
  Qed.
End Mvg.

(* ------------------------------------------------------------------ the pass *)
(* the types the graph builder assigns to Zip and ArrayToVector; array shapes are valid (positive
   dimensions) and a dimension is a u64 *)
Definition zip_a2v_typed (nodes : list node) : Prop :=
  forall i nd dts, nth_error nodes i = Some nd ->
    mapM (dep_get (map n_ty nodes) i) (n_deps nd) = Ok dts ->
    match n_op nd with
    | OZip => exists n ets, dts = map (TVector n) ets /\ n_ty nd = TVector n (TTuple ets)
    | OArrayToVector => exists d rest st, dts = [TArray (d :: rest) st] /\ valid_shape (d :: rest) /\ d < 2 ^ 63 /\
                                          n_ty nd = TVector d (elem_ty rest st)
    | _ => True
    end.

Lemma first_tape_ft' nodes pre post m : nodes = pre ++ post -> length m = length pre ->
  first_tape pre m -> ft_first from_tape nodes m.
Proof.
  intros El L F i0 nd0 j E Ft G i' Li. pose proof (nth_error_Some_lt _ _ _ G) as L0.
  apply (F i0 nd0 j); auto. rewrite El, nth_error_app1 in E by lia. exact E.
Qed.

Lemma nth_error_map_seq {A} (f : nat -> A) n k : (k < n)%nat -> nth_error (map f (seq 0 n)) k = Some (f k).
Proof. intros H. rewrite nth_error_map, nth_error_nth' with (d := O) by (rewrite seq_length; lia). now rewrite seq_nth. Qed.

Section MetaFull.
  Variables (nodes : list node) (o : option Z).
  Variables (tape : Z -> option value) (vals : list value).
  Hypothesis Hval : valuation eval_node from_tape nodes tape vals.
  Hypothesis Hct : const_typed nodes.
  Hypothesis Hvec : forall nd, In nd nodes -> Z.of_nat (length (n_deps nd)) < 2 ^ 64.
  Hypothesis Hvt : bits_ops nodes ->
    forall i nd v, nth_error nodes i = Some nd -> nth_error vals i = Some v -> has_type v (n_ty nd) = true.
  Hypothesis Htyped : meta_typed nodes.
  Hypothesis Htyped2 : zip_a2v_typed nodes.

  Definition oval (d : Z) (w : value) : Prop := 0 <= d /\ nth_error vals (Z.to_nat d) = Some w.
  Definition oty (d : Z) (t : ty) : Prop := 0 <= d /\ nth_error (map n_ty nodes) (Z.to_nat d) = Some t.
  Definition oboth (d : Z) (w : value) (t : ty) : Prop := oval d w /\ oty d t.

  Lemma oval_fun d v1 v2 : oval d v1 -> oval d v2 -> v1 = v2.
  Proof. intros (_ & A) (_ & B). congruence. Qed.
  Lemma oty_fun d v1 v2 : oty d v1 -> oty d v2 -> v1 = v2.
  Proof. intros (_ & A) (_ & B). congruence. Qed.

  Lemma deps_oboth i deps : forall vs dts,
    mapM (dep_get vals i) deps = Ok vs -> mapM (dep_get (map n_ty nodes) i) deps = Ok dts ->
    all3 oboth deps vs dts.
  Proof.
    induction deps as [|d deps IH]; intros vs dts M1 M2; cbn [mapM] in M1, M2.
    - injection M1 as <-. injection M2 as <-. exact I.
    - apply bind_ok in M1 as (v & Ev & M1). apply bind_ok in M1 as (vs' & Evs & M1). injection M1 as <-.
      apply bind_ok in M2 as (t & Et & M2). apply bind_ok in M2 as (ts' & Ets & M2). injection M2 as <-.
      cbn. split; [|eauto]. apply dep_get_ok in Ev as ((D & _) & Ev). apply dep_get_ok in Et as (_ & Et).
      split; split; auto.
  Qed.

  Lemma old_has_type d v t : bits_ops nodes -> oval d v -> oty d t -> has_type v t = true.
  Proof.
    intros Hb (_ & Ov) (_ & Ot). rewrite nth_error_map in Ot.
    destruct (nth_error nodes (Z.to_nat d)) as [nd|] eqn:N; [|discriminate]. injection Ot as <-. eapply Hvt; eauto.
  Qed.

  (* every recorded proxy describes, in the new graph, the value and type of its old node *)
  Definition meta_good (tys : list ty) (vals' : list value) (meta : list (Z * pw)) : Prop :=
    forall i0 e, In (i0, e) meta -> exists v t, oval i0 v /\ oty i0 t /\ pgood tys vals' e v t.

  Lemma meta_good_app tys t2 vals' v2 meta :
    meta_good tys vals' meta -> meta_good (tys ++ t2) (vals' ++ v2) meta.
  Proof. intros H i0 e I. destruct (H i0 e I) as (v & t & A & B & G). exists v, t. auto using pgood_app. Qed.

  Section Step.
    Variables (pre : list node) (a : node) (s : meta_state) (v_a : value).
    Hypothesis Ea : nth_error nodes (length pre) = Some a.
    Hypothesis Ev : nth_error vals (length pre) = Some v_a.
    Hypothesis Lm : length (ms_map s) = length pre.

    Let m := ms_map s.
    Let meta := ms_meta s.
    Let out := ms_out s.
    Let simple := Z.of_nat (length out).

    Variables (deps : list Z).
    Hypothesis Ed : mapM (map_get m) (n_deps a) = Ok deps.
    Hypothesis Ia : In a nodes.
    Hypothesis Na : node_sem eval_node from_tape (map n_ty nodes) vals tape (length pre) a v_a.

    Let meta_deps := map (meta_find meta) (n_deps a).
    Let elements := map (fun k => match nth k meta_deps None with
                                  | Some e => e | None => (PUnknown, nth k deps 0) end)
                        (seq 0 (length deps)).

    (* the state of the new graph after the plain copy of the node *)
    Variables (tape' : Z -> option value) (out1 : list node) (vals1 : list value).
    Hypothesis V1 : valuation eval_node from_tape out1 tape' vals1.
    Hypothesis S1 : sim nodes out1 vals vals1 m.
    Hypothesis R1 : rel nodes out1 vals vals1 (length pre) simple.
    Hypothesis G1 : meta_good (map n_ty out1) vals1 meta.

    Lemma sim_holds d j v t :
      nth_error m (Z.to_nat d) = Some (Some j) -> oval d v -> oty d t -> holds (map n_ty out1) vals1 j v t.
    Proof.
      intros E (_ & Ov) (_ & Ot). destruct (S1 _ _ E) as (J & (v0 & W1 & W2) & (nd & nd' & N1 & N2 & N3)).
      rewrite (map_nth_error n_ty _ _ N1) in Ot. split; auto. split; [congruence|].
      rewrite (map_nth_error n_ty _ _ N2). congruence.
    Qed.

    Lemma rel_holds j : rel nodes out1 vals vals1 (length pre) j -> holds (map n_ty out1) vals1 j v_a (n_ty a).
    Proof.
      intros (J & (v0 & W1 & W2) & (nd & nd' & N1 & N2 & N3)). split; auto. split; [congruence|].
      rewrite (map_nth_error n_ty _ _ N2). congruence.
    Qed.

    Lemma len_deps' : length deps = length (n_deps a).
    Proof. apply mapM_Forall2 in Ed. symmetry. eapply Forall2_length'; eauto. Qed.

    Lemma elements_good vs dts : all3 oboth (n_deps a) vs dts -> all3 (pgood (map n_ty out1) vals1) elements vs dts.
    Proof.
      intros H. destruct (all3_length _ _ _ _ H) as (L1 & L2). pose proof len_deps' as Ld.
      apply all3_intro.
      - unfold elements. rewrite map_length, seq_length. lia.
      - unfold elements. rewrite map_length, seq_length. lia.
      - intros k e v t Ee Ek Et. pose proof (nth_error_Some_lt _ _ _ Ek) as Lk.
        unfold elements in Ee. rewrite nth_error_map_seq in Ee by lia. injection Ee as <-.
        destruct (nth_error (n_deps a) k) as [d|] eqn:Edk; [|apply nth_error_None in Edk; lia].
        destruct (all3_nth _ _ _ _ _ _ H Edk) as (v' & t' & Ev' & Et' & Ov & Ot).
        assert (v' = v) by congruence. assert (t' = t) by congruence. subst v' t'.
        unfold meta_deps. rewrite (nth_error_nth _ _ None (map_nth_error (meta_find meta) _ _ Edk)).
        destruct (meta_find meta d) as [e|] eqn:F.
        + apply meta_find_some in F. destruct (G1 _ _ F) as (v' & t' & Ov' & Ot' & G).
          rewrite (oval_fun _ _ _ Ov Ov'), (oty_fun _ _ _ Ot Ot'). exact G.
        + apply mapM_Forall2 in Ed. destruct (Forall2_nth_error _ _ _ _ _ Ed Edk) as (j & Ej & Hj).
          apply map_get_ok in Hj as (_ & Hj). rewrite (nth_error_nth _ _ 0 Ej).
          split; [eapply sim_holds; eauto|exact I].
    Qed.

    Lemma old_eval' : from_tape (n_op a) = false ->
      exists vs dts, all3 oboth (n_deps a) vs dts /\
                     mapM (dep_get (map n_ty nodes) (length pre)) (n_deps a) = Ok dts /\
                     eval_node (n_op a) dts (n_ty a) vs = Ok v_a.
    Proof.
      intros Ft. unfold node_sem in Na. rewrite Ft in Na. destruct Na as (vs & dts & A1 & A2 & A3).
      exists vs, dts. split; [eapply deps_oboth; eauto|auto].
    Qed.

    Definition outcome (out2 : list node) (mn : option pw) : Prop :=
      exists ext, valuation eval_node from_tape out2 tape' (vals1 ++ ext) /\
                  (forall e, mn = Some e -> pgood (map n_ty out2) (vals1 ++ ext) e v_a (n_ty a)) /\
                  (forall infer, infer_meta infer -> typed_nodes infer out1 -> typed_nodes infer out2).

    Lemma outcome_none : outcome out1 None.
    Proof. exists []. rewrite app_nil_r. split; auto. split; [discriminate|auto]. Qed.

    Lemma outcome_same p j :
      holds (map n_ty out1) vals1 j v_a (n_ty a) -> pshape (map n_ty out1) vals1 p v_a (n_ty a) ->
      outcome out1 (Some (p, j)).
    Proof.
      intros H P. exists []. rewrite app_nil_r. split; auto. split; [|auto].
      intros e E. injection E as <-. split; auto.
    Qed.

    Lemma outcome_simple' p : pshape (map n_ty out1) vals1 p v_a (n_ty a) -> outcome out1 (Some (p, simple)).
    Proof. apply outcome_same. now apply rel_holds. Qed.

    Lemma named_index_nth fs name : forall base k p,
      NoDup (map fst fs) -> nth_error fs k = Some p -> fst p = name ->
      (fix go (fs : list (string * ty)) (i : Z) :=
         match fs with
         | [] => None
         | f :: r => if String.eqb (fst f) name then Some i else go r (i + 1)
         end) fs base = Some (base + Z.of_nat k).
    Proof.
      induction fs as [|f fs IH]; intros base k p Nd E F; [destruct k; discriminate|].
      destruct k as [|k]; cbn in E.
      - injection E as ->. rewrite F, String.eqb_refl. f_equal. lia.
      - cbn [map] in Nd. inversion Nd as [|? ? Hn Nd']; subst.
        destruct (String.eqb (fst f) (fst p)) eqn:X.
        + apply String.eqb_eq in X. exfalso. apply Hn. rewrite X. apply in_map. eapply nth_error_In; eauto.
        + rewrite (IH (base + 1) k p Nd' E eq_refl). f_equal. lia.
    Qed.

    Lemma meta_node_of_semF out2 mn :
      meta_node_of out1 simple (n_op a) deps meta_deps = Ok (out2, mn) -> outcome out2 mn.
    Proof.
      intros Em.
      destruct (is_meta_op (n_op a)) eqn:P.
      2:{ apply meta_node_of_ext in Em as (_ & Em). destruct (Em P) as (-> & ->). apply outcome_none. }
      assert (Ft : from_tape (n_op a) = false) by (destruct (n_op a); try discriminate P; reflexivity).
      destruct (old_eval' Ft) as (vs & dts & A12 & A3 & A4).
      pose proof (elements_good _ _ A12) as Hel.
      pose proof (Htyped _ _ _ Ea A3) as Ht. pose proof (Htyped2 _ _ _ Ea A3) as Ht2.
      pose proof len_deps' as Ld.
      unfold meta_node_of in Em. cbv zeta in Em. fold elements in Em.
      destruct (n_op a) eqn:Eo; try discriminate P; clear P.
      - (* Constant *)
        cbn in A4. injection A4 as A4.
        destruct t as [[]| | | |]; try (injection Em as <- <-; apply outcome_none).
        destruct v as [[|x [|y l]]|]; try (injection Em as <- <-; apply outcome_none).
        injection Em as <- <-. apply outcome_simple'. cbn. split; [symmetry; exact A4|]. eapply Hct; eauto.
      - (* A2B *)
        destruct Ht as (t0 & -> & Lv0 & Eta).
        destruct (n_deps a) as [|d0 [|d1 dl]] eqn:Eda; destruct vs as [|v0 [|v1 vl]]; cbn [all3] in A12; try tauto.
        destruct A12 as ((Ov0 & Ot0) & _).
        cbn [mapM] in Ed. apply bind_ok in Ed as (jd & Ejd & Ed'). cbn [bind] in Ed'. injection Ed' as <-.
        apply map_get_ok in Ejd as (D0 & Ejd). cbn [nth] in Em.
        assert (Hbo : bits_ops nodes) by (exists a; split; auto).
        assert (Sh : pshape (map n_ty out1) vals1 (PA2B jd) v_a (n_ty a)).
        { exists v0, t0. split; [eapply sim_holds; eauto|]. split; [eapply old_has_type; eauto|].
          rewrite <- Eta. auto. }
        injection Em as <- <-.
        unfold meta_deps. try rewrite Eda. cbn [map nth].
        destruct (meta_find meta d0) as [[p0 j0]|] eqn:Fm; [|now apply outcome_simple'].
        destruct p0; try (now apply outcome_simple').
        (* the operand is B2A of some node: A2B (B2A x) = x *)
        apply meta_find_some in Fm. destruct (G1 _ _ Fm) as (v0' & t0' & Ov0' & Ot0' & (_ & Sh0)).
        rewrite <- (oval_fun _ _ _ Ov0 Ov0'), <- (oty_fun _ _ _ Ot0 Ot0') in Sh0. cbn [fst pshape] in Sh0.
        destruct Sh0 as (vx & st' & sh & Hx & Htx & Et0 & Ob).
        destruct (eval_b2a_arr _ _ _ _ _ Ob) as (es & ->). rewrite eval_b2a in Ob. injection Ob as <-.
        rewrite eval_a2b in A4. injection A4 as A4.
        apply has_type_bits in Htx as (Hl & Hbits). rewrite prod_list_snoc in Hl.
        assert (Est : st_of t0 = st') by (rewrite Et0; destruct sh; reflexivity).
        assert (Esh : shape_of t0 = sh) by (rewrite Et0; destruct sh; reflexivity).
        rewrite Est in A4. pose proof (width_pos st') as Wp.
        rewrite (a2b_b2a_chunks (Z.to_nat (width st')) ltac:(lia) (Z.to_nat (prod_list sh)) (length es) es) in A4; auto; try nia.
        apply outcome_same; auto. rewrite <- A4, Eta, Esh, Est. exact Hx.
      - (* B2A *)
        destruct Ht as (sh & -> & Eta).
        destruct (n_deps a) as [|d0 [|d1 dl]] eqn:Eda; destruct vs as [|v0 [|v1 vl]]; cbn [all3] in A12; try tauto.
        destruct A12 as ((Ov0 & Ot0) & _).
        cbn [mapM] in Ed. apply bind_ok in Ed as (jd & Ejd & Ed'). cbn [bind] in Ed'. injection Ed' as <-.
        apply map_get_ok in Ejd as (D0 & Ejd). cbn [nth] in Em.
        assert (Hbo : bits_ops nodes) by (exists a; split; eauto).
        assert (Sh : pshape (map n_ty out1) vals1 (PB2A jd) v_a (n_ty a)).
        { exists v0, st, sh. split; [eapply sim_holds; eauto|]. split; [eapply old_has_type; eauto|].
          rewrite <- Eta. auto. }
        apply bind_ok in Em as (node & En & Em). injection Em as <- <-.
        unfold meta_deps in En. try rewrite Eda in En. cbn [map nth] in En.
        destruct (meta_find meta d0) as [[p0 j0]|] eqn:Fm; [|injection En as <-; now apply outcome_simple'].
        destruct p0; try (injection En as <-; now apply outcome_simple').
        (* the operand is A2B of some node x: B2A st (A2B x) = x when st is the scalar type of x *)
        apply bind_ok in En as (at_ & Eat & En). injection En as <-.
        destruct (scalar_eqb st (st_of at_)) eqn:Q; [|now apply outcome_simple'].
        apply scalar_eqb_eq in Q.
        apply meta_find_some in Fm. destruct (G1 _ _ Fm) as (v0' & t0' & Ov0' & Ot0' & (_ & Sh0)).
        rewrite <- (oval_fun _ _ _ Ov0 Ov0'), <- (oty_fun _ _ _ Ot0 Ot0') in Sh0. cbn [fst pshape] in Sh0.
        destruct Sh0 as (vx & tx & Hx & Htx & Lvx & Et0' & Oa).
        injection Et0' as Esh. apply app_inj_tail in Esh as (Esh & Ew).
        rewrite (holds_node_ty _ _ _ _ _ Hx) in Eat. injection Eat as <-.
        destruct (eval_a2b_arr _ _ _ _ Oa) as (es & ->). rewrite eval_a2b in Oa. injection Oa as <-.
        rewrite eval_b2a in A4. injection A4 as A4.
        assert (Lf : is_leaf tx = true) by (destruct Lvx as [(s0 & ->)|(shx & s0 & -> & _)]; reflexivity).
        pose proof (has_type_leaf_range _ _ Lf Htx) as Rg. rewrite <- Q in Rg.
        pose proof (width_pos st) as Wp.
        rewrite <- Q, flat_map_bits_length in A4.
        rewrite (b2a_a2b_chunks (Z.to_nat (width st)) ltac:(lia)) in A4; [| nia |].
        2:{ eapply Forall_impl; [|exact Rg]. intros e He. unfold modulus in He. rewrite Z2Nat.id by lia. exact He. }
        apply outcome_same; auto. rewrite <- A4, Eta.
        destruct Lvx as [(s0 & ->)|(shx & s0 & -> & Nn)]; cbn [shape_of st_of] in *.
        + subst sh st. exact Hx.
        + subst sh st. destruct shx; [congruence|exact Hx].
      - (* CreateTuple *)
        injection Em as <- <-. apply outcome_simple'. cbn in A4. injection A4 as A4.
        cbn [pshape]. exists vs, dts. split; auto.
      - (* CreateNamedTuple *)
        injection Em as <- <-. apply outcome_simple'. cbn in A4. injection A4 as A4.
        destruct Ht as (Ht & Nd & Ln). destruct (all3_length _ _ _ _ Hel) as (L1 & L2).
        assert (Lne : length names = length elements) by lia.
        cbn [pshape]. exists vs, dts. rewrite combine_fst by auto. split; auto. split; auto. split; auto.
        apply (all3_combine (pgood (map n_ty out1) vals1)); auto.
      - (* CreateVector *)
        injection Em as <- <-. apply outcome_simple'. cbn in A4. injection A4 as A4.
        destruct Ht as (Ht & Fa). destruct (all3_length _ _ _ _ Hel) as (L1 & L2).
        cbn [pshape]. exists vs, t. split; auto. split; [rewrite Ht; f_equal; f_equal; exact L2|].
        split.
        { pose proof (Hvec a Ia) as Hv. unfold elements. rewrite map_length, seq_length. lia. }
        assert (L3 : length dts = length vs) by congruence.
        replace (repeat t (length vs)) with dts; [exact Hel|].
        rewrite <- L3. clear -Fa. induction Fa as [|x l <- _ IH]; cbn; auto. now f_equal.
      - (* TupleGet *)
        destruct (forallb _ meta_deps); [|injection Em as <- <-; apply outcome_none].
        remember elements as els eqn:El. destruct els as [|[p j] [|e2 l2]]; try discriminate.
        2:{ destruct p; discriminate. }
        destruct vs as [|v0 [|v1 vl]], dts as [|t0 [|t1 tl]]; cbn [all3] in Hel; try tauto.
        destruct Hel as ((_ & Hp) & _).
        destruct p; try (injection Em as <- <-; apply outcome_none).
        apply bind_ok in Em as (e & Ez & Em). injection Em as <- <-.
        destruct Hp as (ws & ts & -> & -> & Hl).
        destruct Ht as (ts' & Ets & Hk). injection Ets as <-.
        cbn in A4. apply znth_ok in A4 as (K0 & A4). apply znth_ok in Hk as (_ & Hk). apply znth_ok in Ez as (_ & Ez).
        destruct (all3_nth _ _ _ _ _ _ Hl Ez) as (w' & t' & Ew' & Et' & Hh & Hs).
        assert (w' = v_a) by congruence. assert (t' = n_ty a) by congruence. subst w' t'.
        destruct e as [pe je]. now apply outcome_same.
      - (* NamedTupleGet *)
        destruct (forallb _ meta_deps); [|injection Em as <- <-; apply outcome_none].
        remember elements as els eqn:El. destruct els as [|[p j] [|e2 l2]]; try discriminate.
        2:{ destruct p; discriminate. }
        destruct vs as [|v0 [|v1 vl]], dts as [|t0 [|t1 tl]]; cbn [all3] in Hel; try tauto.
        destruct Hel as ((_ & Hp) & _).
        destruct p; try (injection Em as <- <-; apply outcome_none).
        destruct (find _ (rev l)) as [pe|] eqn:Fd; [|discriminate]. injection Em as <- <-.
        destruct Hp as (ws & ts & -> & -> & Ndl & Hl). destruct (all3_length _ _ _ _ Hl) as (Lw & Ll).
        destruct Ht as (fs & k & Efs & Hni & Hk). injection Efs as <-.
        apply find_rev_nth in Fd as (kk & Ekk & Fn). apply String.eqb_eq in Fn.
        assert (Lc : length (map fst l) = length ts) by (rewrite map_length; auto).
        assert (Hni' : named_index (combine (map fst l) ts) name = Some (0 + Z.of_nat kk)).
        { destruct (nth_error ts kk) as [tk|] eqn:Etk.
          2:{ apply nth_error_None in Etk. apply nth_error_Some_lt in Ekk. lia. }
          apply (named_index_nth _ name 0 kk (fst pe, tk)); auto.
          - now rewrite combine_fst.
          - clear -Ekk Etk. revert ts kk Ekk Etk. induction l as [|x l IH]; intros [|t ts] [|kk] E1 E2; cbn in *; try discriminate.
            + now injection E1 as ->; injection E2 as ->.
            + eauto. }
        rewrite Hni' in Hni. injection Hni as <-.
        unfold eval_node in A4. cbn [nth] in A4. rewrite Hni' in A4. cbn in A4.
        apply znth_ok in A4 as (K0 & A4). apply znth_ok in Hk as (_ & Hk).
        replace (Z.to_nat (0 + Z.of_nat kk)) with kk in A4, Hk by lia.
        rewrite combine_snd in Hk by auto.
        destruct (all3_nth _ _ _ _ _ _ Hl Ekk) as (w' & t' & Ew' & Et' & Hh & Hs).
        assert (w' = v_a) by congruence. assert (t' = n_ty a) by congruence. subst w' t'.
        destruct pe as [nm [pe je]]. now apply outcome_same.
      - (* VectorGet *)
        destruct (forallb _ meta_deps); [|injection Em as <- <-; apply outcome_none].
        remember elements as els eqn:El. destruct els as [|obj [|[p1 inode] [|e3 l3]]]; try discriminate.
        2:{ destruct p1; discriminate. }
        destruct p1 as [idx| | | | | | | |]; try (injection Em as <- <-; apply outcome_none).
        destruct vs as [|v0 [|v1 [|v2 vl]]], dts as [|t0 [|t1 [|t2 tl]]]; cbn [all3] in Hel; try tauto.
        destruct Hel as (Hobj & (Hi & (-> & ->)) & _).
        destruct Ht as (n & it & Edts). injection Edts as -> <-.
        unfold eval_node in A4. cbn [nth nth_res bind arr_of st_of] in A4.
        destruct (n <=? as_u64 U64 idx) eqn:Cn; [discriminate|].
        destruct v0 as [es|ws]; [discriminate|]. cbn [tup_of bind] in A4.
        destruct (mvg_sem tape' idx inode n ltac:(lia) _ _ _ _ _ _ v_a (n_ty a) Em V1) as (ext & extra & -> & V2 & G2 & T2).
        { exists ws. split; auto. }
        { exact Hi. }
        exists ext. auto.
      - (* Zip *)
        injection Em as <- <-. apply outcome_simple'. destruct Ht2 as (n & ets & -> & Eta).
        cbn [pshape]. exists vs, n, ets. split; [exact Eta|]. split; [exact Hel|exact A4].
      - (* ArrayToVector *)
        injection Em as <- <-. destruct Ht2 as (d & rest & st & -> & Hvs & Hd & Eta).
        destruct (n_deps a) as [|d0 [|d1 dl]] eqn:Eda; destruct vs as [|v0 [|v1 vl]]; cbn [all3] in A12; try tauto.
        destruct A12 as ((Ov0 & Ot0) & _).
        cbn [mapM] in Ed. apply bind_ok in Ed as (jd & Ejd & Ed'). cbn [bind] in Ed'. injection Ed' as <-.
        apply map_get_ok in Ejd as (D0 & Ejd). cbn [nth].
        apply outcome_simple'. cbn [pshape]. exists v0, d, rest, st. rewrite <- Eta. repeat split; auto;
          try (eapply sim_holds; eauto).
    Qed.
  End Step.

  Variable infer : op -> list ty -> ty.

  Definition meta_semF (pre : list node) (st : meta_state * Z) : Prop :=
    let '(s, i) := st in
    i = Z.of_nat (length pre) /\ length (ms_map s) = length pre /\
    annots_incl pre (ms_out s) (ms_map s) /\
    bounded (ms_map s) (length (ms_out s)) /\
    first_tape pre (ms_map s) /\
    (infer_meta infer -> typed_nodes infer nodes -> typed_nodes infer (ms_out s)) /\
    forall tape', tape_compat from_tape nodes (ms_map s) tape tape' ->
                  exists vals', valuation eval_node from_tape (ms_out s) tape' vals' /\
                                sim nodes (ms_out s) vals vals' (ms_map s) /\
                                meta_good (map n_ty (ms_out s)) vals' (ms_meta s).

  Lemma holds_rel out2 vals2 i a v_a j :
    nth_error nodes i = Some a -> nth_error vals i = Some v_a ->
    holds (map n_ty out2) vals2 j v_a (n_ty a) -> rel nodes out2 vals vals2 i j.
  Proof.
    intros Ea Ev (J & V & T). rewrite nth_error_map in T.
    destruct (nth_error out2 (Z.to_nat j)) as [nd'|] eqn:N; [|discriminate]. injection T as T.
    split; auto. split; [exists v_a; auto|exists a, nd'; auto].
  Qed.

  Lemma meta_semF_step pre a post st st' :
    nodes = pre ++ a :: post -> meta_semF pre st -> opt_meta_step o (Ok st) a = Ok st' ->
    meta_semF (pre ++ [a]) st'.
  Proof.
    destruct st as [s i], st' as [s' i'].
    intros El (I1 & I2 & Ian & I3 & I10 & Ity & I) St.
    rewrite opt_meta_step_eq in St. unfold meta_step' in St. cbn [bind] in St.
    destruct (negb _); [discriminate|].
    apply bind_ok in St as (deps & Ed & St). cbv zeta in St.
    apply bind_ok in St as ([out2 mn] & Em & St). apply bind_ok in St as (out3 & Ean & St).
    injection St as <- <-.
    assert (Ia : In a nodes) by (rewrite El; apply in_app_iff; right; left; auto).
    assert (Ea : nth_error nodes (length pre) = Some a).
    { rewrite El, nth_error_app2, Nat.sub_diag by lia. reflexivity. }
    destruct Hval as (Lv & Hv).
    destruct (nth_error vals (length pre)) as [v_a|] eqn:Ev.
    2:{ apply nth_error_None in Ev. apply nth_error_Some_lt in Ea. lia. }
    pose proof (Hv _ _ _ Ea Ev) as Na.
    set (out1 := ms_out s ++ [mkNode (n_op a) deps [] [] (n_ty a)]) in *.
    set (simple := Z.of_nat (length (ms_out s))) in *.
    set (nn := match mn with Some e => snd e | None => simple end) in *.
    set (meta' := match mn with Some m0 => ms_meta s ++ [(i, m0)] | None => ms_meta s end) in *.
    pose proof (meta_node_of_ext _ _ _ _ _ _ _ Em) as ((extra & Eex & _) & Hplain).
    assert (Lo2 : (length (ms_out s) < length out2)%nat).
    { rewrite Eex. unfold out1. rewrite !app_length. cbn [length]. lia. }
    pose proof (add_annots_incl _ _ _ _ Ean) as (An1 & An2).
    apply add_annots_core in Ean.
    assert (Lo3 : length out3 = length out2).
    { apply (f_equal (@length _)) in Ean. now rewrite !map_length in Ean. }
    assert (Etape : from_tape (n_op a) = true -> nn = simple).
    { intros Ft. destruct (Hplain (tape_not_meta _ Ft)) as (_ & ->). reflexivity. }
    assert (First' : first_tape (pre ++ [a]) (ms_map s ++ [Some nn])).
    { intros i1 nd1 j1 E1 Ft Ej i'' Li.
      apply nth_error_snoc_inv in E1 as [(L1 & E1)|(-> & ->)].
      + rewrite nth_error_app1 in Ej by lia. rewrite nth_error_app1 by lia. eapply I10; eauto.
      + rewrite <- I2, nth_error_snoc in Ej. injection Ej as <-. rewrite (Etape Ft).
        rewrite nth_error_app1 by lia. intros X. apply I3 in X. unfold simple in X. lia. }
    assert (Build : forall tape', tape_compat from_tape nodes (ms_map s ++ [Some nn]) tape tape' ->
              exists vals2, valuation eval_node from_tape out2 tape' vals2 /\
                            sim nodes out2 vals vals2 (ms_map s ++ [Some nn]) /\
                            meta_good (map n_ty out2) vals2 meta' /\
                            0 <= nn < Z.of_nat (length out2) /\
                            (infer_meta infer -> typed_nodes infer nodes -> typed_nodes infer out2)).
    { intros tape' Tc.
      destruct (I tape' (tape_compat_prefix _ _ _ _ _ _ Tc)) as (vals' & V & S & G).
      destruct V as (Lv' & Hv').
      assert (V1 : valuation eval_node from_tape out1 tape' (vals' ++ [v_a])).
      { apply valuation_snoc; [split; auto|].
        eapply copy_node_sem; eauto. intros Ft. pose proof (Etape Ft) as En. unfold simple in En. rewrite <- En.
        eapply Tc; eauto. rewrite <- I2. apply nth_error_snoc. }
      assert (S1 : sim nodes out1 vals (vals' ++ [v_a]) (ms_map s)) by now apply sim_app.
      assert (R1 : rel nodes out1 vals (vals' ++ [v_a]) (length pre) simple).
      { split; [unfold simple; lia|]. split.
        - exists v_a. split; auto. unfold simple. rewrite Nat2Z.id, <- Lv'. apply nth_error_snoc.
        - exists a. eexists. split; auto. unfold simple, out1. rewrite Nat2Z.id.
          split; [apply nth_error_snoc|reflexivity]. }
      assert (G1 : meta_good (map n_ty out1) (vals' ++ [v_a]) (ms_meta s)).
      { unfold out1. rewrite map_app. now apply meta_good_app. }
      destruct (meta_node_of_semF pre a s v_a Ea Ev I2 deps Ed Ia Na tape' out1 _ V1 S1 R1 G1 out2 mn Em) as (ext & V2 & Pg & T2).
      assert (Rn : rel nodes out2 vals ((vals' ++ [v_a]) ++ ext) (length pre) nn).
      { unfold nn. destruct mn as [e|].
        - destruct (Pg e eq_refl) as (Hh & _). eapply holds_rel; eauto.
        - rewrite Eex. now apply rel_app. }
      exists ((vals' ++ [v_a]) ++ ext). split; auto. split; [|split; [|split]].
      - apply sim_snoc; [rewrite Eex; now apply sim_app|]. intros j E; injection E as <-. now rewrite I2.
      - assert (Gm : meta_good (map n_ty out2) ((vals' ++ [v_a]) ++ ext) (ms_meta s)).
        { rewrite Eex, map_app. now apply meta_good_app. }
        unfold meta'. destruct mn as [e|]; auto.
        intros i0 e0 I0. apply in_app_iff in I0 as [I0|[I0|[]]]; auto.
        injection I0 as <- <-. exists v_a, (n_ty a). subst i. unfold oval, oty. rewrite Nat2Z.id.
        split; [split; [lia|auto]|]. split; [split; [lia|now apply map_nth_error]|]. now apply Pg.
      - destruct Rn as (J & _ & (_ & nd' & _ & N2 & _)). apply nth_error_Some_lt in N2. lia.
      - intros Im Htn. destruct (Htn _ _ Ea) as (dts_a & Da & Tya). apply T2; auto.
        unfold out1. apply (typed_nodes_snoc infer _ _ dts_a); auto.
        cbn [n_deps]. eapply deps_tys; eauto. }
    assert (Ff : ft_first from_tape nodes (ms_map s ++ [Some nn])).
    { apply (first_tape_ft' nodes (pre ++ [a]) post); auto.
      - rewrite El, <- app_assoc. reflexivity.
      - rewrite !app_length; cbn [length]. lia. }
    destruct (Build _ (transport_compat _ _ _ tape Ff)) as (_ & _ & _ & _ & Hnb & Ty2).
    cbn [meta_semF ms_map ms_out ms_meta]. rewrite !app_length; cbn [length]. splits; try lia; auto.
    - intros i0 j0 E0. apply nth_error_snoc_inv in E0 as [(L0 & E0)|(-> & E0)].
      + destruct (Ian _ _ E0) as (nd & nd' & N1 & J & N2 & Inc).
        assert (N2' : nth_error out2 (Z.to_nat j0) = Some nd').
        { rewrite Eex. unfold out1. now apply nth_error_app1', nth_error_app1'. }
        destruct (An1 _ _ N2') as (nd3 & N3 & Inc3).
        exists nd, nd3. repeat split; auto using nth_error_app1'. eapply incl_tran; eauto.
      + injection E0 as ->. destruct Hnb as (Hn0 & Hn1).
        assert (exists nd2, nth_error out2 (Z.to_nat nn) = Some nd2) as (nd2 & N2).
        { clear An1 An2. destruct (nth_error out2 (Z.to_nat nn)) eqn:X; eauto. apply nth_error_None in X. lia. }
        destruct (An2 _ Hn0 N2) as (nd3 & N3 & Inc3).
        exists a, nd3. rewrite I2, nth_error_snoc. repeat split; auto.
    - rewrite Lo3. apply bounded_snoc; [eapply bounded_mono; eauto; lia|].
      intros j E; injection E as <-. exact Hnb.
    - intros Im Htn. eapply typed_nodes_core; [symmetry; exact Ean|exact (Ty2 Im Htn)].
    - intros tape' Tc. destruct (Build tape' Tc) as (vals2 & V2 & S2 & G2 & _).
      exists vals2. split; [|split].
      + eapply valuation_core; [symmetry; exact Ean|exact V2].
      + eapply sim_core; [symmetry; exact Ean|exact S2].
      + rewrite (core_tys _ _ Ean). exact G2.
  Qed.

  Lemma meta_semF_inv sN :
    fold_left (opt_meta_step o) nodes (Ok (mkMS [] [] [] None, 0)) = Ok sN -> meta_semF nodes sN.
  Proof.
    apply (fold_res_inv (opt_meta_step o) meta_semF).
    - apply opt_meta_step_strict.
    - cbn. splits; auto using bounded_nil.
      + intros [|i0] j E; discriminate.
      + intros [|i0] nd0 j E; discriminate.
      + intros _ _ [|i0] nd0 E; discriminate.
      + intros tape' _. exists []. split; [apply valuation_nil|split; [apply sim_nil|]]. intros i0 e [].
    - intros pre a post s s' El I St. eapply meta_semF_step; eauto.
  Qed.
End MetaFull.

(* value preservation of the meta-operation pass, every proxy *)
Theorem meta_sem_full_thm infer nodes o p tape vals :
  valuation eval_node from_tape nodes tape vals ->
  const_typed nodes ->
  (forall nd, In nd nodes -> Z.of_nat (length (n_deps nd)) < 2 ^ 64) ->
  (bits_ops nodes ->
   forall i nd v, nth_error nodes i = Some nd -> nth_error vals i = Some v -> has_type v (n_ty nd) = true) ->
  meta_typed nodes -> zip_a2v_typed nodes ->
  opt_meta nodes o = Ok p ->
  ft_first from_tape nodes (po_map p) /\
  (infer_meta infer -> typed_nodes infer nodes -> typed_nodes infer (po_nodes p)) /\
  annots_incl nodes (po_nodes p) (po_map p) /\
  forall tape', tape_compat from_tape nodes (po_map p) tape tape' ->
    exists vals', valuation eval_node from_tape (po_nodes p) tape' vals' /\
                  sim nodes (po_nodes p) vals vals' (po_map p).
Proof.
  intros V Ct Rg Vt Ty Ty2 H. rewrite opt_meta_unfold in H.
  apply bind_ok in H as ([s i] & E & H). injection H as <-. cbn [po_nodes po_map].
  apply (meta_semF_inv nodes o tape vals V Ct Rg Vt Ty Ty2 infer) in E as (_ & L & An & _ & F & T & I).
  split; [|split; [auto|split; auto]].
  - eapply first_tape_ft' with (pre := nodes) (post := []); eauto. now rewrite app_nil_r.
  - intros tape' Tc. destruct (I tape' Tc) as (vals' & V' & S & _). eauto.
Qed.

(* C01 deep model, proofs, part 5: correctness of compile_graph on the elementwise fragment
   (Input, Constant, Zeros, Ones, Add, Subtract, Multiply and the share-wise lifted unary
   operations Sum, CumSum, PermuteAxes, Get, GetSlice, Reshape) over arrays/scalars, for every
   is_input_private vector, EVERY resharing plan accepted by the compiler, all inputs, all PRF values:
   the compiled value of a public node equals the source value, the compiled value of a private
   node is a triple of shares adding up to it. *)
From Coq Require Import Ring.
From CC Require Import Base.Prelude Base.Scalar Base.Ty Base.Shape Graph.Value Graph.IR Graph.Eval Graph.Typing
  Model.RingEval Model.MpcCompile Model.MpcCompilePlan Model.MpcCompileSem Proofs.MpcCompileBase Proofs.MpcCompileStatic
  Proofs.MpcCompileTyping Proofs.MpcCompileReshare.

(* ---------- sets ---------- *)
Lemma mem_insert d i p : mem d (set_insert i p) = (d =? i) || mem d p.
Proof.
  unfold set_insert. destruct (mem i p) eqn:M.
  - destruct (d =? i) eqn:E; [apply Z.eqb_eq in E; subst; now rewrite M | reflexivity].
  - unfold mem. cbn [existsb]. reflexivity.
Qed.

(* ---------- propagate_private_annotations: what the final set says about every node ---------- *)
Fixpoint priv_spec (nodes : list node) (i : Z) (flags : list bool) (priv : list Z) : Prop :=
  match nodes with
  | [] => True
  | nd :: r =>
      match n_op nd with
      | OInput _ => match flags with
                    | [] => False
                    | b :: fl => mem i priv = b /\ priv_spec r (i + 1) fl priv
                    end
      | OConstant _ _ | OZeros _ | OOnes _ => mem i priv = false /\ priv_spec r (i + 1) flags priv
      | OVectorGet => True /\ priv_spec r (i + 1) flags priv       (* outside the theorem's fragment *)
      | _ => mem i priv = is_one_node_private (n_deps nd) priv /\ priv_spec r (i + 1) flags priv
      end
  end.

(* dependencies of the non-input nodes point backwards (position of the first node: i) *)
Fixpoint bdeps (nodes : list node) (i : Z) : Prop :=
  match nodes with
  | [] => True
  | nd :: r => (is_input (n_op nd) = false -> Forall (fun d => 0 <= d < i) (n_deps nd)) /\ bdeps r (i + 1)
  end.

Lemma existsb_ext_in {A} (f g : A -> bool) l : Forall (fun x => f x = g x) l -> existsb f l = existsb g l.
Proof. induction 1 as [|x l H _ IH]; cbn; [reflexivity | now rewrite H, IH]. Qed.

Lemma ppa_loop_spec nodes : forall i p m f p' m' f',
  ppa_loop nodes i (p, m, f) = Ok (p', m', f') ->
  (forall d, mem d p = true -> d < i) -> bdeps nodes i ->
  (forall d, d < i -> mem d p' = mem d p) /\ priv_spec nodes i f p'.
Proof.
  induction nodes as [|nd nodes IH]; intros i p m f p' m' f' H Hlt Hb; cbn [ppa_loop] in H.
  - inversion H; subst. split; [reflexivity | exact I].
  - inv_bind H. destruct x as [[p1 m1] f1]. destruct Hb as [Hb0 Hb].
    assert (Step : (forall d, mem d p1 = true -> d < i + 1) /\ (forall d, d < i -> mem d p1 = mem d p) /\
                   match n_op nd with
                   | OInput _ => exists b, f = b :: f1 /\ mem i p1 = b
                   | OConstant _ _ | OZeros _ | OOnes _ => f1 = f /\ mem i p1 = false
                   | OVectorGet => f1 = f /\ True
                   | _ => f1 = f /\ mem i p1 = is_one_node_private (n_deps nd) p
                   end).
    { assert (Hi : mem i p = false).
      { destruct (mem i p) eqn:M; [apply Hlt in M; lia | reflexivity]. }
      unfold ppa_step in E.
      assert (Generic0 : forall (c : bool) pp, pp = (if c then set_insert i p else p) ->
                (forall d, mem d pp = true -> d < i + 1) /\ (forall d, d < i -> mem d pp = mem d p) /\
                mem i pp = c).
      { intros c pp ->. destruct c.
        - repeat split.
          + intros d. rewrite mem_insert. destruct (d =? i) eqn:Ed; [lia|]. cbn. intros Hd. apply Hlt in Hd. lia.
          + intros d Hd. rewrite mem_insert. destruct (d =? i) eqn:Ed; [lia | reflexivity].
          + rewrite mem_insert, Z.eqb_refl. reflexivity.
        - repeat split; auto. intros d Hd. apply Hlt in Hd. lia. }
      pose proof (Generic0 (is_one_node_private (n_deps nd) p)) as Generic.
      destruct (n_op nd); try discriminate;
        try (inversion E; subst; destruct (Generic _ eq_refl) as (G1 & G2 & G3); repeat split; auto; fail).
      - destruct f as [|b fl]; [discriminate|]. inversion E; subst. destruct b.
        + repeat split.
          * intros d. rewrite mem_insert. destruct (d =? i) eqn:Ed; [lia|]. cbn. intros Hd. apply Hlt in Hd. lia.
          * intros d Hd. rewrite mem_insert. destruct (d =? i) eqn:Ed; [lia | reflexivity].
          * exists true. split; [reflexivity|]. rewrite mem_insert, Z.eqb_refl. reflexivity.
        + repeat split; auto. intros d Hd. apply Hlt in Hd. lia. exists false. auto.
      - inversion E; subst. repeat split; auto. intros d Hd. apply Hlt in Hd. lia.
      - inversion E; subst. repeat split; auto. intros d Hd. apply Hlt in Hd. lia.
      - inversion E; subst. repeat split; auto. intros d Hd. apply Hlt in Hd. lia.
      - apply bind_ok in E as (d0 & _ & E). apply bind_ok in E as (d1 & _ & E).
        destruct (mem d1 p); [discriminate|]. inversion E; subst.
        destruct (Generic0 (mem d0 p) _ eq_refl) as (G1 & G2 & _). repeat split; auto. }
    destruct Step as (S1 & S2 & S3).
    destruct (IH _ _ _ _ _ _ _ H S1 Hb) as [K1 K2].
    split.
    + intros d Hd. rewrite K1 by lia. apply S2. exact Hd.
    + cbn [priv_spec].
      assert (Hdeps : is_input (n_op nd) = false -> is_one_node_private (n_deps nd) p' = is_one_node_private (n_deps nd) p).
      { intros Hin. unfold is_one_node_private. apply existsb_ext_in. eapply Forall_impl; [|exact (Hb0 Hin)].
        intros d Hd. cbv beta in Hd |- *. rewrite K1 by lia. apply S2. lia. }
      destruct (n_op nd) eqn:Ho;
        try (destruct S3 as [-> _]; split; [exact I | exact K2]; fail);
        try (destruct S3 as [-> S3]; split; [rewrite K1 by lia; rewrite S3; try reflexivity; symmetry; apply Hdeps; reflexivity | exact K2]).
      destruct S3 as (b & -> & S3). split; [rewrite K1 by lia; exact S3 | exact K2].
Qed.

Section Correct.
  Variable R : Type.
  Variables (r0 r1 : R) (radd rmul rsub : R -> R -> R) (ropp : R -> R).
  Hypothesis Rth : ring_theory r0 r1 radd rmul rsub ropp eq.
  Add Ring Rc : Rth.
  Variable atom : Z -> R.
  Variable catom : value -> R.
  Variable one : R.
  Variable lin : op -> R -> R.
  Variable bil : op -> R -> R -> R.
  Variable nlin : op -> list R -> R.
  Hypothesis lin_add : forall o a b, lin o (radd a b) = radd (lin o a) (lin o b).
  Hypothesis bil_add_l : forall o a a' b, bil o (radd a a') b = radd (bil o a b) (bil o a' b).
  Hypothesis bil_add_r : forall o a b b', bil o a (radd b b') = radd (bil o a b) (bil o a b').
  Hypothesis nlin_add : forall o l l', length l = length l' -> nlin o (vadd R radd l l') = radd (nlin o l) (nlin o l').

  Notation rv := (rval R).
  Notation L := (RLeaf R).
  Notation T3 := (T3 R).
  Notation evals := (evals R r0 radd rmul rsub atom catom one lin bil nlin).
  Notation dnode := (deval_node R r0 radd rmul rsub atom catom one lin bil nlin).
  Notation dfrom := (deval_from R r0 radd rmul rsub atom catom one lin bil nlin).
  Notation dstp := (dstep R r0 radd rmul rsub atom catom one lin bil nlin).
  Notation gsem := (gadget_sem R r0 radd rmul rsub bil).
  Notation mono := (mono R).
  Notation vadd := (vadd R radd).
  Notation reshare_sem := (reshare_sem R r0 r1 radd rmul rsub ropp Rth atom catom one lin bil nlin).

  Notation rel := (rel R radd).
  Notation inrel := (inrel R radd).
  Notation keys_input := (keys_input R).

  Definition keys_ok (keys : option Z) (env : list rv) : Prop :=
    forall k, keys = Some k -> exists kv0 kv1 kv2, znth env k = Ok (RTup R [kv0; kv1; kv2]).

  Definition Inv (priv omap : list Z) (env_s env_c : list rv) (out : list node) : Prop :=
    zlen omap = zlen env_s /\
    forall j vs, znth env_s j = Ok vs ->
      exists k vc, znth omap j = Ok k /\ znth env_c k = Ok vc /\ rel (mem j priv) vs vc /\
                   (mem j priv = true -> shty out k) /\ (mem j priv = false -> pubty out k).

  (* ---------- source step inversion ---------- *)
  Lemma dstep_noninput e ins nd st' :
    is_input (n_op nd) = false -> dstp (Some (e, ins)) nd = Some st' ->
    exists vs v, mapM (fun d => znth e d) (n_deps nd) = Ok vs /\ dnode (zlen e) (n_op nd) vs = Some v /\ st' = (e ++ [v], ins).
  Proof.
    intros Hi H. unfold dstep in H.
    destruct (n_op nd) eqn:Ho; try discriminate.
    all: destruct (mapM (fun d => znth e d) (n_deps nd)) as [vs| | |]; try discriminate.
    all: match type of H with context [match ?x with Some _ => _ | None => _ end] => destruct x as [vv|] eqn:Hv end;
      try discriminate.
    all: inversion H; subst; exists vs, vv; auto.
  Qed.

  Lemma dnode_index o k k' vs : thm_op o = true -> dnode k o vs = dnode k' o vs.
  Proof. destruct o; try discriminate; reflexivity. Qed.

  Lemma gadget_name_inv g : elem_gadget g = true -> gadget_of_name (gadget_name g) = Some g.
  Proof.
    destruct g as [| |p]; try destruct p; try discriminate; try reflexivity.
    intros _. repeat match goal with b : bool |- _ => destruct b end; reflexivity.
  Qed.

  Notation bprod := (bprod R rmul bil).
  Lemma bprod_add_l o a a' b : bprod o (radd a a') b = radd (bprod o a b) (bprod o a' b).
  Proof. destruct o; try apply bil_add_l. cbn [MpcCompileSem.bprod]. ring. Qed.
  Lemma bprod_add_r o a b b' : bprod o a (radd b b') = radd (bprod o a b) (bprod o a b').
  Proof. destruct o; try apply bil_add_r. cbn [MpcCompileSem.bprod]. ring. Qed.

  Lemma rel_true_inv x vc : rel true (L x) vc -> exists a b c, vc = T3 a b c /\ radd (radd a b) c = x.
  Proof. intros (x' & a & b & c & Hx & Hv & Hs). inversion Hx; subst. eauto. Qed.

  Lemma shty_not_leaf out a T : shty out a -> out_ty out a = Ok T -> is_leaf T = false.
  Proof. intros (T' & HT & (t1 & t2 & t3 & -> & _)) H. rewrite HT in H. inversion H; subst. reflexivity. Qed.

  Lemma mapM2 {A B} (f : A -> result B) a b l : mapM f [a; b] = Ok l ->
    exists x y, l = [x; y] /\ f a = Ok x /\ f b = Ok y.
  Proof.
    cbn [mapM]. intros H.
    destruct (f a) as [x| | |]; cbn [bind] in H; try discriminate.
    destruct (f b) as [y| | |]; cbn [bind] in H; try discriminate.
    inversion H; subst. eauto 10.
  Qed.

  (* ---------- a gadget node ---------- *)
  Lemma gadget_node_sem g a b out out' id ins0 env ins pa pb x y va vb :
    elem_gadget g = true ->
    emit_gadget g [a; b] out = Ok (out', id) -> evals ins0 out env ins ->
    znth env a = Ok va -> znth env b = Ok vb -> rel pa (L x) va -> rel pb (L y) vb ->
    (pa = true -> shty out a) -> (pb = true -> shty out b) ->
    exists vc, evals ins0 out' (env ++ [vc]) ins /\ znth (env ++ [vc]) id = Ok vc /\
               rel (pa || pb) (L (gadget_plain R radd rmul rsub bil g x y)) vc /\
               (pa || pb = true -> shty out' id) /\ ext out out'.
  Proof.
    intros Hg H E Ha Hb Ra Rb Sa Sb.
    destruct (emit_gadget_spec _ _ _ _ _ H) as (ts & t & Hm & Ht & Hv & -> & ->).
    destruct (mapM2 _ _ _ _ Hm) as (ta & tb & -> & Hta & Htb).
    assert (Ev : forall vc, gsem g [va; vb] = Some vc ->
                 evals ins0 (out ++ [mkNode (OCustom (gadget_name g)) [a; b] [] [] t]) (env ++ [vc]) ins /\
                 znth (env ++ [vc]) (zlen out) = Ok vc).
    { intros vc Hvc. split.
      - eapply evals_snoc; eauto; cbn [n_op n_deps].
        + cbn [mapM]. rewrite Ha, Hb. reflexivity.
        + cbn [deval_node]. rewrite (gadget_name_inv _ Hg). exact Hvc.
      - (let EL := fresh "EL" in pose proof E as EL; apply evals_length in EL; rewrite <- EL). apply znth_last. }
    assert (Ty : pa || pb = true -> shty (out ++ [mkNode (OCustom (gadget_name g)) [a; b] [] [] t]) (zlen out)).
    { intros Hp. exists t. split; [apply out_ty_last|].
      destruct (gadget_ty_shape _ _ _ _ Hg Ht) as [(La & Lb) | S]; [|exact S].
      apply orb_true_iff in Hp as [-> | ->].
      - rewrite (shty_not_leaf _ _ _ (Sa eq_refl) Hta) in La. discriminate.
      - rewrite (shty_not_leaf _ _ _ (Sb eq_refl) Htb) in Lb. discriminate. }
    destruct pa, pb; cbn [rel orb] in *.
    - apply rel_true_inv in Ra as (a0 & a1 & a2 & -> & Sx). apply rel_true_inv in Rb as (b0 & b1 & b2 & -> & Sy).
      destruct g as [| |p]; try destruct p; try discriminate; (eexists; split; [|split; [|split; [|split; [exact Ty | apply ext_app]]]];
        [eapply Ev; reflexivity | eapply Ev; reflexivity |]);
        (do 4 eexists; split; [reflexivity | split; [reflexivity | cbn [gadget_plain]; subst x y; repeat (rewrite bprod_add_l || rewrite bprod_add_r); ring]]).
    - apply rel_true_inv in Ra as (a0 & a1 & a2 & -> & Sx). subst vb.
      destruct g as [| |p]; try destruct p; try discriminate; (eexists; split; [|split; [|split; [|split; [exact Ty | apply ext_app]]]];
        [eapply Ev; reflexivity | eapply Ev; reflexivity |]);
        (do 4 eexists; split; [reflexivity | split; [reflexivity | cbn [gadget_plain]; subst x; repeat (rewrite bprod_add_l || rewrite bprod_add_r); ring]]).
    - apply rel_true_inv in Rb as (b0 & b1 & b2 & -> & Sy). subst va.
      destruct g as [| |p]; try destruct p; try discriminate; (eexists; split; [|split; [|split; [|split; [exact Ty | apply ext_app]]]];
        [eapply Ev; reflexivity | eapply Ev; reflexivity |]);
        (do 4 eexists; split; [reflexivity | split; [reflexivity | cbn [gadget_plain]; subst y; repeat (rewrite bprod_add_l || rewrite bprod_add_r); ring]]).
    - subst va vb.
      eexists; split; [|split; [|split; [|split; [exact Ty | apply ext_app]]]];
        [eapply Ev; reflexivity | eapply Ev; reflexivity | reflexivity].
  Qed.

  Lemma gadget_node_pubty g a b out out' id :
    elem_gadget g = true -> emit_gadget g [a; b] out = Ok (out', id) -> pubty out a -> pubty out b -> pubty out' id.
  Proof.
    intros Hg H (Ta & HTa & La) (Tb & HTb & Lb).
    destruct (emit_gadget_spec _ _ _ _ _ H) as (ts & t & Hm & Ht & Hv & -> & ->).
    destruct (mapM2 _ _ _ _ Hm) as (ta & tb & -> & Hta & Htb).
    rewrite HTa in Hta. rewrite HTb in Htb. inversion Hta; inversion Htb; subst.
    exists t. split; [apply out_ty_last | exact (gadget_ty_pub _ _ _ _ Hg La Lb Ht)].
  Qed.

  (* ---------- apply_op on a share-wise lifted unary operation, private operand ---------- *)
  Lemma apply_op_private priv n o news olds out :
    is_input o = false -> mem n priv = true ->
    apply_op priv n o news olds out =
    (let* (out1, result_shares) :=
       mapS (fun i out => let* (out', share) := op_shares priv o i olds news out in emit o share [] out') parties out in
     emit OCreateTuple result_shares [] out1).
  Proof. intros Hi Hm. unfold apply_op. rewrite Hm. cbn [negb]. destruct o; try discriminate; reflexivity. Qed.

  Lemma op_shares_lin priv o i olds news out :
    is_lin_op o = true -> op_shares priv o i olds news out = share_vec priv i olds news out.
  Proof. destruct o; try discriminate; reflexivity. Qed.

  Lemma lin_share_sem priv d0 o a i out out' id ins0 env ins l v :
    is_lin_op o = true -> mem d0 priv = true ->
    (let* (out', share) := share_vec priv i [d0] [a] out in emit o share [] out') = Ok (out', id) ->
    evals ins0 out env ins -> znth env a = Ok (RTup R l) -> znth l i = Ok (L v) ->
    exists env', evals ins0 out' env' ins /\ mono env env' /\ znth env' id = Ok (L (lin o v)) /\ ext out out' /\
      (forall T, out_ty out a = Ok T ->
                 exists t0 tr, infer (OTupleGet i) [T] = Ok t0 /\ out_ty out' id = Ok tr /\ infer o [t0] = Ok tr).
  Proof.
    intros Hl Hm H E Ha Hi. cbn [share_vec] in H. rewrite Hm in H.
    apply bind_ok in H as ([o1 sv] & H1 & H). apply bind_ok in H1 as ([o1' s] & E0 & H1).
    cbn [bind] in H1. inversion H1; subst; clear H1.
    destruct (step_tget R r0 radd rmul rsub atom catom one lin bil nlin _ _ _ _ _ _ _ _ _ _ E0 E Ha Hi) as [Ev0 F0].
    destruct (step_lin R r0 radd rmul rsub atom catom one lin bil nlin _ _ _ _ _ _ _ _ _ Hl H Ev0 F0) as [Ev1 F1].
    destruct (emit_ty _ _ _ _ _ _ E0) as (ts0 & t0 & Hm0 & Hi0 & Ht0 & X0).
    destruct (emit_ty _ _ _ _ _ _ H) as (ts1 & t1 & Hm1 & Hi1 & Ht1 & X1).
    eexists. split; [exact Ev1|]. split; [eauto using mono_trans, mono_snoc|]. split; [exact F1|].
    split; [eauto using ext_trans|].
    intros T HT. cbn [mapM] in Hm0. rewrite HT in Hm0. cbn [bind] in Hm0. inversion Hm0; subst.
    cbn [mapM] in Hm1. rewrite Ht0 in Hm1. cbn [bind] in Hm1. inversion Hm1; subst. eauto.
  Qed.

  Lemma apply_lin_private_sem priv d0 o a out out' id ins0 env ins a0 a1 a2 :
    is_lin_op o = true -> mem d0 priv = true ->
    apply_op priv d0 o [a] [d0] out = Ok (out', id) ->
    evals ins0 out env ins -> znth env a = Ok (T3 a0 a1 a2) -> shty out a ->
    exists env', evals ins0 out' env' ins /\ mono env env' /\ ext out out' /\
      znth env' id = Ok (T3 (lin o a0) (lin o a1) (lin o a2)) /\ shty out' id.
  Proof.
    intros Hl Hm H E Ha (T & HT & (t1 & t2 & t3 & -> & Lt1)).
    rewrite apply_op_private in H; [|destruct o; try discriminate; reflexivity | exact Hm].
    apply bind_ok in H as ([o3 rs] & HM & H). unfold parties in HM. cbn [mapS] in HM.
    apply bind_ok in HM as ([o1 q0] & E0 & HM). apply bind_ok in HM as ([o2' l1] & HM & Hr). inversion Hr; subst; clear Hr.
    apply bind_ok in HM as ([o2 q1] & E1 & HM). apply bind_ok in HM as ([o3' l2] & HM & Hr). inversion Hr; subst; clear Hr.
    apply bind_ok in HM as ([o3'' q2] & E2 & HM). inversion HM; subst; clear HM.
    rewrite (op_shares_lin _ _ _ _ _ _ Hl) in E0. rewrite (op_shares_lin _ _ _ _ _ _ Hl) in E1.
    rewrite (op_shares_lin _ _ _ _ _ _ Hl) in E2.
    destruct (lin_share_sem _ _ _ _ _ _ _ _ _ _ _ _ _ Hl Hm E0 E Ha (eq_refl : znth [L a0; L a1; L a2] 0 = Ok (L a0)))
      as (e1 & Ev1 & M1 & F0 & X1 & Ty1).
    destruct (lin_share_sem _ _ _ _ _ _ _ _ _ _ _ _ _ Hl Hm E1 Ev1 (M1 _ _ Ha) (eq_refl : znth [L a0; L a1; L a2] 1 = Ok (L a1)))
      as (e2 & Ev2 & M2 & F1 & X2 & _).
    destruct (lin_share_sem _ _ _ _ _ _ _ _ _ _ _ _ _ Hl Hm E2 Ev2 (M2 _ _ (M1 _ _ Ha)) (eq_refl : znth [L a0; L a1; L a2] 2 = Ok (L a2)))
      as (e3 & Ev3 & M3 & F2 & X3 & _).
    assert (Hmm : mapM (fun d => znth e3 d) [q0; q1; q2] = Ok [L (lin o a0); L (lin o a1); L (lin o a2)]).
    { cbn [mapM]. rewrite (M3 _ _ (M2 _ _ F0)), (M3 _ _ F1), F2. reflexivity. }
    destruct (step_ctuple R r0 radd rmul rsub atom catom one lin bil nlin _ _ _ _ _ _ _ _ H Ev3 Hmm) as [Ev4 F4].
    destruct (emit_ty _ _ _ _ _ _ H) as (ts4 & t4 & Hm4 & Hi4 & Ht4 & X4).
    eexists. split; [exact Ev4|]. split.
    { intros d x Hd. apply mono_snoc. auto 8. }
    split; [eauto 6 using ext_trans|]. split; [exact F4|].
    exists t4. split; [exact Ht4|]. apply infer_ctuple in Hi4. subst t4.
    destruct (mapM3 _ _ _ _ _ Hm4) as (ta & tb & tc & -> & Hqa & _ & _).
    destruct (Ty1 _ HT) as (t0 & tr & Hinf & Htr & Hir).
    apply infer_tget3 in Hinf. cbn in Hinf. inversion Hinf; subst t0.
    rewrite (ext_out_ty _ _ _ _ (ext_trans _ _ _ X2 X3) Htr) in Hqa. inversion Hqa; subst ta.
    exists tr, tb, tc. split; [reflexivity|]. eapply infer_lin_leaf; eauto.
  Qed.


  (* ---------- apply_op on an n-ary share-wise lifted operation (Stack, Concatenate) ---------- *)
  (* the i-th share of an operand: component i of a private operand; (x, 0, 0) for a public one *)
  Definition shrel (i : Z) (p : bool) (x : R) (vc : rv) (y : R) : Prop :=
    if p then exists a b c, vc = T3 a b c /\ znth [a; b; c] i = Ok y
    else y = (if i =? 0 then x else r0).

  (* the operands of a node: source ids, compiled ids, source values, compiled values *)
  Inductive deps_ok (priv : list Z) (env : list rv) (out : list node) : list Z -> list Z -> list R -> list rv -> Prop :=
  | deps_nil : deps_ok priv env out [] [] [] []
  | deps_cons o nw x vc olds news xs vcs :
      znth env nw = Ok vc -> rel (mem o priv) (L x) vc ->
      (mem o priv = true -> shty out nw) -> (mem o priv = false -> pubty out nw) ->
      deps_ok priv env out olds news xs vcs ->
      deps_ok priv env out (o :: olds) (nw :: news) (x :: xs) (vc :: vcs).

  Inductive dsh (priv : list Z) (i : Z) : list Z -> list R -> list rv -> list R -> Prop :=
  | dsh_nil : dsh priv i [] [] [] []
  | dsh_cons o x vc y olds xs vcs ys :
      shrel i (mem o priv) x vc y -> dsh priv i olds xs vcs ys ->
      dsh priv i (o :: olds) (x :: xs) (vc :: vcs) (y :: ys).

  Lemma deps_ok_mono priv env env' out out' olds news xs vcs :
    mono env env' -> ext out out' -> deps_ok priv env out olds news xs vcs -> deps_ok priv env' out' olds news xs vcs.
  Proof.
    intros M X D. induction D; constructor; auto.
    - intros Hp. eapply shty_ext; eauto.
    - intros Hp. eapply pubty_ext; eauto.
  Qed.

  Lemma share_vec_sem priv i : (i = 0 \/ i = 1 \/ i = 2) ->
    forall olds news xs vcs out out' sv ins0 env ins,
    share_vec priv i olds news out = Ok (out', sv) -> evals ins0 out env ins ->
    deps_ok priv env out olds news xs vcs ->
    exists env' ys, evals ins0 out' env' ins /\ mono env env' /\ ext out out' /\
      mapM (fun d => znth env' d) sv = Ok (map L ys) /\ dsh priv i olds xs vcs ys.
  Proof.
    intros Hi olds. induction olds as [|o olds IH]; intros news xs vcs out out' sv ins0 env ins H E D; cbn [share_vec] in H.
    - inversion D; subst. inversion H; subst. exists env, []. split; [exact E|]. split; [apply mono_refl|].
      split; [apply ext_refl|]. split; [reflexivity | constructor].
    - inversion D as [|o' nw x vc olds' news' xs' vcs' Hnw Hrel Hsh Hpub D']; subst.
      apply bind_ok in H as ([out1 s] & H1 & H). apply bind_ok in H as ([out2 rest] & H2 & H). inversion H; subst; clear H.
      assert (S1 : exists env1 y, evals ins0 out1 env1 ins /\ mono env env1 /\ ext out out1 /\
                                  znth env1 s = Ok (L y) /\ shrel i (mem o priv) x vc y).
      { destruct (mem o priv) eqn:Hp.
        - apply rel_true_inv in Hrel as (a & b & c & -> & Sx).
          assert (Hy : exists y, znth [L a; L b; L c] i = Ok (L y) /\ znth [a; b; c] i = Ok y)
            by (destruct Hi as [-> | [-> | ->]]; eexists; split; reflexivity).
          destruct Hy as (y & Hy1 & Hy2).
          destruct (step_tget R r0 radd rmul rsub atom catom one lin bil nlin _ _ _ _ _ _ _ _ _ _ H1 E Hnw Hy1) as [Ev F].
          destruct (emit_ty _ _ _ _ _ _ H1) as (_ & _ & _ & _ & _ & X).
          exists (env ++ [L y]), y. split; [exact Ev|]. split; [apply mono_snoc|]. split; [exact X|]. split; [exact F|].
          exists a, b, c. auto.
        - cbn [rel] in Hrel. subst vc. destruct (i =? 0) eqn:Hi0.
          + inversion H1; subst. exists env, x. split; [exact E|]. split; [apply mono_refl|]. split; [apply ext_refl|].
            split; [exact Hnw|]. unfold shrel. rewrite Hi0. reflexivity.
          + apply bind_ok in H1 as (T & HT & H1). destruct (Hpub eq_refl) as (T' & HT' & LT).
            rewrite HT' in HT. inversion HT; subst T'.
            destruct (step_zeros R r0 radd rmul rsub atom catom one lin bil nlin _ _ _ _ _ _ _ LT H1 E) as [Ev F].
            destruct (emit_ty _ _ _ _ _ _ H1) as (_ & _ & _ & _ & _ & X).
            exists (env ++ [L r0]), r0. split; [exact Ev|]. split; [apply mono_snoc|]. split; [exact X|]. split; [exact F|].
            unfold shrel. rewrite Hi0. reflexivity. }
      destruct S1 as (env1 & y & Ev1 & M1 & X1 & Fs & Shr).
      destruct (IH _ _ _ _ _ _ _ _ _ H2 Ev1 (deps_ok_mono _ _ _ _ _ _ _ _ _ M1 X1 D')) as (env2 & ys & Ev2 & M2 & X2 & Hm & Ds).
      exists env2, (y :: ys). split; [exact Ev2|]. split; [eauto using mono_trans|]. split; [eauto using ext_trans|].
      split; [cbn [mapM map]; rewrite (M2 _ _ Fs), Hm; reflexivity | constructor; assumption].
  Qed.

  Lemma dsh_length priv i olds xs vcs ys : dsh priv i olds xs vcs ys -> length ys = length xs.
  Proof. induction 1; cbn; congruence. Qed.

  Lemma vadd_length l l' : length l = length l' -> length (vadd l l') = length l.
  Proof. revert l'; induction l as [|x l IH]; intros [|y l'] H; cbn in *; try discriminate; auto. Qed.

  Lemma dsh_sum priv env out olds news xs vcs ys0 ys1 ys2 :
    deps_ok priv env out olds news xs vcs ->
    dsh priv 0 olds xs vcs ys0 -> dsh priv 1 olds xs vcs ys1 -> dsh priv 2 olds xs vcs ys2 ->
    vadd (vadd ys0 ys1) ys2 = xs.
  Proof.
    intros D. revert ys0 ys1 ys2. induction D as [|o nw x vc olds news xs vcs Hnw Hrel Hsh Hpub D IH]; intros ys0 ys1 ys2 D0 D1 D2.
    - inversion D0; inversion D1; inversion D2; reflexivity.
    - inversion D0 as [|? ? ? y0 ? ? ? ys0' S0 D0']; subst. inversion D1 as [|? ? ? y1 ? ? ? ys1' S1 D1']; subst.
      inversion D2 as [|? ? ? y2 ? ? ? ys2' S2 D2']; subst.
      cbn [MpcCompileSem.vadd]. f_equal; [|apply IH; assumption].
      unfold shrel in S0, S1, S2. destruct (mem o priv).
      + apply rel_true_inv in Hrel as (a & b & c & Hvc & Sx).
        destruct S0 as (a0 & b0 & c0 & E0 & Z0). destruct S1 as (a1 & b1 & c1 & E1 & Z1). destruct S2 as (a2 & b2 & c2 & E2 & Z2).
        rewrite Hvc in E0, E1, E2. inversion E0; inversion E1; inversion E2; subst.
        cbn in Z0, Z1, Z2. inversion Z0; inversion Z1; inversion Z2; subst. reflexivity.
      + subst. change (0 =? 0) with true. change (1 =? 0) with false. change (2 =? 0) with false. cbv iota. ring.
  Qed.

  Lemma op_shares_nlin priv o i olds news out :
    is_nlin_op o = true -> op_shares priv o i olds news out = share_vec priv i olds news out.
  Proof. destruct o; try discriminate; reflexivity. Qed.

  Lemma nary_share_sem priv o i olds news xs vcs out out' id ins0 env ins :
    (i = 0 \/ i = 1 \/ i = 2) -> is_nlin_op o = true ->
    (let* (out', share) := op_shares priv o i olds news out in emit o share [] out') = Ok (out', id) ->
    evals ins0 out env ins -> deps_ok priv env out olds news xs vcs ->
    exists env' ys, evals ins0 out' env' ins /\ mono env env' /\ ext out out' /\
      znth env' id = Ok (L (nlin o ys)) /\ dsh priv i olds xs vcs ys /\
      exists tr, out_ty out' id = Ok tr /\ is_leaf tr = true.
  Proof.
    intros Hi Hn H E D. rewrite (op_shares_nlin _ _ _ _ _ _ Hn) in H.
    apply bind_ok in H as ([o1 sv] & H1 & H).
    destruct (share_vec_sem _ _ Hi _ _ _ _ _ _ _ _ _ _ H1 E D) as (env1 & ys & Ev1 & M1 & X1 & Hm & Ds).
    destruct (step_nlin R r0 radd rmul rsub atom catom one lin bil nlin _ _ _ _ _ _ _ _ _ Hn H Ev1 Hm) as [Ev2 F2].
    destruct (emit_ty _ _ _ _ _ _ H) as (ts & t & _ & Hi2 & Ht & X2).
    exists (env1 ++ [L (nlin o ys)]), ys. split; [exact Ev2|]. split; [eauto using mono_trans, mono_snoc|].
    split; [eauto using ext_trans|]. split; [exact F2|]. split; [exact Ds|].
    exists t. split; [exact Ht | eapply infer_nlin_leaf; eauto].
  Qed.

  Lemma apply_nary_private_sem priv n o news olds xs vcs out out' id ins0 env ins :
    is_nlin_op o = true -> mem n priv = true ->
    apply_op priv n o news olds out = Ok (out', id) ->
    evals ins0 out env ins -> deps_ok priv env out olds news xs vcs ->
    exists env' a b c, evals ins0 out' env' ins /\ mono env env' /\ ext out out' /\
      znth env' id = Ok (T3 a b c) /\ radd (radd a b) c = nlin o xs /\ shty out' id.
  Proof.
    intros Hn Hm H E D.
    rewrite apply_op_private in H; [|destruct o; try discriminate; reflexivity | exact Hm].
    apply bind_ok in H as ([o3 rs] & HM & H). unfold parties in HM. cbn [mapS] in HM.
    apply bind_ok in HM as ([o1 q0] & E0 & HM). apply bind_ok in HM as ([o2' l1] & HM & Hr). inversion Hr; subst; clear Hr.
    apply bind_ok in HM as ([o2 q1] & E1 & HM). apply bind_ok in HM as ([o3' l2] & HM & Hr). inversion Hr; subst; clear Hr.
    apply bind_ok in HM as ([o3'' q2] & E2 & HM). inversion HM; subst; clear HM.
    destruct (nary_share_sem _ _ _ _ _ _ _ _ _ _ _ _ _ (or_introl eq_refl) Hn E0 E D)
      as (e1 & ys0 & Ev1 & M1 & X1 & F0 & D0 & (tr & Htr & Ltr)).
    destruct (nary_share_sem _ _ _ _ _ _ _ _ _ _ _ _ _ (or_intror (or_introl eq_refl)) Hn E1 Ev1 (deps_ok_mono _ _ _ _ _ _ _ _ _ M1 X1 D))
      as (e2 & ys1 & Ev2 & M2 & X2 & F1 & D1 & _).
    destruct (nary_share_sem _ _ _ _ _ _ _ _ _ _ _ _ _ (or_intror (or_intror eq_refl)) Hn E2 Ev2
                (deps_ok_mono _ _ _ _ _ _ _ _ _ (mono_trans _ _ _ _ M1 M2) (ext_trans _ _ _ X1 X2) D))
      as (e3 & ys2 & Ev3 & M3 & X3 & F2 & D2 & _).
    assert (Hmm : mapM (fun d => znth e3 d) [q0; q1; q2] = Ok [L (nlin o ys0); L (nlin o ys1); L (nlin o ys2)]).
    { cbn [mapM]. rewrite (M3 _ _ (M2 _ _ F0)), (M3 _ _ F1), F2. reflexivity. }
    destruct (step_ctuple R r0 radd rmul rsub atom catom one lin bil nlin _ _ _ _ _ _ _ _ H Ev3 Hmm) as [Ev4 F4].
    destruct (emit_ty _ _ _ _ _ _ H) as (ts4 & t4 & Hm4 & Hi4 & Ht4 & X4).
    exists (e3 ++ [RTup R [L (nlin o ys0); L (nlin o ys1); L (nlin o ys2)]]), (nlin o ys0), (nlin o ys1), (nlin o ys2).
    split; [exact Ev4|]. split.
    { intros d x Hd. apply mono_snoc. auto 8. }
    split; [eauto 6 using ext_trans|]. split; [exact F4|]. split.
    - pose proof (dsh_length _ _ _ _ _ _ D0) as L0. pose proof (dsh_length _ _ _ _ _ _ D1) as L1.
      pose proof (dsh_length _ _ _ _ _ _ D2) as L2.
      rewrite <- (dsh_sum _ _ _ _ _ _ _ _ _ _ D D0 D1 D2).
      rewrite nlin_add by (rewrite vadd_length; congruence). rewrite nlin_add by congruence. reflexivity.
    - exists t4. split; [exact Ht4|]. apply infer_ctuple in Hi4. subst t4.
      destruct (mapM3 _ _ _ _ _ Hm4) as (ta & tb & tc & -> & Hqa & _ & _).
      rewrite (ext_out_ty _ _ _ _ (ext_trans _ _ _ X2 X3) Htr) in Hqa. inversion Hqa; subst ta.
      exists tr, tb, tc. auto.
  Qed.

  (* ---------- the tail of compile_node: optional resharing, Private annotation ---------- *)
  Lemma finish_sem priv resh keys i out1 n1 out' nn ins0 env1 ins vs vc :
    (if mem i priv then
       let* (out2, new_node2) :=
         (if mem i resh then match keys with None => Err | Some k => reshare n1 k out1 end else Ok (out1, n1)) in
       let* out3 := add_annotation new_node2 APrivate out2 in Ok (out3, new_node2)
     else Ok (out1, n1)) = Ok (out', nn) ->
    evals ins0 out1 env1 ins -> znth env1 n1 = Ok vc -> rel (mem i priv) vs vc ->
    (mem i priv = true -> shty out1 n1) -> (mem i priv = false -> pubty out1 n1) -> keys_ok keys env1 ->
    exists env' vc', evals ins0 out' env' ins /\ mono env1 env' /\ ext out1 out' /\
      znth env' nn = Ok vc' /\ rel (mem i priv) vs vc' /\ (mem i priv = true -> shty out' nn) /\
      (mem i priv = false -> pubty out' nn).
  Proof.
    intros H E Hn Hr Hs Hpub Hk. destruct (mem i priv) eqn:Hp.
    - apply bind_ok in H as ([out2 n2] & H2 & H). apply bind_ok in H as (out3 & HA & H). inversion H; subst; clear H.
      destruct (add_annotation_ext _ _ _ _ HA) as [XA _].
      destruct (mem i resh).
      + destruct keys as [k|]; [|discriminate]. destruct (Hk _ eq_refl) as (kv0 & kv1 & kv2 & Hkv).
        destruct Hr as (x & a & b & c & -> & -> & Sx).
        destruct (reshare_sem _ _ _ _ _ _ _ _ _ _ _ _ _ _ H2 E Hn Hkv (Hs eq_refl))
          as (env' & a' & b' & c' & Ev & M & Fid & Sum & Ty).
        destruct (reshare_grows _ _ _ _ _ H2) as [[X2 _] _].
        exists env', (T3 a' b' c'). split; [eapply add_annotation_evals; eauto|]. split; [exact M|].
        split; [eauto using ext_trans|]. split; [exact Fid|]. split.
        * exists x, a', b', c'. split; [reflexivity|]. split; [reflexivity|]. rewrite Sum. exact Sx.
        * split; [intros _; eapply shty_ext; eauto | discriminate].
      + inversion H2; subst. exists env1, vc. split; [eapply add_annotation_evals; eauto|]. split; [apply mono_refl|].
        split; [exact XA|]. split; [exact Hn|]. split; [exact Hr|]. split; [intros _; eapply shty_ext; eauto | discriminate].
    - inversion H; subst. exists env1, vc. split; [exact E|]. split; [apply mono_refl|]. split; [apply ext_refl|].
      split; [exact Hn|]. split; [exact Hr|]. split; [discriminate | exact Hpub].
  Qed.

  (* ---------- one source node ---------- *)
  Definition node_priv (priv : list Z) (i : Z) (nd : node) (flags flags' : list bool) : Prop :=
    match n_op nd with
    | OInput _ => exists b, flags = b :: flags' /\ mem i priv = b
    | OConstant _ _ | OZeros _ | OOnes _ => flags' = flags /\ mem i priv = false
    | OVectorGet => flags' = flags /\ True
    | _ => flags' = flags /\ mem i priv = is_one_node_private (n_deps nd) priv
    end.

  Lemma priv_spec_cons nd r i flags priv :
    priv_spec (nd :: r) i flags priv -> exists flags', node_priv priv i nd flags flags' /\ priv_spec r (i + 1) flags' priv.
  Proof.
    cbn [priv_spec]. unfold node_priv. destruct (n_op nd); try (intros [H1 H2]; eauto; fail).
    destruct flags as [|b fl]; [contradiction|]. intros [H1 H2]. eauto.
  Qed.

  (* what the first half of compile_node (the new node, before resharing) establishes *)
  Definition part1 (priv : list Z) (i : Z) (out out1 : list node) (n1 : Z) (flags' : list bool)
             (ins0c env_c ins_c env_s : list rv) (st' : list rv * list rv) : Prop :=
    exists vs ins_s1 env1 ins_c1 vc,
      st' = (env_s ++ [vs], ins_s1) /\ evals ins0c out1 env1 ins_c1 /\ mono env_c env1 /\ ext out out1 /\
      znth env1 n1 = Ok vc /\ rel (mem i priv) vs vc /\ (mem i priv = true -> shty out1 n1) /\
      (mem i priv = false -> pubty out1 n1) /\ inrel flags' ins_s1 ins_c1.

  Lemma input_case priv i t nd omap out out1 n1 flags flags' ins0c env_c ins_c env_s ins_s st' :
    n_op nd = OInput t -> is_leaf t = true ->
    apply_op priv i (OInput t) [] [] out = Ok (out1, n1) ->
    node_priv priv i nd flags flags' ->
    dstp (Some (env_s, ins_s)) nd = Some st' ->
    evals ins0c out env_c ins_c -> inrel flags ins_s ins_c -> Inv priv omap env_s env_c out ->
    part1 priv i out out1 n1 flags' ins0c env_c ins_c env_s st'.
  Proof.
    intros Ho Lt H1 Np Hs E Hin _. unfold node_priv in Np. rewrite Ho in Np. destruct Np as (b & -> & Hb).
    unfold dstep in Hs. rewrite Ho in Hs. destruct ins_s as [|v ins']; [discriminate|]. inversion Hs; subst st'; clear Hs.
    unfold apply_op in H1. rewrite Hb in H1.
    destruct b; inversion Hin as [fl0 | fl0 v0 s0 c Hrest | fl0 x a b c0 s0 c Hsum Hrest]; subst; cbn [negb] in H1.
    - destruct (emit_spec _ _ _ _ _ _ H1) as (ts & ty1 & Hm & Hi & -> & ->).
      cbn [mapM] in Hm. inversion Hm; subst ts. apply infer_input in Hi. subst ty1.
      exists (L (radd (radd a b) c0)), ins', (env_c ++ [T3 a b c0]), c, (T3 a b c0).
      split; [reflexivity|]. split; [eapply evals_snoc_input; eauto; reflexivity|]. split; [apply mono_snoc|].
      split; [apply ext_app|]. split; [(let EL := fresh "EL" in pose proof E as EL; apply evals_length in EL; rewrite <- EL); apply znth_last|].
      split; [rewrite Hb; exists (radd (radd a b) c0), a, b, c0; auto|]. split; [|split; [rewrite Hb; discriminate | assumption]].
      intros _. eexists. split; [apply out_ty_last|]. cbn [n_ty]. exists t, t, t. auto.
    - destruct (emit_spec _ _ _ _ _ _ H1) as (ts & ty1 & Hm & Hi & -> & ->).
      cbn [mapM] in Hm. inversion Hm; subst ts. apply infer_input in Hi. subst ty1.
      exists v, ins', (env_c ++ [v]), c, v.
      split; [reflexivity|]. split; [eapply evals_snoc_input; eauto; reflexivity|]. split; [apply mono_snoc|].
      split; [apply ext_app|]. split; [(let EL := fresh "EL" in pose proof E as EL; apply evals_length in EL; rewrite <- EL); apply znth_last|].
      split; [rewrite Hb; reflexivity|]. split; [rewrite Hb; discriminate|]. split; [|assumption].
      intros _. eexists. split; [apply out_ty_last | exact Lt].
  Qed.

  Lemma const_case priv i nd omap out out1 n1 flags flags' ins0c env_c ins_c env_s ins_s st' :
    (exists t, (n_op nd = OZeros t \/ n_op nd = OOnes t \/ exists v, n_op nd = OConstant t v) /\ is_leaf t = true) ->
    emit (n_op nd) [] [] out = Ok (out1, n1) ->
    node_priv priv i nd flags flags' ->
    dstp (Some (env_s, ins_s)) nd = Some st' ->
    evals ins0c out env_c ins_c -> inrel flags ins_s ins_c -> Inv priv omap env_s env_c out ->
    part1 priv i out out1 n1 flags' ins0c env_c ins_c env_s st'.
  Proof.
    intros (t & Ho & Lt) H1 Np Hs E Hin _.
    assert (Hni : is_input (n_op nd) = false) by (destruct Ho as [-> | [-> | (v & ->)]]; reflexivity).
    assert (Hth : thm_op (n_op nd) = true) by (destruct Ho as [-> | [-> | (v & ->)]]; exact Lt).
    destruct (dstep_noninput _ _ _ _ Hni Hs) as (vsl & v & Hm & Hv & ->).
    assert (vsl = []) as -> by (destruct Ho as [Ho | [Ho | (c & Ho)]]; rewrite Ho in Hv; destruct vsl; [reflexivity | discriminate | reflexivity | discriminate | reflexivity | discriminate]).
    assert (Np' : flags' = flags /\ mem i priv = false) by (unfold node_priv in Np; destruct Ho as [Ho | [Ho | (c & Ho)]]; rewrite Ho in Np; exact Np).
    destruct Np' as [-> Hb].
    rewrite (dnode_index _ _ (zlen env_c) _ Hth) in Hv.
    destruct (emit_evals R r0 radd rmul rsub atom catom one lin bil nlin _ _ _ _ _ _ _ _ _ [] v H1 E Hni eq_refl Hv) as [Ev F].
    destruct (emit_ty _ _ _ _ _ _ H1) as (ts1 & t1 & Hm1 & Hi1 & Ht1 & X).
    cbn [mapM] in Hm1. inversion Hm1; subst ts1. apply (infer_const_ty _ t) in Hi1; [|exact Ho]. subst t1.
    exists v, ins_s, (env_c ++ [v]), ins_c, v.
    split; [reflexivity|]. split; [exact Ev|]. split; [apply mono_snoc|]. split; [exact X|]. split; [exact F|].
    split; [rewrite Hb; reflexivity|]. split; [rewrite Hb; discriminate|]. split; [|assumption].
    intros _. exists t. split; [exact Ht1 | exact Lt].
  Qed.

  Lemma leaf2_inv f vsl v : leaf2 R f vsl = Some v -> exists x y, vsl = [L x; L y] /\ v = L (f x y).
  Proof.
    unfold leaf2. destruct vsl as [|[x| |] [|[y| |] [|]]]; try discriminate. intros H; inversion H; eauto.
  Qed.

  Lemma list2_of_length {A} (l : list A) : length l = 2%nat -> exists a b, l = [a; b].
  Proof. destruct l as [|a [|b [|]]]; try discriminate. eauto. Qed.
  Lemma list1_of_length {A} (l : list A) : length l = 1%nat -> exists a, l = [a].
  Proof. destruct l as [|a [|]]; try discriminate. eauto. Qed.

  Lemma arith_case g priv i nd omap out out1 n1 flags flags' ins0c env_c ins_c env_s ins_s st' :
    (n_op nd = OAdd /\ g = GAdd) \/ (n_op nd = OSubtract /\ g = GSub) \/ (g = GBil (n_op nd) /\ is_bil (n_op nd) = true) ->
    (let* d0 := znth (n_deps nd) 0 in let* d1 := znth (n_deps nd) 1 in
     let* a := znth omap d0 in let* b := znth omap d1 in emit_gadget g [a; b] out) = Ok (out1, n1) ->
    node_priv priv i nd flags flags' ->
    dstp (Some (env_s, ins_s)) nd = Some st' ->
    evals ins0c out env_c ins_c -> inrel flags ins_s ins_c -> Inv priv omap env_s env_c out ->
    part1 priv i out out1 n1 flags' ins0c env_c ins_c env_s st'.
  Proof.
    intros Ho H1 Np Hs E Hin [_ Hinv].
    assert (Hni : is_input (n_op nd) = false) by (destruct Ho as [[-> _] | [[-> _] | [_ Hb]]]; try reflexivity; destruct (n_op nd); try discriminate; reflexivity).
    assert (Hg : elem_gadget g = true) by (destruct Ho as [[_ ->] | [[_ ->] | [-> Hb]]]; try reflexivity; exact Hb).
    destruct (dstep_noninput _ _ _ _ Hni Hs) as (vsl & v & Hm & Hv & ->).
    assert (Hxy : exists x y, vsl = [L x; L y] /\ v = L (gadget_plain R radd rmul rsub bil g x y)).
    { destruct Ho as [[Ho ->] | [[Ho ->] | [-> Hb]]]; [rewrite Ho in Hv; cbn [deval_node] in Hv; apply leaf2_inv in Hv; exact Hv ..|].
      destruct (n_op nd); try discriminate; cbn [deval_node] in Hv; apply leaf2_inv in Hv; exact Hv. }
    destruct Hxy as (x & y & -> & ->).
    destruct (list2_of_length _ (eq_sym (mapM_ok_length _ _ _ Hm))) as (d0 & d1 & Hd).
    rewrite Hd in Hm, H1. destruct (mapM2 _ _ _ _ Hm) as (vx & vy & Hl & Hx & Hy). inversion Hl; subst vx vy; clear Hl.
    assert (Np' : flags' = flags /\ mem i priv = mem d0 priv || mem d1 priv).
    { unfold node_priv in Np. rewrite Hd in Np. unfold is_one_node_private in Np. cbn [existsb] in Np. rewrite orb_false_r in Np.
      destruct Ho as [[Ho _] | [[Ho _] | [_ Hb]]]; [rewrite Ho in Np; exact Np ..|]. destruct (n_op nd); try discriminate; exact Np. }
    destruct Np' as [-> Hb].
    destruct (Hinv _ _ Hx) as (ka & va & Hka & Hva & Ra & Sa & Pa). destruct (Hinv _ _ Hy) as (kb & vb & Hkb & Hvb & Rb & Sb & Pb).
    change (znth [d0; d1] 0) with (Ok d0) in H1. change (znth [d0; d1] 1) with (Ok d1) in H1. cbn [bind] in H1.
    rewrite Hka, Hkb in H1. cbn [bind] in H1.
    destruct (gadget_node_sem _ _ _ _ _ _ _ _ _ _ _ _ _ _ _ Hg H1 E Hva Hvb Ra Rb Sa Sb) as (vc & Ev & F & Rc & Sc & X).
    exists (L (gadget_plain R radd rmul rsub bil g x y)), ins_s, (env_c ++ [vc]), ins_c, vc.
    split; [reflexivity|]. split; [exact Ev|]. split; [apply mono_snoc|]. split; [exact X|]. split; [exact F|].
    rewrite Hb. split; [exact Rc|]. split; [exact Sc|]. split; [|assumption].
    intros Hpp. apply orb_false_iff in Hpp as [Hpa Hpb]. eapply gadget_node_pubty; eauto.
  Qed.

  Lemma dnode_lin o k vsl v : is_lin_op o = true -> dnode k o vsl = Some v -> exists x, vsl = [L x] /\ v = L (lin o x).
  Proof.
    intros Hl. destruct o; try discriminate; cbn [deval_node]; rewrite Hl;
      (destruct vsl as [|[x| |] [|]]; try discriminate; intros H; inversion H; eauto).
  Qed.

  Lemma lin_case o priv i nd omap out out1 n1 flags flags' ins0c env_c ins_c env_s ins_s st' :
    n_op nd = o -> is_lin_op o = true ->
    (let* d0 := znth (n_deps nd) 0 in let* a := znth omap d0 in apply_op priv d0 o [a] (n_deps nd) out) = Ok (out1, n1) ->
    node_priv priv i nd flags flags' ->
    dstp (Some (env_s, ins_s)) nd = Some st' ->
    evals ins0c out env_c ins_c -> inrel flags ins_s ins_c -> Inv priv omap env_s env_c out ->
    part1 priv i out out1 n1 flags' ins0c env_c ins_c env_s st'.
  Proof.
    intros Ho Hl H1 Np Hs E Hin [_ Hinv].
    assert (Hni : is_input o = false) by (destruct o; try discriminate; reflexivity).
    rewrite <- Ho in Hni. destruct (dstep_noninput _ _ _ _ Hni Hs) as (vsl & v & Hm & Hv & ->).
    rewrite Ho in Hv. destruct (dnode_lin _ _ _ _ Hl Hv) as (x & -> & ->).
    destruct (list1_of_length _ (eq_sym (mapM_ok_length _ _ _ Hm))) as (d0 & Hd).
    rewrite Hd in Hm, H1. cbn [mapM] in Hm. destruct (znth env_s d0) as [vx| | |] eqn:Hx; try discriminate.
    cbn [bind] in Hm. inversion Hm; subst vx; clear Hm.
    assert (Np' : flags' = flags /\ mem i priv = mem d0 priv).
    { unfold node_priv in Np. rewrite Hd in Np. unfold is_one_node_private in Np. cbn [existsb] in Np. rewrite orb_false_r in Np.
      rewrite Ho in Np. destruct o; try discriminate; exact Np. }
    destruct Np' as [-> Hb].
    destruct (Hinv _ _ Hx) as (ka & va & Hka & Hva & Ra & Sa & Pa).
    change (znth [d0] 0) with (Ok d0) in H1. cbn [bind] in H1. rewrite Hka in H1. cbn [bind] in H1.
    unfold part1. rewrite Hb. destruct (mem d0 priv) eqn:Hp.
    - apply rel_true_inv in Ra as (a0 & a1 & a2 & -> & Sx).
      destruct (apply_lin_private_sem _ _ _ _ _ _ _ _ _ _ _ _ _ Hl Hp H1 E Hva (Sa eq_refl)) as (env1 & Ev & M & X & F & Sc).
      exists (L (lin o x)), ins_s, env1, ins_c, (T3 (lin o a0) (lin o a1) (lin o a2)).
      split; [reflexivity|]. split; [exact Ev|]. split; [exact M|]. split; [exact X|]. split; [exact F|].
      split; [|split; [intros _; exact Sc | split; [discriminate | assumption]]].
      exists (lin o x), (lin o a0), (lin o a1), (lin o a2). split; [reflexivity|]. split; [reflexivity|].
      rewrite <- Sx, !lin_add. reflexivity.
    - cbn [rel] in Ra. subst va. unfold apply_op in H1. rewrite Hp in H1. cbn [negb] in H1.
      destruct (step_lin R r0 radd rmul rsub atom catom one lin bil nlin _ _ _ _ _ _ _ _ _ Hl H1 E Hva) as [Ev F].
      destruct (emit_ty _ _ _ _ _ _ H1) as (ts1 & t1 & Hm1 & Hi1 & Ht1 & X).
      exists (L (lin o x)), ins_s, (env_c ++ [L (lin o x)]), ins_c, (L (lin o x)).
      split; [reflexivity|]. split; [exact Ev|]. split; [apply mono_snoc|]. split; [exact X|]. split; [exact F|].
      split; [reflexivity|]. split; [discriminate|]. split; [|assumption].
      intros _. exists t1. split; [exact Ht1|].
      destruct ts1 as [|ta [|]]; try (apply mapM_ok_length in Hm1; discriminate). eapply infer_lin_leaf; eauto.
  Qed.


  Lemma leaves_inv vsl xs : leaves R vsl = Some xs -> vsl = map L xs.
  Proof.
    revert xs; induction vsl as [|v vsl IH]; intros xs H; cbn in H.
    - inversion H; reflexivity.
    - destruct v as [x| |]; try discriminate. destruct (leaves R vsl) as [xs'|]; [|discriminate].
      inversion H; subst. cbn. f_equal. auto.
  Qed.

  Lemma dnode_nlin o k vsl v : is_nlin_op o = true -> dnode k o vsl = Some v -> exists xs, vsl = map L xs /\ v = L (nlin o xs).
  Proof.
    intros Hn. destruct o; try discriminate; cbn [deval_node is_lin_op is_nlin_op];
      (destruct (leaves R vsl) as [xs|] eqn:Hl; [|discriminate]; intros H; inversion H; subst;
       exists xs; split; [now apply leaves_inv | reflexivity]).
  Qed.

  Lemma build_deps priv omap env_s env_c out : Inv priv omap env_s env_c out ->
    forall deps xs, mapM (fun d => znth env_s d) deps = Ok (map L xs) ->
    exists news vcs, mapM (fun d => znth omap d) deps = Ok news /\ deps_ok priv env_c out deps news xs vcs.
  Proof.
    intros [_ Hinv] deps. induction deps as [|d deps IH]; intros xs H.
    - destruct xs; [|discriminate]. exists [], []. split; [reflexivity | constructor].
    - cbn [mapM] in H. apply bind_ok in H as (v & Hv & H). apply bind_ok in H as (vs & Hvs & H). inversion H as [Hx]; clear H.
      destruct xs as [|x xs]; [discriminate|]. cbn [map] in Hx. inversion Hx; subst v vs.
      destruct (IH _ Hvs) as (news & vcs & Hn & D). destruct (Hinv _ _ Hv) as (k & vc & Hk & Hvc & Rv & Sv & Pv).
      exists (k :: news), (vc :: vcs). split; [cbn [mapM]; rewrite Hk, Hn; reflexivity | constructor; assumption].
  Qed.

  Lemma deps_ok_public priv env out olds news xs vcs :
    deps_ok priv env out olds news xs vcs -> is_one_node_private olds priv = false ->
    mapM (fun d => znth env d) news = Ok (map L xs).
  Proof.
    induction 1 as [|o nw x vc olds news xs vcs Hnw Hrel Hsh Hpub D IH]; intros Hp; [reflexivity|].
    unfold is_one_node_private in Hp. cbn [existsb] in Hp. apply orb_false_iff in Hp as [Hp0 Hp].
    rewrite Hp0 in Hrel. cbn [rel] in Hrel. subst vc. cbn [mapM map]. rewrite Hnw, (IH Hp). reflexivity.
  Qed.

  Lemma nary_case o priv i nd omap out out1 n1 flags flags' ins0c env_c ins_c env_s ins_s st' :
    n_op nd = o -> is_nlin_op o = true ->
    (let* news := mapM (fun d => znth omap d) (n_deps nd) in apply_op priv i o news (n_deps nd) out) = Ok (out1, n1) ->
    node_priv priv i nd flags flags' ->
    dstp (Some (env_s, ins_s)) nd = Some st' ->
    evals ins0c out env_c ins_c -> inrel flags ins_s ins_c -> Inv priv omap env_s env_c out ->
    part1 priv i out out1 n1 flags' ins0c env_c ins_c env_s st'.
  Proof.
    intros Ho Hn H1 Np Hs E Hin HI.
    assert (Hni : is_input o = false) by (destruct o; try discriminate; reflexivity).
    rewrite <- Ho in Hni. destruct (dstep_noninput _ _ _ _ Hni Hs) as (vsl & v & Hm & Hv & ->).
    rewrite Ho in Hv. destruct (dnode_nlin _ _ _ _ Hn Hv) as (xs & -> & ->).
    destruct (build_deps _ _ _ _ _ HI _ _ Hm) as (news & vcs & Hnews & D).
    rewrite Hnews in H1. cbn [bind] in H1.
    assert (Np' : flags' = flags /\ mem i priv = is_one_node_private (n_deps nd) priv).
    { unfold node_priv in Np. rewrite Ho in Np. destruct o; try discriminate; exact Np. }
    destruct Np' as [-> Hb]. unfold part1. destruct (mem i priv) eqn:Hp.
    - destruct (apply_nary_private_sem _ _ _ _ _ _ _ _ _ _ _ _ _ Hn Hp H1 E D) as (env1 & a & b & c & Ev & M & X & F & Sx & Sc).
      exists (L (nlin o xs)), ins_s, env1, ins_c, (T3 a b c).
      split; [reflexivity|]. split; [exact Ev|]. split; [exact M|]. split; [exact X|]. split; [exact F|].
      split; [exists (nlin o xs), a, b, c; auto|]. split; [intros _; exact Sc|]. split; [discriminate | assumption].
    - unfold apply_op in H1. rewrite Hp in H1. cbn [negb] in H1.
      pose proof (deps_ok_public _ _ _ _ _ _ _ D (eq_sym Hb)) as Hmc.
      destruct (step_nlin R r0 radd rmul rsub atom catom one lin bil nlin _ _ _ _ _ _ _ _ _ Hn H1 E Hmc) as [Ev F].
      destruct (emit_ty _ _ _ _ _ _ H1) as (ts1 & t1 & Hm1 & Hi1 & Ht1 & X).
      exists (L (nlin o xs)), ins_s, (env_c ++ [L (nlin o xs)]), ins_c, (L (nlin o xs)).
      split; [reflexivity|]. split; [exact Ev|]. split; [apply mono_snoc|]. split; [exact X|]. split; [exact F|].
      split; [reflexivity|]. split; [discriminate|]. split; [|assumption].
      intros _. exists t1. split; [exact Ht1 | eapply infer_nlin_leaf; eauto].
  Qed.

  Lemma keys_ok_mono keys env env' : mono env env' -> keys_ok keys env -> keys_ok keys env'.
  Proof. intros M K k Hk. destruct (K _ Hk) as (a & b & c & H). eauto 6. Qed.

  Lemma compile_node_sem priv resh keys i nd omap out out' nn flags flags' ins0c env_c ins_c env_s ins_s st' :
    compile_node priv resh keys i nd omap out = Ok (out', nn) ->
    thm_op (n_op nd) = true ->
    node_priv priv i nd flags flags' ->
    dstp (Some (env_s, ins_s)) nd = Some st' ->
    evals ins0c out env_c ins_c -> inrel flags ins_s ins_c -> keys_ok keys env_c ->
    Inv priv omap env_s env_c out ->
    exists vs ins_s1 env_c' ins_c' vc,
      st' = (env_s ++ [vs], ins_s1) /\ evals ins0c out' env_c' ins_c' /\ mono env_c env_c' /\ ext out out' /\
      znth env_c' nn = Ok vc /\ rel (mem i priv) vs vc /\ (mem i priv = true -> shty out' nn) /\
      (mem i priv = false -> pubty out' nn) /\ inrel flags' ins_s1 ins_c'.
  Proof.
    intros H Hth Np Hs E Hin Hk HI. unfold compile_node in H.
    apply bind_ok in H as ([out1 n1] & H1 & H2).
    assert (P1 : part1 priv i out out1 n1 flags' ins0c env_c ins_c env_s st').
    { destruct (n_op nd) eqn:Ho; try discriminate.
      - eapply input_case; [exact Ho | exact Hth | exact H1 | exact Np | exact Hs | exact E | exact Hin | exact HI].
      - eapply const_case; [exists t; split; [rewrite Ho; eauto 6 | exact Hth] | rewrite Ho; exact H1 | exact Np | exact Hs | exact E | exact Hin | exact HI].
      - eapply const_case; [exists t; split; [rewrite Ho; eauto 6 | exact Hth] | rewrite Ho; exact H1 | exact Np | exact Hs | exact E | exact Hin | exact HI].
      - eapply (arith_case GAdd); [rewrite Ho; auto | exact H1 | exact Np | exact Hs | exact E | exact Hin | exact HI].
      - eapply (arith_case GSub); [rewrite Ho; auto | exact H1 | exact Np | exact Hs | exact E | exact Hin | exact HI].
      - eapply (arith_case (GBil OMultiply)); [rewrite Ho; right; right; split; reflexivity | | exact Np | exact Hs | exact E | exact Hin | exact HI].
        apply bind_ok in H1 as (d0 & Hd0 & H1). apply bind_ok in H1 as (d1 & Hd1 & H1).
        apply bind_ok in H1 as (a & Ha & H1). apply bind_ok in H1 as (b & Hb & H1).
        apply bind_ok in H1 as (tya & Htya & H1). apply bind_ok in H1 as (tyb & Htyb & H1).
        rewrite Hd0, Hd1. cbn [bind]. rewrite Ha, Hb. cbn [bind].
        destruct (is_tuple tya && is_tuple tyb); [destruct keys; [exact H1 | discriminate] | exact H1].
      - eapply (arith_case (GBil ODot)); [rewrite Ho; right; right; split; reflexivity | | exact Np | exact Hs | exact E | exact Hin | exact HI].
        apply bind_ok in H1 as (d0 & Hd0 & H1). apply bind_ok in H1 as (d1 & Hd1 & H1).
        apply bind_ok in H1 as (a & Ha & H1). apply bind_ok in H1 as (b & Hb & H1).
        apply bind_ok in H1 as (tya & Htya & H1). apply bind_ok in H1 as (tyb & Htyb & H1).
        rewrite Hd0, Hd1. cbn [bind]. rewrite Ha, Hb. cbn [bind].
        destruct (is_tuple tya && is_tuple tyb); [destruct keys; [exact H1 | discriminate] | exact H1].
      - eapply (arith_case (GBil OMatmul)); [rewrite Ho; right; right; split; reflexivity | | exact Np | exact Hs | exact E | exact Hin | exact HI].
        apply bind_ok in H1 as (d0 & Hd0 & H1). apply bind_ok in H1 as (d1 & Hd1 & H1).
        apply bind_ok in H1 as (a & Ha & H1). apply bind_ok in H1 as (b & Hb & H1).
        apply bind_ok in H1 as (tya & Htya & H1). apply bind_ok in H1 as (tyb & Htyb & H1).
        rewrite Hd0, Hd1. cbn [bind]. rewrite Ha, Hb. cbn [bind].
        destruct (is_tuple tya && is_tuple tyb); [destruct keys; [exact H1 | discriminate] | exact H1].
      - eapply (arith_case (GBil (OGemm ta tb))); [rewrite Ho; right; right; split; reflexivity | | exact Np | exact Hs | exact E | exact Hin | exact HI].
        apply bind_ok in H1 as (d0 & Hd0 & H1). apply bind_ok in H1 as (d1 & Hd1 & H1).
        apply bind_ok in H1 as (a & Ha & H1). apply bind_ok in H1 as (b & Hb & H1).
        apply bind_ok in H1 as (tya & Htya & H1). apply bind_ok in H1 as (tyb & Htyb & H1).
        rewrite Hd0, Hd1. cbn [bind]. rewrite Ha, Hb. cbn [bind].
        destruct (is_tuple tya && is_tuple tyb); [destruct keys; [exact H1 | discriminate] | exact H1].
      - eapply lin_case; [exact Ho | exact Hth | exact H1 | exact Np | exact Hs | exact E | exact Hin | exact HI].
      - eapply lin_case; [exact Ho | exact Hth | exact H1 | exact Np | exact Hs | exact E | exact Hin | exact HI].
      - eapply lin_case; [exact Ho | exact Hth | exact H1 | exact Np | exact Hs | exact E | exact Hin | exact HI].
      - eapply lin_case; [exact Ho | exact Hth | exact H1 | exact Np | exact Hs | exact E | exact Hin | exact HI].
      - eapply lin_case; [exact Ho | exact Hth | exact H1 | exact Np | exact Hs | exact E | exact Hin | exact HI].
      - eapply lin_case; [exact Ho | exact Hth | exact H1 | exact Np | exact Hs | exact E | exact Hin | exact HI].
      - eapply nary_case; [exact Ho | reflexivity | exact H1 | exact Np | exact Hs | exact E | exact Hin | exact HI].
      - eapply nary_case; [exact Ho | reflexivity | exact H1 | exact Np | exact Hs | exact E | exact Hin | exact HI].
      - eapply const_case; [exists t; split; [rewrite Ho; eauto 6 | exact Hth] | rewrite Ho; exact H1 | exact Np | exact Hs | exact E | exact Hin | exact HI]. }
    destruct P1 as (vs & ins_s1 & env1 & ins_c1 & vc & -> & Ev1 & M1 & X1 & F1 & R1 & S1 & Pb1 & In1).
    destruct (finish_sem _ _ _ _ _ _ _ _ _ _ _ _ _ H2 Ev1 F1 R1 S1 Pb1 (keys_ok_mono _ _ _ M1 Hk))
      as (env' & vc' & Ev & M & X & F & Rr & Sr & Pr).
    exists vs, ins_s1, env', ins_c1, vc'.
    split; [reflexivity|]. split; [exact Ev|]. split; [eauto using mono_trans|]. split; [eauto using ext_trans|].
    split; [exact F|]. split; [exact Rr|]. split; [exact Sr|]. split; [exact Pr | exact In1].
  Qed.

  (* ---------- the loop ---------- *)
  Lemma compile_loop_sem priv resh keys nodes : forall i flags omap out out' omap' ins0c env_c ins_c env_s ins_s env_s' ins_s',
    compile_loop priv resh keys nodes i omap out = Ok (out', omap') ->
    thm_frag nodes = true -> priv_spec nodes i flags priv ->
    dfrom nodes (Some (env_s, ins_s)) = Some (env_s', ins_s') -> i = zlen env_s ->
    evals ins0c out env_c ins_c -> inrel flags ins_s ins_c -> keys_ok keys env_c ->
    Inv priv omap env_s env_c out ->
    exists env_c' ins_c', evals ins0c out' env_c' ins_c' /\ mono env_c env_c' /\ Inv priv omap' env_s' env_c' out'.
  Proof.
    induction nodes as [|nd nodes IH]; intros i flags omap out out' omap' ins0c env_c ins_c env_s ins_s env_s' ins_s'
                                             H Hf Hp Hs Hi E Hin Hk HI; cbn [compile_loop] in H.
    - inversion H; subst. inversion Hs; subst. exists env_c, ins_c. split; [exact E|]. split; [apply mono_refl | exact HI].
    - apply bind_ok in H as ([out1 nn] & H1 & H).
      cbn [thm_frag forallb] in Hf. apply andb_true_iff in Hf as [Hf0 Hf].
      destruct (priv_spec_cons _ _ _ _ _ Hp) as (flags' & Np & Hp').
      rewrite dfrom_cons in Hs.
      destruct (dstp (Some (env_s, ins_s)) nd) as [st1|] eqn:Hst; [|rewrite dfrom_none in Hs; discriminate].
      destruct (compile_node_sem _ _ _ _ _ _ _ _ _ _ _ _ _ _ _ _ _ H1 Hf0 Np Hst E Hin Hk HI)
        as (vs & ins_s1 & env_c1 & ins_c1 & vc & -> & Ev1 & M1 & X1 & F1 & R1 & S1 & Pb1 & In1).
      destruct HI as [HL HI].
      destruct (IH (i + 1) flags' (omap ++ [nn]) out1 out' omap' ins0c env_c1 ins_c1 (env_s ++ [vs]) ins_s1 env_s' ins_s'
                  H Hf Hp' Hs) as (env_c' & ins_c' & Ev & M & HI').
      + rewrite zlen_app, zlen_one. lia.
      + exact Ev1.
      + exact In1.
      + eapply keys_ok_mono; eauto.
      + split; [rewrite !zlen_app, !zlen_one; lia|].
        intros j vs' Hj. pose proof (znth_range _ _ _ Hj) as Hr. rewrite zlen_app, zlen_one in Hr.
        destruct (Z.eq_dec j (zlen env_s)) as [->|Hne].
        * rewrite znth_last in Hj. inversion Hj; subst vs'. exists nn, vc.
          split; [rewrite <- HL; apply znth_last|]. rewrite <- Hi. auto.
        * apply znth_inj_app in Hj; [|lia]. destruct (HI _ _ Hj) as (k & vc0 & Hk0 & Hv0 & R0 & S0 & P0).
          exists k, vc0. split; [now apply znth_app_l|]. split; [auto|]. split; [exact R0|].
          split; [intros Hm; eapply shty_ext; eauto | intros Hm; eapply pubty_ext; eauto].
      + exists env_c', ins_c'. split; [exact Ev|]. split; [eauto using mono_trans | exact HI'].
  Qed.

  Lemma dfrom_bdeps nodes : forall e ins st', dfrom nodes (Some (e, ins)) = Some st' -> bdeps nodes (zlen e).
  Proof.
    induction nodes as [|nd nodes IH]; intros e ins st' H; cbn [bdeps]; [exact I|].
    rewrite dfrom_cons in H.
    destruct (dstp (Some (e, ins)) nd) as [[e1 i1]|] eqn:Hst; [|rewrite dfrom_none in H; discriminate].
    split.
    - intros Hni. destruct (dstep_noninput _ _ _ _ Hni Hst) as (vsl & v & Hm & _ & _).
      apply mapM_ok_forall in Hm. eapply Forall_impl; [|exact Hm]. intros d (x & Hx). cbv beta. eauto using znth_range.
    - destruct (dstep_inv R r0 radd rmul rsub atom catom one lin bil nlin _ _ _ _ _ Hst) as (v & ->).
      specialize (IH _ _ _ H). rewrite zlen_app, zlen_one in IH. exact IH.
  Qed.

  (* ---------- compile_graph ---------- *)
  Theorem compile_graph_plan_correct resh nodes output flags out oo omap priv um :
    compile_graph_plan resh nodes output flags = Ok (out, oo, omap) ->
    propagate_private_annotations nodes flags = Ok (priv, um) ->
    thm_frag nodes = true ->
    forall ins_s ins_c env_s kv0 kv1 kv2,
    deval R r0 radd rmul rsub atom catom one lin bil nlin nodes ins_s = Some env_s ->
    inrel flags ins_s ins_c ->
    exists env_c,
      deval R r0 radd rmul rsub atom catom one lin bil nlin out (keys_input um kv0 kv1 kv2 ++ ins_c) = Some env_c /\
      forall j vs, znth env_s j = Ok vs ->
        exists k vc, znth omap j = Ok k /\ znth env_c k = Ok vc /\ rel (mem j priv) vs vc.
  Proof.
    intros H Hppa Hf ins_s ins_c env_s kv0 kv1 kv2 Hs Hin.
    unfold compile_graph_plan in H. rewrite Hppa in H. cbn [bind] in H.
    apply bind_ok in H as ([out0 keys] & H0 & H).
    apply bind_ok in H as ([out1 omap1] & HL & H). apply bind_ok in H as (oo' & _ & H). inversion H; subst; clear H.
    unfold deval in Hs. destruct (dfrom nodes (Some ([], ins_s))) as [[es is']|] eqn:Hds; [|discriminate].
    inversion Hs; subst es; clear Hs.
    unfold propagate_private_annotations in Hppa. apply bind_ok in Hppa as ([[p m] f'] & Hl & Hppa). inversion Hppa; subst; clear Hppa.
    destruct (ppa_loop_spec _ _ _ _ _ _ _ _ Hl) as [_ Hps].
    { intros d Hd. discriminate. }
    { exact (dfrom_bdeps _ _ _ _ Hds). }
    assert (Init : exists env0, evals (keys_input um kv0 kv1 kv2 ++ ins_c) out0 env0 ins_c /\ keys_ok keys env0).
    { destruct um; cbv iota in H0.
      - apply bind_ok in H0 as ([o k] & He & H0). inversion H0; subst; clear H0.
        destruct (emit_spec _ _ _ _ _ _ He) as (ts & t & _ & _ & -> & ->).
        exists ([] ++ [RTup R [kv0; kv1; kv2]]). split.
        + eapply evals_snoc_input; [apply evals_nil | reflexivity].
        + intros k Hk. inversion Hk; subst. exists kv0, kv1, kv2. reflexivity.
      - inversion H0; subst. exists []. split; [apply evals_nil | intros k Hk; discriminate]. }
    destruct Init as (env0 & Ev0 & K0).
    destruct (compile_loop_sem _ _ _ _ _ _ _ _ _ _ _ _ _ _ _ _ _ HL Hf Hps Hds eq_refl Ev0 Hin K0) as (env_c & ins_c' & Ev & _ & [_ HI]).
    { split; [reflexivity|]. intros j vs Hj. destruct (znth_nil_false _ _ Hj). }
    exists env_c. split.
    - unfold deval. unfold MpcCompileBase.evals in Ev. rewrite Ev. reflexivity.
    - intros j vs Hj. destruct (HI _ _ Hj) as (k & vc & A & B & C & _). eauto.
  Qed.

  Lemma compile_graph_map_plan nodes output flags r :
    compile_graph_map nodes output flags = Ok r -> exists resh, compile_graph_plan resh nodes output flags = Ok r.
  Proof.
    unfold compile_graph_map, compile_graph_plan. intros H.
    apply bind_ok in H as ([priv um] & Hp & H). rewrite Hp. cbn [bind].
    apply bind_ok in H as ([out0 keys] & H0 & H). rewrite H0. cbn [bind].
    apply bind_ok in H as (resh & _ & H). exists resh. exact H.
  Qed.

  Theorem compile_graph_correct nodes output flags out oo omap priv um :
    compile_graph_map nodes output flags = Ok (out, oo, omap) ->
    propagate_private_annotations nodes flags = Ok (priv, um) ->
    thm_frag nodes = true ->
    forall ins_s ins_c env_s kv0 kv1 kv2,
    deval R r0 radd rmul rsub atom catom one lin bil nlin nodes ins_s = Some env_s ->
    inrel flags ins_s ins_c ->
    exists env_c,
      deval R r0 radd rmul rsub atom catom one lin bil nlin out (keys_input um kv0 kv1 kv2 ++ ins_c) = Some env_c /\
      forall j vs, znth env_s j = Ok vs ->
        exists k vc, znth omap j = Ok k /\ znth env_c k = Ok vc /\ rel (mem j priv) vs vc.
  Proof.
    intros H. destruct (compile_graph_map_plan _ _ _ _ H) as (resh & Hr). exact (compile_graph_plan_correct _ _ _ _ _ _ _ _ _ Hr).
  Qed.
End Correct.

(* C01 deep model, proofs, part 5: correctness of compile_graph on the elementwise fragment
   (Input, Constant, Zeros, Ones, Add, Subtract, Multiply and the share-wise lifted unary
   operations Sum, CumSum, PermuteAxes, Get, GetSlice, Reshape) over arrays/scalars, for every
   is_input_private vector, EVERY resharing plan accepted by the compiler, all inputs, all PRF values:
   the compiled value of a public node equals the source value, the compiled value of a private
   node is a triple of shares adding up to it. *)
From Coq Require Import Ring.
From CC Require Import Base.Prelude Base.Scalar Base.Ty Base.Shape Graph.Value Graph.IR Graph.Eval Graph.Typing
  Model.RingEval Model.MpcCompile Model.MpcCompileSem Proofs.MpcCompileBase Proofs.MpcCompileStatic
  Proofs.MpcCompileTyping Proofs.MpcCompileReshare.

(* the fragment of the theorem *)
Definition thm_op (o : op) : bool :=
  match o with
  | OInput t | OZeros t | OOnes t | OConstant t _ => is_leaf t
  | OAdd | OSubtract | OMultiply => true
  | _ => is_lin_op o
  end.
Definition thm_frag (nodes : list node) : bool := forallb (fun nd => thm_op (n_op nd)) nodes.

(* ---------- sets ---------- *)
Lemma mem_insert d i p : mem d (set_insert i p) = (d =? i) || mem d p.
Proof.
  unfold set_insert. destruct (mem i p) eqn:M.
  - destruct (d =? i) eqn:E; [apply Z.eqb_eq in E; subst; now rewrite M | reflexivity].
  - unfold mem. cbn [existsb]. reflexivity.
Qed.

(* ---------- propagate_private_annotations: what the final set says about every node ---------- *)
Fixpoint priv_spec (nodes : list node) (i : Z) (flags : list bool) (priv : list Z) : Prop :=
  match nodes with
  | [] => True
  | nd :: r =>
      match n_op nd with
      | OInput _ => match flags with
                    | [] => False
                    | b :: fl => mem i priv = b /\ priv_spec r (i + 1) fl priv
                    end
      | OConstant _ _ | OZeros _ | OOnes _ => mem i priv = false /\ priv_spec r (i + 1) flags priv
      | _ => mem i priv = is_one_node_private (n_deps nd) priv /\ priv_spec r (i + 1) flags priv
      end
  end.

(* dependencies of the non-input nodes point backwards (position of the first node: i) *)
Fixpoint bdeps (nodes : list node) (i : Z) : Prop :=
  match nodes with
  | [] => True
  | nd :: r => (is_input (n_op nd) = false -> Forall (fun d => 0 <= d < i) (n_deps nd)) /\ bdeps r (i + 1)
  end.

Lemma existsb_ext_in {A} (f g : A -> bool) l : Forall (fun x => f x = g x) l -> existsb f l = existsb g l.
Proof. induction 1 as [|x l H _ IH]; cbn; [reflexivity | now rewrite H, IH]. Qed.

Lemma ppa_loop_spec nodes : forall i p m f p' m' f',
  ppa_loop nodes i (p, m, f) = Ok (p', m', f') ->
  (forall d, mem d p = true -> d < i) -> bdeps nodes i ->
  (forall d, d < i -> mem d p' = mem d p) /\ priv_spec nodes i f p'.
Proof.
  induction nodes as [|nd nodes IH]; intros i p m f p' m' f' H Hlt Hb; cbn [ppa_loop] in H.
  - inversion H; subst. split; [reflexivity | exact I].
  - inv_bind H. destruct x as [[p1 m1] f1]. destruct Hb as [Hb0 Hb].
    assert (Step : (forall d, mem d p1 = true -> d < i + 1) /\ (forall d, d < i -> mem d p1 = mem d p) /\
                   match n_op nd with
                   | OInput _ => exists b, f = b :: f1 /\ mem i p1 = b
                   | OConstant _ _ | OZeros _ | OOnes _ => f1 = f /\ mem i p1 = false
                   | _ => f1 = f /\ mem i p1 = is_one_node_private (n_deps nd) p
                   end).
    { assert (Hi : mem i p = false).
      { destruct (mem i p) eqn:M; [apply Hlt in M; lia | reflexivity]. }
      unfold ppa_step in E.
      assert (Generic : forall pp, pp = (if is_one_node_private (n_deps nd) p then set_insert i p else p) ->
                (forall d, mem d pp = true -> d < i + 1) /\ (forall d, d < i -> mem d pp = mem d p) /\
                mem i pp = is_one_node_private (n_deps nd) p).
      { intros pp ->. destruct (is_one_node_private (n_deps nd) p).
        - repeat split.
          + intros d. rewrite mem_insert. destruct (d =? i) eqn:Ed; [lia|]. cbn. intros Hd. apply Hlt in Hd. lia.
          + intros d Hd. rewrite mem_insert. destruct (d =? i) eqn:Ed; [lia | reflexivity].
          + rewrite mem_insert, Z.eqb_refl. reflexivity.
        - repeat split; auto. intros d Hd. apply Hlt in Hd. lia. }
      destruct (n_op nd); try discriminate;
        try (inversion E; subst; destruct (Generic _ eq_refl) as (G1 & G2 & G3); repeat split; auto; fail).
      - destruct f as [|b fl]; [discriminate|]. inversion E; subst. destruct b.
        + repeat split.
          * intros d. rewrite mem_insert. destruct (d =? i) eqn:Ed; [lia|]. cbn. intros Hd. apply Hlt in Hd. lia.
          * intros d Hd. rewrite mem_insert. destruct (d =? i) eqn:Ed; [lia | reflexivity].
          * exists true. split; [reflexivity|]. rewrite mem_insert, Z.eqb_refl. reflexivity.
        + repeat split; auto. intros d Hd. apply Hlt in Hd. lia. exists false. auto.
      - inversion E; subst. repeat split; auto. intros d Hd. apply Hlt in Hd. lia.
      - inversion E; subst. repeat split; auto. intros d Hd. apply Hlt in Hd. lia.
      - inversion E; subst. repeat split; auto. intros d Hd. apply Hlt in Hd. lia. }
    destruct Step as (S1 & S2 & S3).
    destruct (IH _ _ _ _ _ _ _ H S1 Hb) as [K1 K2].
    split.
    + intros d Hd. rewrite K1 by lia. apply S2. exact Hd.
    + cbn [priv_spec].
      assert (Hdeps : is_input (n_op nd) = false -> is_one_node_private (n_deps nd) p' = is_one_node_private (n_deps nd) p).
      { intros Hin. unfold is_one_node_private. apply existsb_ext_in. eapply Forall_impl; [|exact (Hb0 Hin)].
        intros d Hd. cbv beta in Hd |- *. rewrite K1 by lia. apply S2. lia. }
      destruct (n_op nd) eqn:Ho;
        try (destruct S3 as [-> S3]; split; [rewrite K1 by lia; rewrite S3; try reflexivity; symmetry; apply Hdeps; reflexivity | exact K2]).
      destruct S3 as (b & -> & S3). split; [rewrite K1 by lia; exact S3 | exact K2].
Qed.

Section Correct.
  Variable R : Type.
  Variables (r0 r1 : R) (radd rmul rsub : R -> R -> R) (ropp : R -> R).
  Hypothesis Rth : ring_theory r0 r1 radd rmul rsub ropp eq.
  Add Ring Rc : Rth.
  Variable atom : Z -> R.
  Variable catom : value -> R.
  Variable one : R.
  Variable lin : op -> R -> R.
  Variable bil : op -> R -> R -> R.
  Hypothesis lin_add : forall o a b, lin o (radd a b) = radd (lin o a) (lin o b).

  Notation rv := (rval R).
  Notation L := (RLeaf R).
  Notation T3 := (T3 R).
  Notation evals := (evals R r0 radd rmul rsub atom catom one lin bil).
  Notation dnode := (deval_node R r0 radd rmul rsub atom catom one lin bil).
  Notation dfrom := (deval_from R r0 radd rmul rsub atom catom one lin bil).
  Notation dstp := (dstep R r0 radd rmul rsub atom catom one lin bil).
  Notation gsem := (gadget_sem R r0 radd rmul rsub bil).
  Notation mono := (mono R).
  Notation reshare_sem := (reshare_sem R r0 r1 radd rmul rsub ropp Rth atom catom one lin bil).

  (* relation between the source value and the compiled value of a node *)
  Definition rel (p : bool) (vs vc : rv) : Prop :=
    if p then exists x a b c, vs = L x /\ vc = T3 a b c /\ radd (radd a b) c = x else vc = vs.

  (* inputs of the compiled graph: a private input is presented as three shares *)
  Inductive inrel : list bool -> list rv -> list rv -> Prop :=
  | inrel_nil fl : inrel fl [] []
  | inrel_pub fl v s c : inrel fl s c -> inrel (false :: fl) (v :: s) (v :: c)
  | inrel_priv fl x a b c0 s c : radd (radd a b) c0 = x -> inrel fl s c ->
                                 inrel (true :: fl) (L x :: s) (T3 a b c0 :: c).

  Definition keys_ok (keys : option Z) (env : list rv) : Prop :=
    forall k, keys = Some k -> exists kv0 kv1 kv2, znth env k = Ok (RTup R [kv0; kv1; kv2]).

  Definition Inv (priv omap : list Z) (env_s env_c : list rv) (out : list node) : Prop :=
    zlen omap = zlen env_s /\
    forall j vs, znth env_s j = Ok vs ->
      exists k vc, znth omap j = Ok k /\ znth env_c k = Ok vc /\ rel (mem j priv) vs vc /\
                   (mem j priv = true -> shty out k).

  (* ---------- source step inversion ---------- *)
  Lemma dstep_noninput e ins nd st' :
    is_input (n_op nd) = false -> dstp (Some (e, ins)) nd = Some st' ->
    exists vs v, mapM (fun d => znth e d) (n_deps nd) = Ok vs /\ dnode (zlen e) (n_op nd) vs = Some v /\ st' = (e ++ [v], ins).
  Proof.
    intros Hi H. unfold dstep in H.
    destruct (n_op nd) eqn:Ho; try discriminate.
    all: destruct (mapM (fun d => znth e d) (n_deps nd)) as [vs| | |]; try discriminate.
    all: match type of H with context [match ?x with Some _ => _ | None => _ end] => destruct x as [vv|] eqn:Hv end;
      try discriminate.
    all: inversion H; subst; exists vs, vv; auto.
  Qed.

  Lemma dnode_index o k k' vs : thm_op o = true -> dnode k o vs = dnode k' o vs.
  Proof. destruct o; try discriminate; reflexivity. Qed.

  Lemma gadget_name_inv g : elem_gadget g = true -> gadget_of_name (gadget_name g) = Some g.
  Proof. destruct g as [| |p]; try destruct p; try discriminate; reflexivity. Qed.

  Lemma rel_true_inv x vc : rel true (L x) vc -> exists a b c, vc = T3 a b c /\ radd (radd a b) c = x.
  Proof. intros (x' & a & b & c & Hx & Hv & Hs). inversion Hx; subst. eauto. Qed.

  Lemma shty_not_leaf out a T : shty out a -> out_ty out a = Ok T -> is_leaf T = false.
  Proof. intros (T' & HT & (t1 & t2 & t3 & -> & _)) H. rewrite HT in H. inversion H; subst. reflexivity. Qed.

  Lemma mapM2 {A B} (f : A -> result B) a b l : mapM f [a; b] = Ok l ->
    exists x y, l = [x; y] /\ f a = Ok x /\ f b = Ok y.
  Proof.
    cbn [mapM]. intros H.
    destruct (f a) as [x| | |]; cbn [bind] in H; try discriminate.
    destruct (f b) as [y| | |]; cbn [bind] in H; try discriminate.
    inversion H; subst. eauto 10.
  Qed.

  (* ---------- a gadget node ---------- *)
  Lemma gadget_node_sem g a b out out' id ins0 env ins pa pb x y va vb :
    elem_gadget g = true ->
    emit_gadget g [a; b] out = Ok (out', id) -> evals ins0 out env ins ->
    znth env a = Ok va -> znth env b = Ok vb -> rel pa (L x) va -> rel pb (L y) vb ->
    (pa = true -> shty out a) -> (pb = true -> shty out b) ->
    exists vc, evals ins0 out' (env ++ [vc]) ins /\ znth (env ++ [vc]) id = Ok vc /\
               rel (pa || pb) (L (gadget_plain R radd rmul rsub bil g x y)) vc /\
               (pa || pb = true -> shty out' id) /\ ext out out'.
  Proof.
    intros Hg H E Ha Hb Ra Rb Sa Sb.
    destruct (emit_gadget_spec _ _ _ _ _ H) as (ts & t & Hm & Ht & Hv & -> & ->).
    destruct (mapM2 _ _ _ _ Hm) as (ta & tb & -> & Hta & Htb).
    assert (Ev : forall vc, gsem g [va; vb] = Some vc ->
                 evals ins0 (out ++ [mkNode (OCustom (gadget_name g)) [a; b] [] [] t]) (env ++ [vc]) ins /\
                 znth (env ++ [vc]) (zlen out) = Ok vc).
    { intros vc Hvc. split.
      - eapply evals_snoc; eauto; cbn [n_op n_deps].
        + cbn [mapM]. rewrite Ha, Hb. reflexivity.
        + cbn [deval_node]. rewrite (gadget_name_inv _ Hg). exact Hvc.
      - rewrite <- (evals_length _ _ _ _ _ _ _ _ _ _ _ _ _ _ E). apply znth_last. }
    assert (Ty : pa || pb = true -> shty (out ++ [mkNode (OCustom (gadget_name g)) [a; b] [] [] t]) (zlen out)).
    { intros Hp. exists t. split; [apply out_ty_last|].
      destruct (gadget_ty_shape _ _ _ _ Hg Ht) as [(La & Lb & _) | S]; [|exact S].
      apply orb_true_iff in Hp as [-> | ->].
      - rewrite (shty_not_leaf _ _ _ (Sa eq_refl) Hta) in La. discriminate.
      - rewrite (shty_not_leaf _ _ _ (Sb eq_refl) Htb) in Lb. discriminate. }
    destruct pa, pb; cbn [rel orb] in *.
    - apply rel_true_inv in Ra as (a0 & a1 & a2 & -> & Sx). apply rel_true_inv in Rb as (b0 & b1 & b2 & -> & Sy).
      destruct g as [| |p]; try destruct p; try discriminate; (eexists; split; [|split; [|split; [|split; [exact Ty | apply ext_app]]]];
        [eapply Ev; reflexivity | eapply Ev; reflexivity |]);
        (do 4 eexists; split; [reflexivity | split; [reflexivity | cbn [gadget_plain bprod]; subst x y; ring]]).
    - apply rel_true_inv in Ra as (a0 & a1 & a2 & -> & Sx). subst vb.
      destruct g as [| |p]; try destruct p; try discriminate; (eexists; split; [|split; [|split; [|split; [exact Ty | apply ext_app]]]];
        [eapply Ev; reflexivity | eapply Ev; reflexivity |]);
        (do 4 eexists; split; [reflexivity | split; [reflexivity | cbn [gadget_plain bprod]; subst x; ring]]).
    - apply rel_true_inv in Rb as (b0 & b1 & b2 & -> & Sy). subst va.
      destruct g as [| |p]; try destruct p; try discriminate; (eexists; split; [|split; [|split; [|split; [exact Ty | apply ext_app]]]];
        [eapply Ev; reflexivity | eapply Ev; reflexivity |]);
        (do 4 eexists; split; [reflexivity | split; [reflexivity | cbn [gadget_plain bprod]; subst y; ring]]).
    - subst va vb.
      eexists; split; [|split; [|split; [|split; [exact Ty | apply ext_app]]]];
        [eapply Ev; reflexivity | eapply Ev; reflexivity | reflexivity].
  Qed.

  (* ---------- apply_op on a share-wise lifted unary operation, private operand ---------- *)
  Lemma apply_op_private priv n o news olds out :
    is_input o = false -> mem n priv = true ->
    apply_op priv n o news olds out =
    (let* (out1, result_shares) :=
       mapS (fun i out => let* (out', share) := share_vec priv i olds news out in emit o share [] out') parties out in
     emit OCreateTuple result_shares [] out1).
  Proof. intros Hi Hm. unfold apply_op. rewrite Hm. cbn [negb]. destruct o; try discriminate; reflexivity. Qed.

  Lemma lin_share_sem priv d0 o a i out out' id ins0 env ins l v :
    is_lin_op o = true -> mem d0 priv = true ->
    (let* (out', share) := share_vec priv i [d0] [a] out in emit o share [] out') = Ok (out', id) ->
    evals ins0 out env ins -> znth env a = Ok (RTup R l) -> znth l i = Ok (L v) ->
    exists env', evals ins0 out' env' ins /\ mono env env' /\ znth env' id = Ok (L (lin o v)) /\ ext out out' /\
      (forall T, out_ty out a = Ok T ->
                 exists t0 tr, infer (OTupleGet i) [T] = Ok t0 /\ out_ty out' id = Ok tr /\ infer o [t0] = Ok tr).
  Proof.
    intros Hl Hm H E Ha Hi. cbn [share_vec] in H. rewrite Hm in H.
    apply bind_ok in H as ([o1 sv] & H1 & H). apply bind_ok in H1 as ([o1' s] & E0 & H1).
    cbn [bind] in H1. inversion H1; subst; clear H1.
    destruct (step_tget R r0 radd rmul rsub atom catom one lin bil _ _ _ _ _ _ _ _ _ _ E0 E Ha Hi) as [Ev0 F0].
    destruct (step_lin R r0 radd rmul rsub atom catom one lin bil _ _ _ _ _ _ _ _ _ Hl H Ev0 F0) as [Ev1 F1].
    destruct (emit_ty _ _ _ _ _ _ E0) as (ts0 & t0 & Hm0 & Hi0 & Ht0 & X0).
    destruct (emit_ty _ _ _ _ _ _ H) as (ts1 & t1 & Hm1 & Hi1 & Ht1 & X1).
    eexists. split; [exact Ev1|]. split; [eauto using mono_trans, mono_snoc|]. split; [exact F1|].
    split; [eauto using ext_trans|].
    intros T HT. cbn [mapM] in Hm0. rewrite HT in Hm0. cbn [bind] in Hm0. inversion Hm0; subst.
    cbn [mapM] in Hm1. rewrite Ht0 in Hm1. cbn [bind] in Hm1. inversion Hm1; subst. eauto.
  Qed.

  Lemma apply_lin_private_sem priv d0 o a out out' id ins0 env ins a0 a1 a2 :
    is_lin_op o = true -> mem d0 priv = true ->
    apply_op priv d0 o [a] [d0] out = Ok (out', id) ->
    evals ins0 out env ins -> znth env a = Ok (T3 a0 a1 a2) -> shty out a ->
    exists env', evals ins0 out' env' ins /\ mono env env' /\ ext out out' /\
      znth env' id = Ok (T3 (lin o a0) (lin o a1) (lin o a2)) /\ shty out' id.
  Proof.
    intros Hl Hm H E Ha (T & HT & (t1 & t2 & t3 & -> & Lt1)).
    rewrite apply_op_private in H; [|destruct o; try discriminate; reflexivity | exact Hm].
    apply bind_ok in H as ([o3 rs] & HM & H). unfold parties in HM. cbn [mapS] in HM.
    apply bind_ok in HM as ([o1 q0] & E0 & HM). apply bind_ok in HM as ([o2' l1] & HM & Hr). inversion Hr; subst; clear Hr.
    apply bind_ok in HM as ([o2 q1] & E1 & HM). apply bind_ok in HM as ([o3' l2] & HM & Hr). inversion Hr; subst; clear Hr.
    apply bind_ok in HM as ([o3'' q2] & E2 & HM). inversion HM; subst; clear HM.
    destruct (lin_share_sem _ _ _ _ _ _ _ _ _ _ _ _ _ Hl Hm E0 E Ha (eq_refl : znth [L a0; L a1; L a2] 0 = Ok (L a0)))
      as (e1 & Ev1 & M1 & F0 & X1 & Ty1).
    destruct (lin_share_sem _ _ _ _ _ _ _ _ _ _ _ _ _ Hl Hm E1 Ev1 (M1 _ _ Ha) (eq_refl : znth [L a0; L a1; L a2] 1 = Ok (L a1)))
      as (e2 & Ev2 & M2 & F1 & X2 & _).
    destruct (lin_share_sem _ _ _ _ _ _ _ _ _ _ _ _ _ Hl Hm E2 Ev2 (M2 _ _ (M1 _ _ Ha)) (eq_refl : znth [L a0; L a1; L a2] 2 = Ok (L a2)))
      as (e3 & Ev3 & M3 & F2 & X3 & _).
    assert (Hmm : mapM (fun d => znth e3 d) [q0; q1; q2] = Ok [L (lin o a0); L (lin o a1); L (lin o a2)]).
    { cbn [mapM]. rewrite (M3 _ _ (M2 _ _ F0)), (M3 _ _ F1), F2. reflexivity. }
    destruct (step_ctuple R r0 radd rmul rsub atom catom one lin bil _ _ _ _ _ _ _ _ H Ev3 Hmm) as [Ev4 F4].
    destruct (emit_ty _ _ _ _ _ _ H) as (ts4 & t4 & Hm4 & Hi4 & Ht4 & X4).
    eexists. split; [exact Ev4|]. split.
    { intros d x Hd. apply mono_snoc. auto 8. }
    split; [eauto 6 using ext_trans|]. split; [exact F4|].
    exists t4. split; [exact Ht4|]. apply infer_ctuple in Hi4. subst t4.
    destruct (mapM3 _ _ _ _ _ Hm4) as (ta & tb & tc & -> & Hqa & _ & _).
    destruct (Ty1 _ HT) as (t0 & tr & Hinf & Htr & Hir).
    apply infer_tget3 in Hinf. cbn in Hinf. inversion Hinf; subst t0.
    rewrite (ext_out_ty _ _ _ _ (ext_trans _ _ _ X2 X3) Htr) in Hqa. inversion Hqa; subst ta.
    exists tr, tb, tc. split; [reflexivity|]. eapply infer_lin_leaf; eauto.
  Qed.

  (* ---------- the tail of compile_node: optional resharing, Private annotation ---------- *)
  Lemma finish_sem priv resh keys i out1 n1 out' nn ins0 env1 ins vs vc :
    (if mem i priv then
       let* (out2, new_node2) :=
         (if mem i resh then match keys with None => Err | Some k => reshare n1 k out1 end else Ok (out1, n1)) in
       let* out3 := add_annotation new_node2 APrivate out2 in Ok (out3, new_node2)
     else Ok (out1, n1)) = Ok (out', nn) ->
    evals ins0 out1 env1 ins -> znth env1 n1 = Ok vc -> rel (mem i priv) vs vc ->
    (mem i priv = true -> shty out1 n1) -> keys_ok keys env1 ->
    exists env' vc', evals ins0 out' env' ins /\ mono env1 env' /\ ext out1 out' /\
      znth env' nn = Ok vc' /\ rel (mem i priv) vs vc' /\ (mem i priv = true -> shty out' nn).
  Proof.
    intros H E Hn Hr Hs Hk. destruct (mem i priv) eqn:Hp.
    - apply bind_ok in H as ([out2 n2] & H2 & H). apply bind_ok in H as (out3 & HA & H). inversion H; subst; clear H.
      destruct (add_annotation_ext _ _ _ _ HA) as [XA _].
      destruct (mem i resh).
      + destruct keys as [k|]; [|discriminate]. destruct (Hk _ eq_refl) as (kv0 & kv1 & kv2 & Hkv).
        destruct Hr as (x & a & b & c & -> & -> & Sx).
        destruct (reshare_sem _ _ _ _ _ _ _ _ _ _ _ _ _ _ H2 E Hn Hkv (Hs eq_refl))
          as (env' & a' & b' & c' & Ev & M & Fid & Sum & Ty).
        destruct (reshare_grows _ _ _ _ _ H2) as [[X2 _] _].
        exists env', (T3 a' b' c'). split; [eapply add_annotation_evals; eauto|]. split; [exact M|].
        split; [eauto using ext_trans|]. split; [exact Fid|]. split.
        * exists x, a', b', c'. split; [reflexivity|]. split; [reflexivity|]. rewrite Sum. exact Sx.
        * intros _. eapply shty_ext; eauto.
      + inversion H2; subst. exists env1, vc. split; [eapply add_annotation_evals; eauto|]. split; [apply mono_refl|].
        split; [exact XA|]. split; [exact Hn|]. split; [exact Hr|]. intros _. eapply shty_ext; eauto.
    - inversion H; subst. exists env1, vc. split; [exact E|]. split; [apply mono_refl|]. split; [apply ext_refl|].
      split; [exact Hn|]. split; [exact Hr|]. discriminate.
  Qed.
End Correct.

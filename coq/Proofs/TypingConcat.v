(* C09 preservation: Concatenate. *)
From CC Require Import Base.Prelude Base.Scalar Base.Ty Base.Shape Graph.Value Graph.IR Graph.Eval
  Graph.Typing Proofs.EvalProofs Proofs.TypingBase Proofs.TypingTuple Proofs.TypingArith
  Proofs.TypingBits Proofs.TypingReduce Proofs.TypingStruct Proofs.TypingStack Proofs.TypingPermute
  Proofs.TypingZip.

Definition sumz (l : list Z) : Z := fold_right Z.add 0 l.

Lemma mapM_ok2 {A B} (f : A -> result B) (R : A -> B -> Prop) l :
  (forall x, In x l -> exists y, f x = Ok y /\ R x y) ->
  exists ys, mapM f l = Ok ys /\ Forall2 R l ys.
Proof.
  induction l as [|x xs IH]; intros H.
  - exists []. cbn. auto.
  - destruct (H x (or_introl eq_refl)) as (y & Ey & Ry).
    destruct IH as (ys & E & F). { intros; apply H; now right. }
    exists (y :: ys). cbn [mapM]. rewrite Ey. cbn [bind]. rewrite E. cbn [bind]. auto.
Qed.

Lemma concat_length_sum {D} (g : D -> Z) ds (ps : list (list Z)) :
  Forall2 (fun d p => Z.of_nat (length p) = g d) ds ps ->
  Z.of_nat (length (concat ps)) = sumz (map g ds).
Proof. induction 1 as [|d p ds ps H _ IH]; cbn; [reflexivity|]. rewrite app_length. unfold sumz in IH. lia. Qed.

(* the agreement check of type_inference.rs:1138-1144: equal except possibly at the axis *)
Definition agree_check (axis : Z) (s : nat) (a b : list Z) : bool :=
  forallb (fun p : Z * (Z * Z) => (fst (snd p) =? snd (snd p)) || (axis =? fst p))
          (combine (map Z.of_nat (seq s (length b))) (combine a b)).

Lemma agree_all : forall (a b : list Z) s k, (k < s)%nat -> length a = length b ->
  agree_check (Z.of_nat k) s a b = true -> a = b.
Proof.
  induction a as [|x a IH]; intros [|y b] s k Hk L H; cbn in L; try lia; [reflexivity|].
  unfold agree_check in H. cbn [length seq map combine forallb fst snd] in H. btrue.
  replace (Z.of_nat k =? Z.of_nat s) with false in H by lia. rewrite orb_false_r in H.
  f_equal; [lia|]. apply (IH b (S s) k); auto; lia.
Qed.

Lemma agree_except : forall (a b : list Z) s k, (s <= k)%nat -> length a = length b ->
  agree_check (Z.of_nat k) s a b = true ->
  firstn (k - s) a = firstn (k - s) b /\ skipn (S (k - s)) a = skipn (S (k - s)) b.
Proof.
  induction a as [|x a IH]; intros [|y b] s k Hk L H; cbn in L; try lia; [split; reflexivity|].
  unfold agree_check in H. cbn [length seq map combine forallb fst snd] in H. btrue.
  destruct (Nat.eq_dec k s) as [->|Hne].
  - replace (s - s)%nat with O by lia. cbn [firstn skipn]. split; [reflexivity|].
    apply (agree_all a b (S s) s); auto; lia.
  - replace (Z.of_nat k =? Z.of_nat s) with false in H by lia. rewrite orb_false_r in H.
    replace (k - s)%nat with (S (k - S s)) by lia. cbn [firstn skipn].
    destruct (IH b (S s) k) as [F S']; auto; try lia. split; [f_equal; [lia| exact F]| exact S'].
Qed.

Definition like (k : nat) (r0 sh : list Z) : Prop :=
  length sh = length r0 /\ firstn k sh = firstn k r0 /\ skipn (S k) sh = skipn (S k) r0.

Lemma like_set_nth k r0 rs v : (k < length r0)%nat -> like k r0 rs -> like k r0 (set_nth rs k v).
Proof.
  intros Hk (L & F & S'). unfold set_nth, like.
  assert (Lf : length (firstn k rs) = k) by (rewrite firstn_length; lia).
  repeat split.
  - rewrite app_length. cbn [length]. rewrite Lf, skipn_length. lia.
  - rewrite firstn_app, Lf, Nat.sub_diag. cbn [firstn]. rewrite app_nil_r, firstn_firstn, Nat.min_id. exact F.
  - replace (S k) with (length (firstn k rs ++ [v])) at 1 by (rewrite app_length; cbn; lia).
    replace (firstn k rs ++ v :: skipn (S k) rs) with ((firstn k rs ++ [v]) ++ skipn (S k) rs)
      by (rewrite <- app_assoc; reflexivity).
    rewrite skipn_app_exact. exact S'.
Qed.

Lemma nth_set_nth k rs v : (k < length rs)%nat -> nth k (set_nth rs k v) 0 = v.
Proof.
  intros Hk. unfold set_nth. rewrite app_nth2; rewrite firstn_length; [|lia].
  replace (k - Nat.min k (length rs))%nat with O by lia. reflexivity.
Qed.

Definition dep_like (k : nat) (r0 : list Z) (st : scalar) (t : ty) : Prop :=
  exists sh, t = TArray sh st /\ like k r0 sh.

Lemma concat_fold_inv axis k r0 st : axis = Z.of_nat k -> (k < length r0)%nat ->
  forall rest racc rs,
  Forall (fun t => is_arr t = true) rest -> like k r0 racc ->
  fold_left (fun acc t =>
               let* rs := acc in
               if negb (scalar_eqb (st_of t) st) then Err else
               let shape := shape_of t in
               if negb (zlen rs =? zlen shape) then Err else
               if negb (forallb (fun p => (fst (snd p) =? snd (snd p)) || (axis =? fst p))
                                (combine (zrange (zlen shape)) (combine rs shape)))
               then Err else
               let* a := znth rs axis in let* b := znth shape axis in
               if u64_max <? a + b then Panic else
               Ok (set_nth rs (Z.to_nat axis) (a + b)))
            rest (Ok racc) = Ok rs ->
  like k r0 rs /\ Forall (dep_like k r0 st) rest /\
  nth k rs 0 = nth k racc 0 + sumz (map (fun t => nth k (shape_of t) 0) rest).
Proof.
  intros -> Hk. induction rest as [|t rest IH]; intros racc rs Fa Lr H; cbn [fold_left] in H.
  - inversion H; subst. cbn. repeat split; try apply Lr; auto. lia.
  - inversion Fa as [|? ? At Fa']; subst. cbn [bind] in H.
    destruct t as [|sh st1| | |]; try discriminate. cbn [st_of shape_of] in H.
    match type of H with fold_left ?f rest ?x = _ => destruct x as [racc'| | |] eqn:Estep end.
    2-4: exfalso; clear - H; induction rest; cbn in H; [discriminate| auto].
    destruct (scalar_eqb st1 st) eqn:S1; cbn [negb] in Estep; [|discriminate]. apply scalar_eqb_eq in S1. subst st1.
    destruct (zlen racc =? zlen sh) eqn:Ll; cbn [negb] in Estep; [|discriminate]. unfold zlen in Ll.
    match type of Estep with (if negb ?c then _ else _) = _ => destruct c eqn:Ag end; cbn [negb] in Estep; [|discriminate].
    apply bind_ok in Estep as (a & Ea & Estep). apply bind_ok in Estep as (b & Eb & Estep).
    destruct (u64_max <? a + b); [discriminate|]. inversion Estep; subst racc'. clear Estep.
    rewrite Nat2Z.id in *.
    destruct Lr as (L0 & F0 & S0).
    assert (Lsh : length racc = length sh) by lia.
    unfold zrange, zlen in Ag. rewrite Nat2Z.id in Ag.
    destruct (agree_except racc sh O k ltac:(lia) Lsh Ag) as [Fe Se]. rewrite Nat.sub_0_r in Fe, Se.
    assert (Lsh' : like k r0 sh) by (repeat split; congruence).
    rewrite (znth_ok racc (Z.of_nat k) 0) in Ea by lia. rewrite (znth_ok sh (Z.of_nat k) 0) in Eb by lia.
    rewrite Nat2Z.id in Ea, Eb. inversion Ea; inversion Eb; subst a b.
    destruct (IH _ _ Fa' (like_set_nth k r0 racc _ Hk (conj L0 (conj F0 S0))) H) as (Lrs & Frest & Hsum).
    repeat split; try apply Lrs.
    + constructor; [exists sh; auto| exact Frest].
    + rewrite Hsum, nth_set_nth by lia. cbn [map sumz fold_right shape_of]. unfold sumz. lia.
Qed.

Lemma like_prod k r0 sh : (k < length r0)%nat -> like k r0 sh ->
  prod_list sh = prod_list (firstn k r0) * nth k sh 0 * prod_list (skipn (S k) r0).
Proof. intros Hk (L & F & S'). rewrite (prod_split_at sh k) by lia. now rewrite F, S'. Qed.

Lemma preserves_concatenate axis : preserves (OConcatenate axis).
Proof.
  intros ts t vs Hu H HF. inv_infer H. cbn [op_u64] in Hu.
  destruct (zlen ts <? 2) eqn:L2; [discriminate|]. unfold zlen in L2.
  destruct (forallb is_arr ts) eqn:Aa; cbn [negb] in H; [|discriminate].
  destruct ts as [|t0 ts']; [cbn in L2; lia|]. cbn [nth tl] in H.
  cbn [forallb] in Aa. btrue. destruct t0 as [|r0 st| | |]; try discriminate. cbn [st_of shape_of] in H.
  destruct (zlen r0 <=? axis) eqn:Ax; [discriminate|]. unfold zlen in Ax.
  apply bind_ok in H as (rs & Ers & H). apply register_ok in H as [-> _].
  assert (Vr0 : valid_shape r0).
  { inversion HF as [|? ? ? ? [_ K] _]. now destruct (ty_ok_array _ _ K). }
  set (k := Z.to_nat axis). assert (Eax : axis = Z.of_nat k) by lia. assert (Hk : (k < length r0)%nat) by lia.
  assert (Fa : Forall (fun t => is_arr t = true) ts') by (apply Forall_forall; now apply forallb_forall).
  assert (L00 : like k r0 r0) by (repeat split; reflexivity).
  destruct (concat_fold_inv axis k r0 st Eax Hk ts' r0 rs Fa L00 Ers) as (Lrs & Fdeps & Hsum).
  assert (Fall : Forall (dep_like k r0 st) (TArray r0 st :: ts')) by (constructor; [exists r0; auto| exact Fdeps]).
  set (ts := TArray r0 st :: ts') in *.
  assert (Hsum' : nth k rs 0 = sumz (map (fun t => nth k (shape_of t) 0) ts)).
  { unfold ts. cbn [map sumz fold_right shape_of]. unfold sumz in Hsum. lia. }
  clearbody ts. clear Hsum Fdeps L00 Fa Ers H0 L2.
  set (F := firstn k r0) in *. set (S' := skipn (S k) r0) in *.
  destruct (valid_shape_split k r0 Vr0) as [VF _]. destruct (valid_shape_split (S k) r0 Vr0) as [_ VS].
  pose proof (prod_list_pos _ VF) as PF. pose proof (prod_list_pos _ VS) as PS. fold F in PF. fold S' in PS.
  cbn [eval_node shape_of].
  replace (firstn (Z.to_nat axis) rs) with F by (symmetry; apply Lrs).
  replace (Z.to_nat axis + 1)%nat with (S k) by lia.
  replace (skipn (S k) rs) with S' by (symmetry; apply Lrs).
  (* deps *)
  match goal with |- context [mapM ?g (combine vs ts)] =>
    destruct (mapM_ok2 g (fun p d => snd d = nth k (shape_of (snd p)) 0 /\ 0 < snd d /\
                                    Z.of_nat (length (fst d)) = prod_list F * snd d * prod_list S' /\
                                    Forall (fun e => 0 <= e < modulus st) (fst d)) (combine vs ts))
      as (deps & -> & Fd) end.
  { intros [v dty] Hp. destruct (Forall2_combine_in _ _ _ _ HF Hp) as [[Hv Hkk] Hin]. cbn [fst snd] in *.
    rewrite Forall_forall in Fall. destruct (Fall dty Hin) as (sh & -> & Lsh).
    destruct v as [es|]; [|discriminate]. apply has_type_array in Hv as [Le Fe]. cbn [arr_of bind is_arr negb shape_of].
    destruct (ty_ok_array _ _ Hkk) as [Vsh _]. destruct Lsh as (Ll & Lf & Ls).
    rewrite (znth_ok sh axis 0) by lia. fold k. cbn [bind].
    eexists. split; [reflexivity|]. cbn [fst snd]. repeat split; auto.
    - unfold valid_shape in Vsh. rewrite Forall_forall in Vsh. apply Vsh. apply nth_In. lia.
    - rewrite Le. apply like_prod; auto. repeat split; auto. }
  cbn [bind].
  assert (Hdsum : sumz (map snd deps) = nth k rs 0).
  { rewrite Hsum'. assert (Lc : length vs = length ts) by (apply (Forall2_wt_length _ _ HF)).
    clear - Fd Lc. revert ts Lc deps Fd. induction vs as [|v vs IH]; intros [|t ts] Lc deps Fd; cbn in Lc; try lia.
    - inversion Fd; subst. reflexivity.
    - cbn [combine] in Fd. inversion Fd as [|? d ? ds [Hd _] Fd']; subst. cbn [map sumz fold_right snd] in *.
      unfold sumz in IH. rewrite (IH ts ltac:(lia) ds Fd'). rewrite Hd. reflexivity. }
  set (N := nth k rs 0) in *. set (I' := prod_list S') in *.
  match goal with |- context [mapM ?g (zrange (prod_list F))] =>
    destruct (mapM_ok g (fun row => Z.of_nat (length row) = N * I' /\ Forall (fun e => 0 <= e < modulus st) row)
                (zrange (prod_list F))) as (rows & -> & Lrows & Frows) end.
  { intros ai Hai. apply zrange_in in Hai.
    match goal with |- context [mapM ?g deps] =>
      destruct (mapM_ok2 g (fun d p => Z.of_nat (length p) = snd d * I' /\ Forall (fun e => 0 <= e < modulus st) p) deps)
        as (parts & -> & Fp) end.
    { intros [es n] Hd. cbn [fst snd].
      assert (Hd' : 0 < n /\ Z.of_nat (length es) = prod_list F * n * I' /\ Forall (fun e => 0 <= e < modulus st) es).
      { clear - Fd Hd. induction Fd as [|p d ps ds (_ & A & B & C) _ IH]; [inversion Hd|].
        destruct Hd as [->|Hd]; [cbn [fst snd] in *; auto| auto]. }
      destruct Hd' as (Pn & Le & Fe).
      assert (B2 : (ai + 1) * (n * I') <= prod_list F * (n * I')) by (apply Z.mul_le_mono_nonneg_r; nia).
      destruct (slice_z_ok (fun e => 0 <= e < modulus st) es (ai * n * I') (n * I')) as (r & -> & Lr & Fr); auto; try nia.
      eexists; split; [reflexivity|]. cbn [snd]. auto. }
    cbn [bind]. eexists; split; [reflexivity|]. split.
    - rewrite (concat_length_sum (fun d : list Z * Z => snd d * I') deps parts).
      + rewrite <- Hdsum. clear. induction deps as [|d deps IH]; cbn [map sumz fold_right]; [reflexivity|].
        unfold sumz in IH. rewrite IH. ring.
      + clear - Fp. induction Fp as [|d q ds ps [Hl _] _ IH]; constructor; auto.
    - apply Forall_forall. intros e He. apply in_concat in He as (p & Hp & He).
      clear - Fp Hp He. induction Fp as [|d q ds ps [_ Fq] _ IH]; [inversion Hp|].
      destruct Hp as [->|Hp]; [rewrite Forall_forall in Fq; auto| auto]. }
  cbn [bind safe_typed]. apply has_type_array. split.
  - rewrite (concat_length_const rows (Z.to_nat (N * I'))).
    + rewrite Lrows, zrange_length, (like_prod k r0 rs Hk Lrs). fold F S' N I'.
      assert (0 <= N * I').
      { destruct rows as [|row rows']; [cbn in Lrows; rewrite zrange_length in Lrows; lia|].
        inversion Frows as [|? ? [Hl _] _]. lia. }
      nia.
    + eapply Forall_impl; [|exact Frows]. cbn. intros a [La _]. lia.
  - apply Forall_forall. intros e He. apply in_concat in He as (p & Hp & He).
    rewrite Forall_forall in Frows. destruct (Frows p Hp) as [_ Fq]. rewrite Forall_forall in Fq. auto.
Qed.

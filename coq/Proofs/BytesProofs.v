(* Proofs about Model/Bytes.v (C13). *)
From Coq Require Import Znumtheory.
From CC Require Import Base.Prelude Base.Scalar Base.Ty Model.Bytes.

Lemma as_u128_mod x : rust_int x -> as_u128 x = x mod 2 ^ 128.
Proof.
  unfold rust_int, as_u128; intros H. destruct (0 <=? x) eqn:E.
  - rewrite Z.mod_small; lia.
  - apply Z.mod_unique with (q := -1); lia.
Qed.

Lemma from_le_le_bytes n x : 0 <= x -> from_le_bytes (le_bytes n x) = x mod 256 ^ Z.of_nat n.
Proof.
  revert x; induction n as [|n IH]; intros x Hx.
  - simpl. now rewrite Z.mod_1_r.
  - cbn [le_bytes from_le_bytes]. rewrite IH by (apply Z.div_pos; lia).
    rewrite Nat2Z.inj_succ, Z.pow_succ_r by lia.
    assert (0 < 256 ^ Z.of_nat n) by (apply Z.pow_pos_nonneg; lia).
    rewrite (Z.rem_mul_r x 256 (256 ^ Z.of_nat n)) by lia. reflexivity.
Qed.

Lemma le_bytes_length n x : length (le_bytes n x) = n.
Proof. revert x; induction n; intros; simpl; auto. Qed.

Lemma le_bytes_range n x : Forall (fun b => 0 <= b < 256) (le_bytes n x).
Proof.
  revert x; induction n as [|n IH]; intros; simpl; constructor; auto.
  apply Z.mod_pos_bound; lia.
Qed.

Lemma firstn_app_exact {A} k (l1 l2 : list A) : length l1 = k -> firstn k (l1 ++ l2) = l1.
Proof. intros <-. rewrite firstn_app, Nat.sub_diag, firstn_all. simpl. apply app_nil_r. Qed.
Lemma skipn_app_exact {A} k (l1 l2 : list A) : length l1 = k -> skipn k (l1 ++ l2) = l2.
Proof. intros <-. rewrite skipn_app, Nat.sub_diag, skipn_all. reflexivity. Qed.

Lemma chunks_exact_flat_map {A B} (f : B -> list A) k xs fuel :
  (0 < k)%nat -> (forall x, length (f x) = k) ->
  (length (flat_map f xs) <= fuel)%nat ->
  chunks_exact fuel k (flat_map f xs) = map f xs.
Proof.
  intros Hk Hf. revert fuel. induction xs as [|x xs IH]; intros fuel Hfuel.
  - destruct fuel; simpl; auto. destruct k; [lia|]. reflexivity.
  - cbn [flat_map map] in *. rewrite app_length, Hf in Hfuel.
    destruct fuel as [|fuel]; [lia|]. cbn [chunks_exact].
    rewrite app_length, Hf.
    replace (k + length (flat_map f xs) <? k)%nat with false
      by (symmetry; apply Nat.ltb_ge; lia).
    rewrite firstn_app_exact, skipn_app_exact by apply Hf.
    f_equal. apply IH. lia.
Qed.

Lemma land_low_high a m k : 0 <= k -> 0 <= a < 2 ^ k -> Z.land a (m * 2 ^ k) = 0.
Proof.
  intros Hk Ha. apply Z.bits_inj'. intros n Hn. rewrite Z.land_spec, Z.bits_0.
  destruct (Z.lt_ge_cases n k) as [L|G].
  - rewrite Z.mul_pow2_bits_low by lia. apply andb_false_r.
  - destruct (Z.eq_dec a 0) as [->|Hne]; [now rewrite Z.bits_0|].
    rewrite (Z.bits_above_log2 a n); auto; try lia.
    apply Z.lt_le_trans with k; auto. apply Z.log2_lt_pow2; lia.
Qed.

Lemma lor_low_high a m k : 0 <= k -> 0 <= a < 2 ^ k -> Z.lor a (m * 2 ^ k) = a + m * 2 ^ k.
Proof.
  intros Hk Ha. pose proof (land_low_high a m k Hk Ha) as L.
  rewrite <- Z.lxor_lor by exact L. symmetry. apply Z.add_nocarry_lxor. exact L.
Qed.

(* the integer a reader of width 128 must return for element x of type st:
   x mod 2^w, read as two's complement for signed types, then embedded in u128 *)
Definition ext128 (st : scalar) (x : Z) : Z := sval st x mod 2 ^ 128.

Lemma nbytes_pos st : (0 < nbytes st)%nat.
Proof. destruct st; vm_compute; lia. Qed.

Lemma pow256_nbytes st : st <> Bit -> 256 ^ Z.of_nat (nbytes st) = modulus st.
Proof. destruct st; intros H; try congruence; reflexivity. Qed.

Lemma modulus_divides_128 st : exists q, 2 ^ 128 = q * modulus st /\ 0 < q.
Proof.
  unfold modulus. exists (2 ^ (128 - width st)). split.
  - rewrite <- Z.pow_add_r; destruct st; simpl; try lia; reflexivity.
  - apply Z.pow_pos_nonneg; destruct st; simpl; lia.
Qed.

Lemma mod_mod_divides x a b : 0 < a -> 0 < b -> (x mod (b * a)) mod a = x mod a.
Proof.
  intros Ha Hb. symmetry. apply Zmod_div_mod; try lia. exists b. reflexivity.
Qed.

Lemma bl8 st : st <> Bit -> byte_len st * 8 = width st.
Proof. destruct st; intros; try congruence; reflexivity. Qed.
Lemma mask_eq st : st <> Bit ->
  Z.lxor (2 ^ 128 - 1) (2 ^ width st - 1) = 2 ^ 128 - 2 ^ width st.
Proof. destruct st; intros; try congruence; reflexivity. Qed.
Lemma msb_test r w : 0 < w -> 0 <= r < 2 ^ w -> (r / 2 ^ (w - 1) =? 1) = (2 ^ (w - 1) <=? r).
Proof.
  intros Hw Hr. assert (E : 2 ^ w = 2 * 2 ^ (w - 1)).
  { rewrite <- Z.pow_succ_r by lia. f_equal; lia. }
  assert (0 < 2 ^ (w - 1)) by (apply Z.pow_pos_nonneg; lia).
  set (h := 2 ^ (w - 1)) in *. rewrite E in Hr.
  destruct (h <=? r) eqn:L.
  - apply Z.eqb_eq. symmetry. apply Z.div_unique with (r := r - h); lia.
  - apply Z.eqb_neq. rewrite Z.div_small by lia. lia.
Qed.

Lemma elem_decode st x :
  st <> Bit -> rust_int x ->
  (let res := from_le_bytes (le_bytes (nbytes st) (as_u128 x)) in
   let pad := signed st && (byte_len st <? 128 / 8) in
   let sign_mask := if pad then Z.lxor (2 ^ 128 - 1) (2 ^ (byte_len st * 8) - 1) else 0 in
   if pad && (res / 2 ^ (byte_len st * 8 - 1) =? 1) then Z.lor res sign_mask else res)
  = ext128 st x.
Proof.
  intros Hst Hx. cbv zeta.
  rewrite from_le_le_bytes by (rewrite as_u128_mod by auto; apply Z.mod_pos_bound; lia).
  rewrite pow256_nbytes, as_u128_mod, bl8 by auto.
  destruct (modulus_divides_128 st) as (q & Hq & Hq0).
  replace ((x mod 2 ^ 128) mod modulus st) with (x mod modulus st)
    by (rewrite Hq; symmetry; apply mod_mod_divides; auto using modulus_pos).
  unfold ext128, sval, norm.
  pose proof (Z.mod_pos_bound x (modulus st) (modulus_pos st)) as Hr.
  set (r := x mod modulus st) in *.
  rewrite msb_test by (auto using width_pos).
  unfold modulus in *. set (M := 2 ^ width st) in *.
  destruct (signed st) eqn:Hs; cbn [andb].
  2:{ rewrite Z.mod_small; [reflexivity|nia]. }
  destruct (byte_len st <? 128 / 8) eqn:Hb; cbn [andb].
  - destruct (2 ^ (width st - 1) <=? r) eqn:Hm.
    + rewrite (mask_eq st Hst : Z.lxor (2 ^ 128 - 1) (M - 1) = 2 ^ 128 - M). rewrite Hq.
      replace (q * M - M) with ((q - 1) * M) by ring.
      rewrite (lor_low_high r (q - 1) (width st) : _ -> _ -> Z.lor r ((q - 1) * M) = r + (q - 1) * M)
        by (pose proof (width_pos st); fold M; lia).
      apply Z.mod_unique with (q := -1); nia.
    + rewrite Z.mod_small; [reflexivity|nia].
  - (* 128-bit signed: no padding *)
    assert (st = I128) by (destruct st; try discriminate; try congruence).
    subst st. subst M. cbn [width] in *.
    destruct (2 ^ (128 - 1) <=? r) eqn:Hm.
    + apply Z.mod_unique with (q := -1); lia.
    + rewrite Z.mod_small; lia.
Qed.

(* ---------------------------------------------------------------- integers: write then read *)
Definition byte (y : Z) : Prop := 0 <= y < 256.

Lemma vec_to_bytes_nonbit st xs : st <> Bit ->
  vec_to_bytes st xs = Ok (flat_map (fun x => le_bytes (nbytes st) (as_u128 x)) xs).
Proof. destruct st; intros; try congruence; reflexivity. Qed.

Lemma vec_from_bytes_nonbit acc st x : st <> Bit ->
  vec_from_bytes acc st x =
    (let bl := nbytes st in
     let pad := signed st && (byte_len st <? acc / 8) in
     let sign_mask := if pad then Z.lxor (2 ^ acc - 1) (2 ^ (byte_len st * 8) - 1) else 0 in
     if negb (Z.of_nat (length x) mod byte_len st =? 0) then Err else
     Ok (map (fun chunk =>
                let res := from_le_bytes chunk in
                if pad && (res / 2 ^ (byte_len st * 8 - 1) =? 1)
                then Z.lor res sign_mask else res)
             (chunks_exact (length x) bl x))).
Proof. destruct st; intros; try congruence; reflexivity. Qed.

Lemma flat_map_length_const {A B} (f : A -> list B) k xs :
  (forall x, length (f x) = k) -> length (flat_map f xs) = (length xs * k)%nat.
Proof. intros Hf; induction xs; simpl; auto. rewrite app_length, Hf, IHxs. lia. Qed.

Lemma byte_len_nbytes st : byte_len st = Z.of_nat (nbytes st).
Proof. destruct st; reflexivity. Qed.

Theorem enc_dec_u128 st xs :
  st <> Bit -> Forall rust_int xs ->
  exists b, vec_to_bytes st xs = Ok b /\
            length b = (length xs * nbytes st)%nat /\
            Forall byte b /\
            vec_u128_from_bytes st b = Ok (map (ext128 st) xs).
Proof.
  intros Hst Hxs. eexists. rewrite vec_to_bytes_nonbit by auto. split; [reflexivity|].
  set (f := fun x => le_bytes (nbytes st) (as_u128 x)).
  assert (Hf : forall x, length (f x) = nbytes st) by (intros; apply le_bytes_length).
  split; [apply flat_map_length_const; auto|]. split.
  - apply Forall_flat_map. apply Forall_forall. intros x _. apply le_bytes_range.
  - unfold vec_u128_from_bytes. rewrite vec_from_bytes_nonbit by auto. cbv zeta.
    rewrite (flat_map_length_const f (nbytes st)) by auto.
    rewrite Nat2Z.inj_mul, <- byte_len_nbytes.
    rewrite Z.mod_mul by (destruct st; vm_compute; congruence).
    change (0 =? 0) with true. cbn [negb]. f_equal.
    rewrite chunks_exact_flat_map with (k := nbytes st); auto using nbytes_pos.
    2:{ rewrite (flat_map_length_const f (nbytes st)); auto. }
    rewrite map_map. apply map_ext_in. intros x Hin.
    rewrite Forall_forall in Hxs. apply (elem_decode st x Hst (Hxs x Hin)).
Qed.

(* what each of the ten typed readers returns for such an element: the type's own integer
   value (two's complement for signed types) reduced to the reader's width *)
Lemma cast_u_ext128 k st x : 0 <= k <= 128 -> cast_u k (ext128 st x) = sval st x mod 2 ^ k.
Proof.
  intros Hk. unfold cast_u, ext128.
  replace (2 ^ 128) with (2 ^ (128 - k) * 2 ^ k) by (rewrite <- Z.pow_add_r by lia; f_equal; lia).
  apply mod_mod_divides; apply Z.pow_pos_nonneg; lia.
Qed.

Lemma sval_range st x : signed st = true -> - 2 ^ (width st - 1) <= sval st x < 2 ^ (width st - 1).
Proof.
  intros Hs. unfold sval. rewrite Hs. cbn [andb]. pose proof (norm_range st x) as Hr.
  unfold modulus in *. assert (E : 2 ^ width st = 2 * 2 ^ (width st - 1)).
  { rewrite <- Z.pow_succ_r by (pose proof (width_pos st); lia). f_equal; lia. }
  destruct (2 ^ (width st - 1) <=? norm st x) eqn:L; lia.
Qed.

Lemma sval_range_u st x : signed st = false -> 0 <= sval st x < 2 ^ width st.
Proof. intros Hs. unfold sval. rewrite Hs. cbn [andb]. apply norm_range. Qed.

(* a reader at least as wide as the type returns the integer itself *)
Lemma cast_i_exact k st x :
  signed st = true -> width st <= k <= 128 -> cast_i k (ext128 st x) = sval st x.
Proof.
  intros Hs Hk. unfold cast_i. fold (cast_u k (ext128 st x)). rewrite cast_u_ext128 by (pose proof (width_pos st); lia).
  pose proof (sval_range st x Hs) as R. set (v := sval st x) in *.
  assert (P : 2 ^ (width st - 1) <= 2 ^ (k - 1)) by (apply Z.pow_le_mono_r; pose proof (width_pos st); lia).
  assert (E : 2 ^ k = 2 * 2 ^ (k - 1)).
  { rewrite <- Z.pow_succ_r by (pose proof (width_pos st); lia). f_equal; lia. }
  destruct (0 <=? v) eqn:S.
  - rewrite Z.mod_small by lia. destruct (2 ^ (k - 1) <=? v) eqn:L; lia.
  - replace (v mod 2 ^ k) with (v + 2 ^ k) by (apply Z.mod_unique with (q := -1); lia).
    destruct (2 ^ (k - 1) <=? v + 2 ^ k) eqn:L; lia.
Qed.

Lemma cast_u_exact k st x :
  signed st = false -> width st <= k <= 128 -> cast_u k (ext128 st x) = sval st x.
Proof.
  intros Hs Hk. rewrite cast_u_ext128 by (pose proof (width_pos st); lia).
  pose proof (sval_range_u st x Hs) as R.
  assert (P : 2 ^ width st <= 2 ^ k) by (apply Z.pow_le_mono_r; lia).
  apply Z.mod_small; lia.
Qed.

(* ---------------------------------------------------------------- bits *)
Definition is_bit (b : Z) : Prop := b = 0 \/ b = 1.

Lemma pack_unpack_byte c :
  Forall is_bit c -> (length c <= 8)%nat ->
  exists v, pack_byte 0 c = Ok v /\ byte v /\
            unpack_byte v = c ++ repeat 0 (8 - length c).
Proof.
  intros Hc Hl.
  let rec go := destruct c as [|?b c];
    [ | apply Forall_cons_iff in Hc as [?H Hc]; first [ (simpl in Hl; lia) | go ] ] in go.
  all: repeat match goal with H : is_bit _ |- _ => destruct H; subst end;
    eexists; (split; [vm_compute; reflexivity | split; [ unfold byte; lia | vm_compute; reflexivity ] ]).
Qed.

Lemma chunks_nil {A} fuel k : @chunks A fuel k [] = [].
Proof. destruct fuel; reflexivity. Qed.

Lemma bits_chunks fuel xs :
  (length xs <= fuel)%nat -> Forall is_bit xs ->
  exists b pad, mapM (pack_byte 0) (chunks fuel 8 xs) = Ok b /\
                flat_map unpack_byte b = xs ++ repeat 0 pad /\
                (length xs + pad = 8 * length b)%nat /\ (pad < 8)%nat /\ Forall byte b.
Proof.
  revert xs. induction fuel as [|fuel IH]; intros xs Hl Hb.
  - destruct xs; [|simpl in Hl; lia]. exists [], 0%nat. simpl. repeat split; auto; lia.
  - destruct xs as [|x0 xs0] eqn:Exs.
    { exists [], 0%nat. simpl. repeat split; auto; lia. }
    rewrite <- Exs in *. assert (Hne : xs <> []) by (subst; discriminate).
    assert (Hch : chunks (S fuel) 8 xs = firstn 8 xs :: chunks fuel 8 (skipn 8 xs)).
    { subst xs. reflexivity. }
    rewrite Hch. clear Hch. set (c := firstn 8 xs). set (rest := skipn 8 xs).
    assert (Hxs : xs = c ++ rest) by (symmetry; apply firstn_skipn).
    assert (Hbc : Forall is_bit c /\ Forall is_bit rest).
    { rewrite Hxs in Hb. apply Forall_app in Hb. exact Hb. }
    destruct Hbc as [Hbc Hbr].
    assert (Hlc : (length c <= 8)%nat) by (apply firstn_le_length).
    destruct (pack_unpack_byte c Hbc Hlc) as (v & Hv & Hbv & Hu).
    assert (Hlr : (length rest <= fuel)%nat).
    { unfold rest. rewrite skipn_length. subst xs. simpl in *. lia. }
    destruct (IH rest Hlr Hbr) as (b' & pad' & Hm & Hf & Hlen & Hpad & Hbb).
    cbn [mapM]. rewrite Hv. cbn [bind]. rewrite Hm. cbn [bind].
    destruct rest as [|r0 rest0] eqn:Er.
    + (* last chunk *)
      rewrite chunks_nil in Hm. simpl in Hm. injection Hm as <-.
      assert (Hlx : length xs = length c) by (rewrite Hxs at 1; rewrite app_length; simpl; lia).
      exists [v], (8 - length c)%nat.
      split; [reflexivity|]. cbn [flat_map]. rewrite app_nil_r, Hu.
      rewrite app_nil_r in Hxs. rewrite <- Hxs.
      assert (length xs <> 0)%nat by (destruct xs; simpl; congruence).
      repeat split; auto; cbn [length]; lia.
    + (* full chunk followed by more *)
      assert (Hc8 : length c = 8%nat).
      { assert (Hsk : length rest = (length xs - 8)%nat) by (unfold rest; apply skipn_length).
        rewrite Er in Hsk. cbn [length] in Hsk. unfold c. rewrite firstn_length. lia. }
      exists (v :: b'), pad'. split; [reflexivity|]. cbn [flat_map].
      rewrite Hu, Hc8, Hf. simpl repeat. rewrite app_nil_r.
      rewrite Hxs at 1 2. rewrite <- app_assoc. repeat split; auto.
      rewrite app_length, Hc8. simpl length in *. lia.
Qed.

Theorem bits_pack_unpack xs :
  Forall is_bit xs ->
  exists b pad, vec_to_bytes Bit xs = Ok b /\ Forall byte b /\
                Z.of_nat (length b) = (Z.of_nat (length xs) + 7) / 8 /\
                vec_u128_from_bytes Bit b = Ok (xs ++ repeat 0 pad).
Proof.
  intros Hb. destruct (bits_chunks (length xs) xs (le_n _) Hb) as (b & pad & Hm & Hf & Hlen & Hpad & Hbb).
  exists b, pad. cbn [vec_to_bytes]. split; [exact Hm|]. split; [exact Hbb|]. split.
  - apply Z.div_unique with (r := 7 - Z.of_nat pad); lia.
  - unfold vec_u128_from_bytes, vec_from_bytes. now rewrite Hf.
Qed.

(* a non-bit entry is rejected, not silently truncated *)
Theorem bits_reject xs : ~ Forall is_bit xs -> vec_to_bytes Bit xs = Err.
Proof.
  intros Hn. cbn [vec_to_bytes].
  assert (G : forall fuel ys, (length ys <= fuel)%nat -> ~ Forall is_bit ys ->
                mapM (pack_byte 0) (chunks fuel 8 ys) = Err).
  { clear. induction fuel as [|fuel IH]; intros ys Hl Hn.
    - destruct ys; [exfalso; apply Hn; constructor | simpl in Hl; lia].
    - destruct ys as [|y0 ys0] eqn:E; [exfalso; apply Hn; constructor|].
      rewrite <- E in *. assert (Hch : chunks (S fuel) 8 ys = firstn 8 ys :: chunks fuel 8 (skipn 8 ys))
        by (subst ys; reflexivity). rewrite Hch. cbn [mapM].
      assert (P : forall i c, pack_byte i c = Err \/ (exists v, pack_byte i c = Ok v) /\ Forall is_bit c).
      { clear. intros i c; revert i; induction c as [|b c IHc]; intros i; cbn [pack_byte].
        - right. split; [eauto|constructor].
        - destruct ((b =? 0) || (b =? 1)) eqn:B; [|left; reflexivity].
          destruct (IHc (i + 1)) as [->|[[v ->] F]]; [left; reflexivity|].
          right. split; [eexists; reflexivity|]. constructor; auto. unfold is_bit. lia. }
      destruct (P 0 (firstn 8 ys)) as [->|[[v Hv] F]]; [reflexivity|].
      rewrite Hv. cbn [bind]. rewrite IH; [reflexivity| |].
      + rewrite skipn_length. subst ys. simpl in *. lia.
      + intros F2. apply Hn. rewrite <- (firstn_skipn 8 ys). apply Forall_app. split; assumption. }
  apply G; auto.
Qed.

(* ---------------------------------------------------------------- layout *)
Inductive layout : bvalue -> ty -> Prop :=
| L_scalar b s : Z.of_nat (length b) = (width s + 7) / 8 -> layout (BBytes b) (TScalar s)
| L_array b sh s n : size_in_bits_raw (TArray sh s) = Ok n ->
                     Z.of_nat (length b) = (n + 7) / 8 -> layout (BBytes b) (TArray sh s)
| L_vector vs n t : Z.of_nat (length vs) = n -> Forall (fun v => layout v t) vs ->
                    layout (BVec vs) (TVector n t)
| L_tuple vs ts : Forall2 layout vs ts -> layout (BVec vs) (TTuple ts)
| L_named vs fs : Forall2 layout vs (map snd fs) -> layout (BVec vs) (TNamed fs).

Theorem check_type_iff_layout v : forall t, check_type_raw v t = true <-> layout v t.
Proof.
  induction v as [b|vs IH] using bvalue_ind'; intros t.
  - destruct t as [s|sh s|n t|ts|fs]; cbn [check_type_raw size_in_bits_raw].
    + rewrite Z.eqb_eq. split; [intros; now constructor | inversion 1; auto].
    + fold (size_in_bits_raw (TArray sh s)).
      destruct (size_in_bits_raw (TArray sh s)) as [n| | |] eqn:E.
      * rewrite Z.eqb_eq. split; [intros; econstructor; eauto | inversion 1; congruence].
      * split; [discriminate | inversion 1; congruence].
      * split; [discriminate | inversion 1; congruence].
      * split; [discriminate | inversion 1; congruence].
    + split; [discriminate | inversion 1].
    + split; [discriminate | inversion 1].
    + split; [discriminate | inversion 1].
  - destruct t as [s|sh s|n t|ts|fs]; cbn [check_type_raw].
    + split; [discriminate | inversion 1].
    + split; [discriminate | inversion 1].
    + rewrite andb_true_iff, Z.eqb_eq, forallb_forall. split.
      * intros [Hn Hall]. constructor; auto. rewrite Forall_forall in *. intros v Hv.
        apply (IH v Hv t). auto.
      * inversion 1; subst. split; auto. rewrite Forall_forall in *. intros v Hv.
        apply (IH v Hv t). auto.
    + revert ts. induction vs as [|v vs IHvs]; intros [|t ts].
      * split; [constructor; constructor | reflexivity].
      * split; [discriminate | inversion 1; subst; match goal with H : Forall2 _ [] (_ :: _) |- _ => inversion H end].
      * split; [discriminate | inversion 1; subst; match goal with H : Forall2 _ (_ :: _) [] |- _ => inversion H end].
      * apply Forall_cons_iff in IH as [IHv IHr]. specialize (IHvs IHr ts).
        rewrite andb_true_iff, IHv, IHvs. split.
        -- intros [H1 H2]. inversion H2; subst. constructor. constructor; auto.
        -- inversion 1; subst. match goal with H : Forall2 _ (_ :: _) (_ :: _) |- _ => inversion H; subst end.
           split; auto. constructor; auto.
    + revert fs. induction vs as [|v vs IHvs]; intros [|f fs].
      * split; [constructor; constructor | reflexivity].
      * split; [discriminate | inversion 1; subst; match goal with H : Forall2 _ _ _ |- _ => inversion H end].
      * split; [discriminate | inversion 1; subst; match goal with H : Forall2 _ _ _ |- _ => inversion H end].
      * apply Forall_cons_iff in IH as [IHv IHr]. specialize (IHvs IHr fs).
        rewrite andb_true_iff, IHv, IHvs. split.
        -- intros [H1 H2]. inversion H2; subst. constructor. simpl. constructor; auto.
        -- inversion 1; subst. match goal with H : Forall2 _ (_ :: _) (map snd (_ :: _)) |- _ => inversion H; subst end.
           split; auto. constructor; auto.
Qed.

(* Per-operation specification proofs (C10), part 11: VectorGet, NamedTupleGet. *)
From Coq Require Import String.
From CC Require Import Base.Prelude Base.Scalar Base.Ty Base.Shape Graph.Value Graph.IR Graph.Eval
  Proofs.EvalProofs Graph.Spec Proofs.EvalSpecBase.

(* VectorGet: the component at the index, read as an unsigned 64-bit value; an index >= the
   vector's length is an error *)
Theorem vector_get_spec size et ist t l x :
  let i := as_u64 ist x in
  i < size -> i < Z.of_nat (length l) ->
  eval_node OVectorGet [TVector size et; TScalar ist] t [VTup l; VArr [x]]
  = Ok (nth (Z.to_nat i) l (VArr [])).
Proof.
  intros i H1 H2. assert (0 <= i) by (unfold i, as_u64; apply Z.mod_pos_bound; lia).
  cbn [eval_node nth nth_res bind arr_of st_of tup_of]. fold i.
  replace (size <=? i) with false by lia. apply znth_ok. lia.
Qed.

Definition named_go (fs : list (string * ty)) (name : string) : Z -> option Z :=
  (fix go (fs : list (string * ty)) (i : Z) : option Z :=
     match fs with
     | [] => None
     | f :: r => if String.eqb (fst f) name then Some i else go r (i + 1)
     end) fs.

Lemma named_go_cons f fs name i :
  named_go (f :: fs) name i = if String.eqb (fst f) name then Some i else named_go fs name (i + 1).
Proof. reflexivity. Qed.

Lemma named_index_go fs name : named_index fs name = named_go fs name 0.
Proof. reflexivity. Qed.

Lemma named_go_spec fs name : forall k i, named_go fs name k = Some i ->
  k <= i < k + Z.of_nat (length fs) /\
  fst (nth (Z.to_nat (i - k)) fs (EmptyString, TTuple [])) = name /\
  forall j, 0 <= j < i - k -> fst (nth (Z.to_nat j) fs (EmptyString, TTuple [])) <> name.
Proof.
  induction fs as [|f fs IH]; intros k i H; [discriminate|]. rewrite named_go_cons in H.
  destruct (String.eqb_spec (fst f) name) as [E|NE].
  - inversion H; subst i. rewrite Z.sub_diag. cbn [length Z.to_nat nth]. split; [lia|]. split; [exact E|].
    intros j Hj. lia.
  - apply IH in H as (R & Hn & Hb). cbn [length]. split; [lia|].
    replace (Z.to_nat (i - k)) with (S (Z.to_nat (i - (k + 1)))) by lia. cbn [nth]. split; [exact Hn|].
    intros j Hj. destruct (Z.eq_dec j 0) as [->|Nj]; [exact NE|].
    replace (Z.to_nat j) with (S (Z.to_nat (j - 1))) by lia. cbn [nth]. apply Hb. lia.
Qed.

(* NamedTupleGet: the component of the first field with the given name *)
Theorem named_tuple_get_spec fs name t l :
  length l = length fs ->
  (exists f, In f fs /\ fst f = name) ->
  exists i, eval_node (ONamedTupleGet name) [TNamed fs] t [VTup l] = Ok (nth i l (VArr [])) /\
    (i < length fs)%nat /\ fst (nth i fs (EmptyString, TTuple [])) = name /\
    forall j, (j < i)%nat -> fst (nth j fs (EmptyString, TTuple [])) <> name.
Proof.
  intros Hl (f & Hin & Hf).
  assert (Hsome : exists i, named_index fs name = Some i).
  { clear Hl. rewrite named_index_go. generalize 0. induction fs as [|g fs IH]; intros k; [destruct Hin|].
    rewrite named_go_cons. destruct (String.eqb_spec (fst g) name) as [E|NE]; [eauto|].
    destruct Hin as [->|Hin]; [congruence|]. apply IH; exact Hin. }
  destruct Hsome as (i & Ei). pose proof Ei as Ei'. rewrite named_index_go in Ei'.
  apply named_go_spec in Ei' as (R & Hn & Hb). rewrite Z.sub_0_r in Hn, Hb.
  exists (Z.to_nat i). split; [|split; [lia|split; [exact Hn|]]].
  - cbn [eval_node nth]. rewrite Ei. cbn [nth_res bind tup_of]. apply znth_ok. lia.
  - intros j Hj. specialize (Hb (Z.of_nat j) ltac:(lia)). now rewrite Nat2Z.id in Hb.
Qed.

(* Proofs about Model/Sort.v (C18), part 2: permutation algebra — apply / inverse / compose,
   apply∘inverse = id, and shuffle–reveal–apply–unshuffle as conjugation. *)
From Coq Require Import Permutation.
From CC Require Import Base.Prelude Base.Scalar Model.Sort Proofs.SortProofs.

(* ------------------------------------------------------------------ upd *)
Lemma upd_length {A} (l : list A) i x : length (upd l i x) = length l.
Proof. revert i; induction l as [|a l IH]; intros [|i]; simpl; auto. Qed.

Lemma upd_nth_same {A} (l : list A) i x d : (i < length l)%nat -> nth i (upd l i x) d = x.
Proof. revert i; induction l as [|a l IH]; intros [|i] H; simpl in *; try lia; auto. apply IH. lia. Qed.

Lemma upd_nth_other {A} (l : list A) i j x d : i <> j -> nth j (upd l i x) d = nth j l d.
Proof.
  revert i j; induction l as [|a l IH]; intros [|i] [|j] H; simpl; auto; try congruence.
Qed.

(* ------------------------------------------------------------------ the inversion loop *)
Definition inv_acc (pairs : list (nat * nat)) (r : list nat) : list nat :=
  fold_left (fun r iv => upd r (snd iv) (fst iv)) pairs r.

Lemma inv_acc_length pairs r : length (inv_acc pairs r) = length r.
Proof.
  revert r; induction pairs as [|iv pairs IH]; intros r; simpl; auto.
  unfold inv_acc in IH. rewrite IH. apply upd_length.
Qed.

Lemma inv_acc_nth_notin pairs r j d :
  ~ In j (map snd pairs) -> nth j (inv_acc pairs r) d = nth j r d.
Proof.
  revert r; induction pairs as [|iv pairs IH]; intros r H; simpl in *; auto.
  unfold inv_acc in IH. rewrite IH by tauto. apply upd_nth_other. tauto.
Qed.

Lemma inv_acc_nth_in pairs r i v d :
  NoDup (map snd pairs) -> In (i, v) pairs -> (v < length r)%nat ->
  nth v (inv_acc pairs r) d = i.
Proof.
  revert r; induction pairs as [|iv pairs IH]; intros r Hnd Hin Hv; simpl in *; [tauto|].
  inversion Hnd as [|? ? Hni Hnd']; subst. destruct Hin as [->|Hin].
  - fold (inv_acc pairs (upd r v i)). simpl in *. rewrite inv_acc_nth_notin by auto.
    apply upd_nth_same. auto.
  - fold (inv_acc pairs (upd r (snd iv) (fst iv))). apply IH; auto. now rewrite upd_length.
Qed.

Lemma inv_perm_eq p : inv_perm p = inv_acc (combine (seq 0 (length p)) p) (repeat 0%nat (length p)).
Proof. reflexivity. Qed.

Lemma inv_perm_length p : length (inv_perm p) = length p.
Proof. rewrite inv_perm_eq, inv_acc_length. apply repeat_length. Qed.

Lemma in_combine_seq_l {B} (d : B) p s i :
  (i < length p)%nat -> In ((s + i)%nat, nth i p d) (combine (seq s (length p)) p).
Proof.
  revert s i; induction p as [|a p IH]; intros s i H; simpl in *; [lia|].
  destruct i as [|i]; [left; f_equal; lia|]. right.
  replace (s + S i)%nat with (S s + i)%nat by lia. apply IH. lia.
Qed.

Lemma map_snd_combine_seq {B} (p : list B) s : map snd (combine (seq s (length p)) p) = p.
Proof. revert s; induction p; intros; simpl; f_equal; auto. Qed.

(* ------------------------------------------------------------------ permutations of 0..n-1 *)
Lemma is_perm_length n p : is_perm n p -> length p = n.
Proof. intros H. rewrite (Permutation_length H). apply seq_length. Qed.

Lemma is_perm_NoDup n p : is_perm n p -> NoDup p.
Proof. intros H. apply (Permutation_NoDup (Permutation_sym H)). apply seq_NoDup. Qed.

Lemma is_perm_lt n p i : is_perm n p -> (i < n)%nat -> (nth i p 0 < n)%nat.
Proof.
  intros H Hi. assert (Hin : In (nth i p 0%nat) p) by (apply nth_In; now rewrite (is_perm_length n p H)).
  apply (Permutation_in _ H), in_seq in Hin. lia.
Qed.

Lemma is_perm_Forall n p : is_perm n p -> Forall (fun i => (i < n)%nat) p.
Proof.
  intros H. rewrite Forall_forall. intros x Hx. apply (Permutation_in _ H), in_seq in Hx. lia.
Qed.

Lemma is_perm_surj n p j : is_perm n p -> (j < n)%nat -> exists i, (i < n)%nat /\ nth i p 0%nat = j.
Proof.
  intros H Hj. assert (Hin : In j p).
  { apply (Permutation_in _ (Permutation_sym H)), in_seq. lia. }
  destruct (In_nth _ _ 0%nat Hin) as (i & Hi & E). exists i. rewrite (is_perm_length n p H) in Hi. auto.
Qed.

Lemma is_perm_inj n p i j :
  is_perm n p -> (i < n)%nat -> (j < n)%nat -> nth i p 0%nat = nth j p 0%nat -> i = j.
Proof.
  intros H Hi Hj E. pose proof (is_perm_NoDup n p H) as Hnd.
  rewrite (NoDup_nth p 0%nat) in Hnd. apply Hnd; auto; now rewrite (is_perm_length n p H).
Qed.

Lemma is_perm_intro n l :
  length l = n -> NoDup l -> (forall x, In x l -> (x < n)%nat) -> is_perm n l.
Proof.
  intros L Hnd Hlt. unfold is_perm. apply NoDup_Permutation_bis; auto.
  - rewrite seq_length. lia.
  - intros x Hx. apply in_seq. specialize (Hlt x Hx). lia.
Qed.

Lemma is_perm_seq n : is_perm n (seq 0 n).
Proof. unfold is_perm. reflexivity. Qed.

(* inv_perm p undoes p *)
Lemma inv_perm_nth n p i :
  is_perm n p -> (i < n)%nat -> nth (nth i p 0%nat) (inv_perm p) 0%nat = i.
Proof.
  intros H Hi. pose proof (is_perm_length n p H) as L. rewrite inv_perm_eq.
  apply inv_acc_nth_in.
  - rewrite map_snd_combine_seq. eapply is_perm_NoDup; eauto.
  - apply (in_combine_seq_l 0%nat p 0 i). lia.
  - rewrite repeat_length, L. eapply is_perm_lt; eauto.
Qed.

Lemma inv_perm_nth' n p j :
  is_perm n p -> (j < n)%nat ->
  (nth j (inv_perm p) 0 < n)%nat /\ nth (nth j (inv_perm p) 0%nat) p 0%nat = j.
Proof.
  intros H Hj. destruct (is_perm_surj n p j H Hj) as (i & Hi & <-).
  rewrite (inv_perm_nth n p i H Hi). auto.
Qed.

Lemma inv_perm_is_perm n p : is_perm n p -> is_perm n (inv_perm p).
Proof.
  intros H. pose proof (is_perm_length n p H) as L.
  assert (Li : length (inv_perm p) = n) by (now rewrite inv_perm_length).
  apply is_perm_intro; auto.
  - apply (NoDup_nth _ 0%nat). rewrite Li. intros j1 j2 H1 H2 E.
    destruct (inv_perm_nth' n p j1 H H1) as [_ E1]. destruct (inv_perm_nth' n p j2 H H2) as [_ E2].
    rewrite <- E1, <- E2, E. reflexivity.
  - intros x Hx. destruct (In_nth _ _ 0%nat Hx) as (j & Hj & <-). rewrite Li in Hj.
    apply (inv_perm_nth' n p j H Hj).
Qed.

(* the inverse is the only list that undoes p *)
Lemma inv_perm_unique n p s :
  is_perm n p -> length s = n -> (forall i, (i < n)%nat -> nth (nth i p 0%nat) s 0%nat = i) ->
  s = inv_perm p.
Proof.
  intros H L Hs. apply (nth_ext _ _ 0%nat 0%nat).
  - rewrite inv_perm_length, (is_perm_length n p H). exact L.
  - intros j Hj. rewrite L in Hj. destruct (is_perm_surj n p j H Hj) as (i & Hi & <-).
    rewrite Hs by auto. now rewrite (inv_perm_nth n p i H Hi).
Qed.

Lemma inv_perm_involutive n p : is_perm n p -> inv_perm (inv_perm p) = p.
Proof.
  intros H. symmetry. apply (inv_perm_unique n).
  - now apply inv_perm_is_perm.
  - eapply is_perm_length; eauto.
  - intros j Hj. apply (inv_perm_nth' n p j H Hj).
Qed.

(* ------------------------------------------------------------------ apply_perm *)
Lemma apply_perm_length {A} (d : A) p x : length (apply_perm d p x) = length p.
Proof. apply map_length. Qed.

Lemma apply_perm_nth {A} (d d' : A) p x i :
  (i < length p)%nat -> nth i (apply_perm d p x) d' = nth (nth i p 0%nat) x d.
Proof.
  intros Hi. unfold apply_perm.
  rewrite (nth_indep _ d' (nth 0%nat x d)) by (now rewrite map_length).
  apply (map_nth (fun i => nth i x d) p 0%nat i).
Qed.

Lemma apply_perm_id {A} (d : A) x : apply_perm d (seq 0 (length x)) x = x.
Proof.
  unfold apply_perm. induction x as [|a x IH]; simpl; auto. f_equal.
  rewrite <- seq_shift, map_map. exact IH.
Qed.

(* C18: applying a permutation and then its inverse (or the other way round) restores the array *)
Theorem apply_inverse_id {A} (d : A) n p x :
  is_perm n p -> length x = n ->
  apply_perm d (inv_perm p) (apply_perm d p x) = x /\
  apply_perm d p (apply_perm d (inv_perm p) x) = x.
Proof.
  intros H L. pose proof (is_perm_length n p H) as Lp.
  pose proof (inv_perm_is_perm n p H) as Hi. pose proof (is_perm_length _ _ Hi) as Li. split.
  - apply (nth_ext _ _ d d); [now rewrite apply_perm_length, Li|].
    intros j Hj. rewrite apply_perm_length, Li in Hj.
    destruct (inv_perm_nth' n p j H Hj) as [Hlt E].
    rewrite apply_perm_nth by lia. rewrite apply_perm_nth by lia. now rewrite E.
  - apply (nth_ext _ _ d d); [now rewrite apply_perm_length, Lp|].
    intros i Hi'. rewrite apply_perm_length, Lp in Hi'.
    rewrite apply_perm_nth by lia. rewrite apply_perm_nth by (rewrite Li; eapply is_perm_lt; eauto).
    now rewrite (inv_perm_nth n p i H Hi').
Qed.

(* composition: gathering by p after gathering by q is gathering by (i |-> q[p[i]]) *)
Lemma apply_perm_assoc {A} (d : A) p q x :
  Forall (fun i => (i < length q)%nat) p ->
  apply_perm d (apply_perm 0%nat p q) x = apply_perm d p (apply_perm d q x).
Proof.
  intros H. unfold apply_perm at 1 2 3. rewrite map_map. apply map_ext_in.
  intros i Hi. rewrite Forall_forall in H. symmetry. apply apply_perm_nth. auto.
Qed.

Lemma compose_is_perm n p q : is_perm n p -> is_perm n q -> is_perm n (apply_perm 0%nat p q).
Proof.
  intros Hp Hq. pose proof (is_perm_length n q Hq) as L. subst n.
  unfold is_perm, apply_perm in *. rewrite (Permutation_map _ Hp).
  rewrite map_nth_seq. exact Hq.
Qed.

(* (q∘p)^-1 = p^-1 ∘ q^-1 *)
Lemma inv_perm_compose n p q :
  is_perm n p -> is_perm n q ->
  inv_perm (apply_perm 0%nat p q) = apply_perm 0%nat (inv_perm q) (inv_perm p).
Proof.
  intros Hp Hq. symmetry. apply (inv_perm_unique n).
  - now apply compose_is_perm.
  - rewrite apply_perm_length, inv_perm_length. eapply is_perm_length; eauto.
  - intros i Hi. pose proof (is_perm_length n p Hp) as Lp. pose proof (is_perm_length n q Hq) as Lq.
    rewrite (apply_perm_nth 0%nat 0%nat p q i) by lia.
    pose proof (is_perm_lt n p i Hp Hi) as Hpi.
    rewrite apply_perm_nth by (rewrite inv_perm_length, Lq; eapply is_perm_lt; eauto).
    rewrite (inv_perm_nth n q _ Hq Hpi). apply (inv_perm_nth n p i Hp Hi).
Qed.

(* ------------------------------------------------------------------ the model's loop = inv_perm *)
Lemma execute_inverse_permutation_ok p :
  Forall (fun v => (v < length p)%nat) p -> execute_inverse_permutation p = Ok (inv_perm p).
Proof.
  intros H. unfold execute_inverse_permutation, inv_perm.
  set (L := length p) in *. clearbody L.
  assert (G : forall pairs r, Forall (fun iv => (snd iv < L)%nat) pairs ->
    fold_left (fun (acc : result (list nat)) (iv : nat * nat) => let* r := acc in
                 if (L <=? snd iv)%nat then Err else Ok (upd r (snd iv) (fst iv))) pairs (Ok r)
    = Ok (fold_left (fun (r : list nat) (iv : nat * nat) => upd r (snd iv) (fst iv)) pairs r)).
  { induction pairs as [|iv pairs IH]; intros r Hf; simpl; auto.
    inversion Hf as [|? ? H1 H2]; subst.
    replace (L <=? snd iv)%nat with false by (symmetry; apply Nat.leb_gt; auto). apply IH; auto. }
  apply G. rewrite Forall_forall in *. intros [i v] Hin. apply in_combine_r in Hin. simpl. auto.
Qed.

Lemma execute_inverse_permutation_err p :
  ~ Forall (fun v => (v < length p)%nat) p -> execute_inverse_permutation p = Err.
Proof.
  intros H. unfold execute_inverse_permutation.
  set (L := length p) in *.
  assert (G : forall pairs r, ~ Forall (fun iv => (snd iv < L)%nat) pairs ->
    fold_left (fun (acc : result (list nat)) (iv : nat * nat) => let* r := acc in
                 if (L <=? snd iv)%nat then Err else Ok (upd r (snd iv) (fst iv))) pairs (Ok r)
    = Err).
  { induction pairs as [|iv pairs IH]; intros r Hf; simpl; [exfalso; apply Hf; constructor|].
    destruct (L <=? snd iv)%nat eqn:E.
    - clear. induction pairs; simpl; auto.
    - apply IH. intros Hc. apply Hf. constructor; auto. apply Nat.leb_gt in E. auto. }
  apply G. intros Hc. apply H. rewrite Forall_forall in *. intros v Hv.
  destruct (In_nth _ _ 0%nat Hv) as (i & Hi & <-).
  apply (Hc (i, nth i p 0%nat)). apply (in_combine_seq_l 0%nat p 0 i Hi).
Qed.

(* ------------------------------------------------------------------ conjugation *)
(* C18: for EVERY permutation pi drawn by the protocol, shuffle – reveal – apply – unshuffle
   computes sigma' = ro ∘ sigma with ro the ranks of the chunk put in sigma-order: the result
   does not depend on pi *)
Theorem radix_step_conjugation ms n pi sigma chunk :
  is_perm n pi -> is_perm n sigma -> length chunk = n ->
  radix_step ms pi sigma chunk
  = apply_perm 0%nat sigma (ms (apply_perm [] (inv_perm sigma) chunk)).
Proof.
  intros Hpi Hs Lc. unfold radix_step.
  pose proof (is_perm_length _ _ Hpi) as Lpi. pose proof (is_perm_length _ _ Hs) as Ls.
  pose proof (inv_perm_is_perm _ _ Hpi) as Hipi. pose proof (inv_perm_is_perm _ _ Hs) as His.
  rewrite (inv_perm_compose n pi sigma Hpi Hs).
  rewrite (apply_perm_assoc [] (inv_perm sigma) (inv_perm pi))
    by (rewrite inv_perm_length, Lpi; now apply is_perm_Forall).
  rewrite (proj1 (apply_inverse_id [] n pi chunk Hpi Lc)).
  rewrite (apply_perm_assoc 0%nat pi sigma) by (rewrite Ls; now apply is_perm_Forall).
  apply (apply_inverse_id 0%nat n pi _ Hpi). now rewrite apply_perm_length.
Qed.

Theorem apply_sorting_permutation_conjugation {A} (d : A) n pi sigma col :
  is_perm n pi -> is_perm n sigma -> length col = n ->
  apply_sorting_permutation pi d sigma col = apply_perm d (inv_perm sigma) col.
Proof.
  intros Hpi Hs Lc. unfold apply_sorting_permutation.
  pose proof (is_perm_length _ _ Hpi) as Lpi.
  rewrite (inv_perm_compose n pi sigma Hpi Hs).
  rewrite (apply_perm_assoc d (inv_perm sigma) (inv_perm pi))
    by (rewrite inv_perm_length, Lpi; apply is_perm_Forall; now apply inv_perm_is_perm).
  now rewrite (proj1 (apply_inverse_id d n pi col Hpi Lc)).
Qed.

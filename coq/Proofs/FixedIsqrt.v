(* C20 (c), inverse square root: exhaustive in-Coq sweeps (see FixedNewton.v). *)
From CC Require Import Base.Prelude Model.Fixed Proofs.FixedBits Proofs.FixedNewton Proofs.FixedIsqrt8u.

(* ---------------------------------------------------------------- inverse square root *)
Definition caps_2_7 : list Z := [2; 3; 4; 5; 6; 7].
(* documented domain (0, 2^(2cap-1)), both signednesses, 5 iterations as in the tests *)
Lemma isqrt_sweep_2_7 :
  forallb (fun cap => isqrt_sweep true 5 cap 2 (2 ^ (2 * cap - 1)) && isqrt_sweep false 5 cap 2 (2 ^ (2 * cap - 1)))
          caps_2_7 = true.
Proof. vm_cast_no_check (eq_refl true). Qed.
Lemma isqrt_sweep_8s : isqrt_sweep true 5 8 2 (2 ^ 15) = true.
Proof. vm_cast_no_check (eq_refl true). Qed.

Lemma isqrt_2_8 : forall sg cap d, 2 <= cap <= 8 -> 0 < d < 2 ^ (2 * cap - 1) ->
  exists a, inverse_sqrt sg 5 cap None d = Ok a /\
            (a <= 2 \/ (a - 2) * (a - 2) * d <= 2 ^ (2 * cap)) /\
            2 ^ (2 * cap) <= (a + 2) * (a + 2) * d.
Proof.
  intros sg cap d Hc Hd.
  destruct (Z.eq_dec cap 8) as [->|Hne].
  { change (2 * 8 - 1) with 15 in Hd.
    destruct sg; [apply (isqrt_sweep_sound true 5 8 2 (2 ^ 15) isqrt_sweep_8s d Hd)
                 |apply (isqrt_sweep_sound false 5 8 2 (2 ^ 15) isqrt_sweep_8u d Hd)]. }
  pose proof isqrt_sweep_2_7 as H. rewrite forallb_forall in H.
  assert (Hin : In cap caps_2_7).
  { unfold caps_2_7. assert (cap = 2 \/ cap = 3 \/ cap = 4 \/ cap = 5 \/ cap = 6 \/ cap = 7)
      as Hor by lia. cbn [In]. intuition. }
  specialize (H cap Hin). apply andb_true_iff in H. destruct H as [Ht Hf].
  destruct sg; eapply isqrt_sweep_sound; eassumption.
Qed.

(* the tests' cap = 10: only the lower part of the documented domain (0, 2^19) is swept here *)
Lemma isqrt_sweep_10 : isqrt_sweep true 5 10 2 (2 ^ 14) = true.
Proof. vm_cast_no_check (eq_refl true). Qed.
Lemma isqrt_10_partial : forall d, 0 < d < 2 ^ 14 ->
  exists a, inverse_sqrt true 5 10 None d = Ok a /\
            (a <= 2 \/ (a - 2) * (a - 2) * d <= 2 ^ 20) /\ 2 ^ 20 <= (a + 2) * (a + 2) * d.
Proof. intros d Hd. apply (isqrt_sweep_sound true 5 10 2 (2 ^ 14) isqrt_sweep_10 d Hd). Qed.

(* tolerance 1 (what the unit tests assert against the floor) does not hold in real terms:
   at d = 4^(cap-2) the iteration is stuck at 2 while 2^cap / sqrt d = 4 *)
Lemma isqrt_tol1_refuted :
  inverse_sqrt true 5 10 None 65536 = Ok 2 /\ isqrt_close 10 1 65536 2 = false /\ 4 * 4 * 65536 = 2 ^ 20.
Proof. vm_compute. repeat split; reflexivity. Qed.

(* cap = 31 is accepted by the range check but `3 << 30` overflows the i32 literal *)
Lemma isqrt_cap31_refuted :
  inverse_sqrt true 6 31 None 1 = Ok 23940445 /\ 2 ^ 31 = 2147483648.
Proof. vm_compute. split; reflexivity. Qed.


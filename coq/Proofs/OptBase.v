(* Shared framework for the optimizer-pass proofs (C06 / C04): list and result helpers,
   decidable-equality lemmas, a valuation predicate characterising eval_graph_nodes (generic in
   the node semantics), the simulation relation along an old->new node map, transported tapes,
   and the propositional form of Model.Uniquify.fresh_check. *)
From CC Require Import Base.Prelude Base.Scalar Base.Ty Base.Shape Graph.Value Graph.IR Graph.Eval
  Model.Opt Model.Uniquify.

(* ------------------------------------------------------------------ result / list helpers *)
Lemma bind_ok {A B} (r : result A) (f : A -> result B) b :
  bind r f = Ok b -> exists a, r = Ok a /\ f a = Ok b.
Proof. destruct r; cbn; intros H; try discriminate. eauto. Qed.

Ltac bind_inv H :=
  let a := fresh "a" in let E := fresh "E" in
  apply bind_ok in H; destruct H as (a & E & H).

Lemma mapM_Forall2 {A B} (f : A -> result B) l l' :
  mapM f l = Ok l' <-> Forall2 (fun a b => f a = Ok b) l l'.
Proof.
  revert l'. induction l as [|x l IH]; intros l'; cbn [mapM].
  - split; intros H; [injection H as <-; constructor | inversion H; reflexivity].
  - split; intros H.
    + bind_inv H. bind_inv H. injection H as <-. constructor; auto. now apply IH.
    + inversion H as [|? y ? ys Hx Hl]; subst. rewrite Hx. cbn. apply IH in Hl. rewrite Hl. reflexivity.
Qed.

Lemma mapM_ext {A B} (f g : A -> result B) l : (forall x, In x l -> f x = g x) -> mapM f l = mapM g l.
Proof.
  induction l as [|x l IH]; intros H; cbn [mapM]; auto.
  rewrite (H x) by (left; auto). rewrite IH; auto. intros; apply H; right; auto.
Qed.

Lemma Forall2_compose {A B C} (R : A -> B -> Prop) (S : A -> C -> Prop) (T : B -> C -> Prop) l l1 l2 :
  Forall2 R l l1 -> Forall2 S l l2 -> (forall a b c, In a l -> R a b -> S a c -> T b c) -> Forall2 T l1 l2.
Proof.
  intros H; revert l2. induction H as [|a b l l1 Hab _ IH]; intros l2 H2 HT; inversion H2; subst; constructor.
  - eapply HT; eauto. left; auto.
  - apply IH; auto. intros; eapply HT; eauto. right; auto.
Qed.

Lemma Forall2_fun {A B} (R : A -> B -> Prop) l l1 l2 :
  (forall a b c, R a b -> R a c -> b = c) -> Forall2 R l l1 -> Forall2 R l l2 -> l1 = l2.
Proof.
  intros HR H; revert l2. induction H; intros l2 H2; inversion H2; subst; auto.
  f_equal; eauto.
Qed.

Lemma nth_res_ok {A} (l : list A) i x : nth_res l i = Ok x <-> nth_error l i = Some x.
Proof.
  revert i; induction l as [|y l IH]; intros [|i]; cbn; try (split; discriminate).
  - split; intros H; injection H as <-; auto.
  - apply IH.
Qed.

Lemma nth_res_total {A} (l : list A) i : nth_res l i = match nth_error l i with Some x => Ok x | None => Panic end.
Proof. revert i; induction l as [|y l IH]; intros [|i]; cbn; auto. Qed.

Lemma znth_ok {A} (l : list A) i x : znth l i = Ok x <-> 0 <= i /\ nth_error l (Z.to_nat i) = Some x.
Proof.
  unfold znth. destruct (i <? 0) eqn:E.
  - split; [discriminate|lia].
  - rewrite nth_res_ok. split; [intros; split; [lia|auto] | tauto].
Qed.

Lemma map_get_ok m d j : map_get m d = Ok j <-> 0 <= d /\ nth_error m (Z.to_nat d) = Some (Some j).
Proof.
  unfold map_get. destruct (znth m d) as [[k|]| | |] eqn:E; try (split; [discriminate|]).
  - apply znth_ok in E. split; [intros H; injection H as <-; auto|]. intros (_ & H). destruct E as (_ & E). congruence.
  - apply znth_ok in E. intros (_ & H). destruct E as (_ & E). congruence.
  - intros (H1 & H2). assert (znth m d = Ok (Some j)) by (apply znth_ok; auto). congruence.
  - intros (H1 & H2). assert (znth m d = Ok (Some j)) by (apply znth_ok; auto). congruence.
  - intros (H1 & H2). assert (znth m d = Ok (Some j)) by (apply znth_ok; auto). congruence.
Qed.

Lemma nth_error_snoc {A} (l : list A) x : nth_error (l ++ [x]) (length l) = Some x.
Proof. rewrite nth_error_app2 by lia. now rewrite Nat.sub_diag. Qed.

Lemma nth_error_snoc_inv {A} (l : list A) x i y :
  nth_error (l ++ [x]) i = Some y -> (i < length l /\ nth_error l i = Some y)%nat \/ (i = length l /\ y = x).
Proof.
  intros H. destruct (Nat.lt_ge_cases i (length l)) as [L|L].
  - left. rewrite nth_error_app1 in H by auto. auto.
  - right. rewrite nth_error_app2 in H by auto.
    destruct (i - length l)%nat as [|k] eqn:K; cbn in H.
    + injection H as <-. split; auto. lia.
    + destruct k; discriminate.
Qed.

Lemma nth_error_Some_lt {A} (l : list A) i x : nth_error l i = Some x -> (i < length l)%nat.
Proof. intros H. apply nth_error_Some. congruence. Qed.

Lemma nth_error_app1' {A} (l l' : list A) i x : nth_error l i = Some x -> nth_error (l ++ l') i = Some x.
Proof. intros H. rewrite nth_error_app1; auto. eapply nth_error_Some_lt; eauto. Qed.

(* fold over a result accumulator whose step is strict in failures *)
Lemma fold_res_fail {S A} (step : result S -> A -> result S) (l : list A) r sN :
  (forall r a s', step r a = Ok s' -> exists s, r = Ok s) ->
  fold_left step l r = Ok sN -> exists s, r = Ok s.
Proof.
  intros Hstrict. revert r. induction l as [|a l IH]; intros r Hf; cbn in Hf.
  - eauto.
  - apply IH in Hf as (s1 & Hs). now apply Hstrict in Hs.
Qed.

Lemma fold_res_inv {S A} (step : result S -> A -> result S) (P : list A -> S -> Prop) (l : list A) s0 sN :
  (forall r a s', step r a = Ok s' -> exists s, r = Ok s) ->
  P [] s0 ->
  (forall pre a post s s', l = pre ++ a :: post -> P pre s -> step (Ok s) a = Ok s' -> P (pre ++ [a]) s') ->
  fold_left step l (Ok s0) = Ok sN -> P l sN.
Proof.
  intros Hstrict H0 Hstep.
  assert (G : forall post pre s, l = pre ++ post -> P pre s -> fold_left step post (Ok s) = Ok sN -> P l sN).
  { induction post as [|a post IH]; intros pre s El Hp Hf.
    - cbn in Hf. injection Hf as <-. rewrite app_nil_r in El. now subst.
    - cbn [fold_left] in Hf.
      destruct (fold_res_fail step post _ _ Hstrict Hf) as (s' & Es).
      rewrite Es in Hf. apply (IH (pre ++ [a]) s'); auto.
      + rewrite <- app_assoc. exact El.
      + eapply Hstep; eauto. }
  intros Hf. eapply (G l [] s0); eauto.
Qed.

(* ------------------------------------------------------------------ boolean equalities decide equality *)
Lemma list_eqb_Z_eq l1 l2 : list_eqb Z.eqb l1 l2 = true -> l1 = l2.
Proof. apply list_eqb_eq. intros x y H. lia. Qed.
Lemma list_eqb_string_eq l1 l2 : list_eqb String.eqb l1 l2 = true -> l1 = l2.
Proof. apply list_eqb_eq. intros x y H. now apply String.eqb_eq. Qed.
Lemma scalar_eqb_true a b : scalar_eqb a b = true -> a = b.
Proof. apply scalar_eqb_eq. Qed.

Lemma ty_eqb_eq a : forall b, ty_eqb a b = true -> a = b.
Proof.
  induction a as [s|sh s|n t IH|ts IH|fs IH] using ty_ind'; intros [s'|sh' s'|n' t'|ts'|fs']; cbn [ty_eqb];
    try discriminate; intros H.
  - f_equal. now apply scalar_eqb_true.
  - apply andb_true_iff in H as (H1 & H2). f_equal; [now apply list_eqb_Z_eq|now apply scalar_eqb_true].
  - apply andb_true_iff in H as (H1 & H2). f_equal; [lia|auto].
  - f_equal. revert ts' H. induction IH as [|x xs Hx _ IHl]; intros [|y ys] H; try discriminate; auto.
    apply andb_true_iff in H as (H1 & H2). f_equal; auto.
  - f_equal. revert fs' H. induction IH as [|x xs Hx _ IHl]; intros [|y ys] H; try discriminate; auto.
    apply andb_true_iff in H as (H1 & H2). apply andb_true_iff in H1 as (H0 & H1).
    f_equal; auto. destruct x, y; cbn in *. f_equal; [now apply String.eqb_eq|auto].
Qed.

Lemma value_eqb_eq a : forall b, value_eqb a b = true -> a = b.
Proof.
  induction a as [es|vs IH] using value_ind'; intros [es'|vs']; cbn [value_eqb]; try discriminate; intros H.
  - f_equal. now apply list_eqb_Z_eq.
  - f_equal. revert vs' H. induction IH as [|x xs Hx _ IHl]; intros [|y ys] H; try discriminate; auto.
    apply andb_true_iff in H as (H1 & H2). f_equal; auto.
Qed.

Lemma annot_eqb_eq a b : annot_eqb a b = true -> a = b.
Proof.
  destruct a, b; cbn; try discriminate; auto. intros H. apply andb_true_iff in H as (H1 & H2). f_equal; lia.
Qed.
Lemma list_eqb_annot_eq l1 l2 : list_eqb annot_eqb l1 l2 = true -> l1 = l2.
Proof. apply list_eqb_eq. apply annot_eqb_eq. Qed.

Lemma option_Z_eqb_eq (a b : option Z) : eqb a b = true -> a = b.
Proof. destruct a, b; cbn; try discriminate; auto. unfold eqb, Eqb_Z. intros; f_equal; lia. Qed.

Lemma slice_elem_eqb_eq a b : slice_elem_eqb a b = true -> a = b.
Proof.
  destruct a, b; cbn; try discriminate; auto.
  - intros; f_equal; lia.
  - intros H. apply andb_true_iff in H as (H1 & H3). apply andb_true_iff in H1 as (H1 & H2).
    f_equal; now apply option_Z_eqb_eq.
Qed.

Lemma join_type_eqb_eq a b : join_type_eqb a b = true -> a = b.
Proof. destruct a, b; cbn; try discriminate; auto. Qed.

Lemma headers_eqb_eq (h h' : list (string * string)) :
  list_eqb (fun p q => String.eqb (fst p) (fst q) && String.eqb (snd p) (snd q)) h h' = true -> h = h'.
Proof.
  apply list_eqb_eq. intros [a b] [c d]; cbn. intros H. apply andb_true_iff in H as (H1 & H2).
  f_equal; now apply String.eqb_eq.
Qed.

Lemma bool_eqb_eq a b : Bool.eqb a b = true -> a = b.
Proof. destruct a, b; cbn; auto; discriminate. Qed.

Lemma op_eqb_eq a b : op_eqb a b = true -> a = b.
Proof.
  destruct a, b; cbn [op_eqb]; try discriminate; try reflexivity; intros H;
    repeat match goal with
           | H : _ && _ = true |- _ => apply andb_true_iff in H; destruct H
           end;
    f_equal;
    first [ now apply ty_eqb_eq | now apply value_eqb_eq | now apply list_eqb_Z_eq
          | now apply list_eqb_string_eq | now apply scalar_eqb_true | now apply String.eqb_eq
          | now apply bool_eqb_eq | now apply join_type_eqb_eq | now apply headers_eqb_eq
          | now apply (list_eqb_eq _ slice_elem_eqb_eq) | lia ].
Qed.

Lemma op_eqb_refl a : op_eqb a a = true.
Proof.
  assert (Ty : forall t, ty_eqb t t = true).
  { induction t as [s|sh s|n t IH|ts IH|fs IH] using ty_ind'; cbn [ty_eqb].
    - now apply scalar_eqb_eq.
    - rewrite list_eqb_refl by (intros; lia). now apply scalar_eqb_eq.
    - rewrite IH. replace (n =? n) with true by lia. reflexivity.
    - induction IH as [|x xs Hx _ IHl]; auto. now rewrite Hx, IHl.
    - induction IH as [|x xs Hx _ IHl]; auto. now rewrite String.eqb_refl, Hx, IHl. }
  assert (Va : forall v, value_eqb v v = true).
  { induction v as [es|vs IH] using value_ind'; cbn [value_eqb].
    - apply list_eqb_refl. intros; lia.
    - induction IH as [|x xs Hx _ IHl]; auto. now rewrite Hx, IHl. }
  assert (Bo : forall b, Bool.eqb b b = true) by (intros []; reflexivity).
  assert (Zl : forall l, list_eqb Z.eqb l l = true) by (intros; apply list_eqb_refl; intros; lia).
  assert (Sl : forall l, list_eqb String.eqb l l = true) by (intros; apply list_eqb_refl; apply String.eqb_refl).
  assert (Oz : forall o : option Z, eqb o o = true) by (intros [z|]; cbn; auto; unfold eqb, Eqb_Z; lia).
  assert (Se : forall l, list_eqb slice_elem_eqb l l = true).
  { intros; apply list_eqb_refl. intros [i|b e s|]; cbn; auto; [lia|]. now rewrite !Oz. }
  assert (He : forall h : list (string * string),
             list_eqb (fun p q => String.eqb (fst p) (fst q) && String.eqb (snd p) (snd q)) h h = true).
  { intros; apply list_eqb_refl. intros [x y]; cbn. now rewrite !String.eqb_refl. }
  assert (Jt : forall j, join_type_eqb j j = true) by (intros []; reflexivity).
  destruct a; cbn [op_eqb]; rewrite ?Ty, ?Va, ?Bo, ?Zl, ?Sl, ?Se, ?He, ?Jt, ?String.eqb_refl; auto;
    try (now apply scalar_eqb_eq); try lia;
    repeat match goal with |- context [?x =? ?x] => replace (x =? x) with true by lia end; auto.
Qed.

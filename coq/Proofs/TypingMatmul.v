(* C09 preservation: Matmul. *)
From CC Require Import Base.Prelude Base.Scalar Base.Ty Base.Shape Graph.Value Graph.IR Graph.Eval
  Graph.Typing Proofs.EvalProofs Proofs.TypingBase Proofs.TypingTuple Proofs.TypingArith
  Proofs.TypingBits Proofs.TypingReduce Proofs.TypingStruct Proofs.TypingDot.

(* the general branch of evaluate_matmul, after the unit dimensions have been inserted *)
Definition matmul_core (st : scalar) (e0 e1 : list Z) (s0' s1' rs : list Z) (rlen : Z) : result value :=
  let l0 := length s0' in let l1 := length s1' in let lr := length rs in
  let* middle := znth s1' (Z.of_nat l1 - 2) in
  if (lr <? l0)%nat || (lr <? l1)%nat then Panic else
  let* res :=
    mapM (fun i =>
            let* ri := number_to_index i rs in
            fold_left (fun acc j =>
                         let* a := acc in
                         let index0 := firstn (l0 - 1) (skipn (lr - l0) ri) ++ [j] in
                         let* index1 := upd (skipn (lr - l1) ri) (Z.of_nat l1 - 2) j in
                         let* n0 := index_to_number index0 s0' in
                         let* n1 := index_to_number index1 s1' in
                         let* x := znth e0 n0 in let* y := znth e1 n1 in
                         Ok (k_add st a (k_mul st x y)))
                      (zrange middle) (Ok 0))
         (zrange rlen) in
  Ok (VArr res).

Lemma matmul_core_typed st e0 e1 s0' s1' rs rlen :
  valid_shape s0' -> valid_shape s1' -> valid_shape rs ->
  (2 <= length s0')%nat -> (2 <= length s1')%nat ->
  (length s0' <= length rs)%nat -> (length s1' <= length rs)%nat ->
  rlen = prod_list rs -> Z.of_nat (length e0) = prod_list s0' -> Z.of_nat (length e1) = prod_list s1' ->
  exists res, matmul_core st e0 e1 s0' s1' rs rlen = Ok (VArr res) /\
              Z.of_nat (length res) = rlen /\ Forall (fun e => 0 <= e < modulus st) res.
Proof.
  intros V0 V1 Vr H0 H1 Hr0 Hr1 -> Le0 Le1. unfold matmul_core.
  set (l0 := length s0') in *. set (l1 := length s1') in *. set (lr := length rs) in *.
  destruct (znth_total s1' (Z.of_nat l1 - 2)) as (middle & -> & _); [fold l1; lia|]. cbn [bind].
  replace ((lr <? l0)%nat || (lr <? l1)%nat) with false.
  2:{ symmetry. apply orb_false_iff. split; apply Nat.ltb_ge; lia. }
  match goal with |- context [mapM ?g (zrange (prod_list rs))] =>
    destruct (mapM_ok g (fun e => 0 <= e < modulus st) (zrange (prod_list rs))) as (res & -> & Lres & Fres) end.
  { intros i Hi. apply zrange_in in Hi.
    destruct (number_to_index_inverse rs i Vr Hi) as (ri & -> & Hin & _). cbn [bind].
    apply in_shape_length in Hin. fold lr in Hin.
    apply dot_fold_ok. intros j acc Hj.
    destruct (upd_ok (fun _ => True) (skipn (lr - l1) ri) (Z.of_nat l1 - 2) j) as (ix1 & -> & Lix1 & _).
    { rewrite skipn_length. lia. }
    cbn [bind].
    destruct (index_to_number_total s0' (firstn (l0 - 1) (skipn (lr - l0) ri) ++ [j]) V0) as (n0 & -> & B0).
    { rewrite app_length, firstn_length, skipn_length. cbn [length]. fold l0. lia. }
    cbn [bind].
    destruct (index_to_number_total s1' ix1 V1) as (n1 & -> & B1).
    { rewrite Lix1, skipn_length. fold l1. lia. }
    cbn [bind].
    destruct (znth_total e0 n0) as (x & -> & _); [lia|]. destruct (znth_total e1 n1) as (y & -> & _); [lia|].
    cbn [bind]. eexists; split; [reflexivity| apply k_add_range]. }
  cbn [bind]. exists res. split; [reflexivity|]. split; [|exact Fres].
  rewrite Lres, zrange_length. pose proof (prod_list_pos _ Vr). lia.
Qed.

Lemma insert_at_valid l i : valid_shape l -> valid_shape (insert_at l i 1).
Proof.
  intros V. unfold insert_at. destruct (valid_shape_split i l V) as [Vf Vs].
  apply Forall_app. split; [exact Vf|]. constructor; [lia| exact Vs].
Qed.
Lemma insert_at_prod l i : prod_list (insert_at l i 1) = prod_list l.
Proof.
  unfold insert_at. rewrite prod_list_app. cbn [prod_list fold_right].
  change (fold_right Z.mul 1 (skipn i l)) with (prod_list (skipn i l)).
  rewrite (prod_list_split i l). ring.
Qed.

Lemma znth_positive sh i x : valid_shape sh -> znth sh i = Ok x -> 0 < x.
Proof. intros V E. apply znth_in in E. unfold valid_shape in V. rewrite Forall_forall in V. auto. Qed.

Lemma preserves_matmul : preserves OMatmul.
Proof.
  intros ts t vs Hu H HF. inv_infer H. apply zlen_eq in Harity.
  destruct (two_deps _ _ Harity HF) as (v0 & t0 & v1 & t1 & -> & -> & [Hv0 Hok0] & [Hv1 Hok1]).
  cbn [nth] in H. cbn [eval_node nth nth_res bind].
  apply bind_ok in H as (r & Er & H). apply register_ok in H as [-> _].
  unfold matmul_type_inference in Er.
  destruct t0 as [|s0 st0| | |]; try discriminate. destruct t1 as [|s1 st1| | |]; try discriminate.
  cbn [is_arr negb st_of shape_of] in Er.
  destruct (scalar_eqb st0 st1) eqn:S; cbn [negb] in Er; [|discriminate]. apply scalar_eqb_eq in S. subst st1.
  destruct (ty_ok_array _ _ Hok0) as [V0 N0]. destruct (ty_ok_array _ _ Hok1) as [V1 N1].
  destruct v0 as [e0|]; [|discriminate]. apply has_type_array in Hv0 as [Le0 _].
  destruct v1 as [e1|]; [|discriminate]. apply has_type_array in Hv1 as [Le1 _].
  unfold zlen in Er.
  assert (E0 : (Z.of_nat (length s0) =? 1) = (length s0 =? 1)%nat) by (destruct (Nat.eqb_spec (length s0) 1); lia).
  assert (E1 : (Z.of_nat (length s1) =? 1) = (length s1 =? 1)%nat) by (destruct (Nat.eqb_spec (length s1) 1); lia).
  rewrite E0, E1 in Er. clear E0 E1.
  remember (length s0 =? 1)%nat as b0 eqn:Hb0. remember (length s1 =? 1)%nat as b1 eqn:Hb1.
  assert (Ls0 : (1 <= length s0)%nat) by (destruct s0; [congruence| cbn; lia]).
  assert (Ls1 : (1 <= length s1)%nat) by (destruct s1; [congruence| cbn; lia]).
  remember (if b0 then 1 :: s0 else s0) as s0i eqn:Ds0. remember (if b1 then s1 ++ [1] else s1) as s1i eqn:Ds1.
  assert (V0i : valid_shape s0i) by (subst s0i; destruct b0; [constructor; [lia| auto]| auto]).
  assert (V1i : valid_shape s1i) by (subst s1i; destruct b1; [apply Forall_app; split; [auto| repeat constructor; lia]| auto]).
  assert (P0i : prod_list s0i = prod_list s0).
  { subst s0i; destruct b0; [cbn [prod_list fold_right]; change (fold_right Z.mul 1 s0) with (prod_list s0); lia| reflexivity]. }
  assert (P1i : prod_list s1i = prod_list s1).
  { subst s1i; destruct b1; [rewrite prod_list_app; cbn; lia| reflexivity]. }
  assert (L0i : length s0i = if b0 then 2%nat else length s0).
  { subst s0i. destruct b0; [symmetry in Hb0; apply Nat.eqb_eq in Hb0; cbn; lia| reflexivity]. }
  assert (L1i : length s1i = if b1 then 2%nat else length s1).
  { subst s1i. destruct b1; [symmetry in Hb1; apply Nat.eqb_eq in Hb1; rewrite app_length; cbn; lia| reflexivity]. }
  assert (L0i2 : (2 <= length s0i)%nat).
  { rewrite L0i. destruct b0; [lia|]. symmetry in Hb0. apply Nat.eqb_neq in Hb0. lia. }
  assert (L1i2 : (2 <= length s1i)%nat).
  { rewrite L1i. destruct b1; [lia|]. symmetry in Hb1. apply Nat.eqb_neq in Hb1. lia. }
  apply bind_ok in Er as (a & Ea & Er). apply bind_ok in Er as (b & Eb & Er).
  destruct (a =? b) eqn:AB; cbn [negb] in Er; [|discriminate].
  destruct ((Z.of_nat (length s0i) <? 2) || (Z.of_nat (length s1i) <? 2)); [discriminate|].
  apply bind_ok in Er as (bs & Ebs & Er).
  apply bind_ok in Er as (r0 & Er0 & Er). apply bind_ok in Er as (c1 & Ec1 & Er).
  destruct (valid_shape_split (length s0i - 2) s0i V0i) as [Vb0 _].
  destruct (valid_shape_split (length s1i - 2) s1i V1i) as [Vb1 _].
  destruct (broadcast_shapes_ok _ _ _ Ebs Vb0 Vb1) as [Lbs Vbs].
  rewrite !firstn_length in Lbs.
  pose proof (znth_positive _ _ _ V0i Er0) as Pr0. pose proof (znth_positive _ _ _ V1i Ec1) as Pc1.
  remember (bs ++ (if b0 then [] else [r0]) ++ (if b1 then [] else [c1])) as dims eqn:Dd.
  assert (Vd : valid_shape dims).
  { subst dims. apply Forall_app. split; [exact Vbs|]. apply Forall_app.
    split; [destruct b0; repeat constructor; lia| destruct b1; repeat constructor; lia]. }
  assert (Ld : length dims = (length bs + (if b0 then 0 else 1) + (if b1 then 0 else 1))%nat).
  { subst dims. rewrite !app_length. destruct b0, b1; cbn; lia. }
  unfold eval_matmul. cbn [is_arr andb negb st_of shape_of arr_of bind]. rewrite <- Hb0, <- Hb1.
  destruct (b0 && b1) eqn:BB.
  - (* vector x vector *)
    apply andb_true_iff in BB as [-> ->].
    symmetry in Hb0, Hb1. apply Nat.eqb_eq in Hb0, Hb1.
    destruct s0 as [|a' [|? ?]]; cbn in Hb0; try lia. destruct s1 as [|b' [|? ?]]; cbn in Hb1; try lia.
    subst s0i s1i. cbn in Lbs. destruct bs; [|cbn in Lbs; lia]. subst dims. cbn [app] in Er.
    inversion Er; subst r. clear Er.
    cbn in Ea, Eb. inversion Ea; inversion Eb; subst a b. assert (b' = a') by lia. subst b'.
    cbn [prod_list fold_right hd] in *.
    destruct (dot_fold_ok st0 (fun acc i => let* x := znth e0 i in let* y := znth e1 i in
                                           Ok (k_add st0 acc (k_mul st0 x y))) (zrange a')) as (acc & -> & Racc).
    { intros j acc Hj. apply zrange_in in Hj.
      destruct (znth_total e0 j) as (x & -> & _); [lia|]. destruct (znth_total e1 j) as (y & -> & _); [lia|].
      cbn [bind]. eexists; split; [reflexivity| apply k_add_range]. }
    cbn [bind safe_typed]. apply has_type_scalar. split; [reflexivity| repeat constructor; lia].
  - (* general case *)
    assert (Nd : dims <> []).
    { intros E. rewrite E in Ld. cbn in Ld. destruct b0, b1; cbn in *; try discriminate; lia. }
    assert (Er' : r = TArray dims st0) by (destruct dims; [congruence| inversion Er; reflexivity]).
    subst r. clear Er. cbn [shape_of is_scalar].
    set (s0' := if b0 then 1 :: s0 else s0).
    set (s1' := if b1 then insert_at s1 1 1 else s1).
    set (rs1 := if b0 then insert_at dims (length dims - 1) 1 else dims).
    set (rs := if b1 then rs1 ++ [1] else rs1).
    match goal with |- safe_typed ?x _ =>
      assert (Ecore : x = matmul_core st0 e0 e1 s0' s1' rs (prod_list dims)) end.
    { unfold matmul_core, s0', s1', rs, rs1. destruct b0, b1; reflexivity. }
    rewrite Ecore. clear Ecore.
    assert (Vs1' : valid_shape s1') by (unfold s1'; destruct b1; [now apply insert_at_valid| auto]).
    assert (Ls1' : length s1' = length s1i).
    { unfold s1'. subst s1i. destruct b1; [rewrite insert_at_length, app_length; cbn; lia| reflexivity]. }
    assert (Ps1' : prod_list s1' = prod_list s1) by (unfold s1'; destruct b1; [apply insert_at_prod| reflexivity]).
    assert (Vrs : valid_shape rs).
    { unfold rs, rs1. destruct b1; [apply Forall_app; split; [|repeat constructor; lia]|];
        (destruct b0; [now apply insert_at_valid| auto]). }
    assert (Prs : prod_list rs = prod_list dims).
    { unfold rs, rs1. destruct b1; [rewrite prod_list_app; cbn [prod_list fold_right]|];
        (destruct b0; [rewrite insert_at_prod|]); lia. }
    assert (Lrs : length rs = (length bs + 2)%nat).
    { unfold rs, rs1. destruct b1; [rewrite app_length; cbn [length]|];
        (destruct b0; [rewrite insert_at_length|]); rewrite Ld; cbn; lia. }
    subst s0i. fold s0' in V0i, P0i, L0i, L0i2, Lbs, Vb0.
    assert (A1 : (2 <= length s1')%nat) by lia.
    assert (A2 : (length s0' <= length rs)%nat) by lia.
    assert (A3 : (length s1' <= length rs)%nat) by lia.
    assert (A4 : Z.of_nat (length e0) = prod_list s0') by lia.
    assert (A5 : Z.of_nat (length e1) = prod_list s1') by lia.
    destruct (matmul_core_typed st0 e0 e1 s0' s1' rs (prod_list dims) V0i Vs1' Vrs L0i2 A1 A2 A3 (eq_sym Prs) A4 A5)
      as (res & -> & Lres & Fres).
    cbn [safe_typed]. apply has_type_array. auto.
Qed.

(* C09 preservation: broadcasting (broadcast_to_shape never panics and returns prod(result
   shape) elements) and the element-wise operations Add / Subtract / Multiply / MixedMultiply;
   Truncate. *)
From CC Require Import Base.Prelude Base.Scalar Base.Ty Base.Shape Graph.Value Graph.IR Graph.Eval
  Graph.Typing Proofs.EvalProofs Proofs.TypingBase.

(* index_to_number reduces every coordinate modulo its dimension: it is total on indices that are
   long enough and lands inside the array *)
Lemma index_to_number_aux_total sh : valid_shape sh -> forall idx acc,
  (length sh <= length idx)%nat -> 0 <= acc ->
  exists n, index_to_number_aux acc idx sh = Ok n /\
            acc * prod_list sh <= n < (acc + 1) * prod_list sh.
Proof.
  induction 1 as [|d sh Hd Hv IH]; intros idx acc L Ha; cbn [index_to_number_aux prod_list fold_right].
  - exists acc. split; [destruct idx; reflexivity| lia].
  - change (fold_right Z.mul 1 sh) with (prod_list sh).
    destruct idx as [|x idx]; cbn [length] in L; [lia|]. cbn [index_to_number_aux].
    replace (d =? 0) with false by lia.
    pose proof (Z.mod_pos_bound x d Hd) as Hm.
    destruct (IH idx (acc * d + x mod d)) as (n & E & B); [lia| nia|].
    exists n. split; [exact E|]. pose proof (prod_list_pos sh Hv). nia.
Qed.

Lemma index_to_number_total sh idx : valid_shape sh -> (length sh <= length idx)%nat ->
  exists n, index_to_number idx sh = Ok n /\ 0 <= n < prod_list sh.
Proof.
  intros Hv L. destruct (index_to_number_aux_total sh Hv idx 0 L) as (n & E & B); [lia|].
  exists n. split; [exact E| lia].
Qed.

Lemma in_shape_length idx sh : in_shape idx sh -> length idx = length sh.
Proof. induction 1; cbn; auto. Qed.

Lemma nth_res_in {A} (l : list A) i a : nth_res l i = Ok a -> In a l.
Proof.
  revert i; induction l as [|x l IH]; intros i E; cbn in *; destruct i; try discriminate.
  - inversion E. now left.
  - right. eauto.
Qed.
Lemma znth_in {A} (l : list A) i a : znth l i = Ok a -> In a l.
Proof. unfold znth. destruct (i <? 0); [discriminate|]. apply nth_res_in. Qed.
Lemma znth_total {A} (l : list A) i : 0 <= i < Z.of_nat (length l) -> exists a, znth l i = Ok a /\ In a l.
Proof.
  intros H. unfold znth. replace (i <? 0) with false by lia.
  assert (Hn : (Z.to_nat i < length l)%nat) by lia. clear H. revert Hn. generalize (Z.to_nat i) as k.
  induction l as [|x l IH]; intros k Hk; cbn in *; [lia|]. destruct k.
  - eexists; split; eauto.
  - destruct (IH k) as (a & E & I); [lia|]. eauto.
Qed.

Lemma broadcast_to_shape_ok (P : Z -> Prop) arr shape shape_res :
  valid_shape shape -> valid_shape shape_res -> (length shape <= length shape_res)%nat ->
  Z.of_nat (length arr) = prod_list shape -> Forall P arr ->
  exists r, broadcast_to_shape arr shape shape_res = Ok r /\
            Z.of_nat (length r) = prod_list shape_res /\ Forall P r.
Proof.
  intros Hv Hr L La Fa. unfold broadcast_to_shape.
  replace (length shape_res <? length shape)%nat with false by lia.
  match goal with |- context [mapM ?f ?l] => destruct (mapM_ok f P l) as (ys & E & Ly & Fy) end.
  - intros i Hi. apply zrange_in in Hi.
    destruct (number_to_index_inverse shape_res i Hr Hi) as (iv & -> & Hin & _). cbn [bind].
    apply in_shape_length in Hin.
    destruct (index_to_number_total shape (skipn (length shape_res - length shape) iv) Hv) as (n & -> & Bn).
    { rewrite skipn_length. lia. }
    cbn [bind]. destruct (znth_total arr n) as (a & -> & Ia); [lia|].
    eexists; split; [reflexivity|]. rewrite Forall_forall in Fa. auto.
  - exists ys. split; [exact E|]. split; [|exact Fy].
    rewrite Ly, zrange_length. pose proof (prod_list_pos _ Hr). lia.
Qed.

Lemma zip_with_length {A B C} (f : A -> B -> C) l1 l2 :
  length l1 = length l2 -> length (zip_with f l1 l2) = length l1.
Proof. revert l2; induction l1 as [|a l1 IH]; intros [|b l2] L; cbn in *; try lia; auto. Qed.
Lemma zip_with_forall {A B C} (f : A -> B -> C) (P : C -> Prop) l1 l2 :
  (forall a b, P (f a b)) -> Forall P (zip_with f l1 l2).
Proof. intros H. revert l2; induction l1 as [|a l1 IH]; intros [|b l2]; cbn; constructor; auto. Qed.

Lemma k_add_range st a b : 0 <= k_add st a b < modulus st.
Proof. rewrite k_add_mod. apply Z.mod_pos_bound, modulus_pos. Qed.
Lemma k_sub_range st a b : 0 <= k_sub st a b < modulus st.
Proof. rewrite k_sub_mod. apply Z.mod_pos_bound, modulus_pos. Qed.
Lemma k_mul_range st a b : 0 <= k_mul st a b < modulus st.
Proof. rewrite k_mul_mod. apply Z.mod_pos_bound, modulus_pos. Qed.

(* the shared body of evaluate_add_subtract_multiply / evaluate_mixed_multiply *)
Lemma broadcast_zip_typed (k : Z -> Z -> Z) st t0 t1 tr v0 v1 :
  (forall a b, 0 <= k a b < modulus st) ->
  is_leaf t0 = true -> is_leaf t1 = true -> is_leaf tr = true ->
  valid_shape (dims t0) -> valid_shape (dims t1) -> valid_shape (dims tr) ->
  (length (dims t0) <= length (dims tr))%nat -> (length (dims t1) <= length (dims tr))%nat ->
  st_of tr = st -> ht v0 t0 -> ht v1 t1 ->
  safe_typed (let* a := arr_of v0 in let* b := arr_of v1 in
              let* a' := broadcast_to_shape a (dims t0) (dims tr) in
              let* b' := broadcast_to_shape b (dims t1) (dims tr) in
              Ok (VArr (zip_with k a' b'))) tr.
Proof.
  intros Hk L0 L1 Lr V0 V1 Vr N0 N1 Hst H0 H1.
  destruct (has_type_leaf v0 t0 L0 H0) as (e0 & -> & Le0 & _).
  destruct (has_type_leaf v1 t1 L1 H1) as (e1 & -> & Le1 & _).
  cbn [arr_of bind].
  destruct (broadcast_to_shape_ok (fun _ => True) e0 (dims t0) (dims tr) V0 Vr N0 Le0) as (a' & -> & La & _).
  { apply Forall_forall; auto. }
  destruct (broadcast_to_shape_ok (fun _ => True) e1 (dims t1) (dims tr) V1 Vr N1 Le1) as (b' & -> & Lb & _).
  { apply Forall_forall; auto. }
  cbn [bind safe_typed]. apply leaf_has_type; auto.
  - rewrite zip_with_length; lia.
  - rewrite Hst. apply zip_with_forall. exact Hk.
Qed.

(* ------------------------------------------------------------------ broadcast_shapes *)
Lemma mapM_Forall2 {A B} (f : A -> result B) l ys : mapM f l = Ok ys -> Forall2 (fun x y => f x = Ok y) l ys.
Proof.
  revert ys; induction l as [|x l IH]; intros ys E; cbn [mapM] in E.
  - inversion E. constructor.
  - apply bind_ok in E as (y & Ey & E). apply bind_ok in E as (ys' & Eys & E). inversion E; subst.
    constructor; auto.
Qed.

Lemma valid_shape_pad n sh : valid_shape sh -> valid_shape (repeat 1 n ++ sh).
Proof. intros H. apply Forall_app. split; [|exact H]. apply Forall_forall. intros x Hx. apply repeat_spec in Hx. lia. Qed.

Lemma combine_pos p1 : valid_shape p1 -> forall p2, valid_shape p2 ->
  Forall (fun p => 0 < fst p /\ 0 < snd p) (combine p1 p2).
Proof.
  induction 1 as [|a p1 Ha _ IH]; intros p2 Vp2; cbn; [constructor|].
  destruct Vp2 as [|b p2 Hb Vp2]; constructor; [cbn; split; assumption| apply IH; assumption].
Qed.

Lemma broadcast_shapes_ok s1 s2 s : broadcast_shapes s1 s2 = Ok s ->
  valid_shape s1 -> valid_shape s2 ->
  length s = Nat.max (length s1) (length s2) /\ valid_shape s.
Proof.
  unfold broadcast_shapes. intros E V1 V2. apply mapM_Forall2 in E.
  set (l := Nat.max (length s1) (length s2)) in *.
  set (p1 := repeat 1 (l - length s1) ++ s1) in *. set (p2 := repeat 1 (l - length s2) ++ s2) in *.
  assert (Lp1 : length p1 = l) by (unfold p1; rewrite app_length, repeat_length; lia).
  assert (Lp2 : length p2 = l) by (unfold p2; rewrite app_length, repeat_length; lia).
  assert (Vp1 : valid_shape p1) by (apply valid_shape_pad; auto).
  assert (Vp2 : valid_shape p2) by (apply valid_shape_pad; auto).
  split.
  -     assert (length (combine p1 p2) = length s) by (clear - E; induction E; cbn; auto).
    rewrite combine_length in H. lia.
  - clear Lp1 Lp2. revert E.
    assert (Hc : Forall (fun p => 0 < fst p /\ 0 < snd p) (combine p1 p2)).
    { apply combine_pos; assumption. }
    intros E. induction E as [|[a b] y l' ys Hy _ IH]; [constructor|].
    inversion Hc as [|? ? [Ha Hb] Hc']; subst. cbn in Ha, Hb. constructor; [|apply IH; assumption].
    destruct ((1 <? a) && (1 <? b) && negb (a =? b)); [discriminate|]. inversion Hy. lia.
Qed.

(* ------------------------------------------------------------------ Add / Subtract / Multiply *)
Lemma broadcast_pair_inv t0 t1 t :
  is_leaf t0 = true -> is_leaf t1 = true -> ty_ok t0 = true -> ty_ok t1 = true ->
  broadcast_pair t0 t1 = Ok t ->
  is_leaf t = true /\ valid_shape (dims t) /\
  (length (dims t0) <= length (dims t))%nat /\ (length (dims t1) <= length (dims t))%nat /\
  st_of t = (match t0, t1 with TScalar _, TArray _ s => s | _, _ => st_of t0 end).
Proof.
  intros L0 L1 K0 K1 H. unfold broadcast_pair in H.
  destruct (scalar_eqb (st_of t0) (st_of t1)) eqn:S; cbn [negb] in H; [|discriminate].
  apply scalar_eqb_eq in S.
  destruct (dims_valid t0 L0 K0) as [V0 N0]. destruct (dims_valid t1 L1 K1) as [V1 N1].
  destruct t0 as [s0|sh0 s0| | |]; try discriminate; destruct t1 as [s1|sh1 s1| | |]; try discriminate;
    cbn [is_scalar st_of shape_of dims] in *.
  - inversion H; subst. cbn. repeat split; auto.
  - inversion H; subst. cbn [is_leaf dims st_of]. repeat split; auto.
    destruct sh1; [congruence| cbn; lia].
  - inversion H; subst. cbn [is_leaf dims st_of]. repeat split; auto.
    destruct sh0; [congruence| cbn; lia].
  - apply bind_ok in H as (s & Es & H). inversion H; subst. cbn [is_leaf dims st_of].
    destruct (broadcast_shapes_ok _ _ _ Es V0 V1) as [Ls Vs]. repeat split; auto; lia.
Qed.

Lemma broadcastable_leaf t : broadcastable t = true -> is_leaf t = true.
Proof. destruct t; cbn; auto; discriminate. Qed.

Lemma infer_arith_inv ts t vs :
  Z.of_nat (length ts) = 2 ->
  (let* r := broadcast_arrays [nth 0 ts (TTuple []); nth 1 ts (TTuple [])] in register r) = Ok t ->
  Forall2 wt vs ts ->
  exists v0 t0 v1 t1, vs = [v0; v1] /\ ts = [t0; t1] /\ ht v0 t0 /\ ht v1 t1 /\
    is_leaf t0 = true /\ is_leaf t1 = true /\ is_leaf t = true /\
    valid_shape (dims t0) /\ valid_shape (dims t1) /\ valid_shape (dims t) /\
    (length (dims t0) <= length (dims t))%nat /\ (length (dims t1) <= length (dims t))%nat /\
    st_of t = (match t0, t1 with TScalar _, TArray _ s => s | _, _ => st_of t0 end).
Proof.
  intros L H HF.
  destruct (two_deps _ _ L HF) as (v0 & t0 & v1 & t1 & -> & -> & [Hv0 Hok0] & [Hv1 Hok1]).
  cbn [nth] in H. apply bind_ok in H as (r & Er & H). apply register_ok in H as [-> _].
  unfold broadcast_arrays in Er.
  destruct (forallb broadcastable [t0; t1]) eqn:B; cbn [negb] in Er; [|discriminate].
  cbn [forallb] in B. btrue.
  cbn [fold_left bind] in Er.
  pose proof (broadcastable_leaf _ H) as L0. pose proof (broadcastable_leaf _ H0) as L1.
  destruct (broadcast_pair_inv _ _ _ L0 L1 Hok0 Hok1 Er) as (Lt & Vt & N0 & N1 & St).
  destruct (dims_valid t0 L0 Hok0) as [V0 _]. destruct (dims_valid t1 L1 Hok1) as [V1 _].
  do 4 eexists. repeat split; eauto.
Qed.

Lemma eval_arith_typed (k : scalar -> Z -> Z -> Z) ts t vs :
  (forall st a b, 0 <= k st a b < modulus st) ->
  Z.of_nat (length ts) = 2 ->
  (let* r := broadcast_arrays [nth 0 ts (TTuple []); nth 1 ts (TTuple [])] in register r) = Ok t ->
  Forall2 wt vs ts ->
  safe_typed (let* a := nth_res vs 0 in let* b := nth_res vs 1 in
              eval_arith k (nth 0 ts (TTuple [])) (nth 1 ts (TTuple [])) t a b) t.
Proof.
  intros Hk L H HF.
  destruct (infer_arith_inv _ _ _ L H HF) as
    (v0 & t0 & v1 & t1 & -> & -> & H0 & H1 & L0 & L1 & Lt & V0 & V1 & Vt & N0 & N1 & St).
  cbn [nth nth_res bind]. unfold eval_arith. rewrite L0, L1. cbn [andb negb]. cbv zeta.
  apply (broadcast_zip_typed (k _) (match t0, t1 with TScalar _, TArray _ s => s | _, _ => st_of t0 end)); auto.
Qed.

Lemma preserves_add : preserves OAdd.
Proof.
  intros ts t vs Hu H HF. inv_infer H. apply zlen_eq in Harity. cbn [eval_node].
  apply eval_arith_typed; auto. apply k_add_range.
Qed.
Lemma preserves_subtract : preserves OSubtract.
Proof.
  intros ts t vs Hu H HF. inv_infer H. apply zlen_eq in Harity. cbn [eval_node].
  apply eval_arith_typed; auto. apply k_sub_range.
Qed.
Lemma preserves_multiply : preserves OMultiply.
Proof.
  intros ts t vs Hu H HF. inv_infer H. apply zlen_eq in Harity. cbn [eval_node].
  apply eval_arith_typed; auto. apply k_mul_range.
Qed.

(* ------------------------------------------------------------------ MixedMultiply *)
Lemma preserves_mixed_multiply : preserves OMixedMultiply.
Proof.
  intros ts t vs Hu H HF. inv_infer H. apply zlen_eq in Harity.
  destruct (two_deps _ _ Harity HF) as (v0 & t0 & v1 & t1 & -> & -> & [Hv0 Hok0] & [Hv1 Hok1]).
  cbn [nth] in H. cbn [eval_node nth nth_res bind].
  apply bind_ok in H as (r & Er & H). apply register_ok in H as [-> _].
  unfold mixed_multiply_inference in Er.
  destruct (is_leaf t0) eqn:L0; cbn [negb] in Er; [|discriminate].
  destruct (is_leaf t1) eqn:L1; cbn [negb] in Er; [|discriminate].
  destruct (scalar_eqb (st_of t0) Bit); [discriminate|].
  destruct (scalar_eqb (st_of t1) Bit); cbn [negb] in Er; [|discriminate].
  destruct (dims_valid t0 L0 Hok0) as [V0 N0]. destruct (dims_valid t1 L1 Hok1) as [V1 N1].
  unfold eval_mixed. rewrite L0, L1. cbn [andb negb].
  destruct t0 as [s0|sh0 s0| | |]; try discriminate; destruct t1 as [s1|sh1 s1| | |]; try discriminate;
    cbn [is_scalar st_of shape_of dims] in *.
  - inversion Er; subst. cbv zeta. apply (broadcast_zip_typed (k_mul s0) s0 (TScalar s0) (TScalar s1) (TScalar s0)); cbn [is_leaf dims st_of]; auto.
    intros; apply k_mul_range.
  - inversion Er; subst. cbv zeta. apply (broadcast_zip_typed (k_mul s0) s0 (TScalar s0) (TArray sh1 s1) (TArray sh1 s0)); cbn [is_leaf dims st_of]; auto.
    + intros; apply k_mul_range.
    + destruct sh1; [congruence| cbn; lia].
  - inversion Er; subst. cbv zeta. apply (broadcast_zip_typed (k_mul s0) s0 (TArray sh0 s0) (TScalar s1) (TArray sh0 s0)); cbn [is_leaf dims st_of]; auto.
    + intros; apply k_mul_range.
    + destruct sh0; [congruence| cbn; lia].
  - apply bind_ok in Er as (s & Es & Er). inversion Er; subst.
    destruct (broadcast_shapes_ok _ _ _ Es V0 V1) as [Ls Vs].
    cbv zeta. apply (broadcast_zip_typed (k_mul s0) s0 (TArray sh0 s0) (TArray sh1 s1) (TArray s s0)); cbn [is_leaf dims st_of]; auto; try lia.
    intros; apply k_mul_range.
Qed.

(* ------------------------------------------------------------------ Truncate *)
Lemma preserves_truncate d : preserves (OTruncate d).
Proof.
  intros ts t vs Hu H HF. inv_infer H. apply zlen_eq in Harity. cbn [op_u64] in Hu.
  destruct (one_dep _ _ Harity HF) as (v & t0 & -> & -> & Hv & Hok).
  cbn [nth] in H. cbn [eval_node nth nth_res bind].
  destruct (d =? 0) eqn:D; [discriminate|].
  destruct (is_leaf t0) eqn:L0; cbn [negb] in H; [|discriminate].
  destruct (signed (st_of t0) && (2 ^ 127 - 1 <? d)); [discriminate|].
  apply register_ok in H as [-> _].
  destruct (has_type_leaf v t0 L0 Hv) as (es & -> & Le & Fe). cbn [arr_of bind negb safe_typed].
  apply leaf_has_type; auto.
  - now rewrite map_length.
  - apply Forall_forall. intros y Hy. apply in_map_iff in Hy as (x & <- & Hx).
    rewrite Forall_forall in Fe. rewrite truncate_elem_spec by (auto; lia).
    apply Z.mod_pos_bound, modulus_pos.
Qed.

(* C09 preservation: Sum and CumSum. *)
From CC Require Import Base.Prelude Base.Scalar Base.Ty Base.Shape Graph.Value Graph.IR Graph.Eval
  Graph.Typing Proofs.EvalProofs Proofs.TypingBase Proofs.TypingTuple Proofs.TypingArith.

Lemma upd_nat_ok {A} (P : A -> Prop) (l : list A) i v : (i < length l)%nat ->
  exists l', upd_nat l i v = Ok l' /\ length l' = length l /\ (Forall P l -> P v -> Forall P l').
Proof.
  revert i; induction l as [|x l IH]; intros i Hi; cbn [length] in Hi; [lia|].
  destruct i as [|i]; cbn [upd_nat].
  - eexists; split; [reflexivity|]. split; [reflexivity|]. intros F Pv. inversion F; subst. constructor; auto.
  - destruct (IH i) as (l' & -> & L & F'); [lia|]. cbn [bind]. eexists; split; [reflexivity|].
    cbn [length]. split; [lia|]. intros F Pv. inversion F; subst. constructor; auto.
Qed.
Lemma upd_ok {A} (P : A -> Prop) (l : list A) i v : 0 <= i < Z.of_nat (length l) ->
  exists l', upd l i v = Ok l' /\ length l' = length l /\ (Forall P l -> P v -> Forall P l').
Proof. intros H. unfold upd. replace (i <? 0) with false by lia. apply upd_nat_ok. lia. Qed.

(* invariant-carrying fold over a result accumulator *)
Lemma fold_res_inv {A X} (f : result A -> X -> result A) (Inv : A -> Prop) l :
  (forall x acc, In x l -> Inv acc -> exists acc', f (Ok acc) x = Ok acc' /\ Inv acc') ->
  forall a, Inv a -> exists r, fold_left f l (Ok a) = Ok r /\ Inv r.
Proof.
  induction l as [|x l IH]; intros H a Ha; cbn [fold_left].
  - eauto.
  - destruct (H x a (or_introl eq_refl) Ha) as (a' & -> & Ha').
    apply IH; auto. intros y acc Hy. apply H. now right.
Qed.

Lemma fold_left_range (f : Z -> Z -> Z) (P : Z -> Prop) l a :
  (forall x y, P (f x y)) -> P a -> P (fold_left f l a).
Proof. intros Hf. revert a; induction l as [|x l IH]; intros a Ha; cbn; auto. Qed.

Lemma filter_combine_length {A B} (f : A -> bool) (a : list A) (b : list B) :
  length a = length b ->
  length (filter (fun p => f (fst p)) (combine a b)) = length (filter f a).
Proof.
  revert b; induction a as [|x a IH]; intros [|y b] L; cbn in *; try lia; auto.
  destruct (f x); cbn; rewrite IH by lia; reflexivity.
Qed.

Lemma filter_all {A} (f : A -> bool) l : (forall x, f x = true) -> filter f l = l.
Proof. intros H. induction l as [|x l IH]; cbn; [reflexivity|]. now rewrite H, IH. Qed.

Lemma zero_in_range st : 0 <= 0 < modulus st.
Proof. pose proof (modulus_pos st). lia. Qed.

Lemma preserves_sum axes : preserves (OSum axes).
Proof.
  intros ts t vs Hu H HF. inv_infer H. apply zlen_eq in Harity. cbn [op_u64] in Hu.
  destruct (one_dep _ _ Harity HF) as (v & t0 & -> & -> & Hv & Hok).
  cbn [nth] in H. cbn [eval_node nth nth_res bind].
  destruct t0 as [|os st0| | |]; try discriminate. cbn [is_arr negb shape_of st_of] in H.
  destruct (nodup_z axes); cbn [negb] in H; [|discriminate].
  destruct (forallb (fun x => x <? zlen os) axes) eqn:Ax; cbn [negb] in H; [|discriminate].
  destruct v as [es|]; [|discriminate]. apply has_type_array in Hv as [Le Fe].
  destruct (ty_ok_array _ _ Hok) as [Vos Nos].
  unfold eval_sum. cbn [arr_of bind is_arr negb shape_of].
  remember (map snd (filter (fun p => negb (existsb (Z.eqb (fst p)) axes)) (combine (zrange (zlen os)) os))) as rs eqn:Drs.
  assert (Lz : length (zrange (zlen os)) = length os) by (rewrite zrange_length; unfold zlen; lia).
  assert (Vrs : valid_shape rs).
  { subst rs. apply Forall_forall. intros d Hd. apply in_map_iff in Hd as ([j d'] & <- & Hd). apply filter_In in Hd as [Hd _].
    apply in_combine_r in Hd. unfold valid_shape in Vos. rewrite Forall_forall in Vos. auto. }
  destruct rs as [|r0 rs'] eqn:Ers; apply register_ok in H as [-> _].
  - (* every axis summed: a scalar *)
    cbn [safe_typed]. apply has_type_scalar. split; [reflexivity|]. constructor; [|constructor].
    apply fold_left_range; [intros; apply k_add_range| apply zero_in_range].
  - rewrite <- Ers in *. clear Ers r0 rs'.
    destruct axes as [|a0 axes'] eqn:Eax.
    + (* no axis: the operand itself, and the inferred shape is the operand's *)
      cbn [safe_typed]. apply has_type_array.
      assert (rs = os) as ->.
      { subst rs. rewrite filter_all by (intros; reflexivity). now apply map_snd_combine. }
      auto.
    + rewrite <- Eax in *. clear Eax.
      set (res_axes := filter (fun j => negb (existsb (Z.eqb j) axes)) (zrange (Z.of_nat (length os)))).
      assert (Lra : length rs = length res_axes).
      { subst rs. unfold res_axes. rewrite map_length.
        rewrite (filter_combine_length (fun j => negb (existsb (Z.eqb j) axes))) by exact Lz. reflexivity. }
      pose proof (prod_list_pos rs Vrs) as Prs.
      match goal with |- context [fold_left ?ff ?ll (Ok ?aa)] =>
        destruct (fold_res_inv ff (fun r => length r = Z.to_nat (prod_list rs) /\
                                          Forall (fun e => 0 <= e < modulus st0) r) ll) with (a := aa)
          as (r & -> & Lr & Fr)
      end.
      * intros i acc Hi [La Fa]. apply zrange_in in Hi. cbn [bind].
        destruct (number_to_index_inverse os i Vos) as (idx & -> & Hin & _); [lia|]. cbn [bind].
        apply in_shape_length in Hin.
        match goal with |- context [mapM ?g res_axes] =>
          destruct (mapM_ok g (fun _ => True) res_axes) as (ni & -> & Lni & _) end.
        { intros ax Hax. apply filter_In in Hax as [Hax _]. apply zrange_in in Hax.
          destruct (znth_total idx ax) as (y & -> & _); [lia|]. eauto. }
        cbn [bind].
        destruct (index_to_number_total rs ni Vrs) as (n & -> & Bn); [lia|]. cbn [bind].
        destruct (znth_total acc n) as (old & -> & _); [lia|]. cbn [bind].
        destruct (znth_total es i) as (x & -> & _); [lia|]. cbn [bind].
        destruct (upd_ok (fun e => 0 <= e < modulus st0) acc n (k_add st0 old x)) as (acc' & -> & L' & F'); [lia|].
        eexists; split; [reflexivity|]. split; [lia|]. apply F'; auto. apply k_add_range.
      * split; [apply repeat_length|]. apply Forall_forall. intros e He. apply repeat_spec in He. subst.
        apply zero_in_range.
      * cbn [bind safe_typed]. apply has_type_array. split; [lia| exact Fr].
Qed.

Lemma preserves_cum_sum axis : preserves (OCumSum axis).
Proof.
  intros ts t vs Hu H HF. inv_infer H. apply zlen_eq in Harity. cbn [op_u64] in Hu.
  destruct (one_dep _ _ Harity HF) as (v & t0 & -> & -> & Hv & Hok).
  cbn [nth] in H. cbn [eval_node nth nth_res bind].
  destruct t0 as [|sh st0| | |]; try discriminate. cbn [is_arr negb shape_of] in H.
  destruct (zlen sh <=? axis) eqn:Ax; [discriminate|]. apply register_ok in H as [-> _].
  destruct v as [es|]; [|discriminate]. apply has_type_array in Hv as [Le Fe].
  destruct (ty_ok_array _ _ Hok) as [Vsh _].
  unfold eval_cum_sum. cbn [arr_of bind]. unfold zlen in Ax.
  match goal with |- context [fold_left ?ff ?ll (Ok ?aa)] =>
    destruct (fold_res_inv ff (fun r => length r = length es /\
                                      Forall (fun e => 0 <= e < modulus st0) r) ll) with (a := aa)
      as (r & -> & Lr & Fr)
  end.
  - intros i acc Hi [La Fa]. apply zrange_in in Hi. cbn [bind].
    destruct (number_to_index_inverse sh i Vsh) as (idx & -> & Hin & _); [lia|]. cbn [bind].
    apply in_shape_length in Hin.
    destruct (znth_total idx axis) as (a & -> & _); [lia|]. cbn [bind].
    destruct (0 <? a); [|eexists; split; [reflexivity| auto]].
    destruct (upd_ok (fun _ => True) idx axis (a - 1)) as (idx' & -> & Li' & _); [lia|]. cbn [bind].
    destruct (index_to_number_total sh idx' Vsh) as (j & -> & Bj); [lia|]. cbn [bind].
    destruct (znth_total acc i) as (oi & -> & _); [lia|]. cbn [bind].
    destruct (znth_total acc j) as (oj & -> & _); [lia|]. cbn [bind].
    destruct (upd_ok (fun e => 0 <= e < modulus st0) acc i (k_add st0 oi oj)) as (acc' & -> & L' & F'); [lia|].
    eexists; split; [reflexivity|]. split; [lia|]. apply F'; auto. apply k_add_range.
  - auto.
  - cbn [bind safe_typed]. apply has_type_array. split; [lia| exact Fr].
Qed.

(* C06 / C04: statements about the optimizer pass models at the level of eval_graph_nodes,
   their composition (optimize_graph), and the freshness predicates. *)
From CC Require Import Base.Prelude Base.Scalar Base.Ty Base.Shape Graph.Value Graph.IR Graph.Eval
  Model.Opt Model.Uniquify Proofs.UniquifyProofs Proofs.OptBase Proofs.OptSem Proofs.OptSim Proofs.OptFresh Proofs.OptDangling
  Proofs.OptDup Proofs.OptConst Proofs.OptMeta Proofs.OptMetaSem Proofs.OptPipe.

(* ------------------------------------------------------------------ hypothesis-free invariants
   of the duplicate and constant passes: map length, input nodes, fresh nodes *)
Section Basic.
  Variable o : option Z.

  Definition dup_basic (pre : list node) (st : dup_state * Z) : Prop :=
    let '(s, i) := st in
    length (ds_map s) = length pre /\ input_sigs (ds_out s) = input_sigs pre /\
    fresh_spec pre (ds_out s) (ds_map s).

  Lemma dup_basic_inv nodes sN :
    fold_left (opt_dup_step o) nodes (Ok (mkDS [] [] [] None, 0)) = Ok sN -> dup_basic nodes sN.
  Proof.
    apply (fold_res_inv (opt_dup_step o) dup_basic).
    - apply opt_dup_step_strict.
    - cbn. splits; auto using fresh_spec_nil.
    - intros pre a post [s i] [s' i'] El (I1 & I2 & I3) St.
      apply opt_dup_step_inv in St as (-> & deps & key & j & Ed & Ek & Em & Es & Eo & Hcase).
      cbn [dup_basic]. rewrite Em, !app_length; cbn [length].
      destruct Hcase as [(k & -> & Ef & Eout)|(-> & Eout)]; rewrite Eout.
      + apply node_key_some in Ek as (_ & Ki & Kf). splits; try lia.
        * rewrite input_sigs_app, I2. unfold input_sigs at 3. cbn [filter]. rewrite Ki. cbn. now rewrite app_nil_r.
        * rewrite <- (app_nil_r (ds_out s)). apply fresh_spec_step_other; auto.
      + splits; try lia.
        * rewrite !input_sigs_app, I2. f_equal. unfold input_sigs. cbn [filter n_op].
          destruct (is_input (n_op a)); reflexivity.
        * apply fresh_spec_step_copy; auto.
  Qed.

  Definition const_basic (pre : list node) (st : const_state * Z) : Prop :=
    let '(s, i) := st in
    length (cs_map s) = length pre /\ input_sigs (cs_out s) = input_sigs pre /\
    fresh_spec pre (cs_out s) (cs_map s).

  Lemma const_basic_inv nodes sN :
    fold_left (opt_const_step o) nodes (Ok (mkCS [] [] [] [] None, 0)) = Ok sN -> const_basic nodes sN.
  Proof.
    apply (fold_res_inv (opt_const_step o) const_basic).
    - apply opt_const_step_strict.
    - cbn. splits; auto using fresh_spec_nil.
    - intros pre a post [s i] [s' i'] El (I1 & I2 & I3) St.
      apply opt_const_step_inv in St as (-> & Ga & s1 & j & Hc & Eout & Ecache & Econsts & Em & Eo).
      cbn [const_basic]. rewrite Em, Eout, !app_length; cbn [length].
      destruct Hc as [T v Hann Hwhy Hconsts Hres | deps' Hnc Hdeps Hwhy Hj Hout Hcache Hconsts].
      + assert (Props : is_input (n_op a) = false /\ is_fresh_op (n_op a) = false).
        { destruct Hwhy as [Eop|(_ & C0 & _)]; [rewrite Eop; auto|now apply const_optimizable_true]. }
        destruct Props as (Pi & Pf).
        destruct Hres as [(Hf & -> & _)|(Hf & -> & -> & _)]; splits; try lia.
        * rewrite input_sigs_app, I2. unfold input_sigs at 3. cbn [filter]. rewrite Pi. cbn. now rewrite app_nil_r.
        * rewrite <- (app_nil_r (cs_out s)). apply fresh_spec_step_other; auto.
        * rewrite !input_sigs_app, I2. unfold input_sigs at 3 4. cbn [filter n_op is_input]. rewrite Pi. reflexivity.
        * apply fresh_spec_step_other; auto.
      + rewrite Hout. subst j. splits; try lia.
        * rewrite !input_sigs_app, I2. f_equal. unfold input_sigs. cbn [filter n_op].
          destruct (is_input (n_op a)); reflexivity.
        * apply fresh_spec_step_copy; auto.
  Qed.
End Basic.

Theorem dup_basic_thm nodes o p : opt_dup nodes o = Ok p ->
  length (po_map p) = length nodes /\ input_sigs (po_nodes p) = input_sigs nodes /\
  fresh_spec nodes (po_nodes p) (po_map p).
Proof.
  rewrite opt_dup_unfold. intros H. apply bind_ok in H as ([s i] & E & H). injection H as <-.
  apply dup_basic_inv in E. exact E.
Qed.
Theorem const_basic_thm nodes o p : opt_const nodes o = Ok p ->
  length (po_map p) = length nodes /\ input_sigs (po_nodes p) = input_sigs nodes /\
  fresh_spec nodes (po_nodes p) (po_map p).
Proof.
  rewrite opt_const_unfold. intros H. apply bind_ok in H as ([s i] & E & H). injection H as <-.
  apply const_basic_inv in E. exact E.
Qed.

(* ------------------------------------------------------------------ the pipeline *)
Lemma optimize_graph_inv nodes o p : optimize_graph nodes o = Ok p ->
  exists p1 p2 p3 p4,
    opt_const nodes o = Ok p1 /\ opt_meta (po_nodes p1) (po_output p1) = Ok p2 /\
    opt_dup (po_nodes p2) (po_output p2) = Ok p3 /\ opt_dangling (po_nodes p3) (po_output p3) = Ok p4 /\
    po_nodes p = po_nodes p4 /\ po_output p = po_output p4 /\
    po_map p = join_maps (join_maps (join_maps (po_map p1) (po_map p2)) (po_map p3)) (po_map p4).
Proof.
  unfold optimize_graph. intros H.
  apply bind_ok in H as (p1 & E1 & H). apply bind_ok in H as (p2 & E2 & H).
  apply bind_ok in H as (p3 & E3 & H). apply bind_ok in H as (p4 & E4 & H). injection H as <-.
  exists p1, p2, p3, p4. cbn. auto 10.
Qed.

Lemma opt_dangling_some nodes o p : opt_dangling nodes o = Ok p -> exists x, o = Some x.
Proof. destruct o; [eauto|discriminate]. Qed.

(* G: every pass, and the pipeline, keeps fresh nodes: same operation under the map, never
   merged, never created *)
Theorem const_fresh nodes o p : opt_const nodes o = Ok p -> fresh_spec nodes (po_nodes p) (po_map p).
Proof. intros H. now apply const_basic_thm in H. Qed.
Theorem meta_fresh nodes o p : opt_meta nodes o = Ok p -> fresh_spec nodes (po_nodes p) (po_map p).
Proof. intros H. now apply meta_struct_thm in H. Qed.
Theorem dup_fresh nodes o p : opt_dup nodes o = Ok p -> fresh_spec nodes (po_nodes p) (po_map p).
Proof. intros H. now apply dup_basic_thm in H. Qed.
Theorem dangling_fresh' nodes o p : opt_dangling nodes o = Ok p -> fresh_spec nodes (po_nodes p) (po_map p).
Proof. intros H. destruct (opt_dangling_some _ _ _ H) as (x & ->). now apply dangling_fresh in H. Qed.

Theorem optimize_fresh nodes o p : optimize_graph nodes o = Ok p -> fresh_spec nodes (po_nodes p) (po_map p).
Proof.
  intros H. apply optimize_graph_inv in H as (p1 & p2 & p3 & p4 & E1 & E2 & E3 & E4 & -> & _ & ->).
  apply const_fresh in E1. apply meta_fresh in E2. apply dup_fresh in E3. apply dangling_fresh' in E4.
  eauto using fresh_spec_compose.
Qed.

Theorem const_fresh_check nodes o p : opt_const nodes o = Ok p -> fresh_check nodes (po_nodes p) (po_map p) = true.
Proof. intros H. apply fresh_spec_check. eapply const_fresh; eauto. Qed.
Theorem meta_fresh_check nodes o p : opt_meta nodes o = Ok p -> fresh_check nodes (po_nodes p) (po_map p) = true.
Proof. intros H. apply fresh_spec_check. eapply meta_fresh; eauto. Qed.
Theorem dup_fresh_check nodes o p : opt_dup nodes o = Ok p -> fresh_check nodes (po_nodes p) (po_map p) = true.
Proof. intros H. apply fresh_spec_check. eapply dup_fresh; eauto. Qed.
Theorem dangling_fresh_check nodes o p : opt_dangling nodes o = Ok p -> fresh_check nodes (po_nodes p) (po_map p) = true.
Proof. intros H. apply fresh_spec_check. eapply dangling_fresh'; eauto. Qed.
Theorem optimize_fresh_check nodes o p : optimize_graph nodes o = Ok p -> fresh_check nodes (po_nodes p) (po_map p) = true.
Proof. intros H. apply fresh_spec_check. eapply optimize_fresh; eauto. Qed.

Theorem optimize_keeps_counters_distinct nodes o p :
  optimize_graph nodes o = Ok p -> NoDup (prf_ivs nodes) -> NoDup (prf_ivs (po_nodes p)).
Proof. intros H. eapply fresh_spec_ivs. eapply optimize_fresh; eauto. Qed.

(* no pass turns a fresh node into a Constant, drops it from the mapping silently into another
   node, or maps two fresh nodes to one: unfolded form of fresh_spec for the pipeline *)
Theorem optimize_fresh_unfolded nodes o p : optimize_graph nodes o = Ok p ->
  (forall i nd j, nth_error nodes i = Some nd -> is_fresh_op (n_op nd) = true ->
                  nth_error (po_map p) i = Some (Some j) ->
                  exists nd', 0 <= j /\ nth_error (po_nodes p) (Z.to_nat j) = Some nd' /\ n_op nd' = n_op nd) /\
  (forall i i' nd nd' j, nth_error nodes i = Some nd -> is_fresh_op (n_op nd) = true ->
                         nth_error nodes i' = Some nd' -> is_fresh_op (n_op nd') = true ->
                         nth_error (po_map p) i = Some (Some j) -> nth_error (po_map p) i' = Some (Some j) -> i = i') /\
  (forall j nd', nth_error (po_nodes p) j = Some nd' -> is_fresh_op (n_op nd') = true ->
                 exists i nd, nth_error nodes i = Some nd /\ is_fresh_op (n_op nd) = true /\
                              nth_error (po_map p) i = Some (Some (Z.of_nat j))).
Proof.
  intros H. apply optimize_fresh in H as (S1 & S2 & S3). split; [|split].
  - intros i nd j E F G. destruct (S1 i j) as (nd0 & nd' & E0 & J & E1 & E2); [exists nd; auto|].
    exists nd'. repeat split; auto. congruence.
  - intros i i' nd nd' j E F E' F' G G'. apply (S2 i i' j); [exists nd|exists nd']; auto.
  - intros j nd' E F. destruct (S3 j nd' E F) as (i & nd & X). exists i, nd. exact X.
Qed.

(* ------------------------------------------------------------------ inputs *)
Theorem optimize_inputs nodes o p : optimize_graph nodes o = Ok p -> input_tys (po_nodes p) = input_tys nodes.
Proof.
  intros H. apply optimize_graph_inv in H as (p1 & p2 & p3 & p4 & E1 & E2 & E3 & E4 & -> & _ & _).
  apply const_basic_thm in E1 as (_ & E1 & _). apply meta_struct_thm in E2 as (_ & E2 & _).
  apply dup_basic_thm in E3 as (_ & E3 & _).
  destruct (opt_dangling_some _ _ _ E4) as (x & Ex). rewrite Ex in E4.
  apply dangling_struct in E4 as (_ & _ & _ & _ & E4 & _).
  apply input_sigs_tys in E1, E3, E4. congruence.
Qed.

(* ------------------------------------------------------------------ semantics at the level
   of eval_graph_nodes *)
Definition pass_sem_ok (nodes : list node) (p : pass_out) : Prop :=
  forall tape vals, eval_graph_nodes nodes tape = Ok vals ->
  forall tape', tape_compat from_tape nodes (po_map p) tape tape' ->
  exists vals', eval_graph_nodes (po_nodes p) tape' = Ok vals' /\
                sim nodes (po_nodes p) vals vals' (po_map p).

Theorem dangling_sem_ok nodes outp p : opt_dangling nodes (Some outp) = Ok p -> pass_sem_ok nodes p.
Proof.
  intros H tape vals V tape' Tc. apply eval_graph_nodes_valuation in V.
  destruct (dangling_sem eval_node from_tape _ _ _ _ _ H V tape' Tc) as (vals' & V' & S).
  exists vals'. split; auto. now apply eval_graph_nodes_valuation.
Qed.

Theorem dup_sem_ok infer nodes o p :
  typed_nodes infer nodes -> opt_dup nodes o = Ok p -> pass_sem_ok nodes p.
Proof.
  intros T H tape vals V tape' Tc. apply eval_graph_nodes_valuation in V.
  destruct (dup_sem_thm eval_node from_tape infer _ _ _ _ _ T H V tape' Tc) as (vals' & V' & S).
  exists vals'. split; auto. now apply eval_graph_nodes_valuation.
Qed.

Theorem const_sem_ok nodes o p :
  const_typed nodes -> opt_const nodes o = Ok p -> pass_sem_ok nodes p.
Proof.
  intros T H tape vals V tape' Tc. apply eval_graph_nodes_valuation in V.
  destruct (const_sem_thm _ _ _ _ _ T H V tape' Tc) as (vals' & V' & S).
  exists vals'. split; auto. now apply eval_graph_nodes_valuation.
Qed.

(* the transported tape is compatible *)
Theorem dangling_transport_ok nodes outp p tape : opt_dangling nodes (Some outp) = Ok p ->
  tape_compat from_tape nodes (po_map p) tape (transport (po_map p) tape).
Proof. apply dangling_transport. Qed.
Theorem const_transport_ok nodes o p tape : const_typed nodes -> opt_const nodes o = Ok p ->
  tape_compat from_tape nodes (po_map p) tape (transport (po_map p) tape).
Proof. intros T H. apply transport_compat. now apply const_struct_thm in H. Qed.
Theorem dup_transport_ok infer nodes o p tape : typed_nodes infer nodes -> opt_dup nodes o = Ok p ->
  (forall nd deps, In nd nodes -> from_tape (n_op nd) = true -> node_key nd deps = Ok None) ->
  tape_compat from_tape nodes (po_map p) tape (transport (po_map p) tape).
Proof.
  intros T H K. apply transport_compat.
  apply (dup_struct_thm from_tape infer) in H as (_ & _ & _ & _ & _ & _ & F); auto.
Qed.

(* composition of simulations along join_maps *)
Lemma sim_compose a b c va vb vc m1 m2 :
  sim a b va vb m1 -> sim b c vb vc m2 -> sim a c va vc (join_maps m1 m2).
Proof.
  intros S1 S2 i k E. apply join_maps_nth in E as (j & E1 & J & E2).
  destruct (S1 _ _ E1) as (_ & (v & V1 & V2) & (nd & nd' & N1 & N2 & N3)).
  destruct (S2 _ _ E2) as (K & (v' & V3 & V4) & (nd1 & nd1' & N4 & N5 & N6)).
  split; auto. split.
  - exists v. split; auto. congruence.
  - exists nd, nd1'. repeat split; auto. congruence.
Qed.

(* F: the pipeline preserves values along the joined map, for every chain of tapes compatible
   stage by stage, provided the meta-operation stage does (pass_sem_ok, not proved here in
   general) and the graph entering de-duplication is typed by some inference function *)
Theorem optimize_sem_chain infer nodes o p :
  optimize_graph nodes o = Ok p ->
  const_typed nodes ->
  exists p1 p2 p3 p4,
    opt_const nodes o = Ok p1 /\ opt_meta (po_nodes p1) (po_output p1) = Ok p2 /\
    opt_dup (po_nodes p2) (po_output p2) = Ok p3 /\ opt_dangling (po_nodes p3) (po_output p3) = Ok p4 /\
    (pass_sem_ok (po_nodes p1) p2 -> typed_nodes infer (po_nodes p2) ->
     forall t0 t1 t2 t3 t4 vals,
       eval_graph_nodes nodes t0 = Ok vals ->
       tape_compat from_tape nodes (po_map p1) t0 t1 ->
       tape_compat from_tape (po_nodes p1) (po_map p2) t1 t2 ->
       tape_compat from_tape (po_nodes p2) (po_map p3) t2 t3 ->
       tape_compat from_tape (po_nodes p3) (po_map p4) t3 t4 ->
       exists vals', eval_graph_nodes (po_nodes p) t4 = Ok vals' /\
                     sim nodes (po_nodes p) vals vals' (po_map p)).
Proof.
  intros H Ct. apply optimize_graph_inv in H as (p1 & p2 & p3 & p4 & E1 & E2 & E3 & E4 & En & Eo & Em).
  exists p1, p2, p3, p4. repeat split; auto.
  intros Hmeta Ty t0 t1 t2 t3 t4 vals V C1 C2 C3 C4. rewrite En, Em.
  destruct (const_sem_ok _ _ _ Ct E1 _ _ V _ C1) as (v1 & V1 & S1).
  destruct (Hmeta _ _ V1 _ C2) as (v2 & V2 & S2).
  destruct (dup_sem_ok _ _ _ _ Ty E3 _ _ V2 _ C3) as (v3 & V3 & S3).
  destruct (opt_dangling_some _ _ _ E4) as (x & Ex). rewrite Ex in E4.
  destruct (dangling_sem_ok _ _ _ E4 _ _ V3 _ C4) as (v4 & V4 & S4).
  exists v4. split; auto. eauto using sim_compose.
Qed.

(* ------------------------------------------------------------------ statements with the tape
   transported along the map *)
Theorem dangling_sem_transport nodes outp p tape vals :
  opt_dangling nodes (Some outp) = Ok p ->
  eval_graph_nodes nodes tape = Ok vals ->
  exists vals', eval_graph_nodes (po_nodes p) (transport (po_map p) tape) = Ok vals' /\
                sim nodes (po_nodes p) vals vals' (po_map p) /\
                (0 <= outp < Z.of_nat (length nodes) ->
                 exists j, po_output p = Some j /\ nth_error (po_map p) (Z.to_nat outp) = Some (Some j)).
Proof.
  intros H V.
  destruct (dangling_sem_ok _ _ _ H _ _ V _ (dangling_transport_ok _ _ _ tape H)) as (vals' & V' & S).
  exists vals'. split; [auto|split; [auto|]]. intros R. eapply dangling_output_kept; eauto.
Qed.

Theorem const_sem_transport nodes o p tape vals :
  const_typed nodes ->
  opt_const nodes o = Ok p ->
  eval_graph_nodes nodes tape = Ok vals ->
  exists vals', eval_graph_nodes (po_nodes p) (transport (po_map p) tape) = Ok vals' /\
                sim nodes (po_nodes p) vals vals' (po_map p) /\
                (forall x, o = Some x -> 0 <= x < Z.of_nat (length nodes) ->
                           nth_error (po_map p) (Z.to_nat x) = Some (po_output p)).
Proof.
  intros T H V.
  destruct (const_sem_ok _ _ _ T H _ _ V _ (const_transport_ok _ _ _ tape T H)) as (vals' & V' & S).
  exists vals'. split; [auto|split; [auto|]]. now apply const_struct_thm in H.
Qed.

Theorem dup_sem_transport infer nodes o p tape vals :
  typed_nodes infer nodes ->
  (forall nd deps, In nd nodes -> from_tape (n_op nd) = true -> node_key nd deps = Ok None) ->
  opt_dup nodes o = Ok p ->
  eval_graph_nodes nodes tape = Ok vals ->
  exists vals', eval_graph_nodes (po_nodes p) (transport (po_map p) tape) = Ok vals' /\
                sim nodes (po_nodes p) vals vals' (po_map p) /\
                (forall x, o = Some x -> 0 <= x < Z.of_nat (length nodes) ->
                           nth_error (po_map p) (Z.to_nat x) = Some (po_output p)).
Proof.
  intros T K H V.
  destruct (dup_sem_ok _ _ _ _ T H _ _ V _ (dup_transport_ok _ _ _ _ tape T H K)) as (vals' & V' & S).
  exists vals'. split; [auto|split; [auto|]]. now apply (dup_struct_thm from_tape infer) in H.
Qed.

(* annotated nodes are never folded, and folded nodes are Constants of the node's type *)
Theorem const_annots nodes o p : const_typed nodes -> opt_const nodes o = Ok p ->
  forall i j nd, nth_error nodes i = Some nd -> nth_error (po_map p) i = Some (Some j) ->
    exists nd', nth_error (po_nodes p) (Z.to_nat j) = Some nd' /\ n_ty nd' = n_ty nd /\
                (n_annots nd <> [] -> n_op nd' = n_op nd /\ n_annots nd' = n_annots nd) /\
                (n_op nd' = n_op nd \/ exists v, n_op nd' = OConstant (n_ty nd) v).
Proof.
  intros T H i j nd E G. apply const_struct_thm in H as (_ & _ & K & _); auto.
  destruct (K _ _ G) as (nd0 & nd' & E0 & E1 & E2 & E3). assert (nd0 = nd) by congruence. subst nd0.
  exists nd'. repeat split; auto.
  - destruct E3 as [(A & B)|(A & _)]; [auto|congruence].
  - destruct E3 as [(A & B)|(A & _)]; [auto|congruence].
  - destruct E3 as [(A & B)|(_ & _ & _ & v & A)]; [auto|right; eauto].
Qed.

(* renumbering followed by the optimizer: counters of the result are pairwise distinct *)
Theorem uniquify_optimize_nodup start nodes o p :
  optimize_graph (fst (uniquify_nodes start nodes)) o = Ok p -> NoDup (prf_ivs (po_nodes p)).
Proof.
  intros H. eapply optimize_keeps_counters_distinct; eauto. apply uniquify_nodes_nodup.
Qed.

(* ------------------------------------------------------------------ E (partial): the meta pass
   preserves values on graphs without ArrayToVector / Zip / A2B / B2A *)
(* hypotheses of the meta pass theorem that concern the graph only *)
Definition meta_hyps (nodes : list node) : Prop :=
  const_typed nodes /\
  (forall nd, In nd nodes -> Z.of_nat (length (n_deps nd)) < 2 ^ 64) /\
  (forall nd, In nd nodes -> simple_meta (n_op nd) = true) /\
  meta_typed nodes.

Theorem meta_sem_ok_simple nodes o p :
  meta_hyps nodes -> ~ bits_ops nodes -> opt_meta nodes o = Ok p -> pass_sem_ok nodes p.
Proof.
  intros (Ct & Rg & Sm & Ty) Nb H tape vals V tape' Tc. apply eval_graph_nodes_valuation in V.
  destruct (meta_sem_thm (fun _ _ => TTuple []) _ _ _ _ _ V Ct Rg Sm (fun B => False_ind _ (Nb B)) Ty H) as (_ & _ & _ & K).
  destruct (K tape' Tc) as (vals' & V' & S). exists vals'. split; auto. now apply eval_graph_nodes_valuation.
Qed.

Theorem meta_sem_transport nodes o p tape vals :
  meta_hyps nodes ->
  (bits_ops nodes -> vals_typed nodes vals) ->
  opt_meta nodes o = Ok p ->
  eval_graph_nodes nodes tape = Ok vals ->
  exists vals', eval_graph_nodes (po_nodes p) (transport (po_map p) tape) = Ok vals' /\
                sim nodes (po_nodes p) vals vals' (po_map p) /\
                (forall x, o = Some x -> 0 <= x < Z.of_nat (length nodes) ->
                           nth_error (po_map p) (Z.to_nat x) = Some (po_output p)).
Proof.
  intros (Ct & Rg & Sm & Ty) Vt H V. pose proof V as V0. apply eval_graph_nodes_valuation in V.
  destruct (meta_sem_thm (fun _ _ => TTuple []) _ _ _ _ _ V Ct Rg Sm Vt Ty H) as (F & _ & _ & K).
  destruct (K _ (transport_compat _ _ _ tape F)) as (vals' & V' & S).
  exists vals'. split; [now apply eval_graph_nodes_valuation|]. split; auto.
  now apply meta_struct_thm in H.
Qed.

(* F with transported tapes: hypotheses on the input graph for the constant pass, and on the two
   intermediate graphs for the meta pass (meta_hyps) and for de-duplication (typed, no keyed tape
   operation) *)
Theorem optimize_sem_transport infer nodes o p tape vals :
  optimize_graph nodes o = Ok p ->
  const_typed nodes ->
  eval_graph_nodes nodes tape = Ok vals ->
  exists p1 p2 p3 p4,
    opt_const nodes o = Ok p1 /\ opt_meta (po_nodes p1) (po_output p1) = Ok p2 /\
    opt_dup (po_nodes p2) (po_output p2) = Ok p3 /\ opt_dangling (po_nodes p3) (po_output p3) = Ok p4 /\
    (meta_hyps (po_nodes p1) -> ~ bits_ops (po_nodes p1) -> typed_nodes infer (po_nodes p2) ->
     (forall nd deps, In nd (po_nodes p2) -> from_tape (n_op nd) = true -> node_key nd deps = Ok None) ->
     exists vals', eval_graph_nodes (po_nodes p)
                     (transport (po_map p4) (transport (po_map p3) (transport (po_map p2) (transport (po_map p1) tape))))
                   = Ok vals' /\
                   sim nodes (po_nodes p) vals vals' (po_map p)).
Proof.
  intros H Ct V. apply optimize_graph_inv in H as (p1 & p2 & p3 & p4 & E1 & E2 & E3 & E4 & En & Eo & Em).
  exists p1, p2, p3, p4. repeat split; auto. intros Mh Nb Ty Nk. rewrite En, Em.
  destruct (const_sem_transport _ _ _ _ _ Ct E1 V) as (v1 & V1 & S1 & _).
  destruct (meta_sem_transport _ _ _ _ _ Mh (fun B => False_ind _ (Nb B)) E2 V1) as (v2 & V2 & S2 & _).
  destruct (dup_sem_transport _ _ _ _ _ _ Ty Nk E3 V2) as (v3 & V3 & S3 & _).
  destruct (opt_dangling_some _ _ _ E4) as (x & Ex). rewrite Ex in E4.
  destruct (dangling_sem_transport _ _ _ _ _ E4 V3) as (v4 & V4 & S4 & _).
  exists v4. split; auto. eauto using sim_compose.
Qed.

(* F for graphs without ArrayToVector / Zip and without keyed tape operations
   (CuckooHash, Shard, Join, Sort, ...), with hypotheses on the INPUT graph only: the whole
   pipeline preserves values along the joined map, under the tape transported stage by stage,
   and the output node is mapped to the new output *)
Theorem optimize_sem_simple infer nodes o p tape vals :
  infer_const infer -> typed_nodes infer nodes ->
  const_typed nodes -> few_deps nodes -> simple_ops nodes -> meta_typed nodes -> nokey nodes ->
  optimize_graph nodes o = Ok p ->
  eval_graph_nodes nodes tape = Ok vals ->
  vals_typed nodes vals ->
  exists p1 p2 p3 p4,
    opt_const nodes o = Ok p1 /\ opt_meta (po_nodes p1) (po_output p1) = Ok p2 /\
    opt_dup (po_nodes p2) (po_output p2) = Ok p3 /\ opt_dangling (po_nodes p3) (po_output p3) = Ok p4 /\
    exists vals', eval_graph_nodes (po_nodes p)
                    (transport (po_map p4) (transport (po_map p3) (transport (po_map p2) (transport (po_map p1) tape))))
                  = Ok vals' /\
                  sim nodes (po_nodes p) vals vals' (po_map p).
Proof.
  intros Ic Tn Ct Fd So Mt Nk H V Vt.
  apply optimize_graph_inv in H as (p1 & p2 & p3 & p4 & E1 & E2 & E3 & E4 & En & Eo & Em).
  exists p1, p2, p3, p4. repeat split; auto. rewrite En, Em.
  destruct (const_preserves infer _ _ _ Ct E1) as (Ct1 & Fd1 & So1 & Nk1 & Ty1).
  destruct (Ty1 Ic Tn) as (Tn1 & Mt1).
  destruct (const_sem_transport _ _ _ _ _ Ct E1 V) as (v1 & V1 & S1 & _).
  pose proof V1 as V1v. apply eval_graph_nodes_valuation in V1v.
  destruct (meta_sem_thm infer _ _ _ _ _ V1v Ct1 (Fd1 Fd) (So1 So)
                         (fun _ => const_preserves_vals_typed _ _ _ _ _ Ct E1 Vt S1) (Mt1 Mt) E2) as (F2 & Tn2 & _ & K2).
  destruct (K2 _ (transport_compat _ _ _ (transport (po_map p1) tape) F2)) as (v2 & V2v & S2).
  pose proof V2v as V2. apply eval_graph_nodes_valuation in V2.
  pose proof (meta_preserves_nokey _ _ _ E2 (Nk1 Nk)) as Nk2.
  assert (Nk2' : forall nd deps, In nd (po_nodes p2) -> from_tape (n_op nd) = true -> node_key nd deps = Ok None).
  { intros nd deps I Ft. apply (Nk2 nd I Ft nd deps eq_refl). }
  destruct (dup_sem_transport _ _ _ _ _ _ (Tn2 Tn1) Nk2' E3 V2) as (v3 & V3 & S3 & _).
  destruct (opt_dangling_some _ _ _ E4) as (x & Ex). rewrite Ex in E4.
  destruct (dangling_sem_transport _ _ _ _ _ E4 V3) as (v4 & V4 & S4 & _).
  exists v4. split; auto. eauto using sim_compose.
Qed.

(* ------------------------------------------------------------------ the output node *)
Lemma out_spec_some o pre m y : out_spec o pre m = Some y ->
  exists x, o = Some x /\ 0 <= x < Z.of_nat (length pre) /\ nth_error m (Z.to_nat x) = Some (Some y).
Proof.
  unfold out_spec. destruct o as [x|]; [|discriminate].
  destruct ((0 <=? x) && (x <? Z.of_nat (length pre))) eqn:R; [|discriminate].
  destruct (nth_error m (Z.to_nat x)) as [[y0|]|] eqn:E; try discriminate.
  intros H; injection H as ->. exists x. repeat split; auto; lia.
Qed.

Lemma const_output_some nodes o p y : const_typed nodes -> opt_const nodes o = Ok p -> po_output p = Some y ->
  exists x, o = Some x /\ 0 <= x < Z.of_nat (length nodes) /\ nth_error (po_map p) (Z.to_nat x) = Some (Some y).
Proof.
  intros T H. rewrite opt_const_unfold in H. apply bind_ok in H as ([s i] & E & H). injection H as <-.
  cbn [po_map po_output]. apply (const_struct_inv nodes o T) in E as (_ & _ & _ & _ & _ & _ & _ & I9 & _).
  rewrite I9. apply out_spec_some.
Qed.
Lemma meta_output_some nodes o p y : opt_meta nodes o = Ok p -> po_output p = Some y ->
  exists x, o = Some x /\ 0 <= x < Z.of_nat (length nodes) /\ nth_error (po_map p) (Z.to_nat x) = Some (Some y).
Proof.
  intros H. rewrite opt_meta_unfold in H. apply bind_ok in H as ([s i] & E & H). injection H as <-.
  cbn [po_map po_output]. apply (meta_struct_inv nodes o) in E as (_ & _ & _ & _ & I5).
  rewrite I5. apply out_spec_some.
Qed.
Lemma dup_output_some infer nodes o p y : typed_nodes infer nodes -> opt_dup nodes o = Ok p -> po_output p = Some y ->
  exists x, o = Some x /\ 0 <= x < Z.of_nat (length nodes) /\ nth_error (po_map p) (Z.to_nat x) = Some (Some y).
Proof.
  intros T H. rewrite opt_dup_unfold in H. apply bind_ok in H as ([s i] & E & H). injection H as <-.
  cbn [po_map po_output]. apply (dup_struct_inv infer nodes o T) in E as (_ & _ & _ & _ & _ & _ & _ & I9 & _).
  rewrite I9. apply out_spec_some.
Qed.

(* the output of the pipeline is the image of the old output under the joined map *)
Theorem optimize_output infer nodes o p :
  infer_const infer -> typed_nodes infer nodes ->
  const_typed nodes -> few_deps nodes -> simple_ops nodes -> meta_typed nodes ->
  optimize_graph nodes o = Ok p ->
  forall tape vals, eval_graph_nodes nodes tape = Ok vals -> vals_typed nodes vals ->
  exists x j, o = Some x /\ 0 <= x < Z.of_nat (length nodes) /\ po_output p = Some j /\
              nth_error (po_map p) (Z.to_nat x) = Some (Some j).
Proof.
  intros Ic Tn Ct Fd So Mt H tape vals V Vt.
  apply optimize_graph_inv in H as (p1 & p2 & p3 & p4 & E1 & E2 & E3 & E4 & En & Eo & Em).
  destruct (const_preserves infer _ _ _ Ct E1) as (Ct1 & Fd1 & So1 & Nk1 & Ty1).
  destruct (Ty1 Ic Tn) as (Tn1 & Mt1).
  destruct (const_sem_transport _ _ _ _ _ Ct E1 V) as (v1 & V1 & S1 & _).
  apply eval_graph_nodes_valuation in V1.
  destruct (meta_sem_thm infer _ _ _ _ _ V1 Ct1 (Fd1 Fd) (So1 So)
                         (fun _ => const_preserves_vals_typed _ _ _ _ _ Ct E1 Vt S1) (Mt1 Mt) E2) as (_ & Tn2 & _ & _).
  destruct (opt_dangling_some _ _ _ E4) as (x3 & Ex3).
  destruct (dup_output_some _ _ _ _ _ (Tn2 Tn1) E3 Ex3) as (x2 & Ex2 & R2 & M3).
  destruct (meta_output_some _ _ _ _ E2 Ex2) as (x1 & Ex1 & R1 & M2).
  destruct (const_output_some _ _ _ _ Ct E1 Ex1) as (x & Ex & R & M1).
  assert (R3 : 0 <= x3 < Z.of_nat (length (po_nodes p3))).
  { apply (dup_struct_thm from_tape infer) in E3 as (_ & B & _); auto. eapply B; eauto. }
  rewrite Ex3 in E4. destruct (dangling_output_kept _ _ _ E4 R3) as (j & Ej & M4).
  exists x, j. repeat split; auto; try lia; [congruence|].
  rewrite Em. apply join_maps_nth. exists x3. split; [|split; [lia|auto]].
  apply join_maps_nth. exists x2. split; [|split; [lia|auto]].
  apply join_maps_nth. exists x1. split; [|split; [lia|auto]]. exact M1.
Qed.

(* both together: the optimized graph evaluates under the transported tape, every mapped node
   keeps its value and type, and the value at the output is the value at the old output *)
Theorem optimize_sem_simple_output infer nodes o p tape vals :
  infer_const infer -> typed_nodes infer nodes ->
  const_typed nodes -> few_deps nodes -> simple_ops nodes -> meta_typed nodes -> nokey nodes ->
  optimize_graph nodes o = Ok p ->
  eval_graph_nodes nodes tape = Ok vals ->
  vals_typed nodes vals ->
  exists p1 p2 p3 p4,
    opt_const nodes o = Ok p1 /\ opt_meta (po_nodes p1) (po_output p1) = Ok p2 /\
    opt_dup (po_nodes p2) (po_output p2) = Ok p3 /\ opt_dangling (po_nodes p3) (po_output p3) = Ok p4 /\
    exists vals', eval_graph_nodes (po_nodes p)
                    (transport (po_map p4) (transport (po_map p3) (transport (po_map p2) (transport (po_map p1) tape))))
                  = Ok vals' /\
                  sim nodes (po_nodes p) vals vals' (po_map p) /\
                  exists x j v, o = Some x /\ po_output p = Some j /\ 0 <= x /\ 0 <= j /\
                                nth_error (po_map p) (Z.to_nat x) = Some (Some j) /\
                                nth_error vals (Z.to_nat x) = Some v /\ nth_error vals' (Z.to_nat j) = Some v.
Proof.
  intros Ic Tn Ct Fd So Mt Nk H V Vt.
  destruct (optimize_sem_simple infer _ _ _ _ _ Ic Tn Ct Fd So Mt Nk H V Vt)
    as (p1 & p2 & p3 & p4 & E1 & E2 & E3 & E4 & vals' & V' & S).
  exists p1, p2, p3, p4. repeat split; auto. exists vals'. split; auto. split; auto.
  destruct (optimize_output infer _ _ _ Ic Tn Ct Fd So Mt H _ _ V Vt) as (x & j & Ex & R & Ej & M).
  destruct (S _ _ M) as (J & (v & V1 & V2) & _).
  exists x, j, v. repeat split; auto. lia.
Qed.

(* ------------------------------------------------------------------ annotations along the pipeline *)
Lemma keeps_annots_incl pre out m : keeps pre out m -> bounded m (length out) -> annots_incl pre out m.
Proof.
  intros K B i j E. destruct (K _ _ E) as (nd & nd' & N1 & N2 & _ & A & _). destruct (B _ _ E).
  exists nd, nd'. repeat split; auto. rewrite A. apply incl_refl.
Qed.
Lemma keepsC_annots_incl pre out m : keepsC pre out m -> bounded m (length out) -> annots_incl pre out m.
Proof.
  intros K B i j E. destruct (K _ _ E) as (nd & nd' & N1 & N2 & _ & A). destruct (B _ _ E).
  exists nd, nd'. repeat split; auto. destruct A as [(_ & ->)|(-> & _)]; [apply incl_refl|intros x []].
Qed.
Lemma annots_incl_compose a b c m1 m2 :
  annots_incl a b m1 -> annots_incl b c m2 -> annots_incl a c (join_maps m1 m2).
Proof.
  intros A1 A2 i k E. apply join_maps_nth in E as (j & E1 & J & E2).
  destruct (A1 _ _ E1) as (nd & nd' & N1 & _ & N2 & I1).
  destruct (A2 _ _ E2) as (nd1 & nd1' & N3 & K & N4 & I2).
  exists nd, nd1'. repeat split; auto. assert (nd1 = nd') by congruence. subst. eapply incl_tran; eauto.
Qed.

(* every node in the domain of the pipeline's map has an image that carries all its annotations
   (in particular Send annotations), for the graphs of optimize_sem_simple *)
Theorem optimize_annots infer nodes o p tape vals :
  infer_const infer -> typed_nodes infer nodes ->
  const_typed nodes -> few_deps nodes -> simple_ops nodes -> meta_typed nodes ->
  optimize_graph nodes o = Ok p ->
  eval_graph_nodes nodes tape = Ok vals ->
  vals_typed nodes vals ->
  annots_incl nodes (po_nodes p) (po_map p).
Proof.
  intros Ic Tn Ct Fd So Mt H V Vt.
  apply optimize_graph_inv in H as (p1 & p2 & p3 & p4 & E1 & E2 & E3 & E4 & En & Eo & Em).
  destruct (const_preserves infer _ _ _ Ct E1) as (Ct1 & Fd1 & So1 & Nk1 & Ty1).
  destruct (Ty1 Ic Tn) as (Tn1 & Mt1).
  destruct (const_sem_transport _ _ _ _ _ Ct E1 V) as (v1 & V1 & S1 & _).
  apply eval_graph_nodes_valuation in V1.
  destruct (meta_sem_thm infer _ _ _ _ _ V1 Ct1 (Fd1 Fd) (So1 So)
                         (fun _ => const_preserves_vals_typed _ _ _ _ _ Ct E1 Vt S1) (Mt1 Mt) E2) as (_ & Tn2 & A2 & _).
  pose proof (const_struct_thm _ _ _ Ct E1) as (_ & B1 & K1 & _).
  pose proof (dup_struct_thm from_tape infer _ _ _ (Tn2 Tn1) E3) as (_ & B3 & K3 & _).
  destruct (opt_dangling_some _ _ _ E4) as (x & Ex). rewrite Ex in E4.
  pose proof (dangling_struct _ _ _ E4) as (_ & B4 & _ & K4 & _).
  rewrite En, Em.
  apply annots_incl_compose with (b := po_nodes p3);
    [apply annots_incl_compose with (b := po_nodes p2); [apply annots_incl_compose with (b := po_nodes p1)|]|].
  - now apply keepsC_annots_incl.
  - exact A2.
  - now apply keeps_annots_incl.
  - now apply keeps_annots_incl.
Qed.

Theorem meta_annots nodes o p tape vals :
  meta_hyps nodes -> (bits_ops nodes -> vals_typed nodes vals) ->
  opt_meta nodes o = Ok p -> eval_graph_nodes nodes tape = Ok vals ->
  annots_incl nodes (po_nodes p) (po_map p).
Proof.
  intros (Ct & Rg & Sm & Ty) Vt H V. apply eval_graph_nodes_valuation in V.
  now destruct (meta_sem_thm (fun _ _ => TTuple []) _ _ _ _ _ V Ct Rg Sm Vt Ty H) as (_ & _ & A & _).
Qed.

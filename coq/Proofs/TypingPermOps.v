(* C09 preservation: InversePermutation, ApplyPermutation. *)
From CC Require Import Base.Prelude Base.Scalar Base.Ty Base.Shape Graph.Value Graph.IR Graph.Eval
  Graph.Typing Proofs.EvalProofs Proofs.TypingBase Proofs.TypingTuple Proofs.TypingArith
  Proofs.TypingBits Proofs.TypingReduce Proofs.TypingStruct Proofs.TypingPermute Proofs.TypingZip.

Lemma fold_err {A X} (f : result A -> X -> result A) l : (forall x, f Err x = Err) -> fold_left f l Err = Err.
Proof. intros H. induction l; cbn; [reflexivity|]. now rewrite H. Qed.

Lemma fold_res_safe {A X} (f : result A -> X -> result A) (Inv : A -> Prop) l :
  (forall x, f Err x = Err) ->
  (forall x acc, In x l -> Inv acc ->
     match f (Ok acc) x with Ok acc' => Inv acc' | Err => True | _ => False end) ->
  forall a, Inv a -> match fold_left f l (Ok a) with Ok r => Inv r | Err => True | _ => False end.
Proof.
  intros He. induction l as [|x l IH]; intros H a Ha; cbn [fold_left]; [exact Ha|].
  pose proof (H x a (or_introl eq_refl) Ha) as Hx.
  destruct (f (Ok a) x) as [a'| | |]; try contradiction.
  - apply IH; auto. intros y acc Hy. apply H. now right.
  - now rewrite fold_err.
Qed.

Lemma inverse_permutation_typed values : Forall (fun v => 0 <= v) values ->
  match inverse_permutation values with
  | Ok r => length r = length values /\ Forall (fun i => 0 <= i < Z.of_nat (length values)) r
  | Err => True
  | _ => False
  end.
Proof.
  intros Fv. unfold inverse_permutation.
  destruct values as [|v0 values'] eqn:E; [cbn; auto|]. rewrite <- E in *. clear E v0 values'.
  destruct (length values) as [|n'] eqn:Ln. { destruct values; cbn in Ln; [cbn; auto| lia]. }
  rewrite <- Ln in *. assert (Hpos : 0 < Z.of_nat (length values)) by lia. clear Ln n'.
  apply fold_res_safe.
  - intros x. reflexivity.
  - intros [i value] acc Hin [La Fa]. cbn [bind].
    pose proof (in_combine_l _ _ _ _ Hin) as Hi. pose proof (in_combine_r _ _ _ _ Hin) as Hv.
    apply zrange_in in Hi. rewrite Forall_forall in Fv. specialize (Fv value Hv).
    destruct (Z.of_nat (length values) <=? value) eqn:R; [exact I|].
    destruct (upd_ok (fun i => 0 <= i < Z.of_nat (length values)) acc value i) as (acc' & -> & L' & F'); [lia|].
    split; [lia|]. apply F'; auto.
  - split; [apply repeat_length|]. apply Forall_forall. intros e He. apply repeat_spec in He. lia.
Qed.

Lemma as_u64_small st x : width st <> 128 -> signed st = false -> 0 <= x < modulus st -> as_u64 st x = x.
Proof.
  intros W S Hx. unfold as_u64, sval, norm. rewrite S. cbn [andb]. rewrite (Z.mod_small x) by lia.
  apply Z.mod_small. split; [lia|]. unfold modulus in Hx.
  assert (2 ^ width st <= 2 ^ 64) by (apply Z.pow_le_mono_r; [lia| destruct st; cbn in *; lia]). lia.
Qed.

Lemma nodup_bounded_length (l : list Z) M : 0 <= M -> NoDup l -> Forall (fun x => 0 <= x < M) l ->
  Z.of_nat (length l) <= M.
Proof.
  intros HM ND F.
  assert (H : (length l <= length (zrange M))%nat).
  { apply NoDup_incl_length; auto. intros x Hx. rewrite Forall_forall in F. apply zrange_in_iff. auto. }
  rewrite zrange_length in H. lia.
Qed.

Lemma preserves_inverse_permutation : preserves OInversePermutation.
Proof.
  intros ts t vs Hu H HF. inv_infer H. apply zlen_eq in Harity.
  destruct (one_dep _ _ Harity HF) as (v & t0 & -> & -> & Hv & Hok).
  cbn [nth] in H. cbn [eval_node nth nth_res bind].
  destruct t0 as [|sh st0| | |]; try discriminate. cbn [is_arr negb shape_of st_of] in *.
  destruct (width st0 =? 128) eqn:W; [discriminate|].
  destruct (scalar_eqb st0 Bit || signed st0) eqn:SB; [discriminate|].
  destruct (1 <? zlen sh) eqn:L1; [discriminate|]. unfold zlen in L1.
  apply register_ok in H as [-> _].
  destruct v as [es|]; [|discriminate]. apply has_type_array in Hv as [Le Fe].
  cbn [arr_of bind].
  destruct (nodup_z (map (as_u64 st0) es)) eqn:ND; cbn [negb]; [|exact I].
  assert (Es : map (as_u64 st0) es = es).
  { rewrite <- (map_id es) at 2. apply map_ext_in. intros x Hx. rewrite Forall_forall in Fe.
    apply as_u64_small; auto; [lia|]. destruct (scalar_eqb st0 Bit); [discriminate| exact SB]. }
  rewrite Es in *.
  pose proof (inverse_permutation_typed es) as G.
  destruct (inverse_permutation es) as [r| | |]; cbn [bind safe_typed]; auto;
    try (apply G; eapply Forall_impl; [|exact Fe]; cbn; intros; lia).
  destruct G as [Lr Fr]. { eapply Forall_impl; [|exact Fe]. cbn; intros; lia. }
  apply has_type_array. split; [lia|].
  pose proof (modulus_pos st0) as Mp.
  pose proof (nodup_bounded_length es (modulus st0) ltac:(lia) (nodup_z_NoDup _ ND) Fe) as B.
  eapply Forall_impl; [|exact Fr]. cbn. intros; lia.
Qed.

Lemma preserves_apply_permutation inv : preserves (OApplyPermutation inv).
Proof.
  intros ts t vs Hu H HF. inv_infer H. apply zlen_eq in Harity.
  destruct (two_deps _ _ Harity HF) as (v0 & t0 & v1 & t1 & -> & -> & [Hv0 Hok0] & [Hv1 Hok1]).
  cbn [nth] in H. cbn [eval_node nth nth_res bind].
  destruct t0 as [|sh st0| | |]; try discriminate. cbn [is_arr negb shape_of st_of] in *.
  apply bind_ok in H as (n & En & H).
  destruct t1 as [|psh ist| | |]; try discriminate.
  destruct (width ist =? 128); [discriminate|].
  destruct (zlen psh =? 1) eqn:Lp; cbn [negb] in H; [|discriminate].
  apply bind_ok in H as (m & Em & H).
  destruct (negb (m =? n) || scalar_eqb ist Bit || signed ist) eqn:C; [discriminate|].
  apply register_ok in H as [-> _]. cbn [is_arr negb shape_of].
  destruct v0 as [es|]; [|discriminate]. apply has_type_array in Hv0 as [Le Fe].
  destruct v1 as [p0|]; [|discriminate]. apply has_type_array in Hv1 as [Lp0 _].
  destruct (ty_ok_array _ _ Hok0) as [Vsh Nsh].
  cbn [arr_of bind st_of]. rewrite En. cbn [bind].
  destruct sh as [|d sh']; [congruence|]. cbn in En. inversion En; subst d. clear En.
  destruct psh as [|pd [|pd2 psh']]; unfold zlen in Lp; cbn in Lp; try lia. cbn in Em. inversion Em; subst pd. clear Em.
  assert (m = n) by (destruct (m =? n) eqn:E; [lia| discriminate]). subst m.
  cbn [prod_list fold_right] in Lp0.
  set (perm := map (as_u64 ist) p0) in *.
  assert (Fperm : Forall (fun e => 0 <= e) perm).
  { apply Forall_forall. intros e He. apply in_map_iff in He as (x & <- & _). apply as_u64_nonneg. }
  assert (Lperm : Z.of_nat (length perm) = n) by (unfold perm; rewrite map_length; lia).
  destruct (negb (Z.of_nat (length (nodup Z.eq_dec (filter (fun x => x <? n) perm))) =? n)); [exact I|].
  assert (G : match (if inv then inverse_permutation perm else Ok perm) with
              | Ok p => Z.of_nat (length p) = n /\ Forall (fun e => 0 <= e) p
              | Err => True | _ => False end).
  { destruct inv; [|auto]. pose proof (inverse_permutation_typed perm Fperm) as G.
    destruct (inverse_permutation perm) as [r| | |]; auto. destruct G as [Lr Fr]. split; [lia|].
    eapply Forall_impl; [|exact Fr]. cbn; intros; lia. }
  destruct (if inv then inverse_permutation perm else Ok perm) as [p| | |]; cbn [bind]; try contradiction; auto.
  destruct G as [Lpp Fpp].
  pose proof (eval_gather_typed (fun e => 0 <= e < modulus st0) (n :: sh') es p 0 Vsh) as GG.
  cbn [length] in GG.
  destruct (eval_gather (n :: sh') es p 0) as [r| | |]; cbn [bind safe_typed]; auto;
    try (apply GG; auto; lia).
  destruct GG as [Lr Fr]; auto; try lia.
  apply has_type_array. split; [|exact Fr]. rewrite Lr. cbn [Z.to_nat firstn skipn Nat.add prod_list fold_right].
  rewrite Lpp. change (fold_right Z.mul 1 sh') with (prod_list sh'). ring.
Qed.

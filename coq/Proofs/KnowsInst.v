(* The evaluator model satisfies the routing hypotheses of the C02 soundness theorem, whatever
   oracle supplies the operations it does not mirror (PRF, Sort, Join, cuckoo hashing, ...). *)
From CC Require Import Base.Prelude Base.Scalar Base.Ty Base.Shape Graph.Value Graph.IR Graph.Eval
  Model.Knows Proofs.KnowsProofs.

Definition sem_of (oracle : op -> list ty -> ty -> list value -> value -> result value)
  (o : op) (dts : list ty) (t : ty) (vs : list value) (r : value) : result value :=
  if from_tape o then (if is_randdep_op o then oracle o dts t vs r else oracle o dts t vs (VTup []))
  else eval_node o dts t vs.

Lemma route_not_tape dts o : route_of dts o <> RNone -> from_tape o = false.
Proof. destruct o; cbn; intros H; try reflexivity; congruence. Qed.

Lemma sem_of_tuple oracle o dts t vs r v :
  route_of dts o = RTuple -> sem_of oracle o dts t vs r = Ok v -> v = VTup vs.
Proof.
  intros R. unfold sem_of. rewrite (route_not_tape dts o) by congruence.
  destruct o; cbn in R; try discriminate; cbn; try (intros H; now injection H as <-).
  destruct dts as [|dt dts']; try discriminate. destruct (named_pos dt name); discriminate.
Qed.

Lemma sem_of_nop oracle o dts t d rest r v :
  route_of dts o = RNop -> sem_of oracle o dts t (d :: rest) r = Ok v -> v = d.
Proof.
  intros R. unfold sem_of. rewrite (route_not_tape dts o) by congruence.
  destruct o; cbn in R; try discriminate; cbn; try (intros H; now injection H as <-).
  destruct dts as [|dt dts']; try discriminate. destruct (named_pos dt name); discriminate.
Qed.

Lemma named_pos_index fs name : named_pos (TNamed fs) name = named_index fs name.
Proof. reflexivity. Qed.

Lemma sem_of_get oracle o dts t j d rest r v :
  route_of dts o = RGet j -> sem_of oracle o dts t (d :: rest) r = Ok v ->
  exists l, d = VTup l /\ znth l j = Ok v.
Proof.
  intros R. unfold sem_of. rewrite (route_not_tape dts o) by congruence.
  destruct o; cbn in R; try discriminate.
  - (* TupleGet *)
    injection R as ->. cbn. destruct d as [es|l]; cbn; [discriminate|]. eauto.
  - (* NamedTupleGet *)
    destruct dts as [|dt dts']; try discriminate.
    destruct (named_pos dt name) as [i|] eqn:E; try discriminate. injection R as ->.
    destruct dt as [ | | | |fs]; try (cbn in E; discriminate). rewrite named_pos_index in E. cbn. rewrite E.
    destruct d as [es|l]; cbn; [discriminate|]. eauto.
Qed.

Lemma sem_of_det oracle o dts t vs r r' :
  is_randdep_op o = false -> sem_of oracle o dts t vs r = sem_of oracle o dts t vs r'.
Proof. intros H. unfold sem_of. rewrite H. reflexivity. Qed.

(* C02 soundness for the evaluator model, for every oracle of the non-mirrored operations *)
Theorem kcheck_sound_eval oracle c tapes nodes output gin lin genv envs :
  kcheck c nodes output = true ->
  inputs_agree (cfg_inputs c) gin lin ->
  grun (sem_of oracle) (rho c tapes) gin nodes = Some genv ->
  lrun (sem_of oracle) tapes lin nodes = Some envs ->
  (cfg_outputs c <> [] ->
   forall p gv, In p (cfg_outputs c) -> is_party p -> znth genv output = Ok gv ->
                znth (tget envs p) output = Ok (embed gv)) /\
  (cfg_outputs c = [] ->
   forall j p gs lv, (j = 0 \/ j = 1 \/ j = 2) -> (p = j \/ p = (j + 2) mod 3) ->
                znth genv output = Ok (VTup gs) -> znth (tget envs p) output = Ok lv ->
                forall g, znth gs j = Ok g ->
                match lv with PTup ls => znth ls j = Ok (embed g) | _ => False end).
Proof.
  apply kcheck_sound.
  - apply sem_of_tuple.
  - apply sem_of_nop.
  - apply sem_of_get.
  - apply sem_of_det.
Qed.

(* C01: for every program of the fragment, every owner assignment, every resharing plan and every
   value of the PRF masks, the shares computed by the compiled protocol add up to the value the
   source graph computes. *)
From Coq Require Import Ring.
From CC Require Import Base.Prelude Model.MpcShallow.

Section Proofs.
  Variable V : Type.
  Variables (v0 v1 : V) (vadd vmul vsub : V -> V -> V) (vopp : V -> V).
  Hypothesis Vring : ring_theory v0 v1 vadd vmul vsub vopp eq.
  Add Ring Vr : Vring.
  Variable bil : nat -> V -> V -> V.
  Variable lin : nat -> V -> V.
  Hypothesis bil_add_l : forall k a a' b, bil k (vadd a a') b = vadd (bil k a b) (bil k a' b).
  Hypothesis bil_add_r : forall k a b b', bil k a (vadd b b') = vadd (bil k a b) (bil k a b').
  Hypothesis lin_add : forall k a b, lin k (vadd a b) = vadd (lin k a) (lin k b).

  Notation csum := (csum V vadd).
  Notation cv := (cv V).
  Notation ceval_node := (ceval_node V v0 vadd vsub bil lin).
  Notation seval_node := (seval_node V v0 vadd vsub bil lin).

  Lemma bil_zero_l k b : bil k v0 b = v0.
  Proof.
    assert (H : vadd (bil k v0 b) (bil k v0 b) = vadd (bil k v0 b) v0).
    { rewrite <- bil_add_l. replace (vadd v0 v0) with v0 by ring. ring. }
    assert (G : forall x y, vadd x y = vadd x v0 -> y = v0).
    { intros x y E. replace y with (vsub (vadd x y) x) by ring. rewrite E. ring. }
    eapply G; eauto.
  Qed.
  Lemma bil_zero_r k a : bil k a v0 = v0.
  Proof.
    assert (H : vadd (bil k a v0) (bil k a v0) = vadd (bil k a v0) v0).
    { rewrite <- bil_add_r. replace (vadd v0 v0) with v0 by ring. ring. }
    assert (G : forall x y, vadd x y = vadd x v0 -> y = v0).
    { intros x y E. replace y with (vsub (vadd x y) x) by ring. rewrite E. ring. }
    eapply G; eauto.
  Qed.
  Lemma lin_zero k : lin k v0 = v0.
  Proof.
    assert (H : vadd (lin k v0) (lin k v0) = vadd (lin k v0) v0).
    { rewrite <- lin_add. replace (vadd v0 v0) with v0 by ring. ring. }
    assert (G : forall x y, vadd x y = vadd x v0 -> y = v0).
    { intros x y E. replace y with (vsub (vadd x y) x) by ring. rewrite E. ring. }
    eapply G; eauto.
  Qed.

  (* a pseudo-random zero sharing adds up to zero whatever the three PRF values are *)
  Lemma zero_shares_sum m :
    let '(a0, a1, a2) := zero_shares V vsub m in vadd (vadd a0 a1) a2 = v0.
  Proof. destruct m as [[p0 p1] p2]. cbn. ring. Qed.

  Lemma promote_sum c : let '(a, b, d) := promote V v0 c in vadd (vadd a b) d = csum c.
  Proof. destruct c; cbn; ring. Qed.

  Lemma share_input_sum p x m : csum (share_input V vadd vsub p x m) = x.
  Proof.
    destruct m as [[p0 p1] p2]. unfold share_input. cbn.
    destruct p as [|[|p]]; cbn; ring.
  Qed.

  (* the nine cross terms *)
  Lemma private_product_sum k a0 a1 a2 b0 b1 b2 :
    vadd (vadd (vadd (bil k a0 (vadd b0 b1)) (bil k a1 b0))
               (vadd (bil k a1 (vadd b1 b2)) (bil k a2 b1)))
         (vadd (bil k a2 (vadd b2 b0)) (bil k a0 b2))
    = bil k (vadd (vadd a0 a1) a2) (vadd (vadd b0 b1) b2).
  Proof. rewrite !bil_add_l, !bil_add_r. ring. Qed.

  Definition input_ok (i : cinput V) : Prop := True.

  (* one node: if the compiled values of the dependencies add up to their source values, so does
     the compiled value of the node *)
  Lemma node_sound (env : list V) (cenv : list cv) ins cins nd m rs :
    Forall2 (fun c v => csum c = v) cenv env ->
    Forall2 (fun ci v => cinput_value V vadd ci = v) cins ins ->
    let '(v, ins') := seval_node env ins nd in
    let '(c, cins') := ceval_node cenv cins nd m rs in
    csum c = v /\ Forall2 (fun ci v => cinput_value V vadd ci = v) cins' ins'.
  Proof.
    intros FE FI.
    assert (D : forall k, csum (cdep V v0 cenv (s_deps V nd) k) = dep V v0 env (s_deps V nd) k).
    { intros k. unfold cdep, dep. generalize (nth k (s_deps V nd) O). intros j. clear -FE Vring.
      revert j. induction FE as [|c v cenv env H _ IH]; intros [|j]; cbn; auto; ring. }
    unfold seval_node, ceval_node.
    set (x := cdep V v0 cenv (s_deps V nd) 0). set (y := cdep V v0 cenv (s_deps V nd) 1).
    pose proof (D 0%nat) as Dx. pose proof (D 1%nat) as Dy. fold x in Dx. fold y in Dy.
    assert (RS : forall r, csum (match r with
         | CPriv _ z0 z1 z2 => if rs then let '(q0, q1, q2) := zero_shares V vsub m in
                                   CPriv V (vadd z0 q0) (vadd z1 q1) (vadd z2 q2) else r
         | CPub _ _ => r end) = csum r).
    { intros r. destruct r as [v|z0 z1 z2]; auto. destruct rs; auto.
      destruct m as [[p0 p1] p2]. cbn. ring. }
    destruct (s_op V nd) as [ | c | | | k | k] eqn:EO.
    - (* input *)
      destruct FI as [|ci v cins ins Hc FI']; cbn [hd tl].
      + cbn. split; [ring|constructor].
      + destruct ci as [xv|p xv|a b c0]; cbn [cinput_value] in Hc.
        * cbn. split; auto.
        * split; auto. pose proof (RS (share_input V vadd vsub p xv m)) as R.
          pose proof (share_input_sum p xv m) as SI.
          destruct (share_input V vadd vsub p xv m) as [?|z0 z1 z2] eqn:ES.
          -- cbn in *. congruence.
          -- rewrite R. congruence.
        * split; auto. pose proof (RS (CPriv V a b c0)) as R. rewrite R. exact Hc.
    - cbn. split; auto.
    - (* add *)
      split; auto.
      destruct (is_priv V x || is_priv V y) eqn:P.
      + pose proof (promote_sum x) as Px. pose proof (promote_sum y) as Py.
        destruct (promote V v0 x) as [[a0 a1] a2]. destruct (promote V v0 y) as [[b0 b1] b2].
        pose proof (RS (CPriv V (vadd a0 b0) (vadd a1 b1) (vadd a2 b2))) as R. rewrite R.
        cbn. rewrite <- Dx, <- Dy, <- Px, <- Py. ring.
      + cbn. rewrite Dx, Dy. reflexivity.
    - (* sub *)
      split; auto.
      destruct (is_priv V x || is_priv V y) eqn:P.
      + pose proof (promote_sum x) as Px. pose proof (promote_sum y) as Py.
        destruct (promote V v0 x) as [[a0 a1] a2]. destruct (promote V v0 y) as [[b0 b1] b2].
        pose proof (RS (CPriv V (vsub a0 b0) (vsub a1 b1) (vsub a2 b2))) as R. rewrite R.
        cbn. rewrite <- Dx, <- Dy, <- Px, <- Py. ring.
      + cbn. rewrite Dx, Dy. reflexivity.
    - (* bilinear *)
      split; auto. rewrite <- Dx, <- Dy.
      destruct x as [a|a0 a1 a2], y as [b|b0 b1 b2].
      + cbn. reflexivity.
      + pose proof (RS (CPriv V (bil k a b0) (bil k a b1) (bil k a b2))) as R. rewrite R.
        cbn. rewrite !bil_add_r. reflexivity.
      + pose proof (RS (CPriv V (bil k a0 b) (bil k a1 b) (bil k a2 b))) as R. rewrite R.
        cbn. rewrite !bil_add_l. reflexivity.
      + pose proof (RS (CPriv V (vadd (bil k a0 (vadd b0 b1)) (bil k a1 b0)) (vadd (bil k a1 (vadd b1 b2)) (bil k a2 b1)) (vadd (bil k a2 (vadd b2 b0)) (bil k a0 b2)))) as R. rewrite R.
        cbn [csum]. apply private_product_sum.
    - (* lifted unary *)
      split; auto. rewrite <- Dx.
      destruct x as [a|a0 a1 a2].
      + cbn. reflexivity.
      + pose proof (RS (CPriv V (lin k a0) (lin k a1) (lin k a2))) as R. rewrite R.
        cbn. rewrite !lin_add. reflexivity.
  Qed.

  Theorem ceval_sound nodes : forall env cenv ins cins masks plan,
    Forall2 (fun c v => csum c = v) cenv env ->
    Forall2 (fun ci v => cinput_value V vadd ci = v) cins ins ->
    Forall2 (fun c v => csum c = v)
            (ceval V v0 vadd vsub bil lin nodes cenv cins masks plan)
            (seval V v0 vadd vsub bil lin nodes env ins).
  Proof.
    induction nodes as [|nd nodes IH]; intros env cenv ins cins masks plan FE FI; cbn [ceval seval].
    - exact FE.
    - pose proof (node_sound env cenv ins cins nd (masks (length cenv)) (plan (length cenv)) FE FI) as NS.
      destruct (seval_node env ins nd) as [v ins'].
      destruct (ceval_node cenv cins nd (masks (length cenv)) (plan (length cenv))) as [c cins'].
      destruct NS as [N1 N2]. apply IH; auto.
      apply Forall2_app; auto.
  Qed.
End Proofs.
